// mapranges regenerates lean/BandVerif/Generated/MapRanges.lean: every `range` over a map-typed expression, every
// goroutine start, `select`, and every use of time.Now / math/rand / crypto/rand in the consensus packages of the
// repository (x/..., app, pkg/..., non-test files, excluding client/cli/simulation/testutil code), found with full
// type information (go/packages).  Each site is rendered as package-relative-file:function:normalised-source.
package main

import (
	"flag"
	"fmt"
	"go/ast"
	"go/printer"
	"go/token"
	"go/types"
	"os"
	"path/filepath"
	"sort"
	"strings"

	"golang.org/x/tools/go/packages"
)

func norm(fset *token.FileSet, n ast.Node) string {
	var b strings.Builder
	printer.Fprint(&b, fset, n)
	s := b.String()
	var o strings.Builder
	for _, c := range s {
		if c == ' ' || c == '\t' || c == '\n' {
			continue
		}
		o.WriteRune(c)
	}
	return o.String()
}

func leanStr(s string) string {
	var b strings.Builder
	b.WriteByte('"')
	for _, c := range s {
		switch c {
		case '"':
			b.WriteString("\\\"")
		case '\\':
			b.WriteString("\\\\")
		default:
			b.WriteRune(c)
		}
	}
	b.WriteByte('"')
	return b.String()
}

func main() {
	repo := flag.String("repo", "/repo", "repository root")
	out := flag.String("out", "/verif/lean/BandVerif/Generated", "output directory")
	flag.Parse()
	cfg := &packages.Config{Mode: packages.NeedName | packages.NeedFiles | packages.NeedSyntax | packages.NeedTypes | packages.NeedTypesInfo | packages.NeedImports,
		Dir: *repo, Env: append(os.Environ(), "GOFLAGS=-mod=readonly", "GOPROXY=off", "GOSUMDB=off")}
	pkgs, err := packages.Load(cfg, "./x/...", "./app/...", "./pkg/...")
	if err != nil {
		fmt.Fprintln(os.Stderr, "mapranges: load:", err)
		os.Exit(1)
	}
	var mapRanges, concurrency, clocks, recovers, cacheCtxs, panics, musts []string
	seenRange := map[*ast.RangeStmt]bool{}
	skipDir := func(p string) bool {
		for _, s := range []string{"/client/", "/simulation/", "/testutil", "/mocks", "/benchmark"} {
			if strings.Contains(p, s) {
				return true
			}
		}
		return false
	}
	for _, pk := range pkgs {
		if len(pk.Errors) > 0 {
			fmt.Fprintln(os.Stderr, "mapranges: package errors in", pk.PkgPath, pk.Errors[0])
			os.Exit(1)
		}
		for _, f := range pk.Syntax {
			file := pk.Fset.Position(f.Pos()).Filename
			rel, _ := filepath.Rel(*repo, file)
			if strings.HasSuffix(file, "_test.go") || strings.HasSuffix(file, ".pb.go") || strings.HasSuffix(file, ".pb.gw.go") || strings.HasSuffix(file, "_verif.go") || skipDir("/"+rel) {
				continue
			}
			var fn string
			panicsIn := map[string]int{}
			mustIn := map[string]int{}
			keeperFile := (strings.Contains(rel, "/keeper/") || strings.HasSuffix(rel, "/abci.go")) && strings.HasPrefix(rel, "x/") &&
				!strings.HasSuffix(rel, "genesis.go") && !strings.Contains(rel, "grpc_query") && !strings.Contains(rel, "snapshotter") && !strings.Contains(rel, "migrations")
			ast.Inspect(f, func(n ast.Node) bool {
				switch x := n.(type) {
				case *ast.FuncDecl:
					fn = x.Name.Name
					if x.Recv != nil && len(x.Recv.List) > 0 {
						fn = norm(pk.Fset, x.Recv.List[0].Type) + "." + fn
					}
				case *ast.BlockStmt:
					// a map range is rendered whole, together with the statement that follows it when that is a sort call
					for i, st := range x.List {
						rs, ok := st.(*ast.RangeStmt)
						if !ok {
							continue
						}
						t := pk.TypesInfo.TypeOf(rs.X)
						if t == nil {
							continue
						}
						if _, ok := t.Underlying().(*types.Map); !ok {
							continue
						}
						site := rel + ":" + fn + ":" + norm(pk.Fset, rs)
						if i+1 < len(x.List) {
							if es, ok := x.List[i+1].(*ast.ExprStmt); ok {
								if nx := norm(pk.Fset, es); strings.HasPrefix(nx, "sort.") || strings.HasPrefix(nx, "slices.Sort") {
									site += " ;then " + nx
								}
							}
						}
						mapRanges = append(mapRanges, site)
						seenRange[rs] = true
					}
				case *ast.RangeStmt:
					if t := pk.TypesInfo.TypeOf(x.X); t != nil && !seenRange[x] {
						if _, ok := t.Underlying().(*types.Map); ok {
							// not directly inside a block (label, case clause): rendered without a follower
							defer func(x *ast.RangeStmt, fn string) {
								if !seenRange[x] {
									mapRanges = append(mapRanges, rel+":"+fn+":"+norm(pk.Fset, x))
								}
							}(x, fn)
						}
					}
				case *ast.GoStmt:
					concurrency = append(concurrency, rel+":"+fn+":go")
				case *ast.SelectStmt:
					concurrency = append(concurrency, rel+":"+fn+":select")
				case *ast.CallExpr:
					if id, ok := x.Fun.(*ast.Ident); ok {
						if _, isBuiltin := pk.TypesInfo.Uses[id].(*types.Builtin); isBuiltin {
							switch id.Name {
							case "panic":
								if keeperFile {
									panicsIn[fn]++
								}
							case "recover":
								recovers = append(recovers, rel+":"+fn)
							}
						}
					}
					if se, ok := x.Fun.(*ast.SelectorExpr); ok && keeperFile && (strings.HasPrefix(se.Sel.Name, "MustGet") || se.Sel.Name == "MustAccAddressFromBech32") {
						mustIn[fn+":"+se.Sel.Name]++
					}
					if se, ok := x.Fun.(*ast.SelectorExpr); ok && se.Sel.Name == "CacheContext" && strings.HasPrefix(rel, "x/") {
						cacheCtxs = append(cacheCtxs, rel+":"+fn)
					}
				case *ast.SelectorExpr:
					if id, ok := x.X.(*ast.Ident); ok {
						if pn, ok := pk.TypesInfo.Uses[id].(*types.PkgName); ok {
							p := pn.Imported().Path()
							if (p == "time" && (x.Sel.Name == "Now" || x.Sel.Name == "Since" || x.Sel.Name == "Until")) || p == "math/rand" || p == "crypto/rand" || p == "math/rand/v2" {
								clocks = append(clocks, rel+":"+fn+":"+p+"."+x.Sel.Name)
							}
						}
					}
				}
				return true
			})
			for k, c := range mustIn {
				musts = append(musts, fmt.Sprintf("%s:%s*%d", rel, k, c))
			}
			for fn, c := range panicsIn {
				panics = append(panics, fmt.Sprintf("%s:%s:panic*%d", rel, fn, c))
			}
		}
	}
	for _, l := range []*[]string{&mapRanges, &concurrency, &clocks, &recovers, &cacheCtxs, &panics, &musts} {
		sort.Strings(*l)
	}
	var b strings.Builder
	b.WriteString("/- GENERATED by /verif/tools/mapranges (go/packages, full type information) from the current /repo source. DO NOT EDIT.\n   map-range sites, goroutine/select sites and clock/randomness uses in consensus packages -/\nnamespace BandVerif.Generated.MapRanges\n")
	wr := func(name string, l []string) {
		b.WriteString("def " + name + " : List String := [")
		for i, s := range l {
			if i > 0 {
				b.WriteString(",\n  ")
			}
			b.WriteString(leanStr(s))
		}
		b.WriteString("]\n")
	}
	wr("mapRanges", mapRanges)
	wr("concurrency", concurrency)
	wr("clocks", clocks)
	wr("recovers", recovers)
	wr("cacheContexts", cacheCtxs)
	wr("panics", panics)
	wr("mustCalls", musts)
	b.WriteString("end BandVerif.Generated.MapRanges\n")
	path := filepath.Join(*out, "MapRanges.lean")
	old, _ := os.ReadFile(path)
	if string(old) != b.String() {
		if err := os.WriteFile(path, []byte(b.String()), 0o644); err != nil {
			fmt.Fprintln(os.Stderr, err)
			os.Exit(1)
		}
	}
	fmt.Println("extracted MapRanges:", len(mapRanges), "map ranges,", len(concurrency), "concurrency sites,", len(clocks), "clock/rand uses")
}
