module mapranges

go 1.22.0

toolchain go1.23.5

require golang.org/x/tools v0.29.0

require (
	golang.org/x/mod v0.22.0 // indirect
	golang.org/x/sync v0.10.0 // indirect
)
