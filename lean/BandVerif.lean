import BandVerif.Common.Driver
