/-
C03 — threshold signing yields a valid group signature; bad shares rejected.
Model: Model/Frost.lean (one definition, instantiated on secp256k1 by the driver and on an arbitrary module over a
field here), Model/Lagrange.lean.  Lemmas: Lemmas/Frost.lean (Mathlib: modules, Lagrange interpolation).
-/
import BandVerif.Lemmas.Frost
import BandVerif.Model.Lagrange
import BandVerif.Model.FrostSrc
import BandVerif.Lemmas.GroupOrderPrime
import BandVerif.Lemmas.LagrangeTotal

namespace C03
open BandVerif BandVerif.Frost Polynomial Finset

/-- TIE to the source (1): normalised text of every modelled signing function. -/
theorem generated_sources_match :
    Generated.Frost.src_ComputeCoefficient = ExpectedSrc.Frost.src_ComputeCoefficient ∧
    Generated.Frost.src_ComputeCoefficientPreCompute = ExpectedSrc.Frost.src_ComputeCoefficientPreCompute ∧
    Generated.Frost.src_checkLagrangeInput = ExpectedSrc.Frost.src_checkLagrangeInput ∧
    Generated.Frost.src_ComputeLagrangeCoefficient = ExpectedSrc.Frost.src_ComputeLagrangeCoefficient ∧
    Generated.Frost.src_ComputeCommitment = ExpectedSrc.Frost.src_ComputeCommitment ∧
    Generated.Frost.src_ComputeOwnPubNonce = ExpectedSrc.Frost.src_ComputeOwnPubNonce ∧
    Generated.Frost.src_ComputeGroupPublicNonce = ExpectedSrc.Frost.src_ComputeGroupPublicNonce ∧
    Generated.Frost.src_CombineSignatures = ExpectedSrc.Frost.src_CombineSignatures ∧
    Generated.Frost.src_VerifySigningSignature = ExpectedSrc.Frost.src_VerifySigningSignature ∧
    Generated.Frost.src_VerifyGroupSigningSignature = ExpectedSrc.Frost.src_VerifyGroupSigningSignature ∧
    Generated.Frost.src_Sign = ExpectedSrc.Frost.src_Sign ∧
    Generated.Frost.src_Verify = ExpectedSrc.Frost.src_Verify ∧
    Generated.Frost.src_HashChallenge = ExpectedSrc.Frost.src_HashChallenge ∧
    Generated.Frost.src_HashBindingFactor = ExpectedSrc.Frost.src_HashBindingFactor ∧
    Generated.Frost.src_PointAddress = ExpectedSrc.Frost.src_PointAddress ∧
    Generated.Frost.src_schnorrVerify = ExpectedSrc.Frost.src_schnorrVerify ∧
    Generated.Frost.src_schnorrComputeSignatureS = ExpectedSrc.Frost.src_schnorrComputeSignatureS ∧
    Generated.Frost.src_SubmitSignature = ExpectedSrc.Frost.src_SubmitSignature ∧
    Generated.Frost.src_VerifySignatureR = ExpectedSrc.Frost.src_VerifySignatureR := by
  refine ⟨?_, ?_, ?_, ?_, ?_, ?_, ?_, ?_, ?_, ?_, ?_, ?_, ?_, ?_, ?_, ?_, ?_, ?_, ?_⟩ <;> rfl

/-- TIE to the source (2): the regenerated Lagrange tables are arithmetically right — every `PRIME_FACTORS[j]` multiplies
    back to j (j = 2..20, all present), every `PRECOMPUTED_POWERS[p][k]` is p^k and the table is long enough for any
    exponent that can occur below 20!, the modulus is the secp256k1 group order, and no product of distinct ids ≤ 20
    overflows int64. -/
theorem generated_tables_correct :
    Generated.Frost.groupOrder = 0xFFFFFFFFFFFFFFFFFFFFFFFFFFFFFFFEBAAEDCE6AF48A03BBFD25E8CD0364141 ∧
    (Generated.Frost.PRIME_FACTORS.map (·.1)) = [2, 3, 4, 5, 6, 7, 8, 9, 10, 11, 12, 13, 14, 15, 16, 17, 18, 19, 20] ∧
    (Generated.Frost.PRIME_FACTORS.all fun e => (e.2.map fun pe => pe.1 ^ pe.2).foldl (· * ·) 1 == e.1) = true ∧
    (Generated.Frost.PRIME_FACTORS.all fun e => e.2.all fun pe => (Generated.Frost.PRECOMPUTED_POWERS.any (·.1 == pe.1))) = true ∧
    (Generated.Frost.PRECOMPUTED_POWERS.all fun e => (List.range e.2.length).all fun k => e.2.getD k 0 == e.1 ^ k) = true ∧
    (Generated.Frost.PRECOMPUTED_POWERS.map fun e => (e.1, e.2.length)) = [(2, 19), (3, 9), (5, 5), (7, 3), (11, 2), (13, 2), (17, 2), (19, 2)] ∧
    ((List.range 20).map (· + 1)).foldl (· * ·) 1 < 2 ^ 63 := by
  refine ⟨by decide, by decide, by decide, by decide, by decide, by decide, by decide⟩

/-- the scalar structure the theorems below are stated for EXISTS for the curve in use: the regenerated group order is a
    prime (Pratt certificate, Lemmas/GroupOrderPrime.lean), so the scalars `ZMod groupOrder` form a field.  (That the
    curve points form a module over it whose base point has trivial annihilator is the elliptic-curve fact that remains
    assumed.) -/
theorem scalars_form_a_field : Nat.Prime Generated.Frost.groupOrder ∧ Pratt.groupOrder = Generated.Frost.groupOrder :=
  ⟨Pratt.groupOrder_prime, rfl⟩

noncomputable example : Field (ZMod Pratt.groupOrder) := inferInstance

variable {F V : Type} [Field F] [DecidableEq F] [AddCommGroup V] [Module F V] [DecidableEq V]

/-- PROPERTY (accepted exactly when correct): for a member with key share x (public key x·g) and assigned nonce k·g, the
    chain accepts a partial signature (R, z) for challenge c and Lagrange coefficient λ exactly when R is the assigned
    nonce point and z = k + c·λ·x.  Hence any single wrong component — nonce point, scalar, key share (signer),
    coefficient (committee) or challenge (message / group nonce / attempt) — is rejected. -/
theorem partial_accept_iff (g : V) (hg : ∀ a : F, a • g = 0 → a = 0) (k x z c lam : F) (R : V) :
    acceptPartial (modOps g) (k • g) R z c lam (x • g) = true ↔ R = k • g ∧ z = k + c * lam * x ∧ k ≠ 0 :=
  acceptPartial_iff g hg k x z c lam R

theorem honest_partial_accepted (g : V) (hg : ∀ a : F, a • g = 0 → a = 0) (k x c lam : F) (hk : k ≠ 0) :
    acceptPartial (modOps g) (k • g) (signPartial (modOps g) x k c lam).1 (signPartial (modOps g) x k c lam).2 c lam (x • g) = true := by
  rw [acceptPartial_iff g hg]
  refine ⟨rfl, ?_, hk⟩
  show c * lam * x + k = k + c * lam * x
  ring

theorem wrong_scalar_rejected (g : V) (hg : ∀ a : F, a • g = 0 → a = 0) (k x z c lam : F) (hz : z ≠ k + c * lam * x) :
    acceptPartial (modOps g) (k • g) (k • g) z c lam (x • g) = false := by
  cases h : acceptPartial (modOps g) (k • g) (k • g) z c lam (x • g) with
  | false => rfl
  | true => exact absurd ((acceptPartial_iff g hg k x z c lam _).mp h).2.1 hz

/-- the response for the NEGATED nonce under the assigned nonce point (z − 2k: then z·g − c·λ·Y = −R, the point with the same
    abscissa) is rejected whenever 2 ≠ 0 in the scalar field — a verifier that compared abscissas only would accept it
    (seed C03-12) -/
theorem negated_nonce_response_rejected (g : V) (hg : ∀ a : F, a • g = 0 → a = 0) (k x c lam : F) (hk : k ≠ 0) (h2 : (2 : F) ≠ 0) :
    acceptPartial (modOps g) (k • g) (k • g) (k + c * lam * x - 2 * k) c lam (x • g) = false := by
  apply wrong_scalar_rejected g hg
  intro h
  have : (2 : F) * k = 0 := by
    have e : k + c * lam * x - 2 * k = k + c * lam * x - 0 → (2 : F) * k = 0 := by
      intro e'
      have := sub_right_injective e'
      exact this
    apply e
    rw [h, sub_zero]
  rcases mul_eq_zero.mp this with a | a
  · exact h2 a
  · exact hk a

theorem wrong_nonce_point_rejected (g : V) (hg : ∀ a : F, a • g = 0 → a = 0) (k x z c lam : F) (R : V) (hR : R ≠ k • g) :
    acceptPartial (modOps g) (k • g) R z c lam (x • g) = false := by
  cases h : acceptPartial (modOps g) (k • g) R z c lam (x • g) with
  | false => rfl
  | true => exact absurd ((acceptPartial_iff g hg k x z c lam R).mp h).1 hR

/-- a partial signature correct for coefficient λ' (another committee) or share x' (another signer) is rejected -/
theorem wrong_committee_or_signer_rejected (g : V) (hg : ∀ a : F, a • g = 0 → a = 0) (k x x' c lam lam' : F)
    (hne : c * lam' * x' ≠ c * lam * x) :
    acceptPartial (modOps g) (k • g) (k • g) (k + c * lam' * x') c lam (x • g) = false := by
  apply wrong_scalar_rejected g hg
  intro h; exact hne (add_left_cancel h)

/-- PROPERTY (any threshold committee signs): if the key shares are the values f(i) of a polynomial of degree below the
    committee size with group key f(0)·g, then for EVERY committee s (any ids, any size above the degree) the
    combination of the members' correct partial signatures verifies under the group key — by Lagrange interpolation. -/
theorem aggregate_verifies (g : V) (f : F[X]) (s : Finset F) (hdeg : f.degree < s.card) (k : F → F) (c : F)
    (hR : ∑ i ∈ s, k i • g ≠ 0) :
    verifyGroup (modOps g) (combine (modOps g) (s.toList.map fun i => signPartial (modOps g) (f.eval i) (k i) c (lagrangeAtZero s i))) c (f.eval 0 • g) = true := by
  unfold verifyGroup combine
  rw [schnorrVerify_iff, sumG_eq, sumS_eq]
  simp only [List.map_map]
  have e1 : (List.map (Prod.fst ∘ fun i => signPartial (modOps g) (f.eval i) (k i) c (lagrangeAtZero s i)) s.toList).sum = ∑ i ∈ s, k i • g := by
    rw [show (Prod.fst ∘ fun i => signPartial (modOps g) (f.eval i) (k i) c (lagrangeAtZero s i)) = fun i => k i • g from rfl]
    exact Finset.sum_map_toList s _
  have e2 : (List.map (Prod.snd ∘ fun i => signPartial (modOps g) (f.eval i) (k i) c (lagrangeAtZero s i)) s.toList).sum =
      ∑ i ∈ s, (c * lagrangeAtZero s i * f.eval i + k i) := by
    rw [show (Prod.snd ∘ fun i => signPartial (modOps g) (f.eval i) (k i) c (lagrangeAtZero s i)) =
      fun i => c * lagrangeAtZero s i * f.eval i + k i from rfl]
    exact Finset.sum_map_toList s _
  rw [e1, e2]
  refine ⟨?_, hR⟩
  have : ∑ i ∈ s, c * lagrangeAtZero s i * f.eval i = c * f.eval 0 := by
    rw [← lagrange_interpolates f s hdeg, Finset.mul_sum]
    apply Finset.sum_congr rfl; intro i _; ring
  rw [Finset.sum_add_distrib, this, add_smul, mul_smul, Finset.sum_smul]; abel

/-! ## the Lagrange coefficients the chain computes -/

/-- PROPERTY (the chain's coefficient routine): whenever `ComputeLagrangeCoefficient` (input check + the precomputed-table
    routine for ids ≤ 20 or the generic big-integer routine otherwise) returns a value without error, for member ids that
    are positive and below the group order, the member list has no duplicates, contains the member, and the value IS the
    Lagrange coefficient at 0 of that member within the member set, in the field of scalars `ZMod groupOrder`.
    (The converse — it always returns for valid input — is `chain_coefficient_total_and_correct`.) -/
theorem chain_coefficient_is_lagrange (mid : Nat) (l : List Nat) (hpos : ∀ j ∈ l, 1 ≤ j ∧ j < Lagrange.N) (r : Nat)
    (h : Lagrange.coefficient mid l = (some r, Lagrange.LErr.ok)) :
    l.Nodup ∧ mid ∈ l ∧
    ((r : ℕ) : ZMod Lagrange.N) = lagrangeAtZero (l.toFinset.image (Nat.cast : ℕ → ZMod Lagrange.N)) (mid : ZMod Lagrange.N) :=
  Lagrange.coefficient_is_lagrangeAtZero mid l hpos r h

/-- PROPERTY (the chain's coefficient routine is total and correct): for EVERY list of distinct member ids that are positive
    and below the group order and every member of it, `ComputeLagrangeCoefficient` returns without error — the int64
    prime-factor-table routine never indexes outside its tables and never overflows, the generic routine inverts by Fermat —
    and the value is the Lagrange coefficient at 0 of that member within the member set -/
theorem chain_coefficient_total_and_correct (mid : Nat) (l : List Nat) (hnd : l.Nodup) (hmem : mid ∈ l)
    (hpos : ∀ j ∈ l, 1 ≤ j ∧ j < Lagrange.N) :
    ∃ r, Lagrange.coefficient mid l = (some r, Lagrange.LErr.ok) ∧
      ((r : ℕ) : ZMod Lagrange.N) = lagrangeAtZero (l.toFinset.image (Nat.cast : ℕ → ZMod Lagrange.N)) (mid : ZMod Lagrange.N) :=
  Lagrange.coefficient_total_and_correct mid l hnd hmem hpos

/-- PROPERTY (the chain's coefficients reconstruct the group secret): if the chain's routine returned a coefficient λ_i for
    every member i of a committee, then Σ λ_i · f(i) = f(0) for every polynomial f of degree below the committee size —
    the interpolation fact behind `aggregate_verifies`, now for the coefficients the code actually computes -/
theorem chain_coefficients_interpolate (l : List Nat) (hne : l ≠ []) (hpos : ∀ j ∈ l, 1 ≤ j ∧ j < Lagrange.N)
    (f : (ZMod Lagrange.N)[X]) (hdeg : f.degree < l.length) (lam : Nat → Nat)
    (h : ∀ i ∈ l, Lagrange.coefficient i l = (some (lam i), Lagrange.LErr.ok)) :
    ∑ i ∈ l.toFinset, ((lam i : ℕ) : ZMod Lagrange.N) * f.eval (i : ZMod Lagrange.N) = f.eval 0 := by
  obtain ⟨i0, hi0⟩ := List.exists_mem_of_ne_nil l hne
  obtain ⟨hnd, _, _⟩ := chain_coefficient_is_lagrange i0 l hpos (lam i0) (h i0 hi0)
  have hinj : Set.InjOn (Nat.cast : ℕ → ZMod Lagrange.N) (l.toFinset : Finset ℕ) := by
    intro a ha b hb hab
    exact Lagrange.cast_inj_lt a b (hpos a (List.mem_toFinset.mp ha)).2 (hpos b (List.mem_toFinset.mp hb)).2 hab
  have hcard : (l.toFinset.image (Nat.cast : ℕ → ZMod Lagrange.N)).card = l.length := by
    rw [Finset.card_image_of_injOn hinj, List.toFinset_card_of_nodup hnd]
  have := lagrange_interpolates f (l.toFinset.image (Nat.cast : ℕ → ZMod Lagrange.N)) (by rw [hcard]; exact hdeg)
  rw [Finset.sum_image hinj] at this
  rw [← this]
  apply Finset.sum_congr rfl
  intro i hi
  obtain ⟨_, _, e⟩ := chain_coefficient_is_lagrange i l hpos (lam i) (h i (List.mem_toFinset.mp hi))
  rw [e]

/-- the hypotheses are met: the routine returns for a table committee and for a committee with an id above 20 -/
example : (Lagrange.coefficient 3 [1, 3, 7]).2 = Lagrange.LErr.ok ∧ (Lagrange.coefficient 3 [1, 3, 7]).1.isSome = true ∧
          (Lagrange.coefficient 3 [1, 3, 25]).2 = Lagrange.LErr.ok ∧ (Lagrange.coefficient 3 [1, 3, 25]).1.isSome = true := by decide +kernel

/-- a group signature accepted by `VerifyGroupSigningSignature` satisfies the Schnorr equation for the group key -/
theorem group_verify_iff (g : V) (R : V) (z c : F) (Y : V) :
    verifyGroup (modOps g) (R, z) c Y = true ↔ z • g - c • Y = R ∧ R ≠ 0 := schnorrVerify_iff g R z c Y

/-! non-vacuity -/
example : (Lagrange.coefficient 1 [1, 2, 3]).1 = some 3 := by decide +kernel
example : (Lagrange.coefficient 2 [1, 2, 2]).2 = Lagrange.LErr.duplicate ∧ (Lagrange.coefficient 4 [1, 2, 3]).2 = Lagrange.LErr.notInList := by decide

end C03
