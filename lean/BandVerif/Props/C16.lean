/-
C16 — restake: locked power cannot be withdrawn; stakes are fully backed.
Model: Model/Restake.lean (staking hooks at their call sites, validators bonded at rate 1).
-/
import BandVerif.Lemmas.Restake

namespace C16
open BandVerif.Restake

/-- the largest-lock condition the property speaks about: every lock of the account that sits in a
    still-active vault is covered by `power` -/
def Covers (s : State) (a : Acct) (power : Nat) : Prop :=
  ∀ k p, k ∈ s.lockKeys a → s.locks a k = some p → s.vaults k = some true → p ≤ power

/-- the index walk (`isValidPower`: reverse iteration over `be64(power) ‖ key`, first ACTIVE vault
    decides) is exactly `Covers` — in particular locks in deactivated vaults stop constraining. -/
theorem isValidPower_is_covers (s : State) (a : Acct) (power : Nat) :
    isValidPower s a power = true ↔ Covers s a power := by
  rw [isValidPower_iff]
  constructor
  · intro h k p hk hl hv
    exact h (p, k) ((mem_indexEntries s a p k).mpr ⟨hk, hl⟩) (by simp [isActiveVault, hv])
  · intro h e he hea
    obtain ⟨hk, hl⟩ := (mem_indexEntries s a e.1 e.2).mp he
    exact h e.2 e.1 hk hl (by simpa [isActiveVault] using hea)

theorem covers_congr (s s' : State) (a : Acct) (p : Nat) (h1 : s'.lockKeys = s.lockKeys) (h2 : s'.locks = s.locks)
    (h3 : s'.vaults = s.vaults) (h : Covers s a p) : Covers s' a p := by
  intro k q hk hl hv
  rw [h1] at hk; rw [h2] at hl; rw [h3] at hv
  exact h k q hk hl hv

/-- PROPERTY: a successful unstake leaves the total power covering every active lock; a rejected one changes nothing. -/
theorem unstake_respects_locks (s : State) (a : Acct) (d : String) (amt : Nat) :
    ((unstakeOp s a d amt).2 = Err.ok → Covers (unstakeOp s a d amt).1 a (totalPower (unstakeOp s a d amt).1 a)) ∧
    ((unstakeOp s a d amt).2 ≠ Err.ok → (unstakeOp s a d amt).1 = s) := by
  unfold unstakeOp
  by_cases h1 : s.stake a d < amt
  · simp [h1]
  · by_cases h2 : isValidPower (subStake s a d amt) a (totalPower (subStake s a d amt) a) = true
    · simp only [h1, h2, if_true, if_false]
      refine ⟨fun _ => ?_, fun h => absurd rfl h⟩
      exact covers_congr (subStake s a d amt) _ a _ rfl rfl rfl ((isValidPower_is_covers _ _ _).mp h2)
    · simp [h1, h2]

/-- PROPERTY: a successful undelegation (partial or full removal) leaves the total power covering every
    active lock; a rejected one changes nothing. -/
theorem undelegate_respects_locks (s : State) (a : Acct) (v : Val) (amt : Nat) :
    ((undelegateOp s a v amt).2 = Err.ok → Covers (undelegateOp s a v amt).1 a (totalPower (undelegateOp s a v amt).1 a)) ∧
    ((undelegateOp s a v amt).2 ≠ Err.ok → (undelegateOp s a v amt).1 = s) := by
  unfold undelegateOp
  by_cases h2 : unbondCheck s a v amt = true
  · simp only [h2, if_true]
    refine ⟨fun _ => ?_, fun h => absurd rfl h⟩
    unfold unbondCheck at h2
    exact (isValidPower_is_covers _ _ _).mp h2
  · simp [h2]

/-- PROPERTY: a successful redelegation leaves the total power covering every active lock (it is even
    checked on the intermediate state); a rejected one changes nothing. -/
theorem redelegate_respects_locks (s : State) (a : Acct) (src dst : Val) (amt : Nat) :
    ((redelegateOp s a src dst amt).2 = Err.ok →
        Covers (redelegateOp s a src dst amt).1 a (totalPower (redelegateOp s a src dst amt).1 a)) ∧
    ((redelegateOp s a src dst amt).2 ≠ Err.ok → (redelegateOp s a src dst amt).1 = s) := by
  unfold redelegateOp
  by_cases h1 : unbondCheck s a src amt = true
  · by_cases h2 : isValidPower (addDeleg (subDeleg s a src amt) a dst amt) a
        (totalPower (addDeleg (subDeleg s a src amt) a dst amt) a) = true
    · simp only [h1, h2, if_true]
      exact ⟨fun _ => (isValidPower_is_covers _ _ _).mp h2, fun h => absurd rfl h⟩
    · simp [h1, h2]
  · simp [h1]

/-- PROPERTY: locks can be set only up to the current total power (and below 2^64) and only in an active
    vault (created active on first use); a rejected SetLockedPower changes nothing. -/
theorem lock_bounded (s : State) (a : Acct) (k : String) (power : Int) :
    ((setLockOp s a k power).2 = Err.ok →
        0 ≤ power ∧ power < 18446744073709551616 ∧ power ≤ (totalPower s a : Int) ∧
        (setLockOp s a k power).1.vaults k = some true ∧ s.vaults k ≠ some false ∧
        (setLockOp s a k power).1.locks a k = some power.toNat) ∧
    ((setLockOp s a k power).2 ≠ Err.ok → (setLockOp s a k power).1 = s) := by
  unfold setLockOp
  by_cases h1 : power < 0 ∨ power ≥ 18446744073709551616
  · simp [h1]
  · simp only [h1, if_false]
    by_cases h2 : (totalPower s a : Int) < power
    · simp [h2]
    · simp only [h2, if_false]
      cases hv : s.vaults k with
      | none =>
        simp only [isActiveVault]
        simp
        omega
      | some b =>
        cases b with
        | false => simp [isActiveVault, hv]
        | true => simp [isActiveVault, hv]; omega

/-- one operation of a history -/
inductive Op
  | stake (a : Acct) (d : String) (amt : Nat) | unstake (a : Acct) (d : String) (amt : Nat)
  | delegate (a : Acct) (v : Val) (amt : Nat) | undelegate (a : Acct) (v : Val) (amt : Nat)
  | redelegate (a : Acct) (src dst : Val) (amt : Nat) | setLock (a : Acct) (k : String) (p : Int)
  | deactivate (k : String) | setAllowed (l : List String)

def apply (s : State) : Op → State
  | .stake a d n => (stakeOp s a d n).1
  | .unstake a d n => (unstakeOp s a d n).1
  | .delegate a v n => (delegateOp s a v n).1
  | .undelegate a v n => (undelegateOp s a v n).1
  | .redelegate a x y n => (redelegateOp s a x y n).1
  | .setLock a k p => (setLockOp s a k p).1
  | .deactivate k => (deactivateOp s k).1
  | .setAllowed l => setAllowedOp s l

theorem step_keeps_inactive (s : State) (op : Op) (k : String) (h : s.vaults k = some false) :
    (apply s op).vaults k = some false := by
  cases op with
  | stake a d n => rw [show (apply s (Op.stake a d n)).vaults = s.vaults from by
      show (stakeOp s a d n).1.vaults = s.vaults
      unfold stakeOp; (repeat' split) <;> rfl]; exact h
  | unstake a d n => rw [show (apply s (Op.unstake a d n)).vaults = s.vaults from by
      show (unstakeOp s a d n).1.vaults = s.vaults
      unfold unstakeOp; (repeat' split) <;> rfl]; exact h
  | delegate a v n => rw [show (apply s (Op.delegate a v n)).vaults = s.vaults from by
      show (delegateOp s a v n).1.vaults = s.vaults
      unfold delegateOp; (repeat' split) <;> rfl]; exact h
  | undelegate a v n => rw [show (apply s (Op.undelegate a v n)).vaults = s.vaults from by
      show (undelegateOp s a v n).1.vaults = s.vaults
      unfold undelegateOp; (repeat' split) <;> rfl]; exact h
  | redelegate a x y n => rw [show (apply s (Op.redelegate a x y n)).vaults = s.vaults from by
      show (redelegateOp s a x y n).1.vaults = s.vaults
      unfold redelegateOp; (repeat' split) <;> rfl]; exact h
  | setLock a k' p =>
    show (setLockOp s a k' p).1.vaults k = some false
    unfold setLockOp
    by_cases h1 : p < 0 ∨ p ≥ 18446744073709551616
    · simp only [h1, if_true]; exact h
    · by_cases h2 : (totalPower s a : Int) < p
      · simp only [h1, h2, if_true, if_false]; exact h
      · simp only [h1, h2, if_false]
        cases hv : s.vaults k' with
        | none =>
          simp only [isActiveVault]
          by_cases e : k = k'
          · subst e; rw [h] at hv; cases hv
          · simp [e, h]
        | some b =>
          simp only []
          split <;> exact h
  | deactivate k' =>
    show (deactivateOp s k').1.vaults k = some false
    unfold deactivateOp
    cases hv : s.vaults k' with
    | none => exact h
    | some b =>
      cases b with
      | false => exact h
      | true =>
        simp only []
        by_cases e : k = k'
        · simp [e]
        · simp [e, h]
  | setAllowed l => exact h

/-- PROPERTY: a deactivated vault can never be reactivated — over every history of operations. -/
theorem deactivated_never_reactivated (ops : List Op) (s : State) (k : String) (h : s.vaults k = some false) :
    (ops.foldl apply s).vaults k = some false := by
  induction ops generalizing s with
  | nil => exact h
  | cons op rest ih => exact ih _ (step_keeps_inactive s op k h)

/-- PROPERTY: deactivation makes the vault's locks stop constraining: after it, `Covers` ignores them. -/
theorem deactivated_stops_constraining (s : State) (k : String) (a : Acct) (power : Nat)
    (h : (deactivateOp s k).2 = Err.ok)
    (hc : ∀ k' p, k' ≠ k → k' ∈ s.lockKeys a → s.locks a k' = some p → s.vaults k' = some true → p ≤ power) :
    Covers (deactivateOp s k).1 a power := by
  unfold deactivateOp at *
  cases hv : s.vaults k with
  | none => simp [hv] at h
  | some b =>
    cases b with
    | false => simp [hv] at h
    | true =>
      simp only [hv]
      intro k' p hk hl hvv
      by_cases e : k' = k
      · subst e; simp at hvv
      · simp only [e, if_false] at hvv
        exact hc k' p e hk hl hvv

/-- PROPERTY (fully backed): Stake and Unstake move exactly the staked amount between the account and the
    module account, so `module balance − recorded stake` of the acting account's denom is unchanged and
    nobody else's stake is touched. -/
theorem stake_unstake_backed (s : State) (a : Acct) (d : String) (amt : Nat) :
    ((stakeOp s a d amt).2 = Err.ok →
        (stakeOp s a d amt).1.moduleBal d = s.moduleBal d + amt ∧ (stakeOp s a d amt).1.stake a d = s.stake a d + amt ∧
        (∀ b d', (b, d') ≠ (a, d) → (stakeOp s a d amt).1.stake b d' = s.stake b d') ∧
        (∀ d', d' ≠ d → (stakeOp s a d amt).1.moduleBal d' = s.moduleBal d')) ∧
    ((unstakeOp s a d amt).2 = Err.ok →
        amt ≤ s.stake a d ∧
        (unstakeOp s a d amt).1.moduleBal d = s.moduleBal d - amt ∧ (unstakeOp s a d amt).1.stake a d = s.stake a d - amt ∧
        (unstakeOp s a d amt).1.bal a d = s.bal a d + amt ∧
        (∀ b d', (b, d') ≠ (a, d) → (unstakeOp s a d amt).1.stake b d' = s.stake b d') ∧
        (∀ d', d' ≠ d → (unstakeOp s a d amt).1.moduleBal d' = s.moduleBal d')) := by
  constructor
  · unfold stakeOp
    split; · simp
    split; · simp
    intro _
    refine ⟨by simp, by simp, fun b d' hne => ?_, fun d' hne => by simp [hne]⟩
    have : ¬ (b = a ∧ d' = d) := fun ⟨e1, e2⟩ => hne (by rw [e1, e2])
    simp [this]
  · unfold unstakeOp
    by_cases h1 : s.stake a d < amt
    · simp [h1]
    · by_cases h2 : isValidPower (subStake s a d amt) a (totalPower (subStake s a d amt) a) = true
      · simp only [h1, h2, if_true, if_false]
        intro _
        refine ⟨by omega, by simp [payOut, subStake], by simp [payOut, subStake], by simp [payOut, subStake],
          fun b d' hne => ?_, fun d' hne => by simp [payOut, subStake, hne]⟩
        have : ¬ (b = a ∧ d' = d) := fun ⟨e1, e2⟩ => hne (by rw [e1, e2])
        simp [payOut, subStake, this]
      · simp [h1, h2]

/-! ## whole histories: locked power is always covered -/

/-- every account's active locks are covered by its total power, and a lock entry's vault exists -/
structure LInv (s : State) : Prop where
  covered : ∀ a, Covers s a (totalPower s a)
  vault : ∀ a k p, s.locks a k = some p → (s.vaults k).isSome

theorem covers_transfer (s s' : State) (b : Acct) (p p' : Nat) (hk : s'.lockKeys b = s.lockKeys b) (hl : s'.locks b = s.locks b)
    (hv : ∀ k q, s.locks b k = some q → s'.vaults k = some true → s.vaults k = some true) (hp : p ≤ p') (h : Covers s b p) :
    Covers s' b p' := by
  intro k q hk' hl' hv'
  rw [hk] at hk'; rw [hl] at hl'
  exact Nat.le_trans (h k q hk' hl' (hv k q hl' hv')) hp

theorem sum_map_le_of_le (l : List String) (f g : String → Nat) (h : ∀ d, f d ≤ g d) : (l.map f).sum ≤ (l.map g).sum := by
  induction l with
  | nil => simp
  | cons x xs ih => simp only [List.map_cons, List.sum_cons]; have := h x; omega

/-- operations of a history other than a change of the allowed denoms (a governance change of what counts as power) -/
def OpOk : Op → Prop
  | .setAllowed _ => False
  | _ => True

theorem step_linv (s : State) (op : Op) (h : LInv s) (ok : OpOk op) : LInv (apply s op) := by
  cases op with
  | setAllowed l => exact absurd ok (by simp [OpOk])
  | stake a d n =>
    simp only [apply, stakeOp]
    split
    · exact h
    · split
      · exact h
      · refine ⟨fun b => ?_, h.vault⟩
        apply covers_transfer s _ b (totalPower s b) _ rfl rfl (fun _ _ _ hv => hv) ?_ (h.covered b)
        unfold totalPower delegated stakedPower
        apply Nat.add_le_add_left
        apply sum_map_le_of_le
        intro d'
        show s.stake b d' ≤ (if b = a ∧ d' = d then s.stake a d + n else s.stake b d')
        split
        · rename_i e; obtain ⟨rfl, rfl⟩ := e; omega
        · exact Nat.le_refl _
  | unstake a d n =>
    by_cases hok : (unstakeOp s a d n).2 = Err.ok
    · have hc := (unstake_respects_locks s a d n).1 hok
      -- the accepted state: stake of (a, d) reduced, coins paid out
      have hst : (apply s (.unstake a d n)) = payOut (subStake s a d n) a d n := by
        simp only [apply]
        unfold unstakeOp at hok ⊢
        split
        · rename_i h1; simp [h1] at hok
        · split
          · rfl
          · rename_i h1 h2; simp [h1, h2] at hok
      refine ⟨fun b => ?_, ?_⟩
      · by_cases e : b = a
        · subst e; exact hc
        · rw [hst]
          apply covers_transfer s _ b (totalPower s b) _ rfl rfl (fun _ _ _ hv => hv) ?_ (h.covered b)
          unfold totalPower delegated stakedPower payOut subStake
          simp only [e, false_and, if_false]; exact Nat.le_refl _
      · rw [hst]; exact h.vault
    · simp only [apply]; rw [(unstake_respects_locks s a d n).2 hok]; exact h
  | delegate a v n =>
    simp only [apply, delegateOp]
    split
    · exact h
    · split
      · rename_i hv
        refine ⟨fun b => ?_, h.vault⟩
        by_cases e : b = a
        · subst e
          have := (isValidPower_is_covers (addDeleg s b v n) b (totalPower (addDeleg s b v n) b)).mp hv
          exact covers_transfer (addDeleg s b v n) _ b _ _ rfl rfl (fun _ _ _ hv' => hv') (Nat.le_refl _) this
        · apply covers_transfer s _ b (totalPower s b) _ rfl rfl (fun _ _ _ hv' => hv') ?_ (h.covered b)
          unfold totalPower delegated stakedPower payBond addDeleg
          simp only [e, false_and, if_false]; exact Nat.le_refl _
      · exact h
  | undelegate a v n =>
    by_cases hok : (undelegateOp s a v n).2 = Err.ok
    · have hc := (undelegate_respects_locks s a v n).1 hok
      have hst : (apply s (.undelegate a v n)) = subDeleg s a v n := by
        simp only [apply]
        unfold undelegateOp at hok ⊢
        split
        · rfl
        · rename_i h1; simp [h1] at hok
      refine ⟨fun b => ?_, by rw [hst]; exact h.vault⟩
      by_cases e : b = a
      · subst e; exact hc
      · rw [hst]
        apply covers_transfer s _ b (totalPower s b) _ rfl rfl (fun _ _ _ hv => hv) ?_ (h.covered b)
        unfold totalPower delegated stakedPower subDeleg
        simp only [e, false_and, if_false]; exact Nat.le_refl _
    · simp only [apply]; rw [(undelegate_respects_locks s a v n).2 hok]; exact h
  | redelegate a x y n =>
    by_cases hok : (redelegateOp s a x y n).2 = Err.ok
    · have hc := (redelegate_respects_locks s a x y n).1 hok
      have hst : (apply s (.redelegate a x y n)) = addDeleg (subDeleg s a x n) a y n := by
        simp only [apply]
        unfold redelegateOp at hok ⊢
        split
        · split
          · rfl
          · rename_i h1 h2; simp [h1, h2] at hok
        · rename_i h1; simp [h1] at hok
      refine ⟨fun b => ?_, by rw [hst]; exact h.vault⟩
      by_cases e : b = a
      · subst e; exact hc
      · rw [hst]
        apply covers_transfer s _ b (totalPower s b) _ rfl rfl (fun _ _ _ hv => hv) ?_ (h.covered b)
        unfold totalPower delegated stakedPower addDeleg subDeleg
        simp only [e, false_and, if_false]; exact Nat.le_refl _
    · simp only [apply]; rw [(redelegate_respects_locks s a x y n).2 hok]; exact h
  | deactivate k =>
    simp only [apply, deactivateOp]
    cases hv : s.vaults k with
    | none => exact h
    | some b =>
      cases b with
      | false => exact h
      | true =>
        dsimp only
        refine ⟨fun a => ?_, ?_⟩
        · refine covers_transfer s _ a (totalPower s a) _ rfl rfl ?_ (Nat.le_refl _) (h.covered a)
          intro k' q _ hv'
          by_cases e : k' = k
          · subst e; simp at hv'
          · simpa [e] using hv'
        · intro a k' p hl
          show (if k' = k then some false else s.vaults k').isSome
          split
          · rfl
          · exact h.vault a k' p hl
  | setLock a k pw =>
    simp only [apply, setLockOp]
    split
    · exact h
    · split
      · exact h
      · rename_i hneg hpow
        -- the vault after GetOrCreateVault
        have key : ∀ (s1 : State), s1.deleg = s.deleg → s1.stake = s.stake → s1.allowed = s.allowed → s1.vals = s.vals → s1.locks = s.locks → s1.lockKeys = s.lockKeys →
            (∀ x, x ≠ k → s1.vaults x = s.vaults x) → (s.vaults k = none → s1.vaults k = some true) → (s.vaults k ≠ none → s1.vaults k = s.vaults k) →
            LInv (if !isActiveVault s1 k then s else
              { s1 with
                  locks := fun x y => if x = a ∧ y = k then some pw.toNat else s1.locks x y,
                  lockKeys := fun x => if x = a then insertKey (s1.lockKeys a) k else s1.lockKeys x }) := by
          intro s1 e1 e2 e3 e4 e5 e6 e7 e8 e9
          split
          · exact h
          · rename_i hact
            have hact' : s1.vaults k = some true := by simpa [isActiveVault] using hact
            have hpw : ∀ b, totalPower
                { s1 with
                    locks := fun x y => if x = a ∧ y = k then some pw.toNat else s1.locks x y,
                    lockKeys := fun x => if x = a then insertKey (s1.lockKeys a) k else s1.lockKeys x } b = totalPower s b := by
              intro b; unfold totalPower delegated stakedPower; simp only [e1, e2, e3, e4]
            refine ⟨fun b => ?_, ?_⟩
            · rw [hpw b]
              intro k' q hk' hl' hv'
              simp only at hk' hl' hv'
              by_cases e : b = a ∧ k' = k
              · obtain ⟨rfl, rfl⟩ := e
                simp only [and_self, if_true, Option.some.injEq] at hl'
                subst hl'
                have : (pw.toNat : Int) = pw := Int.toNat_of_nonneg (by omega)
                have hle : pw ≤ (totalPower s b : Int) := by omega
                omega
              · simp only [e, if_false] at hl'
                rw [e5] at hl'
                have hv'' : s.vaults k' = some true := by
                  by_cases ek : k' = k
                  · subst ek
                    cases hsv : s.vaults k' with
                    | none => have := h.vault b k' q hl'; rw [hsv] at this; cases this
                    | some bb => rw [e9 (by rw [hsv]; simp)] at hv'; rw [← hsv]; exact hv'
                  · rw [e7 k' ek] at hv'; exact hv'
                have hk'' : k' ∈ s.lockKeys b := by
                  by_cases eb : b = a
                  · subst eb
                    simp only [if_true] at hk'
                    rw [e6] at hk'
                    unfold insertKey at hk'
                    split at hk'
                    · exact hk'
                    · rcases List.mem_append.mp hk' with h1 | h1
                      · exact h1
                      · simp only [List.mem_singleton] at h1
                        exact absurd ⟨rfl, h1⟩ e
                  · simp only [eb, if_false] at hk'; rw [e6] at hk'; exact hk'
                exact h.covered b k' q hk'' hl' hv''
            · intro b k' q hl
              simp only at hl ⊢
              by_cases e : b = a ∧ k' = k
              · obtain ⟨rfl, rfl⟩ := e; rw [hact']; rfl
              · simp only [e, if_false] at hl
                rw [e5] at hl
                have := h.vault b k' q hl
                by_cases ek : k' = k
                · subst ek; rw [hact']; rfl
                · rw [e7 k' ek]; exact this
        have fst_ite : ∀ (c : Prop) [Decidable c] (x y : State) (e1 e2 : Err), (if c then (x, e1) else (y, e2)).1 = if c then x else y := by
          intro c _ x y e1 e2; split <;> rfl
        cases hsv : s.vaults k with
        | none =>
          simp only [fst_ite]
          exact key _ rfl rfl rfl rfl rfl rfl (fun x hx => if_neg hx) (fun _ => if_pos rfl) (fun hne => absurd hsv hne)
        | some bb =>
          simp only [fst_ite]
          exact key s rfl rfl rfl rfl rfl rfl (fun _ _ => rfl) (fun hn => by rw [hsv] at hn; cases hn) (fun _ => rfl)

/-- PROPERTY (locked power can never be withdrawn, over EVERY history): after any sequence of stakes, unstakes, delegations,
    undelegations, redelegations, lock changes and vault deactivations — accepted or rejected — every account's total power
    (bonded delegations + restaked allowed coins) still covers each of its locks on an active vault -/
theorem locks_always_covered (ops : List Op) (s : State) (h : LInv s) (ok : ∀ op ∈ ops, OpOk op) : LInv (ops.foldl apply s) := by
  induction ops generalizing s with
  | nil => exact h
  | cons op rest ih => exact ih _ (step_linv s op h (ok op (List.mem_cons_self ..))) (fun o ho => ok o (List.mem_cons_of_mem _ ho))

/-! non-vacuity -/
def demo : State :=
  { deleg := fun a v => if a = 0 ∧ v = 0 then 10 else 0, stake := fun a d => if a = 0 ∧ d = "uband" then 5 else 0,
    locks := fun a k => if a = 0 ∧ k = "feeds" then some 12 else none, lockKeys := fun a => if a = 0 then ["feeds"] else [],
    vaults := fun k => if k = "feeds" then some true else none, allowed := ["uband"], bal := fun _ _ => 0,
    moduleBal := fun d => if d = "uband" then 5 else 0, vals := [0, 1], denoms := ["uband"] }
example : isValidPower demo 0 12 = true ∧ isValidPower demo 0 11 = false := by
  simp [isValidPower, indexEntries, demo, firstActive, isActiveVault]
example : totalPower (subStake demo 0 "uband" 3) 0 = 12 ∧ totalPower (subStake demo 0 "uband" 4) 0 = 11 := by decide
example : (unstakeOp demo 0 "uband" 6).2 = Err.stakeNotEnough := by decide
example : (setLockOp demo 0 "feeds" 16).2 = Err.powerNotEnough := by decide
example : (setLockOp demo 0 "feeds" 15).2 = Err.ok := by decide
example : (deactivateOp demo "feeds").2 = Err.ok := by decide
/-- the demo state satisfies the history invariant (total power 15 covers the active lock of 12) -/
example : LInv demo := by
  refine ⟨?_, ?_⟩
  · intro a k p hk hl hv
    by_cases e : a = 0 ∧ k = "feeds"
    · obtain ⟨rfl, rfl⟩ := e
      simp [demo] at hl; subst hl
      simp [totalPower, delegated, stakedPower, demo]
    · simp [demo, e] at hl
  · intro a k p hl
    by_cases e : a = 0 ∧ k = "feeds"
    · obtain ⟨rfl, rfl⟩ := e; simp [demo]
    · simp [demo, e] at hl

end C16
