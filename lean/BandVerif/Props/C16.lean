/-
C16 — restake: locked power cannot be withdrawn; stakes are fully backed.
Model: Model/Restake.lean (staking hooks at their call sites, validators bonded at rate 1).
-/
import BandVerif.Lemmas.Restake

namespace C16
open BandVerif.Restake

/-- the largest-lock condition the property speaks about: every lock of the account that sits in a
    still-active vault is covered by `power` -/
def Covers (s : State) (a : Acct) (power : Nat) : Prop :=
  ∀ k p, k ∈ s.lockKeys a → s.locks a k = some p → s.vaults k = some true → p ≤ power

/-- the index walk (`isValidPower`: reverse iteration over `be64(power) ‖ key`, first ACTIVE vault
    decides) is exactly `Covers` — in particular locks in deactivated vaults stop constraining. -/
theorem isValidPower_is_covers (s : State) (a : Acct) (power : Nat) :
    isValidPower s a power = true ↔ Covers s a power := by
  rw [isValidPower_iff]
  constructor
  · intro h k p hk hl hv
    exact h (p, k) ((mem_indexEntries s a p k).mpr ⟨hk, hl⟩) (by simp [isActiveVault, hv])
  · intro h e he hea
    obtain ⟨hk, hl⟩ := (mem_indexEntries s a e.1 e.2).mp he
    exact h e.2 e.1 hk hl (by simpa [isActiveVault] using hea)

theorem covers_congr (s s' : State) (a : Acct) (p : Nat) (h1 : s'.lockKeys = s.lockKeys) (h2 : s'.locks = s.locks)
    (h3 : s'.vaults = s.vaults) (h : Covers s a p) : Covers s' a p := by
  intro k q hk hl hv
  rw [h1] at hk; rw [h2] at hl; rw [h3] at hv
  exact h k q hk hl hv

/-- PROPERTY: a successful unstake leaves the total power covering every active lock; a rejected one changes nothing. -/
theorem unstake_respects_locks (s : State) (a : Acct) (d : String) (amt : Nat) :
    ((unstakeOp s a d amt).2 = Err.ok → Covers (unstakeOp s a d amt).1 a (totalPower (unstakeOp s a d amt).1 a)) ∧
    ((unstakeOp s a d amt).2 ≠ Err.ok → (unstakeOp s a d amt).1 = s) := by
  unfold unstakeOp
  by_cases h1 : s.stake a d < amt
  · simp [h1]
  · by_cases h2 : isValidPower (subStake s a d amt) a (totalPower (subStake s a d amt) a) = true
    · simp only [h1, h2, if_true, if_false]
      refine ⟨fun _ => ?_, fun h => absurd rfl h⟩
      exact covers_congr (subStake s a d amt) _ a _ rfl rfl rfl ((isValidPower_is_covers _ _ _).mp h2)
    · simp [h1, h2]

/-- PROPERTY: a successful undelegation (partial or full removal) leaves the total power covering every
    active lock; a rejected one changes nothing. -/
theorem undelegate_respects_locks (s : State) (a : Acct) (v : Val) (amt : Nat) :
    ((undelegateOp s a v amt).2 = Err.ok → Covers (undelegateOp s a v amt).1 a (totalPower (undelegateOp s a v amt).1 a)) ∧
    ((undelegateOp s a v amt).2 ≠ Err.ok → (undelegateOp s a v amt).1 = s) := by
  unfold undelegateOp
  by_cases h2 : unbondCheck s a v amt = true
  · simp only [h2, if_true]
    refine ⟨fun _ => ?_, fun h => absurd rfl h⟩
    unfold unbondCheck at h2
    exact (isValidPower_is_covers _ _ _).mp h2
  · simp [h2]

/-- PROPERTY: a successful redelegation leaves the total power covering every active lock (it is even
    checked on the intermediate state); a rejected one changes nothing. -/
theorem redelegate_respects_locks (s : State) (a : Acct) (src dst : Val) (amt : Nat) :
    ((redelegateOp s a src dst amt).2 = Err.ok →
        Covers (redelegateOp s a src dst amt).1 a (totalPower (redelegateOp s a src dst amt).1 a)) ∧
    ((redelegateOp s a src dst amt).2 ≠ Err.ok → (redelegateOp s a src dst amt).1 = s) := by
  unfold redelegateOp
  by_cases h1 : unbondCheck s a src amt = true
  · by_cases h2 : isValidPower (addDeleg (subDeleg s a src amt) a dst amt) a
        (totalPower (addDeleg (subDeleg s a src amt) a dst amt) a) = true
    · simp only [h1, h2, if_true]
      exact ⟨fun _ => (isValidPower_is_covers _ _ _).mp h2, fun h => absurd rfl h⟩
    · simp [h1, h2]
  · simp [h1]

/-- PROPERTY: locks can be set only up to the current total power (and below 2^64) and only in an active
    vault (created active on first use); a rejected SetLockedPower changes nothing. -/
theorem lock_bounded (s : State) (a : Acct) (k : String) (power : Int) :
    ((setLockOp s a k power).2 = Err.ok →
        0 ≤ power ∧ power < 18446744073709551616 ∧ power ≤ (totalPower s a : Int) ∧
        (setLockOp s a k power).1.vaults k = some true ∧ s.vaults k ≠ some false ∧
        (setLockOp s a k power).1.locks a k = some power.toNat) ∧
    ((setLockOp s a k power).2 ≠ Err.ok → (setLockOp s a k power).1 = s) := by
  unfold setLockOp
  by_cases h1 : power < 0 ∨ power ≥ 18446744073709551616
  · simp [h1]
  · simp only [h1, if_false]
    by_cases h2 : (totalPower s a : Int) < power
    · simp [h2]
    · simp only [h2, if_false]
      cases hv : s.vaults k with
      | none =>
        simp only [isActiveVault]
        simp
        omega
      | some b =>
        cases b with
        | false => simp [isActiveVault, hv]
        | true => simp [isActiveVault, hv]; omega

/-- one operation of a history -/
inductive Op
  | stake (a : Acct) (d : String) (amt : Nat) | unstake (a : Acct) (d : String) (amt : Nat)
  | delegate (a : Acct) (v : Val) (amt : Nat) | undelegate (a : Acct) (v : Val) (amt : Nat)
  | redelegate (a : Acct) (src dst : Val) (amt : Nat) | setLock (a : Acct) (k : String) (p : Int)
  | deactivate (k : String) | setAllowed (l : List String)

def apply (s : State) : Op → State
  | .stake a d n => (stakeOp s a d n).1
  | .unstake a d n => (unstakeOp s a d n).1
  | .delegate a v n => (delegateOp s a v n).1
  | .undelegate a v n => (undelegateOp s a v n).1
  | .redelegate a x y n => (redelegateOp s a x y n).1
  | .setLock a k p => (setLockOp s a k p).1
  | .deactivate k => (deactivateOp s k).1
  | .setAllowed l => setAllowedOp s l

theorem step_keeps_inactive (s : State) (op : Op) (k : String) (h : s.vaults k = some false) :
    (apply s op).vaults k = some false := by
  cases op with
  | stake a d n => rw [show (apply s (Op.stake a d n)).vaults = s.vaults from by
      show (stakeOp s a d n).1.vaults = s.vaults
      unfold stakeOp; (repeat' split) <;> rfl]; exact h
  | unstake a d n => rw [show (apply s (Op.unstake a d n)).vaults = s.vaults from by
      show (unstakeOp s a d n).1.vaults = s.vaults
      unfold unstakeOp; (repeat' split) <;> rfl]; exact h
  | delegate a v n => rw [show (apply s (Op.delegate a v n)).vaults = s.vaults from by
      show (delegateOp s a v n).1.vaults = s.vaults
      unfold delegateOp; (repeat' split) <;> rfl]; exact h
  | undelegate a v n => rw [show (apply s (Op.undelegate a v n)).vaults = s.vaults from by
      show (undelegateOp s a v n).1.vaults = s.vaults
      unfold undelegateOp; (repeat' split) <;> rfl]; exact h
  | redelegate a x y n => rw [show (apply s (Op.redelegate a x y n)).vaults = s.vaults from by
      show (redelegateOp s a x y n).1.vaults = s.vaults
      unfold redelegateOp; (repeat' split) <;> rfl]; exact h
  | setLock a k' p =>
    show (setLockOp s a k' p).1.vaults k = some false
    unfold setLockOp
    by_cases h1 : p < 0 ∨ p ≥ 18446744073709551616
    · simp only [h1, if_true]; exact h
    · by_cases h2 : (totalPower s a : Int) < p
      · simp only [h1, h2, if_true, if_false]; exact h
      · simp only [h1, h2, if_false]
        cases hv : s.vaults k' with
        | none =>
          simp only [isActiveVault]
          by_cases e : k = k'
          · subst e; rw [h] at hv; cases hv
          · simp [e, h]
        | some b =>
          simp only []
          split <;> exact h
  | deactivate k' =>
    show (deactivateOp s k').1.vaults k = some false
    unfold deactivateOp
    cases hv : s.vaults k' with
    | none => exact h
    | some b =>
      cases b with
      | false => exact h
      | true =>
        simp only []
        by_cases e : k = k'
        · simp [e]
        · simp [e, h]
  | setAllowed l => exact h

/-- PROPERTY: a deactivated vault can never be reactivated — over every history of operations. -/
theorem deactivated_never_reactivated (ops : List Op) (s : State) (k : String) (h : s.vaults k = some false) :
    (ops.foldl apply s).vaults k = some false := by
  induction ops generalizing s with
  | nil => exact h
  | cons op rest ih => exact ih _ (step_keeps_inactive s op k h)

/-- PROPERTY: deactivation makes the vault's locks stop constraining: after it, `Covers` ignores them. -/
theorem deactivated_stops_constraining (s : State) (k : String) (a : Acct) (power : Nat)
    (h : (deactivateOp s k).2 = Err.ok)
    (hc : ∀ k' p, k' ≠ k → k' ∈ s.lockKeys a → s.locks a k' = some p → s.vaults k' = some true → p ≤ power) :
    Covers (deactivateOp s k).1 a power := by
  unfold deactivateOp at *
  cases hv : s.vaults k with
  | none => simp [hv] at h
  | some b =>
    cases b with
    | false => simp [hv] at h
    | true =>
      simp only [hv]
      intro k' p hk hl hvv
      by_cases e : k' = k
      · subst e; simp at hvv
      · simp only [e, if_false] at hvv
        exact hc k' p e hk hl hvv

/-- PROPERTY (fully backed): Stake and Unstake move exactly the staked amount between the account and the
    module account, so `module balance − recorded stake` of the acting account's denom is unchanged and
    nobody else's stake is touched. -/
theorem stake_unstake_backed (s : State) (a : Acct) (d : String) (amt : Nat) :
    ((stakeOp s a d amt).2 = Err.ok →
        (stakeOp s a d amt).1.moduleBal d = s.moduleBal d + amt ∧ (stakeOp s a d amt).1.stake a d = s.stake a d + amt ∧
        (∀ b d', (b, d') ≠ (a, d) → (stakeOp s a d amt).1.stake b d' = s.stake b d') ∧
        (∀ d', d' ≠ d → (stakeOp s a d amt).1.moduleBal d' = s.moduleBal d')) ∧
    ((unstakeOp s a d amt).2 = Err.ok →
        amt ≤ s.stake a d ∧
        (unstakeOp s a d amt).1.moduleBal d = s.moduleBal d - amt ∧ (unstakeOp s a d amt).1.stake a d = s.stake a d - amt ∧
        (unstakeOp s a d amt).1.bal a d = s.bal a d + amt ∧
        (∀ b d', (b, d') ≠ (a, d) → (unstakeOp s a d amt).1.stake b d' = s.stake b d') ∧
        (∀ d', d' ≠ d → (unstakeOp s a d amt).1.moduleBal d' = s.moduleBal d')) := by
  constructor
  · unfold stakeOp
    split; · simp
    split; · simp
    intro _
    refine ⟨by simp, by simp, fun b d' hne => ?_, fun d' hne => by simp [hne]⟩
    have : ¬ (b = a ∧ d' = d) := fun ⟨e1, e2⟩ => hne (by rw [e1, e2])
    simp [this]
  · unfold unstakeOp
    by_cases h1 : s.stake a d < amt
    · simp [h1]
    · by_cases h2 : isValidPower (subStake s a d amt) a (totalPower (subStake s a d amt) a) = true
      · simp only [h1, h2, if_true, if_false]
        intro _
        refine ⟨by omega, by simp [payOut, subStake], by simp [payOut, subStake], by simp [payOut, subStake],
          fun b d' hne => ?_, fun d' hne => by simp [payOut, subStake, hne]⟩
        have : ¬ (b = a ∧ d' = d) := fun ⟨e1, e2⟩ => hne (by rw [e1, e2])
        simp [payOut, subStake, this]
      · simp [h1, h2]

/-! non-vacuity -/
def demo : State :=
  { deleg := fun a v => if a = 0 ∧ v = 0 then 10 else 0, stake := fun a d => if a = 0 ∧ d = "uband" then 5 else 0,
    locks := fun a k => if a = 0 ∧ k = "feeds" then some 12 else none, lockKeys := fun a => if a = 0 then ["feeds"] else [],
    vaults := fun k => if k = "feeds" then some true else none, allowed := ["uband"], bal := fun _ _ => 0,
    moduleBal := fun d => if d = "uband" then 5 else 0, vals := [0, 1], denoms := ["uband"] }
example : isValidPower demo 0 12 = true ∧ isValidPower demo 0 11 = false := by
  simp [isValidPower, indexEntries, demo, firstActive, isActiveVault]
example : totalPower (subStake demo 0 "uband" 3) 0 = 12 ∧ totalPower (subStake demo 0 "uband" 4) 0 = 11 := by decide
example : (unstakeOp demo 0 "uband" 6).2 = Err.stakeNotEnough := by decide
example : (setLockOp demo 0 "feeds" 16).2 = Err.powerNotEnough := by decide
example : (setLockOp demo 0 "feeds" 15).2 = Err.ok := by decide
example : (deactivateOp demo "feeds").2 = Err.ok := by decide

end C16
