/-
C05 — a signing nonce pair (DE) is used at most once.
Model: Model/Signing.lean (a DE is a token; `assignedLog` records every token handed to a PERSISTED
signing attempt).  Lemmas: Lemmas/Signing.lean.
-/
import BandVerif.Lemmas.Signing

namespace C05
open BandVerif.Signing

/-- one operation of a history (every message, accepted or not, and every end-block with the
    committees the sampler would pick for the retries) -/
inductive Op
  | submitDE (m k : Nat) | resetDE (m : Nat)
  | request (sender : Nat) (authority : Bool) (limit : Coins) (committee : List Nat) (height : Int)
  | submit (sid member : Nat) (signerOk valid : Bool)
  | endBlock (committee : Nat → List Nat) (height nowNs : Int)
  | activate (m : Nat) (nowNs : Int)
  | setParams (period maxAtt maxDE : Nat) (fee : Coins)

def apply (s : State) : Op → State
  | .submitDE m k => (enqueue s m k).1
  | .resetDE m => resetDE s m
  | .request a b c d e => (request s a b c d e).1
  | .submit a b c d => (submit s a b c d).1
  | .endBlock c h n => endBlock s c h n
  | .activate m n => (activate s m n).1
  | .setParams p a d f => { s with signingPeriod := p, maxAttempt := a, maxDE := d, feePerSigner := f }

theorem step_tokInv (s : State) (op : Op) (h : TokInv s) : TokInv (apply s op) := by
  cases op with
  | submitDE m k => exact enqueue_tokInv s m k h
  | resetDE m => exact resetDE_tokInv s m h
  | request a b c d e => exact request_tokInv s a b c d e h
  | submit a b c d =>
    obtain ⟨e1, e2, e3⟩ := submit_tokFrame s a b c d
    exact tokInv_of_frame _ _ h e1 e2 e3
  | endBlock c ht n => exact endBlock_tokInv s c ht n h
  | activate m n =>
    obtain ⟨e1, e2, e3⟩ := activate_tokFrame s m n
    exact tokInv_of_frame _ _ h e1 e2 e3
  | setParams p a d f => exact tokInv_of_frame _ _ h rfl rfl rfl

theorem history_tokInv (ops : List Op) (s : State) (h : TokInv s) : TokInv (ops.foldl apply s) := by
  induction ops generalizing s with
  | nil => exact h
  | cons op rest ih => exact ih _ (step_tokInv s op h)

/-- PROPERTY: over every history — nonce submissions, resets, signing requests, submissions, time-outs,
    retries, rolled-back creations — the tokens handed to persisted signing attempts are pairwise
    distinct (no DE is ever assigned twice), and an assigned token is in no member's queue afterwards. -/
theorem token_assigned_at_most_once (ops : List Op) (s : State) (h : TokInv s) :
    (logTokens (ops.foldl apply s)).Nodup ∧
    (∀ m, ∀ t ∈ (ops.foldl apply s).queues m, t ∉ logTokens (ops.foldl apply s)) ∧
    (∀ m, ((ops.foldl apply s).queues m).Nodup) := by
  have := history_tokInv ops s h
  exact ⟨this.log_nodup, this.q_log, this.q_nodup⟩

/-- PROPERTY: a submission that would raise the queued nonce count above the maximum is rejected and
    changes nothing; an accepted one keeps the queue within the maximum. -/
theorem size_bound (s : State) (m k : Nat) :
    ((enqueue s m k).2 = Err.ok → ((enqueue s m k).1.queues m).length ≤ s.maxDE ∧
        (enqueue s m k).1.queues m = s.queues m ++ (List.range k).map (· + s.nextToken)) ∧
    ((enqueue s m k).2 ≠ Err.ok → (enqueue s m k).1 = s ∧ (s.queues m).length + k > s.maxDE) := by
  unfold enqueue
  by_cases h : (s.queues m).length + k > s.maxDE
  · simp [h]
  · simp only [h, if_false]
    refine ⟨fun _ => ⟨by simp; omega, by simp⟩, fun h' => absurd rfl h'⟩

/-- FIFO: the DE handed to a selected member is the HEAD of its queue, and it leaves the queue. -/
theorem fifo (q : Nat → List Nat) (m t : Nat) (ts : List Nat) (rest : List Nat) (hq : q m = t :: ts) :
    (dequeueAll q (m :: rest)).1.head? = some (m, t) ∧
    ∀ u ∈ (dequeueAll q (m :: rest)).2 m, u ∈ ts := by
  simp only [dequeueAll, hq]
  refine ⟨rfl, fun u hu => ?_⟩
  -- whatever the later members take, m's queue can only shrink from `ts`
  have : ∀ (l : List Nat) (q' : Nat → List Nat), ∀ v ∈ (dequeueAll q' l).2 m, v ∈ q' m := by
    intro l
    induction l with
    | nil => intro q' v hv; simpa [dequeueAll] using hv
    | cons x xs ih =>
      intro q' v hv
      simp only [dequeueAll] at hv
      cases hx : q' x with
      | nil => rw [hx] at hv; exact ih q' v hv
      | cons a as =>
        rw [hx] at hv
        have := ih _ v hv
        by_cases e : m = x
        · subst e; simp at this; rw [hx]; exact List.mem_cons_of_mem _ this
        · simpa [e] using this
  have := this rest _ u hu
  simpa using this

/-- PROPERTY: a member with no queued nonce (or inactive) is not available for a committee, and a
    signing round is not started when fewer than `threshold` members are available. -/
theorem eligible_nonempty (s : State) (m : Nat) (h : m ∈ available s) :
    m ∈ s.members ∧ s.tssActive m = true ∧ s.queues m ≠ [] := by
  unfold available at h
  obtain ⟨h1, h2⟩ := List.mem_filter.mp h
  simp only [Bool.and_eq_true, Bool.not_eq_true', List.isEmpty_eq_false_iff] at h2
  exact ⟨h1, h2.1, h2.2⟩

theorem no_round_without_signers (s : State) (sid : Nat) (c : List Nat) (ht : Int) (sg : Sig)
    (h1 : s.signings sid = some sg) (h2 : sg.attempt + 1 ≤ s.maxAttempt) (h3 : s.threshold > (available s).length) :
    initiate s sid c ht = (s, Err.noSigners) := by
  unfold initiate; simp only [h1]
  rw [if_neg (by omega), if_pos h3]

/-- PROPERTY (rollback): a signing creation that fails leaves the state exactly as it was — no DE is
    lost or consumed (the retry/creation ran in a cache context that is dropped). -/
theorem rollback_restores (s : State) (a : Nat) (b : Bool) (c : Coins) (d : List Nat) (e : Int)
    (h : (request s a b c d e).2 ≠ Err.ok) : (request s a b c d e).1 = s := by
  unfold request at h ⊢
  cases hr : requestErr s a b c <;> simp only [hr] at h ⊢
  cases ht : tssRequest (escrowed s a b) d e with
  | mk s2 er =>
    simp only [ht] at h ⊢
    cases er <;> simp only [] at h ⊢
    exact absurd rfl h

/-- reset only deletes the queued tokens: already-assigned tokens stay assigned-only -/
theorem reset_safe (s : State) (m : Nat) (h : TokInv s) :
    logTokens (resetDE s m) = logTokens s ∧ (resetDE s m).queues m = [] ∧ TokInv (resetDE s m) :=
  ⟨rfl, by simp [resetDE], resetDE_tokInv s m h⟩

/-! non-vacuity -/
def demo : State :=
  { members := [1, 2], threshold := 1, queues := fun m => if m = 1 then [0, 1] else if m = 2 then [2] else [], nextToken := 3,
    tssActive := fun _ => true, signings := fun _ => none, attempts := fun _ _ => none, partials := fun _ _ => [],
    expirations := [], pending := [], count := 0, signingPeriod := 2, maxAttempt := 2, maxDE := 3,
    bActive := fun _ => true, bSince := fun _ => 0, penalty := 0, mapping := fun _ => 0, bsigs := fun _ => none, bcount := 0,
    feePerSigner := fun _ => 0, escrow := fun _ => 0, bal := fun _ _ => 0, denoms := ["uband"],
    assignedLog := [], penalised := [], completedLog := [], failedLog := [] }
example : TokInv demo := by
  refine ⟨?_, ?_, ?_, ?_, by simp [logTokens, demo], by simp [logTokens, demo]⟩
  · intro m; by_cases h1 : m = 1 <;> by_cases h2 : m = 2 <;> simp [demo, h1, h2]
  · intro m t ht; by_cases h1 : m = 1 <;> by_cases h2 : m = 2 <;> simp [demo, h1, h2] at ht ⊢ <;> omega
  · intro m m' hne t ht ht'
    by_cases h1 : m = 1 <;> by_cases h2 : m = 2 <;> by_cases h3 : m' = 1 <;> by_cases h4 : m' = 2 <;>
      simp [demo, h1, h2, h3, h4] at ht ht' <;> omega
  · intro m t _; simp [logTokens, demo]
example : (dequeueAll demo.queues [1, 2]).1 = [(1, 0), (2, 2)] := by decide
example : (enqueue demo 1 2).2 = Err.deLimit := by decide

end C05
