/-
C07 — property theorems (only): votes never exceed voter power; per-signal totals equal the sum of
standing votes; current feeds follow the totals.  Model: BandVerif/Model/Signal.lean; the lock sum
and the interval function are the REGENERATED `Generated.Feeds.lockSum / calculateInterval`.
Helper lemmas live in BandVerif/Lemmas/Signal.lean.
-/
import BandVerif.Lemmas.Signal

namespace C07
open BandVerif.Signal BandVerif.Generated

/-- The power handed to the restake lock is the exact integer sum of the vote's powers
    (fails to check if `LockVoterPower` goes back to an int64 accumulation). -/
theorem lockSum_exact (l : List Int) : Feeds.lockSum l = l.sum :=
  BandVerif.Signal.lockSum_eq_sum l

/-- PROPERTY (first sentence): an accepted vote's true power sum is at most the voter's total
    power at that moment and is exactly what gets locked under the feeds vault. -/
theorem vote_bounded_full (p : Params) (st : State) (voter : Nat) (signals : List Sig) (tp : Int)
    (h : (vote p st voter signals tp).2 = Err.ok) :
    (signals.map (·.power)).sum ≤ tp ∧
    (vote p st voter signals tp).1.locks voter = (signals.map (·.power)).sum ∧
    signals.length ≤ p.maxCurrentFeeds ∧ (∀ s ∈ signals, 0 < s.power) :=
  BandVerif.Signal.vote_ok_facts p st voter signals tp h

/-- A rejected vote changes nothing. -/
theorem vote_rejected_changes_nothing (p : Params) (st : State) (voter : Nat) (signals : List Sig) (tp : Int)
    (h : (vote p st voter signals tp).2 ≠ Err.ok) : (vote p st voter signals tp).1 = st :=
  BandVerif.Signal.vote_err_state p st voter signals tp h

/-- PROPERTY (second sentence): `Inv` — every signal's stored total is the integer sum of all
    standing votes for it — is preserved by every vote, accepted or not, as long as the true sums
    stay below 2^63 (guaranteed by the coin supply, since each voter's sum ≤ its total power). -/
theorem totals_eq_sum_votes (p : Params) (st : State) (voter : Nat) (signals : List Sig) (tp : Int)
    (hinv : Inv st)
    (hb : ∀ id, sumVotes (if voter ∈ st.voters then st.voters else st.voters ++ [voter])
                  (fun v => if v = voter then signals else st.votes v) id < 9223372036854775808) :
    Inv (vote p st voter signals tp).1 :=
  BandVerif.Signal.vote_preserves_inv p st voter signals tp hinv hb

/-- …hence over every history of votes from the empty state. -/
theorem totals_eq_sum_votes_history (p : Params) (ops : List (Nat × List Sig × Int))
    (hb : ∀ pre o, pre ++ [o] <+: ops → ∀ id,
       sumVotes (if o.1 ∈ (runVotes p State.empty pre).voters then (runVotes p State.empty pre).voters
                 else (runVotes p State.empty pre).voters ++ [o.1])
                (fun v => if v = o.1 then o.2.1 else (runVotes p State.empty pre).votes v) id
         < 9223372036854775808) :
    Inv (runVotes p State.empty ops) :=
  BandVerif.Signal.runVotes_inv p ops hb

/-- Under the invariant and the same bound a vote is never rejected with "power is negative". -/
theorem vote_never_power_negative (p : Params) (st : State) (voter : Nat) (signals : List Sig) (tp : Int)
    (hinv : Inv st)
    (hb : ∀ id, sumVotes (if voter ∈ st.voters then st.voters else st.voters ++ [voter])
                  (fun v => if v = voter then signals else st.votes v) id < 9223372036854775808) :
    (vote p st voter signals tp).2 ≠ Err.powerNegative :=
  BandVerif.Signal.vote_not_negative p st voter signals tp hinv hb

/-- Lock blocks withdrawal: an allowed unstake leaves total power ≥ the lock. -/
theorem lock_blocks_withdrawal (st : State) (voter : Nat) (tp amt : Int)
    (h : unstakeAllowed st voter tp amt = true) : tp - amt ≥ st.locks voter := by
  simpa [unstakeAllowed] using h

/-- Interval rule: for power ≥ step > 0 (all int64 values) the interval is
    `max (maxI / (power / step)) minI`, lies in `[minI, max minI maxI]`, and is 0 below the threshold. -/
theorem interval_spec (power step minI maxI : Int) (hs : 0 < step) (hp : step ≤ power)
    (hr : power < 9223372036854775808) (hmin : 0 < minI) (hmax : 0 < maxI)
    (hmaxr : maxI < 9223372036854775808) :
    Feeds.calculateInterval power step minI maxI = max (maxI / (power / step)) minI ∧
    minI ≤ Feeds.calculateInterval power step minI maxI ∧
    Feeds.calculateInterval power step minI maxI ≤ max minI maxI ∧
    0 < Feeds.calculateInterval power step minI maxI :=
  BandVerif.Signal.interval_facts power step minI maxI hs hp hr hmin hmax hmaxr

theorem interval_zero_below_threshold (power step minI maxI : Int) (h : power < step) :
    Feeds.calculateInterval power step minI maxI = 0 := by
  simp [Feeds.calculateInterval, h]

/-- More power never lengthens the interval. -/
theorem interval_antitone (p1 p2 step minI maxI : Int) (hs : 0 < step) (h1 : step ≤ p1) (h12 : p1 ≤ p2)
    (hr : p2 < 9223372036854775808) (hmin : 0 < minI) (hmax : 0 < maxI) (hmaxr : maxI < 9223372036854775808) :
    Feeds.calculateInterval p2 step minI maxI ≤ Feeds.calculateInterval p1 step minI maxI :=
  BandVerif.Signal.interval_antitone p1 p2 step minI maxI hs h1 h12 hr hmin hmax hmaxr

/-- PROPERTY (third sentence): the new current-feed list has at most `MaxCurrentFeeds` entries, every
    entry reaches the threshold with the interval its power determines, entries come in index order,
    and a signal that reaches the threshold is left out only if `MaxCurrentFeeds` entries precede it. -/
theorem current_feeds_spec (p : Params) (st : State) (hs : 0 < p.powerStep) (hmin : 0 < p.minInterval)
    (hmax : 0 < p.maxInterval) (hmaxr : p.maxInterval < 9223372036854775808)
    (hr : ∀ id, st.totals id < 9223372036854775808) :
    (newCurrentFeeds p st).length ≤ p.maxCurrentFeeds ∧
    (∀ f ∈ newCurrentFeeds p st, st.totals f.id = f.power ∧ p.powerStep ≤ f.power ∧
        f.interval = max (p.maxInterval / (f.power / p.powerStep)) p.minInterval) ∧
    (newCurrentFeeds p st).map (fun f => (f.power, f.id)) =
        ((byPowerDesc st).take p.maxCurrentFeeds).filter (fun e => decide (p.powerStep ≤ e.1)) :=
  BandVerif.Signal.newCurrentFeeds_facts p st hs hmin hmax hmaxr hr

/-! non-vacuity: concrete states meeting the hypotheses -/
example : (vote ⟨3, 10, 60, 3600⟩ State.empty 1 [⟨"a", 7⟩] 12).2 = Err.ok := by
  simp [vote, preErr, validateBasic, lockOf, Feeds.lockSum, applyDiffs, touched, insertNew, State.empty, diff64,
    i64.add, i64.sub, i64.wrap, Feeds.maxSignalIDCharacters, (by decide : "a".utf8ByteSize = 1)]
example : preErr ⟨3, 10, 60, 3600⟩ [⟨"a", 7⟩, ⟨"b", 5⟩] 12 = Err.ok := by decide
example : preErr ⟨3, 10, 60, 3600⟩ [⟨"a", 7⟩, ⟨"b", 6⟩] 12 = Err.powerNotEnough := by decide
/-- the F1 input (2^63-1, 2^63-1, 2) is now rejected: its true sum 2^64 is not a uint64 -/
example : preErr ⟨3, 10, 60, 3600⟩ [⟨"a", 9223372036854775807⟩, ⟨"b", 9223372036854775807⟩, ⟨"c", 2⟩] 12
    = Err.invalidPower := by decide
example : Inv State.empty := BandVerif.Signal.inv_empty
example : Feeds.calculateInterval 35 10 60 3600 = 1200 := by decide

end C07
