import BandVerif.Model.Signal
namespace C07
open BandVerif.Signal
theorem placeholder : (1 : Nat) = 1 := rfl
end C07
