/-
C13 — service fees are exact, within the caller's limit, atomic with the service.
Models: Model/Fees.lean (oracle data-request fee collection) and Model/Signing.lean (bandtss signing
fees, escrow, payout).  Lemmas: Lemmas/Fees.lean.  Amounts are compared on the denoms in play.
-/
import BandVerif.Lemmas.Fees

namespace C13
open BandVerif

/-- PROPERTY (data request): when the fee collection succeeds the payer has paid exactly
    ask_count × Σ fees (repeated sources counted each time, zero-fee sources contributing nothing), each
    treasury received exactly its share, the total is within the caller's limit per denom, and the limit
    left in the request is `limit − paid`. -/
theorem request_cost_exact (s : Fees.State) (payer ask : Nat) (limit : Fees.Coins) (srcs : List Fees.Source)
    (h : (Fees.requestFees s payer ask limit srcs).2.2.2 = Fees.Err.ok) :
    let r := Fees.requestFees s payer ask limit srcs
    (∀ d ∈ s.denoms, r.2.1 d = Fees.totalOf srcs ask d) ∧
    (∀ d ∈ s.denoms, Fees.totalOf srcs ask d ≤ limit d) ∧
    (∀ a, ∀ d ∈ s.denoms, r.1.bal a d + (if a = payer then Fees.totalOf srcs ask d else 0) = s.bal a d + Fees.shareOf srcs ask a d) ∧
    (∀ d, r.2.2.1 d = limit d - r.2.1 d) := by
  unfold Fees.requestFees at h ⊢
  rcases Fees.collect_shape s payer ask limit srcs s.bal (fun _ => 0) with ⟨⟨bal', coll'⟩, hc⟩ | ⟨e, hne, hc⟩
  · simp only [hc]
    obtain ⟨c1, c2, c3⟩ := Fees.collect_spec s payer ask limit srcs s.bal (fun _ => 0) bal' coll'
      (by unfold Fees.geAll; simp) hc
    refine ⟨fun d hd => by simpa using c1 d hd, fun d hd => ?_, c3, fun d => rfl⟩
    have := (Fees.geAll_iff s _ _).mp c2 d hd
    rw [c1 d hd] at this; simpa using this
  · simp only [hc] at h; exact absurd h hne

/-- PROPERTY (data request, atomicity): if the limit or the payer's balance is insufficient at ANY
    source, no transfer at all persists. -/
theorem reject_no_transfer (s : Fees.State) (payer ask : Nat) (limit : Fees.Coins) (srcs : List Fees.Source)
    (h : (Fees.requestFees s payer ask limit srcs).2.2.2 ≠ Fees.Err.ok) :
    (Fees.requestFees s payer ask limit srcs).1 = s := by
  unfold Fees.requestFees at h ⊢
  cases hc : Fees.collect s payer ask limit srcs s.bal (fun _ => 0) with
  | mk o e =>
    cases o with
    | none => rfl
    | some p => simp [hc] at h

/-- PROPERTY (signing request): a non-governance request costs exactly fee_per_signer × threshold, moved
    from the sender into escrow, never above the fee limit; governance requests are free; a rejected
    request moves nothing. -/
theorem signing_cost_exact (s : Signing.State) (sender : Nat) (auth : Bool) (limit : Signing.Coins) (c : List Nat) (ht : Int) :
    ((Signing.request s sender auth limit c ht).2 = Signing.Err.ok →
        let s' := (Signing.request s sender auth limit c ht).1
        (auth = false → (∀ d ∈ s.denoms, s.feePerSigner d * s.threshold ≤ limit d) ∧
            (∀ d ∈ s.denoms, s.feePerSigner d * s.threshold ≤ s.bal sender d) ∧
            (∀ d, s'.escrow d = s.escrow d + s.feePerSigner d * s.threshold) ∧
            (∀ d, s'.bal sender d = s.bal sender d - s.feePerSigner d * s.threshold) ∧
            (∀ a, a ≠ sender → s'.bal a = s.bal a)) ∧
        (auth = true → s'.escrow = s.escrow ∧ s'.bal = s.bal)) ∧
    ((Signing.request s sender auth limit c ht).2 ≠ Signing.Err.ok → (Signing.request s sender auth limit c ht).1 = s) := by
  unfold Signing.request
  cases hr : Signing.requestErr s sender auth limit with
  | ok =>
    simp only []
    obtain ⟨m1, m2, _⟩ := Signing.tssRequest_money (Signing.escrowed s sender auth) c ht
    cases ht' : Signing.tssRequest (Signing.escrowed s sender auth) c ht with
    | mk s2 e =>
      rw [ht'] at m1 m2
      cases e <;> simp only [] <;> try (first | exact ⟨(fun h => by cases h), fun _ => rfl⟩ | exact ⟨(fun h => by cases h), fun _ => trivial⟩)
      refine ⟨fun _ => ⟨fun ha => ?_, fun ha => ?_⟩, fun h => absurd rfl h⟩
      · subst ha
        unfold Signing.requestErr at hr
        simp only [Bool.not_false, Bool.true_and] at hr
        split at hr; · cases hr
        split at hr; · cases hr
        split at hr; · cases hr
        rename_i h1 h2 h3
        have g1 := (Signing.geAll_iff' s _ _).mp (by simpa using h2)
        have g2 := (Signing.geAll_iff' s _ _).mp (by simpa using h3)
        simp only [Signing.reqCost, Signing.feeFor, Signing.mulC] at g1 g2
        refine ⟨g1, g2, fun d => ?_, fun d => ?_, fun a hne => ?_⟩
        · show s2.escrow d = _; rw [m2]; simp [Signing.escrowed, Signing.addC, Signing.reqCost, Signing.feeFor, Signing.mulC]
        · show s2.bal sender d = _; rw [m1]; simp [Signing.escrowed, Signing.subC, Signing.reqCost, Signing.feeFor, Signing.mulC]
        · show s2.bal a = _; rw [m1]; simp [Signing.escrowed, hne]
      · subst ha
        exact ⟨by show s2.escrow = _; rw [m2]; simp [Signing.escrowed], by show s2.bal = _; rw [m1]; simp [Signing.escrowed]⟩
  | _ => first | exact ⟨(fun h => by cases h), fun _ => rfl⟩ | exact ⟨(fun h => by cases h), fun _ => trivial⟩

/-- PROPERTY (payout): when a paid current-group signing completes, each assigned member receives exactly
    fee_per_signer from escrow (given the escrow holds it — `escrow_covers_open`, monitored), and
    nobody is paid for an incoming-group signing, a free signing, or an unknown id. -/
theorem payout_exact (s : Signing.State) (sid : Nat) (assigned : List Nat) (b : Signing.BSig) (d : String)
    (hmap : s.mapping sid ≠ 0) (hb : s.bsigs (s.mapping sid) = some b) (hcur : sid = b.currentSid)
    (hfee : Signing.isZero s b.feePerSigner = false) (hn : assigned.Nodup)
    (hesc : b.feePerSigner d * assigned.length ≤ s.escrow d) :
    (Signing.onCompleted s sid assigned).escrow d = s.escrow d - b.feePerSigner d * assigned.length ∧
    (∀ m ∈ assigned, (Signing.onCompleted s sid assigned).bal m d = s.bal m d + b.feePerSigner d) ∧
    (∀ m, m ∉ assigned → (Signing.onCompleted s sid assigned).bal m d = s.bal m d) ∧
    (Signing.onCompleted s sid assigned).mapping sid = 0 := by
  unfold Signing.onCompleted
  simp only [hmap, if_false, hb]
  have hc : (sid ≠ b.currentSid || Signing.isZero s b.feePerSigner) = false := by simp [hcur, hfee]
  simp only [hc, Bool.false_eq_true, if_false]
  obtain ⟨p1, p2, p3⟩ := Signing.payAll_spec b.feePerSigner assigned
    { s with completedLog := s.completedLog ++ [sid], mapping := fun i => if i = sid then 0 else s.mapping i } hn d hesc
  refine ⟨p1, p2, p3, ?_⟩
  -- payAll does not touch the mapping
  have : ∀ (l : List Nat) (t : Signing.State), (Signing.payAll t b.feePerSigner l).mapping = t.mapping := by
    intro l; induction l with
    | nil => intro t; rfl
    | cons x xs ih => intro t; simp only [Signing.payAll]; rw [ih]
  rw [this]; simp

theorem no_pay_incoming_or_free (s : Signing.State) (sid : Nat) (assigned : List Nat) (b : Signing.BSig)
    (hb : s.bsigs (s.mapping sid) = some b) (h : sid ≠ b.currentSid ∨ Signing.isZero s b.feePerSigner = true) :
    (Signing.onCompleted s sid assigned).escrow = s.escrow ∧ (Signing.onCompleted s sid assigned).bal = s.bal := by
  unfold Signing.onCompleted
  simp only []
  split
  · first | exact ⟨rfl, rfl⟩ | exact ⟨trivial, trivial⟩
  · simp only [hb]
    have hc : (sid ≠ b.currentSid || Signing.isZero s b.feePerSigner) = true := by
      rcases h with h | h <;> simp [h]
    simp only [hc, if_true]; first | exact ⟨rfl, rfl⟩ | exact ⟨trivial, trivial⟩

/-- PROPERTY: nobody is paid for a failed signing (the mapping is dropped, the escrowed fee stays). -/
theorem no_pay_on_fail (s : Signing.State) (sid : Nat) :
    (Signing.onFailed s sid).escrow = s.escrow ∧ (Signing.onFailed s sid).bal = s.bal ∧ (Signing.onFailed s sid).mapping sid = 0 := by
  simp [Signing.onFailed]

/-! non-vacuity -/
def demoS : Fees.State := { bal := fun a d => if a = 0 ∧ d = "uband" then 100 else 0, denoms := ["uband"] }
def demoSrcs : List Fees.Source := [⟨fun d => if d = "uband" then 7 else 0, 1⟩, ⟨fun _ => 0, 2⟩, ⟨fun d => if d = "uband" then 7 else 0, 1⟩]
example : (Fees.requestFees demoS 0 2 (fun d => if d = "uband" then 28 else 0) demoSrcs).2.2.2 = Fees.Err.ok := by decide
example : (Fees.requestFees demoS 0 2 (fun d => if d = "uband" then 27 else 0) demoSrcs).2.2.2 = Fees.Err.notEnoughFee := by decide
example : (Fees.requestFees demoS 0 2 (fun d => if d = "uband" then 28 else 0) demoSrcs).1.bal 1 "uband" = 28 := by decide

end C13
