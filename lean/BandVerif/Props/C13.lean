/-
C13 — service fees are exact, within the caller's limit, atomic with the service.
Models: Model/Fees.lean (oracle data-request fee collection) and Model/Signing.lean (bandtss signing
fees, escrow, payout).  Lemmas: Lemmas/Fees.lean.  Amounts are compared on the denoms in play.
-/
import BandVerif.Lemmas.Fees
import BandVerif.Lemmas.SigningEscrow
import BandVerif.Props.C05

namespace C13
open BandVerif

/-- PROPERTY (data request): when the fee collection succeeds the payer has paid exactly
    ask_count × Σ fees (repeated sources counted each time, zero-fee sources contributing nothing), each
    treasury received exactly its share, the total is within the caller's limit per denom, and the limit
    left in the request is `limit − paid`. -/
theorem request_cost_exact (s : Fees.State) (payer ask : Nat) (limit : Fees.Coins) (srcs : List Fees.Source)
    (h : (Fees.requestFees s payer ask limit srcs).2.2.2 = Fees.Err.ok) :
    let r := Fees.requestFees s payer ask limit srcs
    (∀ d ∈ s.denoms, r.2.1 d = Fees.totalOf srcs ask d) ∧
    (∀ d ∈ s.denoms, Fees.totalOf srcs ask d ≤ limit d) ∧
    (∀ a, ∀ d ∈ s.denoms, r.1.bal a d + (if a = payer then Fees.totalOf srcs ask d else 0) = s.bal a d + Fees.shareOf srcs ask a d) ∧
    (∀ d, r.2.2.1 d = limit d - r.2.1 d) := by
  unfold Fees.requestFees at h ⊢
  rcases Fees.collect_shape s payer ask limit srcs s.bal (fun _ => 0) with ⟨⟨bal', coll'⟩, hc⟩ | ⟨e, hne, hc⟩
  · simp only [hc]
    obtain ⟨c1, c2, c3⟩ := Fees.collect_spec s payer ask limit srcs s.bal (fun _ => 0) bal' coll'
      (by unfold Fees.geAll; simp) hc
    refine ⟨fun d hd => by simpa using c1 d hd, fun d hd => ?_, c3, fun d => rfl⟩
    have := (Fees.geAll_iff s _ _).mp c2 d hd
    rw [c1 d hd] at this; simpa using this
  · simp only [hc] at h; exact absurd h hne

/-- PROPERTY (data request, atomicity): if the limit or the payer's balance is insufficient at ANY
    source, no transfer at all persists. -/
theorem reject_no_transfer (s : Fees.State) (payer ask : Nat) (limit : Fees.Coins) (srcs : List Fees.Source)
    (h : (Fees.requestFees s payer ask limit srcs).2.2.2 ≠ Fees.Err.ok) :
    (Fees.requestFees s payer ask limit srcs).1 = s := by
  unfold Fees.requestFees at h ⊢
  cases hc : Fees.collect s payer ask limit srcs s.bal (fun _ => 0) with
  | mk o e =>
    cases o with
    | none => rfl
    | some p => simp [hc] at h

/-- PROPERTY (signing request): a non-governance request costs exactly fee_per_signer × threshold, moved
    from the sender into escrow, never above the fee limit; governance requests are free; a rejected
    request moves nothing. -/
theorem signing_cost_exact (s : Signing.State) (sender : Nat) (auth : Bool) (limit : Signing.Coins) (c : List Nat) (ht : Int) :
    ((Signing.request s sender auth limit c ht).2 = Signing.Err.ok →
        let s' := (Signing.request s sender auth limit c ht).1
        (auth = false → (∀ d ∈ s.denoms, s.feePerSigner d * s.threshold ≤ limit d) ∧
            (∀ d ∈ s.denoms, s.feePerSigner d * s.threshold ≤ s.bal sender d) ∧
            (∀ d, s'.escrow d = s.escrow d + s.feePerSigner d * s.threshold) ∧
            (∀ d, s'.bal sender d = s.bal sender d - s.feePerSigner d * s.threshold) ∧
            (∀ a, a ≠ sender → s'.bal a = s.bal a)) ∧
        (auth = true → s'.escrow = s.escrow ∧ s'.bal = s.bal)) ∧
    ((Signing.request s sender auth limit c ht).2 ≠ Signing.Err.ok → (Signing.request s sender auth limit c ht).1 = s) := by
  unfold Signing.request
  cases hr : Signing.requestErr s sender auth limit with
  | ok =>
    simp only []
    obtain ⟨m1, m2, _⟩ := Signing.tssRequest_money (Signing.escrowed s sender auth) c ht
    cases ht' : Signing.tssRequest (Signing.escrowed s sender auth) c ht with
    | mk s2 e =>
      rw [ht'] at m1 m2
      cases e <;> simp only [] <;> try (first | exact ⟨(fun h => by cases h), fun _ => rfl⟩ | exact ⟨(fun h => by cases h), fun _ => trivial⟩)
      refine ⟨fun _ => ⟨fun ha => ?_, fun ha => ?_⟩, fun h => absurd rfl h⟩
      · subst ha
        unfold Signing.requestErr at hr
        simp only [Bool.not_false, Bool.true_and] at hr
        split at hr; · cases hr
        split at hr; · cases hr
        split at hr; · cases hr
        rename_i h1 h2 h3
        have g1 := (Signing.geAll_iff' s _ _).mp (by simpa using h2)
        have g2 := (Signing.geAll_iff' s _ _).mp (by simpa using h3)
        simp only [Signing.reqCost, Signing.feeFor, Signing.mulC] at g1 g2
        refine ⟨g1, g2, fun d => ?_, fun d => ?_, fun a hne => ?_⟩
        · show s2.escrow d = _; rw [m2]; simp [Signing.escrowed, Signing.addC, Signing.reqCost, Signing.feeFor, Signing.mulC]
        · show s2.bal sender d = _; rw [m1]; simp [Signing.escrowed, Signing.subC, Signing.reqCost, Signing.feeFor, Signing.mulC]
        · show s2.bal a = _; rw [m1]; simp [Signing.escrowed, hne]
      · subst ha
        exact ⟨by show s2.escrow = _; rw [m2]; simp [Signing.escrowed], by show s2.bal = _; rw [m1]; simp [Signing.escrowed]⟩
  | _ => first | exact ⟨(fun h => by cases h), fun _ => rfl⟩ | exact ⟨(fun h => by cases h), fun _ => trivial⟩

/-- PROPERTY (payout): when a paid current-group signing completes, each assigned member receives exactly
    fee_per_signer from escrow (given the escrow holds it — `escrow_covers_open`, monitored), and
    nobody is paid for an incoming-group signing, a free signing, or an unknown id. -/
theorem payout_exact (s : Signing.State) (sid : Nat) (assigned : List Nat) (b : Signing.BSig) (d : String)
    (hmap : s.mapping sid ≠ 0) (hb : s.bsigs (s.mapping sid) = some b) (hcur : sid = b.currentSid)
    (hfee : Signing.isZero s b.feePerSigner = false) (hn : assigned.Nodup)
    (hesc : b.feePerSigner d * assigned.length ≤ s.escrow d) :
    (Signing.onCompleted s sid assigned).escrow d = s.escrow d - b.feePerSigner d * assigned.length ∧
    (∀ m ∈ assigned, (Signing.onCompleted s sid assigned).bal m d = s.bal m d + b.feePerSigner d) ∧
    (∀ m, m ∉ assigned → (Signing.onCompleted s sid assigned).bal m d = s.bal m d) ∧
    (Signing.onCompleted s sid assigned).mapping sid = 0 := by
  unfold Signing.onCompleted
  simp only [hmap, if_false, hb]
  have hc : (sid ≠ b.currentSid || Signing.isZero s b.feePerSigner) = false := by simp [hcur, hfee]
  simp only [hc, Bool.false_eq_true, if_false]
  obtain ⟨p1, p2, p3⟩ := Signing.payAll_spec b.feePerSigner assigned
    { s with completedLog := s.completedLog ++ [sid], mapping := fun i => if i = sid then 0 else s.mapping i } hn d hesc
  refine ⟨p1, p2, p3, ?_⟩
  -- payAll does not touch the mapping
  have : ∀ (l : List Nat) (t : Signing.State), (Signing.payAll t b.feePerSigner l).mapping = t.mapping := by
    intro l; induction l with
    | nil => intro t; rfl
    | cons x xs ih => intro t; simp only [Signing.payAll]; rw [ih]
  rw [this]; simp

theorem no_pay_incoming_or_free (s : Signing.State) (sid : Nat) (assigned : List Nat) (b : Signing.BSig)
    (hb : s.bsigs (s.mapping sid) = some b) (h : sid ≠ b.currentSid ∨ Signing.isZero s b.feePerSigner = true) :
    (Signing.onCompleted s sid assigned).escrow = s.escrow ∧ (Signing.onCompleted s sid assigned).bal = s.bal := by
  unfold Signing.onCompleted
  simp only []
  split
  · first | exact ⟨rfl, rfl⟩ | exact ⟨trivial, trivial⟩
  · simp only [hb]
    have hc : (sid ≠ b.currentSid || Signing.isZero s b.feePerSigner) = true := by
      rcases h with h | h <;> simp [h]
    simp only [hc, if_true]; first | exact ⟨rfl, rfl⟩ | exact ⟨trivial, trivial⟩

/-- PROPERTY: nobody is paid for a failed signing (the mapping is dropped, the escrowed fee stays). -/
theorem no_pay_on_fail (s : Signing.State) (sid : Nat) :
    (Signing.onFailed s sid).escrow = s.escrow ∧ (Signing.onFailed s sid).bal = s.bal ∧ (Signing.onFailed s sid).mapping sid = 0 := by
  simp [Signing.onFailed]

/-! ## whole histories: the escrow covers every open paid signing -/

/-- the sampler's contract used here (C09): a committee has at most `threshold` members (it has exactly that many) -/
def CommitteeOk (thr : Nat) : C05.Op → Prop
  | .request _ _ _ c _ => c.length ≤ thr
  | .endBlock c _ _ => ∀ i, (c i).length ≤ thr
  | _ => True

theorem step_einv (s : Signing.State) (op : C05.Op) (h : Signing.EInv s) (ok : CommitteeOk s.threshold op) :
    Signing.EInv (C05.apply s op) ∧ (C05.apply s op).threshold = s.threshold := by
  cases op with
  | submitDE m k =>
    simp only [C05.apply, Signing.enqueue]
    split
    · exact ⟨h, rfl⟩
    · exact ⟨Signing.einv_of_frame _ _ h rfl rfl rfl rfl rfl rfl rfl, rfl⟩
  | resetDE m => exact ⟨Signing.einv_of_frame _ _ h rfl rfl rfl rfl rfl rfl rfl, rfl⟩
  | request a b c d e => exact Signing.request_einv s a b c d e h ok
  | submit a b c d =>
    simp only [C05.apply]
    by_cases hok : (Signing.submit s a b c d).2 = Signing.Err.ok
    · obtain ⟨sg, atm, _, _, _, _, _, _, _, hst⟩ := Signing.submit_ok s a b c d hok
      rw [hst]
      unfold Signing.addPartial
      simp only []
      split
      · exact ⟨Signing.einv_of_frame _ _ h rfl rfl rfl rfl rfl rfl rfl, rfl⟩
      · exact ⟨Signing.einv_of_frame _ _ h rfl rfl rfl rfl rfl rfl rfl, rfl⟩
    · rw [Signing.submit_err_state s a b c d hok]; exact ⟨h, rfl⟩
  | endBlock c ht n =>
    refine ⟨Signing.endBlock_einv s c ht n h ok, ?_⟩
    -- the threshold is a constant of the group
    have a : ∀ (l : List Nat) (st : Signing.State), (Signing.aggregateAll st l).threshold = st.threshold := by
      intro l; induction l with
      | nil => intro st; rfl
      | cons x xs ihx =>
        intro st; simp only [Signing.aggregateAll]
        cases st.signings x with
        | none => exact ihx st
        | some sg =>
          simp only []; rw [ihx]
          exact (Signing.onCompleted_frame _ x _).2.2.2.2.2.2.2.2.2.1
    have b : ∀ (l : List (Nat × Nat)) (st : Signing.State) (acc : List Nat) (k : Nat), (Signing.expireGo ht n l st acc k).1.threshold = st.threshold := by
      intro l; induction l with
      | nil => intro st acc k; rfl
      | cons e rest ihe =>
        intro st acc k
        obtain ⟨i, a'⟩ := e
        simp only [Signing.expireGo]
        cases st.signings i with
        | none => rfl
        | some sg =>
          cases st.attempts i a' with
          | none => rfl
          | some atm =>
            simp only []
            split
            · rfl
            · rw [ihe]
              split
              · exact (Signing.onTimeout_frame i sg.attempt n _ st).2.2.2.2.2.2.2.2.1
              · rfl
    have r : ∀ (l : List Nat) (st : Signing.State), (Signing.retryAll c ht l st).threshold = st.threshold := by
      intro l; induction l with
      | nil => intro st; rfl
      | cons x xs ihx =>
        intro st; simp only [Signing.retryAll]; rw [ihx]
        rcases Signing.retryOne_cases st x (c x) ht with ⟨sg, _, _, e⟩ | ⟨sg, _, _, e⟩ | ⟨_, e⟩ <;> rw [e] <;> rfl
    simp only [C05.apply, Signing.endBlock]
    rw [r, b]; exact a s.pending s
  | activate m n =>
    simp only [C05.apply, Signing.activate]
    split
    · exact ⟨h, rfl⟩
    · split
      · exact ⟨h, rfl⟩
      · split
        · exact ⟨h, rfl⟩
        · exact ⟨Signing.einv_of_frame _ _ h rfl rfl rfl rfl rfl rfl rfl, rfl⟩
  | setParams p a d f => exact ⟨Signing.einv_of_frame _ _ h rfl rfl rfl rfl rfl rfl rfl, rfl⟩

/-- PROPERTY (the escrow covers every open paid signing, over EVERY history of requests — paid and free —, signature
    submissions, end-blocks with time-outs and retries, fee-parameter changes): the bandtss module account always holds at
    least fee_per_signer × threshold for each request whose current signing is still open -/
theorem escrow_covers_open (ops : List C05.Op) (s : Signing.State) (h : Signing.EInv s) (ok : ∀ op ∈ ops, CommitteeOk s.threshold op) :
    Signing.EInv (ops.foldl C05.apply s) := by
  induction ops generalizing s with
  | nil => exact h
  | cons op rest ih =>
    obtain ⟨q1, q2⟩ := step_einv s op h (ok op (List.mem_cons_self ..))
    exact ih _ q1 (fun o ho => by rw [q2]; exact ok o (List.mem_cons_of_mem _ ho))

/-- … hence the payout of OnSigningCompleted never exceeds the module account's balance (the `SendCoins` from the
    bandtss module account cannot fail, the end-blocker cannot panic there): in every state satisfying the invariant,
    for the current signing of an open request and any of its stored attempts, fee × |assigned members| ≤ escrow -/
theorem payout_never_exceeds_escrow (s : Signing.State) (h : Signing.EInv s) (sid : Nat) (b : Signing.BSig)
    (hm : s.mapping sid ≠ 0) (hb : s.bsigs (s.mapping sid) = some b) (hcur : sid = b.currentSid)
    (att : Nat) (atm : Signing.Attempt) (ha : s.attempts sid att = some atm) (d : String) :
    b.feePerSigner d * atm.assigned.length ≤ s.escrow d := by
  have hsid : sid ≤ s.count := by
    cases Nat.lt_or_ge s.count sid with
    | inl hlt => exact absurd (h.sids sid hlt) hm
    | inr hge => exact hge
  have h1 := Signing.owed_le_sum s sid d hsid
  have h2 := h.covers d
  have h3 : Signing.owed s sid d = b.feePerSigner d * s.threshold := by
    unfold Signing.owed; simp [hm, hb, ← hcur]
  have h4 : b.feePerSigner d * atm.assigned.length ≤ b.feePerSigner d * s.threshold := Nat.mul_le_mul_left _ (h.small sid att atm ha)
  omega

/-! non-vacuity -/
def demoS : Fees.State := { bal := fun a d => if a = 0 ∧ d = "uband" then 100 else 0, denoms := ["uband"] }
def demoSrcs : List Fees.Source := [⟨fun d => if d = "uband" then 7 else 0, 1⟩, ⟨fun _ => 0, 2⟩, ⟨fun d => if d = "uband" then 7 else 0, 1⟩]
example : (Fees.requestFees demoS 0 2 (fun d => if d = "uband" then 28 else 0) demoSrcs).2.2.2 = Fees.Err.ok := by decide
example : (Fees.requestFees demoS 0 2 (fun d => if d = "uband" then 27 else 0) demoSrcs).2.2.2 = Fees.Err.notEnoughFee := by decide
example : (Fees.requestFees demoS 0 2 (fun d => if d = "uband" then 28 else 0) demoSrcs).1.bal 1 "uband" = 28 := by decide

/-- a state with one open PAID signing (fee 2uband per signer, threshold 2, escrow 5uband) satisfies the escrow invariant -/
def demoSig : Signing.State :=
  { members := [1, 2], threshold := 2, queues := fun _ => [], nextToken := 3,
    tssActive := fun _ => true, signings := fun i => if i = 1 then some ⟨1, 1⟩ else none,
    attempts := fun i a => if i = 1 ∧ a = 1 then some ⟨12, [(1, 0), (2, 2)]⟩ else none,
    partials := fun _ _ => [], expirations := [(1, 1)], pending := [], count := 1, signingPeriod := 2, maxAttempt := 2, maxDE := 3,
    bActive := fun _ => true, bSince := fun _ => 0, penalty := 0, mapping := fun i => if i = 1 then 1 else 0,
    bsigs := fun i => if i = 1 then some ⟨fun d => if d = "uband" then 2 else 0, 100, 1⟩ else none, bcount := 1,
    feePerSigner := fun d => if d = "uband" then 2 else 0, escrow := fun d => if d = "uband" then 5 else 0, bal := fun _ _ => 0, denoms := ["uband"],
    assignedLog := [], penalised := [], completedLog := [], failedLog := [] }
example : Signing.EInv demoSig := by
  refine ⟨?_, ?_, ?_, ?_, ?_⟩
  rotate_left 4
  · intro i hi
    by_cases e : i = 1 <;> simp [demoSig, e] at hi ⊢
  · intro d
    by_cases hd : d = "uband" <;> simp [Signing.owedSum, Signing.owed, demoSig, hd, List.range_succ]
  · intro i a atm q
    by_cases e : i = 1 ∧ a = 1
    · simp [demoSig, e] at q; subst q; simp [demoSig]
    · simp [demoSig, e] at q
  · intro i; by_cases e : i = 1 <;> simp [demoSig, e]
  · intro i hi
    have : i ≠ 1 := by simp [demoSig] at hi; omega
    simp [demoSig, this]

end C13
