/-
C04 — DKG soundness: consistent keys or cheater caught; honest never blamed.
Model: Model/Dkg.lean (algebra against the operations record shared with C03; state machine of one group).
Lemmas: Lemmas/Dkg.lean (algebra, Mathlib), Lemmas/DkgInv.lean (invariant over every history).
-/
import BandVerif.Lemmas.Dkg
import BandVerif.Lemmas.DkgInv
import BandVerif.Model.DkgSrc
import BandVerif.Generated.Dkg

namespace C04
open BandVerif BandVerif.Frost BandVerif.Dkg Polynomial Finset

/-- TIE to the source: normalised text of every modelled DKG function (msg server, keeper, pkg/tss, cylinder). -/
theorem generated_sources_match :
    Generated.Dkg.src_SubmitDKGRound1 = ExpectedSrc.Dkg.src_SubmitDKGRound1 ∧
    Generated.Dkg.src_SubmitDKGRound2 = ExpectedSrc.Dkg.src_SubmitDKGRound2 ∧
    Generated.Dkg.src_Complain = ExpectedSrc.Dkg.src_Complain ∧
    Generated.Dkg.src_Confirm = ExpectedSrc.Dkg.src_Confirm ∧
    Generated.Dkg.src_AddCoefficientCommits = ExpectedSrc.Dkg.src_AddCoefficientCommits ∧
    Generated.Dkg.src_ValidateRound1Info = ExpectedSrc.Dkg.src_ValidateRound1Info ∧
    Generated.Dkg.src_ProcessComplaint = ExpectedSrc.Dkg.src_ProcessComplaint ∧
    Generated.Dkg.src_VerifyComplaintKeeper = ExpectedSrc.Dkg.src_VerifyComplaintKeeper ∧
    Generated.Dkg.src_VerifyOwnPubKeySignatureKeeper = ExpectedSrc.Dkg.src_VerifyOwnPubKeySignatureKeeper ∧
    Generated.Dkg.src_HandleProcessGroup = ExpectedSrc.Dkg.src_HandleProcessGroup ∧
    Generated.Dkg.src_HandleExpiredGroups = ExpectedSrc.Dkg.src_HandleExpiredGroups ∧
    Generated.Dkg.src_UpdateMemberPubKey = ExpectedSrc.Dkg.src_UpdateMemberPubKey ∧
    Generated.Dkg.src_MarkMemberMalicious = ExpectedSrc.Dkg.src_MarkMemberMalicious ∧
    Generated.Dkg.src_ValidateMemberID = ExpectedSrc.Dkg.src_ValidateMemberID ∧
    Generated.Dkg.src_AddConfirm = ExpectedSrc.Dkg.src_AddConfirm ∧
    Generated.Dkg.src_AddComplaintsWithStatus = ExpectedSrc.Dkg.src_AddComplaintsWithStatus ∧
    Generated.Dkg.src_FindMemberSlot = ExpectedSrc.Dkg.src_FindMemberSlot ∧
    Generated.Dkg.src_ComputeOwnPublicKey = ExpectedSrc.Dkg.src_ComputeOwnPublicKey ∧
    Generated.Dkg.src_VerifySecretShare = ExpectedSrc.Dkg.src_VerifySecretShare ∧
    Generated.Dkg.src_ComputeSecretShareCommit = ExpectedSrc.Dkg.src_ComputeSecretShareCommit ∧
    Generated.Dkg.src_VerifyComplaint = ExpectedSrc.Dkg.src_VerifyComplaint ∧
    Generated.Dkg.src_VerifyComplaintSignature = ExpectedSrc.Dkg.src_VerifyComplaintSignature ∧
    Generated.Dkg.src_solvePointPolynomial = ExpectedSrc.Dkg.src_solvePointPolynomial ∧
    Generated.Dkg.src_getOwnPrivKey = ExpectedSrc.Dkg.src_getOwnPrivKey ∧
    Generated.Dkg.src_getSecretShare = ExpectedSrc.Dkg.src_getSecretShare := by
  refine ⟨?_, ?_, ?_, ?_, ?_, ?_, ?_, ?_, ?_, ?_, ?_, ?_, ?_, ?_, ?_, ?_, ?_, ?_, ?_, ?_, ?_, ?_, ?_, ?_, ?_⟩ <;> rfl

variable {F V : Type} [Field F] [DecidableEq F] [AddCommGroup V] [Module F V] [DecidableEq V]

/-- PROPERTY (consistent keys, 1): accumulating a dealer's commitments adds its polynomial: the evaluation of the
    accumulated commitments at any member id is the sum of the evaluations, so after all dealers the member key
    `UpdateMemberPubKey` derives is Σ_j (commitment polynomial of j)(i) and the group key (entry 0) is Σ_j C_j0. -/
theorem accumulation_is_additive (g : V) (acc cs : List V) (x : F) :
    evalCommits (modOps g) (addCommits (modOps (F := F) g) acc cs) x = evalCommits (modOps g) acc x + evalCommits (modOps g) cs x :=
  evalCommits_addCommits g acc cs x

/-- PROPERTY (consistent keys, 2): when the commitments are a_k·g, the derived key of member x is the public image of
    the dealt share f(x) = Σ a_k x^k — and `VerifySecretShare` accepts a share exactly when it equals f(mid). -/
theorem member_key_is_image_of_share (g : V) (coeffs : List F) (x : F) :
    evalCommits (modOps g) (coeffs.map (· • g)) x = evalScalar coeffs x • g := evalCommits_image g coeffs x

theorem share_accepted_iff_correct (g : V) (hg : ∀ a : F, a • g = 0 → a = 0) (coeffs : List F) (mid s : F) :
    verifySecretShare (modOps g) mid s (coeffs.map (· • g)) = true ↔ s = evalScalar coeffs mid :=
  verifySecretShare_iff g hg coeffs mid s

/-- PROPERTY (cheater provably caught): a recipient with one-time key x (PubI = x·g) complaining about dealer J
    (PubJ = y·g) with the TRUE symmetric key x·PubJ and an honestly generated proof (nonce k) has a valid complaint
    signature; the complaint is then upheld exactly when the decrypted share fails the dealer's commitments. -/
theorem honest_complaint_upheld_iff_bad_share (g : V) (hg : ∀ a : F, a • g = 0 → a = 0) (x y k c : F) (hk : k ≠ 0) (hy : y ≠ 0)
    (midI share : F) (commitsJ : List V) :
    complaintUpheld (modOps g) (k • g) (k • (y • g)) (k + c * x) c (x • g) (y • g) (x • (y • g)) midI share commitsJ =
      !verifySecretShare (modOps g) midI share commitsJ := by
  unfold complaintUpheld complaintSigOk
  have h1 : schnorrVerifyGen (modOps g) (modOps (F := F) g).base (k • g) (k + c * x) c (x • g) = true := by
    rw [schnorrVerifyGen_iff]
    refine ⟨?_, fun h => hk (hg k h)⟩
    show (k + c * x) • g - c • x • g = k • g
    rw [add_smul, mul_smul]; abel
  have h2 : schnorrVerifyGen (modOps g) (y • g) (k • (y • g)) (k + c * x) c (x • (y • g)) = true := by
    rw [schnorrVerifyGen_iff]
    refine ⟨?_, fun h => ?_⟩
    · rw [add_smul, mul_smul]; abel
    · rw [← mul_smul] at h
      rcases mul_eq_zero.mp (hg _ h) with h | h
      · exact hk h
      · exact hy h
  rw [h1, h2]; rfl

/-- PROPERTY (false complaint backfires): whatever key and signature a complainant discloses, if the share it decrypts
    to satisfies the dealer's commitments the complaint is NOT upheld — `ProcessComplaint` then marks the complainant. -/
theorem complaint_against_valid_share_fails (g : V) (a1 a2 : V) (z c : F) (pubI pubJ keySym : V) (midI share : F) (commitsJ : List V)
    (hvalid : verifySecretShare (modOps g) midI share commitsJ = true) :
    complaintUpheld (modOps g) a1 a2 z c pubI pubJ keySym midI share commitsJ = false := by
  unfold complaintUpheld; rw [hvalid]; simp

/-- PROPERTY (a forged key cannot frame a dealer, algebraic core): if the disclosed key w·g is NOT the true symmetric
    key (w ≠ x·y), then for fixed commitments a1 = α·g, a2 = β·g of the complaint signature at most ONE challenge value
    admits a verifying response — so with the challenge an unpredictable hash of (a1, a2, …) the signature fails. -/
theorem forged_keysym_binds_challenge (g : V) (hg : ∀ a : F, a • g = 0 → a = 0) (x y w al be z z' c c' : F) (hw : w ≠ x * y)
    (h : complaintSigOk (modOps g) (al • g) (be • g) z c (x • g) (y • g) (w • g) = true)
    (h' : complaintSigOk (modOps g) (al • g) (be • g) z' c' (x • g) (y • g) (w • g) = true) : c = c' := by
  have key : ∀ z c, complaintSigOk (modOps g) (al • g) (be • g) z c (x • g) (y • g) (w • g) = true → c * (x * y - w) = be - al * y := by
    intro z c hh
    unfold complaintSigOk at hh
    rw [Bool.and_eq_true, schnorrVerifyGen_iff, schnorrVerifyGen_iff] at hh
    obtain ⟨⟨e1, _⟩, ⟨e2, _⟩⟩ := hh
    have f1 : z - c * x - al = 0 := by
      apply hg; rw [sub_smul, sub_smul, mul_smul]; exact sub_eq_zero.mpr e1
    have f2 : z * y - c * w - be = 0 := by
      apply hg; rw [sub_smul, sub_smul, mul_smul, mul_smul]; exact sub_eq_zero.mpr e2
    linear_combination -(y * f1) + f2
  have k1 := key z c h
  have k2 := key z' c' h'
  have hne : x * y - w ≠ 0 := fun e => hw (by linear_combination -e)
  have : (c - c') * (x * y - w) = 0 := by linear_combination k1 - k2
  rcases mul_eq_zero.mp this with e | e
  · linear_combination e
  · exact absurd e hne

/-- PROPERTY (ACTIVE only when consistent, over every history): after ANY sequence of round-1/2 submissions, complaints,
    confirmations and end-blocks (any order, replays, out-of-round and unauthorised messages included) a group that is
    ACTIVE has every member confirmed (own-key signature verified) and no member marked malicious. -/
theorem active_requires (n t : Nat) (hn : 0 < n) (ch : Int) (ops : List Op) :
    let g := ops.foldl step { n := n, t := t, createdHeight := ch }
    g.status = .active → ∀ i, 1 ≤ i ∧ i ≤ g.n → (g.members i).confirmed = true ∧ (g.members i).malicious = false := by
  intro g hact i hi
  exact (run_inv ops _ (init_inv n t hn ch)).act hact i hi

/-- PROPERTY (who gets marked): only `Complain` marks anybody, and each processed complaint marks exactly one party:
    the respondent when the complaint is upheld, the complainant otherwise; flags once set stay set. -/
theorem only_complaints_mark (g : Group) (op : Op) (i : Nat) (hnew : (g.members i).malicious = false ∧ ((step g op).members i).malicious = true) :
    ∃ s cs, op = .complain s cs ∧ ∃ c ∈ cs, (c.2.2 = true ∧ c.2.1 = i) ∨ (c.1 = i) := by
  obtain ⟨h0, h1⟩ := hnew
  cases op with
  | r1 mid s l a b =>
    exfalso; simp only [step] at h1; unfold submitR1 at h1
    repeat' split at h1
    all_goals first | (rw [h0] at h1; cases h1) | skip
    simp only [enqueueIf] at h1
    split at h1 <;> (simp only [setMember] at h1; split at h1 <;> simp_all)
  | r2 mid s l =>
    exfalso; simp only [step] at h1; unfold submitR2 at h1
    repeat' split at h1
    all_goals first | (rw [h0] at h1; cases h1) | skip
    simp only [enqueueIf] at h1
    split at h1 <;> (simp only [setMember] at h1; split at h1 <;> simp_all)
  | confirm mid s k =>
    exfalso; simp only [step] at h1; unfold confirm at h1
    repeat' split at h1
    all_goals first | (rw [h0] at h1; cases h1) | skip
    simp only [enqueueIf] at h1
    split at h1 <;> (simp only [setMember] at h1; split at h1 <;> simp_all)
  | endBlock hh p r =>
    exfalso
    have : ∀ g : Group, (processOnce g).members = g.members := by
      intro g; unfold processOnce; split <;> first | rfl | (split <;> rfl)
    have hq : ∀ k (g : Group), (processQueued k g).members = g.members := by
      intro k; induction k with
      | zero => intro g; rfl
      | succ k ih => intro g; simp only [processQueued]; rw [ih, this]
    simp only [step] at h1; unfold endBlock at h1
    simp only [] at h1
    split at h1
    · split at h1 <;> (simp only [] at h1; rw [hq, h0] at h1; cases h1)
    · simp only [] at h1; rw [hq, h0] at h1; cases h1
  | complain s cs =>
    refine ⟨s, cs, rfl, ?_⟩
    -- find the complaint that set the flag
    have marks : ∀ (cs : List (Nat × Nat × Bool)) (g : Group), (g.members i).malicious = false →
        ((processComplaints g cs).members i).malicious = true → ∃ c ∈ cs, (c.2.2 = true ∧ c.2.1 = i) ∨ (c.1 = i) := by
      intro cs
      induction cs with
      | nil => intro g a b; simp only [processComplaints] at b; rw [a] at b; cases b
      | cons c rest ih =>
        intro g a b
        obtain ⟨ca, cb, cu⟩ := c
        simp only [processComplaints] at b
        by_cases e : (if (cu && inRange g cb) = true then cb else ca) = i
        · refine ⟨(ca, cb, cu), List.mem_cons_self .., ?_⟩
          by_cases c2 : (cu && inRange g cb) = true
          · rw [if_pos c2] at e; left; simp only [Bool.and_eq_true] at c2; exact ⟨c2.1, e⟩
          · rw [if_neg c2] at e; right; exact e
        · have hstill : ((setMember g (if (cu && inRange g cb) = true then cb else ca)
              { g.members (if (cu && inRange g cb) = true then cb else ca) with malicious := true }).members i).malicious = false := by
            simp only [setMember]; rw [if_neg (fun h => e h.symm)]; exact a
          obtain ⟨c', hc', hh⟩ := ih _ hstill b
          exact ⟨c', List.mem_cons_of_mem _ hc', hh⟩
    simp only [step] at h1; unfold complain at h1
    match cs, h1 with
    | [], h1 => rw [h0] at h1; cases h1
    | (mid, r, u) :: rest, h1 =>
      simp only [] at h1
      repeat' split at h1
      all_goals first | (rw [h0] at h1; cases h1) | skip
      have hm : ((processComplaints g ((mid, r, u) :: rest)).members i).malicious = true := by
        simp only [enqueueIf] at h1
        split at h1 <;> (simp only [setMember] at h1; split at h1 <;> simp_all)
      exact marks _ g h0 hm

/-- PROPERTY (share slots): `FindMemberSlot(from, to)` is the position of `to` among the shares a dealer sends to the
    n−1 other members in id order, for every group size and every pair. -/
theorem findMemberSlot_correct (n from_ dst : Nat) (hf : 1 ≤ from_ ∧ from_ ≤ n) (ht : 1 ≤ dst ∧ dst ≤ n) (hne : from_ ≠ dst) :
    ((List.range' 1 n).filter (· ≠ from_))[findMemberSlot from_ dst]? = some dst := by
  -- the ids below `from_` keep their index, the ids above shift down by one
  have split : (List.range' 1 n).filter (· ≠ from_) = List.range' 1 (from_ - 1) ++ List.range' (from_ + 1) (n - from_) := by
    have e : List.range' 1 n = List.range' 1 (from_ - 1) ++ ([from_] ++ List.range' (from_ + 1) (n - from_)) := by
      have s1 : [from_] = List.range' (1 + (from_ - 1)) 1 := by rw [show 1 + (from_ - 1) = from_ from by omega]; rfl
      have s2 : from_ + 1 = 1 + (from_ - 1) + 1 := by omega
      rw [s1, s2, List.range'_append_1, List.range'_append_1]
      congr 1; omega
    rw [e, List.filter_append, List.filter_append]
    have f1 : (List.range' 1 (from_ - 1)).filter (· ≠ from_) = List.range' 1 (from_ - 1) := by
      apply List.filter_eq_self.mpr; intro a ha; rw [List.mem_range'_1] at ha; simp; omega
    have f2 : (List.range' (from_ + 1) (n - from_)).filter (· ≠ from_) = List.range' (from_ + 1) (n - from_) := by
      apply List.filter_eq_self.mpr; intro a ha; rw [List.mem_range'_1] at ha; simp; omega
    rw [f1, f2]; simp
  rw [split]
  unfold findMemberSlot
  by_cases c : from_ < dst
  · rw [if_pos c, List.getElem?_append_right (by simp; omega)]
    simp only [List.length_range']
    rw [List.getElem?_range' (by omega)]; congr 1; omega
  · rw [if_neg c, List.getElem?_append_left (by simp; omega), List.getElem?_range' (by omega)]; congr 1; omega

/-! ### several groups in one store: the expiry walk -/

/-- PROPERTY (the walk touches exactly the due prefix): `HandleExpiredGroups` processes the groups in id order up to the first one
    whose creation period has not run out; the number processed is the length of the maximal due prefix, every group behind
    it is left EXACTLY as it was (its round data included), every group of the prefix loses its interim data and is
    EXPIRED unless its creation had already ended (ACTIVE / FALLEN) -/
theorem walk_touches_exactly_the_due_prefix (period height : Int) (gs : List Group) :
    let r := expireWalk period height gs
    r.2 = (gs.takeWhile (due period height)).length ∧
    r.1 = (gs.takeWhile (due period height)).map expireOne ++ gs.dropWhile (due period height) := by
  induction gs with
  | nil => simp [expireWalk]
  | cons g rest ih =>
    simp only [expireWalk]
    by_cases h : due period height g = true
    · simp only [h, if_true, List.takeWhile_cons_of_pos, List.dropWhile_cons_of_pos, List.length_cons, List.map_cons, List.cons_append]
      exact ⟨by rw [ih.1], by rw [ih.2]⟩
    · have h' : due period height g = false := by simpa using h
      simp [h']

/-- …so a group is reached by the walk exactly when every older unprocessed group is due (the harness's `reachable`), and then
    the walk does to it what the single-group end-block model does -/
theorem walk_reaches_iff_all_older_due (period height : Int) (older : List Group) (g : Group) (rest : List Group) :
    ((expireWalk period height (older ++ g :: rest)).1[older.length]? = some (if older.all (due period height) && due period height g then expireOne g else g)) := by
  induction older with
  | nil =>
    simp only [List.nil_append, List.length_nil, List.all_nil, Bool.true_and, expireWalk]
    by_cases h : due period height g = true
    · simp [h]
    · have h' : due period height g = false := by simpa using h
      simp [h']
  | cons o os ih =>
    simp only [List.cons_append, List.length_cons, expireWalk]
    by_cases h : due period height o = true
    · simp only [h, if_true, List.all_cons, Bool.true_and, List.getElem?_cons_succ]
      exact ih
    · have h' : due period height o = false := by simpa using h
      simp [h']

example : (expireWalk 10 25 [{ n := 2, t := 1, createdHeight := 10 }, { n := 3, t := 2, createdHeight := 20, status := .round3 }]).2 = 1 := by decide

/-! ### the encoding of the symmetric key (finding F10, fixed in /repo)

`Complaint.KeySym` is a byte string that `secp256k1.ParsePubKey` accepts in three encodings of the same point. The two
proof relations of `VerifyComplaintSignature` are statements about the POINT (the model's `complaintSigOk`), so they hold
for every encoding; the share, however, was encrypted by the dealer under a key derived from the compressed bytes. Before
the fix the chain derived the decryption key from the bytes as sent: a dishonest complainant re-encoding the true key got
garbage decrypted, the "share" failed its check and the HONEST dealer was marked malicious. -/
namespace KeySymEncoding
variable {B P K : Type}

/-- since the fix: the key is derived from the canonical bytes of the parsed point -/
def keyCanonical (parse : B → Option P) (canon : P → B) (kdf : B → K) (ks : B) : Option K := (parse ks).map fun p => kdf (canon p)
/-- before the fix: from the bytes as sent -/
def keyRaw (kdf : B → K) (ks : B) : K := kdf ks

/-- the decryption key (hence the decrypted share, hence the verdict) depends only on the point the complaint names -/
theorem key_depends_only_on_the_point (parse : B → Option P) (canon : P → B) (kdf : B → K) (ks1 ks2 : B)
    (h : parse ks1 = parse ks2) : keyCanonical parse canon kdf ks1 = keyCanonical parse canon kdf ks2 := by
  unfold keyCanonical; rw [h]

/-- …and it IS the key the dealer encrypted under (the dealer used the canonical bytes of the same point) -/
theorem key_is_the_dealers (parse : B → Option P) (canon : P → B) (kdf : B → K) (ks : B) (p : P) (h : parse ks = some p) :
    keyCanonical parse canon kdf ks = some (kdf (canon p)) := by
  unfold keyCanonical; rw [h]; rfl

/-- the pre-fix derivation does not have this property: two encodings of one point, two keys (witness: bytes = Nat,
    point = parity, an injective derivation) -/
theorem raw_key_depends_on_the_encoding :
    ∃ (parse : Nat → Option Nat) (kdf : Nat → Nat) (ks1 ks2 : Nat), parse ks1 = parse ks2 ∧ keyRaw kdf ks1 ≠ keyRaw kdf ks2 :=
  ⟨fun n => some (n % 2), id, 2, 4, rfl, by decide⟩
end KeySymEncoding

/-! non-vacuity -/
example : (([Op.r1 1 true 1 true true, .endBlock 5 100 true, .r2 1 true 0, .endBlock 6 100 true, .confirm 1 true true, .endBlock 7 100 true].foldl step
    { n := 1, t := 1 }).status) = Status.active := by decide
example : findMemberSlot 2 1 = 0 ∧ findMemberSlot 2 3 = 1 ∧ findMemberSlot 3 1 = 0 ∧ findMemberSlot 1 3 = 1 := by decide

end C04
