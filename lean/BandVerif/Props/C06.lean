/-
C06 — property theorems: the feed price is the quorum-gated, power- and recency-weighted median of
fresh AVAILABLE validator prices.  Model: Model/Median.lean over the REGENERATED constants and
comparison operators of Generated/Median.lean (scale, multipliers, sections, `halfReached`,
`fitsSection`, `unsupportedWins`, `notReady`, `fresh`).  Lemmas: Lemmas/Median.lean.
-/
import BandVerif.Lemmas.Median

namespace C06
open BandVerif BandVerif.Median

/-- TIE TO SOURCE: the constants, enum values and comparison operators regenerated from
    x/feeds/types/median.go and x/feeds/keeper/keeper_price.go are the model's. -/
theorem generated_matches_model :
    Generated.Median.scale = scale ∧ Generated.Median.multipliers = multipliers ∧
    Generated.Median.sections = sections ∧
    Generated.Median.signal_price_status_unspecified = signal_price_status_unspecified ∧
    Generated.Median.signal_price_status_unsupported = signal_price_status_unsupported ∧
    Generated.Median.signal_price_status_unavailable = signal_price_status_unavailable ∧
    Generated.Median.signal_price_status_available = signal_price_status_available ∧
    Generated.Median.price_status_unknown_signal_id = price_status_unknown_signal_id ∧
    Generated.Median.price_status_not_ready = price_status_not_ready ∧
    Generated.Median.price_status_available = price_status_available ∧
    Generated.Median.halfReached = halfReached ∧ Generated.Median.fitsSection = fitsSection ∧
    Generated.Median.unsupportedWins = unsupportedWins ∧ Generated.Median.notReady = notReady ∧
    Generated.Median.fresh = fresh :=
  ⟨rfl, rfl, rfl, rfl, rfl, rfl, rfl, rfl, rfl, rfl, rfl, rfl, rfl, rfl, rfl⟩

/-- total / available / unsupported reporting power of a list of entries -/
def T (l : List Info) : Int := (l.map (·.power)).sum
def A (l : List Info) : Int := sumIf l isAvail
def U (l : List Info) : Int := sumIf l isUnsup

/-- PROPERTY (status rule). UNKNOWN_SIGNAL_ID iff more than half of the reporting power says
    UNSUPPORTED; otherwise AVAILABLE — with the weighted median — exactly when there is reporting
    power, it reaches the quorum and at least half of it is AVAILABLE; NOT_READY otherwise. -/
theorem status_rule (l : List Info) (q : Int) (hp : ∀ i ∈ l, 0 ≤ i.power) :
    (2 * U l > T l → calculatePrice l q = Res.price price_status_unknown_signal_id 0) ∧
    (¬ 2 * U l > T l → (T l = 0 ∨ T l < q ∨ 2 * A l < T l) →
        calculatePrice l q = Res.price price_status_not_ready 0) ∧
    (¬ 2 * U l > T l → ¬ (T l = 0 ∨ T l < q ∨ 2 * A l < T l) →
        ∃ p, calculatePrice l q = Res.price price_status_available p ∧ medianValidatorPriceInfos l = some p) := by
  have hpp := pricesPowers_eq l
  have key : calculatePrice l q =
      if 2 * U l > T l then Res.price price_status_unknown_signal_id 0
      else if (T l = 0 ∨ T l < q ∨ 2 * A l < T l) then Res.price price_status_not_ready 0
      else match medianValidatorPriceInfos l with
        | some p => Res.price price_status_available p
        | none => Res.error := by
    unfold calculatePrice; rw [hpp]
    simp only [unsupportedWins, notReady, decide_eq_true_eq, U, T, A]
    by_cases a : 2 * sumIf l isUnsup > (l.map (·.power)).sum
    · simp only [a, if_true]
    · by_cases b : ((l.map (·.power)).sum = 0 ∨ (l.map (·.power)).sum < q ∨ 2 * sumIf l isAvail < (l.map (·.power)).sum)
      · simp only [a, b, if_true, if_false]
      · simp only [a, b, if_false]
        cases medianValidatorPriceInfos l <;> rfl
  refine ⟨fun h => ?_, fun h1 h2 => ?_, fun h1 h2 => ?_⟩
  · rw [key, if_pos h]
  · rw [key, if_neg h1, if_pos h2]
  · have hA : 0 < A l := by
      have ht : 0 ≤ T l := sum_nonneg_of _ (by intro x hx; obtain ⟨i, hi, rfl⟩ := List.mem_map.mp hx; exact hp i hi)
      omega
    have hv : validOf l ≠ [] := by
      intro e; unfold A sumIf at hA; unfold validOf at e; rw [e] at hA; simp at hA
    obtain ⟨p, hm⟩ := (median_some_iff l hp).mpr hv
    refine ⟨p, ?_, hm⟩
    rw [key, if_neg h1, if_neg h2, hm]

/-- Totality (feeds end-block never fails in CalculatePrice): no error result for any entries with
    non-negative powers and any quorum — including quorum 0 with no reporting power (finding F3). -/
theorem calculatePrice_total (l : List Info) (q : Int) (hp : ∀ i ∈ l, 0 ≤ i.power) :
    calculatePrice l q ≠ Res.error := by
  obtain ⟨h1, h2, h3⟩ := status_rule l q hp
  by_cases a : 2 * U l > T l
  · rw [h1 a]; intro h; cases h
  · by_cases b : (T l = 0 ∨ T l < q ∨ 2 * A l < T l)
    · rw [h2 a b]; intro h; cases h
    · obtain ⟨p, hp', _⟩ := h3 a b; rw [hp']; intro h; cases h

/-- PROPERTY (range). A published price is the price of some fresh AVAILABLE entry, hence lies
    between the smallest and the largest of them. -/
theorem median_in_range (l : List Info) (q : Int) (st p : Nat)
    (h : calculatePrice l q = Res.price st p) (hst : st = price_status_available) :
    (∃ i ∈ l, isAvail i = true ∧ i.price = p) ∧
    (∃ i ∈ l, isAvail i = true ∧ i.price ≤ p) ∧ (∃ i ∈ l, isAvail i = true ∧ p ≤ i.price) := by
  subst hst
  have : medianValidatorPriceInfos l = some p := by
    unfold calculatePrice at h
    rw [pricesPowers_eq] at h
    simp only [] at h
    split at h
    · cases h
    · split at h
      · cases h
      · cases hm : medianValidatorPriceInfos l with
        | none => rw [hm] at h; cases h
        | some p' => rw [hm] at h; cases h; rfl
  obtain ⟨i, hi, ha, hpr⟩ := median_mem l p this
  exact ⟨⟨i, hi, ha, hpr⟩, ⟨i, hi, ha, by omega⟩, ⟨i, hi, ha, by omega⟩⟩

/-- PROPERTY (weighted median). With `ws` the section-walk weights of the AVAILABLE entries, strictly
    less than half of the total weight is priced below the result and at least half at or below it. -/
theorem median_is_weighted_median (l : List Info) (p : Nat) (hp : ∀ i ∈ l, 0 ≤ i.power)
    (hpos : 0 < wTotal (weightsOf l)) (h : medianValidatorPriceInfos l = some p) :
    2 * wBelow (weightsOf l) p < wTotal (weightsOf l) ∧ 2 * wUpTo (weightsOf l) p ≥ wTotal (weightsOf l) :=
  medianWeightedPrice_is_median (weightsOf l) p (weightsOf_nonneg l hp) hpos h

/-- The section walk never takes a negative amount: every weight is non-negative, and weights are
    attached to the AVAILABLE entries' prices in (newest first, then larger power) order. -/
theorem weights_nonneg (l : List Info) (hp : ∀ i ∈ l, 0 ≤ i.power) :
    (∀ e ∈ weightsOf l, 0 ≤ e.1) ∧
    (weightsOf l).map (·.2) = ((validOf l).mergeSort timeOrder).map (·.price) := by
  refine ⟨weightsOf_nonneg l hp, ?_⟩
  unfold weightsOf; exact weigh_prices _ _ _ _

/-- The median exists exactly when some AVAILABLE entry exists. -/
theorem median_total (l : List Info) (hp : ∀ i ∈ l, 0 ≤ i.power) :
    (∃ p, medianValidatorPriceInfos l = some p) ↔ validOf l ≠ [] := median_some_iff l hp

/-- PROPERTY (ignores stale prices and validators that are not bonded and oracle-active): the feed
    price is unchanged when every validator that is unbonded, inactive, without a price, with an
    UNSPECIFIED status or with a stale price is removed; it is a function of the ordered list only. -/
theorem ignores_stale_and_inactive (vals : List Val) (now interval quorum : Int) :
    feedPrice (vals.filter (counts now interval)) now interval quorum = feedPrice vals now interval quorum := by
  unfold feedPrice; rw [feedInfos_filter]

/-- freshness boundary: a price stamped exactly `now - interval` still counts, one second older does not -/
theorem freshness_boundary (st : Nat) (now interval : Int) (h : st ≠ signal_price_status_unspecified) :
    havePrice st (now - interval) now interval = true ∧ havePrice st (now - interval - 1) now interval = false := by
  unfold havePrice fresh
  constructor
  · simp [h]
  · simp; intro _; omega

/-! non-vacuity -/
example : calculatePrice [⟨3, 5, 100, 7⟩] 5 = Res.price price_status_available 100 := by
  simp [calculatePrice, pricesPowers, unsupportedWins, notReady, medianValidatorPriceInfos, weightsOf, validOf, isAvail,
    medianWeightedPrice, weigh, walk, firstHalf, halfReached, fitsSection, sections, multipliers, scale,
    signal_price_status_available, signal_price_status_unavailable, signal_price_status_unsupported, price_status_available]
example : calculatePrice [⟨1, 5, 100, 7⟩, ⟨3, 4, 100, 7⟩] 0 = Res.price price_status_unknown_signal_id 0 := by decide
example : calculatePrice [] 0 = Res.price price_status_not_ready 0 := by decide
example : calculatePrice [⟨2, 5, 100, 7⟩, ⟨3, 4, 100, 7⟩] 0 = Res.price price_status_not_ready 0 := by decide

end C06
