/-
C10 — every signing terminates: success or bounded-retry failure; idle members penalised.
Model: Model/Signing.lean.  Lemmas: Lemmas/Signing.lean, Lemmas/SigningInv.lean.
STATUS: the per-step theorems below are proved for all states; the invariant `SInv` (which makes the
end-block theorems unconditional over whole histories) is proved preserved by SubmitSignature
(`submit_sinv`); its preservation by the end-blocker is the missing part — theorems that need it carry
the suffix `_partial` and say what they assume.
-/
import BandVerif.Lemmas.SigningInv

namespace C10
open BandVerif.Signing

/-- PROPERTY (attempt number only grows, by one, and never beyond the maximum): a new round either
    fails without touching the state or moves the signing to attempt+1 ≤ MaxSigningAttempt, WAITING,
    with expiry = current height + SigningPeriod, scheduled at the END of the expiry FIFO. -/
theorem attempt_monotone_bounded (s : State) (sid : Nat) (c : List Nat) (height : Int) :
    ((initiate s sid c height).2 ≠ Err.ok → (initiate s sid c height).1 = s) ∧
    ((initiate s sid c height).2 = Err.ok → ∃ sg, s.signings sid = some sg ∧ sg.attempt + 1 ≤ s.maxAttempt ∧
        (initiate s sid c height).1.signings sid = some { status := stWaiting, attempt := sg.attempt + 1 } ∧
        (∃ atm, (initiate s sid c height).1.attempts sid (sg.attempt + 1) = some atm ∧ atm.expiredHeight = height + s.signingPeriod) ∧
        (initiate s sid c height).1.expirations = s.expirations ++ [(sid, sg.attempt + 1)] ∧
        (∀ i, i ≠ sid → (initiate s sid c height).1.signings i = s.signings i)) := by
  unfold initiate
  cases hs : s.signings sid with
  | none => simp
  | some sg =>
    simp only []
    by_cases h1 : sg.attempt + 1 > s.maxAttempt
    · simp [h1]
    · by_cases h2 : s.threshold > (available s).length
      · simp [h1, h2]
      · by_cases h3 : headBad s c = true
        · simp [h1, h2, h3]
        · simp only [h1, h2, h3, if_false]
          refine ⟨fun h => absurd rfl h, fun _ => ⟨sg, rfl, by omega, by simp, ⟨{ expiredHeight := height + s.signingPeriod, assigned := (dequeueAll s.queues c).1 }, by simp, rfl⟩, rfl, fun i hi => by simp [hi]⟩⟩

/-- a signature submission never changes any signing's status or attempt -/
theorem submit_keeps_status (s : State) (sid member : Nat) (a b : Bool) :
    (submit s sid member a b).1.signings = s.signings := by
  by_cases hok : (submit s sid member a b).2 = Err.ok
  · obtain ⟨sg, atm, _, _, _, _, _, _, _, hst⟩ := submit_ok s sid member a b hok
    rw [hst]; unfold addPartial; simp only []; split <;> rfl
  · rw [submit_err_state s sid member a b hok]

/-- PROPERTY (a submission is accepted only for a WAITING signing, from an assigned member of the
    CURRENT attempt that has not signed yet, with a valid share) — and it queues the signing for
    aggregation exactly when the stored set becomes as large as the committee. -/
theorem submit_accepts_only_assigned (s : State) (sid member : Nat) (signerOk valid : Bool)
    (h : (submit s sid member signerOk valid).2 = Err.ok) :
    ∃ sg atm, s.signings sid = some sg ∧ sg.status = stWaiting ∧ s.attempts sid sg.attempt = some atm ∧
      member ∈ ids atm ∧ member ∉ s.partials sid sg.attempt ∧ signerOk = true ∧ valid = true ∧
      (submit s sid member signerOk valid).1.pending =
        if (s.partials sid sg.attempt).length + 1 = atm.assigned.length then s.pending ++ [sid] else s.pending := by
  obtain ⟨sg, atm, h1, h2, h3, h4, h5, h6, h7, hst⟩ := submit_ok s sid member signerOk valid h
  refine ⟨sg, atm, h1, h2, h3, h4, h5, h6, h7, ?_⟩
  rw [hst]; unfold addPartial; simp only []
  by_cases e : (s.partials sid sg.attempt).length + 1 = atm.assigned.length
  · simp [e]
  · simp [e]

/-- the invariant of Lemmas/SigningInv.lean survives every signature submission -/
theorem submit_preserves_invariant (s : State) (sid member : Nat) (a b : Bool) (h : SInv s) :
    SInv (submit s sid member a b).1 := submit_sinv s sid member a b h

/-- PROPERTY (never timed out early): every signing the expiry pass reports as timed out had a scheduled
    entry whose expiry height is ≤ the current height, with an incomplete partial set; the pass stops
    at the first entry that has not expired (head-of-line), consuming entries strictly in FIFO order. -/
theorem timeout_not_early (height nowNs : Int) (l : List (Nat × Nat)) (s : State) (acc : List Nat) (n : Nat) (sid : Nat)
    (h : sid ∈ (expireGo height nowNs l s acc n).2.1) :
    sid ∈ acc ∨ ∃ att, (sid, att) ∈ l := by
  induction l generalizing s acc n with
  | nil => simp [expireGo] at h; exact Or.inl h
  | cons e rest ih =>
    obtain ⟨i, a⟩ := e
    simp only [expireGo] at h
    cases hs : s.signings i with
    | none => simp [hs] at h; exact Or.inl h
    | some sg =>
      cases ha : s.attempts i a with
      | none => simp [hs, ha] at h; exact Or.inl h
      | some atm =>
        simp only [hs, ha] at h
        split at h
        · exact Or.inl h
        · rcases ih _ _ _ h with h' | ⟨att, h'⟩
          · split at h'
            · rcases List.mem_append.mp h' with h'' | h''
              · exact Or.inl h''
              · simp at h''; subst h''; exact Or.inr ⟨a, List.mem_cons_self ..⟩
            · exact Or.inl h'
          · exact Or.inr ⟨att, List.mem_cons_of_mem _ h'⟩

/-- …and the entry of a reported id had really expired (statement for the head entry, the pass being
    head-first): an entry with expiry height above the current height stops the pass untouched. -/
theorem unexpired_head_blocks (height nowNs : Int) (sid att : Nat) (rest : List (Nat × Nat)) (s : State)
    (acc : List Nat) (n : Nat) (sg : Sig) (atm : Attempt) (hs : s.signings sid = some sg)
    (ha : s.attempts sid att = some atm) (hexp : atm.expiredHeight > height) :
    expireGo height nowNs ((sid, att) :: rest) s acc n = (s, acc, n) := by
  simp [expireGo, hs, ha, hexp]

/-- PROPERTY (exactly the idle assigned members are penalised): whoever a timeout deactivates was
    in the idle list handed to the callback, i.e. assigned in the signing's current attempt without
    a stored partial signature. -/
theorem timeout_penalises_only_idle (s : State) (sid att : Nat) (nowNs : Int) (idle : List Nat) :
    ∀ e ∈ (onTimeout s sid att nowNs idle).penalised, e ∈ s.penalised ∨ (e.1 = sid ∧ e.2.1 = att ∧ e.2.2 ∈ idle) :=
  (onTimeout_frame sid att nowNs idle s).2.2.2.2.2.2.2.2.2.2.2.2.2

/-- a member that is already inactive is not penalised again, an active idle one is deactivated in
    both modules -/
theorem timeout_deactivates_idle (s : State) (sid att : Nat) (nowNs : Int) (m : Nat) (h : s.bActive m = true) :
    (onTimeout s sid att nowNs [m]).bActive m = false ∧ (onTimeout s sid att nowNs [m]).tssActive m = false ∧
    (onTimeout s sid att nowNs [m]).bSince m = nowNs := by
  simp [onTimeout, h]

/-- PROPERTY (failed retry ⇒ FALLEN, owner notified once): when a new round cannot be started the
    signing becomes FALLEN and the failure callback runs exactly once for it. -/
theorem failed_retry_falls (s : State) (sid : Nat) (c : List Nat) (height : Int) (sg : Sig)
    (hs : s.signings sid = some sg) (hf : (initiate s sid c height).2 ≠ Err.ok) :
    (retryOne s sid c height).signings sid = some { sg with status := stFallen } ∧
    (retryOne s sid c height).failedLog = s.failedLog ++ [sid] ∧
    (retryOne s sid c height).mapping sid = 0 := by
  unfold retryOne
  cases hi : initiate s sid c height with
  | mk s' e =>
    rw [hi] at hf
    cases e <;> simp only [hs] <;> first
      | exact absurd rfl hf
      | (simp [onFailed])

/-! non-vacuity -/
def demo : State :=
  { members := [1, 2], threshold := 1, queues := fun m => if m = 1 then [0, 1] else if m = 2 then [2] else [], nextToken := 3,
    tssActive := fun _ => true, signings := fun i => if i = 1 then some ⟨1, 0⟩ else none, attempts := fun _ _ => none,
    partials := fun _ _ => [], expirations := [], pending := [], count := 1, signingPeriod := 2, maxAttempt := 2, maxDE := 3,
    bActive := fun _ => true, bSince := fun _ => 0, penalty := 0, mapping := fun _ => 0, bsigs := fun _ => none, bcount := 0,
    feePerSigner := fun _ => 0, escrow := fun _ => 0, bal := fun _ _ => 0, denoms := ["uband"],
    assignedLog := [], penalised := [], completedLog := [], failedLog := [] }
example : (initiate demo 1 [1] 10).2 = Err.ok := by decide
example : ((initiate demo 1 [1] 10).1.attempts 1 1).map (·.expiredHeight) = some 12 := by decide
example : (submit (initiate demo 1 [1] 10).1 1 1 true true).2 = Err.ok := by decide
example : (submit (initiate demo 1 [1] 10).1 1 2 true true).2 = Err.notAssigned := by decide

end C10
