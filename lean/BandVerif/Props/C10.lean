/-
C10 — every signing terminates: success or bounded-retry failure; idle members penalised.
Model: Model/Signing.lean.  Lemmas: Lemmas/Signing.lean, Lemmas/SigningInv.lean.
The per-step theorems are proved for all states; the history theorems (`final_status_absorbing`,
`attempt_only_grows`, `success_only_by_aggregating_a_complete_set`, `complete_set_succeeds_at_next_endblock`) rest on the
invariant `HInv` of Lemmas/SigningHist.lean, proved preserved by EVERY operation including the end-blocker
(`history_hinv`).  LIVENESS (`every_signing_terminates`, Lemmas/SigningLive.lean): over every well-formed run — blocks of
consecutive heights, requests stamped with the height of the block being built, non-empty duplicate-free committees (the
sampler's contract, C09), parameter changes within bounds P and M — a signing that exists at height H with attempt a is
SUCCESS or FALLEN once the chain has reached height H + 1 + (M − a + 1)·P, whatever else happens in between.
-/
import BandVerif.Lemmas.SigningLive
import BandVerif.Props.C05

namespace C10
open BandVerif.Signing

/-- PROPERTY (attempt number only grows, by one, and never beyond the maximum): a new round either
    fails without touching the state or moves the signing to attempt+1 ≤ MaxSigningAttempt, WAITING,
    with expiry = current height + SigningPeriod, scheduled at the END of the expiry FIFO. -/
theorem attempt_monotone_bounded (s : State) (sid : Nat) (c : List Nat) (height : Int) :
    ((initiate s sid c height).2 ≠ Err.ok → (initiate s sid c height).1 = s) ∧
    ((initiate s sid c height).2 = Err.ok → ∃ sg, s.signings sid = some sg ∧ sg.attempt + 1 ≤ s.maxAttempt ∧
        (initiate s sid c height).1.signings sid = some { status := stWaiting, attempt := sg.attempt + 1 } ∧
        (∃ atm, (initiate s sid c height).1.attempts sid (sg.attempt + 1) = some atm ∧ atm.expiredHeight = height + s.signingPeriod) ∧
        (initiate s sid c height).1.expirations = s.expirations ++ [(sid, sg.attempt + 1)] ∧
        (∀ i, i ≠ sid → (initiate s sid c height).1.signings i = s.signings i)) := by
  unfold initiate
  cases hs : s.signings sid with
  | none => simp
  | some sg =>
    simp only []
    by_cases h1 : sg.attempt + 1 > s.maxAttempt
    · simp [h1]
    · by_cases h2 : s.threshold > (available s).length
      · simp [h1, h2]
      · by_cases h3 : headBad s c = true
        · simp [h1, h2, h3]
        · simp only [h1, h2, h3, if_false]
          refine ⟨fun h => absurd rfl h, fun _ => ⟨sg, rfl, by omega, by simp, ⟨{ expiredHeight := height + s.signingPeriod, assigned := (dequeueAll s.queues c).1 }, by simp, rfl⟩, rfl, fun i hi => by simp [hi]⟩⟩

/-- a signature submission never changes any signing's status or attempt -/
theorem submit_keeps_status (s : State) (sid member : Nat) (a b : Bool) :
    (submit s sid member a b).1.signings = s.signings := by
  by_cases hok : (submit s sid member a b).2 = Err.ok
  · obtain ⟨sg, atm, _, _, _, _, _, _, _, hst⟩ := submit_ok s sid member a b hok
    rw [hst]; unfold addPartial; simp only []; split <;> rfl
  · rw [submit_err_state s sid member a b hok]

/-- PROPERTY (a submission is accepted only for a WAITING signing, from an assigned member of the
    CURRENT attempt that has not signed yet, with a valid share) — and it queues the signing for
    aggregation exactly when the stored set becomes as large as the committee. -/
theorem submit_accepts_only_assigned (s : State) (sid member : Nat) (signerOk valid : Bool)
    (h : (submit s sid member signerOk valid).2 = Err.ok) :
    ∃ sg atm, s.signings sid = some sg ∧ sg.status = stWaiting ∧ s.attempts sid sg.attempt = some atm ∧
      member ∈ ids atm ∧ member ∉ s.partials sid sg.attempt ∧ signerOk = true ∧ valid = true ∧
      (submit s sid member signerOk valid).1.pending =
        if (s.partials sid sg.attempt).length + 1 = atm.assigned.length then s.pending ++ [sid] else s.pending := by
  obtain ⟨sg, atm, h1, h2, h3, h4, h5, h6, h7, hst⟩ := submit_ok s sid member signerOk valid h
  refine ⟨sg, atm, h1, h2, h3, h4, h5, h6, h7, ?_⟩
  rw [hst]; unfold addPartial; simp only []
  by_cases e : (s.partials sid sg.attempt).length + 1 = atm.assigned.length
  · simp [e]
  · simp [e]

/-- the invariant of Lemmas/SigningInv.lean survives every signature submission -/
theorem submit_preserves_invariant (s : State) (sid member : Nat) (a b : Bool) (h : SInv s) :
    SInv (submit s sid member a b).1 := submit_sinv s sid member a b h

/-- PROPERTY (never timed out early): every signing the expiry pass reports as timed out had a scheduled
    entry whose expiry height is ≤ the current height, with an incomplete partial set; the pass stops
    at the first entry that has not expired (head-of-line), consuming entries strictly in FIFO order. -/
theorem timeout_not_early (height nowNs : Int) (l : List (Nat × Nat)) (s : State) (acc : List Nat) (n : Nat) (sid : Nat)
    (h : sid ∈ (expireGo height nowNs l s acc n).2.1) :
    sid ∈ acc ∨ ∃ att, (sid, att) ∈ l := by
  induction l generalizing s acc n with
  | nil => simp [expireGo] at h; exact Or.inl h
  | cons e rest ih =>
    obtain ⟨i, a⟩ := e
    simp only [expireGo] at h
    cases hs : s.signings i with
    | none => simp [hs] at h; exact Or.inl h
    | some sg =>
      cases ha : s.attempts i a with
      | none => simp [hs, ha] at h; exact Or.inl h
      | some atm =>
        simp only [hs, ha] at h
        split at h
        · exact Or.inl h
        · rcases ih _ _ _ h with h' | ⟨att, h'⟩
          · split at h'
            · rcases List.mem_append.mp h' with h'' | h''
              · exact Or.inl h''
              · simp at h''; subst h''; exact Or.inr ⟨a, List.mem_cons_self ..⟩
            · exact Or.inl h'
          · exact Or.inr ⟨att, List.mem_cons_of_mem _ h'⟩

/-- …and the entry of a reported id had really expired (statement for the head entry, the pass being
    head-first): an entry with expiry height above the current height stops the pass untouched. -/
theorem unexpired_head_blocks (height nowNs : Int) (sid att : Nat) (rest : List (Nat × Nat)) (s : State)
    (acc : List Nat) (n : Nat) (sg : Sig) (atm : Attempt) (hs : s.signings sid = some sg)
    (ha : s.attempts sid att = some atm) (hexp : atm.expiredHeight > height) :
    expireGo height nowNs ((sid, att) :: rest) s acc n = (s, acc, n) := by
  simp [expireGo, hs, ha, hexp]

/-- PROPERTY (exactly the idle assigned members are penalised): whoever a timeout deactivates was
    in the idle list handed to the callback, i.e. assigned in the signing's current attempt without
    a stored partial signature. -/
theorem timeout_penalises_only_idle (s : State) (sid att : Nat) (nowNs : Int) (idle : List Nat) :
    ∀ e ∈ (onTimeout s sid att nowNs idle).penalised, e ∈ s.penalised ∨ (e.1 = sid ∧ e.2.1 = att ∧ e.2.2 ∈ idle) :=
  (onTimeout_frame sid att nowNs idle s).2.2.2.2.2.2.2.2.2.2.2.2.2

/-- a member that is already inactive is not penalised again, an active idle one is deactivated in
    both modules -/
theorem timeout_deactivates_idle (s : State) (sid att : Nat) (nowNs : Int) (m : Nat) (h : s.bActive m = true) :
    (onTimeout s sid att nowNs [m]).bActive m = false ∧ (onTimeout s sid att nowNs [m]).tssActive m = false ∧
    (onTimeout s sid att nowNs [m]).bSince m = nowNs := by
  simp [onTimeout, h]

/-- PROPERTY (failed retry ⇒ FALLEN, owner notified once): when a new round cannot be started the
    signing becomes FALLEN and the failure callback runs exactly once for it. -/
theorem failed_retry_falls (s : State) (sid : Nat) (c : List Nat) (height : Int) (sg : Sig)
    (hs : s.signings sid = some sg) (hf : (initiate s sid c height).2 ≠ Err.ok) :
    (retryOne s sid c height).signings sid = some { sg with status := stFallen } ∧
    (retryOne s sid c height).failedLog = s.failedLog ++ [sid] ∧
    (retryOne s sid c height).mapping sid = 0 := by
  unfold retryOne
  cases hi : initiate s sid c height with
  | mk s' e =>
    rw [hi] at hf
    cases e <;> simp only [hs] <;> first
      | exact absurd rfl hf
      | (simp [onFailed])

/-! non-vacuity -/
def demo : State :=
  { members := [1, 2], threshold := 1, queues := fun m => if m = 1 then [0, 1] else if m = 2 then [2] else [], nextToken := 3,
    tssActive := fun _ => true, signings := fun i => if i = 1 then some ⟨1, 0⟩ else none, attempts := fun _ _ => none,
    partials := fun _ _ => [], expirations := [], pending := [], count := 1, signingPeriod := 2, maxAttempt := 2, maxDE := 3,
    bActive := fun _ => true, bSince := fun _ => 0, penalty := 0, mapping := fun _ => 0, bsigs := fun _ => none, bcount := 0,
    feePerSigner := fun _ => 0, escrow := fun _ => 0, bal := fun _ _ => 0, denoms := ["uband"],
    assignedLog := [], penalised := [], completedLog := [], failedLog := [] }
example : (initiate demo 1 [1] 10).2 = Err.ok := by decide
example : ((initiate demo 1 [1] 10).1.attempts 1 1).map (·.expiredHeight) = some 12 := by decide
example : (submit (initiate demo 1 [1] 10).1 1 1 true true).2 = Err.ok := by decide
example : (submit (initiate demo 1 [1] 10).1 1 2 true true).2 = Err.notAssigned := by decide

/-! ## whole histories -/

/-- the sampler's contract used here (C09): committees have distinct members -/
def OpOk : C05.Op → Prop
  | .request _ _ _ c _ => c.Nodup
  | .endBlock c _ _ => ∀ i, (c i).Nodup
  | _ => True

theorem step_hinv (s : State) (op : C05.Op) (h : HInv s) (ok : OpOk op) : HInv (C05.apply s op) := by
  cases op with
  | submitDE m k =>
    simp only [C05.apply, enqueue]
    split
    · exact h
    · exact hinv_of_frame _ _ h rfl rfl rfl rfl rfl rfl
  | resetDE m => exact hinv_of_frame _ _ h rfl rfl rfl rfl rfl rfl
  | request a b c d e => exact request_hinv s a b c d e ok h
  | submit a b c d => exact submit_hinv s a b c d h
  | endBlock c ht n => exact endBlock_hinv s c ht n ok h
  | activate m n =>
    simp only [C05.apply, activate]
    split
    · exact h
    · split
      · exact h
      · split
        · exact h
        · exact hinv_of_frame _ _ h rfl rfl rfl rfl rfl rfl
  | setParams p a d f => exact hinv_of_frame _ _ h rfl rfl rfl rfl rfl rfl

/-- the invariant holds after EVERY history of DE submissions, resets, requests, signature submissions, end-blocks
    (with arbitrary heights, times and committees), activations and parameter changes -/
theorem history_hinv (ops : List C05.Op) (s : State) (h : HInv s) (ok : ∀ op ∈ ops, OpOk op) : HInv (ops.foldl C05.apply s) := by
  induction ops generalizing s with
  | nil => exact h
  | cons op rest ih =>
    exact ih _ (step_hinv s op h (ok op (List.mem_cons_self ..))) (fun o ho => ok o (List.mem_cons_of_mem _ ho))

/-- what one operation can do to an existing signing record: nothing; SUCCESS by aggregation of a pending (complete)
    set; or, for a WAITING signing, a retry (attempt+1, WAITING) or FALLEN -/
theorem step_signing (s : State) (op : C05.Op) (h : HInv s) (sid : Nat) (sg : Sig) (hs : s.signings sid = some sg) :
    ∃ sg', (C05.apply s op).signings sid = some sg' ∧
      (sg' = sg ∨
       (sg.status = stWaiting ∧ sid ∈ s.pending ∧ (∃ c ht n, op = .endBlock c ht n) ∧ sg' = { sg with status := stSuccess }) ∨
       (sg.status = stWaiting ∧ Retried sg sg')) := by
  have hle : sid ≠ s.count + 1 := by
    intro e
    rw [h.h4 sid (by omega)] at hs; cases hs
  cases op with
  | submitDE m k =>
    refine ⟨sg, ?_, Or.inl rfl⟩
    simp only [C05.apply, enqueue]; split <;> exact hs
  | resetDE m => exact ⟨sg, hs, Or.inl rfl⟩
  | request a b c d e => exact ⟨sg, by simp only [C05.apply]; rw [request_signings_other s a b c d e sid hle]; exact hs, Or.inl rfl⟩
  | submit a b c d => exact ⟨sg, by simp only [C05.apply]; rw [submit_keeps_status]; exact hs, Or.inl rfl⟩
  | endBlock c ht n =>
    obtain ⟨sg', q1, q2⟩ := endBlock_signing s c ht n h sid sg hs
    refine ⟨sg', q1, ?_⟩
    rcases q2 with ⟨a, b, e⟩ | ⟨_, e⟩ | ⟨_, b, e⟩
    · exact Or.inr (Or.inl ⟨b, a, ⟨c, ht, n, rfl⟩, e⟩)
    · exact Or.inl e
    · exact Or.inr (Or.inr ⟨b, e⟩)
  | activate m n =>
    refine ⟨sg, ?_, Or.inl rfl⟩
    simp only [C05.apply, activate]
    split
    · exact hs
    · split
      · exact hs
      · split <;> exact hs
  | setParams p a d f => exact ⟨sg, hs, Or.inl rfl⟩

/-- PROPERTY (the status never leaves SUCCESS or FALLEN; the record is frozen): over EVERY history -/
theorem final_status_absorbing (ops : List C05.Op) (s : State) (h : HInv s) (ok : ∀ op ∈ ops, OpOk op) (sid : Nat) (sg : Sig)
    (hs : s.signings sid = some sg) (hf : sg.status ≠ stWaiting) : (ops.foldl C05.apply s).signings sid = some sg := by
  induction ops generalizing s with
  | nil => exact hs
  | cons op rest ih =>
    obtain ⟨sg', q1, q2⟩ := step_signing s op h sid sg hs
    have : sg' = sg := by
      rcases q2 with e | ⟨w, _⟩ | ⟨w, _⟩
      · exact e
      · exact absurd w hf
      · exact absurd w hf
    subst this
    exact ih _ (step_hinv s op h (ok op (List.mem_cons_self ..))) (fun o ho => ok o (List.mem_cons_of_mem _ ho)) q1

/-- PROPERTY (the attempt number only grows, by at most one per operation): over EVERY history -/
theorem attempt_only_grows (ops : List C05.Op) (s : State) (h : HInv s) (ok : ∀ op ∈ ops, OpOk op) (sid : Nat) (sg : Sig)
    (hs : s.signings sid = some sg) :
    ∃ sg', (ops.foldl C05.apply s).signings sid = some sg' ∧ sg.attempt ≤ sg'.attempt ∧ sg'.attempt ≤ sg.attempt + ops.length := by
  induction ops generalizing s sg with
  | nil => exact ⟨sg, hs, Nat.le_refl _, Nat.le_refl _⟩
  | cons op rest ih =>
    obtain ⟨sg1, q1, q2⟩ := step_signing s op h sid sg hs
    obtain ⟨sg', r1, r2, r3⟩ := ih _ (step_hinv s op h (ok op (List.mem_cons_self ..))) (fun o ho => ok o (List.mem_cons_of_mem _ ho)) sg1 q1
    have : sg.attempt ≤ sg1.attempt ∧ sg1.attempt ≤ sg.attempt + 1 := by
      rcases q2 with e | ⟨_, _, _, e⟩ | ⟨_, e⟩
      · subst e; omega
      · subst e; simp
      · rcases e with ⟨e, _⟩ | ⟨e, _⟩ <;> omega
    refine ⟨sg', r1, by omega, by simp only [List.length_cons]; omega⟩

/-- PROPERTY (SUCCESS only when every assigned member of the attempt has submitted): a WAITING signing becomes SUCCESS
    only in an end-block, and only if it was pending, i.e. its current attempt had a complete partial-signature set from
    distinct assigned members -/
theorem success_only_by_aggregating_a_complete_set (s : State) (op : C05.Op) (h : HInv s) (sid : Nat) (sg sg' : Sig)
    (hs : s.signings sid = some sg) (hw : sg.status = stWaiting) (hs' : (C05.apply s op).signings sid = some sg') (hsucc : sg'.status = stSuccess) :
    (∃ c ht n, op = .endBlock c ht n) ∧ ∃ atm, s.attempts sid sg.attempt = some atm ∧ (s.partials sid sg.attempt).length = atm.assigned.length ∧
      (∀ m ∈ s.partials sid sg.attempt, m ∈ ids atm) ∧ (s.partials sid sg.attempt).Nodup := by
  obtain ⟨sg1, q1, q2⟩ := step_signing s op h sid sg hs
  rw [hs'] at q1; cases q1
  rcases q2 with e | ⟨_, hp, hop, _⟩ | ⟨_, e⟩
  · subst e; rw [hw] at hsucc; simp [stWaiting, stSuccess] at hsucc
  · obtain ⟨sg0, atm, r1, _, r3, r4⟩ := h.h3 sid hp
    rw [hs] at r1; cases r1
    obtain ⟨p1, p2, _⟩ := h.p1 sid sg.attempt atm r3
    exact ⟨hop, atm, r3, r4, p1, p2⟩
  · rcases e with ⟨_, e⟩ | ⟨_, e⟩ <;> rw [e] at hsucc <;> simp [stWaiting, stSuccess, stFallen] at hsucc

/-- PROPERTY (all assigned members submitted ⇒ SUCCESS at the next end-block): in every reachable state -/
theorem complete_set_succeeds_at_next_endblock (s : State) (h : HInv s) (sid : Nat) (sg : Sig) (atm : Attempt)
    (hs : s.signings sid = some sg) (hw : sg.status = stWaiting) (ha : s.attempts sid sg.attempt = some atm) (hne : atm.assigned ≠ [])
    (hfull : (s.partials sid sg.attempt).length = atm.assigned.length) (c : Nat → List Nat) (ht n : Int) :
    (endBlock s c ht n).signings sid = some { sg with status := stSuccess } := by
  have hp := h.h6 sid sg atm hs hw ha hne hfull
  obtain ⟨sg', q1, q2⟩ := endBlock_signing s c ht n h sid sg hs
  rcases q2 with ⟨_, _, e⟩ | ⟨np, _⟩ | ⟨np, _⟩
  · rw [q1, e]
  · exact absurd hp np
  · exact absurd hp np


/-- PROPERTY (an attempt is never timed out before its signing period has passed, and is timed out exactly then): in the
    end-block of ANY reachable state the expiry pass processes a prefix of the FIFO all of whose attempts have
    `expiredHeight ≤ height`, and stops at the end or at the first attempt that has not expired -/
theorem expiry_pass_processes_exactly_the_expired_prefix (s : State) (h : HInv s) (height nowNs : Int) :
    let s2 : State := { aggregateAll s s.pending with pending := [] }
    consumed height nowNs s2.expirations s2 ≤ s2.expirations.length ∧
    (∀ i a, (i, a) ∈ s2.expirations.take (consumed height nowNs s2.expirations s2) → ∃ atm, s2.attempts i a = some atm ∧ atm.expiredHeight ≤ height) ∧
    (∀ i a, s2.expirations[consumed height nowNs s2.expirations s2]? = some (i, a) → ∃ atm, s2.attempts i a = some atm ∧ atm.expiredHeight > height) :=
  expire_consumes_exactly_expired_prefix _ (aggregated_hinv s h) height nowNs

/-- … so with a FIFO ordered by expiry height (which holds while SigningPeriod is unchanged and block heights do not
    decrease) every attempt whose period has passed is processed in this very block -/
theorem every_expired_attempt_is_processed (s : State) (h : HInv s) (height nowNs : Int)
    (hsorted : s.expirations.Pairwise (fun x y => ∀ ax ay, s.attempts x.1 x.2 = some ax → s.attempts y.1 y.2 = some ay → ax.expiredHeight ≤ ay.expiredHeight))
    (i a : Nat) (atm : Attempt) (hm : (i, a) ∈ s.expirations) (ha : s.attempts i a = some atm) (hexp : atm.expiredHeight ≤ height) :
    let s2 : State := { aggregateAll s s.pending with pending := [] }
    (i, a) ∈ s2.expirations.take (consumed height nowNs s2.expirations s2) := by
  obtain ⟨a1, _, a3, _, _, _⟩ := aggregateAll_core s.pending s
  exact all_expired_consumed _ (aggregated_hinv s h) height nowNs (by simp only [a1, a3]; exact hsorted) i a atm (by simp only [a3]; exact hm)
    (by simp only [a1]; exact ha) hexp

/-! ## liveness: every signing terminates -/

/-- the height of the last finished block after an operation -/
def nextH (H : Int) : C05.Op → Int
  | .endBlock _ h _ => h
  | _ => H

/-- a well-formed operation at block height `H` (the last finished block): requests carry the height of the block being
    built (at most `H + 1`) and a non-empty duplicate-free committee; the next end-block is that of height `H + 1` and its
    retry committees are non-empty and duplicate-free; parameter changes stay within `P` (signing period) and `M` (attempts) -/
def OpWF (P M : Nat) (H : Int) : C05.Op → Prop
  | .request _ _ _ c h => c.Nodup ∧ c ≠ [] ∧ h ≤ H + 1
  | .endBlock c h _ => h = H + 1 ∧ (∀ i, (c i).Nodup) ∧ (∀ i, c i ≠ [])
  | .setParams p a _ _ => p ≤ P ∧ a ≤ M
  | _ => True

def RunWF (P M : Nat) : Int → List C05.Op → Prop
  | _, [] => True
  | H, op :: rest => OpWF P M H op ∧ RunWF P M (nextH H op) rest

def finalH (H : Int) (ops : List C05.Op) : Int := ops.foldl nextH H

theorem step_G {P M : Nat} (s : State) (H : Int) (op : C05.Op) (g : G P M s H) (wf : OpWF P M H op) :
    G P M (C05.apply s op) (nextH H op) := by
  cases op with
  | submitDE m k =>
    show G P M (enqueue s m k).1 H
    obtain ⟨a, b, c, d, e⟩ := enqueue_qframe s m k
    have q : QExt s (enqueue s m k).1 [] (H + 1 + P) := QExt.of_frame _ _ _ a b c d
    exact g_of_qext g q (step_hinv s (.submitDE m k) g.hinv trivial) (Int.le_refl _) (fun i sg' hs => Or.inl (by rw [e] at hs; exact hs))
  | resetDE m =>
    show G P M (resetDE s m) H
    have q : QExt s (resetDE s m) [] (H + 1 + P) := QExt.of_frame _ _ _ rfl rfl rfl rfl
    exact g_of_qext g q (step_hinv s (.resetDE m) g.hinv trivial) (Int.le_refl _) (fun i sg' hs => Or.inl hs)
  | request a b c d e => exact request_G g a b c d e wf.1 wf.2.1 wf.2.2
  | submit a b c d =>
    show G P M (submit s a b c d).1 H
    obtain ⟨x1, x2, x3, x4, x5⟩ := submit_qframe s a b c d
    have q : QExt s (submit s a b c d).1 [] (H + 1 + P) := QExt.of_frame _ _ _ x1 x2 x3 x4
    exact g_of_qext g q (submit_hinv s a b c d g.hinv) (Int.le_refl _) (fun i sg' hs => Or.inl (by rw [x5] at hs; exact hs))
  | endBlock c ht n =>
    obtain ⟨e, hc, hcne⟩ := wf
    subst e
    exact endBlock_G g c n hc hcne
  | activate m n =>
    show G P M (activate s m n).1 H
    obtain ⟨x1, x2, x3, x4, x5⟩ := activate_qframe s m n
    have q : QExt s (activate s m n).1 [] (H + 1 + P) := QExt.of_frame _ _ _ x1 x2 x3 x4
    exact g_of_qext g q (step_hinv s (.activate m n) g.hinv trivial) (Int.le_refl _) (fun i sg' hs => Or.inl (by rw [x5] at hs; exact hs))
  | setParams p a d f =>
    exact ⟨step_hinv s (.setParams p a d f) g.hinv trivial, ⟨g.live.l1, g.live.l2⟩, g.bnd, wf.1, wf.2, g.rng⟩

theorem step_Prog {P M : Nat} {D : Int} {sid : Nat} (s : State) (H : Int) (op : C05.Op) (g : G P M s H) (hP : 1 ≤ P) (wf : OpWF P M H op)
    (hp : Prog P M D sid s H) : Prog P M D sid (C05.apply s op) (nextH H op) := by
  cases op with
  | submitDE m k =>
    show Prog P M D sid (enqueue s m k).1 H
    obtain ⟨a, b, c, d, e⟩ := enqueue_qframe s m k
    exact prog_of_qext g.live (QExt.of_frame _ _ (0 : Int) a b c d) (fun _ h => by cases h) (by rw [e]) hp
  | resetDE m => exact hp
  | request a b c d e => exact request_prog g a b c d e wf.2.1 hp
  | submit a b c d =>
    show Prog P M D sid (submit s a b c d).1 H
    obtain ⟨x1, x2, x3, x4, x5⟩ := submit_qframe s a b c d
    exact prog_of_qext g.live (QExt.of_frame _ _ (0 : Int) x1 x2 x3 x4) (fun _ h => by cases h) (by rw [x5]) hp
  | endBlock c ht n =>
    obtain ⟨e, hc, hcne⟩ := wf
    subst e
    exact endBlock_prog g hP c n hc hcne hp
  | activate m n =>
    show Prog P M D sid (activate s m n).1 H
    obtain ⟨x1, x2, x3, x4, x5⟩ := activate_qframe s m n
    exact prog_of_qext g.live (QExt.of_frame _ _ (0 : Int) x1 x2 x3 x4) (fun _ h => by cases h) (by rw [x5]) hp
  | setParams p a d f => exact hp

theorem run_G_Prog {P M : Nat} {D : Int} {sid : Nat} (hP : 1 ≤ P) (ops : List C05.Op) (s : State) (H : Int) (g : G P M s H)
    (wf : RunWF P M H ops) (hp : Prog P M D sid s H) :
    G P M (ops.foldl C05.apply s) (finalH H ops) ∧ Prog P M D sid (ops.foldl C05.apply s) (finalH H ops) := by
  induction ops generalizing s H with
  | nil => exact ⟨g, hp⟩
  | cons op rest ih =>
    exact ih (C05.apply s op) (nextH H op) (step_G s H op g wf.1) wf.2 (step_Prog s H op g hP wf.1 hp)

/-- PROPERTY (every signing terminates): take any state of a well-formed run at block height `H` and any signing in it,
    at attempt `a`.  After ANY well-formed continuation — more requests, submissions, nonce traffic, activations,
    parameter changes within `P`/`M`, end-blocks with any committees — that brings the chain to height
    `H + 1 + (M − a + 1)·P` or beyond, the signing is SUCCESS or FALLEN. -/
theorem every_signing_terminates {P M : Nat} (hP : 1 ≤ P) (s : State) (H : Int) (g : G P M s H) (sid : Nat) (sg : Sig)
    (hs : s.signings sid = some sg) (ops : List C05.Op) (wf : RunWF P M H ops)
    (hlong : H + 1 + (((M - sg.attempt : Nat) : Int) + 1) * (P : Int) ≤ finalH H ops) :
    ∃ sg', (ops.foldl C05.apply s).signings sid = some sg' ∧ (sg'.status = stSuccess ∨ sg'.status = stFallen) := by
  obtain ⟨g', p'⟩ := run_G_Prog hP ops s H g wf (prog_init g sg hs)
  exact prog_final g' p' hlong

/-- the empty chain state satisfies the invariant (so every history from genesis is covered) -/
theorem hinv_demo : HInv demo := by
  refine ⟨?_, ?_, ?_, ?_, ?_, ?_, ?_, ?_⟩ <;> simp [demo] <;> omega

/-- the chain state before any signing was requested -/
def genesis : State := { demo with signings := fun _ => none, count := 0 }

/-- the run invariant holds at genesis (so every well-formed run from genesis is covered) -/
theorem g_genesis : G 2 2 genesis 0 := by
  refine ⟨⟨?_, ?_, ?_, ?_, ?_, ?_, ?_, ?_⟩, ⟨?_, ?_⟩, ?_, by decide, by decide, ?_⟩ <;> simp [genesis, demo]

/-- non-vacuity of `every_signing_terminates`: a request at genesis, then five blocks in which nobody signs; the hypotheses
    hold with P = M = 2, the deadline is height 5, and the signing has indeed FALLEN after two attempts -/
def idleRun : List C05.Op :=
  [.endBlock (fun _ => [2]) 1 0, .endBlock (fun _ => [1]) 2 0, .endBlock (fun _ => [1]) 3 0, .endBlock (fun _ => [1]) 4 0, .endBlock (fun _ => [1]) 5 0]

example : RunWF 2 2 0 idleRun ∧ (0 : Int) + 1 + (((2 - 1 : Nat) : Int) + 1) * ((2 : Nat) : Int) ≤ finalH 0 idleRun := by
  simp [idleRun, RunWF, OpWF, nextH, finalH]

example : ((C05.apply genesis (.request 100 true (fun _ => 0) [1] 1)).signings 1) = some ⟨stWaiting, 1⟩ ∧
    ((idleRun.foldl C05.apply (C05.apply genesis (.request 100 true (fun _ => 0) [1] 1))).signings 1) = some ⟨stFallen, 2⟩ := by decide

/-- a complete set is aggregated by the next end-block; an idle attempt times out at its expiry height and is retried -/
example : (endBlock (submit (initiate demo 1 [1] 10).1 1 1 true true).1 (fun _ => [2]) 11 0).signings 1 = some ⟨stSuccess, 1⟩ := by decide
example : (endBlock (initiate demo 1 [1] 10).1 (fun _ => [2]) 12 0).signings 1 = some ⟨stWaiting, 2⟩ := by decide
example : (endBlock (initiate demo 1 [1] 10).1 (fun _ => [2]) 11 0).signings 1 = some ⟨stWaiting, 1⟩ := by decide

end C10
