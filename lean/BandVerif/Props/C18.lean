/-
C18 — the signing group changes only through a completed, scheduled transition.
Model: Model/Transition.lean (the bandtss transition state machine and its tss callbacks).
-/
import BandVerif.Model.Transition

namespace C18
open BandVerif.Transition

/-- closes `a = a` or `True` (what `simp only` leaves of a trivial conjunct) -/
macro "triv" : term => `(by first | rfl | trivial)

/-- PROPERTY: proposals never change the current group; they are accepted only from the authority,
    with an execution time inside [now+min, now+max], and only while NO transition is in progress. -/
theorem proposal_gate (s : State) (auth : Bool) (now et : Int) (created : Option (Nat × List Nat)) :
    (propose s auth now et created).1.currentGroup = s.currentGroup ∧
    ((propose s auth now et created).2 = Err.ok →
        auth = true ∧ now + s.minDur ≤ et ∧ et ≤ now + s.maxDur ∧ s.transition = none ∧
        ∃ gid ms, created = some (gid, ms) ∧
          (propose s auth now et created).1.transition = some ⟨stCreating, et, 0, gid, s.currentGroup, false⟩) ∧
    ((propose s auth now et created).2 ≠ Err.ok → (propose s auth now et created).1 = s) := by
  unfold propose
  by_cases h1 : auth = true
  · by_cases h2 : execTimeOk s now et = true
    · cases ht : s.transition with
      | some t => simp [h1, h2, ht]
      | none =>
        cases created with
        | none => simp [h1, h2, ht]
        | some p =>
          obtain ⟨gid, ms⟩ := p
          simp only [h1, h2, ht, Bool.not_true, Bool.false_eq_true, if_false, Option.isSome_none]
          have hw : now + s.minDur ≤ et ∧ et ≤ now + s.maxDur := by
            unfold execTimeOk at h2; simpa using h2
          exact ⟨triv, fun _ => ⟨triv, hw.1, hw.2, triv, gid, ms, triv, triv⟩, fun h => absurd rfl h⟩
    · simp [h1, h2]
  · simp [h1]

theorem force_gate (s : State) (auth : Bool) (now et : Int) (gid : Nat) (ex : Bool) :
    (force s auth now et gid ex).1.currentGroup = s.currentGroup ∧
    ((force s auth now et gid ex).2 = Err.ok →
        auth = true ∧ now + s.minDur ≤ et ∧ et ≤ now + s.maxDur ∧ s.transition = none ∧ gid ≠ s.currentGroup ∧
        s.groupActive gid = true ∧
        (force s auth now et gid ex).1.transition = some ⟨stWaitingExec, et, 0, gid, s.currentGroup, true⟩) ∧
    ((force s auth now et gid ex).2 ≠ Err.ok → (force s auth now et gid ex).1 = s) := by
  unfold force
  by_cases h1 : auth = true
  · by_cases h2 : execTimeOk s now et = true
    · cases ht : s.transition with
      | some t => simp [h1, h2, ht]
      | none =>
        by_cases h3 : s.currentGroup = gid
        · simp [h1, h2, ht, h3]
        · by_cases h4 : ex = true
          · by_cases h5 : s.groupActive gid = true
            · simp only [h1, h2, ht, h3, h4, h5, Bool.not_true, Bool.false_eq_true, if_false, Option.isSome_none]
              have hw : now + s.minDur ≤ et ∧ et ≤ now + s.maxDur := by
                unfold execTimeOk at h2; simpa using h2
              cases ha : addMembers s gid with
              | none => simp
              | some s1 =>
                have hc : s1.currentGroup = s.currentGroup := by
                  unfold addMembers at ha; split at ha
                  · cases ha
                  · cases ha; rfl
                simp only []
                exact ⟨hc, fun _ => ⟨triv, hw.1, hw.2, triv, fun e => h3 e.symm, triv, triv⟩, fun h => absurd rfl h⟩
            · simp [h1, h2, ht, h3, h4, h5]
          · simp [h1, h2, ht, h3, h4]
    · simp [h1, h2]
  · simp [h1]

theorem addMembers_current (s s1 : State) (g : Nat) (h : addMembers s g = some s1) :
    s1.currentGroup = s.currentGroup ∧ s1.transition = s.transition ∧ s1.groupMembers = s.groupMembers := by
  unfold addMembers at h; split at h
  · cases h
  · cases h; exact ⟨rfl, rfl, rfl⟩

/-- PROPERTY: no tss callback — group creation completed / failed / expired, signing completed / failed —
    ever changes the current group. -/
theorem callbacks_keep_current (s s' : State) (now : Int) (e : Event) (h : onEvent s now e = some s') :
    s'.currentGroup = s.currentGroup := by
  cases e with
  | creationCompleted gid signOk sid =>
    simp only [onEvent] at h
    split at h
    · cases h; rfl
    · split at h
      · cases h; rfl
      · split at h
        · split at h
          · cases h
          · rename_i s1 ha; cases h; exact (addMembers_current _ s1 gid ha).1
        · split at h <;> (cases h; rfl)
  | creationFailed gid =>
    simp only [onEvent] at h
    split at h
    · split at h <;> (cases h; rfl)
    · cases h; rfl
  | creationExpired gid =>
    simp only [onEvent] at h
    split at h
    · split at h <;> (cases h; rfl)
    · cases h; rfl
  | signingCompleted sid =>
    simp only [onEvent] at h
    split at h
    · split at h
      · split at h
        · cases h
        · rename_i s1 ha; cases h; exact (addMembers_current _ s1 _ ha).1
      · cases h; rfl
    · cases h; rfl
  | signingFailed sid =>
    simp only [onEvent] at h
    split at h
    · split at h <;> (cases h; rfl)
    · cases h; rfl

/-- PROPERTY (the heart of C18): the bandtss end-blocker changes the current group only by executing a
    transition that is WAITING_EXECUTION at or after its execution time, to exactly the incoming group;
    a due transition in any other status is dropped and the current group stays; a transition that is
    not yet due is left alone. -/
theorem current_changes_only_by_execute (s : State) (now : Int) :
    ((endBlock s now).currentGroup ≠ s.currentGroup →
        ∃ t, s.transition = some t ∧ t.status = stWaitingExec ∧ t.execTime ≤ now ∧
          (endBlock s now).currentGroup = t.incoming ∧ (endBlock s now).transition = none) ∧
    (∀ t, s.transition = some t → t.execTime ≤ now → t.status ≠ stWaitingExec →
        (endBlock s now).transition = none ∧ (endBlock s now).currentGroup = s.currentGroup ∧
        (endBlock s now).bmembers = s.bmembers) ∧
    (∀ t, s.transition = some t → now < t.execTime → endBlock s now = s) ∧
    (s.transition = none → endBlock s now = s) := by
  unfold endBlock
  cases ht : s.transition with
  | none => simp
  | some t =>
    simp only []
    by_cases h1 : t.execTime > now
    · simp only [h1, if_true]
      refine ⟨fun h => absurd (by first | rfl | trivial) h, fun t' e hd _ => ?_, fun _ _ _ => triv, fun h => by cases h⟩
      cases e; omega
    · by_cases h2 : t.status ≠ stWaitingExec
      · simp only [h1, h2, if_true, if_false, ne_eq, not_false_eq_true]
        refine ⟨fun h => absurd (by first | rfl | trivial) h, fun t' e _ _ => ⟨triv, triv, triv⟩, fun t' e hl => ?_, fun h => by cases h⟩
        cases e; omega
      · have hs : t.status = stWaitingExec := by simpa using h2
        simp only [h1, hs, if_false, ne_eq, not_true_eq_false]
        refine ⟨fun _ => ⟨t, triv, hs, by omega, triv, triv⟩, fun t' e _ hne => ?_, fun t' e hl => ?_, fun h => by cases h⟩
        · cases e; exact absurd hs hne
        · cases e; omega

/-- PROPERTY: a transition reaches WAITING_EXECUTION through a callback only when the incoming group
    finished key generation and (first group: no current group) or the hand-over signing completed. -/
theorem waiting_execution_requires (s s' : State) (now : Int) (e : Event) (h : onEvent s now e = some s')
    (t' : Tr) (ht' : s'.transition = some t') (hw : t'.status = stWaitingExec)
    (hnot : ∀ t, s.transition = some t → t.status ≠ stWaitingExec) :
    ∃ t, s.transition = some t ∧ t'.incoming = t.incoming ∧ t'.execTime = t.execTime ∧
      ((∃ signOk sid, e = Event.creationCompleted t.incoming signOk sid ∧ t.status = stCreating ∧ t.current = 0 ∧ now ≤ t.execTime) ∨
       (e = Event.signingCompleted t.signingID ∧ t.status = stWaitingSign)) := by
  cases e with
  | creationCompleted gid signOk sid =>
    simp only [onEvent] at h
    cases ht : s.transition with
    | none => simp only [ht] at h; cases h; simp [ht] at ht'
    | some t =>
      simp only [ht] at h
      split at h
      · cases h; simp only [ht] at ht'; cases ht'; exact absurd hw (hnot t' ht)
      · rename_i hc
        simp only [not_or, Decidable.not_not, Int.not_lt] at hc
        split at h
        · rename_i h0
          split at h
          · cases h
          · cases h
            simp only [] at ht'; cases ht'
            exact ⟨t, rfl, rfl, rfl, Or.inl ⟨signOk, sid, by rw [hc.1], hc.2.1, h0, hc.2.2⟩⟩
        · split at h
          · cases h; simp only [] at ht'; cases ht'; simp [stWaitingSign, stWaitingExec] at hw
          · cases h; simp at ht'
  | creationFailed gid =>
    simp only [onEvent] at h
    cases ht : s.transition with
    | none => simp only [ht] at h; cases h; simp [ht] at ht'
    | some t =>
      simp only [ht] at h
      split at h
      · cases h; simp at ht'
      · cases h; rw [ht] at ht'; cases ht'; exact absurd hw (hnot t' ht)
  | creationExpired gid =>
    simp only [onEvent] at h
    cases ht : s.transition with
    | none => simp only [ht] at h; cases h; simp [ht] at ht'
    | some t =>
      simp only [ht] at h
      split at h
      · cases h; simp at ht'
      · cases h; rw [ht] at ht'; cases ht'; exact absurd hw (hnot t' ht)
  | signingCompleted sid =>
    simp only [onEvent] at h
    cases ht : s.transition with
    | none => simp only [ht] at h; cases h; simp [ht] at ht'
    | some t =>
      simp only [ht] at h
      split at h
      · rename_i hc
        split at h
        · cases h
        · cases h
          simp only [] at ht'; cases ht'
          exact ⟨t, rfl, rfl, rfl, Or.inr ⟨by rw [hc.1], hc.2⟩⟩
      · cases h
        rw [ht] at ht'; cases ht'; exact absurd hw (hnot t' ht)
  | signingFailed sid =>
    simp only [onEvent] at h
    cases ht : s.transition with
    | none => simp only [ht] at h; cases h; simp [ht] at ht'
    | some t =>
      simp only [ht] at h
      split at h
      · cases h; simp at ht'
      · cases h; rw [ht] at ht'; cases ht'; exact absurd hw (hnot t' ht)

/-- PROPERTY: a key generation that completes AFTER the execution time changes nothing (and the next
    bandtss end-block, which runs after the tss one, drops the still-CREATING transition). -/
theorem late_creation_ignored (s : State) (now : Int) (t : Tr) (signOk : Bool) (sid : Nat)
    (ht : s.transition = some t) (hlate : t.execTime < now) :
    ∃ s', onEvent s now (Event.creationCompleted t.incoming signOk sid) = some s' ∧ s'.transition = some t ∧
      s'.currentGroup = s.currentGroup ∧ s'.bmembers = s.bmembers ∧
      (t.status ≠ stWaitingExec → (endBlock s' now).transition = none ∧ (endBlock s' now).currentGroup = s.currentGroup) := by
  simp only [onEvent, ht]
  have hc : t.incoming ≠ t.incoming ∨ t.status ≠ stCreating ∨ t.execTime < now := Or.inr (Or.inr hlate)
  simp only [hc, if_true]
  refine ⟨_, rfl, rfl, rfl, rfl, fun hne => ?_⟩
  unfold endBlock
  simp only [ht]
  have : ¬ t.execTime > now := by omega
  simp [this, hne]

/-- PROPERTY: requests are additionally put to the incoming group exactly while the transition is
    WAITING_EXECUTION (GetIncomingGroupID). -/
theorem incoming_only_while_waiting_execution (s : State) :
    (incomingGroup s ≠ 0 → ∃ t, s.transition = some t ∧ t.status = stWaitingExec ∧ incomingGroup s = t.incoming) ∧
    (∀ t, s.transition = some t → t.status = stWaitingExec → incomingGroup s = t.incoming) := by
  unfold incomingGroup
  cases ht : s.transition with
  | none => simp
  | some t =>
    simp only []
    by_cases h : t.status = stWaitingExec
    · simp only [h, if_true]
      exact ⟨fun _ => ⟨t, rfl, h, rfl⟩, fun t' e _ => by cases e; rfl⟩
    · simp only [h, if_false]
      exact ⟨fun hh => absurd rfl hh, fun t' e h' => by cases e; exact absurd h' h⟩

/-- PROPERTY (member list after execution): executing removes exactly the old current group's
    entries; what remains for the new current group are the entries added when the transition became
    WAITING_EXECUTION. -/
theorem members_after_execution (s : State) (now : Int) (t : Tr) (ht : s.transition = some t)
    (hw : t.status = stWaitingExec) (hd : t.execTime ≤ now) :
    (endBlock s now).currentGroup = t.incoming ∧
    (endBlock s now).bmembers = (if t.current ≠ 0 then s.bmembers.filter (fun e => e.2 ≠ t.current) else s.bmembers) := by
  unfold endBlock
  simp only [ht]
  have h1 : ¬ t.execTime > now := by omega
  have h2 : ¬ t.status ≠ stWaitingExec := by simp [hw]
  simp only [h1, h2, if_false]
  by_cases h3 : t.current ≠ 0
  · simp [h3, deleteMembers]
  · simp [h3]

/-! ## whole histories -/

/-- one operation of a history; events arrive one by one in the order the tss end-blocker produces them -/
inductive Op
  | propose (auth : Bool) (now et : Int) (created : Option (Nat × List Nat))
  | force (auth : Bool) (now et : Int) (gid : Nat) (ex : Bool)
  | event (now : Int) (e : Event)
  | endBlock (now : Int)

/-- `none` = a Go panic inside a tss callback -/
def apply (s : State) : Op → Option State
  | .propose a n e c => some (propose s a n e c).1
  | .force a n e g x => some (force s a n e g x).1
  | .event n e => onEvent s n e
  | .endBlock n => some (endBlock s n)

/-- group ids handed to bandtss are real tss group ids: positive, and a freshly created group is not the current one -/
def OpOk (s : State) : Op → Prop
  | .propose _ _ _ (some (gid, _)) => gid ≠ 0 ∧ gid ≠ s.currentGroup
  | .force _ _ _ gid _ => gid ≠ 0
  | _ => True

/-- the history invariant -/
structure TInv (s : State) : Prop where
  /-- the transition in progress was made for the current group and leads elsewhere -/
  cur : ∀ t, s.transition = some t → t.current = s.currentGroup ∧ t.incoming ≠ s.currentGroup ∧ t.incoming ≠ 0
  /-- the bandtss member list holds members of the current group and, only while WAITING_EXECUTION, of the incoming one -/
  mem : ∀ a g, (a, g) ∈ s.bmembers → g ≠ 0 ∧ (g = s.currentGroup ∨ ∃ t, s.transition = some t ∧ t.status = stWaitingExec ∧ g = t.incoming)

theorem addMembers_ok (s : State) (g : Nat) (h : ∀ a, (a, g) ∉ s.bmembers) :
    addMembers s g = some { s with bmembers := s.bmembers ++ (s.groupMembers g).map (fun a => (a, g)) } := by
  unfold addMembers
  have : ¬ ((s.groupMembers g).any (fun a => s.bmembers.contains (a, g)) = true) := by
    simp only [List.any_eq_true, not_exists, not_and]
    intro a _; simp [h a]
  rw [if_neg this]

/-- adding the incoming group's members while moving to WAITING_EXECUTION keeps the invariant -/
theorem tinv_add (s : State) (t : Tr) (h : TInv s) (ht : s.transition = some t) (s0 : State)
    (e1 : s0.currentGroup = s.currentGroup) (e2 : s0.bmembers = s.bmembers) (e3 : s0.transition = s.transition) :
    TInv { s0 with bmembers := s0.bmembers ++ (s0.groupMembers t.incoming).map (fun a => (a, t.incoming)),
                   transition := some { t with status := stWaitingExec } } := by
  obtain ⟨c1, c2, c3⟩ := h.cur t ht
  refine ⟨?_, ?_⟩
  · intro t' ht'
    simp only [Option.some.injEq] at ht'
    subst ht'
    exact ⟨by rw [e1]; exact c1, by rw [e1]; exact c2, c3⟩
  · intro a g hm
    simp only [e1, e2] at hm ⊢
    rcases List.mem_append.mp hm with h1 | h1
    · obtain ⟨m1, m2⟩ := h.mem a g h1
      refine ⟨m1, ?_⟩
      rcases m2 with m2 | ⟨t0, q1, q2, q3⟩
      · exact Or.inl m2
      · rw [ht] at q1; cases q1
        exact Or.inr ⟨_, rfl, rfl, q3⟩
    · obtain ⟨a', _, e⟩ := List.mem_map.mp h1
      cases e
      exact ⟨c3, Or.inr ⟨_, rfl, rfl, rfl⟩⟩

/-- no member of the incoming group is registered before the transition is WAITING_EXECUTION -/
theorem incoming_absent (s : State) (t : Tr) (h : TInv s) (ht : s.transition = some t) (hs : t.status ≠ stWaitingExec) (a : Nat) :
    (a, t.incoming) ∉ s.bmembers := by
  intro hm
  obtain ⟨_, m2⟩ := h.mem a t.incoming hm
  obtain ⟨_, c2, _⟩ := h.cur t ht
  rcases m2 with m2 | ⟨t0, q1, q2, _⟩
  · exact c2 m2
  · rw [ht] at q1; cases q1; exact hs q2

/-- clearing the transition keeps the invariant when no incoming members are registered -/
theorem tinv_clear (s : State) (h : TInv s) (hno : ∀ t, s.transition = some t → t.status ≠ stWaitingExec) (s0 : State)
    (e1 : s0.currentGroup = s.currentGroup) (e2 : s0.bmembers = s.bmembers) : TInv { s0 with transition := none } := by
  refine ⟨(fun t ht => by cases ht), ?_⟩
  intro a g hm
  simp only [e1, e2] at hm ⊢
  obtain ⟨m1, m2⟩ := h.mem a g hm
  refine ⟨m1, ?_⟩
  rcases m2 with m2 | ⟨t0, q1, q2, _⟩
  · exact Or.inl m2
  · exact absurd q2 (hno t0 q1)

/-- a change that touches neither the current group, the member list nor the transition -/
theorem tinv_frame (s s0 : State) (h : TInv s) (e1 : s0.currentGroup = s.currentGroup) (e2 : s0.bmembers = s.bmembers)
    (e3 : s0.transition = s.transition) : TInv s0 := by
  refine ⟨fun t ht => by rw [e3] at ht; rw [e1]; exact h.cur t ht, ?_⟩
  intro a g hm
  rw [e2] at hm; rw [e1, e3]; exact h.mem a g hm

theorem step_tinv (s : State) (op : Op) (h : TInv s) (ok : OpOk s op) : ∃ s', apply s op = some s' ∧ TInv s' := by
  cases op with
  | propose a n e c =>
    refine ⟨_, rfl, ?_⟩
    unfold propose
    split
    · exact h
    · split
      · exact h
      · split
        · exact h
        · rename_i hnone
          have hn : s.transition = none := by
            cases ht : s.transition with
            | none => rfl
            | some t => simp [ht] at hnone
          cases c with
          | none => exact h
          | some gm =>
            obtain ⟨gid, members⟩ := gm
            simp only [OpOk] at ok
            refine ⟨?_, ?_⟩
            · intro t ht
              simp only [Option.some.injEq] at ht
              subst ht
              exact ⟨rfl, ok.2, ok.1⟩
            · intro a' g hm
              obtain ⟨m1, m2⟩ := h.mem a' g hm
              refine ⟨m1, ?_⟩
              rcases m2 with m2 | ⟨t0, q1, _, _⟩
              · exact Or.inl m2
              · rw [hn] at q1; cases q1
  | force a n e gid ex =>
    refine ⟨_, rfl, ?_⟩
    unfold force
    split
    · exact h
    · split
      · exact h
      · split
        · exact h
        · rename_i hnone
          have hn : s.transition = none := by
            cases ht : s.transition with
            | none => rfl
            | some t => simp [ht] at hnone
          split
          · exact h
          · rename_i hsame
            split
            · exact h
            · split
              · exact h
              · cases hadd : addMembers s gid with
                | none => exact h
                | some s1 =>
                  simp only []
                  have hs1 := addMembers_current s s1 gid hadd
                  simp only [OpOk] at ok
                  -- s1 = s with the members of gid appended
                  unfold addMembers at hadd
                  split at hadd
                  · cases hadd
                  · cases hadd
                    refine ⟨?_, ?_⟩
                    · intro t ht
                      simp only [Option.some.injEq] at ht
                      subst ht
                      exact ⟨rfl, fun e => hsame e.symm, ok⟩
                    · intro a' g hm
                      simp only at hm ⊢
                      rcases List.mem_append.mp hm with h1 | h1
                      · obtain ⟨m1, m2⟩ := h.mem a' g h1
                        refine ⟨m1, ?_⟩
                        rcases m2 with m2 | ⟨t0, q1, _, _⟩
                        · exact Or.inl m2
                        · rw [hn] at q1; cases q1
                      · obtain ⟨a'', _, e'⟩ := List.mem_map.mp h1
                        cases e'
                        exact ⟨ok, Or.inr ⟨_, rfl, rfl, rfl⟩⟩
  | endBlock n =>
    refine ⟨_, rfl, ?_⟩
    unfold endBlock
    cases ht : s.transition with
    | none => exact h
    | some t =>
      simp only []
      obtain ⟨c1, c2, c3⟩ := h.cur t ht
      split
      · exact h
      · split
        · rename_i hst
          exact tinv_clear s h (fun t0 q => by rw [ht] at q; cases q; exact hst) s rfl rfl
        · rename_i hst
          have hw : t.status = stWaitingExec := by simpa using hst
          -- execute: the incoming group becomes current, the old current group's members are removed
          refine ⟨(fun t0 q => by cases q), ?_⟩
          intro a' g hm
          have hm' : (a', g) ∈ s.bmembers ∧ (t.current ≠ 0 → g ≠ t.current) := by
            split at hm
            · rename_i hc
              simp only [deleteMembers, List.mem_filter, decide_eq_true_eq] at hm
              exact ⟨hm.1, fun _ => hm.2⟩
            · rename_i hc
              exact ⟨hm, fun hne => absurd hne hc⟩
          obtain ⟨m1, m2⟩ := h.mem a' g hm'.1
          refine ⟨m1, Or.inl ?_⟩
          show g = t.incoming
          rcases m2 with m2 | ⟨t0, q1, _, q3⟩
          · -- a member of the old current group: it was deleted (the old current group is not 0 since g ≠ 0)
            exfalso
            have : t.current ≠ 0 := by rw [c1, ← m2]; exact m1
            exact hm'.2 this (by rw [c1]; exact m2)
          · rw [ht] at q1; cases q1; exact q3
  | event n e =>
    cases e with
    | creationCompleted gid signOk sid =>
      simp only [apply, onEvent]
      cases ht : s.transition with
      | none => exact ⟨_, rfl, tinv_frame s _ h rfl rfl (by simp [ht])⟩
      | some t =>
        simp only []
        split
        · exact ⟨_, rfl, tinv_frame s _ h rfl rfl (by simp [ht])⟩
        · rename_i hcond
          simp only [not_or, Decidable.not_not] at hcond
          obtain ⟨hg, hst, _⟩ := hcond
          subst hg
          have hstat : t.status ≠ stWaitingExec := by rw [hst]; decide
          split
          · -- first group: members added directly
            have habs := incoming_absent s t h ht hstat
            rw [addMembers_ok { s with transition := some t, groupActive := fun g => if g = t.incoming then true else s.groupActive g } t.incoming (fun a => habs a)]
            exact ⟨_, rfl, tinv_add s t h ht { s with transition := some t, groupActive := fun g => if g = t.incoming then true else s.groupActive g } rfl rfl ht.symm⟩
          · split
            · refine ⟨_, rfl, ?_⟩
              refine ⟨?_, ?_⟩
              · intro t' q
                simp only [Option.some.injEq] at q
                subst q
                exact h.cur t ht
              · intro a' g hm
                obtain ⟨m1, m2⟩ := h.mem a' g hm
                refine ⟨m1, ?_⟩
                rcases m2 with m2 | ⟨t0, q1, q2, _⟩
                · exact Or.inl m2
                · rw [ht] at q1; cases q1; exact absurd q2 hstat
            · exact ⟨_, rfl, tinv_clear s h (fun t0 q => by rw [ht] at q; cases q; exact hstat)
                { s with groupActive := fun g => if g = t.incoming then true else s.groupActive g } rfl rfl⟩
    | creationFailed gid =>
      simp only [apply, onEvent]
      cases ht : s.transition with
      | none => exact ⟨s, rfl, h⟩
      | some t =>
        simp only []
        split
        · rename_i hc
          exact ⟨_, rfl, tinv_clear s h (fun t0 q => by rw [ht] at q; cases q; rw [hc.2]; decide) s rfl rfl⟩
        · exact ⟨s, rfl, h⟩
    | creationExpired gid =>
      simp only [apply, onEvent]
      cases ht : s.transition with
      | none => exact ⟨s, rfl, h⟩
      | some t =>
        simp only []
        split
        · rename_i hc
          exact ⟨_, rfl, tinv_clear s h (fun t0 q => by rw [ht] at q; cases q; rw [hc.2]; decide) s rfl rfl⟩
        · exact ⟨s, rfl, h⟩
    | signingCompleted sid =>
      simp only [apply, onEvent]
      cases ht : s.transition with
      | none => exact ⟨s, rfl, h⟩
      | some t =>
        simp only []
        split
        · rename_i hc
          have hstat : t.status ≠ stWaitingExec := by rw [hc.2]; decide
          rw [addMembers_ok s t.incoming (incoming_absent s t h ht hstat)]
          exact ⟨_, rfl, tinv_add s t h ht s rfl rfl rfl⟩
        · exact ⟨s, rfl, h⟩
    | signingFailed sid =>
      simp only [apply, onEvent]
      cases ht : s.transition with
      | none => exact ⟨s, rfl, h⟩
      | some t =>
        simp only []
        split
        · rename_i hc
          exact ⟨_, rfl, tinv_clear s h (fun t0 q => by rw [ht] at q; cases q; rw [hc.2]; decide) s rfl rfl⟩
        · exact ⟨s, rfl, h⟩

/-- run a history; `none` = some callback panicked -/
def run : List Op → State → Option State
  | [], s => some s
  | op :: rest, s => match apply s op with
    | none => none
    | some s' => run rest s'

/-- the operations of a history are well-formed relative to the state they meet -/
def RunOk : List Op → State → Prop
  | [], _ => True
  | op :: rest, s => OpOk s op ∧ ∀ s', apply s op = some s' → RunOk rest s'

/-- PROPERTY (over EVERY history of proposals, forced transitions, tss callbacks in any order and end-blocks): no callback
    ever panics (`AddMembers` inside OnGroupCreationCompleted / OnSigningCompleted cannot fail), the transition in progress
    always belongs to the current group, and the bandtss member list only ever holds the current group's members plus —
    exactly while WAITING_EXECUTION — the incoming group's -/
theorem transitions_never_panic_and_members_follow (ops : List Op) (s : State) (h : TInv s) (ok : RunOk ops s) :
    ∃ s', run ops s = some s' ∧ TInv s' := by
  induction ops generalizing s with
  | nil => exact ⟨s, rfl, h⟩
  | cons op rest ih =>
    obtain ⟨s1, e1, i1⟩ := step_tinv s op h ok.1
    simp only [run, e1]
    exact ih s1 i1 (ok.2 s1 e1)

/-! non-vacuity -/
def demo : State :=
  { currentGroup := 1, transition := some ⟨stWaitingExec, 100, 5, 2, 1, false⟩, groupMembers := fun g => if g = 1 then [10, 11] else [20, 21],
    groupActive := fun _ => true, bmembers := [(10, 1), (11, 1), (20, 2), (21, 2)], minDur := 5, maxDur := 50 }
example : (endBlock demo 100).currentGroup = 2 ∧ (endBlock demo 100).bmembers = [(20, 2), (21, 2)] := by decide
example : (endBlock demo 99).currentGroup = 1 ∧ (endBlock demo 99).transition = demo.transition := by decide
example : (endBlock { demo with transition := some ⟨stWaitingSign, 100, 5, 2, 1, false⟩ } 100).currentGroup = 1 := by decide
example : (propose { demo with transition := none } true 0 5 (some (3, [30]))).2 = Err.ok := by decide
example : (propose demo true 0 5 (some (3, [30]))).2 = Err.inProgress := by decide
/-- the demo state (transition WAITING_EXECUTION, members of both groups registered) satisfies the history invariant -/
example : TInv demo := by
  refine ⟨?_, ?_⟩
  · intro t ht; simp [demo] at ht; subst ht; decide
  · intro a g hm
    simp [demo] at hm
    rcases hm with ⟨rfl, rfl⟩ | ⟨rfl, rfl⟩ | ⟨rfl, rfl⟩ | ⟨rfl, rfl⟩
    · exact ⟨by decide, Or.inl rfl⟩
    · exact ⟨by decide, Or.inl rfl⟩
    · exact ⟨by decide, Or.inr ⟨_, rfl, rfl, rfl⟩⟩
    · exact ⟨by decide, Or.inr ⟨_, rfl, rfl, rfl⟩⟩

end C18
