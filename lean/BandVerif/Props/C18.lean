/-
C18 — the signing group changes only through a completed, scheduled transition.
Model: Model/Transition.lean (the bandtss transition state machine and its tss callbacks).
-/
import BandVerif.Model.Transition

namespace C18
open BandVerif.Transition

/-- closes `a = a` or `True` (what `simp only` leaves of a trivial conjunct) -/
macro "triv" : term => `(by first | rfl | trivial)

/-- PROPERTY: proposals never change the current group; they are accepted only from the authority,
    with an execution time inside [now+min, now+max], and only while NO transition is in progress. -/
theorem proposal_gate (s : State) (auth : Bool) (now et : Int) (created : Option (Nat × List Nat)) :
    (propose s auth now et created).1.currentGroup = s.currentGroup ∧
    ((propose s auth now et created).2 = Err.ok →
        auth = true ∧ now + s.minDur ≤ et ∧ et ≤ now + s.maxDur ∧ s.transition = none ∧
        ∃ gid ms, created = some (gid, ms) ∧
          (propose s auth now et created).1.transition = some ⟨stCreating, et, 0, gid, s.currentGroup, false⟩) ∧
    ((propose s auth now et created).2 ≠ Err.ok → (propose s auth now et created).1 = s) := by
  unfold propose
  by_cases h1 : auth = true
  · by_cases h2 : execTimeOk s now et = true
    · cases ht : s.transition with
      | some t => simp [h1, h2, ht]
      | none =>
        cases created with
        | none => simp [h1, h2, ht]
        | some p =>
          obtain ⟨gid, ms⟩ := p
          simp only [h1, h2, ht, Bool.not_true, Bool.false_eq_true, if_false, Option.isSome_none]
          have hw : now + s.minDur ≤ et ∧ et ≤ now + s.maxDur := by
            unfold execTimeOk at h2; simpa using h2
          exact ⟨triv, fun _ => ⟨triv, hw.1, hw.2, triv, gid, ms, triv, triv⟩, fun h => absurd rfl h⟩
    · simp [h1, h2]
  · simp [h1]

theorem force_gate (s : State) (auth : Bool) (now et : Int) (gid : Nat) (ex : Bool) :
    (force s auth now et gid ex).1.currentGroup = s.currentGroup ∧
    ((force s auth now et gid ex).2 = Err.ok →
        auth = true ∧ now + s.minDur ≤ et ∧ et ≤ now + s.maxDur ∧ s.transition = none ∧ gid ≠ s.currentGroup ∧
        s.groupActive gid = true ∧
        (force s auth now et gid ex).1.transition = some ⟨stWaitingExec, et, 0, gid, s.currentGroup, true⟩) ∧
    ((force s auth now et gid ex).2 ≠ Err.ok → (force s auth now et gid ex).1 = s) := by
  unfold force
  by_cases h1 : auth = true
  · by_cases h2 : execTimeOk s now et = true
    · cases ht : s.transition with
      | some t => simp [h1, h2, ht]
      | none =>
        by_cases h3 : s.currentGroup = gid
        · simp [h1, h2, ht, h3]
        · by_cases h4 : ex = true
          · by_cases h5 : s.groupActive gid = true
            · simp only [h1, h2, ht, h3, h4, h5, Bool.not_true, Bool.false_eq_true, if_false, Option.isSome_none]
              have hw : now + s.minDur ≤ et ∧ et ≤ now + s.maxDur := by
                unfold execTimeOk at h2; simpa using h2
              cases ha : addMembers s gid with
              | none => simp
              | some s1 =>
                have hc : s1.currentGroup = s.currentGroup := by
                  unfold addMembers at ha; split at ha
                  · cases ha
                  · cases ha; rfl
                simp only []
                exact ⟨hc, fun _ => ⟨triv, hw.1, hw.2, triv, fun e => h3 e.symm, triv, triv⟩, fun h => absurd rfl h⟩
            · simp [h1, h2, ht, h3, h4, h5]
          · simp [h1, h2, ht, h3, h4]
    · simp [h1, h2]
  · simp [h1]

theorem addMembers_current (s s1 : State) (g : Nat) (h : addMembers s g = some s1) :
    s1.currentGroup = s.currentGroup ∧ s1.transition = s.transition ∧ s1.groupMembers = s.groupMembers := by
  unfold addMembers at h; split at h
  · cases h
  · cases h; exact ⟨rfl, rfl, rfl⟩

/-- PROPERTY: no tss callback — group creation completed / failed / expired, signing completed / failed —
    ever changes the current group. -/
theorem callbacks_keep_current (s s' : State) (now : Int) (e : Event) (h : onEvent s now e = some s') :
    s'.currentGroup = s.currentGroup := by
  cases e with
  | creationCompleted gid signOk sid =>
    simp only [onEvent] at h
    split at h
    · cases h; rfl
    · split at h
      · cases h; rfl
      · split at h
        · split at h
          · cases h
          · rename_i s1 ha; cases h; exact (addMembers_current _ s1 gid ha).1
        · split at h <;> (cases h; rfl)
  | creationFailed gid =>
    simp only [onEvent] at h
    split at h
    · split at h <;> (cases h; rfl)
    · cases h; rfl
  | creationExpired gid =>
    simp only [onEvent] at h
    split at h
    · split at h <;> (cases h; rfl)
    · cases h; rfl
  | signingCompleted sid =>
    simp only [onEvent] at h
    split at h
    · split at h
      · split at h
        · cases h
        · rename_i s1 ha; cases h; exact (addMembers_current _ s1 _ ha).1
      · cases h; rfl
    · cases h; rfl
  | signingFailed sid =>
    simp only [onEvent] at h
    split at h
    · split at h <;> (cases h; rfl)
    · cases h; rfl

/-- PROPERTY (the heart of C18): the bandtss end-blocker changes the current group only by executing a
    transition that is WAITING_EXECUTION at or after its execution time, to exactly the incoming group;
    a due transition in any other status is dropped and the current group stays; a transition that is
    not yet due is left alone. -/
theorem current_changes_only_by_execute (s : State) (now : Int) :
    ((endBlock s now).currentGroup ≠ s.currentGroup →
        ∃ t, s.transition = some t ∧ t.status = stWaitingExec ∧ t.execTime ≤ now ∧
          (endBlock s now).currentGroup = t.incoming ∧ (endBlock s now).transition = none) ∧
    (∀ t, s.transition = some t → t.execTime ≤ now → t.status ≠ stWaitingExec →
        (endBlock s now).transition = none ∧ (endBlock s now).currentGroup = s.currentGroup ∧
        (endBlock s now).bmembers = s.bmembers) ∧
    (∀ t, s.transition = some t → now < t.execTime → endBlock s now = s) ∧
    (s.transition = none → endBlock s now = s) := by
  unfold endBlock
  cases ht : s.transition with
  | none => simp
  | some t =>
    simp only []
    by_cases h1 : t.execTime > now
    · simp only [h1, if_true]
      refine ⟨fun h => absurd (by first | rfl | trivial) h, fun t' e hd _ => ?_, fun _ _ _ => triv, fun h => by cases h⟩
      cases e; omega
    · by_cases h2 : t.status ≠ stWaitingExec
      · simp only [h1, h2, if_true, if_false, ne_eq, not_false_eq_true]
        refine ⟨fun h => absurd (by first | rfl | trivial) h, fun t' e _ _ => ⟨triv, triv, triv⟩, fun t' e hl => ?_, fun h => by cases h⟩
        cases e; omega
      · have hs : t.status = stWaitingExec := by simpa using h2
        simp only [h1, hs, if_false, ne_eq, not_true_eq_false]
        refine ⟨fun _ => ⟨t, triv, hs, by omega, triv, triv⟩, fun t' e _ hne => ?_, fun t' e hl => ?_, fun h => by cases h⟩
        · cases e; exact absurd hs hne
        · cases e; omega

/-- PROPERTY: a transition reaches WAITING_EXECUTION through a callback only when the incoming group
    finished key generation and (first group: no current group) or the hand-over signing completed. -/
theorem waiting_execution_requires (s s' : State) (now : Int) (e : Event) (h : onEvent s now e = some s')
    (t' : Tr) (ht' : s'.transition = some t') (hw : t'.status = stWaitingExec)
    (hnot : ∀ t, s.transition = some t → t.status ≠ stWaitingExec) :
    ∃ t, s.transition = some t ∧ t'.incoming = t.incoming ∧ t'.execTime = t.execTime ∧
      ((∃ signOk sid, e = Event.creationCompleted t.incoming signOk sid ∧ t.status = stCreating ∧ t.current = 0 ∧ now ≤ t.execTime) ∨
       (e = Event.signingCompleted t.signingID ∧ t.status = stWaitingSign)) := by
  cases e with
  | creationCompleted gid signOk sid =>
    simp only [onEvent] at h
    cases ht : s.transition with
    | none => simp only [ht] at h; cases h; simp [ht] at ht'
    | some t =>
      simp only [ht] at h
      split at h
      · cases h; simp only [ht] at ht'; cases ht'; exact absurd hw (hnot t' ht)
      · rename_i hc
        simp only [not_or, Decidable.not_not, Int.not_lt] at hc
        split at h
        · rename_i h0
          split at h
          · cases h
          · cases h
            simp only [] at ht'; cases ht'
            exact ⟨t, rfl, rfl, rfl, Or.inl ⟨signOk, sid, by rw [hc.1], hc.2.1, h0, hc.2.2⟩⟩
        · split at h
          · cases h; simp only [] at ht'; cases ht'; simp [stWaitingSign, stWaitingExec] at hw
          · cases h; simp at ht'
  | creationFailed gid =>
    simp only [onEvent] at h
    cases ht : s.transition with
    | none => simp only [ht] at h; cases h; simp [ht] at ht'
    | some t =>
      simp only [ht] at h
      split at h
      · cases h; simp at ht'
      · cases h; rw [ht] at ht'; cases ht'; exact absurd hw (hnot t' ht)
  | creationExpired gid =>
    simp only [onEvent] at h
    cases ht : s.transition with
    | none => simp only [ht] at h; cases h; simp [ht] at ht'
    | some t =>
      simp only [ht] at h
      split at h
      · cases h; simp at ht'
      · cases h; rw [ht] at ht'; cases ht'; exact absurd hw (hnot t' ht)
  | signingCompleted sid =>
    simp only [onEvent] at h
    cases ht : s.transition with
    | none => simp only [ht] at h; cases h; simp [ht] at ht'
    | some t =>
      simp only [ht] at h
      split at h
      · rename_i hc
        split at h
        · cases h
        · cases h
          simp only [] at ht'; cases ht'
          exact ⟨t, rfl, rfl, rfl, Or.inr ⟨by rw [hc.1], hc.2⟩⟩
      · cases h
        rw [ht] at ht'; cases ht'; exact absurd hw (hnot t' ht)
  | signingFailed sid =>
    simp only [onEvent] at h
    cases ht : s.transition with
    | none => simp only [ht] at h; cases h; simp [ht] at ht'
    | some t =>
      simp only [ht] at h
      split at h
      · cases h; simp at ht'
      · cases h; rw [ht] at ht'; cases ht'; exact absurd hw (hnot t' ht)

/-- PROPERTY: a key generation that completes AFTER the execution time changes nothing (and the next
    bandtss end-block, which runs after the tss one, drops the still-CREATING transition). -/
theorem late_creation_ignored (s : State) (now : Int) (t : Tr) (signOk : Bool) (sid : Nat)
    (ht : s.transition = some t) (hlate : t.execTime < now) :
    ∃ s', onEvent s now (Event.creationCompleted t.incoming signOk sid) = some s' ∧ s'.transition = some t ∧
      s'.currentGroup = s.currentGroup ∧ s'.bmembers = s.bmembers ∧
      (t.status ≠ stWaitingExec → (endBlock s' now).transition = none ∧ (endBlock s' now).currentGroup = s.currentGroup) := by
  simp only [onEvent, ht]
  have hc : t.incoming ≠ t.incoming ∨ t.status ≠ stCreating ∨ t.execTime < now := Or.inr (Or.inr hlate)
  simp only [hc, if_true]
  refine ⟨_, rfl, rfl, rfl, rfl, fun hne => ?_⟩
  unfold endBlock
  simp only [ht]
  have : ¬ t.execTime > now := by omega
  simp [this, hne]

/-- PROPERTY: requests are additionally put to the incoming group exactly while the transition is
    WAITING_EXECUTION (GetIncomingGroupID). -/
theorem incoming_only_while_waiting_execution (s : State) :
    (incomingGroup s ≠ 0 → ∃ t, s.transition = some t ∧ t.status = stWaitingExec ∧ incomingGroup s = t.incoming) ∧
    (∀ t, s.transition = some t → t.status = stWaitingExec → incomingGroup s = t.incoming) := by
  unfold incomingGroup
  cases ht : s.transition with
  | none => simp
  | some t =>
    simp only []
    by_cases h : t.status = stWaitingExec
    · simp only [h, if_true]
      exact ⟨fun _ => ⟨t, rfl, h, rfl⟩, fun t' e _ => by cases e; rfl⟩
    · simp only [h, if_false]
      exact ⟨fun hh => absurd rfl hh, fun t' e h' => by cases e; exact absurd h' h⟩

/-- PROPERTY (member list after execution): executing removes exactly the old current group's
    entries; what remains for the new current group are the entries added when the transition became
    WAITING_EXECUTION. -/
theorem members_after_execution (s : State) (now : Int) (t : Tr) (ht : s.transition = some t)
    (hw : t.status = stWaitingExec) (hd : t.execTime ≤ now) :
    (endBlock s now).currentGroup = t.incoming ∧
    (endBlock s now).bmembers = (if t.current ≠ 0 then s.bmembers.filter (fun e => e.2 ≠ t.current) else s.bmembers) := by
  unfold endBlock
  simp only [ht]
  have h1 : ¬ t.execTime > now := by omega
  have h2 : ¬ t.status ≠ stWaitingExec := by simp [hw]
  simp only [h1, h2, if_false]
  by_cases h3 : t.current ≠ 0
  · simp [h3, deleteMembers]
  · simp [h3]

/-! non-vacuity -/
def demo : State :=
  { currentGroup := 1, transition := some ⟨stWaitingExec, 100, 5, 2, 1, false⟩, groupMembers := fun g => if g = 1 then [10, 11] else [20, 21],
    groupActive := fun _ => true, bmembers := [(10, 1), (11, 1), (20, 2), (21, 2)], minDur := 5, maxDur := 50 }
example : (endBlock demo 100).currentGroup = 2 ∧ (endBlock demo 100).bmembers = [(20, 2), (21, 2)] := by decide
example : (endBlock demo 99).currentGroup = 1 ∧ (endBlock demo 99).transition = demo.transition := by decide
example : (endBlock { demo with transition := some ⟨stWaitingSign, 100, 5, 2, 1, false⟩ } 100).currentGroup = 1 := by decide
example : (propose { demo with transition := none } true 0 5 (some (3, [30]))).2 = Err.ok := by decide
example : (propose demo true 0 5 (some (3, [30]))).2 = Err.inProgress := by decide

end C18
