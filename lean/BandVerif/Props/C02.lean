/- C02: block execution is total and deterministic.
   Theorems over Model/Determinism.lean; the surface tables of Model/DeterminismSrc.lean are tied to the current
   source by `generated_surface_matches_model` (Generated/MapRanges.lean, Generated/ModuleOrder.lean are regenerated
   on every run). -/
import BandVerif.Model.Determinism
import BandVerif.Model.DeterminismSrc
import BandVerif.Generated.MapRanges
import BandVerif.Generated.ModuleOrder
import BandVerif.Props.C01
import BandVerif.Props.C06
import BandVerif.Props.C14
import BandVerif.Props.C10
import BandVerif.Props.C13
import BandVerif.Lemmas.SigningTotal
import BandVerif.Model.Tunnel
import BandVerif.Generated.Params
import BandVerif.Model.ParamsSrc

namespace BandVerif.Props.C02
open BandVerif BandVerif.Det

instance {ε α : Type} [DecidableEq ε] [DecidableEq α] : DecidableEq (Except ε α)
  | .ok a, .ok b => if h : a = b then isTrue (by rw [h]) else isFalse (fun e => h (by cases e; rfl))
  | .error a, .error b => if h : a = b then isTrue (by rw [h]) else isFalse (fun e => h (by cases e; rfl))
  | .ok _, .error _ => isFalse (fun e => by cases e)
  | .error _, .ok _ => isFalse (fun e => by cases e)

/-! ## the tie to the source -/

/-- the nondeterminism / panic surface found in the current source is exactly the classified one:
    every `range` over a map, every goroutine/select, every clock or randomness use, every recover / cache context,
    every explicit panic and every `MustGet*` call site in keeper code — and the begin/end-block module orders. -/
theorem generated_surface_matches_model :
    Generated.MapRanges.mapRanges = mapRangeSites.map (·.src) ∧
    Generated.MapRanges.concurrency = concurrencySites ∧
    Generated.MapRanges.clocks = clockSites ∧
    Generated.MapRanges.recovers = recoverSites ∧
    Generated.MapRanges.cacheContexts = cacheContextSites ∧
    Generated.MapRanges.panics = panicSites ∧
    Generated.MapRanges.mustCalls = mustCallSites ∧
    Generated.ModuleOrder.beginBlockers = beginOrder ∧
    Generated.ModuleOrder.endBlockers = endOrder := by
  refine ⟨rfl, rfl, rfl, rfl, rfl, rfl, rfl, rfl, rfl⟩

/-- the set of parameter values a module accepts is what it was when the models were written: the normalised source of
    every `Params.Validate` (and its helper validators) is unchanged -/
theorem generated_params_validation_matches :
    Generated.Params.validateSrc_oracle = ParamsSrc.oracle ∧ Generated.Params.validateSrc_feeds = ParamsSrc.feeds ∧
    Generated.Params.validateSrc_bandtss = ParamsSrc.bandtss ∧ Generated.Params.validateSrc_tss = ParamsSrc.tss ∧
    Generated.Params.validateSrc_tunnel = ParamsSrc.tunnel ∧ Generated.Params.validateSrc_restake = ParamsSrc.restake ∧
    Generated.Params.validateSrc_globalfee = ParamsSrc.globalfee := by
  refine ⟨?_, ?_, ?_, ?_, ?_, ?_, ?_⟩ <;> rfl

/-- no goroutine is started and nothing `select`s in consensus packages: there is no schedule to quantify over -/
theorem no_concurrency : Generated.MapRanges.concurrency = [] := rfl

/-- exactly one map range runs inside block execution, and it is of the sorted-keys class;
    no site uses iteration order directly -/
theorem in_block_map_ranges_are_sorted :
    (mapRangeSites.filter (·.inBlock)).map (·.src) = [s3] ∧ ∀ s ∈ mapRangeSites, s.inBlock = true → s.cls = .sortedKeys := by
  constructor
  · rfl
  · decide

/-! ## each class of use is independent of the visiting order -/

theorem leS_trans (a b c : String) : leS a b = true → leS b c = true → leS a c = true := by
  simp only [leS, decide_eq_true_eq]; exact String.le_trans
theorem leS_total (a b : String) : (leS a b || leS b a) = true := by
  simp only [leS, Bool.or_eq_true, decide_eq_true_eq]; exact String.le_total a b
theorem leS_antisymm (a b : String) : leS a b = true → leS b a = true → a = b := by
  simp only [leS, decide_eq_true_eq]; exact String.le_antisymm

/-- sorted keys: permuted visits give the same key list — for any transitive, total, antisymmetric order -/
theorem sortedKeys_order_independent {K V : Type} (le : K → K → Bool)
    (trans : ∀ a b c, le a b = true → le b c = true → le a c = true) (total : ∀ a b, (le a b || le b a) = true)
    (antisymm : ∀ a b, le a b = true → le b a = true → a = b)
    (v₁ v₂ : Visit K V) (h : v₁.Perm v₂) : sortedKeys le v₁ = sortedKeys le v₂ := by
  unfold sortedKeys
  have hp : ((v₁.map (·.1)).mergeSort le).Perm ((v₂.map (·.1)).mergeSort le) :=
    (List.mergeSort_perm _ le).trans ((h.map _).trans (List.mergeSort_perm _ le).symm)
  exact List.Perm.eq_of_pairwise (le := fun a b => le a b = true) (fun a b _ _ hab hba => antisymm a b hab hba)
    (List.pairwise_mergeSort trans total _) (List.pairwise_mergeSort trans total _) hp

/-- … hence so does the effectful loop that follows, including which error it returns -/
theorem runSorted_order_independent {K V σ ε : Type} (le : K → K → Bool)
    (trans : ∀ a b c, le a b = true → le b c = true → le a c = true) (total : ∀ a b, (le a b || le b a) = true)
    (antisymm : ∀ a b, le a b = true → le b a = true → a = b)
    (body : σ → K → Except ε σ) (init : σ) (v₁ v₂ : Visit K V) (h : v₁.Perm v₂) :
    runSorted le body init v₁ = runSorted le body init v₂ := by
  unfold runSorted; rw [sortedKeys_order_independent le trans total antisymm v₁ v₂ h]

theorem existsCheck_order_independent {K V : Type} (bad : K × V → Bool) (v₁ v₂ : Visit K V) (h : v₁.Perm v₂) :
    existsCheck bad v₁ = existsCheck bad v₂ := h.any_eq

theorem buildsSet_order_independent {K V K' : Type} [BEq K'] (f : K → K') (v₁ v₂ : Visit K V) (h : v₁.Perm v₂) :
    buildsSet f v₁ = buildsSet f v₂ := by
  funext x; exact h.any_eq

/-- feeds `Vote`: the signal-total-power store after the vote (or the error) is the same under every valid schedule -/
theorem vote_schedule_independent (o₁ o₂ : Sched) (h₁ : o₁.Valid) (h₂ : o₂.Valid) (diffMap : Visit String Int) (store : List Signal) :
    voteApply o₁ diffMap store = voteApply o₂ diffMap store := by
  unfold voteApply
  exact runSorted_order_independent leS leS_trans leS_total leS_antisymm _ _ _ _ ((h₁ diffMap).trans (h₂ diffMap).symm)

/-- the sort is what carries the theorem: without it two valid schedules give different committed stores
    (a store is an ordered list of writes here, as IAVL insertion order does not matter but the error point does:
    with a negative entry the unsorted loop stops after a schedule-dependent prefix) -/
theorem unsorted_vote_is_schedule_dependent :
    ∃ (o₁ o₂ : Sched) (diffMap : Visit String Int) (store : List Signal), o₁.Valid ∧ o₂.Valid ∧
      voteApplyUnsorted o₁ diffMap store ≠ voteApplyUnsorted o₂ diffMap store := by
  refine ⟨Sched.id, Sched.rev, [("a", 1), ("b", 2)], [], ?_, ?_, ?_⟩
  · intro K V v; exact List.Perm.refl _
  · intro K V v; exact List.reverse_perm v
  · decide

/-! ## from the handlers to the chain -/

theorem runPhase_order_free {σ β ε : Type} (fs : List (Sched → β → σ → Except ε σ))
    (h : ∀ f ∈ fs, ∀ o₁ o₂ : Sched, o₁.Valid → o₂.Valid → ∀ b s, f o₁ b s = f o₂ b s)
    (o₁ o₂ : Sched) (h₁ : o₁.Valid) (h₂ : o₂.Valid) (b : β) (s : σ) : runPhase o₁ b fs s = runPhase o₂ b fs s := by
  unfold runPhase
  induction fs generalizing s with
  | nil => rfl
  | cons f fs ih =>
    simp only [List.foldlM_cons]
    rw [h f (List.mem_cons_self ..) o₁ o₂ h₁ h₂ b s]
    cases f o₂ b s with
    | error e => rfl
    | ok s' => exact ih (fun g hg => h g (List.mem_cons_of_mem _ hg)) s'

theorem runTxs_order_free {σ β τ ρ ε : Type} (app : App σ β τ ρ ε) (h : app.OrderFree)
    (o₁ o₂ : Sched) (h₁ : o₁.Valid) (h₂ : o₂.Valid) (b : β) (s : σ) (txs : List τ) : runTxs app o₁ b s txs = runTxs app o₂ b s txs := by
  unfold runTxs
  have : (fun (acc : σ × List (TxResult ρ)) tx => let (s', r) := app.runTx o₁ b acc.1 tx; (s', acc.2 ++ [r])) =
         (fun (acc : σ × List (TxResult ρ)) tx => let (s', r) := app.runTx o₂ b acc.1 tx; (s', acc.2 ++ [r])) := by
    funext acc tx; rw [h.2.2 o₁ o₂ h₁ h₂]
  rw [this]

theorem finalize_order_free {σ β τ ρ ε : Type} (app : App σ β τ ρ ε) (h : app.OrderFree)
    (o₁ o₂ : Sched) (h₁ : o₁.Valid) (h₂ : o₂.Valid) (s : σ) (blk : β × List τ) : finalize app o₁ s blk = finalize app o₂ s blk := by
  unfold finalize
  rw [runPhase_order_free app.begins h.1 o₁ o₂ h₁ h₂ blk.1 s]
  cases runPhase o₂ blk.1 app.begins s with
  | error e => rfl
  | ok s1 =>
    simp only [bind, Except.bind]
    rw [runTxs_order_free app h o₁ o₂ h₁ h₂ blk.1 s1 blk.2]
    rw [runPhase_order_free app.ends h.2.1 o₁ o₂ h₁ h₂]

/-- **determinism**: two nodes executing the same blocks from the same genesis — each under its own, arbitrary valid
    schedule per block — obtain identical committed states (hence app hashes) and identical per-transaction
    code, gas and data at every height, or fail identically. -/
theorem replicas_agree {σ β τ ρ ε : Type} (app : App σ β τ ρ ε) (h : app.OrderFree)
    (os₁ os₂ : Nat → Sched) (h₁ : ∀ n, (os₁ n).Valid) (h₂ : ∀ n, (os₂ n).Valid) (height : Nat) (genesis : σ) (blocks : List (β × List τ)) :
    runChain app os₁ height genesis blocks = runChain app os₂ height genesis blocks := by
  induction blocks generalizing height genesis with
  | nil => rfl
  | cons b bs ih =>
    simp only [runChain]
    rw [finalize_order_free app h (os₁ height) (os₂ height) (h₁ height) (h₂ height) genesis b]
    cases finalize app (os₂ height) genesis b with
    | error e => rfl
    | ok r => obtain ⟨s', rs⟩ := r; simp only []; rw [ih (height + 1) s']

/-! ## totality -/

theorem runPhase_total {σ β ε : Type} (EnvOk : β → Prop) (Inv : σ → Prop) (o : Sched) (b : β) (hb : EnvOk b) (fs : List (Sched → β → σ → Except ε σ))
    (h : ∀ f ∈ fs, ∀ o b s, EnvOk b → Inv s → ∃ s', f o b s = .ok s' ∧ Inv s') (s : σ) (hs : Inv s) :
    ∃ s', runPhase o b fs s = .ok s' ∧ Inv s' := by
  unfold runPhase
  induction fs generalizing s with
  | nil => exact ⟨s, rfl, hs⟩
  | cons f fs ih =>
    obtain ⟨s1, e1, i1⟩ := h f (List.mem_cons_self ..) o b s hb hs
    simp only [List.foldlM_cons, e1]
    exact ih (fun g hg => h g (List.mem_cons_of_mem _ hg)) s1 i1

theorem runTxs_inv {σ β τ ρ ε : Type} (app : App σ β τ ρ ε) (EnvOk : β → Prop) (Inv : σ → Prop)
    (h : ∀ o b s tx, EnvOk b → Inv s → Inv (app.runTx o b s tx).1)
    (o : Sched) (b : β) (hb : EnvOk b) (s : σ) (hs : Inv s) (txs : List τ) : Inv (runTxs app o b s txs).1 := by
  unfold runTxs
  suffices ∀ (acc : σ × List (TxResult ρ)), Inv acc.1 →
      Inv (txs.foldl (fun (acc : σ × List (TxResult ρ)) tx => let (s', r) := app.runTx o b acc.1 tx; (s', acc.2 ++ [r])) acc).1 from this (s, []) hs
  induction txs with
  | nil => intro acc ha; exact ha
  | cons tx txs ih => intro acc ha; simp only [List.foldl_cons]; exact ih _ (h o b acc.1 tx hb ha)

/-- one block: with total begin/end-blockers, ANY list of transactions finalizes, and the invariant is re-established -/
theorem finalize_total {σ β τ ρ ε : Type} (app : App σ β τ ρ ε) (EnvOk : β → Prop) (Inv : σ → Prop) (h : app.TotalOn EnvOk Inv)
    (o : Sched) (s : σ) (hs : Inv s) (blk : β × List τ) (hb : EnvOk blk.1) : ∃ r, finalize app o s blk = .ok r ∧ Inv r.1 := by
  unfold finalize
  obtain ⟨s1, e1, i1⟩ := runPhase_total EnvOk Inv o blk.1 hb app.begins h.1 s hs
  have i2 := runTxs_inv app EnvOk Inv h.2.2 o blk.1 hb s1 i1 blk.2
  obtain ⟨s3, e3, i3⟩ := runPhase_total EnvOk Inv o blk.1 hb app.ends h.2.1 _ i2
  refine ⟨(s3, (runTxs app o blk.1 s1 blk.2).2), ?_, i3⟩
  simp only [e1, bind, Except.bind, e3, pure, Except.pure]

/-- **totality**: every block sequence finalizes at every height, under every schedule -/
theorem chain_total {σ β τ ρ ε : Type} (app : App σ β τ ρ ε) (EnvOk : β → Prop) (Inv : σ → Prop) (h : app.TotalOn EnvOk Inv)
    (os : Nat → Sched) (height : Nat) (genesis : σ) (hg : Inv genesis) (blocks : List (β × List τ)) (hb : ∀ b ∈ blocks, EnvOk b.1) :
    ∃ out, runChain app os height genesis blocks = .ok out ∧ out.length = blocks.length := by
  induction blocks generalizing height genesis with
  | nil => exact ⟨[], rfl, rfl⟩
  | cons b bs ih =>
    obtain ⟨r, er, ir⟩ := finalize_total app EnvOk Inv h (os height) genesis hg b (hb b (List.mem_cons_self ..))
    obtain ⟨rest, erest, lrest⟩ := ih (height + 1) r.1 ir (fun x hx => hb x (List.mem_cons_of_mem _ hx))
    refine ⟨(r.1, r.2) :: rest, ?_, by simp [lrest]⟩
    simp only [runChain, er, erest]

/-- a guarded cross-module call never fails the caller, and a failing callee leaves no trace -/
theorem guarded_total {σ ε : Type} (f : σ → Except ε σ) (s : σ) :
    (∀ e, f s = .error e → guarded f s = (s, some e)) ∧ (∀ s', f s = .ok s' → guarded f s = (s', none)) := by
  unfold guarded
  constructor
  · intro e h; rw [h]
  · intro s' h; rw [h]

/-! ## module order -/

/-- the dependencies between the band modules' begin/end-blockers are respected by the configured order:
    begin: mint mints into the fee collector before oracle and then bandtss take their percentages, and distribution
    distributes what is left; the rolling seed is updated before the oracle module samples validators.
    end: oracle resolves requests (creating signings) before tss processes signings and bandtss handles transitions;
    feeds recomputes prices before tunnel produces packets from them. -/
theorem module_order_constraints :
    before beginOrder "minttypes" "oracletypes" = true ∧ before beginOrder "oracletypes" "bandtsstypes" = true ∧
    before beginOrder "bandtsstypes" "distrtypes" = true ∧ before beginOrder "rollingseedtypes" "oracletypes" = true ∧
    before endOrder "oracletypes" "tsstypes" = true ∧ before endOrder "tsstypes" "bandtsstypes" = true ∧
    before endOrder "feedstypes" "tunneltypes" = true ∧ before endOrder "bandtsstypes" "tunneltypes" = true ∧
    beginOrder.Nodup ∧ endOrder.Nodup := by decide

/-! ## the modelled band modules composed into one application

    `chain_total` needs per-module totality as a hypothesis.  For the modules whose end-blockers are modelled in
    this project the hypothesis is discharged here from their own theorems: the oracle end-blocker
    (`C01.step_inv`: `MustGetRequest` never panics on a reachable state), the feeds end-blocker
    (`C06.calculatePrice_total`: `CalculatePrice` never returns an error) and the tunnel end-blocker
    (a total function: failures of `ProduceActiveTunnelPacket` are events, never returned).
    The end-block order is the regenerated one: oracle, feeds, tunnel. -/

/-- what a block brings: header values and the outcomes of components the models take as inputs -/
structure Env where
  height : Int
  nowNs : Int
  expBlocks : Int
  minted : Int                                         -- coins the mint module adds to the fee collector
  activePowers : List Int                              -- last-commit voting powers of the oracle-active voters
  eligibleMembers : Int                                -- bandtss members that are active with a non-empty DE queue
  outcome : Nat → Nat × String                         -- owasm execution result per resolved request
  feedInfos : List (List Median.Info × Int)            -- per current feed: validator price infos, power quorum
  feedPrices : List Tunnel.Price                       -- the prices feeds publishes this block (tunnel input)
  routeOk : Nat → Bool                                 -- whether the route of tunnel id accepts a packet
  committee : Nat → List Nat                           -- the signing committee the sampler draws for tss signing id (C09)

/-- the quantities that are unsigned in the Go code are non-negative; committees are as the sampler draws them (C09):
    distinct members, `thr` (the group threshold) of them -/
def Env.Ok (thr : Nat) (b : Env) : Prop :=
  (∀ lq ∈ b.feedInfos, ∀ i ∈ lq.1, 0 ≤ i.power) ∧ 0 ≤ b.minted ∧ (∀ p ∈ b.activePowers, 0 ≤ p) ∧ 0 ≤ b.eligibleMembers ∧
  (∀ i, (b.committee i).Nodup) ∧ (∀ i, (b.committee i).length ≤ thr)

structure BState where
  oracle : Oracle.State
  tunnel : Tunnel.State
  tss : Signing.State      -- tss signing life cycle + bandtss fees/escrow (C05/C10/C13 model)
  feePool : Int            -- fee collector balance (one denom)
  oraclePct : Nat          -- oracle Params.OracleRewardPercentage
  tssPct : Nat             -- bandtss Params.RewardPercentage
  tax : Int                -- distribution community tax, raw 18-decimal

inductive BTx
  | oracle (op : C01.Op)                                -- request admission, report, activate
  | trigger (id sender : Nat) (prices : List Tunnel.Price) (routeOk : Bool)
  | payFee (amt : Nat)                                  -- a transaction fee reaching the fee collector
  | setOraclePct (p : Nat)                              -- MsgUpdateParams (applied iff Params.Validate accepts)
  | setTssPct (p : Nat)
  | tss (op : C05.Op)                                   -- DE submission/reset, signing request, signature submission, activation, params

inductive BErr | oraclePanic | feedsError | insufficientFunds | negativeCoin | tssPanic deriving DecidableEq, Repr

def mintBegin (_ : Sched) (b : Env) (s : BState) : Except BErr BState := .ok { s with feePool := s.feePool + b.minted }

/-- oracle BeginBlocker → AllocateTokens: SendCoinsFromModuleToModule fails when the fee collector holds less than the
    share (an error: FinalizeBlock fails), DecCoins.Sub panics on a negative amount -/
def oracleBegin (_ : Sched) (b : Env) (s : BState) : Except BErr BState :=
  match Reward.oracleAlloc s.feePool s.oraclePct s.tax b.activePowers with
  | none => .ok s
  | some out =>
    if out.transferred < 0 ∨ s.feePool < out.transferred then .error .insufficientFunds
    else if out.remaining < 0 ∨ out.communityFund < 0 then .error .negativeCoin
    else .ok { s with feePool := s.feePool - out.transferred }

/-- bandtss BeginBlocker → AllocateTokens -/
def tssBegin (_ : Sched) (b : Env) (s : BState) : Except BErr BState :=
  match Reward.tssAlloc s.feePool s.tssPct s.tax b.eligibleMembers with
  | none => .ok s
  | some out =>
    if out.transferred < 0 ∨ s.feePool < out.transferred then .error .insufficientFunds
    else if out.perMember < 0 ∨ out.communityFund < 0 then .error .negativeCoin
    else .ok { s with feePool := s.feePool - out.transferred }

/-- distribution takes what is left -/
def distrBegin (_ : Sched) (_ : Env) (s : BState) : Except BErr BState := .ok { s with feePool := 0 }

def oracleEnd (_ : Sched) (b : Env) (s : BState) : Except BErr BState :=
  match Oracle.endBlock s.oracle b.outcome b.expBlocks b.height b.nowNs with
  | some o => .ok { s with oracle := o }
  | none => .error .oraclePanic

/-- tss EndBlocker → HandleSigningEndBlock (with the bandtss callbacks); fails where the Go code panics -/
def tssEnd (_ : Sched) (b : Env) (s : BState) : Except BErr BState :=
  if Signing.endBlockPanics s.tss b.committee b.height b.nowNs then .error .tssPanic
  else .ok { s with tss := Signing.endBlock s.tss b.committee b.height b.nowNs }

/-- a tss/bandtss message; the committee of a new signing is the sampler's (an input of the block environment) -/
def tssOp (b : Env) (st : Signing.State) : C05.Op → C05.Op
  | .request a au l _ h => .request a au l (b.committee (st.count + 1)) h
  | .endBlock _ _ _ => .resetDE 0      -- not a transaction; never reached (filtered in bandTx)
  | op => op

def feedsEnd (_ : Sched) (b : Env) (s : BState) : Except BErr BState :=
  if b.feedInfos.all (fun lq => Median.calculatePrice lq.1 lq.2 != Median.Res.error) then .ok s else .error .feedsError

def tunnelEnd (_ : Sched) (b : Env) (s : BState) : Except BErr BState :=
  .ok { s with tunnel := Tunnel.endBlock b.feedPrices (b.nowNs / 1000000000) b.routeOk s.tunnel.activeIdx s.tunnel }

def bandTx (_ : Sched) (b : Env) (s : BState) : BTx → BState × TxResult Unit
  | .oracle (.endBlock ..) => (s, { code := 1, gas := 0, data := () })       -- not a transaction
  | .oracle op =>
    match C01.step s.oracle op with
    | some o => ({ s with oracle := o }, { code := 0, gas := 0, data := () })
    | none => (s, { code := 1, gas := 0, data := () })
  | .trigger id sender prices ok =>
    let r := Tunnel.trigger s.tunnel id sender prices ok (b.nowNs / 1000000000)
    ({ s with tunnel := r.1 }, { code := if r.2 = .ok then 0 else 1, gas := 0, data := () })
  | .payFee amt => ({ s with feePool := s.feePool + amt }, { code := 0, gas := 0, data := () })
  | .setOraclePct p =>
    if Generated.Params.oracleRewardPctAccepted p then ({ s with oraclePct := p }, { code := 0, gas := 0, data := () })
    else (s, { code := 1, gas := 0, data := () })
  | .setTssPct p =>
    if Generated.Params.bandtssRewardPctAccepted p then ({ s with tssPct := p }, { code := 0, gas := 0, data := () })
    else (s, { code := 1, gas := 0, data := () })
  | .tss (.endBlock ..) => (s, { code := 1, gas := 0, data := () })          -- not a transaction
  | .tss op => ({ s with tss := C05.apply s.tss (tssOp b s.tss op) }, { code := 0, gas := 0, data := () })

/-- begin: mint → oracle → bandtss → distribution; end: oracle → feeds → tunnel — as in the regenerated orders -/
def bandApp : App BState Env BTx Unit BErr where
  begins := [mintBegin, oracleBegin, tssBegin, distrBegin]
  ends := [oracleEnd, tssEnd, feedsEnd, tunnelEnd]
  runTx := bandTx

theorem bandApp_order_matches_source :
    before Generated.ModuleOrder.beginBlockers "minttypes" "oracletypes" = true ∧
    before Generated.ModuleOrder.beginBlockers "oracletypes" "bandtsstypes" = true ∧
    before Generated.ModuleOrder.beginBlockers "bandtsstypes" "distrtypes" = true ∧
    before Generated.ModuleOrder.endBlockers "oracletypes" "tsstypes" = true ∧
    before Generated.ModuleOrder.endBlockers "tsstypes" "feedstypes" = true ∧
    before Generated.ModuleOrder.endBlockers "feedstypes" "tunneltypes" = true := by decide

theorem bandApp_order_free : bandApp.OrderFree :=
  ⟨(fun f hf o₁ o₂ _ _ b s => by
      simp only [bandApp, List.mem_cons, List.mem_nil_iff, or_false] at hf
      rcases hf with rfl | rfl | rfl | rfl <;> rfl),
   (fun f hf o₁ o₂ _ _ b s => by
      simp only [bandApp, List.mem_cons, List.mem_nil_iff, or_false] at hf
      rcases hf with rfl | rfl | rfl | rfl <;> rfl), (fun _ _ _ _ _ _ _ => rfl)⟩

/-- the state invariant of the composed model: the C01 oracle invariant, a non-negative fee pool, and reward
    percentages within what `Params.Validate` (as regenerated) accepts -/
structure BInv (thr : Nat) (s : BState) : Prop where
  oracle : Oracle.Inv s.oracle
  tssH : Signing.HInv s.tss
  tssE : Signing.EInv s.tss
  tssT : s.tss.threshold = thr
  pool : 0 ≤ s.feePool
  opct : s.oraclePct ≤ 100
  tpct : s.tssPct ≤ 100
  tax0 : 0 ≤ s.tax
  tax1 : s.tax ≤ Reward.E18

/-- **the modelled modules are total**: from any state satisfying `BInv`, under any block environment with unsigned
    quantities, every begin- and end-blocker succeeds and re-establishes the invariant, and every transaction keeps
    it — in particular a parameter change that `Params.Validate` accepts cannot make a later block fail. -/
theorem bandApp_total (thr : Nat) : bandApp.TotalOn (Env.Ok thr) (BInv thr) := by
  refine ⟨?_, ?_, ?_⟩
  · intro f hf o b s hb hs
    simp only [bandApp, List.mem_cons, List.mem_nil_iff, or_false] at hf
    rcases hf with rfl | rfl | rfl | rfl
    · exact ⟨_, rfl, { hs with pool := Int.add_nonneg hs.pool hb.2.1 }⟩
    · -- oracle AllocateTokens
      unfold oracleBegin
      cases h : Reward.oracleAlloc s.feePool s.oraclePct s.tax b.activePowers with
      | none => exact ⟨s, rfl, hs⟩
      | some out =>
        obtain ⟨_, h0, hle, hc0, _, _, hr0, _⟩ := C14.oracle_conserves s.feePool s.oraclePct s.tax b.activePowers out hs.pool
          (Int.natCast_nonneg _) (by exact_mod_cast hs.opct) hs.tax0 hs.tax1 hb.2.2.1 h
        have n1 : ¬ (out.transferred < 0 ∨ s.feePool < out.transferred) := by omega
        have n2 : ¬ (out.remaining < 0 ∨ out.communityFund < 0) := by omega
        simp only [n1, n2, if_false]
        exact ⟨_, rfl, { hs with pool := by show 0 ≤ s.feePool - out.transferred; omega }⟩
    · -- bandtss AllocateTokens
      unfold tssBegin
      cases h : Reward.tssAlloc s.feePool s.tssPct s.tax b.eligibleMembers with
      | none => exact ⟨s, rfl, hs⟩
      | some out =>
        have hn : 0 < b.eligibleMembers := by
          rcases Int.lt_or_eq_of_le hb.2.2.2.1 with h' | h'
          · exact h'
          · rw [← h'] at h; rw [C14.tss_nothing_without_eligible] at h; cases h
        obtain ⟨_, h0, hle, hp0, hc0, _⟩ := C14.tss_conserves s.feePool s.tssPct s.tax b.eligibleMembers out hs.pool
          (Int.natCast_nonneg _) (by exact_mod_cast hs.tpct) hs.tax0 hs.tax1 hn h
        have n1 : ¬ (out.transferred < 0 ∨ s.feePool < out.transferred) := by omega
        have n2 : ¬ (out.perMember < 0 ∨ out.communityFund < 0) := by omega
        simp only [n1, n2, if_false]
        exact ⟨_, rfl, { hs with pool := by show 0 ≤ s.feePool - out.transferred; omega }⟩
    · exact ⟨_, rfl, { hs with pool := Int.le_refl 0 }⟩
  · intro f hf o b s hb hs
    simp only [bandApp, List.mem_cons, List.mem_nil_iff, or_false] at hf
    rcases hf with rfl | rfl | rfl | rfl
    · obtain ⟨o', e, i⟩ := C01.step_inv s.oracle (.endBlock b.outcome b.expBlocks b.height b.nowNs) hs.oracle
      simp only [C01.step] at e
      exact ⟨{ s with oracle := o' }, by simp only [oracleEnd, e], { hs with oracle := i }⟩
    · -- tss / bandtss end-block: no Must* panic, no payout beyond the escrow
      have hnp := Signing.endBlock_never_panics s.tss b.committee b.height b.nowNs hs.tssH hs.tssE
      refine ⟨{ s with tss := Signing.endBlock s.tss b.committee b.height b.nowNs }, by simp only [tssEnd, hnp]; rfl, ?_⟩
      obtain ⟨e1, e2⟩ := C13.step_einv s.tss (.endBlock b.committee b.height b.nowNs) hs.tssE
        (by intro i; rw [hs.tssT]; exact hb.2.2.2.2.2 i)
      exact { hs with tssH := Signing.endBlock_hinv s.tss b.committee b.height b.nowNs hb.2.2.2.2.1 hs.tssH, tssE := e1, tssT := e2.trans hs.tssT }
    · refine ⟨s, ?_, hs⟩
      have : b.feedInfos.all (fun lq => Median.calculatePrice lq.1 lq.2 != Median.Res.error) = true := by
        rw [List.all_eq_true]
        intro lq hlq
        simp only [bne_iff_ne, ne_eq]
        exact C06.calculatePrice_total lq.1 lq.2 (hb.1 lq hlq)
      simp only [feedsEnd, this, if_true]
    · exact ⟨_, rfl, { hs with }⟩
  · intro o b s tx hb hs
    cases tx with
    | oracle op =>
      cases op with
      | endBlock a b' c d => exact hs
      | request r =>
        obtain ⟨o', e, i⟩ := C01.step_inv s.oracle (.request r) hs.oracle
        simp only [bandApp, bandTx, e]; exact { hs with oracle := i }
      | report v rid eids ov =>
        obtain ⟨o', e, i⟩ := C01.step_inv s.oracle (.report v rid eids ov) hs.oracle
        simp only [bandApp, bandTx, e]; exact { hs with oracle := i }
      | activate v p n =>
        obtain ⟨o', e, i⟩ := C01.step_inv s.oracle (.activate v p n) hs.oracle
        simp only [bandApp, bandTx, e]; exact { hs with oracle := i }
    | trigger id sender prices ok => exact { hs with }
    | payFee amt => exact { hs with pool := Int.add_nonneg hs.pool (Int.natCast_nonneg _) }
    | setOraclePct p =>
      simp only [bandApp, bandTx]
      by_cases h : Generated.Params.oracleRewardPctAccepted p = true
      · simp only [h, if_true]
        exact { hs with opct := by simpa [Generated.Params.oracleRewardPctAccepted] using h }
      · simp only [h]; exact hs
    | setTssPct p =>
      simp only [bandApp, bandTx]
      by_cases h : Generated.Params.bandtssRewardPctAccepted p = true
      · simp only [h, if_true]
        exact { hs with tpct := by simpa [Generated.Params.bandtssRewardPctAccepted] using h }
      · simp only [h]; exact hs
    | tss op =>
      -- every tss/bandtss message keeps the signing invariants (committees are the sampler's)
      have key : ∀ op', C10.OpOk op' → C13.CommitteeOk s.tss.threshold op' →
          BInv thr { s with tss := C05.apply s.tss op' } := by
        intro op' k1 k2
        obtain ⟨e1, e2⟩ := C13.step_einv s.tss op' hs.tssE k2
        exact { hs with tssH := C10.step_hinv s.tss op' hs.tssH k1, tssE := e1, tssT := e2.trans hs.tssT }
      cases op with
      | endBlock c ht n => exact hs
      | request a au l c ht =>
        exact key _ (hb.2.2.2.2.1 _) (by show (b.committee (s.tss.count + 1)).length ≤ s.tss.threshold; rw [hs.tssT]; exact hb.2.2.2.2.2 _)
      | submitDE m k => exact key _ trivial trivial
      | resetDE m => exact key _ trivial trivial
      | submit a b' c d => exact key _ trivial trivial
      | activate m n => exact key _ trivial trivial
      | setParams p a d f => exact key _ trivial trivial

/-- **composed totality for the modelled modules**: every sequence of blocks — any transactions (including every
    parameter change that validation accepts), any minting, voting powers, script outcomes, route failures, heights
    and times — finalizes at every height on every node under every schedule. -/
theorem band_chain_total (thr : Nat) (os : Nat → Sched) (height : Nat) (blocks : List (Env × List BTx)) (hb : ∀ b ∈ blocks, b.1.Ok thr)
    (genesis : BState) (hg : BInv thr genesis) :
    ∃ out, runChain bandApp os height genesis blocks = .ok out ∧ out.length = blocks.length :=
  chain_total bandApp (Env.Ok thr) (BInv thr) (bandApp_total thr) os height genesis hg blocks hb

theorem band_replicas_agree (os₁ os₂ : Nat → Sched) (h₁ : ∀ n, (os₁ n).Valid) (h₂ : ∀ n, (os₂ n).Valid) (height : Nat)
    (genesis : BState) (blocks : List (Env × List BTx)) :
    runChain bandApp os₁ height genesis blocks = runChain bandApp os₂ height genesis blocks :=
  replicas_agree bandApp bandApp_order_free os₁ os₂ h₁ h₂ height genesis blocks

/-- without the bound the composed model is NOT total: a percentage above 100 makes the next oracle begin-block
    fail with insufficient funds (what the code did before `fix:` cd24788) -/
def badEnv : Env :=
  { height := 2, nowNs := 0, expBlocks := 1, minted := 0, activePowers := [100], eligibleMembers := 0,
    outcome := fun _ => (1, ""), feedInfos := [], feedPrices := [], routeOk := fun _ => true, committee := fun _ => [1] }
def badState : BState :=
  { oracle := Oracle.State.init, tunnel := ⟨fun _ => none, fun _ => 0, 0, 0, 0, []⟩, tss := C10.demo, feePool := 1000, oraclePct := 150, tssPct := 0, tax := 0 }
def errOf {ε α : Type} : Except ε α → Option ε
  | .error e => some e
  | .ok _ => none
theorem unbounded_pct_fails : errOf (oracleBegin Sched.id badEnv badState) = some .insufficientFunds := by decide

/-! ## non-vacuity -/

/-- `Env.Ok` is satisfiable by an environment with a current feed that has reporting validators -/
example : ({ height := 5, nowNs := 1700000000000000000, expBlocks := 100, minted := 12, activePowers := [100, 1, 99], eligibleMembers := 3,
             outcome := fun _ => (1, "00"),
             feedInfos := [([{ status := 3, power := 100, price := 7, ts := 1700000000 }], 30)], feedPrices := [], routeOk := fun _ => true,
             committee := fun _ => [1] } : Env).Ok 1 := by
  refine ⟨?_, by decide, by decide, by decide, fun _ => by simp, fun _ => by simp⟩
  intro lq hlq i hi
  simp only [List.mem_singleton] at hlq
  subst hlq
  simp only [List.mem_singleton] at hi
  subst hi
  decide

/-- a genesis state satisfying `BInv` with non-trivial parameters -/
theorem einv_demo : Signing.EInv C10.demo := by
  refine ⟨?_, ?_, ?_, ?_, ?_⟩
  · intro d; simp [Signing.owedSum, Signing.owed, C10.demo, List.range_succ]
  · intro i a atm q; simp [C10.demo] at q
  · intro i; simp [C10.demo]
  · intro i _; simp [C10.demo]
  · intro i hi; simp [C10.demo] at hi

example : BInv 1 { oracle := Oracle.State.init, tunnel := ⟨fun _ => none, fun _ => 0, 0, 0, 0, []⟩, tss := C10.demo, feePool := 5, oraclePct := 70,
                   tssPct := 50, tax := 20000000000000000 } :=
  ⟨Oracle.inv_init, C10.hinv_demo, einv_demo, rfl, by decide, by decide, by decide, by decide, by decide⟩


/-- the hypotheses of `replicas_agree`/`chain_total` are met by an app whose only schedule-consuming handler is the
    vote: a one-module instance built from `voteApply`, with two different valid schedules -/
def voteApp : App (List Signal) Unit (Visit String Int) Unit VoteErr where
  begins := []
  ends := [fun _ _ s => .ok s]
  runTx := fun o _ s diffMap =>
    match voteApply o diffMap s with
    | .ok s' => (s', { code := 0, gas := diffMap.length, data := () })
    | .error _ => (s, { code := 1, gas := diffMap.length, data := () })

theorem voteApp_order_free : voteApp.OrderFree := by
  refine ⟨(fun f hf => by cases hf), ?_, ?_⟩
  · intro f hf o₁ o₂ _ _ b s
    simp only [voteApp, List.mem_singleton] at hf
    rw [hf]
  · intro o₁ o₂ h₁ h₂ b s tx
    simp only [voteApp]
    rw [vote_schedule_independent o₁ o₂ h₁ h₂]

theorem voteApp_total : voteApp.TotalOn (fun _ => True) (fun _ => True) := by
  refine ⟨(fun f hf => by cases hf), ?_, fun _ _ _ _ _ _ => trivial⟩
  intro f hf o b s _ _
  simp only [voteApp, List.mem_singleton] at hf
  exact ⟨s, by rw [hf], trivial⟩

example : Sched.id.Valid ∧ Sched.rev.Valid := ⟨fun _ => List.Perm.refl _, fun v => List.reverse_perm v⟩



/-- the two schedules really visit in different orders, and the sorted vote still agrees, including on the error -/
example : voteApply Sched.id [("b", 2), ("a", -1)] [] = .error .powerNegative ∧
          voteApply Sched.rev [("b", 2), ("a", -1)] [] = .error .powerNegative ∧
          voteApply Sched.id [("b", 2), ("a", 1)] [] = .ok [⟨"a", 1⟩, ⟨"b", 2⟩] ∧
          voteApply Sched.rev [("b", 2), ("a", 1)] [] = .ok [⟨"a", 1⟩, ⟨"b", 2⟩] := by
  simp [voteApply, runSorted, sortedKeys, Sched.id, Sched.rev, List.mergeSort, List.MergeSort.Internal.splitInTwo, leS, voteBody,
    getPower, setPower, bind, Except.bind, pure, Except.pure]

/-! ## the slashing begin-blocker and the restake hook (KNOWN FINDING F8: the full totality statement is FALSE here)

    `staking.Slash → SlashRedelegation` unbonds the slashed part of a moved delegation through `Keeper.Unbond`, which runs
    the staking hooks; the restake hook compares the delegator's remaining power with its largest active lock and returns an
    error, which the SDK propagates out of the evidence / slashing begin-blocker.  The model below is those few lines; the
    witness is replayed on the real code by the harness scenario `slash-of-locked-redelegation`. -/
namespace SlashHook

/-- what the restake hook reads: restaked coins, bonded delegations, the largest lock in a still-active vault -/
structure Deleg where
  staked : Nat
  bonded : Nat
  lock : Nat
  deriving DecidableEq, Repr

inductive Err | unableToUndelegate deriving DecidableEq, Repr

/-- `Hooks.AfterDelegationModified` / `BeforeDelegationRemoved` (x/restake/keeper/hooks.go, `isValidPower`) -/
def hook (d : Deleg) : Except Err Unit := if d.staked + d.bonded ≥ d.lock then .ok () else .error .unableToUndelegate

/-- `Keeper.Unbond` as far as the hook is concerned: shares leave the delegation, then the hook runs -/
def unbond (d : Deleg) (tokens : Nat) : Except Err Deleg :=
  let d' := { d with bonded := d.bonded - tokens }
  match hook d' with
  | .ok _ => .ok d'
  | .error e => .error e

/-- the evidence / downtime begin-blocker for one redelegation entry of `moved` tokens slashed by `num/den` -/
def slashBegin (d : Deleg) (moved num den : Nat) : Except Err Deleg := unbond d (min (moved * num / den) d.bonded)

/-- the begin-blocker fails exactly when the burn takes the delegator below its lock: a user-initiated undelegation and
    a slash are indistinguishable to the hook -/
theorem slashBegin_fails_iff (d : Deleg) (moved num den : Nat) :
    (slashBegin d moved num den = .error .unableToUndelegate) ↔ d.staked + (d.bonded - min (moved * num / den) d.bonded) < d.lock := by
  unfold slashBegin unbond hook
  simp only []
  split <;> rename_i h <;> split at h <;> simp_all

/-- WITNESS (replayed by the harness on the real FinalizeBlock): 500000 bonded through a redelegation, all of it locked by
    a feeds vote, 5 % double-sign slash of the source validator → the begin-blocker returns the hook's error -/
theorem locked_redelegation_slash_fails_begin_block :
    slashBegin { staked := 0, bonded := 500000, lock := 500000 } 500000 5 100 = .error .unableToUndelegate := by decide

/-- the control history (no lock): the slash goes through and burns 25000 -/
theorem unlocked_redelegation_slash_succeeds :
    slashBegin { staked := 0, bonded := 500000, lock := 0 } 500000 5 100 = .ok { staked := 0, bonded := 475000, lock := 0 } := by decide

/-- PARTIAL totality: with no lock above the power that remains after the burn, the begin-blocker succeeds -/
theorem slashBegin_total_partial (d : Deleg) (moved num den : Nat) (h : d.lock ≤ d.staked + (d.bonded - min (moved * num / den) d.bonded)) :
    ∃ d', slashBegin d moved num den = .ok d' := by
  unfold slashBegin unbond hook
  simp only []
  split
  · exact ⟨_, rfl⟩
  · rename_i h'; split at h' <;> simp_all

end SlashHook

end BandVerif.Props.C02
