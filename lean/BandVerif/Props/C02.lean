/- C02: block execution is total and deterministic.
   Theorems over Model/Determinism.lean; the surface tables of Model/DeterminismSrc.lean are tied to the current
   source by `generated_surface_matches_model` (Generated/MapRanges.lean, Generated/ModuleOrder.lean are regenerated
   on every run). -/
import BandVerif.Model.Determinism
import BandVerif.Model.DeterminismSrc
import BandVerif.Generated.MapRanges
import BandVerif.Generated.ModuleOrder

namespace BandVerif.Props.C02
open BandVerif BandVerif.Det

instance {ε α : Type} [DecidableEq ε] [DecidableEq α] : DecidableEq (Except ε α)
  | .ok a, .ok b => if h : a = b then isTrue (by rw [h]) else isFalse (fun e => h (by cases e; rfl))
  | .error a, .error b => if h : a = b then isTrue (by rw [h]) else isFalse (fun e => h (by cases e; rfl))
  | .ok _, .error _ => isFalse (fun e => by cases e)
  | .error _, .ok _ => isFalse (fun e => by cases e)

/-! ## the tie to the source -/

/-- the nondeterminism / panic surface found in the current source is exactly the classified one:
    every `range` over a map, every goroutine/select, every clock or randomness use, every recover / cache context,
    every explicit panic and every `MustGet*` call site in keeper code — and the begin/end-block module orders. -/
theorem generated_surface_matches_model :
    Generated.MapRanges.mapRanges = mapRangeSites.map (·.src) ∧
    Generated.MapRanges.concurrency = concurrencySites ∧
    Generated.MapRanges.clocks = clockSites ∧
    Generated.MapRanges.recovers = recoverSites ∧
    Generated.MapRanges.cacheContexts = cacheContextSites ∧
    Generated.MapRanges.panics = panicSites ∧
    Generated.MapRanges.mustCalls = mustCallSites ∧
    Generated.ModuleOrder.beginBlockers = beginOrder ∧
    Generated.ModuleOrder.endBlockers = endOrder := by
  refine ⟨rfl, rfl, rfl, rfl, rfl, rfl, rfl, rfl, rfl⟩

/-- no goroutine is started and nothing `select`s in consensus packages: there is no schedule to quantify over -/
theorem no_concurrency : Generated.MapRanges.concurrency = [] := rfl

/-- exactly one map range runs inside block execution, and it is of the sorted-keys class;
    no site uses iteration order directly -/
theorem in_block_map_ranges_are_sorted :
    (mapRangeSites.filter (·.inBlock)).map (·.src) = [s3] ∧ ∀ s ∈ mapRangeSites, s.inBlock = true → s.cls = .sortedKeys := by
  constructor
  · rfl
  · decide

/-! ## each class of use is independent of the visiting order -/

theorem leS_trans (a b c : String) : leS a b = true → leS b c = true → leS a c = true := by
  simp only [leS, decide_eq_true_eq]; exact String.le_trans
theorem leS_total (a b : String) : (leS a b || leS b a) = true := by
  simp only [leS, Bool.or_eq_true, decide_eq_true_eq]; exact String.le_total a b
theorem leS_antisymm (a b : String) : leS a b = true → leS b a = true → a = b := by
  simp only [leS, decide_eq_true_eq]; exact String.le_antisymm

/-- sorted keys: permuted visits give the same key list — for any transitive, total, antisymmetric order -/
theorem sortedKeys_order_independent {K V : Type} (le : K → K → Bool)
    (trans : ∀ a b c, le a b = true → le b c = true → le a c = true) (total : ∀ a b, (le a b || le b a) = true)
    (antisymm : ∀ a b, le a b = true → le b a = true → a = b)
    (v₁ v₂ : Visit K V) (h : v₁.Perm v₂) : sortedKeys le v₁ = sortedKeys le v₂ := by
  unfold sortedKeys
  have hp : ((v₁.map (·.1)).mergeSort le).Perm ((v₂.map (·.1)).mergeSort le) :=
    (List.mergeSort_perm _ le).trans ((h.map _).trans (List.mergeSort_perm _ le).symm)
  exact List.Perm.eq_of_pairwise (le := fun a b => le a b = true) (fun a b _ _ hab hba => antisymm a b hab hba)
    (List.pairwise_mergeSort trans total _) (List.pairwise_mergeSort trans total _) hp

/-- … hence so does the effectful loop that follows, including which error it returns -/
theorem runSorted_order_independent {K V σ ε : Type} (le : K → K → Bool)
    (trans : ∀ a b c, le a b = true → le b c = true → le a c = true) (total : ∀ a b, (le a b || le b a) = true)
    (antisymm : ∀ a b, le a b = true → le b a = true → a = b)
    (body : σ → K → Except ε σ) (init : σ) (v₁ v₂ : Visit K V) (h : v₁.Perm v₂) :
    runSorted le body init v₁ = runSorted le body init v₂ := by
  unfold runSorted; rw [sortedKeys_order_independent le trans total antisymm v₁ v₂ h]

theorem existsCheck_order_independent {K V : Type} (bad : K × V → Bool) (v₁ v₂ : Visit K V) (h : v₁.Perm v₂) :
    existsCheck bad v₁ = existsCheck bad v₂ := h.any_eq

theorem buildsSet_order_independent {K V K' : Type} [BEq K'] (f : K → K') (v₁ v₂ : Visit K V) (h : v₁.Perm v₂) :
    buildsSet f v₁ = buildsSet f v₂ := by
  funext x; exact h.any_eq

/-- feeds `Vote`: the signal-total-power store after the vote (or the error) is the same under every valid schedule -/
theorem vote_schedule_independent (o₁ o₂ : Sched) (h₁ : o₁.Valid) (h₂ : o₂.Valid) (diffMap : Visit String Int) (store : List Signal) :
    voteApply o₁ diffMap store = voteApply o₂ diffMap store := by
  unfold voteApply
  exact runSorted_order_independent leS leS_trans leS_total leS_antisymm _ _ _ _ ((h₁ diffMap).trans (h₂ diffMap).symm)

/-- the sort is what carries the theorem: without it two valid schedules give different committed stores
    (a store is an ordered list of writes here, as IAVL insertion order does not matter but the error point does:
    with a negative entry the unsorted loop stops after a schedule-dependent prefix) -/
theorem unsorted_vote_is_schedule_dependent :
    ∃ (o₁ o₂ : Sched) (diffMap : Visit String Int) (store : List Signal), o₁.Valid ∧ o₂.Valid ∧
      voteApplyUnsorted o₁ diffMap store ≠ voteApplyUnsorted o₂ diffMap store := by
  refine ⟨Sched.id, Sched.rev, [("a", 1), ("b", 2)], [], ?_, ?_, ?_⟩
  · intro K V v; exact List.Perm.refl _
  · intro K V v; exact List.reverse_perm v
  · decide

/-! ## from the handlers to the chain -/

theorem runPhase_order_free {σ ε : Type} (fs : List (Sched → σ → Except ε σ))
    (h : ∀ f ∈ fs, ∀ o₁ o₂ : Sched, o₁.Valid → o₂.Valid → ∀ s, f o₁ s = f o₂ s)
    (o₁ o₂ : Sched) (h₁ : o₁.Valid) (h₂ : o₂.Valid) (s : σ) : runPhase o₁ fs s = runPhase o₂ fs s := by
  unfold runPhase
  induction fs generalizing s with
  | nil => rfl
  | cons f fs ih =>
    simp only [List.foldlM_cons]
    rw [h f (List.mem_cons_self ..) o₁ o₂ h₁ h₂ s]
    cases f o₂ s with
    | error e => rfl
    | ok s' => exact ih (fun g hg => h g (List.mem_cons_of_mem _ hg)) s'

theorem runTxs_order_free {σ τ ρ ε : Type} (app : App σ τ ρ ε) (h : app.OrderFree)
    (o₁ o₂ : Sched) (h₁ : o₁.Valid) (h₂ : o₂.Valid) (s : σ) (txs : List τ) : runTxs app o₁ s txs = runTxs app o₂ s txs := by
  unfold runTxs
  have : (fun (acc : σ × List (TxResult ρ)) tx => let (s', r) := app.runTx o₁ acc.1 tx; (s', acc.2 ++ [r])) =
         (fun (acc : σ × List (TxResult ρ)) tx => let (s', r) := app.runTx o₂ acc.1 tx; (s', acc.2 ++ [r])) := by
    funext acc tx; rw [h.2.2 o₁ o₂ h₁ h₂]
  rw [this]

theorem finalize_order_free {σ τ ρ ε : Type} (app : App σ τ ρ ε) (h : app.OrderFree)
    (o₁ o₂ : Sched) (h₁ : o₁.Valid) (h₂ : o₂.Valid) (s : σ) (txs : List τ) : finalize app o₁ s txs = finalize app o₂ s txs := by
  unfold finalize
  rw [runPhase_order_free app.begins h.1 o₁ o₂ h₁ h₂ s]
  cases runPhase o₂ app.begins s with
  | error e => rfl
  | ok s1 =>
    simp only [bind, Except.bind]
    rw [runTxs_order_free app h o₁ o₂ h₁ h₂ s1 txs]
    rw [runPhase_order_free app.ends h.2.1 o₁ o₂ h₁ h₂]

/-- **determinism**: two nodes executing the same blocks from the same genesis — each under its own, arbitrary valid
    schedule per block — obtain identical committed states (hence app hashes) and identical per-transaction
    code, gas and data at every height, or fail identically. -/
theorem replicas_agree {σ τ ρ ε : Type} (app : App σ τ ρ ε) (h : app.OrderFree)
    (os₁ os₂ : Nat → Sched) (h₁ : ∀ n, (os₁ n).Valid) (h₂ : ∀ n, (os₂ n).Valid) (height : Nat) (genesis : σ) (blocks : List (List τ)) :
    runChain app os₁ height genesis blocks = runChain app os₂ height genesis blocks := by
  induction blocks generalizing height genesis with
  | nil => rfl
  | cons b bs ih =>
    simp only [runChain]
    rw [finalize_order_free app h (os₁ height) (os₂ height) (h₁ height) (h₂ height) genesis b]
    cases finalize app (os₂ height) genesis b with
    | error e => rfl
    | ok r => obtain ⟨s', rs⟩ := r; simp only []; rw [ih (height + 1) s']

/-! ## totality -/

theorem runPhase_total {σ ε : Type} (Inv : σ → Prop) (o : Sched) (fs : List (Sched → σ → Except ε σ))
    (h : ∀ f ∈ fs, ∀ o s, Inv s → ∃ s', f o s = .ok s' ∧ Inv s') (s : σ) (hs : Inv s) :
    ∃ s', runPhase o fs s = .ok s' ∧ Inv s' := by
  unfold runPhase
  induction fs generalizing s with
  | nil => exact ⟨s, rfl, hs⟩
  | cons f fs ih =>
    obtain ⟨s1, e1, i1⟩ := h f (List.mem_cons_self ..) o s hs
    simp only [List.foldlM_cons, e1]
    exact ih (fun g hg => h g (List.mem_cons_of_mem _ hg)) s1 i1

theorem runTxs_inv {σ τ ρ ε : Type} (app : App σ τ ρ ε) (Inv : σ → Prop) (h : ∀ o s tx, Inv s → Inv (app.runTx o s tx).1)
    (o : Sched) (s : σ) (hs : Inv s) (txs : List τ) : Inv (runTxs app o s txs).1 := by
  unfold runTxs
  suffices ∀ (acc : σ × List (TxResult ρ)), Inv acc.1 →
      Inv (txs.foldl (fun (acc : σ × List (TxResult ρ)) tx => let (s', r) := app.runTx o acc.1 tx; (s', acc.2 ++ [r])) acc).1 from this (s, []) hs
  induction txs with
  | nil => intro acc ha; exact ha
  | cons tx txs ih => intro acc ha; simp only [List.foldl_cons]; exact ih _ (h o acc.1 tx ha)

/-- one block: with total begin/end-blockers, ANY list of transactions finalizes, and the invariant is re-established -/
theorem finalize_total {σ τ ρ ε : Type} (app : App σ τ ρ ε) (Inv : σ → Prop) (h : app.TotalOn Inv)
    (o : Sched) (s : σ) (hs : Inv s) (txs : List τ) : ∃ r, finalize app o s txs = .ok r ∧ Inv r.1 := by
  unfold finalize
  obtain ⟨s1, e1, i1⟩ := runPhase_total Inv o app.begins h.1 s hs
  have i2 := runTxs_inv app Inv h.2.2 o s1 i1 txs
  obtain ⟨s3, e3, i3⟩ := runPhase_total Inv o app.ends h.2.1 _ i2
  refine ⟨(s3, (runTxs app o s1 txs).2), ?_, i3⟩
  simp only [e1, bind, Except.bind, e3, pure, Except.pure]

/-- **totality**: every block sequence finalizes at every height, under every schedule -/
theorem chain_total {σ τ ρ ε : Type} (app : App σ τ ρ ε) (Inv : σ → Prop) (h : app.TotalOn Inv)
    (os : Nat → Sched) (height : Nat) (genesis : σ) (hg : Inv genesis) (blocks : List (List τ)) :
    ∃ out, runChain app os height genesis blocks = .ok out ∧ out.length = blocks.length := by
  induction blocks generalizing height genesis with
  | nil => exact ⟨[], rfl, rfl⟩
  | cons b bs ih =>
    obtain ⟨r, er, ir⟩ := finalize_total app Inv h (os height) genesis hg b
    obtain ⟨rest, erest, lrest⟩ := ih (height + 1) r.1 ir
    refine ⟨(r.1, r.2) :: rest, ?_, by simp [lrest]⟩
    simp only [runChain, er, erest]

/-- a guarded cross-module call never fails the caller, and a failing callee leaves no trace -/
theorem guarded_total {σ ε : Type} (f : σ → Except ε σ) (s : σ) :
    (∀ e, f s = .error e → guarded f s = (s, some e)) ∧ (∀ s', f s = .ok s' → guarded f s = (s', none)) := by
  unfold guarded
  constructor
  · intro e h; rw [h]
  · intro s' h; rw [h]

/-! ## module order -/

/-- the dependencies between the band modules' begin/end-blockers are respected by the configured order:
    begin: mint mints into the fee collector before oracle and then bandtss take their percentages, and distribution
    distributes what is left; the rolling seed is updated before the oracle module samples validators.
    end: oracle resolves requests (creating signings) before tss processes signings and bandtss handles transitions;
    feeds recomputes prices before tunnel produces packets from them. -/
theorem module_order_constraints :
    before beginOrder "minttypes" "oracletypes" = true ∧ before beginOrder "oracletypes" "bandtsstypes" = true ∧
    before beginOrder "bandtsstypes" "distrtypes" = true ∧ before beginOrder "rollingseedtypes" "oracletypes" = true ∧
    before endOrder "oracletypes" "tsstypes" = true ∧ before endOrder "tsstypes" "bandtsstypes" = true ∧
    before endOrder "feedstypes" "tunneltypes" = true ∧ before endOrder "bandtsstypes" "tunneltypes" = true ∧
    beginOrder.Nodup ∧ endOrder.Nodup := by decide

/-! ## non-vacuity -/

/-- the hypotheses of `replicas_agree`/`chain_total` are met by an app whose only schedule-consuming handler is the
    vote: a one-module instance built from `voteApply`, with two different valid schedules -/
def voteApp : App (List Signal) (Visit String Int) Unit VoteErr where
  begins := []
  ends := [fun _ s => .ok s]
  runTx := fun o s diffMap =>
    match voteApply o diffMap s with
    | .ok s' => (s', { code := 0, gas := diffMap.length, data := () })
    | .error _ => (s, { code := 1, gas := diffMap.length, data := () })

theorem voteApp_order_free : voteApp.OrderFree := by
  refine ⟨(fun f hf => by cases hf), ?_, ?_⟩
  · intro f hf o₁ o₂ _ _ s
    simp only [voteApp, List.mem_singleton] at hf
    rw [hf]
  · intro o₁ o₂ h₁ h₂ s tx
    simp only [voteApp]
    rw [vote_schedule_independent o₁ o₂ h₁ h₂]

theorem voteApp_total : voteApp.TotalOn (fun _ => True) := by
  refine ⟨(fun f hf => by cases hf), ?_, fun _ _ _ _ => trivial⟩
  intro f hf o s _
  simp only [voteApp, List.mem_singleton] at hf
  exact ⟨s, by rw [hf], trivial⟩

example : Sched.id.Valid ∧ Sched.rev.Valid := ⟨fun _ => List.Perm.refl _, fun v => List.reverse_perm v⟩



/-- the two schedules really visit in different orders, and the sorted vote still agrees, including on the error -/
example : voteApply Sched.id [("b", 2), ("a", -1)] [] = .error .powerNegative ∧
          voteApply Sched.rev [("b", 2), ("a", -1)] [] = .error .powerNegative ∧
          voteApply Sched.id [("b", 2), ("a", 1)] [] = .ok [⟨"a", 1⟩, ⟨"b", 2⟩] ∧
          voteApply Sched.rev [("b", 2), ("a", 1)] [] = .ok [⟨"a", 1⟩, ⟨"b", 2⟩] := by
  simp [voteApply, runSorted, sortedKeys, Sched.id, Sched.rev, List.mergeSort, List.MergeSort.Internal.splitInTwo, leS, voteBody,
    getPower, setPower, bind, Except.bind, pure, Except.pure]

end BandVerif.Props.C02
