/-
C20 — grogu submits feed prices when due and only when the chain accepts them.
Model: Model/Grogu.lean.
-/
import BandVerif.Model.Grogu
import BandVerif.Model.GroguSrc
import BandVerif.Generated.Grogu
import BandVerif.Lemmas.FeedsSubmit

namespace C20
open BandVerif.Grogu

/-- TIE to the source: constants and normalised text of the signaller's decision functions, the in-flight bookkeeping and
    the chain's SubmitSignalPrices. -/
theorem generated_matches_model :
    BandVerif.Generated.Grogu.fixedIntervalOffset = fixedIntervalOffset ∧ BandVerif.Generated.Grogu.timeBuffer = timeBuffer ∧
    BandVerif.Generated.Grogu.src_execute = BandVerif.ExpectedSrc.Grogu.src_execute ∧
    BandVerif.Generated.Grogu.src_submitPrices = BandVerif.ExpectedSrc.Grogu.src_submitPrices ∧
    BandVerif.Generated.Grogu.src_getNonPendingSignalIDs = BandVerif.ExpectedSrc.Grogu.src_getNonPendingSignalIDs ∧
    BandVerif.Generated.Grogu.src_filterAndPrepareSignalPrices = BandVerif.ExpectedSrc.Grogu.src_filterAndPrepareSignalPrices ∧
    BandVerif.Generated.Grogu.src_isNonUrgentUnavailablePrices = BandVerif.ExpectedSrc.Grogu.src_isNonUrgentUnavailablePrices ∧
    BandVerif.Generated.Grogu.src_isPriceValid = BandVerif.ExpectedSrc.Grogu.src_isPriceValid ∧
    BandVerif.Generated.Grogu.src_shouldUpdatePrice = BandVerif.ExpectedSrc.Grogu.src_shouldUpdatePrice ∧
    BandVerif.Generated.Grogu.src_isDeviated = BandVerif.ExpectedSrc.Grogu.src_isDeviated ∧
    BandVerif.Generated.Grogu.src_convertPriceData = BandVerif.ExpectedSrc.Grogu.src_convertPriceData ∧
    BandVerif.Generated.Grogu.src_calculateAssignedTime = BandVerif.ExpectedSrc.Grogu.src_calculateAssignedTime ∧
    BandVerif.Generated.Grogu.src_submitterStart = BandVerif.ExpectedSrc.Grogu.src_submitterStart ∧
    BandVerif.Generated.Grogu.src_submitPrice = BandVerif.ExpectedSrc.Grogu.src_submitPrice ∧
    BandVerif.Generated.Grogu.src_removePending = BandVerif.ExpectedSrc.Grogu.src_removePending ∧
    BandVerif.Generated.Grogu.src_SubmitSignalPrices = BandVerif.ExpectedSrc.Grogu.src_SubmitSignalPrices ∧
    BandVerif.Generated.Grogu.src_getMaxBlockHeightResponse = BandVerif.ExpectedSrc.Grogu.src_getMaxBlockHeightResponse := by
  refine ⟨rfl, rfl, ?_, ?_, ?_, ?_, ?_, ?_, ?_, ?_, ?_, ?_, ?_, ?_, ?_, ?_, ?_⟩ <;> rfl

/-- PROPERTY (only what the chain accepts): whenever the signaller decides to submit a price for a signal, the signal is a
    current feed and — for any block time not more than TimeBuffer seconds behind the signaller's clock — the chain's
    cooldown rule accepts it. -/
theorem decision_accepted_by_chain (cooldown : Int) (h dpOffset dpStart : Nat) (feed : Option Feed) (old : Option OldPrice)
    (new : NewPrice) (now blockTime : Int) (hd : decideSubmit cooldown h dpOffset dpStart feed old new now = true)
    (hb : blockTime ≥ now - timeBuffer) : chainAccepts feed.isSome cooldown old blockTime = true := by
  unfold decideSubmit at hd
  cases feed with
  | none => cases hd
  | some f =>
    simp only [Bool.and_eq_true] at hd
    unfold chainAccepts
    cases old with
    | none => rfl
    | some o =>
      simp only [Option.isSome, Bool.true_and, Bool.or_eq_true, decide_eq_true_eq]
      right
      have h1 : shouldUpdate cooldown h dpOffset dpStart f o new now = true := hd.1
      unfold shouldUpdate at h1
      by_cases c : now < o.ts + cooldown + timeBuffer
      · rw [if_pos c] at h1; cases h1
      · omega

/-- PROPERTY (the send slot lies inside the interval): with the shipped distribution (start + offset ≤ 100 percent) the
    assigned time is never before the last submission and leaves at least (100 − start − offset + 1) percent of the interval. -/
theorem assigned_time_within_interval (h : Nat) (interval ts : Int) (dpOffset dpStart : Nat) (hi : 0 ≤ interval)
    (ho : 0 < dpOffset) (hs : dpStart + dpOffset ≤ 100) :
    ts ≤ assignedTime h interval ts dpOffset dpStart ∧
    assignedTime h interval ts dpOffset dpStart ≤ ts + interval * ((dpStart + dpOffset - 1 : Nat) : Int) / 100 ∧
    assignedTime h interval ts dpOffset dpStart ≤ ts + interval := by
  unfold assignedTime
  have hm : h % dpOffset < dpOffset := Nat.mod_lt _ ho
  have h0 : (0 : Int) ≤ interval * ((h % dpOffset + dpStart : Nat) : Int) := Int.mul_nonneg hi (Int.natCast_nonneg _)
  have hle : interval * ((h % dpOffset + dpStart : Nat) : Int) ≤ interval * ((dpStart + dpOffset - 1 : Nat) : Int) :=
    Int.mul_le_mul_of_nonneg_left (by omega) hi
  have hle2 : interval * ((dpStart + dpOffset - 1 : Nat) : Int) ≤ interval * 100 := Int.mul_le_mul_of_nonneg_left (by omega) hi
  refine ⟨?_, ?_, ?_⟩
  · have := Int.ediv_nonneg h0 (by decide : (0 : Int) ≤ 100); omega
  · have := Int.ediv_le_ediv (by decide : (0 : Int) < 100) hle; omega
  · have := Int.ediv_le_ediv (by decide : (0 : Int) < 100) (Int.le_trans hle hle2)
    rw [Int.mul_ediv_cancel _ (by decide : (100 : Int) ≠ 0)] at this; omega

/-- PROPERTY (re-submission when due): at every poll at or after the assigned time (cooldown + buffer passed) the signal is
    submitted, whatever the new price is — except that an UNAVAILABLE price waits for the last FixedIntervalOffset seconds
    before the interval runs out, and is submitted at every poll from then on. -/
theorem resubmits_when_due (cooldown : Int) (h dpOffset dpStart : Nat) (f : Feed) (o : OldPrice) (new : NewPrice) (now : Int)
    (hc : now ≥ o.ts + cooldown + timeBuffer) (ha : now ≥ assignedTime h f.interval o.ts dpOffset dpStart)
    (hu : new.status ≠ statusUnavailable ∨ now > o.ts + f.interval - fixedIntervalOffset) :
    decideSubmit cooldown h dpOffset dpStart (some f) (some o) new now = true := by
  unfold decideSubmit shouldUpdate nonUrgentUnavailable
  simp only [Option.map, Option.getD]
  rw [if_neg (by omega), if_pos ha]
  rcases hu with hu | hu
  · rw [if_neg hu]; rfl
  · by_cases c : new.status = statusUnavailable
    · rw [if_pos c]; simp [hu]
    · rw [if_neg c]; rfl

/-- PROPERTY (prompt on change): once the cooldown (+ buffer) has passed, a status change or a move of at least the feed's
    deviation makes the signaller submit at that very poll (an UNAVAILABLE new status again only near the deadline). -/
theorem prompt_on_change (cooldown : Int) (h dpOffset dpStart : Nat) (f : Feed) (o : OldPrice) (new : NewPrice) (now : Int)
    (hc : now ≥ o.ts + cooldown + timeBuffer)
    (hch : o.status ≠ new.status ∨ isDeviated f.deviationBP o.price new.price = true)
    (hu : new.status ≠ statusUnavailable ∨ now > o.ts + f.interval - fixedIntervalOffset) :
    decideSubmit cooldown h dpOffset dpStart (some f) (some o) new now = true := by
  unfold decideSubmit shouldUpdate nonUrgentUnavailable
  simp only [Option.map, Option.getD]
  rw [if_neg (by omega)]
  have hv : (if now ≥ assignedTime h f.interval o.ts dpOffset dpStart then true
      else if o.status ≠ new.status then true else isDeviated f.deviationBP o.price new.price) = true := by
    by_cases a : now ≥ assignedTime h f.interval o.ts dpOffset dpStart
    · rw [if_pos a]
    · rw [if_neg a]
      rcases hch with c | c
      · rw [if_pos c]
      · by_cases d : o.status ≠ new.status
        · rw [if_pos d]
        · rw [if_neg d]; exact c
  rw [hv]
  rcases hu with hu | hu
  · rw [if_neg hu]; rfl
  · by_cases c : new.status = statusUnavailable
    · rw [if_pos c]; simp [hu]
    · rw [if_neg c]; rfl

/-- the deviation test is the exact one: |new − old|·10000 ≥ bp·old -/
theorem deviation_exact (bp : Int) (old new : Nat) (ho : old ≠ 0) :
    isDeviated bp old new = true ↔ bp * (old : Int) ≤ ((if new ≥ old then new - old else old - new : Nat) : Int) * 10000 := by
  unfold isDeviated; rw [if_neg ho, decide_eq_true_eq]

/-- quotient test without division: `k ≤ n / m ↔ k·m ≤ n` lifted to the integer form of the model -/
theorem le_div_iff_int (k n m : Nat) (hm : 0 < m) : (k ≤ n / m) ↔ ((k : Int) * (m : Int) ≤ (n : Int)) := by
  rw [Nat.le_div_iff_mul_le hm]
  constructor
  · intro h; have : ((k * m : Nat) : Int) ≤ (n : Int) := Int.ofNat_le.mpr h; rwa [Int.natCast_mul] at this
  · intro h; apply Int.ofNat_le.mp; rw [Int.natCast_mul]; exact h

/-- the Go routine (128-bit integer arithmetic, `W` = 2^64) IS the exact test, for every pair of prices below `W` and every
    threshold below `W` -/
theorem go_deviation_is_exact_gen (W : Nat) (_hW : 0 < W) (bp : Int) (old d : Nat) (h0 : old ≠ 0) (hb : bp ≤ (W : Int)) :
    (if d * 10000 / W ≥ old then true
     else decide (bp ≤ 0) || decide (bp.toNat ≤ (d * 10000 / W * W + d * 10000 % W) / old)) =
    decide (bp * (old : Int) ≤ ((d : Nat) : Int) * 10000) := by
  have hre : d * 10000 / W * W + d * 10000 % W = d * 10000 := by
    have := Nat.div_add_mod (d * 10000) W; rw [Nat.mul_comm] at this; exact this
  have hold : 0 < old := Nat.pos_of_ne_zero h0
  have hcast : ((d : Nat) : Int) * 10000 = ((d * 10000 : Nat) : Int) := by rw [Int.natCast_mul]; rfl
  rw [hcast]
  by_cases hbn : bp ≤ 0
  · have hneg : bp * (old : Int) ≤ 0 := Int.mul_nonpos_of_nonpos_of_nonneg hbn (Int.natCast_nonneg _)
    have hpos : (0 : Int) ≤ ((d * 10000 : Nat) : Int) := Int.natCast_nonneg _
    have : bp * (old : Int) ≤ ((d * 10000 : Nat) : Int) := Int.le_trans hneg hpos
    simp only [hbn, this, decide_true, Bool.true_or, ite_self]
  · obtain ⟨k, rfl⟩ : ∃ k : Nat, bp = (k : Int) := ⟨bp.toNat, by omega⟩
    have hk : k ≤ W := by exact_mod_cast hb
    simp only [hbn, decide_false, Bool.false_or, Int.toNat_natCast]
    by_cases hhi : d * 10000 / W ≥ old
    · rw [if_pos hhi]
      symm
      rw [decide_eq_true_eq]
      have h1 : old * W ≤ d * 10000 := Nat.le_trans (Nat.mul_le_mul_right W hhi) (Nat.div_mul_le_self _ _)
      have h2 : k * old ≤ old * W := by rw [Nat.mul_comm old W]; exact Nat.mul_le_mul_right old hk
      have h3 : ((k * old : Nat) : Int) ≤ ((d * 10000 : Nat) : Int) := Int.ofNat_le.mpr (Nat.le_trans h2 h1)
      rwa [Int.natCast_mul] at h3
    · rw [if_neg hhi, hre]
      exact decide_eq_decide.mpr (le_div_iff_int k (d * 10000) old hold)

theorem go_deviation_is_exact (bp : Int) (old new : Nat) (hb : bp ≤ 18446744073709551616) :
    isDeviatedGo bp old new = isDeviated bp old new := by
  unfold isDeviatedGo isDeviated
  by_cases h0 : old = 0
  · simp [h0]
  · rw [if_neg h0, if_neg h0]
    have hdiff : (if new < old then old - new else new - old) = (if new ≥ old then new - old else old - new) := by
      by_cases c : new < old
      · rw [if_pos c, if_neg (by omega)]
      · rw [if_neg c, if_pos (by omega)]
    simp only [hdiff]
    exact go_deviation_is_exact_gen 18446744073709551616 (by decide) bp old _ h0 hb

/-- nothing is submitted before the cooldown + buffer has passed, and nothing for signals outside the current feeds -/
theorem never_early (cooldown : Int) (h dpOffset dpStart : Nat) (f : Feed) (o : OldPrice) (new : NewPrice) (now : Int)
    (hc : now < o.ts + cooldown + timeBuffer) : decideSubmit cooldown h dpOffset dpStart (some f) (some o) new now = false := by
  unfold decideSubmit shouldUpdate; simp only []; rw [if_pos hc]; rfl

/-! ### in flight -/
/-- no signal is in two unfinished submissions, and exactly the signals of unfinished submissions are marked pending -/
def FInv (s : Flight) : Prop := s.inFlight.flatten.Nodup ∧ ∀ x, x ∈ s.pending ↔ x ∈ s.inFlight.flatten

theorem signalRound_inv (s : Flight) (all : List String) (chosen : String → Bool) (hall : all.Nodup) (h : FInv s) :
    FInv (signalRound s all chosen) := by
  unfold signalRound
  simp only []
  split
  · exact h
  · obtain ⟨h1, h2⟩ := h
    have hc : ∀ x ∈ (all.filter fun x => !s.pending.contains x).filter chosen, x ∉ s.pending := by
      intro x hx; rw [List.mem_filter, List.mem_filter] at hx; simpa using hx.1.2
    have hcn : ((all.filter fun x => !s.pending.contains x).filter chosen).Nodup := (hall.filter _).filter _
    constructor
    · simp only [List.flatten_append, List.flatten_cons, List.flatten_nil, List.append_nil]
      rw [List.nodup_append]
      refine ⟨h1, hcn, ?_⟩
      intro a ha b hb hab
      subst hab
      exact hc a hb ((h2 a).mpr ha)
    · intro x
      simp only [List.flatten_append, List.flatten_cons, List.flatten_nil, List.append_nil, List.mem_append]
      rw [h2 x]

theorem flatten_erase_of_nodup (l : List (List String)) (sub : List String) (hs : sub ∈ l) (hn : l.flatten.Nodup) (hne : sub ≠ []) :
    ∀ x, x ∈ (l.erase sub).flatten ↔ (x ∈ l.flatten ∧ x ∉ sub) := by
  induction l with
  | nil => cases hs
  | cons a rest ih =>
    intro x
    simp only [List.flatten_cons] at hn
    rw [List.nodup_append] at hn
    obtain ⟨na, nr, disj⟩ := hn
    by_cases e : a = sub
    · subst e
      rw [List.erase_cons_head]
      simp only [List.flatten_cons, List.mem_append]
      constructor
      · intro hx; exact ⟨Or.inr hx, fun hxa => disj x hxa x hx rfl⟩
      · rintro ⟨hx | hx, hn⟩
        · exact absurd hx hn
        · exact hx
    · have hs' : sub ∈ rest := by
        rcases List.mem_cons.mp hs with h | h
        · exact absurd h.symm e
        · exact h
      rw [List.erase_cons_tail (by simpa using e)]
      simp only [List.flatten_cons, List.mem_append]
      rw [ih hs' nr x]
      constructor
      · rintro (hx | ⟨hx, hn⟩)
        · refine ⟨Or.inl hx, fun hxs => ?_⟩
          exact disj x hx x (List.mem_flatten.mpr ⟨sub, hs', hxs⟩) rfl
        · exact ⟨Or.inr hx, hn⟩
      · rintro ⟨hx | hx, hn⟩
        · exact Or.inl hx
        · exact Or.inr ⟨hx, hn⟩

theorem nodup_flatten_erase (l : List (List String)) (sub : List String) (hn : l.flatten.Nodup) : (l.erase sub).flatten.Nodup := by
  induction l with
  | nil => exact hn
  | cons a rest ih =>
    simp only [List.flatten_cons] at hn
    rw [List.nodup_append] at hn
    obtain ⟨na, nr, disj⟩ := hn
    by_cases e : a = sub
    · subst e; rw [List.erase_cons_head]; exact nr
    · rw [List.erase_cons_tail (by simpa using e)]
      simp only [List.flatten_cons]
      rw [List.nodup_append]
      refine ⟨na, ih nr, fun x hx y hy hxy => ?_⟩
      obtain ⟨t, ht, hyt⟩ := List.mem_flatten.mp hy
      exact disj x hx y (List.mem_flatten.mpr ⟨t, List.mem_of_mem_erase ht, hyt⟩) hxy

/-- PROPERTY (released whatever the outcome): finishing a submission — success, broadcast error, rejected transaction or
    time-out alike — releases exactly its signals and keeps the invariant. -/
theorem finish_inv (s : Flight) (sub : List String) (hs : sub ∈ s.inFlight) (hne : sub ≠ []) (h : FInv s) : FInv (finish s sub) := by
  obtain ⟨h1, h2⟩ := h
  unfold finish FInv
  simp only []
  have hfl := flatten_erase_of_nodup s.inFlight sub hs h1 hne
  constructor
  · exact nodup_flatten_erase s.inFlight sub h1
  · intro x
    rw [List.mem_filter, hfl x, h2 x]
    simp

/-- PROPERTY (not twice concurrently, always released) over every history: starting with nothing in flight, after any
    interleaving of signaller rounds and submission completions no signal is in two unfinished submissions, and when every
    submission has finished nothing is left pending. -/
inductive FOp
  | round (all : List String) (chosen : String → Bool)
  | finish (sub : List String)

def fstep (s : Flight) : FOp → Flight
  | .round all chosen => if all.Nodup then signalRound s all chosen else s
  | .finish sub => if sub ∈ s.inFlight ∧ sub ≠ [] then finish s sub else s

theorem flight_invariant (ops : List FOp) : FInv (ops.foldl fstep { pending := [], inFlight := [] }) := by
  have base : FInv { pending := [], inFlight := [] } := ⟨List.nodup_nil, fun x => by simp⟩
  generalize ({ pending := [], inFlight := [] } : Flight) = s at base
  induction ops generalizing s with
  | nil => exact base
  | cons o os ih =>
    apply ih
    cases o with
    | round all chosen =>
      simp only [fstep]; split
      · rename_i hn; exact signalRound_inv s all chosen hn base
      · exact base
    | finish sub =>
      simp only [fstep]; split
      · rename_i hh; exact finish_inv s sub hh.1 hh.2 base
      · exact base

theorem all_finished_nothing_pending (s : Flight) (h : FInv s) (he : s.inFlight = []) : s.pending = [] := by
  obtain ⟨_, h2⟩ := h
  rw [he] at h2
  cases hp : s.pending with
  | nil => rfl
  | cons a b => have := (h2 a).mp (by rw [hp]; exact List.mem_cons_self ..); simp at this

/-! non-vacuity -/
example : decideSubmit 30 7 30 50 (some ⟨60, 50⟩) (some ⟨3, 1000, 100⟩) ⟨3, 1005, ⟩ 140 = true := by decide
example : decideSubmit 30 7 30 50 (some ⟨600, 50⟩) (some ⟨3, 1000, 100⟩) ⟨3, 1004, ⟩ 140 = false := by decide
example : assignedTime 7 60 100 30 50 = 134 := by decide

/-! ## against the chain's handler itself (Model/FeedsSubmit.lean, tied to `msgServer.SubmitSignalPrices` under C15) -/

/-- the validator's stored price for a signal, as the signaller reads it from the chain -/
def oldOf (v : BandVerif.FeedsSubmit.VP) : OldPrice := { status := v.status, price := v.price, ts := v.ts }

/-- PROPERTY (only what the chain accepts — against the handler): a batch of decided prices for distinct current signals is
    accepted by `SubmitSignalPrices` at any block whose time is not more than TimeBuffer seconds behind the signaller's
    clock, for EVERY stored price list and feed order, provided the validator is required to send and the message
    timestamp is within the allowed discrepancy (the two checks the submitter leaves to the chain) -/
theorem decided_batch_accepted_by_handler (cooldown : Int) (h dpOffset dpStart : Nat) (feeds : List String) (feedOf : String → Option Feed)
    (prev : List BandVerif.FeedsSubmit.VP) (msg : List (String × Nat × Nat)) (now blockTime msgTs height disc : Int)
    (hnd : (msg.map (·.1)).Nodup) (hsz : msg.length ≤ feeds.length)
    (hts : BandVerif.FeedsSubmit.absI (msgTs - blockTime) ≤ disc) (hb : blockTime ≥ now - timeBuffer)
    (hdec : ∀ m ∈ msg, ∃ i, BandVerif.FeedsSubmit.idxOf feeds m.1 = some i ∧
      decideSubmit cooldown h dpOffset dpStart (feedOf m.1) (some (oldOf ((BandVerif.FeedsSubmit.fill feeds prev).getD i BandVerif.FeedsSubmit.VP.zero)))
        ⟨m.2.1, m.2.2⟩ now = true) :
    ∃ out, BandVerif.FeedsSubmit.submit feeds prev msg msgTs blockTime height cooldown disc true = .ok out := by
  apply BandVerif.FeedsSubmit.admissible_message_accepted feeds prev msg msgTs blockTime height cooldown disc hsz hts hnd
  intro m hm
  obtain ⟨i, hi, hd⟩ := hdec m hm
  refine ⟨i, hi, ?_⟩
  have := decision_accepted_by_chain cooldown h dpOffset dpStart (feedOf m.1) _ _ now blockTime hd hb
  unfold chainAccepts at this
  simp only [Bool.and_eq_true, Bool.or_eq_true, oldOf] at this
  rcases this.2 with a | b
  · left; simpa using a
  · right; exact of_decide_eq_true b

/-- what one query does to the shared maximum: it never decreases, and a returned height IS the new maximum -/
theorem queryStep_spec (maxH : Nat) (answers : List (Option Nat)) :
    maxH ≤ (queryStep maxH answers).1 ∧ ∀ h, (queryStep maxH answers).2 = some h → h = (queryStep maxH answers).1 ∧ maxH ≤ h := by
  unfold queryStep
  simp only []
  split
  · exact ⟨Nat.le_refl _, fun h hh => by cases hh⟩
  · split
    · exact ⟨Nat.le_refl _, fun h hh => by cases hh⟩
    · rename_i h2
      refine ⟨by omega, fun h hh => ?_⟩
      simp only [Option.some.injEq] at hh
      subst hh
      exact ⟨rfl, by omega⟩

/-- PROPERTY (grogu never decides on an older chain state than one it has already seen): over ANY run of multi-node queries
    — any number of nodes, any of them lagging or down at any time — the heights of the answers the helper returns never
    decrease, and none is below the maximum the run started with.  (Seed C20-9 replaces load-compare-store by a swap:
    a refused stale answer lowers the maximum and the next stale answer is returned.) -/
theorem chain_view_never_goes_back (maxH : Nat) (calls : List (List (Option Nat))) :
    (queryRun maxH calls).Pairwise (· ≤ ·) ∧ ∀ h ∈ queryRun maxH calls, maxH ≤ h := by
  induction calls generalizing maxH with
  | nil => exact ⟨List.Pairwise.nil, fun h hh => by cases hh⟩
  | cons a rest ih =>
    obtain ⟨s1, s2⟩ := queryStep_spec maxH a
    unfold queryRun
    cases hq : queryStep maxH a with
    | mk m r =>
      rw [hq] at s1 s2
      simp only [] at s1 s2
      obtain ⟨i1, i2⟩ := ih m
      cases r with
      | none => exact ⟨i1, fun h hh => Nat.le_trans s1 (i2 h hh)⟩
      | some h0 =>
        obtain ⟨e, le⟩ := s2 h0 rfl
        subst e
        refine ⟨List.Pairwise.cons (fun x hx => i2 x hx) i1, ?_⟩
        intro h hh
        rcases List.mem_cons.mp hh with e | e
        · subst e; exact le
        · exact Nat.le_trans s1 (i2 h e)

example : queryRun 0 [[some 101, some 100], [none, some 100], [none, some 100], [some 102, none]] = [101, 102] := by decide

end C20
