/-
C17 — tunnel deposits are fully backed, owner-withdrawable, and gate activation.
Model: Model/TunnelDeposit.lean; lemmas: Lemmas/TunnelDeposit.lean.
Amounts are compared on the denoms in play (`s.denoms`); accounts in play are `s.accts`.
-/
import BandVerif.Lemmas.TunnelDeposit

namespace C17
open BandVerif.TunnelDeposit

/-- each tunnel's total deposit equals the sum of its depositors' recorded deposits -/
def TotalEq (s : State) : Prop :=
  ∀ tid, ∀ d ∈ s.denoms, tot s tid d = (s.accts.map (fun b => dep s tid b d)).sum

/-- PROPERTY: an accepted deposit keeps `total = Σ deposits` for every tunnel and denom, debits the
    depositor and credits the module account by exactly the amount. -/
theorem deposit_preserves_total (s : State) (tid a : Nat) (amt : Coins) (hn : s.accts.Nodup) (ha : a ∈ s.accts)
    (hinv : TotalEq s) (h : (depositOp s tid a amt).2 = Err.ok) :
    TotalEq (depositOp s tid a amt).1 ∧
    (∀ d, (depositOp s tid a amt).1.moduleBal d = s.moduleBal d + amt d) ∧
    (∀ d, (depositOp s tid a amt).1.bal a d = s.bal a d - amt d) ∧ (∀ d ∈ s.denoms, amt d ≤ s.bal a d) := by
  obtain ⟨_, hb, e1, e2, e3, e4, e5, e6, _, _, _, _, e11, e12, _⟩ := deposit_effect s tid a amt h
  refine ⟨?_, e5, e6, hb⟩
  intro i d hd
  rw [e11] at hd; rw [e12]
  by_cases hi : i = tid
  · subst hi
    rw [e1, hinv i d hd]
    exact (sum_map_add_at s.accts (fun b => dep s i b d) _ a (amt d) hn ha
      (fun b hb' => e4 i b d (Or.inr hb')) (e3 d)).symm
  · rw [e2 i d hi, hinv i d hd]
    exact (sum_map_congr s.accts _ _ (fun b _ => e4 i b d (Or.inl hi))).symm

/-- PROPERTY: a depositor can withdraw at most their own recorded deposit and receives exactly the
    withdrawn amount; `total = Σ deposits` is kept; the module account pays exactly the amount. -/
theorem withdraw_bounded_exact (s : State) (tid a : Nat) (amt : Coins) (hn : s.accts.Nodup) (ha : a ∈ s.accts)
    (hinv : TotalEq s) (h : (withdrawOp s tid a amt).2 = Err.ok) :
    (∀ d ∈ s.denoms, amt d ≤ dep s tid a d) ∧
    (∀ d, (withdrawOp s tid a amt).1.bal a d = s.bal a d + amt d) ∧
    (∀ d, (withdrawOp s tid a amt).1.moduleBal d = s.moduleBal d - amt d) ∧
    (∀ d ∈ s.denoms, dep (withdrawOp s tid a amt).1 tid a d = dep s tid a d - amt d) ∧
    TotalEq (withdrawOp s tid a amt).1 := by
  obtain ⟨t, dd, ht, hd, hle, hst⟩ := withdraw_ok s tid a amt h
  obtain ⟨w1, w2, w3, w4, w5, w6, w7, w8, w9, w10, w11, w12, w13, w14⟩ := withdrawn_effect s tid a amt t dd ht hd
  have hle' : ∀ d ∈ s.denoms, amt d ≤ dep s tid a d := fun d hdm => by simp [dep, hd]; exact hle d hdm
  -- facts that hold in both branches
  have key : ∀ s', (s' = withdrawn s tid a amt t dd ∨ s' = deactivateTunnel (withdrawn s tid a amt t dd) tid) →
      (∀ i d, tot s' i d = tot (withdrawn s tid a amt t dd) i d) ∧ s'.deposits = (withdrawn s tid a amt t dd).deposits ∧
      s'.moduleBal = (withdrawn s tid a amt t dd).moduleBal ∧ s'.bal = (withdrawn s tid a amt t dd).bal ∧
      s'.denoms = s.denoms ∧ s'.accts = s.accts := by
    intro s' hs'
    rcases hs' with rfl | rfl
    · exact ⟨fun _ _ => rfl, rfl, rfl, rfl, w10, w11⟩
    · obtain ⟨f1, f2, f3, f4, _, _, f7, f8, _, _⟩ := deactivateTunnel_frame (withdrawn s tid a amt t dd) tid
      exact ⟨f1, f2, f3, f4, f7.trans w10, f8.trans w11⟩
  have hcase : (withdrawOp s tid a amt).1 = withdrawn s tid a amt t dd ∨
      (withdrawOp s tid a amt).1 = deactivateTunnel (withdrawn s tid a amt t dd) tid := by
    rw [hst]; split
    · exact Or.inr rfl
    · exact Or.inl rfl
  obtain ⟨k1, k2, k3, k4, k5, k6⟩ := key _ hcase
  have hdep : ∀ i b d, dep (withdrawOp s tid a amt).1 i b d = dep (withdrawn s tid a amt t dd) i b d := by
    intro i b d; unfold dep; rw [k2]
  refine ⟨hle', fun d => by rw [k4]; exact w6 d, fun d => by rw [k3]; exact w5 d,
    fun d hdm => by rw [hdep]; exact w3 d hdm, ?_⟩
  intro i d hdm
  rw [k5] at hdm; rw [k6, k1]
  have hfun : (fun b => dep (withdrawOp s tid a amt).1 i b d) = fun b => dep (withdrawn s tid a amt t dd) i b d :=
    funext fun b => hdep i b d
  rw [hfun]
  by_cases hi : i = tid
  · subst hi
    rw [w1, hinv i d hdm]
    have hsum := sum_map_sub_at s.accts (fun b => dep s i b d) (fun b => dep (withdrawn s i a amt t dd) i b d) a (amt d) hn ha
      (fun b hb' => w4 i b d (Or.inr hb')) (by rw [w3 d hdm]; have := hle' d hdm; omega)
    omega
  · rw [w2 i d hi, hinv i d hdm]
    exact (sum_map_congr s.accts _ _ (fun b _ => w4 i b d (Or.inl hi))).symm

/-- PROPERTY: a withdrawal that takes an ACTIVE tunnel's total below the minimum deposit deactivates it
    (flag cleared and id removed from the active index); otherwise the activity is untouched. -/
theorem withdraw_deactivates_below_min (s : State) (tid a : Nat) (amt : Coins) (t : Tunnel)
    (ht : s.tunnels tid = some t) (h : (withdrawOp s tid a amt).2 = Err.ok) :
    ∃ t', (withdrawOp s tid a amt).1.tunnels tid = some t' ∧ t'.creator = t.creator ∧
      t'.totalDeposit = subC t.totalDeposit amt ∧
      t'.isActive = (t.isActive && geAll s (subC t.totalDeposit amt) s.minDeposit) ∧
      (withdrawOp s tid a amt).1.activeIdx =
        if t.isActive && !geAll s (subC t.totalDeposit amt) s.minDeposit then s.activeIdx.filter (· ≠ tid) else s.activeIdx := by
  obtain ⟨t0, dd, ht0, hd, _, hst⟩ := withdraw_ok s tid a amt h
  have : t0 = t := by rw [ht] at ht0; exact (Option.some.inj ht0).symm
  subst this
  obtain ⟨_, _, _, _, _, _, _, _, _, _, _, w12, _, w14⟩ := withdrawn_effect s tid a amt t0 dd ht hd
  rw [hst]
  by_cases hb : (t0.isActive && !geAll s (subC t0.totalDeposit amt) s.minDeposit) = true
  · simp only [hb, if_true]
    obtain ⟨_, _, _, _, _, _, _, _, f9, f10⟩ := deactivateTunnel_frame (withdrawn s tid a amt t0 dd) tid
    simp only [Bool.and_eq_true, Bool.not_eq_true'] at hb
    refine ⟨{ creator := t0.creator, isActive := false, totalDeposit := subC t0.totalDeposit amt },
      by rw [f10]; simp [w14], rfl, rfl, by simp [hb.1, hb.2], ?_⟩
    rw [f9, w14, w12]; simp
  · have hb' : (t0.isActive && !geAll s (subC t0.totalDeposit amt) s.minDeposit) = false := by simpa using hb
    simp only [hb', Bool.false_eq_true, if_false]
    refine ⟨_, w14, rfl, rfl, ?_, w12⟩
    simp only [Bool.and_eq_false_imp, Bool.not_eq_false'] at hb'
    cases hta : t0.isActive with
    | false => simp
    | true => simp [hb' hta]

/-- PROPERTY (activation gate): MsgActivate succeeds only for the tunnel's creator, only when the tunnel
    is inactive, and only while the total deposit covers the minimum; it then sets the flag and the index.
    Anything else is rejected without a state change. -/
theorem activate_gate (s : State) (tid sender : Nat) :
    ((activateOp s tid sender).2 = Err.ok →
        ∃ t, s.tunnels tid = some t ∧ t.creator = sender ∧ t.isActive = false ∧
          geAll s t.totalDeposit s.minDeposit = true ∧
          (activateOp s tid sender).1.tunnels tid = some { t with isActive := true } ∧
          tid ∈ (activateOp s tid sender).1.activeIdx) ∧
    ((activateOp s tid sender).2 ≠ Err.ok → (activateOp s tid sender).1 = s) := by
  unfold activateOp
  cases ht : s.tunnels tid with
  | none => simp
  | some t =>
    simp only []
    by_cases hc : t.creator ≠ sender
    · simp [hc]
    · by_cases ha : t.isActive = true
      · simp [hc, ha]
      · have hc' : t.creator = sender := by simpa using hc
        simp only [hc, ha, if_false]
        unfold activateTunnel
        simp only [ht]
        by_cases hg : geAll s t.totalDeposit s.minDeposit = true
        · simp only [hg, Bool.not_true, Bool.false_eq_true, if_false]
          refine ⟨fun _ => ⟨t, rfl, hc', by simpa using ha, hg, by simp [setTunnel], ?_⟩, fun h => absurd rfl h⟩
          unfold insertSorted
          split
          · assumption
          · exact (List.mergeSort_perm _ _).mem_iff.mpr (by simp)
        · simp [hg]

/-- PROPERTY: only the creator can deactivate, and only an active tunnel. -/
theorem deactivate_gate (s : State) (tid sender : Nat) :
    ((deactivateOp s tid sender).2 = Err.ok → ∃ t, s.tunnels tid = some t ∧ t.creator = sender ∧ t.isActive = true ∧
        tid ∉ (deactivateOp s tid sender).1.activeIdx) ∧
    ((deactivateOp s tid sender).2 ≠ Err.ok → (deactivateOp s tid sender).1 = s) := by
  unfold deactivateOp
  cases ht : s.tunnels tid with
  | none => simp
  | some t =>
    simp only []
    by_cases hc : t.creator ≠ sender
    · simp [hc]
    · by_cases ha : t.isActive = true
      · have hc' : t.creator = sender := by simpa using hc
        simp only [hc, ha, if_false, Bool.not_true, Bool.false_eq_true]
        refine ⟨fun _ => ⟨t, rfl, hc', ha, ?_⟩, fun h => absurd rfl h⟩
        obtain ⟨_, _, _, _, _, _, _, _, f9, _⟩ := deactivateTunnel_frame s tid
        rw [f9]; simp [ht]
      · simp [hc, ha]

/-- rejected deposits / withdrawals change nothing -/
theorem rejected_changes_nothing (s : State) (tid a : Nat) (amt : Coins) :
    ((depositOp s tid a amt).2 ≠ Err.ok → (depositOp s tid a amt).1 = s) ∧
    ((withdrawOp s tid a amt).2 ≠ Err.ok → (withdrawOp s tid a amt).1 = s) :=
  ⟨deposit_err_state s tid a amt, withdraw_err_state s tid a amt⟩

/-! non-vacuity -/
def demo : State :=
  { tunnels := fun i => if i = 1 then some ⟨0, true, fun d => if d = "uband" then 120 else 0⟩ else none,
    deposits := fun i a => if i = 1 ∧ a = 0 then some (fun d => if d = "uband" then 70 else 0)
                           else if i = 1 ∧ a = 1 then some (fun d => if d = "uband" then 50 else 0) else none,
    activeIdx := [1], count := 1, bal := fun _ _ => 10, moduleBal := fun d => if d = "uband" then 120 else 0,
    minDeposit := fun d => if d = "uband" then 100 else 0, denoms := ["uband"], accts := [0, 1, 2] }
example : TotalEq demo := by
  intro tid d hd; simp [demo] at hd; subst hd
  by_cases h : tid = 1 <;> simp [tot, dep, demo, h]
example : (withdrawOp demo 1 1 (fun d => if d = "uband" then 21 else 0)).2 = Err.ok := by decide
example : ((withdrawOp demo 1 1 (fun d => if d = "uband" then 21 else 0)).1.activeIdx) = [] := by decide
example : (withdrawOp demo 1 1 (fun d => if d = "uband" then 51 else 0)).2 = Err.insufficientDeposit := by decide
example : (activateOp demo 1 1).2 = Err.invalidCreator := by decide

end C17
