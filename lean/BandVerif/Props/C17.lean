/-
C17 — tunnel deposits are fully backed, owner-withdrawable, and gate activation.
Model: Model/TunnelDeposit.lean; lemmas: Lemmas/TunnelDeposit.lean.
Amounts are compared on the denoms in play (`s.denoms`); accounts in play are `s.accts`.
-/
import BandVerif.Lemmas.TunnelDeposit

namespace C17
open BandVerif.TunnelDeposit

/-- each tunnel's total deposit equals the sum of its depositors' recorded deposits -/
def TotalEq (s : State) : Prop :=
  ∀ tid, ∀ d ∈ s.denoms, tot s tid d = (s.accts.map (fun b => dep s tid b d)).sum

/-- PROPERTY: an accepted deposit keeps `total = Σ deposits` for every tunnel and denom, debits the
    depositor and credits the module account by exactly the amount. -/
theorem deposit_preserves_total (s : State) (tid a : Nat) (amt : Coins) (hn : s.accts.Nodup) (ha : a ∈ s.accts)
    (hinv : TotalEq s) (h : (depositOp s tid a amt).2 = Err.ok) :
    TotalEq (depositOp s tid a amt).1 ∧
    (∀ d, (depositOp s tid a amt).1.moduleBal d = s.moduleBal d + amt d) ∧
    (∀ d, (depositOp s tid a amt).1.bal a d = s.bal a d - amt d) ∧ (∀ d ∈ s.denoms, amt d ≤ s.bal a d) := by
  obtain ⟨_, hb, e1, e2, e3, e4, e5, e6, _, _, _, _, e11, e12, _⟩ := deposit_effect s tid a amt h
  refine ⟨?_, e5, e6, hb⟩
  intro i d hd
  rw [e11] at hd; rw [e12]
  by_cases hi : i = tid
  · subst hi
    rw [e1, hinv i d hd]
    exact (sum_map_add_at s.accts (fun b => dep s i b d) _ a (amt d) hn ha
      (fun b hb' => e4 i b d (Or.inr hb')) (e3 d)).symm
  · rw [e2 i d hi, hinv i d hd]
    exact (sum_map_congr s.accts _ _ (fun b _ => e4 i b d (Or.inl hi))).symm

/-- PROPERTY: a depositor can withdraw at most their own recorded deposit and receives exactly the
    withdrawn amount; `total = Σ deposits` is kept; the module account pays exactly the amount. -/
theorem withdraw_bounded_exact (s : State) (tid a : Nat) (amt : Coins) (hn : s.accts.Nodup) (ha : a ∈ s.accts)
    (hinv : TotalEq s) (h : (withdrawOp s tid a amt).2 = Err.ok) :
    (∀ d ∈ s.denoms, amt d ≤ dep s tid a d) ∧
    (∀ d, (withdrawOp s tid a amt).1.bal a d = s.bal a d + amt d) ∧
    (∀ d, (withdrawOp s tid a amt).1.moduleBal d = s.moduleBal d - amt d) ∧
    (∀ d ∈ s.denoms, dep (withdrawOp s tid a amt).1 tid a d = dep s tid a d - amt d) ∧
    TotalEq (withdrawOp s tid a amt).1 := by
  obtain ⟨t, dd, ht, hd, hle, hst⟩ := withdraw_ok s tid a amt h
  obtain ⟨w1, w2, w3, w4, w5, w6, w7, w8, w9, w10, w11, w12, w13, w14⟩ := withdrawn_effect s tid a amt t dd ht hd
  have hle' : ∀ d ∈ s.denoms, amt d ≤ dep s tid a d := fun d hdm => by simp [dep, hd]; exact hle d hdm
  -- facts that hold in both branches
  have key : ∀ s', (s' = withdrawn s tid a amt t dd ∨ s' = deactivateTunnel (withdrawn s tid a amt t dd) tid) →
      (∀ i d, tot s' i d = tot (withdrawn s tid a amt t dd) i d) ∧ s'.deposits = (withdrawn s tid a amt t dd).deposits ∧
      s'.moduleBal = (withdrawn s tid a amt t dd).moduleBal ∧ s'.bal = (withdrawn s tid a amt t dd).bal ∧
      s'.denoms = s.denoms ∧ s'.accts = s.accts := by
    intro s' hs'
    rcases hs' with rfl | rfl
    · exact ⟨fun _ _ => rfl, rfl, rfl, rfl, w10, w11⟩
    · obtain ⟨f1, f2, f3, f4, _, _, f7, f8, _, _⟩ := deactivateTunnel_frame (withdrawn s tid a amt t dd) tid
      exact ⟨f1, f2, f3, f4, f7.trans w10, f8.trans w11⟩
  have hcase : (withdrawOp s tid a amt).1 = withdrawn s tid a amt t dd ∨
      (withdrawOp s tid a amt).1 = deactivateTunnel (withdrawn s tid a amt t dd) tid := by
    rw [hst]; split
    · exact Or.inr rfl
    · exact Or.inl rfl
  obtain ⟨k1, k2, k3, k4, k5, k6⟩ := key _ hcase
  have hdep : ∀ i b d, dep (withdrawOp s tid a amt).1 i b d = dep (withdrawn s tid a amt t dd) i b d := by
    intro i b d; unfold dep; rw [k2]
  refine ⟨hle', fun d => by rw [k4]; exact w6 d, fun d => by rw [k3]; exact w5 d,
    fun d hdm => by rw [hdep]; exact w3 d hdm, ?_⟩
  intro i d hdm
  rw [k5] at hdm; rw [k6, k1]
  have hfun : (fun b => dep (withdrawOp s tid a amt).1 i b d) = fun b => dep (withdrawn s tid a amt t dd) i b d :=
    funext fun b => hdep i b d
  rw [hfun]
  by_cases hi : i = tid
  · subst hi
    rw [w1, hinv i d hdm]
    have hsum := sum_map_sub_at s.accts (fun b => dep s i b d) (fun b => dep (withdrawn s i a amt t dd) i b d) a (amt d) hn ha
      (fun b hb' => w4 i b d (Or.inr hb')) (by rw [w3 d hdm]; have := hle' d hdm; omega)
    omega
  · rw [w2 i d hi, hinv i d hdm]
    exact (sum_map_congr s.accts _ _ (fun b _ => w4 i b d (Or.inl hi))).symm

/-- PROPERTY: a withdrawal that takes an ACTIVE tunnel's total below the minimum deposit deactivates it
    (flag cleared and id removed from the active index); otherwise the activity is untouched. -/
theorem withdraw_deactivates_below_min (s : State) (tid a : Nat) (amt : Coins) (t : Tunnel)
    (ht : s.tunnels tid = some t) (h : (withdrawOp s tid a amt).2 = Err.ok) :
    ∃ t', (withdrawOp s tid a amt).1.tunnels tid = some t' ∧ t'.creator = t.creator ∧
      t'.totalDeposit = subC t.totalDeposit amt ∧
      t'.isActive = (t.isActive && geAll s (subC t.totalDeposit amt) s.minDeposit) ∧
      (withdrawOp s tid a amt).1.activeIdx =
        if t.isActive && !geAll s (subC t.totalDeposit amt) s.minDeposit then s.activeIdx.filter (· ≠ tid) else s.activeIdx := by
  obtain ⟨t0, dd, ht0, hd, _, hst⟩ := withdraw_ok s tid a amt h
  have : t0 = t := by rw [ht] at ht0; exact (Option.some.inj ht0).symm
  subst this
  obtain ⟨_, _, _, _, _, _, _, _, _, _, _, w12, _, w14⟩ := withdrawn_effect s tid a amt t0 dd ht hd
  rw [hst]
  by_cases hb : (t0.isActive && !geAll s (subC t0.totalDeposit amt) s.minDeposit) = true
  · simp only [hb, if_true]
    obtain ⟨_, _, _, _, _, _, _, _, f9, f10⟩ := deactivateTunnel_frame (withdrawn s tid a amt t0 dd) tid
    simp only [Bool.and_eq_true, Bool.not_eq_true'] at hb
    refine ⟨{ creator := t0.creator, isActive := false, totalDeposit := subC t0.totalDeposit amt },
      by rw [f10]; simp [w14], rfl, rfl, by simp [hb.1, hb.2], ?_⟩
    rw [f9, w14, w12]; simp
  · have hb' : (t0.isActive && !geAll s (subC t0.totalDeposit amt) s.minDeposit) = false := by simpa using hb
    simp only [hb', Bool.false_eq_true, if_false]
    refine ⟨_, w14, rfl, rfl, ?_, w12⟩
    simp only [Bool.and_eq_false_imp, Bool.not_eq_false'] at hb'
    cases hta : t0.isActive with
    | false => simp
    | true => simp [hb' hta]

/-- PROPERTY (activation gate): MsgActivate succeeds only for the tunnel's creator, only when the tunnel
    is inactive, and only while the total deposit covers the minimum; it then sets the flag and the index.
    Anything else is rejected without a state change. -/
theorem activate_gate (s : State) (tid sender : Nat) :
    ((activateOp s tid sender).2 = Err.ok →
        ∃ t, s.tunnels tid = some t ∧ t.creator = sender ∧ t.isActive = false ∧
          geAll s t.totalDeposit s.minDeposit = true ∧
          (activateOp s tid sender).1.tunnels tid = some { t with isActive := true } ∧
          tid ∈ (activateOp s tid sender).1.activeIdx) ∧
    ((activateOp s tid sender).2 ≠ Err.ok → (activateOp s tid sender).1 = s) := by
  unfold activateOp
  cases ht : s.tunnels tid with
  | none => simp
  | some t =>
    simp only []
    by_cases hc : t.creator ≠ sender
    · simp [hc]
    · by_cases ha : t.isActive = true
      · simp [hc, ha]
      · have hc' : t.creator = sender := by simpa using hc
        simp only [hc, ha, if_false]
        unfold activateTunnel
        simp only [ht]
        by_cases hg : geAll s t.totalDeposit s.minDeposit = true
        · simp only [hg, Bool.not_true, Bool.false_eq_true, if_false]
          refine ⟨fun _ => ⟨t, rfl, hc', by simpa using ha, hg, by simp [setTunnel], ?_⟩, fun h => absurd rfl h⟩
          unfold insertSorted
          split
          · assumption
          · exact (List.mergeSort_perm _ _).mem_iff.mpr (by simp)
        · simp [hg]

/-- PROPERTY: only the creator can deactivate, and only an active tunnel. -/
theorem deactivate_gate (s : State) (tid sender : Nat) :
    ((deactivateOp s tid sender).2 = Err.ok → ∃ t, s.tunnels tid = some t ∧ t.creator = sender ∧ t.isActive = true ∧
        tid ∉ (deactivateOp s tid sender).1.activeIdx) ∧
    ((deactivateOp s tid sender).2 ≠ Err.ok → (deactivateOp s tid sender).1 = s) := by
  unfold deactivateOp
  cases ht : s.tunnels tid with
  | none => simp
  | some t =>
    simp only []
    by_cases hc : t.creator ≠ sender
    · simp [hc]
    · by_cases ha : t.isActive = true
      · have hc' : t.creator = sender := by simpa using hc
        simp only [hc, ha, if_false, Bool.not_true, Bool.false_eq_true]
        refine ⟨fun _ => ⟨t, rfl, hc', ha, ?_⟩, fun h => absurd rfl h⟩
        obtain ⟨_, _, _, _, _, _, _, _, f9, _⟩ := deactivateTunnel_frame s tid
        rw [f9]; simp [ht]
      · simp [hc, ha]

/-- rejected deposits / withdrawals change nothing -/
theorem rejected_changes_nothing (s : State) (tid a : Nat) (amt : Coins) :
    ((depositOp s tid a amt).2 ≠ Err.ok → (depositOp s tid a amt).1 = s) ∧
    ((withdrawOp s tid a amt).2 ≠ Err.ok → (withdrawOp s tid a amt).1 = s) :=
  ⟨deposit_err_state s tid a amt, withdraw_err_state s tid a amt⟩


/-! ## whole histories -/

/-- one operation of a history (every message, accepted or rejected) -/
inductive Op
  | create (creator : Nat) (initial : Coins)
  | deposit (tid a : Nat) (amt : Coins)
  | withdraw (tid a : Nat) (amt : Coins)
  | activate (tid sender : Nat)
  | deactivate (tid sender : Nat)

def apply (s : State) : Op → State
  | .create c i => (createOp s c i).1
  | .deposit t a m => (depositOp s t a m).1
  | .withdraw t a m => (withdrawOp s t a m).1
  | .activate t x => (activateOp s t x).1
  | .deactivate t x => (deactivateOp s t x).1

/-- the accounts that move coins are among the accounts in play -/
def OpOk (accts : List Nat) : Op → Prop
  | .create c _ => c ∈ accts
  | .deposit _ a _ => a ∈ accts
  | .withdraw _ a _ => a ∈ accts
  | _ => True

/-- the history invariant: every tunnel's total is the sum of its depositors' records, and the module account holds
    exactly the sum of all tunnels' totals (this model has no packet fees: C08 adds them on top) -/
structure DInv (s : State) : Prop where
  total : TotalEq s
  backed : ∀ d ∈ s.denoms, s.moduleBal d = ((List.range (s.count + 1)).map (fun i => tot s i d)).sum
  beyond : ∀ i, s.count < i → s.tunnels i = none ∧ ∀ a, s.deposits i a = none
  nodup : s.accts.Nodup

theorem tot_le_count (s : State) (h : DInv s) (tid : Nat) (ht : (s.tunnels tid).isSome) : tid ∈ List.range (s.count + 1) := by
  rw [List.mem_range]
  cases Nat.lt_or_ge s.count tid with
  | inl hlt => rw [(h.beyond tid hlt).1] at ht; cases ht
  | inr hge => omega

theorem deposit_dinv (s : State) (tid a : Nat) (amt : Coins) (h : DInv s) (ha : a ∈ s.accts) :
    DInv (depositOp s tid a amt).1 ∧ (depositOp s tid a amt).1.accts = s.accts ∧ (depositOp s tid a amt).1.denoms = s.denoms := by
  by_cases hok : (depositOp s tid a amt).2 = Err.ok
  · obtain ⟨ht, _, e1, e2, _, e4, e5, _, _, _, e11, _, e13, e14, e15⟩ := deposit_effect s tid a amt hok
    obtain ⟨t1, _, _, _⟩ := deposit_preserves_total s tid a amt h.nodup ha h.total hok
    refine ⟨⟨t1, ?_, ?_, by rw [e14]; exact h.nodup⟩, e14, e13⟩
    · intro d hd
      rw [e13] at hd
      rw [e5 d, e11, h.backed d hd]
      exact (sum_map_add_at (List.range (s.count + 1)) (fun i => tot s i d) _ tid (amt d) List.nodup_range
        (tot_le_count s h tid ht) (fun b hb => e2 b d hb) (e1 d)).symm
    · intro i hi
      rw [e11] at hi
      obtain ⟨b1, b2⟩ := h.beyond i hi
      have hne : i ≠ tid := by intro e; subst e; rw [b1] at ht; cases ht
      refine ⟨?_, fun b => ?_⟩
      · have := e15 i; rw [b1] at this
        cases hti : (depositOp s tid a amt).1.tunnels i with
        | none => rfl
        | some t => rw [hti] at this; cases this
      · have := e4 i b
        -- the record itself: only (tid, a) is written
        unfold depositOp at hok ⊢
        cases hts : s.tunnels tid with
        | none => simp [hts] at hok
        | some t =>
          simp only [hts] at hok ⊢
          split
          · exact b2 b
          · split
            · exact b2 b
            · simp only [hne, false_and, if_false]; exact b2 b
  · rw [deposit_err_state s tid a amt hok]; exact ⟨h, rfl, rfl⟩

theorem withdraw_dinv (s : State) (tid a : Nat) (amt : Coins) (h : DInv s) (ha : a ∈ s.accts) :
    DInv (withdrawOp s tid a amt).1 ∧ (withdrawOp s tid a amt).1.accts = s.accts ∧ (withdrawOp s tid a amt).1.denoms = s.denoms := by
  by_cases hok : (withdrawOp s tid a amt).2 = Err.ok
  · obtain ⟨hle, _, _, _, t1⟩ := withdraw_bounded_exact s tid a amt h.nodup ha h.total hok
    obtain ⟨t, dd, ht, hd, _, hst⟩ := withdraw_ok s tid a amt hok
    obtain ⟨w1, w2, _, _, w5, _, _, w8, _, w10, w11, _, w13, w14⟩ := withdrawn_effect s tid a amt t dd ht hd
    -- both branches: totals, module balance, count, denoms, accts as in `withdrawn`
    have key : (∀ i d, tot (withdrawOp s tid a amt).1 i d = tot (withdrawn s tid a amt t dd) i d) ∧
        (withdrawOp s tid a amt).1.moduleBal = (withdrawn s tid a amt t dd).moduleBal ∧
        (withdrawOp s tid a amt).1.count = s.count ∧ (withdrawOp s tid a amt).1.denoms = s.denoms ∧
        (withdrawOp s tid a amt).1.accts = s.accts ∧
        (∀ i, s.count < i → (withdrawOp s tid a amt).1.tunnels i = none ∧ ∀ b, (withdrawOp s tid a amt).1.deposits i b = none) := by
      have hne : ∀ i, s.count < i → i ≠ tid := by
        intro i hi e; subst e; rw [(h.beyond i hi).1] at ht; cases ht
      have hw : ∀ i, s.count < i → (withdrawn s tid a amt t dd).tunnels i = none ∧ ∀ b, (withdrawn s tid a amt t dd).deposits i b = none := by
        intro i hi
        refine ⟨by rw [w13 i (hne i hi)]; exact (h.beyond i hi).1, fun b => ?_⟩
        simp only [withdrawn, hne i hi, false_and, if_false]; exact (h.beyond i hi).2 b
      rw [hst]; split
      · obtain ⟨f1, f2, f3, _, f5, _, f7, f8, _, f10⟩ := deactivateTunnel_frame (withdrawn s tid a amt t dd) tid
        refine ⟨f1, f3, f5.trans w8, f7.trans w10, f8.trans w11, fun i hi => ⟨?_, fun b => by rw [f2]; exact (hw i hi).2 b⟩⟩
        rw [f10 i]; simp only [hne i hi, if_false]; exact (hw i hi).1
      · exact ⟨fun _ _ => rfl, rfl, w8, w10, w11, hw⟩
    obtain ⟨k1, k2, k3, k4, k5, k6⟩ := key
    refine ⟨⟨t1, ?_, by rw [k3]; exact k6, by rw [k5]; exact h.nodup⟩, k5, k4⟩
    intro d hd
    rw [k4] at hd
    rw [k2, w5 d, k3, h.backed d hd]
    have hmem := tot_le_count s h tid (by rw [ht]; rfl)
    have hb : amt d ≤ tot s tid d := by
      have := h.total tid d hd
      have h1 := hle d hd
      -- the depositor's record is part of the sum
      have : dep s tid a d ≤ (s.accts.map (fun b => dep s tid b d)).sum := by
        have hx : ∀ (l : List Nat), a ∈ l → dep s tid a d ≤ (l.map (fun b => dep s tid b d)).sum := by
          intro l; induction l with
          | nil => intro hm; cases hm
          | cons y ys ih =>
            intro hm
            simp only [List.map_cons, List.sum_cons]
            rcases List.mem_cons.mp hm with rfl | hm'
            · omega
            · have := ih hm'; omega
        exact hx s.accts ha
      omega
    have hsum := sum_map_sub_at (List.range (s.count + 1)) (fun i => tot s i d) (fun i => tot (withdrawOp s tid a amt).1 i d) tid (amt d)
      List.nodup_range hmem (fun b hb' => by rw [k1 b d, w2 b d hb']) (by rw [k1 tid d, w1 d]; omega)
    omega
  · rw [withdraw_err_state s tid a amt hok]; exact ⟨h, rfl, rfl⟩

/-- changing only the activity flag / index of a tunnel keeps the invariant -/
theorem dinv_of_same_money (s s' : State) (h : DInv s) (ht : ∀ i d, tot s' i d = tot s i d) (hd : s'.deposits = s.deposits)
    (hm : s'.moduleBal = s.moduleBal) (hc : s'.count = s.count) (hdn : s'.denoms = s.denoms) (ha : s'.accts = s.accts)
    (hb : ∀ i, s.count < i → s'.tunnels i = none) : DInv s' := by
  refine ⟨?_, ?_, ?_, by rw [ha]; exact h.nodup⟩
  · intro i d hdm
    rw [hdn] at hdm
    rw [ht, ha, h.total i d hdm]
    unfold dep; rw [hd]
  · intro d hdm
    rw [hdn] at hdm
    rw [hm, hc, h.backed d hdm]
    exact (sum_map_congr _ _ _ (fun b _ => ht b d)).symm
  · intro i hi
    rw [hc] at hi
    exact ⟨hb i hi, fun a => by rw [hd]; exact (h.beyond i hi).2 a⟩

theorem step_dinv (s : State) (op : Op) (h : DInv s) (ok : OpOk s.accts op) :
    DInv (apply s op) ∧ (apply s op).accts = s.accts := by
  cases op with
  | deposit t a m => obtain ⟨q1, q2, _⟩ := deposit_dinv s t a m h ok; exact ⟨q1, q2⟩
  | withdraw t a m => obtain ⟨q1, q2, _⟩ := withdraw_dinv s t a m h ok; exact ⟨q1, q2⟩
  | deactivate t x =>
    simp only [apply, deactivateOp]
    cases ht : s.tunnels t with
    | none => exact ⟨h, rfl⟩
    | some tt =>
      simp only []
      split
      · exact ⟨h, rfl⟩
      · split
        · exact ⟨h, rfl⟩
        · obtain ⟨f1, f2, f3, _, f5, _, f7, f8, _, f10⟩ := deactivateTunnel_frame s t
          refine ⟨dinv_of_same_money s _ h f1 f2 f3 f5 f7 f8 (fun i hi => ?_), f8⟩
          rw [f10 i]
          have : i ≠ t := by intro e; subst e; rw [(h.beyond i hi).1] at ht; cases ht
          simp only [this, if_false]; exact (h.beyond i hi).1
  | activate t x =>
    simp only [apply, activateOp]
    cases ht : s.tunnels t with
    | none => exact ⟨h, rfl⟩
    | some tt =>
      simp only []
      split
      · exact ⟨h, rfl⟩
      · split
        · exact ⟨h, rfl⟩
        · unfold activateTunnel
          simp only [ht]
          split
          · exact ⟨h, rfl⟩
          · refine ⟨dinv_of_same_money s _ h (fun i d => ?_) rfl rfl rfl rfl rfl (fun i hi => ?_), rfl⟩
            · unfold tot setTunnel
              by_cases e : i = t
              · subst e; simp [ht]
              · simp [e]
            · have : i ≠ t := by intro e; subst e; rw [(h.beyond i hi).1] at ht; cases ht
              simp only [setTunnel, this, if_false]; exact (h.beyond i hi).1
  | create c init =>
    simp only [apply, createOp]
    -- the state with the new, empty, inactive tunnel
    have h1 : DInv { (setTunnel s (s.count + 1) { creator := c, isActive := false, totalDeposit := fun _ => 0 }) with count := s.count + 1 } := by
      have htot : ∀ i d, tot { (setTunnel s (s.count + 1) { creator := c, isActive := false, totalDeposit := fun _ => 0 }) with count := s.count + 1 } i d = tot s i d := by
        intro i d
        unfold tot setTunnel
        by_cases e : i = s.count + 1
        · subst e; simp [(h.beyond (s.count + 1) (Nat.lt_succ_self _)).1]
        · simp [e]
      refine ⟨?_, ?_, ?_, h.nodup⟩
      · intro i d hdm
        rw [htot]
        exact h.total i d hdm
      · intro d hdm
        show s.moduleBal d = ((List.range (s.count + 1 + 1)).map _).sum
        rw [List.range_succ, List.map_append, List.sum_append, h.backed d hdm]
        simp only [List.map_cons, List.map_nil, List.sum_cons, List.sum_nil, htot]
        have : tot s (s.count + 1) d = 0 := by unfold tot; simp [(h.beyond (s.count + 1) (Nat.lt_succ_self _)).1]
        rw [this]
        have := sum_map_congr (List.range (s.count + 1)) (fun i => tot s i d)
          (fun i => tot { (setTunnel s (s.count + 1) { creator := c, isActive := false, totalDeposit := fun _ => 0 }) with count := s.count + 1 } i d)
          (fun b _ => htot b d)
        omega
      · intro i hi
        have hi' : s.count + 1 < i := hi
        have : i ≠ s.count + 1 := by omega
        refine ⟨?_, (h.beyond i (by omega)).2⟩
        simp only [setTunnel, this, if_false]; exact (h.beyond i (by omega)).1
    split
    · exact ⟨h1, rfl⟩
    · obtain ⟨q1, q2, _⟩ := deposit_dinv _ (s.count + 1) c init h1 ok
      cases hd : depositOp { (setTunnel s (s.count + 1) { creator := c, isActive := false, totalDeposit := fun _ => 0 }) with count := s.count + 1 } (s.count + 1) c init with
      | mk s2 e =>
        rw [hd] at q1 q2
        cases e <;> first | exact ⟨q1, q2⟩ | exact ⟨h, rfl⟩

/-- PROPERTY (deposits are fully backed, over EVERY history of creations, deposits, withdrawals, activations and
    deactivations, accepted or rejected): each tunnel's total equals the sum of its depositors' records and the module
    account holds exactly the sum of all tunnels' totals -/
theorem deposits_fully_backed (ops : List Op) (s : State) (h : DInv s) (ok : ∀ op ∈ ops, OpOk s.accts op) :
    DInv (ops.foldl apply s) := by
  induction ops generalizing s with
  | nil => exact h
  | cons op rest ih =>
    obtain ⟨q1, q2⟩ := step_dinv s op h (ok op (List.mem_cons_self ..))
    exact ih _ q1 (fun o ho => by rw [q2]; exact ok o (List.mem_cons_of_mem _ ho))


/-! ### the activity flag and the active-tunnel index agree, over every history -/

/-- a tunnel id is in the active index (what the end-blocker iterates) exactly when the tunnel exists and is flagged active -/
def FlagIdx (s : State) : Prop := ∀ tid, tid ∈ s.activeIdx ↔ ∃ t, s.tunnels tid = some t ∧ t.isActive = true

theorem mem_insertSorted (l : List Nat) (x y : Nat) : y ∈ insertSorted l x ↔ y ∈ l ∨ y = x := by
  unfold insertSorted
  split
  · rename_i h
    constructor
    · exact Or.inl
    · rintro (h' | rfl)
      · exact h'
      · exact h
  · rw [(List.mergeSort_perm _ _).mem_iff]; simp

theorem flagIdx_setTotal (s : State) (tid : Nat) (t : Tunnel) (ht : s.tunnels tid = some t) (td : Coins) (s' : State)
    (h1 : s'.activeIdx = s.activeIdx) (h2 : ∀ i, s'.tunnels i = if i = tid then some { t with totalDeposit := td } else s.tunnels i)
    (h : FlagIdx s) : FlagIdx s' := by
  intro i
  rw [h1, h i, h2 i]
  by_cases e : i = tid
  · subst e
    simp only [if_true, ht, Option.some.injEq]
    constructor
    · rintro ⟨t0, rfl, ha⟩; exact ⟨_, rfl, ha⟩
    · rintro ⟨t0, rfl, ha⟩; exact ⟨_, rfl, ha⟩
  · simp only [e, if_false]

theorem flagIdx_deactivate (s : State) (tid : Nat) (h : FlagIdx s) : FlagIdx (deactivateTunnel s tid) := by
  obtain ⟨_, _, _, _, _, _, _, _, f9, f10⟩ := deactivateTunnel_frame s tid
  intro i
  rw [f9, f10 i]
  cases ht : s.tunnels tid with
  | none =>
    simp only [Option.isSome_none, Bool.false_eq_true, if_false, Option.map_none]
    rw [h i]
    by_cases e : i = tid
    · subst e; simp [ht]
    · simp [e]
  | some t =>
    simp only [Option.isSome_some, if_true, Option.map_some, List.mem_filter, decide_eq_true_eq]
    by_cases e : i = tid
    · subst e; simp
    · simp only [e, if_false]
      constructor
      · rintro ⟨hm, _⟩; exact (h i).mp hm
      · intro hx; exact ⟨(h i).mpr hx, e⟩

theorem flagIdx_deposit (s : State) (t a : Nat) (m : Coins) (h : FlagIdx s) : FlagIdx (depositOp s t a m).1 := by
  unfold depositOp
  cases hts : s.tunnels t with
  | none => exact h
  | some tt =>
    simp only []
    split
    · exact h
    · split
      · exact h
      · exact flagIdx_setTotal s t tt hts (addC tt.totalDeposit m) _ rfl (fun i => by simp [setTunnel]) h

theorem step_flagIdx (s : State) (op : Op) (h : FlagIdx s) (hb : ∀ i, s.count < i → s.tunnels i = none) :
    FlagIdx (apply s op) := by
  cases op with
  | deposit t a m => exact flagIdx_deposit s t a m h
  | withdraw t a m =>
    by_cases hok : (withdrawOp s t a m).2 = Err.ok
    · obtain ⟨tt, dd, ht, hd, _, hst⟩ := withdraw_ok s t a m hok
      simp only [apply]; rw [hst]
      have hw : FlagIdx (withdrawn s t a m tt dd) :=
        flagIdx_setTotal s t tt ht (subC tt.totalDeposit m) _ rfl (fun i => by simp [withdrawn, setTunnel]) h
      split
      · exact flagIdx_deactivate _ t hw
      · exact hw
    · simp only [apply]; rw [withdraw_err_state s t a m hok]; exact h
  | deactivate t x =>
    simp only [apply, deactivateOp]
    cases ht : s.tunnels t with
    | none => exact h
    | some tt =>
      simp only []
      split
      · exact h
      · split
        · exact h
        · exact flagIdx_deactivate s t h
  | activate t x =>
    simp only [apply, activateOp]
    cases ht : s.tunnels t with
    | none => exact h
    | some tt =>
      simp only []
      split
      · exact h
      · split
        · exact h
        · unfold activateTunnel
          simp only [ht]
          split
          · exact h
          · intro i
            simp only [mem_insertSorted, setTunnel]
            by_cases e : i = t
            · subst e; simp
            · simp only [e, or_false, if_false]; exact h i
  | create c init =>
    simp only [apply, createOp]
    have hnew : s.tunnels (s.count + 1) = none := hb _ (Nat.lt_succ_self _)
    have h1 : FlagIdx { (setTunnel s (s.count + 1) { creator := c, isActive := false, totalDeposit := fun _ => 0 }) with count := s.count + 1 } := by
      intro i
      simp only [setTunnel]
      by_cases e : i = s.count + 1
      · subst e
        simp only [if_true, Option.some.injEq]
        constructor
        · intro hm
          obtain ⟨t0, q, _⟩ := (h _).mp hm
          rw [hnew] at q; cases q
        · rintro ⟨t0, rfl, ha⟩; cases ha
      · simp only [e, if_false]; exact h i
    split
    · exact h1
    · have hdep := flagIdx_deposit _ (s.count + 1) c init h1
      cases hd : depositOp { (setTunnel s (s.count + 1) { creator := c, isActive := false, totalDeposit := fun _ => 0 }) with count := s.count + 1 } (s.count + 1) c init with
      | mk s2 e =>
        rw [hd] at hdep
        cases e <;> first | exact hdep | exact h

/-- PROPERTY (flag ⇔ index, over EVERY history): the end-blocker's active-tunnel index contains exactly the tunnels flagged
    active — no inactive tunnel is processed and no active tunnel is skipped -/
theorem active_flag_iff_index (ops : List Op) (s : State) (h : DInv s) (hf : FlagIdx s) (ok : ∀ op ∈ ops, OpOk s.accts op) :
    FlagIdx (ops.foldl apply s) := by
  induction ops generalizing s with
  | nil => exact hf
  | cons op rest ih =>
    obtain ⟨q1, q2⟩ := step_dinv s op h (ok op (List.mem_cons_self ..))
    exact ih _ q1 (step_flagIdx s op hf (fun i hi => (h.beyond i hi).1)) (fun o ho => by rw [q2]; exact ok o (List.mem_cons_of_mem _ ho))

/-! non-vacuity -/
def demo : State :=
  { tunnels := fun i => if i = 1 then some ⟨0, true, fun d => if d = "uband" then 120 else 0⟩ else none,
    deposits := fun i a => if i = 1 ∧ a = 0 then some (fun d => if d = "uband" then 70 else 0)
                           else if i = 1 ∧ a = 1 then some (fun d => if d = "uband" then 50 else 0) else none,
    activeIdx := [1], count := 1, bal := fun _ _ => 10, moduleBal := fun d => if d = "uband" then 120 else 0,
    minDeposit := fun d => if d = "uband" then 100 else 0, denoms := ["uband"], accts := [0, 1, 2] }
example : TotalEq demo := by
  intro tid d hd; simp [demo] at hd; subst hd
  by_cases h : tid = 1 <;> simp [tot, dep, demo, h]
/-- the demo state satisfies the history invariant (premises of `deposits_fully_backed` are satisfiable) -/
example : DInv demo := by
  refine ⟨?_, ?_, ?_, by decide⟩
  · intro tid d hd; simp [demo] at hd; subst hd
    by_cases h : tid = 1 <;> simp [tot, dep, demo, h]
  · intro d hd; simp [demo] at hd; subst hd; simp [demo, tot, List.range_succ]
  · intro i hi
    have : i ≠ 1 := by simp [demo] at hi; omega
    simp [demo, this]
example : FlagIdx demo := by
  intro tid
  by_cases h : tid = 1 <;> simp [demo, h]
example : (withdrawOp demo 1 1 (fun d => if d = "uband" then 21 else 0)).2 = Err.ok := by decide
example : ((withdrawOp demo 1 1 (fun d => if d = "uband" then 21 else 0)).1.activeIdx) = [] := by decide
example : (withdrawOp demo 1 1 (fun d => if d = "uband" then 51 else 0)).2 = Err.insufficientDeposit := by decide
example : (activateOp demo 1 1).2 = Err.invalidCreator := by decide

/-! ## genesis: a state accepted by the deposit clauses of `ValidateGenesis` is fully backed -/

/-- PROPERTY (a valid genesis is fully backed): if the deposit clauses accept, every tunnel's total deposit is, in every denom,
    the sum of the deposit records booked on it — in particular a tunnel with a positive total has a record -/
theorem valid_genesis_is_fully_backed (nd : Nat) (tunnels : List (Nat × List Nat)) (deps : List (Nat × Nat × List Nat))
    (h : genesisDepositsOk nd tunnels deps = true) (t : Nat × List Nat) (ht : t ∈ tunnels) (k : Nat) (hk : k < nd) :
    t.2.getD k 0 = (deps.filter (·.1 == t.1)).foldl (fun acc d => acc + d.2.2.getD k 0) 0 := by
  unfold genesisDepositsOk at h
  simp only [Bool.and_eq_true, List.all_eq_true, decide_eq_true_eq, beq_iff_eq] at h
  exact h.2 t ht k (List.mem_range.mpr hk)

/-- … so a genesis in which a tunnel claims a positive total without any deposit record is rejected -/
theorem unbacked_genesis_rejected (nd : Nat) (tunnels : List (Nat × List Nat)) (deps : List (Nat × Nat × List Nat))
    (t : Nat × List Nat) (ht : t ∈ tunnels) (k : Nat) (hk : k < nd) (hpos : 0 < t.2.getD k 0)
    (hnone : ∀ d ∈ deps, d.1 ≠ t.1) : genesisDepositsOk nd tunnels deps = false := by
  cases hok : genesisDepositsOk nd tunnels deps with
  | false => rfl
  | true =>
    have := valid_genesis_is_fully_backed nd tunnels deps hok t ht k hk
    have he : deps.filter (·.1 == t.1) = [] := by
      apply List.filter_eq_nil_iff.mpr
      intro d hd
      simpa using hnone d hd
    rw [he] at this
    simp only [List.foldl_nil] at this
    omega

example : genesisDepositsOk 2 [(1, [100, 0]), (2, [0, 0])] [(1, 0, [60, 0]), (1, 1, [40, 0])] = true := by decide
example : genesisDepositsOk 2 [(1, [100, 0])] [] = false := by decide

/-- PROPERTY (an imported genesis is escrowed): `InitGenesis` accepts only when the tunnel module account holds, per denom,
    exactly what the genesis says it escrows (deposit records + fees); with even one unit missing anywhere — in particular
    with an EMPTY module account and a positive escrow — the import is refused -/
theorem imported_genesis_is_escrowed (escrowed balance : List Nat) :
    importBacked escrowed balance = true ↔ escrowed = balance := by
  unfold importBacked; exact beq_iff_eq

theorem empty_account_cannot_back_deposits (escrowed : List Nat) (k : Nat) (hpos : 0 < escrowed.getD k 0) :
    importBacked escrowed (List.replicate escrowed.length 0) = false := by
  cases h : importBacked escrowed (List.replicate escrowed.length 0) with
  | false => rfl
  | true =>
    have e := (imported_genesis_is_escrowed _ _).mp h
    rw [e] at hpos
    simp [List.getD_eq_getElem?_getD, List.getElem?_replicate] at hpos
    split at hpos <;> simp at hpos

example : importBacked [100, 0] [100, 0] = true ∧ importBacked [100, 0] [0, 0] = false ∧ importBacked [100, 0] [101, 0] = false := by decide

end C17
