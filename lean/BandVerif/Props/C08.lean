/-
C08 — tunnel packets: produced exactly when due, gap-free sequence, atomic fee.
Model: Model/Tunnel.lean. The route (bandtss signing request / IBC send) is the input `routeOk`.
-/
import BandVerif.Model.Tunnel
import BandVerif.Lemmas.TunnelPrices
import BandVerif.Generated.Tunnel

namespace C08
open BandVerif BandVerif.Tunnel

/-- TIE to the source: the operators and step order regenerated from x/tunnel/keeper on this run are the
    ones the model uses. -/
theorem generated_matches_model :
    (∀ sa dev hard, Generated.Tunnel.hardBranch sa dev hard = (sa || decide (dev ≥ hard))) ∧
    (∀ dev soft, Generated.Tunnel.softBranch dev soft = decide (dev ≥ soft)) ∧
    (∀ o n, Generated.Tunnel.deviationBPS o n = deviationBPS o n) ∧
    (∀ t now, Generated.Tunnel.dueAll now t.interval t.lastInterval = dueAll t now) ∧
    Generated.Tunnel.producePacketOrder = ["emptyStops", "createPacket", "sendPacket", "updateLatest", "intervalOnlyIfSendAll"] ∧
    Generated.Tunnel.produceActiveShape = ["fundCheck", "deactivateIfUnderfunded", "cacheContext", "writeOnlyOnSuccess"] ∧
    Generated.Tunnel.sequenceStep = 1 :=
  ⟨fun _ _ _ => rfl, fun _ _ => rfl, fun _ _ => rfl, fun _ _ => rfl, rfl, rfl, rfl⟩

/-- which signals a packet carries and whether one is sent at all, stated without the accumulator -/
def included (latest feeds : List Price) (sendAll : Bool) (sd : SD) : Bool :=
  let old := ((lookupLast latest sd.sid).map (·.price)).getD 0
  let nw := ((lookupLast feeds sd.sid).map (·.price)).getD 0
  sendAll || decide (deviationBPS old nw ≥ sd.hard) || decide (deviationBPS old nw ≥ sd.soft)

def hardHit (latest feeds : List Price) (sd : SD) : Bool :=
  let old := ((lookupLast latest sd.sid).map (·.price)).getD 0
  let nw := ((lookupLast feeds sd.sid).map (·.price)).getD 0
  decide (deviationBPS old nw ≥ sd.hard)

def feedPrice (feeds : List Price) (now : Int) (sd : SD) : Price :=
  (lookupLast feeds sd.sid).getD { sid := sd.sid, status := statusNotInCurrentFeeds, price := 0, ts := now }

theorem genGo_spec (latest feeds : List Price) (now : Int) (sendAll : Bool) (sds : List SD) :
    (genGo latest feeds now sendAll sds).1 = (sds.filter (included latest feeds sendAll)).map (feedPrice feeds now) ∧
    (genGo latest feeds now sendAll sds).2 = ((sendAll && !sds.isEmpty) || sds.any (hardHit latest feeds)) := by
  induction sds with
  | nil => simp [genGo]
  | cons sd rest ih =>
    obtain ⟨i1, i2⟩ := ih
    have hp : (feedPrice feeds now sd).price = ((lookupLast feeds sd.sid).map (·.price)).getD 0 := by
      unfold feedPrice; cases lookupLast feeds sd.sid <;> simp
    simp only [genGo]
    have hfp : ((lookupLast feeds sd.sid).getD { sid := sd.sid, status := statusNotInCurrentFeeds, price := 0, ts := now }) = feedPrice feeds now sd := rfl
    rw [hfp, hp]
    by_cases h1 : (sendAll || decide (deviationBPS (((lookupLast latest sd.sid).map (·.price)).getD 0) (((lookupLast feeds sd.sid).map (·.price)).getD 0) ≥ sd.hard)) = true
    · simp only [h1, if_true]
      have hinc : included latest feeds sendAll sd = true := by
        unfold included; simp only []; rw [h1]; rfl
      constructor
      · rw [List.filter_cons_of_pos hinc, List.map_cons, i1]
      · simp only [Bool.or_eq_true, decide_eq_true_eq] at h1
        rcases h1 with h | h
        · simp [h]
        · simp [hardHit, h]
    · have h1' : (sendAll || decide (deviationBPS (((lookupLast latest sd.sid).map (·.price)).getD 0) (((lookupLast feeds sd.sid).map (·.price)).getD 0) ≥ sd.hard)) = false := by simpa using h1
      simp only [h1', Bool.false_eq_true, if_false]
      simp only [Bool.or_eq_false_iff, decide_eq_false_iff_not] at h1'
      have hsa : sendAll = false := h1'.1
      have hh : hardHit latest feeds sd = false := by unfold hardHit; simp only []; simpa using h1'.2
      by_cases h2 : deviationBPS (((lookupLast latest sd.sid).map (·.price)).getD 0) (((lookupLast feeds sd.sid).map (·.price)).getD 0) ≥ sd.soft
      · simp only [h2, if_true]
        have hinc : included latest feeds sendAll sd = true := by
          unfold included; simp only []; simp [h2]
        constructor
        · rw [List.filter_cons_of_pos hinc, List.map_cons, i1]
        · rw [i2]; simp [hsa, hh]
      · simp only [h2, if_false]
        have hinc : included latest feeds sendAll sd = false := by
          unfold included; simp only []; simp [hsa, h2]; exact Nat.lt_of_not_ge h1'.2
        constructor
        · rw [List.filter_cons_of_neg (by simp [hinc]), i1]
        · rw [i2]; simp [hsa, hh]

/-- PROPERTY (what a packet carries, and when one is due): the new price list is non-empty exactly when
    the interval has elapsed (sendAll) for a tunnel with signals or some signal moved by at least its HARD
    deviation; it then carries, in declaration order, all signals (interval) or exactly those at or beyond
    their soft or hard deviation — each with the current feed price (or NOT_IN_CURRENT_FEEDS, price 0). -/
theorem packet_content (sds : List SD) (latest feeds : List Price) (now : Int) (sendAll : Bool) :
    generateNewPrices sds latest feeds now sendAll =
      if (sendAll && !sds.isEmpty) || sds.any (hardHit latest feeds)
      then (sds.filter (included latest feeds sendAll)).map (feedPrice feeds now) else [] := by
  unfold generateNewPrices
  obtain ⟨h1, h2⟩ := genGo_spec latest feeds now sendAll sds
  cases hg : genGo latest feeds now sendAll sds with
  | mk ps send =>
    rw [hg] at h1 h2
    simp only [] at h1 h2 ⊢
    rw [h1, h2]

theorem interval_sends_all (sds : List SD) (latest feeds : List Price) (now : Int) (hne : sds ≠ []) :
    generateNewPrices sds latest feeds now true = sds.map (feedPrice feeds now) := by
  rw [packet_content]
  have : (true && !sds.isEmpty) = true := by cases sds <;> simp_all
  simp only [this, Bool.true_or, if_true]
  congr 1
  apply List.filter_eq_self.mpr
  intro sd _; simp [included]

/-- deviation rule -/
theorem deviation_spec (old new : Nat) :
    (new = old → deviationBPS old new = 0) ∧ (new ≠ old → old = 0 → deviationBPS old new = maxInt64) ∧
    (new ≠ old → old ≠ 0 → new ≥ old → deviationBPS old new = (new - old) * 10000 / old) ∧
    (new ≠ old → old ≠ 0 → new < old → deviationBPS old new = (old - new) * 10000 / old) := by
  unfold deviationBPS
  refine ⟨fun h => by simp [h], fun h1 h2 => ?_, fun h1 h2 h3 => by simp [h1, h2, h3], fun h1 h2 h3 => ?_⟩
  · rw [if_neg h1, if_pos h2]
  · have : ¬ new ≥ old := by omega
    simp [h1, h2, this]

/-- stored packets of a tunnel carry exactly the sequence numbers 1..sequence -/
def GapFree (t : T) : Prop := t.packets.map (·.1) = (List.range t.sequence).map (· + 1)

/-- PROPERTY (gap-free, exact fee, once): a successful send takes the NEXT sequence number, stores exactly
    one more packet, debits the fee payer by exactly base fee + route fee and credits the base-fee total;
    every other tunnel is untouched. -/
theorem send_effect (s : State) (id : Nat) (t : T) (ps : List Price) (now : Int) (iv : Bool) (s' : State)
    (ht : s.tunnels id = some t) (hg : GapFree t) (h : sendWith s id t ps true now iv = some s') :
    ∃ t', s'.tunnels id = some t' ∧ t'.sequence = t.sequence + 1 ∧ GapFree t' ∧
      t'.packets = t.packets ++ [(t.sequence + 1, ps)] ∧ t'.latest = updatePrices t.latest ps ∧
      t'.lastInterval = (if iv then now else t.lastInterval) ∧ t'.isActive = t.isActive ∧
      s'.payerBal id = s.payerBal id - feeOf s t ∧ s'.totalBaseFees = s.totalBaseFees + s.baseFee ∧
      (∀ j, j ≠ id → s'.tunnels j = s.tunnels j ∧ s'.payerBal j = s.payerBal j) := by
  unfold sendWith at h
  simp only [Bool.not_true, Bool.false_eq_true, if_false] at h
  cases h
  refine ⟨{ t with sequence := t.sequence + 1, packets := t.packets ++ [(t.sequence + 1, ps)],
                   latest := updatePrices t.latest ps, lastInterval := if iv then now else t.lastInterval },
    by simp, rfl, ?_, rfl, rfl, rfl, rfl, by simp, rfl, fun j hj => by simp [hj]⟩
  unfold GapFree at hg ⊢
  simp only [List.map_append, hg, List.map_cons, List.map_nil]
  rw [List.range_succ, List.map_append]; rfl

/-- PROPERTY (failure leaves no trace): if the route fails — any error, including a recovered panic —
    nothing of the attempt persists: no fee, no sequence number, no price update. -/
theorem failure_leaves_no_trace (s : State) (id : Nat) (feeds : List Price) (now : Int) (t : T)
    (ht : s.tunnels id = some t) (hf : s.payerBal id ≥ feeOf s t) :
    produceActive s id feeds now false = (s, false) := by
  unfold produceActive
  simp only [ht]
  rw [if_neg (by omega)]
  unfold produceFunded
  have : sendWith s id t (newPrices t feeds now) false now (dueAll t now) = none := rfl
  rw [this]
  split <;> rfl

/-- PROPERTY (produced exactly when due): for a funded tunnel with a working route, a packet is produced
    iff the new price list is non-empty (see `packet_content` for when that is). -/
theorem produce_iff_due (s : State) (id : Nat) (feeds : List Price) (now : Int) (t : T)
    (ht : s.tunnels id = some t) (hf : s.payerBal id ≥ feeOf s t) :
    (produceActive s id feeds now true).2 = true ↔
      generateNewPrices t.sds t.latest feeds now (decide (now ≥ (t.interval : Int) + t.lastInterval)) ≠ [] := by
  unfold produceActive
  simp only [ht]
  rw [if_neg (by omega)]
  unfold produceFunded
  show _ ↔ newPrices t feeds now ≠ []
  cases hps : newPrices t feeds now with
  | nil => simp
  | cons p ps => simp [sendWith]

/-- PROPERTY: a tunnel whose fee payer cannot cover base + route fee is deactivated instead (flag and
    index), and nothing else changes. -/
theorem underfunded_deactivates (s : State) (id : Nat) (feeds : List Price) (now : Int) (rk : Bool) (t : T)
    (ht : s.tunnels id = some t) (hf : s.payerBal id < feeOf s t) :
    (produceActive s id feeds now rk).2 = false ∧
    (produceActive s id feeds now rk).1.tunnels id = some { t with isActive := false } ∧
    id ∉ (produceActive s id feeds now rk).1.activeIdx ∧
    (produceActive s id feeds now rk).1.payerBal = s.payerBal := by
  unfold produceActive
  simp only [ht, hf, if_true]
  refine ⟨?_, by simp [deactivate], by simp [deactivate], ?_⟩ <;> first | rfl | trivial

/-- PROPERTY: the end-blocker touches only the tunnels in the active index (inactive tunnels never
    produce packets). -/
theorem inactive_never_produces (feeds : List Price) (now : Int) (rk : Nat → Bool) (l : List Nat) (s : State) (id : Nat)
    (h : id ∉ l) : (endBlock feeds now rk l s).tunnels id = s.tunnels id ∧ (endBlock feeds now rk l s).payerBal id = s.payerBal id := by
  induction l generalizing s with
  | nil => exact ⟨rfl, rfl⟩
  | cons x xs ih =>
    simp only [endBlock]
    have hx : id ≠ x := fun e => h (e ▸ List.mem_cons_self ..)
    have hxs : id ∉ xs := fun e => h (List.mem_cons_of_mem _ e)
    obtain ⟨a, b⟩ := ih (produceActive s x feeds now (rk x)).1 hxs
    have frame : (produceActive s x feeds now (rk x)).1.tunnels id = s.tunnels id ∧
        (produceActive s x feeds now (rk x)).1.payerBal id = s.payerBal id := by
      unfold produceActive
      cases s.tunnels x with
      | none => exact ⟨rfl, rfl⟩
      | some t =>
        simp only []
        by_cases hf : s.payerBal x < feeOf s t
        · rw [if_pos hf]; simp [deactivate, hx]
        · rw [if_neg hf]
          unfold produceFunded
          by_cases he : (newPrices t feeds now).isEmpty = true
          · rw [if_pos he]; exact ⟨rfl, rfl⟩
          · rw [if_neg he]
            cases hsw : sendWith s x t (newPrices t feeds now) (rk x) now (dueAll t now) with
            | none => exact ⟨rfl, rfl⟩
            | some s' =>
              unfold sendWith at hsw
              split at hsw
              · cases hsw
              · cases hsw; simp [hx]
    exact ⟨a.trans frame.1, b.trans frame.2⟩

/-- MsgTriggerTunnel: only the creator, only an active and funded tunnel; a failing route changes nothing. -/
theorem trigger_gate (s : State) (id sender : Nat) (ps : List Price) (rk : Bool) (now : Int) :
    ((trigger s id sender ps rk now).2 = TErr.ok → ∃ t, s.tunnels id = some t ∧ t.creator = sender ∧ t.isActive = true ∧
        s.payerBal id ≥ feeOf s t ∧ rk = true) ∧
    ((trigger s id sender ps rk now).2 ≠ TErr.ok → (trigger s id sender ps rk now).1 = s) := by
  unfold trigger
  cases ht : s.tunnels id with
  | none => simp
  | some t =>
    simp only []
    by_cases h1 : t.creator ≠ sender
    · simp [h1]
    · by_cases h2 : t.isActive = true
      · by_cases h3 : s.payerBal id < feeOf s t
        · simp [h1, h2, h3]
        · simp only [h1, h2, h3, if_false, Bool.not_true, Bool.false_eq_true]
          cases rk with
          | false => simp [sendWith]
          | true =>
            simp only [sendWith, Bool.not_true, Bool.false_eq_true, if_false]
            refine ⟨fun _ => ⟨t, ?_, by simpa using h1, h2, by omega, ?_⟩, fun h => absurd rfl h⟩ <;> first | rfl | trivial
      · simp [h1, h2]

/-- every tunnel's stored packets are numbered 1..sequence -/
def AllGapFree (s : State) : Prop := ∀ id t, s.tunnels id = some t → GapFree t

theorem sendWith_gapFree (s : State) (id : Nat) (t : T) (ps : List Price) (rk : Bool) (now : Int) (iv : Bool) (s' : State)
    (hs : AllGapFree s) (ht : s.tunnels id = some t) (h : sendWith s id t ps rk now iv = some s') : AllGapFree s' := by
  cases rk with
  | false => cases h
  | true =>
    obtain ⟨t', h1, _, h3, _, _, _, _, _, _, h10⟩ := send_effect s id t ps now iv s' ht (hs id t ht) h
    intro j tj hj
    by_cases e : j = id
    · subst e; rw [h1] at hj; cases hj; exact h3
    · rw [(h10 j e).1] at hj; exact hs j tj hj

theorem produceActive_gapFree (s : State) (id : Nat) (feeds : List Price) (now : Int) (rk : Bool)
    (hs : AllGapFree s) : AllGapFree (produceActive s id feeds now rk).1 := by
  unfold produceActive
  cases ht : s.tunnels id with
  | none => exact hs
  | some t =>
    simp only []
    by_cases hf : s.payerBal id < feeOf s t
    · rw [if_pos hf]
      intro j tj hj
      simp only [deactivate] at hj
      by_cases e : j = id
      · simp only [e, if_true] at hj; cases hj; exact hs id t ht
      · simp only [e, if_false] at hj; exact hs j tj hj
    · rw [if_neg hf]
      unfold produceFunded
      by_cases he : (newPrices t feeds now).isEmpty = true
      · rw [if_pos he]; exact hs
      · rw [if_neg he]
        cases hsw : sendWith s id t (newPrices t feeds now) rk now (dueAll t now) with
        | none => exact hs
        | some s' => exact sendWith_gapFree s id t _ rk now _ s' hs ht hsw

/-- PROPERTY (gap-free over every history): whatever sequence of end-blocks (with any feeds, any route
    outcomes) and manual triggers runs, every tunnel's packets stay numbered 1, 2, …, sequence —
    no gap, no repeat, failed productions consume no number. -/
inductive Op
  | endBlock (feeds : List Price) (now : Int) (rk : Nat → Bool)
  | trigger (id sender : Nat) (prices : List Price) (rk : Bool) (now : Int)

def step (s : State) : Op → State
  | .endBlock feeds now rk => endBlock feeds now rk s.activeIdx s
  | .trigger id sender prices rk now => (trigger s id sender prices rk now).1

theorem endBlock_gapFree (feeds : List Price) (now : Int) (rk : Nat → Bool) (l : List Nat) (s : State)
    (hs : AllGapFree s) : AllGapFree (endBlock feeds now rk l s) := by
  induction l generalizing s with
  | nil => exact hs
  | cons x xs ih => exact ih _ (produceActive_gapFree s x feeds now (rk x) hs)

theorem trigger_gapFree (s : State) (id sender : Nat) (ps : List Price) (rk : Bool) (now : Int)
    (hs : AllGapFree s) : AllGapFree (trigger s id sender ps rk now).1 := by
  unfold trigger
  cases ht : s.tunnels id with
  | none => exact hs
  | some t =>
    simp only []
    split; · exact hs
    split; · exact hs
    split; · exact hs
    cases hsw : sendWith s id t ps rk now true with
    | none => exact hs
    | some s' => exact sendWith_gapFree s id t _ rk now _ s' hs ht hsw

theorem sequence_gap_free (ops : List Op) (s : State) (hs : AllGapFree s) : AllGapFree (ops.foldl step s) := by
  induction ops generalizing s with
  | nil => exact hs
  | cons o os ih =>
    apply ih
    cases o with
    | endBlock feeds now rk => exact endBlock_gapFree feeds now rk _ s hs
    | trigger id sender ps rk now => exact trigger_gapFree s id sender ps rk now hs

/-! non-vacuity -/
def sdA : SD := ⟨"A", 100, 200⟩
example : generateNewPrices [sdA] [⟨"A", 3, 1000, 0⟩] [⟨"A", 3, 1020, 5⟩] 10 false = [⟨"A", 3, 1020, 5⟩] := by decide
example : generateNewPrices [sdA] [⟨"A", 3, 1000, 0⟩] [⟨"A", 3, 1019, 5⟩] 10 false = [] := by decide
example : generateNewPrices [sdA] [⟨"A", 3, 1000, 0⟩] [] 10 true = [⟨"A", 4, 0, 10⟩] := by decide
example : deviationBPS 0 5 = maxInt64 := by decide

/-- PROPERTY (what was sent becomes the reference): every price of a sent packet (one price per signal) IS the tunnel's reference for that signal afterwards, whatever its
    status or value: each entry of the updated list for that signal is the sent price, and there is one -/
theorem sent_price_becomes_the_reference (l prices : List Price) (hnd : (prices.map (·.sid)).Nodup) (p : Price) (hp : p ∈ prices) :
    (∀ q ∈ updatePrices l prices, q.sid = p.sid → q = p) ∧ p ∈ updatePrices l prices := by
  induction prices generalizing l with
  | nil => cases hp
  | cons p0 rest ih =>
    simp only [List.map_cons, List.nodup_cons] at hnd
    obtain ⟨hnot, hrest⟩ := hnd
    rcases List.mem_cons.mp hp with e | e
    · subst e
      -- the first price: set now, untouched by the rest
      simp only [updatePrices]
      split
      · rename_i hany
        refine ⟨fun q hq hs => ?_, ?_⟩
        · have hq' := (updatePrices_untouched _ rest q (by rw [hs]; exact hnot)).mp hq
          obtain ⟨x, _, ex⟩ := List.mem_map.mp hq'
          by_cases c : (x.sid == p.sid) = true
          · rw [if_pos c] at ex; exact ex.symm
          · rw [if_neg c] at ex; subst ex; exact absurd (by simpa using hs) c
        · apply (updatePrices_untouched _ rest p hnot).mpr
          obtain ⟨x, hx, hxs⟩ := List.any_eq_true.mp hany
          exact List.mem_map.mpr ⟨x, hx, by simp [hxs]⟩
      · rename_i hany
        refine ⟨fun q hq hs => ?_, ?_⟩
        · have hq' := (updatePrices_untouched _ rest q (by rw [hs]; exact hnot)).mp hq
          rcases List.mem_append.mp hq' with a | a
          · exfalso; apply hany; exact List.any_eq_true.mpr ⟨q, a, by simpa using hs⟩
          · simpa using a
        · apply (updatePrices_untouched _ rest p hnot).mpr; simp
    · simp only [updatePrices]
      split
      · exact ih _ hrest e
      · exact ih _ hrest e

example : updatePrices [{ sid := "a", status := 3, price := 5, ts := 1 }] [{ sid := "a", status := 2, price := 0, ts := 9 }] = [{ sid := "a", status := 2, price := 0, ts := 9 }] := by decide

end C08
