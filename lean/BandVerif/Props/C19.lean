/-
C19 — yoda files exactly one complete, chain-acceptable report per request.
Model: Model/Yoda.lean.
-/
import BandVerif.Model.Yoda
import BandVerif.Model.YodaSrc
import BandVerif.Generated.Yoda

namespace C19
open BandVerif.Yoda

/-- TIE to the source: normalised text of yoda's request handling and of the chain's report validation. -/
theorem generated_sources_match :
    BandVerif.Generated.Yoda.src_handleRequest = BandVerif.ExpectedSrc.Yoda.src_handleRequest ∧
    BandVerif.Generated.Yoda.src_handleRawRequests = BandVerif.ExpectedSrc.Yoda.src_handleRawRequests ∧
    BandVerif.Generated.Yoda.src_handleRawRequest = BandVerif.ExpectedSrc.Yoda.src_handleRawRequest ∧
    BandVerif.Generated.Yoda.src_GetExecutable = BandVerif.ExpectedSrc.Yoda.src_GetExecutable ∧
    BandVerif.Generated.Yoda.src_GetDataSourceHash = BandVerif.ExpectedSrc.Yoda.src_GetDataSourceHash ∧
    BandVerif.Generated.Yoda.src_GetRequest = BandVerif.ExpectedSrc.Yoda.src_GetRequest ∧
    BandVerif.Generated.Yoda.src_abciQuery = BandVerif.ExpectedSrc.Yoda.src_abciQuery ∧
    BandVerif.Generated.Yoda.src_CheckValidReport = BandVerif.ExpectedSrc.Yoda.src_CheckValidReport ∧
    BandVerif.Generated.Yoda.src_ReportValidateBasic = BandVerif.ExpectedSrc.Yoda.src_ReportValidateBasic := by
  refine ⟨?_, ?_, ?_, ?_, ?_, ?_, ?_, ?_, ?_⟩ <;> rfl

theorem reportsOf_length (env : Env) (raws : List RawReq) (hs : List String) (h : hs.length = raws.length) :
    (reportsOf env raws hs).length = raws.length := by
  induction raws generalizing hs with
  | nil => cases hs <;> rfl
  | cons r rs ih =>
    cases hs with
    | nil => simp at h
    | cons x xs => simp only [reportsOf, List.length_cons]; rw [ih xs (by simpa using h)]

theorem hashesOf_length (env : Env) (raws : List RawReq) (hs : List String) (h : hashesOf env raws = some hs) : hs.length = raws.length := by
  induction raws generalizing hs with
  | nil => simp only [hashesOf] at h; cases h; rfl
  | cons r rs ih =>
    simp only [hashesOf] at h
    cases h1 : env.hashOf r.dsid with
    | none => simp [h1] at h
    | some x =>
      cases h2 : hashesOf env rs with
      | none => simp [h1, h2] at h
      | some xs => simp only [h1, h2] at h; cases h; simp [ih xs h2]

theorem reportsOf_eids (env : Env) (raws : List RawReq) (hs : List String) (h : hs.length = raws.length) :
    (reportsOf env raws hs).map (·.eid) = raws.map (·.eid) := by
  induction raws generalizing hs with
  | nil => cases hs <;> rfl
  | cons r rs ih =>
    cases hs with
    | nil => simp at h
    | cons x xs =>
      simp only [reportsOf, List.map_cons]
      rw [ih xs (by simpa using h)]
      congr 1
      unfold rawReportOf; split
      · rfl
      · split <;> rfl

/-- PROPERTY (exactly one raw report per raw request, matching external id): whenever yoda queues a report it has, in
    request order, one raw report per raw request with that request's external id. -/
theorem one_raw_report_per_raw_request (env : Env) (me : Nat) (vals : List Nat) (raws : List RawReq) (reps : List RawRep)
    (h : handleRequest env me vals raws = some reps) :
    reps.length = raws.length ∧ reps.map (·.eid) = raws.map (·.eid) := by
  unfold handleRequest at h
  split at h; · cases h
  cases hh : hashesOf env raws with
  | none => simp [hh] at h
  | some hs =>
    simp only [hh] at h; cases h
    have hl := hashesOf_length env raws hs hh
    exact ⟨reportsOf_length env raws hs hl, reportsOf_eids env raws hs hl⟩

/-- PROPERTY (content): each raw report carries the executor's exit code and output, or 255 when the data source could not
    be loaded (`FAIL_TO_LOAD_DATA_SOURCE`) or the executor failed (empty data). -/
theorem raw_report_content (env : Env) (r : RawReq) (hash : String) :
    (env.loadable hash = false → rawReportOf env r hash = ⟨r.eid, 255, failToLoad⟩) ∧
    (env.loadable hash = true → ∀ c o, env.exec r = .ok c o → rawReportOf env r hash = ⟨r.eid, c, o⟩) ∧
    (env.loadable hash = true → env.exec r = .error → rawReportOf env r hash = ⟨r.eid, 255, ""⟩) := by
  unfold rawReportOf
  refine ⟨fun h => by simp [h], fun h c o he => by simp [h, he], fun h he => by simp [h, he]⟩

/-- PROPERTY (never dropped): a request that selects this validator and whose metadata the node serves always yields a
    report; a request that does not select it yields none. -/
theorem report_iff_selected (env : Env) (me : Nat) (vals : List Nat) (raws : List RawReq)
    (hmeta : ∀ r ∈ raws, (env.hashOf r.dsid).isSome) :
    (handleRequest env me vals raws).isSome ↔ me ∈ vals := by
  unfold handleRequest
  have hs : ∃ hs, hashesOf env raws = some hs := by
    induction raws with
    | nil => exact ⟨[], rfl⟩
    | cons r rs ih =>
      obtain ⟨xs, hx⟩ := ih (fun q hq => hmeta q (List.mem_cons_of_mem _ hq))
      have := hmeta r (List.mem_cons_self ..)
      cases h1 : env.hashOf r.dsid with
      | none => simp [h1] at this
      | some x => exact ⟨x :: xs, by simp [hashesOf, h1, hx]⟩
  obtain ⟨xs, hx⟩ := hs
  by_cases c : me ∈ vals
  · simp [c, hx]
  · simp [c]

/-- PROPERTY (chain-acceptable, in ANY completion order): for a request with at least one raw request and distinct
    external ids that selects this validator (and has no report from it yet), the queued report — in whatever order the
    concurrent executions finished — passes `ValidateBasic` and `CheckValidReport`. -/
theorem report_is_chain_acceptable (env : Env) (me : Nat) (vals : List Nat) (raws : List RawReq) (reps perm : List RawRep)
    (h : handleRequest env me vals raws = some reps) (hne : raws ≠ []) (hnd : (raws.map (·.eid)).Nodup)
    (hp : perm.Perm reps) :
    validateBasic perm = true ∧ checkValid me vals false raws perm = true := by
  obtain ⟨hl, he⟩ := one_raw_report_per_raw_request env me vals raws reps h
  have hme : me ∈ vals := by
    unfold handleRequest at h; split at h
    · cases h
    · rename_i c; simpa using c
  have hpe : (perm.map (·.eid)).Perm (raws.map (·.eid)) := he ▸ hp.map _
  constructor
  · unfold validateBasic
    rw [Bool.and_eq_true]
    constructor
    · have : perm.length = raws.length := by rw [hp.length_eq, hl]
      cases hperm : perm with
      | nil => rw [hperm] at this; cases raws with | nil => exact absurd rfl hne | cons a b => simp at this
      | cons a b => rfl
    · exact decide_eq_true (hpe.nodup_iff.mpr hnd)
  · unfold checkValid
    simp only [Bool.and_eq_true, decide_eq_true_eq, Bool.not_false, and_true]
    refine ⟨⟨hme, by rw [hp.length_eq, hl]⟩, ?_⟩
    rw [List.all_eq_true]
    intro rep hrep
    rw [List.any_eq_true]
    have : rep.eid ∈ raws.map (·.eid) := hpe.mem_iff.mp (List.mem_map_of_mem hrep)
    obtain ⟨r, hr, hre⟩ := List.mem_map.mp this
    exact ⟨r, hr, by simp [hre]⟩

/-! non-vacuity -/
def demoEnv : Env := { hashOf := fun d => if d = 9 then none else some s!"h{d}", loadable := fun h => h != "h2",
                       exec := fun r => if r.calldata = "boom" then .error else .ok 0 ("out:" ++ r.calldata) }
example : handleRequest demoEnv 1 [1, 2] [⟨1, 1, "a"⟩, ⟨2, 2, "b"⟩, ⟨3, 1, "boom"⟩] =
    some [⟨1, 0, "out:a"⟩, ⟨2, 255, failToLoad⟩, ⟨3, 255, ""⟩] := by decide
example : handleRequest demoEnv 3 [1, 2] [⟨1, 1, "a"⟩] = none := by decide

end C19
