/-
C15 — validators are deactivated only for genuine misses; reactivation only after the penalty.
Model: Model/ValidatorStatus.lean. Source tie: Generated/Status.lean (CheckMissReport translated
statement by statement; Activate / MissReport guards) — `generated_*` theorems below.
-/
import BandVerif.Model.ValidatorStatus
import BandVerif.Lemmas.FeedsSubmit
import BandVerif.Model.FeedsSubmitSrc

namespace C15
open BandVerif BandVerif.VStatus

/-- TIE TO SOURCE: the guards read from oracle Keeper.Activate / MissReport are the model's. -/
theorem generated_guards_match :
    Generated.Status.tooSoon = tooSoon ∧ Generated.Status.missApplies = missApplies := ⟨rfl, rfl⟩

theorem add_ok (a b : Int) (ha : 0 ≤ a) (ha' : a < 4611686018427387904) (hb : 0 ≤ b) (hb' : b < 4611686018427387904) :
    i64.add a b = a + b := by unfold i64.add i64.wrap; omega

theorem div3_ok (a : Int) (ha : 0 ≤ a) (ha' : a < 4611686018427387904) :
    i64.div a 3 = a / 3 := by
  unfold i64.div
  rw [Int.tdiv_eq_ediv_of_nonneg ha]
  unfold i64.wrap; omega

/-- TIE TO SOURCE: the statement-by-statement translation of feeds `CheckMissReport` (int64
    arithmetic) equals the specification form for all inputs in `[0, 2^62)` (Unix seconds, heights,
    parameters), i.e. whenever no int64 addition wraps. -/
theorem generated_checkMissReport_eq (interval lastUpd lastUpdBlock : Int) (hasPrice : Bool)
    (priceTs priceBlock since blockTime blockHeight grace : Int)
    (h : ∀ x ∈ [interval, lastUpd, lastUpdBlock, priceTs, priceBlock, since, grace], 0 ≤ x ∧ x < 4611686018427387904) :
    Generated.Status.checkMissReport interval lastUpd lastUpdBlock hasPrice priceTs priceBlock since blockTime blockHeight grace
      = checkMiss interval lastUpd lastUpdBlock hasPrice priceTs priceBlock since blockTime blockHeight grace := by
  have hi := h interval (by simp); have hl := h lastUpd (by simp); have hlb := h lastUpdBlock (by simp)
  have hpt := h priceTs (by simp); have hpb := h priceBlock (by simp); have hs := h since (by simp); have hg := h grace (by simp)
  have hg3 : 0 ≤ grace / 3 ∧ grace / 3 < 4611686018427387904 := by omega
  have hi3 : 0 ≤ interval / 3 ∧ interval / 3 < 4611686018427387904 := by omega
  unfold Generated.Status.checkMissReport checkMiss maxGuaranteeBlockTime
  simp only [div3_ok grace hg.1 hg.2, div3_ok interval hi.1 hi.2,
    add_ok lastUpd grace hl.1 hl.2 hg.1 hg.2, add_ok since grace hs.1 hs.2 hg.1 hg.2,
    add_ok priceTs interval hpt.1 hpt.2 hi.1 hi.2, add_ok lastUpdBlock (grace / 3) hlb.1 hlb.2 hg3.1 hg3.2,
    add_ok priceBlock (interval / 3) hpb.1 hpb.2 hi3.1 hi3.2]
  cases hasPrice <;> simp only [if_true, if_false, Bool.false_eq_true] <;> rw [decide_eq_decide] <;> simp only [Int.max_def] <;>
    constructor <;> intro h <;> (repeat' split at h) <;> (repeat' split) <;> omega

/-- PROPERTY: re-activation only once the inactivity penalty has elapsed since the deactivation;
    a successful activation happens only from the inactive state and stamps `now`. -/
theorem reactivate_after_penalty (s : VS) (penalty now : Int) (h : (activate s penalty now).2 = ActErr.ok) :
    s.active = false ∧ (s.sinceZero = true ∨ s.since + penalty ≤ now) ∧
    (activate s penalty now).1 = ⟨true, false, now⟩ := by
  unfold activate at *
  by_cases ha : s.active = true
  · simp [ha] at h
  · by_cases ht : tooSoon s.sinceZero s.since penalty now = true
    · simp [ha, ht] at h
    · simp only [ha, ht]
      refine ⟨by simpa using ha, ?_, by simp⟩
      unfold tooSoon at ht
      cases hz : s.sinceZero
      · right; simp [hz] at ht; omega
      · left; rfl

theorem activate_rejected_unchanged (s : VS) (penalty now : Int) (h : (activate s penalty now).2 ≠ ActErr.ok) :
    (activate s penalty now).1 = s := by
  unfold activate at *
  by_cases ha : s.active = true
  · simp [ha]
  · by_cases ht : tooSoon s.sinceZero s.since penalty now = true
    · simp [ha, ht]
    · simp [ha, ht] at h

/-- PROPERTY (oracle path): MissReport changes a status only if the validator was active with
    `Since` strictly before the request time; it then becomes inactive, stamped `now`. -/
theorem miss_genuine (s : VS) (requestTime now : Int) (h : missReport s requestTime now ≠ s) :
    s.active = true ∧ s.since < requestTime ∧ missReport s requestTime now = ⟨false, false, now⟩ := by
  unfold missReport at *
  by_cases hm : missApplies s.active s.since requestTime = true
  · simp only [hm, if_true]
    unfold missApplies at hm
    simp at hm
    exact ⟨hm.1, hm.2, trivial⟩
  · simp [hm] at h

/-- A validator activated at or after the request time is never deactivated for it. -/
theorem active_after_request_safe (s : VS) (requestTime now : Int) (h : requestTime ≤ s.since) :
    missReport s requestTime now = s := by
  unfold missReport missApplies
  have : ¬ s.since < requestTime := by omega
  simp [this]

/-- MissReport never activates. -/
theorem miss_never_activates (s : VS) (requestTime now : Int) (h : s.active = false) :
    (missReport s requestTime now).active = false := by
  unfold missReport missApplies; simp [h]

inductive Op
  | activate (penalty now : Int)
  | miss (requestTime now : Int)

def apply (s : VS) : Op → VS
  | .activate p n => (activate s p n).1
  | .miss r n => missReport s r n

theorem active_needs_activate (ops : List Op) :
    ∀ (s : VS), (ops.foldl apply s).active = true → s.active = true ∨ ∃ p n, Op.activate p n ∈ ops := by
  induction ops with
  | nil => intro s h; exact Or.inl h
  | cons op rest ih =>
    intro s h
    simp only [List.foldl] at h
    rcases ih (apply s op) h with h1 | ⟨p, n, hm⟩
    · cases op with
      | activate p n => exact Or.inr ⟨p, n, List.mem_cons_self ..⟩
      | miss r n =>
        left
        by_cases hs : s.active = true
        · exact hs
        · have := miss_never_activates s r n (by simpa using hs)
          simp only [apply] at h1; rw [this] at h1; cases h1
    · exact Or.inr ⟨p, n, List.mem_cons_of_mem _ hm⟩

/-- PROPERTY: a validator is oracle-active only after explicitly activating — over every history of
    status operations from the initial (inactive) state. -/
theorem inactive_until_activated (ops : List Op) (h : (ops.foldl apply VS.initial).active = true) :
    ∃ p n, Op.activate p n ∈ ops := by
  rcases active_needs_activate ops VS.initial h with h0 | h1
  · cases h0
  · exact h1

/-- PROPERTY (feeds path): a miss is reported only when BOTH the clock bound and the height bound
    have passed every excuse: feed-list update + grace, activation + grace and last price + interval. -/
theorem feeds_miss_genuine (interval lastUpd lastUpdBlock : Int) (hasPrice : Bool)
    (priceTs priceBlock since blockTime blockHeight grace : Int)
    (h : checkMiss interval lastUpd lastUpdBlock hasPrice priceTs priceBlock since blockTime blockHeight grace = true) :
    blockTime > lastUpd + grace ∧ blockTime > since + grace ∧ (hasPrice = true → blockTime > priceTs + interval) ∧
    blockHeight > lastUpdBlock + grace / 3 ∧ (hasPrice = true → blockHeight > priceBlock + interval / 3) := by
  unfold checkMiss maxGuaranteeBlockTime at h
  cases hasPrice <;> simp at h <;> refine ⟨by omega, by omega, ?_, by omega, ?_⟩ <;> intro hh <;> first | omega | cases hh

/-- …and conversely it IS reported once all of them have passed (the rule is exact). -/
theorem feeds_miss_exact (interval lastUpd lastUpdBlock : Int) (hasPrice : Bool)
    (priceTs priceBlock since blockTime blockHeight grace : Int)
    (h1 : blockTime > lastUpd + grace) (h2 : blockTime > since + grace) (h3 : hasPrice = true → blockTime > priceTs + interval)
    (h4 : blockHeight > lastUpdBlock + grace / 3) (h5 : hasPrice = true → blockHeight > priceBlock + interval / 3) :
    checkMiss interval lastUpd lastUpdBlock hasPrice priceTs priceBlock since blockTime blockHeight grace = true := by
  unfold checkMiss maxGuaranteeBlockTime
  cases hasPrice
  · simp; omega
  · have := h3 rfl; have := h5 rfl; simp; omega

/-- PROPERTY: a validator with a sufficiently recent price never misses. -/
theorem fresh_price_never_miss (interval lastUpd lastUpdBlock priceTs priceBlock since blockTime blockHeight grace : Int)
    (h : priceTs + interval ≥ blockTime) :
    checkMiss interval lastUpd lastUpdBlock true priceTs priceBlock since blockTime blockHeight grace = false := by
  unfold checkMiss; simp; omega

/-- A validator activated in this very block (Since = block time) is safe on the feeds path: the
    grace clause holds for any grace ≥ 0, and MissReport with request time = now is a no-op. -/
theorem activated_this_block_safe (interval lastUpd lastUpdBlock : Int) (hasPrice : Bool)
    (priceTs priceBlock blockHeight grace nowNs : Int) (hg : 0 ≤ grace) :
    checkMiss interval lastUpd lastUpdBlock hasPrice priceTs priceBlock (unixOf nowNs) (unixOf nowNs) blockHeight grace = false ∧
    missReport ⟨true, false, nowNs⟩ nowNs nowNs = ⟨true, false, nowNs⟩ := by
  constructor
  · unfold checkMiss; simp; omega
  · exact active_after_request_safe _ _ _ (Int.le_refl _)

/-- The sweep of one feed changes a validator's status only if that validator is in the sweep list
    with a genuine miss for this feed. -/
theorem sweepFeed_changes_only_missers (interval lastUpd lastUpdBlock nowNs height grace : Int) (fi : Nat)
    (vals : List ValView) (st : Nat → VS) (i : Nat)
    (h : sweepFeed interval lastUpd lastUpdBlock nowNs height grace fi vals st i ≠ st i) :
    ∃ v ∈ vals, v.idx = i ∧
      checkMiss interval lastUpd lastUpdBlock (v.prices.getD fi (false, 0, 0)).1 (v.prices.getD fi (false, 0, 0)).2.1
        (v.prices.getD fi (false, 0, 0)).2.2 (unixOf v.capturedSince) (unixOf nowNs) height grace = true := by
  induction vals generalizing st with
  | nil => simp [sweepFeed] at h
  | cons v rest ih =>
    simp only [sweepFeed] at h
    by_cases hm : checkMiss interval lastUpd lastUpdBlock (v.prices.getD fi (false, 0, 0)).1 (v.prices.getD fi (false, 0, 0)).2.1
        (v.prices.getD fi (false, 0, 0)).2.2 (unixOf v.capturedSince) (unixOf nowNs) height grace = true
    · by_cases hi : v.idx = i
      · exact ⟨v, List.mem_cons_self .., hi, hm⟩
      · simp only [hm, if_true] at h
        have := ih (fun j => if j = v.idx then missReport (st v.idx) nowNs nowNs else st j) (by
          have hne : ¬ i = v.idx := fun e => hi e.symm
          simpa [hne] using h)
        obtain ⟨w, hw, h1, h2⟩ := this
        exact ⟨w, List.mem_cons_of_mem _ hw, h1, h2⟩
    · have hm' : checkMiss interval lastUpd lastUpdBlock (v.prices.getD fi (false, 0, 0)).1 (v.prices.getD fi (false, 0, 0)).2.1
        (v.prices.getD fi (false, 0, 0)).2.2 (unixOf v.capturedSince) (unixOf nowNs) height grace = false := by simpa using hm
      simp only [hm', Bool.false_eq_true, if_false] at h
      obtain ⟨w, hw, h1, h2⟩ := ih st h
      exact ⟨w, List.mem_cons_of_mem _ hw, h1, h2⟩

/-! non-vacuity -/
example : (activate VS.initial 5 100).2 = ActErr.ok := by decide
example : (activate ⟨false, false, 100⟩ 5 104).2 = ActErr.tooSoon := by decide
example : (activate ⟨false, false, 100⟩ 5 105).2 = ActErr.ok := by decide
example : missReport ⟨true, false, 100⟩ 101 200 ≠ ⟨true, false, 100⟩ := by decide
example : checkMiss 60 0 0 true 100 10 0 161 31 30 = true := by decide
example : checkMiss 60 0 0 true 100 10 0 160 31 30 = false := by decide

/-! ## the price-submission handler (what "the validator's latest price" is) -/

/-- TIE TO SOURCE: the normalised text of feeds `SubmitSignalPrices`, `ValidateValidatorRequiredToSend` and
    `NewValidatorPrice` regenerated from /repo on this run is the reviewed text `Model/FeedsSubmit.lean` was written from. -/
theorem generated_submit_sources_match :
    Generated.Status.src_SubmitSignalPrices = ExpectedSrc.FeedsSubmit.src_SubmitSignalPrices ∧
    Generated.Status.src_ValidateValidatorRequiredToSend = ExpectedSrc.FeedsSubmit.src_ValidateValidatorRequiredToSend ∧
    Generated.Status.src_NewValidatorPrice = ExpectedSrc.FeedsSubmit.src_NewValidatorPrice := ⟨rfl, rfl, rfl⟩

/-- PROPERTY (the timestamp that miss detection and freshness read is the block's): every price of an accepted submission is
    stored with the time and height of the block that carried it, for EVERY previous list, feed order and message -/
theorem accepted_prices_are_stamped_with_block_time (feeds : List String) (prev : List FeedsSubmit.VP) (msg : List (String × Nat × Nat))
    (msgTs blockTime height cooldown disc : Int) (required : Bool) (out : List FeedsSubmit.VP)
    (h : FeedsSubmit.submit feeds prev msg msgTs blockTime height cooldown disc required = .ok out) :
    out.length = feeds.length ∧
    ∀ m ∈ msg, ∃ (i : Nat) (v : FeedsSubmit.VP), FeedsSubmit.idxOf feeds m.1 = some i ∧ out[i]? = some v ∧ v.sid = m.1 ∧ v.ts = blockTime ∧ v.bh = height :=
  FeedsSubmit.accepted_prices_are_stamped feeds prev msg msgTs blockTime height cooldown disc required out h

/-- PROPERTY (a kept price stays with its signal when the feed list is re-ranked) -/
theorem stored_prices_follow_their_signal (feeds : List String) (prev : List FeedsSubmit.VP) (msg : List (String × Nat × Nat))
    (msgTs blockTime height cooldown disc : Int) (required : Bool) (out : List FeedsSubmit.VP)
    (h : FeedsSubmit.submit feeds prev msg msgTs blockTime height cooldown disc required = .ok out) (i : Nat) (v : FeedsSubmit.VP) (hv : out[i]? = some v) :
    v = FeedsSubmit.VP.zero ∨ (v ∈ prev ∧ feeds[i]? = some v.sid) ∨ (FeedsSubmit.Stamped blockTime height msg v ∧ feeds[i]? = some v.sid) :=
  FeedsSubmit.stored_entries_follow_their_signal feeds prev msg msgTs blockTime height cooldown disc required out h i v hv

/-- PROPERTY (the sender's clock only gates admission; it is never stored) -/
theorem sender_timestamp_is_not_stored (feeds : List String) (prev : List FeedsSubmit.VP) (msg : List (String × Nat × Nat))
    (t1 t2 blockTime height cooldown disc : Int) (required : Bool)
    (h1 : FeedsSubmit.absI (t1 - blockTime) ≤ disc) (h2 : FeedsSubmit.absI (t2 - blockTime) ≤ disc) :
    FeedsSubmit.submit feeds prev msg t1 blockTime height cooldown disc required = FeedsSubmit.submit feeds prev msg t2 blockTime height cooldown disc required :=
  FeedsSubmit.sender_timestamp_is_not_stored feeds prev msg t1 t2 blockTime height cooldown disc required h1 h2

end C15
