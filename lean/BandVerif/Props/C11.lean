/-
C11 — signed payloads are bound to their request and decode to on-chain data.
Models: Model/Encoding.lean (bytes, header, originators, ABI payloads and their readers), Model/SigningMsg.lean
(content kinds, tags, routes, message), Model/Tick.lean (pkg/tickmath).  Lemmas: Lemmas/Encoding*.lean,
Lemmas/Tick*.lean.  `H` is the 32-byte hash (Keccak-256 in the driver; a parameter here).
-/
import BandVerif.Lemmas.EncodingRT
import BandVerif.Lemmas.TickApprox
import BandVerif.Model.EncodingSrc
import BandVerif.Exec.Keccak

namespace C11
open BandVerif BandVerif.Enc

/-- TIE to the source (1): the normalised text of every encoder function and ABI type declaration
    regenerated from /repo on this run is the reviewed text the models were written from. -/
theorem generated_sources_match :
    Generated.SigningEnc.src_EncodeSigning = ExpectedSrc.src_EncodeSigning ∧ Generated.SigningEnc.src_wrapHandler = ExpectedSrc.src_wrapHandler ∧
    Generated.SigningEnc.src_DirectEncode = ExpectedSrc.src_DirectEncode ∧ Generated.SigningEnc.src_TunnelEncode = ExpectedSrc.src_TunnelEncode ∧
    Generated.SigningEnc.src_tssHandler = ExpectedSrc.src_tssHandler ∧ Generated.SigningEnc.src_bandtssHandler = ExpectedSrc.src_bandtssHandler ∧
    Generated.SigningEnc.src_oracleHandler = ExpectedSrc.src_oracleHandler ∧ Generated.SigningEnc.src_feedsHandler = ExpectedSrc.src_feedsHandler ∧
    Generated.SigningEnc.src_tunnelHandler = ExpectedSrc.src_tunnelHandler ∧ Generated.SigningEnc.src_feedsEncodeTSS = ExpectedSrc.src_feedsEncodeTSS ∧
    Generated.SigningEnc.src_tunnelEncodeTSS = ExpectedSrc.src_tunnelEncodeTSS ∧ Generated.SigningEnc.src_ToRelayPrices = ExpectedSrc.src_ToRelayPrices ∧
    Generated.SigningEnc.src_ToRelayTickPrices = ExpectedSrc.src_ToRelayTickPrices ∧ Generated.SigningEnc.src_StringToBytes32 = ExpectedSrc.src_StringToBytes32 ∧
    Generated.SigningEnc.abi_priceABI = ExpectedSrc.abi_priceABI ∧ Generated.SigningEnc.abi_int64ABI = ExpectedSrc.abi_int64ABI ∧
    Generated.SigningEnc.abi_feedsPriceDataArgs = ExpectedSrc.abi_feedsPriceDataArgs ∧ Generated.SigningEnc.abi_packetABI = ExpectedSrc.abi_packetABI ∧
    Generated.SigningEnc.abi_packetArgs = ExpectedSrc.abi_packetArgs ∧ Generated.SigningEnc.abi_fullResult = ExpectedSrc.abi_fullResult ∧
    Generated.SigningEnc.abi_fullArgs = ExpectedSrc.abi_fullArgs ∧ Generated.SigningEnc.abi_partialResult = ExpectedSrc.abi_partialResult ∧
    Generated.SigningEnc.abi_partialArgs = ExpectedSrc.abi_partialArgs ∧
    Generated.Tick.src_TickToPrice = ExpectedSrc.src_TickToPrice ∧ Generated.Tick.src_PriceToTick = ExpectedSrc.src_PriceToTick ∧
    Generated.Tick.src_tickToPriceX96 = ExpectedSrc.src_tickToPriceX96 ∧ Generated.Tick.src_mulShift = ExpectedSrc.src_mulShift := by
  refine ⟨?_, ?_, ?_, ?_, ?_, ?_, ?_, ?_, ?_, ?_, ?_, ?_, ?_, ?_, ?_, ?_, ?_, ?_, ?_, ?_, ?_, ?_, ?_, ?_, ?_, ?_, ?_⟩ <;> rfl

/-- TIE to the source (2): constants, which content kinds are internal, the routes. -/
theorem generated_matches_model :
    Generated.Tick.maxTick = Tick.maxTick ∧ Generated.Tick.offset = Tick.offset ∧ Generated.Tick.priceX96AtBinaryTicks.length = 18 ∧
    Generated.SigningEnc.internalText = false ∧ Generated.SigningEnc.internalFeeds = false ∧ Generated.SigningEnc.internalOracle = false ∧
    Generated.SigningEnc.internalTunnel = true ∧ Generated.SigningEnc.internalTransition = true ∧ Generated.SigningEnc.userGuardBeforeCreate = true ∧
    Generated.SigningEnc.routeText = Keccak.ofString "tss" ∧ Generated.SigningEnc.routeFeeds = Keccak.ofString "feeds" ∧
    Generated.SigningEnc.routeOracle = Keccak.ofString "oracle" ∧ Generated.SigningEnc.routeTunnel = Keccak.ofString "tunnel" ∧
    Generated.SigningEnc.routeTransition = Keccak.ofString "bandtss" := by
  refine ⟨rfl, rfl, rfl, rfl, rfl, rfl, rfl, rfl, rfl, ?_, ?_, ?_, ?_, ?_⟩ <;> decide +kernel

/-- PROPERTY (tags): every 4-byte tag in the source is the documented Keccak-256 prefix of its name (computed by the
    kernel with the Lean Keccak of Exec/Keccak.lean), and the tags of one module's encoders are pairwise distinct. -/
theorem tags_are_keccak_prefixes :
    Generated.SigningEnc.tagDirectOriginator = (Keccak.keccak256 (Keccak.ofString "DirectOriginator")).take 4 ∧
    Generated.SigningEnc.tagTunnelOriginator = (Keccak.keccak256 (Keccak.ofString "TunnelOriginator")).take 4 ∧
    Generated.SigningEnc.tagText = (Keccak.keccak256 (Keccak.ofString "Text")).take 4 ∧
    Generated.SigningEnc.tagTransition = (Keccak.keccak256 (Keccak.ofString "Transition")).take 4 ∧
    Generated.SigningEnc.tagProto = (Keccak.keccak256 (Keccak.ofString "Proto")).take 4 ∧
    Generated.SigningEnc.tagFullABI = (Keccak.keccak256 (Keccak.ofString "FullABI")).take 4 ∧
    Generated.SigningEnc.tagPartialABI = (Keccak.keccak256 (Keccak.ofString "PartialABI")).take 4 ∧
    Generated.SigningEnc.tagFixedPointABI = (Keccak.keccak256 (Keccak.ofString "FixedPointABI")).take 4 ∧
    Generated.SigningEnc.tagTickABI = (Keccak.keccak256 (Keccak.ofString "TickABI")).take 4 := by
  refine ⟨?_, ?_, ?_, ?_, ?_, ?_, ?_, ?_, ?_⟩ <;> decide +kernel

theorem tags_distinct :
    Generated.SigningEnc.tagDirectOriginator ≠ Generated.SigningEnc.tagTunnelOriginator ∧
    Generated.SigningEnc.tagProto ≠ Generated.SigningEnc.tagFullABI ∧ Generated.SigningEnc.tagProto ≠ Generated.SigningEnc.tagPartialABI ∧ Generated.SigningEnc.tagFullABI ≠ Generated.SigningEnc.tagPartialABI ∧
    Generated.SigningEnc.tagFixedPointABI ≠ Generated.SigningEnc.tagTickABI ∧
    ([Keccak.ofString "tss", Keccak.ofString "feeds", Keccak.ofString "oracle", Keccak.ofString "tunnel", Keccak.ofString "bandtss"].map
      (fun r => (Keccak.keccak256 r).take 4)).Nodup := by
  refine ⟨by decide, by decide, by decide, by decide, by decide, ?_⟩
  decide +kernel

/-- PROPERTY (header binds the request): with 32-byte originator hashes and 64-bit time / signing id, the signed
    message determines the originator hash, the block time, the signing id and the content. -/
theorem message_injective (oh oh' : Bytes) (t t' sid sid' : Nat) (c c' : Bytes) (h1 : oh.length = 32) (h2 : oh'.length = 32)
    (ht : t < 2 ^ 64) (ht' : t' < 2 ^ 64) (hs : sid < 2 ^ 64) (hs' : sid' < 2 ^ 64)
    (h : encodeSigning oh t sid c = encodeSigning oh' t' sid' c') : oh = oh' ∧ t = t' ∧ sid = sid' ∧ c = c' := by
  unfold encodeSigning at h
  rw [List.append_assoc, List.append_assoc, List.append_assoc, List.append_assoc] at h
  obtain ⟨e1, r1⟩ := List.append_inj h (by rw [h1, h2])
  obtain ⟨e2, r2⟩ := List.append_inj r1 (by simp)
  obtain ⟨e3, r3⟩ := List.append_inj r2 (by simp)
  exact ⟨e1, be64_inj _ _ ht ht' e2, be64_inj _ _ hs hs' e3, r3⟩

/-- PROPERTY: distinct requests (distinct signing ids) never share a signed message. -/
theorem distinct_requests_distinct_messages (H : Bytes → Bytes) (hH : ∀ x, (H x).length = 32) (o o' : Originator) (t t' sid sid' : Nat)
    (route route' c c' : Bytes) (ht : t < 2 ^ 64) (ht' : t' < 2 ^ 64) (hs : sid < 2 ^ 64) (hs' : sid' < 2 ^ 64) (hne : sid ≠ sid') :
    message H o t sid route c ≠ message H o' t' sid' route' c' := by
  intro h
  exact hne (message_injective _ _ t t' sid sid' _ _ (hH _) (hH _) ht ht' hs hs' h).2.2.1

/-- PROPERTY (originators): the encoded originator determines its kind and, up to the hash, every field; the tunnel id
    is carried in full.  (Fields are hashed separately, so delimiter-like or empty strings cannot be confused.) -/
theorem originator_injective (H : Bytes → Bytes) (hH : ∀ x, (H x).length = 32) :
    (∀ a b : Direct, directEncode H Generated.SigningEnc.tagDirectOriginator a = directEncode H Generated.SigningEnc.tagDirectOriginator b →
        H a.chain = H b.chain ∧ H a.requester = H b.requester ∧ H a.memo = H b.memo) ∧
    (∀ a b : TunnelO, a.tunnelID < 2 ^ 64 → b.tunnelID < 2 ^ 64 →
        tunnelEncode H Generated.SigningEnc.tagTunnelOriginator a = tunnelEncode H Generated.SigningEnc.tagTunnelOriginator b →
        H a.chain = H b.chain ∧ a.tunnelID = b.tunnelID ∧ H a.dstChain = H b.dstChain ∧ H a.dstAddr = H b.dstAddr) ∧
    (∀ (a : Direct) (b : TunnelO), directEncode H Generated.SigningEnc.tagDirectOriginator a ≠ tunnelEncode H Generated.SigningEnc.tagTunnelOriginator b) := by
  refine ⟨fun a b h => ?_, fun a b ha hb h => ?_, fun a b h => ?_⟩
  · unfold directEncode at h
    rw [List.append_assoc, List.append_assoc, List.append_assoc, List.append_assoc] at h
    obtain ⟨_, r1⟩ := List.append_inj h rfl
    obtain ⟨e2, r2⟩ := List.append_inj r1 (by rw [hH, hH])
    obtain ⟨e3, r3⟩ := List.append_inj r2 (by rw [hH, hH])
    exact ⟨e2, e3, r3⟩
  · unfold tunnelEncode at h
    rw [List.append_assoc, List.append_assoc, List.append_assoc, List.append_assoc, List.append_assoc, List.append_assoc] at h
    obtain ⟨_, r1⟩ := List.append_inj h rfl
    obtain ⟨e2, r2⟩ := List.append_inj r1 (by rw [hH, hH])
    obtain ⟨e3, r3⟩ := List.append_inj r2 (by simp)
    obtain ⟨e4, r4⟩ := List.append_inj r3 (by rw [hH, hH])
    exact ⟨e2, be64_inj _ _ ha hb e3, e4, r4⟩
  · have := congrArg List.length h
    simp [directEncode, tunnelEncode, hH, Generated.SigningEnc.tagDirectOriginator, Generated.SigningEnc.tagTunnelOriginator] at this

/-- PROPERTY: users cannot obtain signatures over module-internal content kinds. -/
theorem internal_kinds_rejected :
    userMayRequest .tunnel = false ∧ userMayRequest .transition = false ∧
    userMayRequest .text = true ∧ userMayRequest .feeds = true ∧ userMayRequest .oracle = true := by
  refine ⟨rfl, rfl, rfl, rfl, rfl⟩

/-- PROPERTY (payloads decode back): every ABI payload, read by a decoder that follows the ABI offsets, gives back
    exactly the encoded values. -/
theorem feeds_roundtrip (ps : List RelayPrice) (ts : Int) (hw : ∀ p ∈ ps, p.sid.length = 32 ∧ p.price < 2 ^ 64) (hn : ps.length < 2 ^ 64)
    (ht : -(2 ^ 63 : Int) ≤ ts ∧ ts < 2 ^ 63) : decFeeds (encFeeds ps ts) = some (ps, ts) :=
  decFeeds_encFeeds ps ts (fun p hp => ⟨(hw p hp).1, by have := (hw p hp).2; omega⟩) (by omega) ⟨by omega, by omega⟩

theorem packet_roundtrip (seq : Nat) (ps : List RelayPrice) (ts : Int) (hs : seq < 2 ^ 64)
    (hw : ∀ p ∈ ps, p.sid.length = 32 ∧ p.price < 2 ^ 64) (hn : ps.length < 2 ^ 64) (ht : -(2 ^ 63 : Int) ≤ ts ∧ ts < 2 ^ 63) :
    decPacket (encPacket seq ps ts) = some (seq, ps, ts) :=
  decPacket_encPacket seq ps ts (by omega) (fun p hp => ⟨(hw p hp).1, by have := (hw p hp).2; omega⟩) (by omega) ⟨by omega, by omega⟩

theorem full_result_roundtrip (r : OResult) (h : WFResult r) : decFull (encFull r) = some r := decFull_encFull r h
theorem partial_result_roundtrip (r : PResult) (h : WFPartial r) : decPartial (encPartial r) = some r := decPartial_encPartial r h

/-- PROPERTY (signal ids): a signal id of at most 32 bytes without a leading NUL is recovered from its bytes32 form. -/
theorem signal_id_roundtrip (s : Bytes) (hl : s.length ≤ 32) (h0 : s.head? ≠ some 0) :
    ∃ b, stringToBytes32 s = some b ∧ b.length = 32 ∧ stripZeros b = s := by
  unfold stringToBytes32
  rw [if_neg (by omega)]
  refine ⟨_, rfl, by simp; omega, ?_⟩
  generalize 32 - s.length = k
  induction k with
  | zero =>
    simp only [List.replicate_zero, List.nil_append]
    cases s with
    | nil => rfl
    | cons a rest =>
      cases a with
      | zero => simp at h0
      | succ a => rfl
  | succ k ih => simp only [List.replicate_succ, List.cons_append, stripZeros]; exact ih

/-- PROPERTY (tick prices): tickToPriceX96 is strictly increasing over the whole valid tick range (checked by kernel
    evaluation of all 524287 ticks), so "the largest tick whose price does not exceed p" is well defined. -/
theorem tick_price_strictly_increasing (t1 t2 : Int) (h1 : Tick.inRange t1 = true) (h2 : Tick.inRange t2 = true) (h : t1 < t2) :
    Tick.x96 t1 < Tick.x96 t2 := Tick.x96_strictMono t1 t2 h1 h2 h

/-- PROPERTY (tick conversion): for EVERY positive uint64 price, PriceToTick succeeds and returns the largest valid tick
    whose price does not exceed the input.  No hypothesis on the logarithm approximation is left: `approxTick` is proved
    monotone in the price (bit-level: `msbOf`, the mantissa shift and the sixteen squaring steps of `logGo` are each
    monotone, `Lemmas/TickApproxDef.lean`), so it is enough to look at the first and last price of every tick segment,
    and those 2 × 443 638 evaluations are done by the kernel (`Lemmas/TickApprox/P*.lean`, 434 chunks). -/
theorem price_to_tick_largest (price : Nat) (h1 : 1 ≤ price) (h2 : price < 2 ^ 64) :
    ∃ r, Tick.priceToTick price = some r ∧ Tick.IsLargest price (r - Tick.offset) := by
  obtain ⟨r, hr⟩ := Tick.priceToTick_total price h1 h2
  exact ⟨r, hr, Tick.priceToTick_largest price r h1 h2 hr⟩

/-- the logarithm approximation is within one tick of the true tick for every uint64 price -/
theorem approximation_within_one_tick (price : Nat) (h1 : 1 ≤ price) (h2 : price < 2 ^ 64) :
    ∃ T : Int, Tick.x96 T ≤ price * Tick.q96 ∧ price * Tick.q96 < Tick.x96 (T + 1) ∧
      T - 1 ≤ Tick.approxTick price ∧ Tick.approxTick price ≤ T + 1 := by
  obtain ⟨T, _, _, a, b, c, d⟩ := Tick.approx_within_one price h1 h2
  exact ⟨T, a, b, c, d⟩

/-- the approximate tick is monotone in the price -/
theorem approximation_monotone (p q : Nat) (hp : 1 ≤ p) (hpq : p ≤ q) (hq : q < 2 ^ 64) :
    Tick.approxTick p ≤ Tick.approxTick q := Tick.approxTick_mono p q hp hpq hq

/-- price 0 is rejected (the Go code returns an error) -/
theorem price_to_tick_rejects_zero : Tick.priceToTick 0 = none := by decide

/-! non-vacuity -/
example : decFeeds (encFeeds [⟨List.replicate 31 0 ++ [65], 7⟩] 1700000000) = some ([⟨List.replicate 31 0 ++ [65], 7⟩], 1700000000) := by decide +kernel
example : Tick.priceToTick 1000000000 = some 262144 ∧ Tick.priceToTick 1 = some 54900 ∧ Tick.priceToTick 18446744073709551615 = some 498537 := by decide +kernel
example : (Keccak.keccak256 []).take 4 = [0xc5, 0xd2, 0x46, 0x01] := by decide +kernel

end C11
