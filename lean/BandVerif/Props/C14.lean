/-
C14 — block reward allocation conserves coins and pays only active participants.
Model: Model/Reward.lean (LegacyDec truncation semantics, per denom). Lemmas: Lemmas/Reward.lean.
Quantifier of the property: reward percentages 0..100, community tax 0..1, arbitrary pools/powers.
-/
import BandVerif.Lemmas.Reward
import BandVerif.Generated.ModuleOrder

namespace C14
open BandVerif.Reward

/-- oracle share: exactly ⌊pool·pct/100⌋ leaves the fee collector, never more than the pool (so the
    bank transfer cannot fail); the community fund and every validator reward are non-negative, no
    DecCoins `Sub` goes negative (no panic), the remainder handed to the proposer is non-negative, and
    everything transferred is accounted for: community fund + rewards + remainder = transferred. -/
theorem oracle_conserves (pool pct tax : Int) (powers : List Int) (o : OracleOut)
    (hpool : 0 ≤ pool) (h0 : 0 ≤ pct) (h100 : pct ≤ 100) (ht0 : 0 ≤ tax) (ht1 : tax ≤ E18)
    (hp : ∀ p ∈ powers, 0 ≤ p) (h : oracleAlloc pool pct tax powers = some o) :
    o.transferred = pool * pct / 100 ∧ 0 ≤ o.transferred ∧ o.transferred ≤ pool ∧
    0 ≤ o.communityFund ∧ o.communityFund ≤ o.transferred ∧
    (∀ r ∈ o.rewards, 0 ≤ r) ∧ 0 ≤ o.remaining ∧
    o.communityFund * E18 + o.rewards.sum + o.remaining = o.transferred * E18 := by
  unfold oracleAlloc at h
  by_cases hz : powers.sum = 0
  · simp [hz] at h
  · simp only [hz, if_false] at h
    have htot : 0 < powers.sum := lt_of_le_of_ne (sum_nonneg' _ hp) (Ne.symm hz)
    rw [share_eq] at h
    obtain ⟨hs0, hs1⟩ := share_bounds pool pct hpool h0 h100
    cases h
    simp only []
    set R := pool * pct / 100 with hR
    have hcf0 : 0 ≤ truncInt (mulTrunc (R * E18) tax) := by
      unfold truncInt mulTrunc
      exact ediv_nonneg' (ediv_nonneg' (by have := E18_pos; positivity) E18_pos) E18_pos
    have hcf1 : truncInt (mulTrunc (R * E18) tax) ≤ R := by
      unfold truncInt mulTrunc
      apply ediv_le_of_le_mul' E18_pos
      apply ediv_le_of_le_mul' E18_pos
      exact mul_le_mul_of_nonneg_left ht1 (mul_nonneg hs0 E18_pos.le)
    have hX : 0 ≤ R * E18 - truncInt (mulTrunc (R * E18) tax) * E18 := by
      have := E18_pos; nlinarith
    obtain ⟨hf1, hf2⟩ := fractions_le powers hp htot
    have hq : ∀ q ∈ powers.map (fun p => quoTrunc (p * E18) (powers.sum * E18)), 0 ≤ q := by
      intro q hqm; obtain ⟨p, hpm, rfl⟩ := List.mem_map.mp hqm; exact hf2 p hpm
    obtain ⟨hr1, hr2⟩ := rewards_le _ _ hX hq hf1
    rw [List.map_map] at hr1
    refine ⟨by first | rfl | trivial, hs0, hs1, hcf0, hcf1, ?_, ?_, by ring⟩
    · intro r hr
      obtain ⟨p, hpm, rfl⟩ := List.mem_map.mp hr
      exact hr2 _ (List.mem_map.mpr ⟨p, hpm, rfl⟩)
    · have : (powers.map fun p => mulTrunc (R * E18 - truncInt (mulTrunc (R * E18) tax) * E18)
          (quoTrunc (p * E18) (powers.sum * E18))).sum ≤ R * E18 - truncInt (mulTrunc (R * E18) tax) * E18 := hr1
      linarith

/-- nothing is allocated when no oracle-active validator voted (total active power 0) -/
theorem oracle_nothing_without_active (pool pct tax : Int) (powers : List Int) (h : powers.sum = 0) :
    oracleAlloc pool pct tax powers = none := by
  unfold oracleAlloc; simp [h]

/-- each rewarded validator gets at most its pro-rata share of the post-tax reward -/
theorem oracle_share_upper (X p P : Int) (hX : 0 ≤ X) (hp : 0 ≤ p) (hP : 0 < P) :
    mulTrunc X (quoTrunc (p * E18) (P * E18)) * P ≤ X * p := by
  unfold mulTrunc quoTrunc
  have hc : 0 < P * E18 := by have := E18_pos; positivity
  have h1 := ediv_mul_le' (p * E18 * E18) hc
  have hq0 : 0 ≤ p * E18 * E18 / (P * E18) := ediv_nonneg' (by have := E18_pos; positivity) hc
  have h2 := ediv_mul_le' (X * (p * E18 * E18 / (P * E18))) E18_pos
  -- (X*q/E18)*E18 ≤ X*q  and  q*(P*E18) ≤ p*E18*E18
  have h3 : X * (p * E18 * E18 / (P * E18)) / E18 * E18 * P ≤ X * p * E18 := by
    have : X * (p * E18 * E18 / (P * E18)) * (P * E18) ≤ X * (p * E18 * E18) := by nlinarith
    have hPpos : 0 ≤ P := le_of_lt hP
    have : X * (p * E18 * E18 / (P * E18)) / E18 * E18 * P * E18 ≤ X * p * E18 * E18 := by nlinarith
    exact le_of_mul_le_mul_right this E18_pos
  have : X * (p * E18 * E18 / (P * E18)) / E18 * P * E18 ≤ X * p * E18 := by linarith
  exact le_of_mul_le_mul_right this E18_pos

/-- bandtss share: exactly ⌊pool·pct/100⌋ leaves the fee collector; every eligible member gets the same
    non-negative integer amount; `n · perMember ≤ transferred`, so the `Coins.Sub` for the community
    fund cannot panic, and members + community fund = transferred. -/
theorem tss_conserves (pool pct tax n : Int) (o : TssOut)
    (hpool : 0 ≤ pool) (h0 : 0 ≤ pct) (h100 : pct ≤ 100) (ht0 : 0 ≤ tax) (ht1 : tax ≤ E18) (hn : 0 < n)
    (h : tssAlloc pool pct tax n = some o) :
    o.transferred = pool * pct / 100 ∧ 0 ≤ o.transferred ∧ o.transferred ≤ pool ∧
    0 ≤ o.perMember ∧ 0 ≤ o.communityFund ∧ o.perMember * n + o.communityFund = o.transferred := by
  unfold tssAlloc at h
  simp only [ne_of_gt hn, if_false] at h
  rw [share_eq] at h
  obtain ⟨hs0, hs1⟩ := share_bounds pool pct hpool h0 h100
  cases h
  simp only []
  set R := pool * pct / 100 with hR
  have hE := E18_pos
  have hnE : 0 < n * E18 := by positivity
  have hx0 : 0 ≤ mulTrunc (R * E18) (E18 - tax) := by
    unfold mulTrunc; exact ediv_nonneg' (mul_nonneg (mul_nonneg hs0 hE.le) (by linarith)) hE
  have hx1 : mulTrunc (R * E18) (E18 - tax) ≤ R * E18 := by
    unfold mulTrunc; apply ediv_le_of_le_mul' hE
    exact mul_le_mul_of_nonneg_left (by linarith) (mul_nonneg hs0 hE.le)
  have hf0 : 0 ≤ quoTrunc E18 (n * E18) := by unfold quoTrunc; exact ediv_nonneg' (by positivity) hnE
  have hf1 : quoTrunc E18 (n * E18) * n ≤ E18 := by
    unfold quoTrunc
    have := ediv_mul_le' (E18 * E18) hnE
    have h' : E18 * E18 / (n * E18) * n * E18 ≤ E18 * E18 := by nlinarith
    exact le_of_mul_le_mul_right h' hE
  have hper0 : 0 ≤ truncInt (mulTrunc (mulTrunc (R * E18) (E18 - tax)) (quoTrunc E18 (n * E18))) := by
    unfold truncInt; apply ediv_nonneg' _ hE
    unfold mulTrunc at hx0 ⊢; exact ediv_nonneg' (by positivity) hE
  have hper1 : truncInt (mulTrunc (mulTrunc (R * E18) (E18 - tax)) (quoTrunc E18 (n * E18))) * n ≤ R := by
    set x := mulTrunc (R * E18) (E18 - tax)
    set f := quoTrunc E18 (n * E18)
    have a1 := ediv_mul_le' (x * f) hE
    have a2 := ediv_mul_le' (x * f / E18) hE
    -- per*E18 ≤ x*f/E18 ; (x*f/E18)*E18 ≤ x*f ; x*f*n ≤ x*E18 ≤ R*E18*E18
    have b1 : x * f * n ≤ x * E18 := by nlinarith
    have b2 : truncInt (mulTrunc x f) * E18 * E18 ≤ x * f := by unfold truncInt mulTrunc; nlinarith
    have b3 : truncInt (mulTrunc x f) * n * E18 * E18 ≤ R * E18 * E18 := by
      have hn0 : 0 ≤ n := le_of_lt hn
      nlinarith
    have b4 : truncInt (mulTrunc x f) * n * E18 ≤ R * E18 := le_of_mul_le_mul_right (by linarith) hE
    exact le_of_mul_le_mul_right b4 hE
  refine ⟨by first | rfl | trivial, hs0, hs1, hper0, by linarith, by ring⟩

theorem tss_nothing_without_eligible (pool pct tax : Int) : tssAlloc pool pct tax 0 = none := by
  unfold tssAlloc; simp

/-- TIE TO SOURCE: begin-block order is mint → oracle → bandtss → distribution (regenerated from
    app/modules.go): the oracle share is taken first, bandtss takes its share of what remains, and the
    distribution module sees the rest. -/
theorem beginblock_order :
    let l := BandVerif.Generated.ModuleOrder.beginBlockers
    l.idxOf "minttypes" < l.idxOf "oracletypes" ∧ l.idxOf "oracletypes" < l.idxOf "bandtsstypes" ∧
    l.idxOf "bandtsstypes" < l.idxOf "distrtypes" ∧ l.idxOf "distrtypes" < l.length := by decide

/-! non-vacuity -/
example : oracleAlloc 1000 70 20000000000000000 [100, 1, 99] =
    some ⟨700, 14, [343000000000000000000, 3430000000000000000, 339570000000000000000], 0⟩ := by decide
example : tssAlloc 301 50 20000000000000000 3 = some ⟨150, 48, 6⟩ := by decide

end C14
