/-
C09 — committee selection is deterministic, exact-size, distinct and eligible.
Model: Model/Sampling.lean over an arbitrary stream of 64-bit draws (the HMAC-DRBG stream is
recomputed independently in Lean by the driver, Exec/Sha256.lean, and compared with Go).
-/
import BandVerif.Lemmas.SamplingBest

namespace C09
open BandVerif.Sampling

/-- ChooseOne: panics exactly when the weight sum overflows uint64 or is zero (`% 0`); otherwise the
    "unreachable" branch is unreachable and the index picked is in range with a positive weight. -/
theorem chooseOne_in_range (ws : List Nat) (x : Nat) :
    (chooseOne ws x = none ↔ (ws.sum ≥ two64 ∨ ws.sum = 0)) ∧
    (∀ i, chooseOne ws x = some i → i < ws.length ∧ 0 < ws.getD i 0) :=
  chooseOne_spec ws x

/-- ChooseSome over the index list 0..n-1: a returned sample has exactly `cnt` entries, all distinct,
    all valid indexes — for every weight vector and every stream. -/
theorem chooseSome_distinct_size (ws : List Nat) (cnt : Nat) (rand : Nat → Nat) (pos : Nat) (l : List Nat)
    (h : chooseSome cnt ws (List.range ws.length) rand pos = some l) :
    l.length = cnt ∧ l.Nodup ∧ ∀ i ∈ l, i < ws.length := by
  obtain ⟨h1, h2, h3⟩ := chooseSome_spec cnt ws _ rand pos l h
  exact ⟨h1, h3 List.nodup_range, fun i hi => List.mem_range.mp (h2 i hi)⟩

/-- …and with positive weights whose sum fits in uint64 and `cnt ≤ n` it never panics. -/
theorem chooseSome_never_panics (ws : List Nat) (cnt : Nat) (rand : Nat → Nat) (pos : Nat)
    (hcnt : cnt ≤ ws.length) (hp : ∀ w ∈ ws, 0 < w) (hs : ws.sum < two64) :
    ∃ l, chooseSome cnt ws (List.range ws.length) rand pos = some l :=
  chooseSome_total cnt ws _ rand pos (by simp) hcnt hp hs

/-- ChooseSomeMaxWeight returns one of the `tries` samplings (the try `t` starts at draw `t * cnt`),
    hence inherits exact size / distinctness / range; it returns the empty list only if no try beat 0. -/
theorem maxWeight_is_one_of_tries (ws : List Nat) (cnt tries : Nat) (rand : Nat → Nat) (l : List Nat)
    (h : chooseSomeMaxWeight ws cnt tries rand = some l) :
    l = [] ∨ (∃ t, t < tries ∧ chooseSome cnt ws (List.range ws.length) rand (t * cnt) = some l) ∧
             l.length = cnt ∧ l.Nodup ∧ ∀ i ∈ l, i < ws.length := by
  unfold chooseSomeMaxWeight at h
  rcases maxWeightGo_spec ws cnt rand tries 0 0 [] l h with e | ⟨t, _, h2, h3⟩
  · exact Or.inl e
  · exact Or.inr ⟨⟨t, by omega, h3⟩, chooseSome_distinct_size ws cnt rand _ l h3⟩

/-- PROPERTY ("best of N tries by total weight", and exact size without the empty-list escape): with positive weights
    whose sum fits uint64, 1 ≤ cnt ≤ n and at least one try — the preconditions GetRandomValidators establishes —
    ChooseSomeMaxWeight returns a full sample (exactly `cnt` distinct valid indexes), it is the sample of some try `t`, no
    try has a larger weight sum, and every EARLIER try has a strictly smaller one (ties go to the first). -/
theorem maxWeight_is_first_best_try (ws : List Nat) (cnt tries : Nat) (rand : Nat → Nat)
    (hc1 : 0 < cnt) (hcnt : cnt ≤ ws.length) (hp : ∀ w ∈ ws, 0 < w) (hs : ws.sum < two64) (ht : 0 < tries) :
    ∃ l t, chooseSomeMaxWeight ws cnt tries rand = some l ∧
      l.length = cnt ∧ l.Nodup ∧ (∀ i ∈ l, i < ws.length) ∧
      t < tries ∧ chooseSome cnt ws (List.range ws.length) rand (t * cnt) = some l ∧
      (∀ t' l', t' < tries → chooseSome cnt ws (List.range ws.length) rand (t' * cnt) = some l' → weightSum ws l' ≤ weightSum ws l) ∧
      (∀ t' l', t' < t → chooseSome cnt ws (List.range ws.length) rand (t' * cnt) = some l' → weightSum ws l' < weightSum ws l) := by
  have tot : ∀ pos, ∃ l, chooseSome cnt ws (List.range ws.length) rand pos = some l :=
    fun pos => chooseSome_never_panics ws cnt rand pos hcnt hp hs
  obtain ⟨l, hl⟩ := maxWeightGo_total ws cnt rand tries 0 0 [] tot
  obtain ⟨a1, _, a3⟩ := maxWeightGo_best ws cnt rand tries 0 0 [] l (by simp [weightSum]) hl
  rcases a3 with e | ⟨t, _, b2, b3, _, b5⟩
  · -- the empty list cannot survive: the first try already weighs more than 0
    exfalso
    obtain ⟨l0, h0⟩ := tot (0 * cnt)
    have p0 := weightSum_pos ws cnt rand (0 * cnt) l0 hp hs hc1 h0
    have := a1 0 l0 (Nat.le_refl _) (by omega) h0
    subst e
    have z : weightSum ws [] = 0 := by simp [weightSum]
    omega
  · obtain ⟨s1, s2, s3⟩ := chooseSome_distinct_size ws cnt rand _ l b3
    exact ⟨l, t, hl, s1, s2, s3, by omega, b3, fun t' l' x y => a1 t' l' (Nat.zero_le _) (by omega) y,
      fun t' l' x y => b5 t' l' (Nat.zero_le _) x y⟩

/-- GetRandomMembers: an error exactly when the threshold exceeds the number of available members;
    otherwise exactly `threshold` distinct positions of the available list. -/
theorem randomMembers_distinct (n threshold : Nat) (rand : Nat → Nat) :
    (randomPositions n threshold rand = none ↔ threshold > n) ∧
    ∀ l, randomPositions n threshold rand = some l → l.length = threshold ∧ l.Nodup ∧ ∀ i ∈ l, i < n := by
  unfold randomPositions
  by_cases h : threshold > n
  · simp [h]
  · simp only [h, if_false]
    refine ⟨by simp, fun l hl => ?_⟩
    cases hl
    obtain ⟨h1, h2, h3⟩ := fisherYates_spec threshold (List.range n) rand 0 (by simp; omega) List.nodup_range
    exact ⟨h1, h2, fun i hi => List.mem_range.mp (h3 i hi)⟩

/-- Determinism: the selection is a function of (stream, weights/eligible list in iteration order,
    count, tries) — equal inputs give equal committees (stated so the dependency list is explicit). -/
theorem selection_is_function (ws ws' : List Nat) (cnt cnt' tries tries' : Nat) (rand rand' : Nat → Nat)
    (h1 : ws = ws') (h2 : cnt = cnt') (h3 : tries = tries') (h4 : ∀ i, rand i = rand' i) :
    chooseSomeMaxWeight ws cnt tries rand = chooseSomeMaxWeight ws' cnt' tries' rand' := by
  have : rand = rand' := funext h4
  subst h1 h2 h3 this; rfl

/-! non-vacuity -/
example : chooseOne [3, 0, 5] 4 = some 2 := by decide
example : chooseOne [0, 0] 4 = none := by decide
example : chooseSome 2 [3, 1, 5] [0, 1, 2] (fun i => [4, 0].getD i 0) 0 = some [2, 0] := by decide
example : (∀ w ∈ [3, 1, 5], 0 < w) ∧ [3, 1, 5].sum < two64 := by decide
example : randomPositions 3 4 (fun _ => 0) = none := by decide
example : randomPositions 3 2 (fun _ => 0) = some [0, 2] := by decide

end C09
