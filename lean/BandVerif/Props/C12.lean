/-
C12 — relay proofs verify against the real store layout, header and signatures.
Model: Model/Relay.lean.  `H` is the hash (SHA-256 in the driver), a parameter of every theorem.
-/
import BandVerif.Lemmas.RelayTree
import BandVerif.Generated.StoreKeys

namespace C12
open BandVerif BandVerif.Relay

/-- TIE to the source: the KV stores mounted by the CURRENT tree (app/keepers.GenerateKeys, executed), sorted as
    the commit-info tree orders them, put `oracle` at leaf 17 of 27 with exactly the neighbours the six fields of
    MultiStoreProof are named after; and GetMultiStoreProof reads its fields from the positions the theorems use. -/
theorem generated_matches_model :
    Generated.StoreKeys.sorted.length = 27 ∧ Generated.StoreKeys.sorted.idxOf "oracle" = 17 ∧
    Generated.StoreKeys.sorted[16]? = some "mint" ∧
    Generated.StoreKeys.sorted[18]? = some "params" ∧ Generated.StoreKeys.sorted[19]? = some "restake" ∧
    Generated.StoreKeys.sorted[20]? = some "rollingseed" ∧ Generated.StoreKeys.sorted[23]? = some "transfer" ∧
    Generated.StoreKeys.sorted[24]? = some "tss" ∧ Generated.StoreKeys.sorted[26]? = some "upgrade" ∧
    Generated.StoreKeys.sorted[0]? = some "acc" ∧ Generated.StoreKeys.sorted[15]? = some "icahost" ∧
    Generated.StoreKeys.sorted.Pairwise (· < ·) ∧
    Generated.StoreKeys.read_OracleIAVLStateHash = (0, "value") ∧
    Generated.StoreKeys.read_MintStoreMerkleHash = (0, "prefix-after-first-byte") ∧
    Generated.StoreKeys.read_ParamsToRestakeStoresMerkleHash = (1, "suffix") ∧
    Generated.StoreKeys.read_RollingseedToTransferStoresMerkleHash = (2, "suffix") ∧
    Generated.StoreKeys.read_TssToUpgradeStoresMerkleHash = (3, "suffix") ∧
    Generated.StoreKeys.read_AuthToIcahostStoresMerkleHash = (4, "prefix-after-first-byte") := by
  refine ⟨by decide, by decide, by decide, by decide, by decide, by decide, by decide, by decide, by decide, by decide, by decide, by decide,
    rfl, rfl, rfl, rfl, rfl, rfl⟩

/-- the ICS-23 existence-proof path of leaf 17 in a 27-leaf RFC-6962 tree: inner-op prefix 0x01, sibling on the
    left inside the prefix or on the right as suffix -/
def oraclePath (s16 s1819 s2023 s2426 s0015 : Bytes) : List Step :=
  [⟨1 :: s16, []⟩, ⟨[1], s1819⟩, ⟨[1], s2023⟩, ⟨[1], s2426⟩, ⟨1 :: s0015, []⟩]

/-- PROPERTY (multistore): for ANY contents of the 27 mounted stores, the bridge's fixed recombination of the oracle
    store root with the five siblings that GetMultiStoreProof reads from the proof path equals the root of the whole
    commit-info tree — the block's app hash. -/
theorem multistore_recombine (H : Bytes → Bytes) (f : Nat → Bytes) (oracleRoot : Bytes)
    (h17 : f 17 = storeLeaf H [111, 114, 97, 99, 108, 101] oracleRoot) :
    appHash H (getMultiStoreProof oracleRoot
      (oraclePath (leafHash H (f 16)) (simpleRoot H [f 18, f 19]) (simpleRoot H [f 20, f 21, f 22, f 23])
        (simpleRoot H [f 24, f 25, f 26]) (simpleRoot H ((List.range 16).map f)))) =
    simpleRoot H ((List.range 27).map f) := by
  have e27 : (List.range 27).map f = [f 0, f 1, f 2, f 3, f 4, f 5, f 6, f 7, f 8, f 9, f 10, f 11, f 12, f 13, f 14, f 15, f 16, f 17, f 18, f 19,
      f 20, f 21, f 22, f 23, f 24, f 25, f 26] := rfl
  have e16 : (List.range 16).map f = [f 0, f 1, f 2, f 3, f 4, f 5, f 6, f 7, f 8, f 9, f 10, f 11, f 12, f 13, f 14, f 15] := rfl
  rw [e27, e16]
  have r1 := simpleRoot_split' H [f 0, f 1, f 2, f 3, f 4, f 5, f 6, f 7, f 8, f 9, f 10, f 11, f 12, f 13, f 14, f 15, f 16, f 17, f 18, f 19,
      f 20, f 21, f 22, f 23, f 24, f 25, f 26] 27 16 rfl (by decide) (by decide)
  have r2 := simpleRoot_split' H [f 16, f 17, f 18, f 19, f 20, f 21, f 22, f 23, f 24, f 25, f 26] 11 8 rfl (by decide) (by decide)
  have r3 := simpleRoot_split' H [f 16, f 17, f 18, f 19, f 20, f 21, f 22, f 23] 8 4 rfl (by decide) (by decide)
  have r4 := simpleRoot_split' H [f 16, f 17, f 18, f 19] 4 2 rfl (by decide) (by decide)
  have r5 := simpleRoot_split' H [f 16, f 17] 2 1 rfl (by decide) (by decide)
  simp only [List.take_succ_cons, List.take_zero, List.drop_succ_cons, List.drop_zero, simpleRoot_single] at r1 r2 r3 r4 r5
  rw [r1, r2, r3, r4, r5]
  unfold appHash getMultiStoreProof oraclePath stepAt
  simp only [List.getD_cons_zero, List.getD_cons_succ, List.drop_succ_cons, List.drop_zero]
  rw [← h17]

/-- PROPERTY (header): the five sub-hashes GetBlockHeaderMerkleParts returns, recombined by the bridge with the raw
    height, time and app hash, give the block hash (the RFC-6962 root of the 14 header fields), for every header. -/
theorem header_recombine (H : Bytes → Bytes) (hd : Header) (hh : hd.height ≠ 0) (ha : hd.appHash.length = 32) :
    blockHash H (headerParts H hd) hd.appHash = headerHash H hd := by
  have e1 : pbVarint 8 hd.height = 8 :: uvarint hd.height := by unfold pbVarint; rw [if_neg hh]
  have e2 : cdcBytes hd.appHash = [10, 32] ++ hd.appHash := by
    unfold cdcBytes
    have : hd.appHash.isEmpty = false := by cases h : hd.appHash with | nil => simp [h] at ha | cons a b => rfl
    rw [this, ha, uvarint_small 32 (by decide)]; rfl
  unfold blockHash headerParts headerHash headerLeaves
  simp only [List.getD_cons_zero, List.getD_cons_succ, e1, e2]
  generalize pbVarint 8 hd.versionBlock ++ pbVarint 16 hd.versionApp = l0
  generalize cdcBytes hd.chainID = l1
  generalize encodeTime hd.sec hd.nanos = l3
  generalize (pbBytes 10 hd.lbHash ++ 18 :: (uvarint (pbVarint 8 hd.lbTotal ++ pbBytes 18 hd.lbPsh).length ++ (pbVarint 8 hd.lbTotal ++ pbBytes 18 hd.lbPsh))) = l4
  generalize cdcBytes hd.lastCommitHash = l5
  generalize cdcBytes hd.dataHash = l6
  generalize cdcBytes hd.valsHash = l7
  generalize cdcBytes hd.nextValsHash = l8
  generalize cdcBytes hd.consHash = l9
  generalize cdcBytes hd.lastResHash = l11
  generalize cdcBytes hd.evHash = l12
  generalize cdcBytes hd.proposer = l13
  have r1 := simpleRoot_split' H [l0, l1, 8 :: uvarint hd.height, l3, l4, l5, l6, l7, l8, l9, [10, 32] ++ hd.appHash, l11, l12, l13] 14 8 rfl (by decide) (by decide)
  have r2 := simpleRoot_split' H [l0, l1, 8 :: uvarint hd.height, l3, l4, l5, l6, l7] 8 4 rfl (by decide) (by decide)
  have r3 := simpleRoot_split' H [l0, l1, 8 :: uvarint hd.height, l3] 4 2 rfl (by decide) (by decide)
  have r4 := simpleRoot_split' H [8 :: uvarint hd.height, l3] 2 1 rfl (by decide) (by decide)
  have r5 := simpleRoot_split' H [l8, l9, [10, 32] ++ hd.appHash, l11, l12, l13] 6 4 rfl (by decide) (by decide)
  have r6 := simpleRoot_split' H [l8, l9, [10, 32] ++ hd.appHash, l11] 4 2 rfl (by decide) (by decide)
  have r7 := simpleRoot_split' H [[10, 32] ++ hd.appHash, l11] 2 1 rfl (by decide) (by decide)
  simp only [List.take_succ_cons, List.take_zero, List.drop_succ_cons, List.drop_zero, simpleRoot_single] at r1 r2 r3 r4 r5 r6 r7
  rw [r1, r2, r3, r4, r5, r6, r7, simpleRoot_single]

/-- PROPERTY (IAVL path): GetMerklePaths parses every inner step back into exactly (side, height, size, version,
    sibling), and the bridge's re-hash of those five values equals the ICS-23 hash prefix‖child‖suffix of the step —
    so folding the returned path from the value leaf reproduces the oracle store root the node proved. -/
theorem iavl_step_sound (H : Bytes → Bytes) (h sz v : Nat) (sib child : Bytes) (right : Bool)
    (hh : h < 256) (hs : sz < 2 ^ 63) (hv : v < 2 ^ 63) :
    merklePathOf (iavlStep h sz v sib right) = some { isDataOnRight := right, height := h, size := sz, version := v, sibling := sib } ∧
    iavlRoot H child [{ isDataOnRight := right, height := h, size := sz, version := v, sibling := sib }] =
      H ((iavlStep h sz v sib right).pre ++ child ++ (iavlStep h sz v sib right).suf) := by
  have c1 : ((h : Int) % 4294967296).toNat = h := by omega
  have c2 : ((sz : Int) % 18446744073709551616).toNat = sz := by omega
  have c3 : ((v : Int) % 18446744073709551616).toNat = v := by omega
  have p1 := uvarint_length_pos (2 * h)
  have p2 := uvarint_length_pos (2 * sz)
  have p3 := uvarint_length_pos (2 * v)
  cases right with
  | false =>
    constructor
    · unfold merklePathOf iavlStep
      simp only [Bool.false_eq_true, if_false]
      rw [readVarint_nonneg]
      simp only [List.drop_left]
      rw [readVarint_nonneg]
      simp only []
      rw [← List.append_assoc, List.drop_left' (by simp), readVarint_nonneg]
      simp only [c1, c2, c3]
      have hl : ¬ ((varintNonneg h).length + (varintNonneg sz).length + (varintNonneg v).length + 1 ≠
          (varintNonneg h ++ varintNonneg sz ++ (varintNonneg v ++ [32])).length) := by simp; omega
      rw [if_neg hl]
      simp
    · unfold iavlRoot iavlStep
      simp only [Bool.false_eq_true, if_false, iavlRoot, Nat.mod_eq_of_lt hh]
      congr 1
      simp [List.append_assoc]
  | true =>
    constructor
    · unfold merklePathOf iavlStep
      simp only [if_true]
      rw [readVarint_nonneg]
      simp only [List.drop_left]
      rw [readVarint_nonneg]
      simp only []
      rw [← List.append_assoc, List.drop_left' (by simp), readVarint_nonneg]
      simp only [c1, c2, c3]
      have hl : (varintNonneg h).length + (varintNonneg sz).length + (varintNonneg v).length + 1 ≠
          (varintNonneg h ++ varintNonneg sz ++ (varintNonneg v ++ ([32] ++ sib ++ [32]))).length := by simp; omega
      rw [if_pos hl]
      have hl2 : (varintNonneg h).length + (varintNonneg sz).length + (varintNonneg v).length + 1 ≤
          (varintNonneg h ++ varintNonneg sz ++ (varintNonneg v ++ ([32] ++ sib ++ [32]))).length - 1 := by simp; omega
      rw [if_pos hl2]
      congr 2
      have e : varintNonneg h ++ varintNonneg sz ++ (varintNonneg v ++ ([32] ++ sib ++ [32])) =
          (varintNonneg h ++ varintNonneg sz ++ varintNonneg v ++ [32] ++ sib) ++ [32] := by simp [List.append_assoc]
      rw [e, List.length_append, List.length_singleton, Nat.add_sub_cancel, List.take_left' rfl]
      rw [show varintNonneg h ++ varintNonneg sz ++ varintNonneg v ++ [32] ++ sib = (varintNonneg h ++ varintNonneg sz ++ varintNonneg v ++ [32]) ++ sib from rfl]
      exact List.drop_left' (by simp; omega)
    · unfold iavlRoot iavlStep
      simp only [if_true, iavlRoot, Nat.mod_eq_of_lt hh]
      congr 1
      simp [List.append_assoc]

/-- PROPERTY (IAVL, end to end): for EVERY tree whose fields fit their Go types and EVERY walk from its root to a leaf,
    the existence proof the node serves for that leaf is parsed by GetMerklePaths without failure, and the bridge's fold
    of the parsed path from the leaf's hash IS the root hash of the tree (induction over the tree; any depth). -/
theorem iavl_path_sound (H : Bytes → Bytes) (t : ITree) (dirs : List Bool) (lf : ITree) (steps : List Step)
    (wf : t.WF) (hw : t.walk H dirs = some (lf, steps)) :
    ∃ ps, getMerklePaths steps = some ps ∧ iavlRoot H (lf.hash H) ps = t.hash H := by
  induction t generalizing dirs lf steps with
  | leaf k v ver =>
    cases dirs with
    | nil => simp only [ITree.walk, Option.some.injEq, Prod.mk.injEq] at hw; obtain ⟨rfl, rfl⟩ := hw; exact ⟨[], rfl, rfl⟩
    | cons d ds => simp [ITree.walk] at hw
  | inner h s v l r ihl ihr =>
    obtain ⟨hh, hs, hv, wl, wr⟩ := wf
    cases dirs with
    | nil => simp [ITree.walk] at hw
    | cons d ds =>
      simp only [ITree.walk] at hw
      cases d with
      | false =>
        simp only [Bool.false_eq_true, ↓reduceIte] at hw
        cases hc : l.walk H ds with
        | none => simp [hc] at hw
        | some pr =>
          obtain ⟨lf', st⟩ := pr
          simp only [hc, Option.some.injEq, Prod.mk.injEq] at hw
          obtain ⟨rfl, rfl⟩ := hw
          obtain ⟨ps, g1, g2⟩ := ihl ds lf' st wl hc
          obtain ⟨m1, m2⟩ := iavl_step_sound H h s v (r.hash H) (l.hash H) false hh hs hv
          refine ⟨ps ++ [{ isDataOnRight := false, height := h, size := s, version := v, sibling := r.hash H }],
            getMerklePaths_append _ _ _ _ g1 (by simp only [getMerklePaths, m1]), ?_⟩
          rw [iavlRoot_append, g2, m2]
          simp only [iavlStep, ITree.hash, Bool.false_eq_true, ↓reduceIte]
          simp [List.append_assoc]
      | true =>
        simp only [↓reduceIte] at hw
        cases hc : r.walk H ds with
        | none => simp [hc] at hw
        | some pr =>
          obtain ⟨lf', st⟩ := pr
          simp only [hc, Option.some.injEq, Prod.mk.injEq] at hw
          obtain ⟨rfl, rfl⟩ := hw
          obtain ⟨ps, g1, g2⟩ := ihr ds lf' st wr hc
          obtain ⟨m1, m2⟩ := iavl_step_sound H h s v (l.hash H) (r.hash H) true hh hs hv
          refine ⟨ps ++ [{ isDataOnRight := true, height := h, size := s, version := v, sibling := l.hash H }],
            getMerklePaths_append _ _ _ _ g1 (by simp only [getMerklePaths, m1]), ?_⟩
          rw [iavlRoot_append, g2, m2]
          simp only [iavlStep, ITree.hash, ↓reduceIte]
          simp [List.append_assoc]

/-- the leaf the bridge hashes for a stored oracle result IS the IAVL leaf of key 0xff‖be64(id) -/
theorem result_leaf_is_tree_leaf (H : Bytes → Bytes) (version rid : Nat) (value : Bytes) :
    resultLeafHash H version rid value = (ITree.leaf ([255] ++ be64 rid) value version).hash H := by
  unfold resultLeafHash ITree.hash
  have : ([255] ++ be64 rid).length = 9 := by simp [be64]
  rw [this, uvarint_small 9 (by decide)]
  simp [List.append_assoc]

/-- PROPERTY (composition): a stored oracle result anywhere in ANY well-formed oracle IAVL tree, in ANY commit of the 27
    mounted stores whose oracle leaf is that tree, under ANY header carrying that commit's app hash: what the proof
    service extracts (IAVL path, multistore siblings, header parts), recombined by the bridge's three fixed routines
    starting from the result's own bytes, is the block hash the validators signed. -/
theorem result_proof_reaches_block_hash (H : Bytes → Bytes) (t : ITree) (dirs : List Bool) (steps : List Step)
    (version rid : Nat) (value : Bytes) (wf : t.WF)
    (hw : t.walk H dirs = some (.leaf ([255] ++ be64 rid) value version, steps))
    (f : Nat → Bytes) (h17 : f 17 = storeLeaf H [111, 114, 97, 99, 108, 101] (t.hash H))
    (hd : Header) (hh : hd.height ≠ 0) (hlen : hd.appHash.length = 32)
    (happ : hd.appHash = simpleRoot H ((List.range 27).map f)) :
    ∃ ps, getMerklePaths steps = some ps ∧
      blockHash H (headerParts H hd)
        (appHash H (getMultiStoreProof (iavlRoot H (resultLeafHash H version rid value) ps)
          (oraclePath (leafHash H (f 16)) (simpleRoot H [f 18, f 19]) (simpleRoot H [f 20, f 21, f 22, f 23])
            (simpleRoot H [f 24, f 25, f 26]) (simpleRoot H ((List.range 16).map f))))) = headerHash H hd := by
  obtain ⟨ps, g1, g2⟩ := iavl_path_sound H t dirs _ steps wf hw
  refine ⟨ps, g1, ?_⟩
  rw [result_leaf_is_tree_leaf, g2, multistore_recombine H f (t.hash H) h17, ← happ]
  exact header_recombine H hd hh hlen

/-- PROPERTY (signatures): for every height, round, block id, vote timestamp and chain id that fit the fixed vote format
    (32-byte hashes, part-set total 1..127, whole vote shorter than 128 bytes), the message the bridge rebuilds from
    the common prefix/suffix, the per-signature encoded timestamp and the chain id IS cometbft's canonical precommit
    sign-bytes — so a returned signature recovers exactly the validator that signed that precommit. -/
theorem vote_bytes_rebuild (height round total sec nanos : Nat) (hash psh chain : Bytes)
    (hhash : hash.length = 32) (hpsh : psh.length = 32) (ht : 0 < total ∧ total < 128) (hc : 0 < chain.length ∧ chain.length < 128)
    (hts : (encodeTime sec nanos).length < 128)
    (hbody : ([8, 2] ++ (if height = 0 then [] else 17 :: sfixed64 height) ++ (if round = 0 then [] else 25 :: sfixed64 round)).length +
        74 + (2 + (encodeTime sec nanos).length) + (2 + chain.length) < 128) :
    voteMessage (commonVote height round total psh).1 (commonVote height round total psh).2 hash (encodeTime sec nanos) chain =
      canonicalVoteBytes height round hash total psh sec nanos chain := by
  unfold voteMessage commonVote canonicalVoteBytes
  simp only [getPrefix_eq]
  have e0 : pbVarint 8 2 = [8, 2] := by unfold pbVarint; rw [if_neg (by decide), uvarint_small 2 (by decide)]
  have et : pbVarint 8 total = [8, total] := by unfold pbVarint; rw [if_neg (by omega), uvarint_small _ ht.2]
  have ep : pbBytes 18 psh = 18 :: 32 :: psh := by
    unfold pbBytes
    have : psh.isEmpty = false := by cases h : psh with | nil => simp [h] at hpsh | cons a b => rfl
    rw [this, hpsh, uvarint_small 32 (by decide)]; rfl
  have eh : pbBytes 10 hash = 10 :: 32 :: hash := by
    unfold pbBytes
    have : hash.isEmpty = false := by cases h : hash with | nil => simp [h] at hhash | cons a b => rfl
    rw [this, hhash, uvarint_small 32 (by decide)]; rfl
  have ec : pbBytes 50 chain = 50 :: chain.length :: chain := by
    unfold pbBytes
    have : chain.isEmpty = false := by cases h : chain with | nil => simp [h] at hc | cons a b => rfl
    rw [this, uvarint_small _ hc.2]; rfl
  rw [e0, et, ep, eh, ec]
  generalize hpp : ([8, 2] ++ (if height = 0 then [] else 17 :: sfixed64 height) ++ (if round = 0 then [] else 25 :: sfixed64 round) : Bytes) = pp at hbody ⊢
  generalize hte : encodeTime sec nanos = ts at hts hbody ⊢
  have l36 : ([8, total] ++ 18 :: 32 :: psh).length = 36 := by simp [hpsh]
  rw [l36, uvarint_small 36 (by decide)]
  have l72 : (10 :: 32 :: hash ++ 18 :: ([36] ++ ([8, total] ++ 18 :: 32 :: psh))).length = 72 := by simp [hhash, hpsh]
  rw [l72, uvarint_small 72 (by decide), uvarint_small _ hts]
  have lb : (pp ++ 34 :: ([72] ++ (10 :: 32 :: hash ++ 18 :: ([36] ++ ([8, total] ++ 18 :: 32 :: psh)))) ++ 42 :: ([ts.length] ++ ts) ++
      50 :: chain.length :: chain).length < 128 := by
    simp [hhash, hpsh]; omega
  rw [uvarint_small _ lb]
  have lm : (pp ++ [34, 72, 10, 32] ++ hash ++ 18 :: ([36] ++ ([8, total] ++ 18 :: 32 :: psh)) ++ [42, ts.length] ++ ts ++ [50, chain.length] ++ chain).length % 256 =
      (pp ++ 34 :: ([72] ++ (10 :: 32 :: hash ++ 18 :: ([36] ++ ([8, total] ++ 18 :: 32 :: psh)))) ++ 42 :: ([ts.length] ++ ts) ++
      50 :: chain.length :: chain).length := by
    have : (pp ++ [34, 72, 10, 32] ++ hash ++ 18 :: ([36] ++ ([8, total] ++ 18 :: 32 :: psh)) ++ [42, ts.length] ++ ts ++ [50, chain.length] ++ chain).length =
      (pp ++ 34 :: ([72] ++ (10 :: 32 :: hash ++ 18 :: ([36] ++ ([8, total] ++ 18 :: 32 :: psh)))) ++ 42 :: ([ts.length] ++ ts) ++
      50 :: chain.length :: chain).length := by simp
    rw [this]; exact Nat.mod_eq_of_lt (by omega)
  rw [lm]
  simp [List.append_assoc]

/-! non-vacuity: the hypotheses are met by ordinary values -/
example : (encodeTime 1700000000 5).length = 8 := by simp [encodeTime, pbVarint, uvarint]
example : ([8, 2] ++ (if (3 : Nat) = 0 then [] else 17 :: sfixed64 3) ++ (if (0 : Nat) = 0 then [] else 25 :: sfixed64 0) : Bytes).length + 74 + (2 + 8) + (2 + 9) < 128 := by
  simp [sfixed64]
example : merklePathOf (iavlStep 3 8 2 (List.replicate 32 7) true) =
    some { isDataOnRight := true, height := 3, size := 8, version := 2, sibling := List.replicate 32 7 } :=
  (iavl_step_sound (fun b => b) 3 8 2 (List.replicate 32 7) [] true (by decide) (by decide) (by decide)).1
example : (ITree.inner 1 2 5 (.leaf [255, 0, 0, 0, 0, 0, 0, 0, 1] [7] 4) (.leaf [255, 0, 0, 0, 0, 0, 0, 0, 2] [8] 5)).WF ∧
    ((ITree.inner 1 2 5 (.leaf [255, 0, 0, 0, 0, 0, 0, 0, 1] [7] 4) (.leaf [255, 0, 0, 0, 0, 0, 0, 0, 2] [8] 5)).walk (fun b => b) [true]).isSome = true := by
  refine ⟨⟨by decide, by decide, by decide, by simp [ITree.WF], by simp [ITree.WF]⟩, by decide⟩
example : splitPoint 27 = 16 ∧ splitPoint 14 = 8 ∧ splitPoint 11 = 8 ∧ splitPoint 3 = 2 := by decide

end C12
