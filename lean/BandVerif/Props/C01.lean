/-
C01 — an oracle request resolves exactly once, correctly, from authorised reports.
Model: Model/Oracle.lean; lemmas: Lemmas/Oracle.lean. Histories are arbitrary lists of operations
(request admission, reports, end-blocks with arbitrary heights/times/parameters/script outcomes).
-/
import BandVerif.Lemmas.Oracle

namespace C01
open BandVerif.Oracle BandVerif.VStatus

/-- one step of a history -/
inductive Op
  | request (r : Req)                                              -- an ACCEPTED data request
  | report (val rid : Nat) (eids : List Nat) (oversize : Bool)     -- MsgReportData (accepted or rejected)
  | endBlock (outcome : Nat → Nat × String) (exp height nowNs : Int)
  | activate (val : Nat) (penalty now : Int)

/-- `none` = a Go panic inside the end-blocker -/
def step (s : State) : Op → Option State
  | .request r => some (addRequest s r)
  | .report v rid eids ov => some (report s v rid eids ov).1
  | .endBlock o e h n => endBlock s o e h n
  | .activate v p n => some { s with vstat := fun i => if i = v then (activate (s.vstat v) p n).1 else s.vstat i }

def run : List Op → State → Option State
  | [], s => some s
  | op :: rest, s => match step s op with
    | none => none
    | some s' => run rest s'

theorem step_inv (s : State) (op : Op) (h : Inv s) : ∃ s', step s op = some s' ∧ Inv s' := by
  cases op with
  | request r => exact ⟨_, rfl, inv_addRequest s r h⟩
  | report v rid eids ov => exact ⟨_, rfl, inv_report s v rid eids ov h⟩
  | endBlock o e ht n =>
    obtain ⟨s', h1, h2⟩ := endBlock_spec s o e ht n h
    exact ⟨s', h1, h2.1⟩
  | activate v p n =>
    exact ⟨_, rfl, ⟨h.pend_open, h.pend_req, h.pend_full, h.pend_nodup, h.live_req, h.beyond, h.le, h.expired_has_result⟩⟩

/-- PROPERTY (totality of the oracle end-blocker, used by C02): from the initial state NO history makes
    `MustGetRequest` panic — every history runs to a state satisfying the invariant. -/
theorem endblock_no_panic (ops : List Op) : ∃ s, run ops State.init = some s ∧ Inv s := by
  suffices H : ∀ (s : State), Inv s → ∃ s', run ops s = some s' ∧ Inv s' from H _ inv_init
  induction ops with
  | nil => intro s h; exact ⟨s, rfl, h⟩
  | cons op rest ih =>
    intro s h
    obtain ⟨s1, e1, h1⟩ := step_inv s op h
    simp only [run, e1]
    exact ih s1 h1

theorem step_write_once (s s' : State) (op : Op) (h : Inv s) (hs : step s op = some s') (id : Nat) (r : Res)
    (hr : s.results id = some r) : s'.results id = some r := by
  cases op with
  | request rq => cases hs; exact hr
  | report v rid eids ov =>
    cases hs
    by_cases hok : (report s v rid eids ov).2 = RErr.ok
    · rw [(report_ok s v rid eids ov hok).2.2.2.2]
      unfold reportApply
      cases s.requests rid with
      | none => exact hr
      | some req => simp only []; split <;> exact hr
    · rw [report_err_state s v rid eids ov hok]; exact hr
  | endBlock o e ht n =>
    obtain ⟨s'', h1, h2⟩ := endBlock_spec s o e ht n h
    have : s'' = s' := by
      have h1' : step s (Op.endBlock o e ht n) = some s'' := h1
      rw [hs] at h1'; exact (Option.some.inj h1').symm
    subst this
    exact h2.2.1 id r hr
  | activate v p n => cases hs; exact hr

/-- PROPERTY (exactly one result, never changes): once a request has a result, every continuation
    of the history — reports, further requests, any number of end-blocks — leaves that result as is. -/
theorem result_write_once (ops ops' : List Op) (s s' : State) (id : Nat) (r : Res)
    (h1 : run ops State.init = some s) (hr : s.results id = some r) (h2 : run ops' s = some s') :
    s'.results id = some r := by
  obtain ⟨s0, e0, hinv⟩ := endblock_no_panic ops
  have : s0 = s := by rw [h1] at e0; exact (Option.some.inj e0).symm
  subst this
  clear h1 e0
  induction ops' generalizing s0 with
  | nil => cases h2; exact hr
  | cons op rest ih =>
    simp only [run] at h2
    obtain ⟨s1, e1, i1⟩ := step_inv s0 op hinv
    rw [e1] at h2
    exact ih s1 i1 (step_write_once s0 s1 op hinv e1 id r hr) h2

/-- PROPERTY (when and how a result is produced): at an end-block, a request without a result gets one
    only (a) because it is on the pending list — i.e. the stored report count hit min_count since the
    previous end-block — with the script's outcome, or (b) as EXPIRED because the expiration window has
    passed and it was not pending.  Either way the result mirrors the request and the reports present. -/
theorem resolve_timing (s s' : State) (o : Nat → Nat × String) (e ht n : Int) (hinv : Inv s)
    (hs : endBlock s o e ht n = some s') (id : Nat) (r : Res) (h0 : s.results id = none) (h1 : s'.results id = some r) :
    ∃ req, s.requests id = some req ∧
      r.clientId = req.clientId ∧ r.calldata = req.calldata ∧ r.askCount = req.vals.length ∧ r.minCount = req.minCount ∧
      r.requestTime = req.time ∧ r.resolveTime = unixOf n ∧ r.ansCount = (s.reports id).length ∧
      ((id ∈ s.pending ∧ r.status = (o id).1 ∧ r.result = (o id).2 ∧ req.minCount ≤ (s.reports id).length) ∨
       (id ∉ s.pending ∧ r.status = statusExpired ∧ req.height + e ≤ ht)) := by
  obtain ⟨s'', e1, spec⟩ := endBlock_spec s o e ht n hinv
  have : s'' = s' := by rw [hs] at e1; exact (Option.some.inj e1).symm
  subst this
  obtain ⟨req, hq, hcase⟩ := spec.2.2.1 id r h0 h1
  refine ⟨req, hq, ?_⟩
  rcases hcase with ⟨hm, rfl⟩ | ⟨hm, hexp, rfl⟩
  · exact ⟨rfl, rfl, rfl, rfl, rfl, rfl, rfl, Or.inl ⟨hm, rfl, rfl, hinv.pend_full id hm req hq⟩⟩
  · exact ⟨rfl, rfl, rfl, rfl, rfl, rfl, rfl, Or.inr ⟨hm, rfl, hexp⟩⟩

/-- every pending request is resolved by the very next end-block, and the list is cleared -/
theorem pending_resolved_next_endblock (s s' : State) (o : Nat → Nat × String) (e ht n : Int) (hinv : Inv s)
    (hs : endBlock s o e ht n = some s') : (∀ id ∈ s.pending, (s'.results id).isSome) ∧ s'.pending = [] := by
  obtain ⟨s'', e1, spec⟩ := endBlock_spec s o e ht n hinv
  have : s'' = s' := by rw [hs] at e1; exact (Option.some.inj e1).symm
  subst this
  exact ⟨spec.2.2.2.1, spec.2.2.2.2.2.1⟩

/-- every request the expiry cursor has passed has a result (so an accepted request obtains a result
    once the expiration window has passed and the cursor reaches it) -/
theorem expired_has_result (ops : List Op) (s : State) (h : run ops State.init = some s) (id : Nat)
    (h1 : 1 ≤ id) (h2 : id ≤ s.lastExpired) : (s.results id).isSome := by
  obtain ⟨s0, e0, hinv⟩ := endblock_no_panic ops
  have : s0 = s := by rw [h] at e0; exact (Option.some.inj e0).symm
  subst this
  exact hinv.expired_has_result id h1 h2

/-- PROPERTY (authorised reports only): an accepted report comes from a validator chosen for the
    request, that has not reported yet, for a request that exists and has not expired, with pairwise
    distinct external ids, as many as requested and all of them requested ids. -/
theorem report_authorised (s : State) (val rid : Nat) (eids : List Nat) (ov : Bool)
    (h : (report s val rid eids ov).2 = RErr.ok) :
    ∃ req, s.requests rid = some req ∧ val ∈ req.vals ∧ val ∉ s.reports rid ∧ s.lastExpired < rid ∧
      eids.Nodup ∧ eids ≠ [] ∧ eids.length = req.eids.length ∧ (∀ e ∈ eids, e ∈ req.eids) ∧ ov = false := by
  obtain ⟨hb, hov, hlt, hc, _⟩ := report_ok s val rid eids ov h
  obtain ⟨req, a, b, c, d, e⟩ := checkValid_ok s rid val eids hc
  unfold reportBasic at hb
  by_cases he : eids.isEmpty = true
  · simp [he] at hb
  · simp only [he] at hb
    by_cases hn : eids.Nodup
    · exact ⟨req, a, b, c, hlt, hn, by intro e0; subst e0; simp at he, d, e, hov⟩
    · simp [hn] at hb

/-- a rejected report changes nothing -/
theorem rejected_report_changes_nothing (s : State) (val rid : Nat) (eids : List Nat) (ov : Bool)
    (h : (report s val rid eids ov).2 ≠ RErr.ok) : (report s val rid eids ov).1 = s :=
  report_err_state s val rid eids ov h

/-- C15 on the oracle path: the end-block changes a validator's status only for a request that the
    expiry cursor passes in this very block, that asked this validator, and for which it has no report. -/
theorem deactivation_genuine (s s' : State) (o : Nat → Nat × String) (e ht n : Int) (hinv : Inv s)
    (hs : endBlock s o e ht n = some s') (v : Nat) (hv : s'.vstat v ≠ s.vstat v) :
    ∃ id req, s.requests id = some req ∧ v ∈ req.vals ∧ v ∉ s.reports id ∧ req.height + e ≤ ht ∧
      s.lastExpired < id ∧ id ≤ s'.lastExpired := by
  obtain ⟨s'', e1, spec⟩ := endBlock_spec s o e ht n hinv
  have : s'' = s' := by rw [hs] at e1; exact (Option.some.inj e1).symm
  subst this
  obtain ⟨id, req, a, b, c, d, e5, f⟩ := spec.2.2.2.2.2.2.2 v hv
  exact ⟨id, req, a, d, e5, f, b, c⟩

/-! non-vacuity: a concrete history — request, two reports reaching min_count, end-block -/
def demoReq : Req := { vals := [0, 1, 2], minCount := 2, eids := [1, 2, 3], height := 10, time := 100, clientId := "c", calldata := "" }
def demoOps : List Op :=
  [.request demoReq, .report 0 1 [3, 1, 2] false, .report 1 1 [1, 2, 3] false,
   .endBlock (fun _ => (1, "beeb")) 5 10 100000000000]
example : ((run demoOps State.init).map fun s => (s.results 1).map (·.status)) = some (some 1) := by decide
example : ((run demoOps State.init).map fun s => (s.results 1).map (·.ansCount)) = some (some 2) := by decide
example : (report (addRequest State.init demoReq) 5 1 [1, 2, 3] false).2 = RErr.notRequested := by decide

end C01
