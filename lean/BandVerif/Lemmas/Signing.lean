import BandVerif.Model.Signing

namespace BandVerif.Signing

/-! ### frame lemmas: which fields each internal step can touch -/
theorem payAll_frame (fee : Coins) (l : List Nat) (s : State) :
    (payAll s fee l).queues = s.queues ∧ (payAll s fee l).assignedLog = s.assignedLog ∧
    (payAll s fee l).nextToken = s.nextToken ∧ (payAll s fee l).signings = s.signings ∧
    (payAll s fee l).attempts = s.attempts ∧ (payAll s fee l).partials = s.partials ∧
    (payAll s fee l).expirations = s.expirations ∧ (payAll s fee l).tssActive = s.tssActive ∧
    (payAll s fee l).members = s.members ∧ (payAll s fee l).threshold = s.threshold ∧
    (payAll s fee l).maxAttempt = s.maxAttempt ∧ (payAll s fee l).signingPeriod = s.signingPeriod ∧
    (payAll s fee l).maxDE = s.maxDE ∧ (payAll s fee l).count = s.count ∧ (payAll s fee l).bActive = s.bActive ∧
    (payAll s fee l).penalised = s.penalised := by
  induction l generalizing s with
  | nil => simp [payAll]
  | cons m rest ih =>
    simp only [payAll]
    obtain ⟨a1, a2, a3, a4, a5, a6, a7, a8, a9, a10, a11, a12, a13, a14, a15, a16⟩ := ih
      { s with escrow := subC s.escrow fee, bal := fun a => if a = m then addC (s.bal m) fee else s.bal a }
    exact ⟨a1, a2, a3, a4, a5, a6, a7, a8, a9, a10, a11, a12, a13, a14, a15, a16⟩

theorem onCompleted_frame (s : State) (sid : Nat) (assigned : List Nat) :
    (onCompleted s sid assigned).queues = s.queues ∧ (onCompleted s sid assigned).assignedLog = s.assignedLog ∧
    (onCompleted s sid assigned).nextToken = s.nextToken ∧ (onCompleted s sid assigned).signings = s.signings ∧
    (onCompleted s sid assigned).attempts = s.attempts ∧ (onCompleted s sid assigned).partials = s.partials ∧
    (onCompleted s sid assigned).expirations = s.expirations ∧ (onCompleted s sid assigned).tssActive = s.tssActive ∧
    (onCompleted s sid assigned).members = s.members ∧ (onCompleted s sid assigned).threshold = s.threshold ∧
    (onCompleted s sid assigned).maxAttempt = s.maxAttempt ∧ (onCompleted s sid assigned).signingPeriod = s.signingPeriod ∧
    (onCompleted s sid assigned).maxDE = s.maxDE ∧ (onCompleted s sid assigned).count = s.count ∧
    (onCompleted s sid assigned).bActive = s.bActive ∧ (onCompleted s sid assigned).penalised = s.penalised := by
  unfold onCompleted
  simp only []
  split
  · exact ⟨rfl, rfl, rfl, rfl, rfl, rfl, rfl, rfl, rfl, rfl, rfl, rfl, rfl, rfl, rfl, rfl⟩
  · split
    · exact ⟨rfl, rfl, rfl, rfl, rfl, rfl, rfl, rfl, rfl, rfl, rfl, rfl, rfl, rfl, rfl, rfl⟩
    · split
      · exact ⟨rfl, rfl, rfl, rfl, rfl, rfl, rfl, rfl, rfl, rfl, rfl, rfl, rfl, rfl, rfl, rfl⟩
      · rename_i b _ _
        exact payAll_frame b.feePerSigner assigned _

theorem onTimeout_frame (sid att : Nat) (nowNs : Int) (l : List Nat) (s : State) :
    (onTimeout s sid att nowNs l).queues = s.queues ∧ (onTimeout s sid att nowNs l).assignedLog = s.assignedLog ∧
    (onTimeout s sid att nowNs l).nextToken = s.nextToken ∧ (onTimeout s sid att nowNs l).signings = s.signings ∧
    (onTimeout s sid att nowNs l).attempts = s.attempts ∧ (onTimeout s sid att nowNs l).partials = s.partials ∧
    (onTimeout s sid att nowNs l).expirations = s.expirations ∧
    (onTimeout s sid att nowNs l).members = s.members ∧ (onTimeout s sid att nowNs l).threshold = s.threshold ∧
    (onTimeout s sid att nowNs l).maxAttempt = s.maxAttempt ∧ (onTimeout s sid att nowNs l).signingPeriod = s.signingPeriod ∧
    (onTimeout s sid att nowNs l).maxDE = s.maxDE ∧ (onTimeout s sid att nowNs l).count = s.count ∧
    (∀ e ∈ (onTimeout s sid att nowNs l).penalised, e ∈ s.penalised ∨ (e.1 = sid ∧ e.2.1 = att ∧ e.2.2 ∈ l)) := by
  induction l generalizing s with
  | nil => simp [onTimeout]
  | cons m rest ih =>
    simp only [onTimeout]
    by_cases hb : s.bActive m = true
    · simp only [hb, if_true]
      obtain ⟨a1, a2, a3, a4, a5, a6, a7, a9, a10, a11, a12, a13, a14, a15⟩ := ih
        { s with bActive := fun x => if x = m then false else s.bActive x, bSince := fun x => if x = m then nowNs else s.bSince x,
                 tssActive := fun x => if x = m then false else s.tssActive x, penalised := s.penalised ++ [(sid, att, m)] }
      refine ⟨a1, a2, a3, a4, a5, a6, a7, a9, a10, a11, a12, a13, a14, ?_⟩
      intro e he
      rcases a15 e he with h | ⟨h1, h2, h3⟩
      · rcases List.mem_append.mp h with h' | h'
        · exact Or.inl h'
        · simp at h'; subst h'; exact Or.inr ⟨rfl, rfl, List.mem_cons_self ..⟩
      · exact Or.inr ⟨h1, h2, List.mem_cons_of_mem _ h3⟩
    · have hb' : s.bActive m = false := by simpa using hb
      simp only [hb', Bool.false_eq_true, if_false]
      obtain ⟨a1, a2, a3, a4, a5, a6, a7, a9, a10, a11, a12, a13, a14, a15⟩ := ih s
      refine ⟨a1, a2, a3, a4, a5, a6, a7, a9, a10, a11, a12, a13, a14, ?_⟩
      intro e he
      rcases a15 e he with h | ⟨h1, h2, h3⟩
      · exact Or.inl h
      · exact Or.inr ⟨h1, h2, List.mem_cons_of_mem _ h3⟩

end BandVerif.Signing

namespace BandVerif.Signing

/-! ### C05: DE tokens -/
def logTokens (s : State) : List Nat := s.assignedLog.map (·.2.2.2)

/-- queue / log discipline: all tokens ever handed out are pairwise distinct -/
structure QInv (q : Nat → List Nat) (L : List Nat) (next : Nat) : Prop where
  q_nodup : ∀ m, (q m).Nodup
  q_lt : ∀ m, ∀ t ∈ q m, t < next
  q_disj : ∀ m m', m ≠ m' → ∀ t ∈ q m, t ∉ q m'
  q_log : ∀ m, ∀ t ∈ q m, t ∉ L
  log_nodup : L.Nodup
  log_lt : ∀ t ∈ L, t < next

def TokInv (s : State) : Prop := QInv s.queues (logTokens s) s.nextToken

theorem dequeueAll_inv (committee : List Nat) (q : Nat → List Nat) (L : List Nat) (next : Nat) (h : QInv q L next) :
    QInv (dequeueAll q committee).2 (L ++ (dequeueAll q committee).1.map (·.2)) next ∧
    (∀ m, ∀ t ∈ (dequeueAll q committee).2 m, t ∈ q m) := by
  induction committee generalizing q L with
  | nil => simp [dequeueAll]; exact h
  | cons m rest ih =>
    simp only [dequeueAll]
    cases hq : q m with
    | nil => simp only []; exact ih q L h
    | cons t ts =>
      simp only []
      have hnd := h.q_nodup m; rw [hq] at hnd
      have htn : t ∉ ts := (List.nodup_cons.mp hnd).1
      have hmem : t ∈ q m := by rw [hq]; exact List.mem_cons_self ..
      have h1 : QInv (fun x => if x = m then ts else q x) (L ++ [t]) next := by
        refine ⟨?_, ?_, ?_, ?_, ?_, ?_⟩
        · intro x; by_cases e : x = m
          · simp only [e, if_true]; exact (List.nodup_cons.mp hnd).2
          · simp only [e, if_false]; exact h.q_nodup x
        · intro x u hu; by_cases e : x = m
          · simp only [e, if_true] at hu; exact h.q_lt m u (by rw [hq]; exact List.mem_cons_of_mem _ hu)
          · simp only [e, if_false] at hu; exact h.q_lt x u hu
        · intro x y hxy u hu
          have hu' : u ∈ q x := by
            by_cases e : x = m
            · simp only [e, if_true] at hu; rw [e, hq]; exact List.mem_cons_of_mem _ hu
            · simp only [e, if_false] at hu; exact hu
          intro hy
          have hy' : u ∈ q y := by
            by_cases e : y = m
            · simp only [e, if_true] at hy; rw [e, hq]; exact List.mem_cons_of_mem _ hy
            · simp only [e, if_false] at hy; exact hy
          exact h.q_disj x y hxy u hu' hy'
        · intro x u hu hL
          rcases List.mem_append.mp hL with hl | hl
          · by_cases e : x = m
            · simp only [e, if_true] at hu; exact h.q_log m u (by rw [hq]; exact List.mem_cons_of_mem _ hu) hl
            · simp only [e, if_false] at hu; exact h.q_log x u hu hl
          · simp at hl; subst hl
            by_cases e : x = m
            · simp only [e, if_true] at hu; exact htn hu
            · simp only [e, if_false] at hu; exact h.q_disj m x (fun e' => e e'.symm) u hmem hu
        · exact List.nodup_append.mpr ⟨h.log_nodup, by simp, by
            intro a ha b hb; simp at hb; subst hb; intro e; subst e; exact h.q_log m a hmem ha⟩
        · intro u hu
          rcases List.mem_append.mp hu with hl | hl
          · exact h.log_lt u hl
          · simp at hl; subst hl; exact h.q_lt m u hmem
      obtain ⟨i1, i2⟩ := ih (fun x => if x = m then ts else q x) (L ++ [t]) h1
      constructor
      · have : L ++ ((m, t) :: (dequeueAll (fun x => if x = m then ts else q x) rest).1).map (·.2)
            = (L ++ [t]) ++ (dequeueAll (fun x => if x = m then ts else q x) rest).1.map (·.2) := by simp
        rw [this]; exact i1
      · intro x u hu
        have := i2 x u hu
        by_cases e : x = m
        · simp only [e, if_true] at this; rw [e, hq]; exact List.mem_cons_of_mem _ this
        · simp only [e, if_false] at this; exact this

theorem enqueue_tokInv (s : State) (m k : Nat) (h : TokInv s) : TokInv (enqueue s m k).1 := by
  unfold enqueue
  split
  · exact h
  · unfold TokInv logTokens at *
    simp only []
    have hfresh : ∀ t ∈ (List.range k).map (· + s.nextToken), s.nextToken ≤ t ∧ t < s.nextToken + k := by
      intro t ht; obtain ⟨i, hi, rfl⟩ := List.mem_map.mp ht; have := List.mem_range.mp hi; omega
    have hfnd : ((List.range k).map (· + s.nextToken)).Nodup := by
      have hr : (List.range k).Pairwise (· ≠ ·) := List.nodup_range
      exact List.Pairwise.map (fun x => x + s.nextToken) (fun a b hab => by omega) hr
    refine ⟨?_, ?_, ?_, ?_, h.log_nodup, fun t ht => by have := h.log_lt t ht; omega⟩
    · intro x; by_cases e : x = m
      · simp only [e, if_true]
        exact List.nodup_append.mpr ⟨h.q_nodup m, hfnd, by
          intro a ha b hb; have := h.q_lt m a ha; have := (hfresh b hb).1; omega⟩
      · simp only [e, if_false]; exact h.q_nodup x
    · intro x t ht; by_cases e : x = m
      · simp only [e, if_true] at ht
        rcases List.mem_append.mp ht with h1 | h1
        · have := h.q_lt m t h1; omega
        · exact (hfresh t h1).2
      · simp only [e, if_false] at ht; have := h.q_lt x t ht; omega
    · intro x y hxy t ht hy
      have old : ∀ z, t ∈ (if z = m then s.queues m ++ (List.range k).map (· + s.nextToken) else s.queues z) →
          (t ∈ s.queues z) ∨ (z = m ∧ s.nextToken ≤ t) := by
        intro z hz; by_cases e : z = m
        · simp only [e, if_true] at hz
          rcases List.mem_append.mp hz with h1 | h1
          · exact Or.inl (e ▸ h1)
          · exact Or.inr ⟨e, (hfresh t h1).1⟩
        · simp only [e, if_false] at hz; exact Or.inl hz
      rcases old x ht with a | ⟨a1, a2⟩ <;> rcases old y hy with b | ⟨b1, b2⟩
      · exact h.q_disj x y hxy t a b
      · have := h.q_lt x t a; omega
      · have := h.q_lt y t b; omega
      · exact hxy (a1.trans b1.symm)
    · intro x t ht hl
      by_cases e : x = m
      · simp only [e, if_true] at ht
        rcases List.mem_append.mp ht with h1 | h1
        · exact h.q_log m t h1 hl
        · have := h.log_lt t hl; have := (hfresh t h1).1; omega
      · simp only [e, if_false] at ht; exact h.q_log x t ht hl

theorem resetDE_tokInv (s : State) (m : Nat) (h : TokInv s) : TokInv (resetDE s m) := by
  unfold TokInv logTokens resetDE at *
  simp only []
  refine ⟨?_, ?_, ?_, ?_, h.log_nodup, h.log_lt⟩
  · intro x; by_cases e : x = m
    · simp [e]
    · simp only [e, if_false]; exact h.q_nodup x
  · intro x t ht; by_cases e : x = m
    · simp [e] at ht
    · simp only [e, if_false] at ht; exact h.q_lt x t ht
  · intro x y hxy t ht hy
    by_cases e : x = m
    · simp [e] at ht
    · by_cases e' : y = m
      · simp [e'] at hy
      · simp only [e, if_false] at ht; simp only [e', if_false] at hy; exact h.q_disj x y hxy t ht hy
  · intro x t ht; by_cases e : x = m
    · simp [e] at ht
    · simp only [e, if_false] at ht; exact h.q_log x t ht

theorem initiate_tokInv (s : State) (sid : Nat) (committee : List Nat) (height : Int) (h : TokInv s) :
    TokInv (initiate s sid committee height).1 := by
  unfold initiate
  cases s.signings sid with
  | none => exact h
  | some sg =>
    simp only []
    split
    · exact h
    · split
      · exact h
      · split
        · exact h
        · unfold TokInv logTokens at *
          simp only [List.map_append, List.map_map]
          have := (dequeueAll_inv committee s.queues (s.assignedLog.map (·.2.2.2)) s.nextToken h).1
          have e : List.map ((fun x => x.2.2.2) ∘ fun x => (sid, sg.attempt + 1, x.1, x.2)) (dequeueAll s.queues committee).1
              = (dequeueAll s.queues committee).1.map (·.2) := by
            apply List.map_congr_left; intro x _; rfl
          rw [e]; exact this

end BandVerif.Signing

namespace BandVerif.Signing

theorem tokInv_of_frame (s s' : State) (h : TokInv s) (e1 : s'.queues = s.queues) (e2 : s'.assignedLog = s.assignedLog)
    (e3 : s'.nextToken = s.nextToken) : TokInv s' := by
  unfold TokInv logTokens at *; rw [e1, e2, e3]; exact h

theorem aggregateAll_tokFrame (l : List Nat) (s : State) :
    (aggregateAll s l).queues = s.queues ∧ (aggregateAll s l).assignedLog = s.assignedLog ∧
    (aggregateAll s l).nextToken = s.nextToken := by
  induction l generalizing s with
  | nil => simp [aggregateAll]
  | cons sid rest ih =>
    simp only [aggregateAll]
    cases s.signings sid with
    | none => exact ih s
    | some sg =>
      simp only []
      obtain ⟨a, b, c⟩ := ih (onCompleted { s with signings := fun i => if i = sid then some { sg with status := stSuccess } else s.signings i } sid
        (((s.attempts sid sg.attempt).map (·.assigned.map (·.1))).getD []))
      obtain ⟨f1, f2, f3, _⟩ := onCompleted_frame { s with signings := fun i => if i = sid then some { sg with status := stSuccess } else s.signings i } sid
        (((s.attempts sid sg.attempt).map (·.assigned.map (·.1))).getD [])
      exact ⟨a.trans f1, b.trans f2, c.trans f3⟩

theorem expireGo_tokFrame (height nowNs : Int) (l : List (Nat × Nat)) (s : State) (acc : List Nat) (n : Nat) :
    (expireGo height nowNs l s acc n).1.queues = s.queues ∧ (expireGo height nowNs l s acc n).1.assignedLog = s.assignedLog ∧
    (expireGo height nowNs l s acc n).1.nextToken = s.nextToken := by
  induction l generalizing s acc n with
  | nil => simp [expireGo]
  | cons e rest ih =>
    obtain ⟨sid, att⟩ := e
    simp only [expireGo]
    cases hs : s.signings sid with
    | none => simp
    | some sg =>
      cases ha : s.attempts sid att with
      | none => simp
      | some atm =>
        simp only []
        split
        · exact ⟨rfl, rfl, rfl⟩
        · split
          · rename_i hto
            obtain ⟨t1, t2, t3, _⟩ := onTimeout_frame sid sg.attempt nowNs
              (((s.attempts sid sg.attempt).map fun c => (c.assigned.map (·.1)).filter fun m => !(s.partials sid sg.attempt).contains m).getD []) s
            obtain ⟨a, b, c⟩ := ih _ (acc ++ [sid]) (n + 1)
            exact ⟨a.trans t1, b.trans t2, c.trans t3⟩
          · obtain ⟨a, b, c⟩ := ih _ acc (n + 1)
            exact ⟨a, b, c⟩

theorem retryOne_tokInv (s : State) (sid : Nat) (committee : List Nat) (height : Int) (h : TokInv s) :
    TokInv (retryOne s sid committee height) := by
  unfold retryOne
  have hi := initiate_tokInv s sid committee height h
  cases hinit : initiate s sid committee height with
  | mk s' e =>
    rw [hinit] at hi
    cases e <;> simp only [] <;> first
      | exact hi
      | (cases s.signings sid with
          | none => exact h
          | some sg => exact tokInv_of_frame _ _ h rfl rfl rfl)

theorem retryAll_tokInv (committee : Nat → List Nat) (height : Int) (l : List Nat) (s : State) (h : TokInv s) :
    TokInv (retryAll committee height l s) := by
  induction l generalizing s with
  | nil => exact h
  | cons sid rest ih => exact ih _ (retryOne_tokInv s sid (committee sid) height h)

theorem endBlock_tokInv (s : State) (committee : Nat → List Nat) (height nowNs : Int) (h : TokInv s) :
    TokInv (endBlock s committee height nowNs) := by
  unfold endBlock
  simp only []
  apply retryAll_tokInv
  obtain ⟨a1, a2, a3⟩ := aggregateAll_tokFrame s.pending s
  obtain ⟨b1, b2, b3⟩ := expireGo_tokFrame height nowNs (aggregateAll s s.pending).expirations
    { aggregateAll s s.pending with pending := [] } [] 0
  exact tokInv_of_frame _ _ h (b1.trans a1) (b2.trans a2) (b3.trans a3)

theorem tssRequest_tokInv (s : State) (committee : List Nat) (height : Int) (h : TokInv s) :
    TokInv (tssRequest s committee height).1 := by
  unfold tssRequest
  simp only []
  have hi := initiate_tokInv { s with count := s.count + 1, signings := fun i => if i = s.count + 1 then some { status := stWaiting, attempt := 0 } else s.signings i }
    (s.count + 1) committee height (tokInv_of_frame _ _ h rfl rfl rfl)
  cases hinit : initiate { s with count := s.count + 1, signings := fun i => if i = s.count + 1 then some { status := stWaiting, attempt := 0 } else s.signings i }
    (s.count + 1) committee height with
  | mk s' e =>
    rw [hinit] at hi
    cases e <;> simp only [] <;> first | exact hi | exact h

theorem request_tokInv (s : State) (sender : Nat) (auth : Bool) (limit : Coins) (committee : List Nat) (height : Int)
    (h : TokInv s) : TokInv (request s sender auth limit committee height).1 := by
  unfold request
  cases requestErr s sender auth limit <;> simp only [] <;> try exact h
  have h1 : TokInv (escrowed s sender auth) := by
    unfold escrowed; split
    · exact h
    · exact tokInv_of_frame _ _ h rfl rfl rfl
  have ht := tssRequest_tokInv _ committee height h1
  cases hr : tssRequest (escrowed s sender auth) committee height with
  | mk s2 e =>
    rw [hr] at ht
    cases e <;> simp only [] <;> first | exact tokInv_of_frame _ _ ht rfl rfl rfl | exact h

theorem addPartial_tokFrame (s : State) (sid att member len : Nat) :
    (addPartial s sid att member len).queues = s.queues ∧ (addPartial s sid att member len).assignedLog = s.assignedLog ∧
    (addPartial s sid att member len).nextToken = s.nextToken := by
  unfold addPartial; simp only []; split <;> exact ⟨rfl, rfl, rfl⟩

theorem submit_tokFrame (s : State) (sid member : Nat) (signerOk valid : Bool) :
    (submit s sid member signerOk valid).1.queues = s.queues ∧ (submit s sid member signerOk valid).1.assignedLog = s.assignedLog ∧
    (submit s sid member signerOk valid).1.nextToken = s.nextToken := by
  unfold submit
  cases submitErr s sid member signerOk valid <;> simp only [] <;> try exact ⟨trivial, trivial, trivial⟩
  cases s.signings sid with
  | none => exact ⟨rfl, rfl, rfl⟩
  | some sg =>
    simp only []
    cases s.attempts sid sg.attempt with
    | none => exact ⟨rfl, rfl, rfl⟩
    | some atm => exact addPartial_tokFrame s sid sg.attempt member atm.assigned.length

theorem activate_tokFrame (s : State) (m : Nat) (nowNs : Int) :
    (activate s m nowNs).1.queues = s.queues ∧ (activate s m nowNs).1.assignedLog = s.assignedLog ∧
    (activate s m nowNs).1.nextToken = s.nextToken := by
  unfold activate
  (repeat' split) <;> exact ⟨rfl, rfl, rfl⟩

end BandVerif.Signing
