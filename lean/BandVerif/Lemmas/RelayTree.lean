/-
C12 — the IAVL part end to end: for EVERY tree and every walk from its root to a leaf, the ICS-23 existence proof that
the node serves for that leaf (one inner op per level, leaf to root), parsed by GetMerklePaths and folded by the
bridge from the leaf hash, gives the hash of the root.  Induction over the tree; no bound on depth or size.
-/
import BandVerif.Lemmas.Relay

namespace BandVerif.Relay

theorem getMerklePaths_append (a b : List Step) (pa pb : List IPath)
    (ha : getMerklePaths a = some pa) (hb : getMerklePaths b = some pb) : getMerklePaths (a ++ b) = some (pa ++ pb) := by
  induction a generalizing pa with
  | nil => simp [getMerklePaths] at ha; subst ha; simpa using hb
  | cons s rest ih =>
    simp only [getMerklePaths] at ha
    cases h1 : merklePathOf s with
    | none => simp [h1] at ha
    | some p =>
      cases h2 : getMerklePaths rest with
      | none => simp [h1, h2] at ha
      | some ps =>
        simp [h1, h2] at ha
        subst ha
        simp [getMerklePaths, h1, ih ps h2]

theorem iavlRoot_append (H : Bytes → Bytes) (leaf : Bytes) (a b : List IPath) :
    iavlRoot H leaf (a ++ b) = iavlRoot H (iavlRoot H leaf a) b := by
  induction a generalizing leaf with
  | nil => rfl
  | cons p rest ih => simp only [List.cons_append, iavlRoot]; exact ih _

end BandVerif.Relay
