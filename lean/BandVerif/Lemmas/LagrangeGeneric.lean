/- C03: the GENERIC Lagrange routine of pkg/tss (lagrange.ComputeCoefficient, used when an id exceeds the precomputed
   table) computes the true Lagrange coefficient at 0 in the field of scalars — using that the group order is prime
   (Lemmas/GroupOrderPrime.lean).  Mathlib. -/
import BandVerif.Model.Lagrange
import BandVerif.Lemmas.GroupOrderPrime
import Mathlib.FieldTheory.Finite.Basic
import BandVerif.Lemmas.Frost

namespace BandVerif.Lagrange

theorem N_eq : N = Pratt.groupOrder := rfl

instance : Fact (Nat.Prime N) := ⟨by rw [N_eq]; exact Pratt.groupOrder_prime⟩

/-- square-and-multiply is exponentiation mod m -/
theorem powModF_eq (f b e m : Nat) (h : e < 2 ^ f) : powModF f b e m = b ^ e % m := by
  induction f generalizing b e with
  | zero =>
    have : e = 0 := by simpa using h
    subst this; simp [powModF]
  | succ f ih =>
    unfold powModF
    by_cases h0 : e = 0
    · subst h0; simp
    · have hlt : e / 2 < 2 ^ f := by
        rw [Nat.pow_succ] at h; omega
      simp only [h0, if_false]
      have hsq : (b * b % m) ^ (e / 2) % m = (b * b) ^ (e / 2) % m := by rw [Nat.pow_mod, Nat.mod_mod, ← Nat.pow_mod]
      by_cases h1 : e % 2 = 1
      · simp only [h1, if_true]
        rw [ih _ _ hlt, hsq]
        have he : e = 2 * (e / 2) + 1 := by omega
        have hb : b ^ e = b * (b * b) ^ (e / 2) := by
          conv_lhs => rw [he, Nat.pow_succ, Nat.pow_mul]
          rw [show b ^ 2 = b * b from by ring]; ring
        rw [hb]
        conv_rhs => rw [Nat.mul_mod]
      · simp only [h1, if_false]
        rw [ih _ _ hlt, hsq]
        have he : e = 2 * (e / 2) := by omega
        have hb : b ^ e = (b * b) ^ (e / 2) := by
          conv_lhs => rw [he, Nat.pow_mul]
          rw [show b ^ 2 = b * b from by ring]
        rw [hb]

theorem N_lt : N < 2 ^ 256 := by unfold N Generated.Frost.groupOrder; norm_num

theorem powMod_eq (b e m : Nat) (h : e < 2 ^ 256) : powMod b e m = b ^ e % m :=
  powModF_eq 512 b e m (Nat.lt_of_lt_of_le h (Nat.pow_le_pow_right (by norm_num) (by norm_num)))

/-- `invN` is the inverse in the field of scalars -/
theorem invN_spec (a : Int) (ha : (a : ZMod N) ≠ 0) : ((invN a : ℕ) : ZMod N) = (a : ZMod N)⁻¹ := by
  unfold invN
  rw [powMod_eq _ _ _ (Nat.lt_of_le_of_lt (Nat.sub_le _ _) N_lt)]
  rw [ZMod.natCast_mod, Nat.cast_pow]
  have hx : (((a % (N : Int)).toNat : ℕ) : ZMod N) = (a : ZMod N) := by
    have hNne : (N : Int) ≠ 0 := by have := (Fact.out : Nat.Prime N).pos; omega
    have hpos : (0 : Int) ≤ a % (N : Int) := Int.emod_nonneg _ hNne
    have : (((a % (N : Int)).toNat : ℕ) : Int) = a % (N : Int) := Int.toNat_of_nonneg hpos
    have h2 : (((a % (N : Int)).toNat : ℕ) : ZMod N) = ((a % (N : Int) : Int) : ZMod N) := by
      rw [← Int.cast_natCast, this]
    rw [h2]
    exact ZMod.intCast_mod a N
  rw [hx]
  have hf : (a : ZMod N) ^ (N - 1) = 1 := ZMod.pow_card_sub_one_eq_one ha
  have hN : N - 1 = (N - 2) + 1 := by have := (Fact.out : Nat.Prime N).two_le; omega
  rw [hN, pow_succ] at hf
  exact eq_inv_of_mul_eq_one_left hf

theorem foldl_mul_cast (l : List Nat) (f : Nat → Int) (acc : Int) :
    ((l.foldl (fun (a : Int) (j : Nat) => f j * a) acc : Int) : ZMod N) = (acc : ZMod N) * (l.map (fun j => ((f j : Int) : ZMod N))).prod := by
  induction l generalizing acc with
  | nil => simp
  | cons x xs ih =>
    simp only [List.foldl_cons, List.map_cons, List.prod_cons]
    rw [ih]; push_cast; ring

theorem prod_div (l : List Nat) (i : Nat) :
    (l.map (fun (j : Nat) => (((j : Int)) : ZMod N))).prod * ((l.map (fun (j : Nat) => ((((j : Int) - (i : Int)) : Int) : ZMod N))).prod)⁻¹ =
      (l.map (fun (j : Nat) => (j : ZMod N) / ((j : ZMod N) - (i : ZMod N)))).prod := by
  induction l with
  | nil => simp
  | cons x xs ih =>
    simp only [List.map_cons, List.prod_cons, mul_inv]
    rw [← ih]
    simp only [Int.cast_sub, Int.cast_natCast, div_eq_mul_inv]
    ring

/-- PROPERTY (generic routine): for ANY list of ids and any i, provided no other id is congruent to i modulo the group
    order (e.g. distinct ids below the order), the routine returns ∏_{j ≠ i} j / (j − i) in the field of scalars -/
theorem generic_spec (i : Nat) (s : List Nat) (h : ∀ j ∈ s, j ≠ i → ((j : ZMod N) - (i : ZMod N)) ≠ 0) :
    ((generic i s : ℕ) : ZMod N) = ((s.filter (· ≠ i)).map (fun (j : Nat) => (j : ZMod N) / ((j : ZMod N) - (i : ZMod N)))).prod := by
  unfold generic
  simp only []
  set js := s.filter (· ≠ i) with hjs
  have hnum := foldl_mul_cast js (fun j => (j : Int)) 1
  have hden := foldl_mul_cast js (fun j => (j : Int) - (i : Int)) 1
  have hden_ne : ((js.foldl (fun (a : Int) (j : Nat) => ((j : Int) - (i : Int)) * a) 1 : Int) : ZMod N) ≠ 0 := by
    rw [hden, Int.cast_one, one_mul]
    apply List.prod_ne_zero
    intro h0
    obtain ⟨j, hj, e⟩ := List.mem_map.mp h0
    have hj' := List.mem_filter.mp hj
    have := h j hj'.1 (by simpa using hj'.2)
    apply this
    push_cast at e
    exact e
  -- the result is (num * inv den) mod N
  have hpos : (0 : Int) ≤ (js.foldl (fun (a : Int) (j : Nat) => (j : Int) * a) 1 *
      (invN (js.foldl (fun (a : Int) (j : Nat) => ((j : Int) - (i : Int)) * a) 1) : Int)) % (N : Int) :=
    Int.emod_nonneg _ (by have := (Fact.out : Nat.Prime N).pos; omega)
  have hcast : ((((js.foldl (fun (a : Int) (j : Nat) => (j : Int) * a) 1 *
      (invN (js.foldl (fun (a : Int) (j : Nat) => ((j : Int) - (i : Int)) * a) 1) : Int)) % (N : Int)).toNat : ℕ) : ZMod N) =
      ((js.foldl (fun (a : Int) (j : Nat) => (j : Int) * a) 1 *
      (invN (js.foldl (fun (a : Int) (j : Nat) => ((j : Int) - (i : Int)) * a) 1) : Int) : Int) : ZMod N) := by
    have e1 := Int.toNat_of_nonneg hpos
    have h2 : ∀ (z : Int), 0 ≤ z → ((z.toNat : ℕ) : ZMod N) = ((z : Int) : ZMod N) := by
      intro z hz
      rw [← Int.cast_natCast, Int.toNat_of_nonneg hz]
    rw [h2 _ hpos]
    exact ZMod.intCast_mod _ N
  rw [hcast, Int.cast_mul, Int.cast_natCast, invN_spec _ hden_ne, hnum, hden, Int.cast_one, one_mul, one_mul]
  exact prod_div js i

theorem cast_inj_lt (a b : Nat) (ha : a < N) (hb : b < N) (h : (a : ZMod N) = (b : ZMod N)) : a = b := by
  have := (ZMod.natCast_eq_natCast_iff' a b N).mp h
  rwa [Nat.mod_eq_of_lt ha, Nat.mod_eq_of_lt hb] at this

/-- PROPERTY (generic routine = the interpolation coefficient): for distinct member ids below the group order the routine
    returns the Lagrange coefficient at 0 of node i within the node set — the `lagrangeAtZero` that
    `aggregate_verifies` / `lagrange_interpolates` are stated with -/
theorem generic_is_lagrangeAtZero (i : Nat) (s : List Nat) (hn : s.Nodup) (hlt : ∀ j ∈ s, j < N) (hi : i < N) :
    ((generic i s : ℕ) : ZMod N) = Frost.lagrangeAtZero (s.toFinset.image (Nat.cast : ℕ → ZMod N)) (i : ZMod N) := by
  rw [generic_spec i s (fun j hj hne h0 => hne (cast_inj_lt j i (hlt j hj) hi (sub_eq_zero.mp h0)))]
  unfold Frost.lagrangeAtZero
  have hinj : Set.InjOn (Nat.cast : ℕ → ZMod N) (s.toFinset.erase i : Finset ℕ) := by
    intro a ha b hb hab
    have ha' := List.mem_toFinset.mp (Finset.mem_of_mem_erase ha)
    have hb' := List.mem_toFinset.mp (Finset.mem_of_mem_erase hb)
    exact cast_inj_lt a b (hlt a ha') (hlt b hb') hab
  have himg : (s.toFinset.image (Nat.cast : ℕ → ZMod N)).erase (i : ZMod N) = (s.toFinset.erase i).image (Nat.cast : ℕ → ZMod N) := by
    ext x
    simp only [Finset.mem_erase, Finset.mem_image, List.mem_toFinset]
    constructor
    · rintro ⟨hne, a, ha, rfl⟩
      exact ⟨a, ⟨fun e => hne (by rw [e]), ha⟩, rfl⟩
    · rintro ⟨a, ⟨hne, ha⟩, rfl⟩
      exact ⟨fun e => hne (cast_inj_lt a i (hlt a ha) hi e), a, ha, rfl⟩
  rw [himg, Finset.prod_image hinj]
  have hf : s.toFinset.erase i = (s.filter (· ≠ i)).toFinset := by
    ext x; simp [Finset.mem_erase, List.mem_filter, and_comm]
  rw [hf, List.prod_toFinset _ (hn.filter _)]

end BandVerif.Lagrange
