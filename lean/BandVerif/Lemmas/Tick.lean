/- C11: tickToPriceX96 is strictly increasing over the whole tick range; PriceToTick's final correction. -/
import BandVerif.Lemmas.TickMonoAll

namespace BandVerif.Tick

theorem ratio_anti (a b : Nat) (hab : a < b) (hb : b ≤ 262143) : ratio b < ratio a := by
  induction b with
  | zero => omega
  | succ b ih =>
    have s := (step_all b (by omega)).1
    by_cases e : a = b
    · subst e; exact s
    · exact Nat.lt_trans s (ih (by omega) (by omega))

theorem inv_mono (a b : Nat) (hab : a < b) (hb : b ≤ 262143) : maxUint192 / ratio a < maxUint192 / ratio b := by
  induction b with
  | zero => omega
  | succ b ih =>
    have s := (step_all b (by omega)).2.1
    by_cases e : a = b
    · subst e; exact s
    · exact Nat.lt_trans (ih (by omega) (by omega)) s

theorem ratio_le_q96 (a : Nat) (ha : a ≤ 262143) : ratio a ≤ ratio 0 := by
  by_cases e : a = 0
  · subst e; exact Nat.le_refl _
  · exact Nat.le_of_lt (ratio_anti 0 a (by omega) ha)

theorem ratio_zero : ratio 0 = q96 := by decide +kernel
theorem inv_one_gt : q96 < maxUint192 / ratio 1 := by decide +kernel

theorem inRange_iff (t : Int) : inRange t = true ↔ -262143 ≤ t ∧ t ≤ 262143 := by
  unfold inRange minTick maxTick; simp

/-- tickToPriceX96 is strictly increasing on the valid tick range -/
theorem x96_strictMono (t1 t2 : Int) (h1 : inRange t1 = true) (h2 : inRange t2 = true) (h : t1 < t2) : x96 t1 < x96 t2 := by
  rw [inRange_iff] at h1 h2
  unfold x96
  have hb : (0 : Nat) < billion := by decide
  apply Nat.mul_lt_mul_of_pos_right _ hb
  by_cases p1 : t1 > 0
  · have p2 : t2 > 0 := by omega
    rw [if_pos p1, if_pos p2]
    exact inv_mono _ _ (by omega) (by omega)
  · rw [if_neg p1]
    by_cases p2 : t2 > 0
    · rw [if_pos p2]
      have a : ratio t1.natAbs ≤ q96 := ratio_zero ▸ ratio_le_q96 _ (by omega)
      have b : maxUint192 / ratio 1 ≤ maxUint192 / ratio t2.natAbs := by
        by_cases e : t2.natAbs = 1
        · rw [e]; exact Nat.le_refl _
        · exact Nat.le_of_lt (inv_mono 1 _ (by omega) (by omega))
      exact Nat.lt_of_le_of_lt a (Nat.lt_of_lt_of_le inv_one_gt b)
    · rw [if_neg p2]
      exact ratio_anti _ _ (by omega) (by omega)

/-- `r` is the largest valid tick whose price does not exceed `price` -/
def IsLargest (price : Nat) (r : Int) : Prop :=
  inRange r = true ∧ x96 r ≤ price * q96 ∧ ∀ t, inRange t = true → x96 t ≤ price * q96 → t ≤ r

theorem leX96_iff (t : Int) (target : Nat) : leX96 t target = true ↔ inRange t = true ∧ x96 t ≤ target := by
  unfold leX96 x96?
  by_cases h : inRange t = true
  · simp [h]
  · simp [h]

/-- PriceToTick's correction: given an approximation within one tick, the result is the largest tick
    whose price does not exceed the input (PARTIAL: the approximation hypothesis is validated by sweep) -/
theorem priceToTick_largest_partial (price : Nat) (r : Int) (hok : approxOK price = true)
    (h : priceToTick price = some r) : IsLargest price (r - offset) := by
  unfold priceToTick at h
  by_cases hp : price = 0
  · simp [hp] at h
  · rw [if_neg hp] at h
    simp only [] at h
    unfold approxOK at hok
    simp only [Bool.and_eq_true, Bool.or_eq_true, Bool.not_eq_true', decide_eq_true_eq] at hok
    obtain ⟨⟨hin, hup⟩, hlow⟩ := hok
    have hin' := (inRange_iff _).mp hin
    have hr : ¬ (approxTick price > maxTick ∨ approxTick price < minTick) := by
      unfold maxTick minTick; omega
    rw [if_neg hr] at h
    -- upper bound helper: any valid t with x96 t ≤ target is ≤ r when target < x96 (r+1) or r+1 is out of range
    have upper : ∀ (r0 : Int), inRange r0 = true → (inRange (r0 + 1) = true → price * q96 < x96 (r0 + 1)) →
        ∀ t, inRange t = true → x96 t ≤ price * q96 → t ≤ r0 := by
      intro r0 hr0 hnext t ht hle
      by_cases c : t ≤ r0
      · exact c
      · exfalso
        have hr0' := (inRange_iff _).mp hr0
        have ht' := (inRange_iff _).mp ht
        have hin1 : inRange (r0 + 1) = true := (inRange_iff _).mpr (by omega)
        have h1 := hnext hin1
        by_cases e : t = r0 + 1
        · subst e; omega
        · have := x96_strictMono (r0 + 1) t hin1 ht (by omega); omega
    by_cases c1 : leX96 (approxTick price + 1) (price * q96) = true
    · rw [if_pos c1] at h
      cases h
      obtain ⟨i1, l1⟩ := (leX96_iff _ _).mp c1
      refine ⟨by simpa using i1, by simpa using l1, ?_⟩
      have e : approxTick price + 1 + offset - offset = approxTick price + 1 := by omega
      rw [e]
      apply upper _ i1
      intro hin2
      rw [show approxTick price + 1 + 1 = approxTick price + 2 from by omega] at hin2 ⊢
      rcases hup with hu | hu
      · rw [hin2] at hu; cases hu
      · exact hu
    · rw [if_neg c1] at h
      by_cases c2 : leX96 (approxTick price) (price * q96) = true
      · rw [if_pos c2] at h
        cases h
        obtain ⟨i1, l1⟩ := (leX96_iff _ _).mp c2
        have e : approxTick price + offset - offset = approxTick price := by omega
        rw [e]
        refine ⟨i1, l1, upper _ i1 ?_⟩
        intro hin1
        have : ¬ (inRange (approxTick price + 1) = true ∧ x96 (approxTick price + 1) ≤ price * q96) :=
          fun hh => c1 ((leX96_iff _ _).mpr hh)
        simp only [hin1, true_and] at this
        omega
      · rw [if_neg c2] at h
        cases h
        have e : approxTick price - 1 + offset - offset = approxTick price - 1 := by omega
        rw [e]
        have c1' : leX96 (approxTick price + 1) (price * q96) = false := by simpa using c1
        have c2' : leX96 (approxTick price) (price * q96) = false := by simpa using c2
        rw [c1', c2'] at hlow
        simp only [Bool.false_eq_true, false_or] at hlow
        obtain ⟨i0, l0⟩ := hlow
        refine ⟨i0, l0, upper _ i0 ?_⟩
        intro _
        rw [show approxTick price - 1 + 1 = approxTick price from by omega]
        have : ¬ (inRange (approxTick price) = true ∧ x96 (approxTick price) ≤ price * q96) :=
          fun hh => c2 ((leX96_iff _ _).mpr hh)
        simp only [hin, true_and] at this
        omega

end BandVerif.Tick
