/- Lemmas for C12: varints, small-length encodings. -/
import BandVerif.Model.Relay

namespace BandVerif.Relay

theorem uvarint_small (n : Nat) (h : n < 128) : uvarint n = [n] := by
  rw [uvarint]; simp [h]

theorem uvarint_big (n : Nat) (h : ¬ n < 128) : uvarint n = (n % 128 + 128) :: uvarint (n / 128) := by
  rw [uvarint]; simp [h]

/-- reading back a uvarint followed by anything -/
theorem readUvarint_uvarint (n : Nat) (rest : Bytes) : readUvarint (uvarint n ++ rest) = some (n, (uvarint n).length) := by
  induction n using Nat.strongRecOn with
  | _ n ih =>
    by_cases h : n < 128
    · rw [uvarint_small n h]; simp [readUvarint, h]
    · rw [uvarint_big n h]
      simp only [List.cons_append, readUvarint]
      have hb : ¬ (n % 128 + 128 < 128) := by omega
      rw [if_neg hb, ih (n / 128) (by omega)]
      simp only [List.length_cons]
      congr 2
      omega

theorem readVarint_nonneg (n : Nat) (rest : Bytes) :
    readVarint (varintNonneg n ++ rest) = some ((n : Int), (varintNonneg n).length) := by
  unfold readVarint varintNonneg
  rw [readUvarint_uvarint]
  simp only []
  have : 2 * n % 2 = 0 := by omega
  rw [if_pos this]
  congr 2
  have : 2 * n / 2 = n := by omega
  rw [this]

theorem uvarint_length_pos (n : Nat) : 0 < (uvarint n).length := by
  by_cases h : n < 128
  · rw [uvarint_small n h]; simp
  · rw [uvarint_big n h]; simp

end BandVerif.Relay

namespace BandVerif.Relay

theorem splitGo_bounds (f k n : Nat) (hk : 0 < k) (hkn : k < n) : 0 < splitGo f k n ∧ splitGo f k n < n := by
  induction f generalizing k with
  | zero => exact ⟨hk, hkn⟩
  | succ f ih =>
    simp only [splitGo]
    by_cases c : 2 * k < n
    · rw [if_pos c]; exact ih (2 * k) (by omega) c
    · rw [if_neg c]; exact ⟨hk, hkn⟩

theorem splitPoint_bounds (n : Nat) (h : 2 ≤ n) : 0 < splitPoint n ∧ splitPoint n < n :=
  splitGo_bounds n 1 n (by omega) (by omega)

/-- the result does not depend on the fuel once it covers the list -/
theorem rootGo_fuel (H : Bytes → Bytes) (f : Nat) (items : List Bytes) (h : items.length ≤ f) :
    rootGo H f items = rootGo H items.length items := by
  induction f using Nat.strongRecOn generalizing items with
  | _ f ih =>
    match items, h with
    | [], _ => cases f <;> rfl
    | [x], h =>
      cases f with
      | zero => simp at h
      | succ f => rfl
    | a :: b :: rest, h =>
      cases f with
      | zero => simp at h
      | succ f =>
        have hb := splitPoint_bounds (a :: b :: rest).length (by simp)
        have lt : ((a :: b :: rest).take (splitPoint (a :: b :: rest).length)).length ≤ f := by
          rw [List.length_take]; simp only [List.length_cons] at h hb ⊢; omega
        have ld : ((a :: b :: rest).drop (splitPoint (a :: b :: rest).length)).length ≤ f := by
          rw [List.length_drop]; simp only [List.length_cons] at h hb ⊢; omega
        have lt' : ((a :: b :: rest).take (splitPoint (a :: b :: rest).length)).length ≤ rest.length + 1 := by
          rw [List.length_take]; simp only [List.length_cons] at hb ⊢; omega
        have ld' : ((a :: b :: rest).drop (splitPoint (a :: b :: rest).length)).length ≤ rest.length + 1 := by
          rw [List.length_drop]; simp only [List.length_cons] at hb ⊢; omega
        show innerHash H (rootGo H f _) (rootGo H f _) = innerHash H (rootGo H (rest.length + 1) _) (rootGo H (rest.length + 1) _)
        rw [ih f (by omega) _ lt, ih f (by omega) _ ld, ih (rest.length + 1) (by simp at h; omega) _ lt', ih (rest.length + 1) (by simp at h; omega) _ ld']

theorem simpleRoot_single (H : Bytes → Bytes) (x : Bytes) : simpleRoot H [x] = leafHash H x := rfl

/-- RFC-6962 recursion: a tree of ≥ 2 leaves splits at the largest power of two below its size -/
theorem simpleRoot_split (H : Bytes → Bytes) (items : List Bytes) (h : 2 ≤ items.length) :
    simpleRoot H items = innerHash H (simpleRoot H (items.take (splitPoint items.length))) (simpleRoot H (items.drop (splitPoint items.length))) := by
  match items, h with
  | a :: b :: rest, _ =>
    have hb := splitPoint_bounds (a :: b :: rest).length (by simp)
    unfold simpleRoot
    show innerHash H (rootGo H (rest.length + 1) _) (rootGo H (rest.length + 1) _) = _
    rw [rootGo_fuel H (rest.length + 1) _ (by rw [List.length_take]; simp only [List.length_cons] at hb ⊢; omega),
      rootGo_fuel H (rest.length + 1) _ (by rw [List.length_drop]; simp only [List.length_cons] at hb ⊢; omega)]

theorem simpleRoot_split' (H : Bytes → Bytes) (items : List Bytes) (n k : Nat) (hn : items.length = n) (hk : splitPoint n = k) (h : 2 ≤ n) :
    simpleRoot H items = innerHash H (simpleRoot H (items.take k)) (simpleRoot H (items.drop k)) := by
  subst hn; rw [← hk]; exact simpleRoot_split H items h

theorem sfixed64_length (n : Nat) : (sfixed64 n).length = 8 := by simp [sfixed64]

/-- `GetPrefix` = the type/height/round fields of the canonical vote (the default-timestamp tail is trimmed exactly) -/
theorem getPrefix_eq (height round : Nat) :
    getPrefix 2 height round = [8, 2] ++ (if height = 0 then [] else 17 :: sfixed64 height) ++ (if round = 0 then [] else 25 :: sfixed64 round) := by
  unfold getPrefix votePrefixDelimited
  have e0 : pbVarint 8 2 = [8, 2] := by unfold pbVarint; rw [if_neg (by decide), uvarint_small 2 (by decide)]
  rw [e0]
  generalize hpp : ([8, 2] ++ (if height = 0 then [] else 17 :: sfixed64 height) ++ (if round = 0 then [] else 25 :: sfixed64 round) : Bytes) = pp
  have hlen : pp.length ≤ 20 := by
    rw [← hpp]; simp only [List.length_append, List.length_cons, List.length_nil]
    split <;> split <;> simp [sfixed64_length]
  have hsm : (pp ++ [42, 11, 8, 128, 146, 184, 195, 152, 254, 255, 255, 255, 1]).length < 128 := by simp; omega
  simp only []
  rw [uvarint_small _ hsm]
  simp only [List.singleton_append, List.getD_cons_zero, List.length_append, List.length_cons, List.length_nil]
  rw [show pp.length + (0 + 1 + 1 + 1 + 1 + 1 + 1 + 1 + 1 + 1 + 1 + 1 + 1 + 1) - 12 = (pp.length + 0) + 1 from by omega, List.take_succ_cons,
    List.drop_succ_cons, List.drop_zero]
  exact List.take_left' rfl

end BandVerif.Relay
