/- C11: for EVERY uint64 price the logarithm approximation of PriceToTick is within one tick of the truth, hence
   PriceToTick returns the largest tick whose price does not exceed the input (no hypothesis left). -/
import BandVerif.Lemmas.TickApproxAll

namespace BandVerif.Tick

theorem exists_seg (f : Nat → Nat) (n y : Nat) (h0 : f 0 ≤ y) (hn : y < f n) : ∃ i, i < n ∧ f i ≤ y ∧ y < f (i + 1) := by
  induction n with
  | zero => omega
  | succ n ih =>
    by_cases c : y < f n
    · obtain ⟨i, hi, a, b⟩ := ih c
      exact ⟨i, by omega, a, b⟩
    · exact ⟨n, by omega, by omega, hn⟩

theorem x96_mono_le (t1 t2 : Int) (h1 : inRange t1 = true) (h2 : inRange t2 = true) (h : t1 ≤ t2) : x96 t1 ≤ x96 t2 := by
  by_cases e : t1 = t2
  · subst e; exact Nat.le_refl _
  · exact Nat.le_of_lt (x96_strictMono t1 t2 h1 h2 (by omega))

theorem x96_tlo_le : x96 tlo ≤ q96 := by decide +kernel
theorem x96_tlo_pos : 0 < x96 tlo := by decide +kernel
theorem x96_top : two64 * q96 ≤ x96 (thi + 1) := by decide +kernel

/-- every price in [1, 2^64) lies in the segment of exactly one tick of the checked range -/
theorem true_tick_exists (p : Nat) (h1 : 1 ≤ p) (h2 : p < 2 ^ 64) :
    ∃ i : Nat, i < nTicks ∧ x96 (tlo + (i : Int)) ≤ p * q96 ∧ p * q96 < x96 (tlo + (i : Int) + 1) := by
  have a : x96 (tlo + ((0 : Nat) : Int)) ≤ p * q96 := by
    have := x96_tlo_le
    have : q96 ≤ p * q96 := Nat.le_mul_of_pos_left _ h1
    simp only [Int.natCast_zero, Int.add_zero]; omega
  have b : p * q96 < x96 (tlo + ((nTicks : Nat) : Int)) := by
    have e : tlo + ((nTicks : Nat) : Int) = thi + 1 := by decide
    rw [e]
    have := x96_top
    have : p * q96 < two64 * q96 := Nat.mul_lt_mul_of_pos_right (by unfold two64; omega) (by decide)
    omega
  obtain ⟨i, hi, c, d⟩ := exists_seg (fun i => x96 (tlo + (i : Int))) nTicks (p * q96) a b
  refine ⟨i, hi, c, ?_⟩
  have e : tlo + ((i + 1 : Nat) : Int) = tlo + (i : Int) + 1 := by omega
  have d' : p * q96 < x96 (tlo + ((i + 1 : Nat) : Int)) := d
  rw [e] at d'; exact d'

/-- the approximation is within one tick of the true tick, for every uint64 price -/
theorem approx_within_one (p : Nat) (h1 : 1 ≤ p) (h2 : p < 2 ^ 64) :
    ∃ T : Int, tlo ≤ T ∧ T ≤ thi ∧ x96 T ≤ p * q96 ∧ p * q96 < x96 (T + 1) ∧ T - 1 ≤ approxTick p ∧ approxTick p ≤ T + 1 := by
  obtain ⟨i, hi, hle, hlt⟩ := true_tick_exists p h1 h2
  obtain ⟨s1, s2⟩ := astep_all i hi
  have hT1 : tlo ≤ tlo + (i : Int) := by omega
  have hT2 : tlo + (i : Int) ≤ thi := by unfold tlo thi; unfold nTicks at hi; omega
  generalize tlo + (i : Int) = T at *
  have hinT : inRange T = true := (inRange_iff T).mpr (by unfold tlo at hT1; unfold thi at hT2; omega)
  have hintlo : inRange tlo = true := by decide
  have hpos : 0 < x96 T := Nat.lt_of_lt_of_le x96_tlo_pos (x96_mono_le tlo T hintlo hinT hT1)
  have hq : 0 < q96 := by unfold q96; omega
  -- the first price of the segment is at most p
  have lo_le : loP T ≤ p := by
    unfold loP
    have : (x96 T + q96 - 1) / q96 < p + 1 := (Nat.div_lt_iff_lt_mul hq).mpr (by rw [Nat.add_mul]; omega)
    omega
  have lo_pos : 1 ≤ loP T := by
    unfold loP
    exact (Nat.le_div_iff_mul_le hq).mpr (by omega)
  -- p is at most the last price before the next segment
  have p_le : p ≤ min (loP (T + 1) - 1) maxUint64 := by
    have k1 : p + 1 ≤ loP (T + 1) := by
      unfold loP
      have k0 : (p + 1) * q96 ≤ x96 (T + 1) + q96 - 1 := by rw [Nat.add_mul]; omega
      exact (Nat.le_div_iff_mul_le hq).mpr k0
    have k2 : p ≤ maxUint64 := by unfold maxUint64; omega
    exact Nat.le_min.mpr ⟨by omega, k2⟩
  have hmax : min (loP (T + 1) - 1) maxUint64 < 2 ^ 64 := by
    have k3 : min (loP (T + 1) - 1) maxUint64 ≤ maxUint64 := Nat.min_le_right _ _
    have k4 : maxUint64 < 2 ^ 64 := by decide
    exact Nat.lt_of_le_of_lt k3 k4
  have m1 := approxTick_mono (loP T) p lo_pos lo_le h2
  have m2 := approxTick_mono p _ h1 p_le hmax
  exact ⟨T, hT1, hT2, hle, hlt, by omega, by omega⟩

/-- `approxOK` holds for every uint64 price -/
theorem approxOK_all (p : Nat) (h1 : 1 ≤ p) (h2 : p < 2 ^ 64) : approxOK p = true := by
  obtain ⟨T, hT1, hT2, hle, hlt, a1, a2⟩ := approx_within_one p h1 h2
  unfold tlo at hT1; unfold thi at hT2
  unfold approxOK
  simp only [Bool.and_eq_true, Bool.or_eq_true, Bool.not_eq_true', decide_eq_true_eq]
  have hinA : inRange (approxTick p) = true := (inRange_iff _).mpr (by omega)
  have hinT : inRange T = true := (inRange_iff _).mpr (by omega)
  have hinT1 : inRange (T + 1) = true := (inRange_iff _).mpr (by omega)
  refine ⟨⟨hinA, ?_⟩, ?_⟩
  · by_cases c : inRange (approxTick p + 2) = true
    · right
      exact Nat.lt_of_lt_of_le hlt (x96_mono_le _ _ hinT1 c (by omega))
    · left; simpa using c
  · right
    have hin : inRange (approxTick p - 1) = true := (inRange_iff _).mpr (by omega)
    exact ⟨hin, Nat.le_trans (x96_mono_le _ _ hin hinT (by omega)) hle⟩

/-- PriceToTick never fails on a positive uint64 price -/
theorem priceToTick_total (p : Nat) (h1 : 1 ≤ p) (h2 : p < 2 ^ 64) : ∃ r, priceToTick p = some r := by
  obtain ⟨T, hT1, hT2, _, _, a1, a2⟩ := approx_within_one p h1 h2
  unfold tlo at hT1; unfold thi at hT2
  unfold priceToTick
  rw [if_neg (by omega)]
  simp only []
  rw [if_neg (by unfold maxTick minTick; omega)]
  split
  · exact ⟨_, rfl⟩
  · split
    · exact ⟨_, rfl⟩
    · exact ⟨_, rfl⟩

/-- PriceToTick returns the largest valid tick whose price does not exceed the input — for every uint64 price -/
theorem priceToTick_largest (p : Nat) (r : Int) (h1 : 1 ≤ p) (h2 : p < 2 ^ 64) (h : priceToTick p = some r) :
    IsLargest p (r - offset) := priceToTick_largest_partial p r (approxOK_all p h1 h2) h

end BandVerif.Tick
