import BandVerif.Model.Restake

namespace BandVerif.Restake

theorem idxGe_power (x y : Nat × String) (h : idxGe x y = true) : y.1 ≤ x.1 := by
  unfold idxGe at h; simp at h; omega

theorem idxGe_trans (a b c : Nat × String) (h1 : idxGe a b = true) (h2 : idxGe b c = true) : idxGe a c = true := by
  unfold idxGe at *
  simp only [Bool.or_eq_true, Bool.and_eq_true, decide_eq_true_eq] at *
  rcases h1 with h1 | ⟨e1, g1⟩
  · rcases h2 with h2 | ⟨e2, _⟩
    · left; omega
    · left; omega
  · rcases h2 with h2 | ⟨e2, g2⟩
    · left; omega
    · right; exact ⟨by omega, String.le_trans g2 g1⟩

theorem idxGe_total (a b : Nat × String) : (idxGe a b || idxGe b a) = true := by
  unfold idxGe
  simp only [Bool.or_eq_true, Bool.and_eq_true, decide_eq_true_eq]
  by_cases h : a.1 > b.1
  · exact Or.inl (Or.inl h)
  · by_cases h' : b.1 > a.1
    · exact Or.inr (Or.inl h')
    · have e : a.1 = b.1 := by omega
      rcases String.le_total b.2 a.2 with g | g
      · exact Or.inl (Or.inr ⟨e, g⟩)
      · exact Or.inr (Or.inr ⟨e.symm, g⟩)

/-- on a list sorted by descending index key, `firstActive` returns the largest active power -/
theorem firstActive_spec (s : State) (l : List (Nat × String)) (hs : l.Pairwise (fun a b => idxGe a b = true)) :
    (firstActive s l = none → ∀ e ∈ l, isActiveVault s e.2 = false) ∧
    (∀ p, firstActive s l = some p → (∃ k, (p, k) ∈ l ∧ isActiveVault s k = true) ∧
        ∀ e ∈ l, isActiveVault s e.2 = true → e.1 ≤ p) := by
  induction l with
  | nil => simp [firstActive]
  | cons x xs ih =>
    obtain ⟨p0, k0⟩ := x
    have hp := List.pairwise_cons.mp hs
    obtain ⟨ih1, ih2⟩ := ih hp.2
    simp only [firstActive]
    by_cases ha : isActiveVault s k0 = true
    · simp only [ha, if_true]
      refine ⟨(fun h => by cases h), fun p hpe => ?_⟩
      cases hpe
      refine ⟨⟨k0, List.mem_cons_self .., ha⟩, fun e he _ => ?_⟩
      rcases List.mem_cons.mp he with rfl | hm
      · exact Nat.le_refl _
      · exact idxGe_power _ _ (hp.1 e hm)
    · have ha' : isActiveVault s k0 = false := by simpa using ha
      simp only [ha', Bool.false_eq_true, if_false]
      refine ⟨fun h e he => ?_, fun p hpe => ?_⟩
      · rcases List.mem_cons.mp he with rfl | hm
        · exact ha'
        · exact ih1 h e hm
      · obtain ⟨⟨k, hk, hka⟩, hmax⟩ := ih2 p hpe
        refine ⟨⟨k, List.mem_cons_of_mem _ hk, hka⟩, fun e he hea => ?_⟩
        rcases List.mem_cons.mp he with rfl | hm
        · rw [ha'] at hea; cases hea
        · exact hmax e hm hea

/-- `isValidPower` holds exactly when the power covers every lock held in a still-active vault -/
theorem isValidPower_iff (s : State) (a : Acct) (power : Nat) :
    isValidPower s a power = true ↔ ∀ e ∈ indexEntries s a, isActiveVault s e.2 = true → e.1 ≤ power := by
  unfold isValidPower
  have hperm := List.mergeSort_perm (indexEntries s a) idxGe
  have hsorted := List.pairwise_mergeSort idxGe_trans idxGe_total (indexEntries s a)
  obtain ⟨h1, h2⟩ := firstActive_spec s _ hsorted
  cases hf : firstActive s ((indexEntries s a).mergeSort idxGe) with
  | none =>
    simp only []
    refine ⟨fun _ e he hea => ?_, fun _ => trivial⟩
    have := h1 hf e (hperm.mem_iff.mpr he)
    rw [this] at hea; cases hea
  | some p =>
    simp only [decide_eq_true_eq]
    obtain ⟨⟨k, hk, hka⟩, hmax⟩ := h2 p hf
    constructor
    · intro hge e he hea
      exact Nat.le_trans (hmax e (hperm.mem_iff.mpr he) hea) hge
    · intro hall
      exact hall (p, k) (hperm.mem_iff.mp hk) hka

theorem mem_indexEntries (s : State) (a : Acct) (p : Nat) (k : String) :
    (p, k) ∈ indexEntries s a ↔ k ∈ s.lockKeys a ∧ s.locks a k = some p := by
  unfold indexEntries
  simp only [List.mem_filterMap]
  constructor
  · rintro ⟨k', hk', h⟩
    cases hl : s.locks a k' with
    | none => simp [hl] at h
    | some q => simp [hl] at h; obtain ⟨rfl, rfl⟩ := h; exact ⟨hk', hl⟩
  · rintro ⟨hk, hl⟩
    exact ⟨k, hk, by simp [hl]⟩

end BandVerif.Restake
