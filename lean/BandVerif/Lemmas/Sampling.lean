import BandVerif.Model.Sampling

namespace BandVerif.Sampling

/-! ### ChooseOne -/
theorem safeSum_eq (ws : List Nat) (acc : Nat) (ha : acc < two64) :
    safeSum ws acc = if acc + ws.sum < two64 then some (acc + ws.sum) else none := by
  induction ws generalizing acc with
  | nil => simp [safeSum, ha]
  | cons w rest ih =>
    simp only [safeSum, List.sum_cons]
    by_cases h : two64 - 1 - acc < w
    · have : ¬ acc + (w + rest.sum) < two64 := by omega
      simp [h, this]
    · rw [if_neg h, ih (acc + w) (by omega)]
      simp only [Nat.add_assoc]
      by_cases hh : acc + (w + rest.sum) < two64 <;> simp [hh]

theorem pick_spec (ws : List Nat) (lucky idx cum : Nat) (h1 : cum ≤ lucky) (h2 : lucky < cum + ws.sum) :
    ∃ i, pick ws lucky idx cum = some (idx + i) ∧ i < ws.length ∧ 0 < ws.getD i 0 := by
  induction ws generalizing idx cum with
  | nil => simp at h2; omega
  | cons w rest ih =>
    simp only [pick]
    by_cases h : cum + w > lucky
    · exact ⟨0, by simp [h], by simp, by simp; omega⟩
    · obtain ⟨i, e, hl, hp⟩ := ih (idx + 1) (cum + w) (by omega) (by simp only [List.sum_cons] at h2; omega)
      refine ⟨i + 1, ?_, by simp; omega, by simpa using hp⟩
      rw [if_neg h, e]; congr 1; omega

/-- ChooseOne panics exactly when the weights overflow uint64 or sum to zero; otherwise it returns
    a valid index with positive weight. -/
theorem chooseOne_spec (ws : List Nat) (x : Nat) :
    (chooseOne ws x = none ↔ (ws.sum ≥ two64 ∨ ws.sum = 0)) ∧
    (∀ i, chooseOne ws x = some i → i < ws.length ∧ 0 < ws.getD i 0) := by
  unfold chooseOne
  rw [safeSum_eq ws 0 (by decide)]
  simp only [Nat.zero_add]
  by_cases hlt : ws.sum < two64
  · simp only [hlt, if_true]
    by_cases hz : ws.sum = 0
    · simp [hz]
    · obtain ⟨i, e, hl, hp⟩ := pick_spec ws (x % ws.sum) 0 0 (Nat.zero_le _) (by simp; exact Nat.mod_lt _ (by omega))
      simp only [Nat.zero_add] at e
      obtain ⟨n, hn⟩ : ∃ n, ws.sum = n + 1 := ⟨ws.sum - 1, by omega⟩
      simp only [hn] at e ⊢
      rw [e]
      constructor
      · constructor
        · intro h; cases h
        · intro h; omega
      · intro j hj
        cases hj; exact ⟨hl, hp⟩
  · simp only [hlt, if_false]
    constructor
    · constructor
      · intro _; exact Or.inl (by omega)
      · intro _; trivial
    · intro i h; cases h

/-! ### ChooseSome -/
theorem getElem_not_mem_eraseIdx (l : List Nat) (c : Nat) (x : Nat) (hn : l.Nodup) (hx : l[c]? = some x) :
    x ∉ l.eraseIdx c := by
  intro hm
  rw [List.mem_eraseIdx_iff_getElem?] at hm
  obtain ⟨i, hic, hi⟩ := hm
  have hc : c < l.length := by
    cases h : decide (c < l.length) with
    | true => simpa using h
    | false => simp at h; rw [List.getElem?_eq_none h] at hx; cases hx
  have hi' : i < l.length := by
    cases h : decide (i < l.length) with
    | true => simpa using h
    | false => simp at h; rw [List.getElem?_eq_none h] at hi; cases hi
  rw [List.getElem?_eq_getElem hc] at hx
  rw [List.getElem?_eq_getElem hi'] at hi
  have : l[i] = l[c] := by
    have a := Option.some.inj hx; have b := Option.some.inj hi; omega
  exact hic ((List.getElem_inj hn).mp this)

theorem chooseSome_spec (cnt : Nat) (availW availI : List Nat) (rand : Nat → Nat) (pos : Nat) (l : List Nat)
    (h : chooseSome cnt availW availI rand pos = some l) :
    l.length = cnt ∧ (∀ x ∈ l, x ∈ availI) ∧ (availI.Nodup → l.Nodup) := by
  induction cnt generalizing availW availI pos l with
  | zero => simp [chooseSome] at h; subst h; simp
  | succ cnt ih =>
    simp only [chooseSome] at h
    cases hc : chooseOne availW (rand pos) with
    | none => simp [hc] at h
    | some c =>
      simp only [hc] at h
      cases hi : availI[c]? with
      | none => simp [hi] at h
      | some i =>
        simp only [hi] at h
        cases hr : chooseSome cnt (availW.eraseIdx c) (availI.eraseIdx c) rand (pos + 1) with
        | none => simp [hr] at h
        | some l' =>
          simp only [hr] at h
          cases h
          obtain ⟨h1, h2, h3⟩ := ih _ _ _ _ hr
          refine ⟨by simp [h1], ?_, ?_⟩
          · intro x hx
            rcases List.mem_cons.mp hx with rfl | hm
            · exact List.mem_of_getElem? hi
            · exact List.mem_of_mem_eraseIdx (h2 x hm)
          · intro hn
            refine List.nodup_cons.mpr ⟨?_, h3 (List.Nodup.eraseIdx c hn)⟩
            intro hm
            exact getElem_not_mem_eraseIdx availI c i hn hi (h2 i hm)

/-- with positive weights whose sum fits uint64 and enough entries, ChooseSome never panics -/
theorem sum_eraseIdx_le (l : List Nat) (c : Nat) : (l.eraseIdx c).sum ≤ l.sum := by
  induction l generalizing c with
  | nil => simp
  | cons x xs ih =>
    cases c with
    | zero => simp
    | succ c => simp only [List.eraseIdx_cons_succ, List.sum_cons]; have := ih c; omega

theorem sum_pos_of (l : List Nat) (hp : ∀ w ∈ l, 0 < w) (hne : l ≠ []) : 0 < l.sum := by
  cases l with
  | nil => exact absurd rfl hne
  | cons x xs => simp only [List.sum_cons]; have := hp x (List.mem_cons_self ..); omega

theorem chooseSome_total (cnt : Nat) (availW availI : List Nat) (rand : Nat → Nat) (pos : Nat)
    (hlen : availW.length = availI.length) (hcnt : cnt ≤ availW.length)
    (hp : ∀ w ∈ availW, 0 < w) (hs : availW.sum < two64) :
    ∃ l, chooseSome cnt availW availI rand pos = some l := by
  induction cnt generalizing availW availI pos with
  | zero => exact ⟨[], rfl⟩
  | succ cnt ih =>
    simp only [chooseSome]
    have hne : availW ≠ [] := by intro e; subst e; simp at hcnt
    have hsum := sum_pos_of availW hp hne
    obtain ⟨hnone, hsome⟩ := chooseOne_spec availW (rand pos)
    cases hc : chooseOne availW (rand pos) with
    | none => have := hnone.mp hc; omega
    | some c =>
      have hcl := (hsome c hc).1
      simp only []
      have hci : c < availI.length := by omega
      rw [List.getElem?_eq_getElem hci]
      simp only []
      obtain ⟨l', hl'⟩ := ih (availW.eraseIdx c) (availI.eraseIdx c) (pos + 1)
        (by simp [List.length_eraseIdx, hcl, hci, hlen])
        (by simp [List.length_eraseIdx, hcl]; omega)
        (fun w hw => hp w (List.mem_of_mem_eraseIdx hw))
        (by have := sum_eraseIdx_le availW c; omega)
      rw [hl']; exact ⟨_, rfl⟩

/-! ### ChooseSomeMaxWeight -/
theorem maxWeightGo_spec (ws : List Nat) (cnt : Nat) (rand : Nat → Nat) (tries each bestSum : Nat) (best l : List Nat)
    (h : maxWeightGo ws cnt rand tries each bestSum best = some l) :
    l = best ∨ ∃ t, each ≤ t ∧ t < each + tries ∧ chooseSome cnt ws (List.range ws.length) rand (t * cnt) = some l := by
  induction tries generalizing each bestSum best with
  | zero => simp [maxWeightGo] at h; exact Or.inl h.symm
  | succ tries ih =>
    simp only [maxWeightGo] at h
    cases hc : chooseSome cnt ws (List.range ws.length) rand (each * cnt) with
    | none => simp [hc] at h
    | some cand =>
      simp only [hc] at h
      split at h
      · rcases ih _ _ _ h with e | ⟨t, h1, h2, h3⟩
        · exact Or.inr ⟨each, Nat.le_refl _, by omega, e ▸ hc⟩
        · exact Or.inr ⟨t, by omega, by omega, h3⟩
      · rcases ih _ _ _ h with e | ⟨t, h1, h2, h3⟩
        · exact Or.inl e
        · exact Or.inr ⟨t, by omega, by omega, h3⟩

/-! ### the partial Fisher–Yates of GetRandomMembers -/
theorem set_perm (l : List Nat) (r y : Nat) (hr : r < l.length) : (l.set r y).Perm (y :: l.eraseIdx r) := by
  induction l generalizing r with
  | nil => simp at hr
  | cons x xs ih =>
    cases r with
    | zero => simp
    | succ r =>
      simp only [List.set_cons_succ, List.eraseIdx_cons_succ]
      exact ((ih r (by simpa using hr)).cons x).trans (List.Perm.swap y x _)

theorem perm_getD_eraseIdx (l : List Nat) (r : Nat) (hr : r < l.length) : l.Perm (l.getD r 0 :: l.eraseIdx r) := by
  induction l generalizing r with
  | nil => simp at hr
  | cons x xs ih =>
    cases r with
    | zero => simp
    | succ r =>
      simp only [List.eraseIdx_cons_succ, List.getD_cons_succ]
      exact ((ih r (by simpa using hr)).cons x).trans (List.Perm.swap _ x _)

theorem swapRemove_perm (slots : List Nat) (r : Nat) (hne : slots ≠ []) (hr : r < slots.length) :
    ((swapRemove slots r).1 :: (swapRemove slots r).2).Perm slots := by
  have hsplit : slots.dropLast ++ [slots.getLastD 0] = slots := by
    have := List.dropLast_concat_getLast hne
    rw [List.getLastD_eq_getLast? , List.getLast?_eq_getLast hne]
    simpa using this
  have hlen : slots.dropLast.length = slots.length - 1 := by simp
  have hbase : (slots.getLastD 0 :: slots.dropLast).Perm slots := by
    have : (slots.dropLast ++ [slots.getLastD 0]).Perm (slots.getLastD 0 :: slots.dropLast) := List.perm_append_singleton _ _
    exact (hsplit ▸ this).symm
  unfold swapRemove
  by_cases h : r = slots.dropLast.length
  · simp only [h, if_true]; exact hbase
  · simp only [h, if_false]
    have hr' : r < slots.dropLast.length := by omega
    have h1 := set_perm slots.dropLast r (slots.getLastD 0) hr'
    have h2 := perm_getD_eraseIdx slots.dropLast r hr'
    -- chosen :: set ~ chosen :: last :: erase ~ last :: chosen :: erase ~ last :: init ~ slots
    exact ((h1.cons _).trans ((List.Perm.swap _ _ _).trans (h2.symm.cons _))).trans hbase

theorem fisherYates_spec (k : Nat) (slots : List Nat) (rand : Nat → Nat) (pos : Nat) (hk : k ≤ slots.length)
    (hn : slots.Nodup) :
    (fisherYates k slots rand pos).length = k ∧ (fisherYates k slots rand pos).Nodup ∧
    ∀ x ∈ fisherYates k slots rand pos, x ∈ slots := by
  induction k generalizing slots pos with
  | zero => simp [fisherYates]
  | succ k ih =>
    have hne : slots ≠ [] := by intro e; subst e; simp at hk
    have hl : slots.length ≠ 0 := by intro e; exact hne (List.length_eq_zero_iff.mp e)
    simp only [fisherYates, hl, if_false]
    have hr : rand pos % slots.length < slots.length := Nat.mod_lt _ (by omega)
    have hperm := swapRemove_perm slots (rand pos % slots.length) hne hr
    have hnd : ((swapRemove slots (rand pos % slots.length)).1 :: (swapRemove slots (rand pos % slots.length)).2).Nodup :=
      hperm.nodup_iff.mpr hn
    have hlen : (swapRemove slots (rand pos % slots.length)).2.length + 1 = slots.length := by
      have := hperm.length_eq; simpa using this
    obtain ⟨h1, h2, h3⟩ := ih (swapRemove slots (rand pos % slots.length)).2 (pos + 1) (by omega) (List.nodup_cons.mp hnd).2
    refine ⟨by simp [h1], ?_, ?_⟩
    · exact List.nodup_cons.mpr ⟨fun hm => (List.nodup_cons.mp hnd).1 (h3 _ hm), h2⟩
    · intro x hx
      rcases List.mem_cons.mp hx with rfl | hm
      · exact hperm.mem_iff.mp (List.mem_cons_self ..)
      · exact hperm.mem_iff.mp (List.mem_cons_of_mem _ (h3 x hm))

end BandVerif.Sampling
