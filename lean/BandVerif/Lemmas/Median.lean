import BandVerif.Model.Median

namespace BandVerif.Median

/-! ### CalculatePricesPowers as sums -/
def sumIf (l : List Info) (f : Info → Bool) : Int := ((l.filter f).map (·.power)).sum

def isUnavail (i : Info) : Bool := i.status == signal_price_status_unavailable
def isUnsup (i : Info) : Bool := i.status == signal_price_status_unsupported

theorem avail_ne_unavail : signal_price_status_available ≠ signal_price_status_unavailable := by decide
theorem avail_ne_unsup : signal_price_status_available ≠ signal_price_status_unsupported := by decide
theorem unavail_ne_unsup : signal_price_status_unavailable ≠ signal_price_status_unsupported := by decide

theorem sumIf_cons (x : Info) (xs : List Info) (f : Info → Bool) :
    sumIf (x :: xs) f = (if f x then x.power else 0) + sumIf xs f := by
  unfold sumIf; by_cases h : f x = true <;> simp [List.filter_cons, h]

theorem pricesPowers_go (l : List Info) (t a u s : Int) :
    l.foldl (fun (acc : Int × Int × Int × Int) i =>
      let (t, a, u, s) := acc
      let t := t + i.power
      if i.status == signal_price_status_available then (t, a + i.power, u, s)
      else if i.status == signal_price_status_unavailable then (t, a, u + i.power, s)
      else if i.status == signal_price_status_unsupported then (t, a, u, s + i.power)
      else (t, a, u, s)) (t, a, u, s)
    = (t + (l.map (·.power)).sum, a + sumIf l isAvail, u + sumIf l isUnavail, s + sumIf l isUnsup) := by
  induction l generalizing t a u s with
  | nil => simp [sumIf]
  | cons x xs ih =>
    simp only [List.foldl, sumIf_cons, List.map_cons, List.sum_cons, isAvail, isUnavail, isUnsup]
    have N := And.intro avail_ne_unavail (And.intro avail_ne_unsup unavail_ne_unsup)
    by_cases h1 : x.status = signal_price_status_available
    · rw [if_pos (by simpa using h1), ih]
      simp [h1, N.1, N.2.1, N.2.2, N.1.symm, N.2.1.symm, N.2.2.symm]; omega
    · by_cases h2 : x.status = signal_price_status_unavailable
      · rw [if_neg (by simpa using h1), if_pos (by simpa using h2), ih]
        simp [h2, N.1, N.2.1, N.2.2, N.1.symm, N.2.1.symm, N.2.2.symm]; omega
      · by_cases h3 : x.status = signal_price_status_unsupported
        · rw [if_neg (by simpa using h1), if_neg (by simpa using h2), if_pos (by simpa using h3), ih]
          simp [h3, N.1, N.2.1, N.2.2, N.1.symm, N.2.1.symm, N.2.2.symm]; omega
        · rw [if_neg (by simpa using h1), if_neg (by simpa using h2), if_neg (by simpa using h3), ih]
          simp [h1, h2, h3]; omega

theorem pricesPowers_eq (l : List Info) :
    pricesPowers l = ((l.map (·.power)).sum, sumIf l isAvail, sumIf l isUnavail, sumIf l isUnsup) := by
  unfold pricesPowers
  rw [pricesPowers_go]; simp

/-! ### the median is one of the reported AVAILABLE prices -/
theorem firstHalf_mem (total : Int) (l : List (Int × Nat)) (cum : Int) (p : Nat)
    (h : firstHalf total l cum = some p) : p ∈ l.map (·.2) := by
  induction l generalizing cum with
  | nil => simp [firstHalf] at h
  | cons x xs ih =>
    obtain ⟨w, q⟩ := x
    simp only [firstHalf] at h
    split at h
    · cases h; simp
    · simp only [List.map_cons, List.mem_cons]; exact Or.inr (ih _ h)

theorem medianWeightedPrice_mem (l : List (Int × Nat)) (p : Nat) (h : medianWeightedPrice l = some p) :
    p ∈ l.map (·.2) := by
  unfold medianWeightedPrice at h
  have := firstHalf_mem _ _ _ _ h
  obtain ⟨e, he, rfl⟩ := List.mem_map.mp this
  exact List.mem_map.mpr ⟨e, (List.mergeSort_perm _ _).mem_iff.mp he, rfl⟩

theorem weigh_prices (total : Int) (l : List Info) (cur : Int) (idx : Nat) :
    (weigh total l cur idx).map (·.2) = l.map (·.price) := by
  induction l generalizing cur idx with
  | nil => simp [weigh]
  | cons x xs ih => simp only [weigh, List.map_cons]; rw [ih]

theorem median_mem (l : List Info) (p : Nat) (h : medianValidatorPriceInfos l = some p) :
    ∃ i ∈ l, isAvail i = true ∧ i.price = p := by
  unfold medianValidatorPriceInfos at h
  have := medianWeightedPrice_mem _ _ h
  unfold weightsOf at this
  simp only [weigh_prices] at this
  obtain ⟨i, hi, rfl⟩ := List.mem_map.mp this
  have hi' : i ∈ validOf l := (List.mergeSort_perm _ _).mem_iff.mp hi
  unfold validOf at hi'
  obtain ⟨h1, h2⟩ := List.mem_filter.mp hi'
  exact ⟨i, h1, h2, rfl⟩

/-! ### weights are non-negative: the section walk never takes a negative amount -/
theorem sections_eq : sections = [1, 3, 7, 15, 32] := rfl
theorem multipliers_eq : multipliers = [60, 40, 20, 11, 10] := rfl

/-- section limit reached so far: `cur ≤ total * sections[idx]` (vacuous once all sections are used) -/
def CurOk (total cur : Int) (idx : Nat) : Prop :=
  0 ≤ cur ∧ match sections[idx]? with
    | some s => cur ≤ total * s
    | none => True

theorem sections_mono (idx : Nat) (s s' : Int) (h : sections[idx]? = some s) (h' : sections[idx+1]? = some s') :
    0 < s ∧ s ≤ s' := by
  rw [sections_eq] at h h'
  match idx, h, h' with
  | 0, h, h' => simp at h h'; omega
  | 1, h, h' => simp at h h'; omega
  | 2, h, h' => simp at h h'; omega
  | 3, h, h' => simp at h h'; omega
  | (n+4), h, h' => simp at h'

theorem section_pos (idx : Nat) (s : Int) (h : sections[idx]? = some s) : 0 < s := by
  rw [sections_eq] at h
  match idx, h with
  | 0, h => simp at h; omega
  | 1, h => simp at h; omega
  | 2, h => simp at h; omega
  | 3, h => simp at h; omega
  | 4, h => simp at h; omega
  | (n+5), h => simp at h

theorem mult_pos (idx : Nat) (m : Int) (h : multipliers[idx]? = some m) : 10 ≤ m ∧ m ≤ 60 := by
  rw [multipliers_eq] at h
  match idx, h with
  | 0, h => simp at h; omega
  | 1, h => simp at h; omega
  | 2, h => simp at h; omega
  | 3, h => simp at h; omega
  | 4, h => simp at h; omega
  | (n+5), h => simp at h

theorem walk_spec (total : Int) (ht : 0 ≤ total) (fuel idx : Nat) (cur left w : Int)
    (hc : CurOk total cur idx) (hl : 0 ≤ left) (hw : 0 ≤ w) :
    let r := walk total fuel idx cur left w
    0 ≤ r.1 ∧ CurOk total r.2.1 r.2.2 ∧ w ≤ r.1 ∧ r.1 ≤ w + 60 * left := by
  induction fuel generalizing idx cur left w with
  | zero => simp only [walk]; exact ⟨hw, hc, Int.le_refl _, by omega⟩
  | succ fuel ih =>
    simp only [walk]
    cases hs : sections[idx]? with
    | none => simp only []; exact ⟨hw, hc, Int.le_refl _, by omega⟩
    | some s =>
      cases hm : multipliers[idx]? with
      | none => simp only []; exact ⟨hw, hc, Int.le_refl _, by omega⟩
      | some m =>
        simp only []
        have hcs : cur ≤ total * s := by
          have := hc.2; rw [hs] at this; exact this
        have hmp := mult_pos idx m hm
        by_cases hf : fitsSection cur left (total * s) = true
        · -- everything fits: take = left, left' = 0, break
          simp only [hf, if_true]
          have : left - left = 0 := by omega
          simp only [this, if_true]
          have hfit : cur + left ≤ total * s := by simpa [fitsSection] using hf
          have h60 : left * m ≤ 60 * left := by
            have := Int.mul_le_mul_of_nonneg_left hmp.2 hl; rw [Int.mul_comm 60 left]; exact this
          have h0 : 0 ≤ left * m := Int.mul_nonneg hl (by omega)
          refine ⟨by omega, ⟨by have := hc.1; omega, by rw [hs]; exact hfit⟩, by omega, by omega⟩
        · have hf' : fitsSection cur left (total * s) = false := by simpa using hf
          simp only [hf', Bool.false_eq_true, if_false]
          have hnfit : ¬ cur + left ≤ total * s := by simpa [fitsSection] using hf
          have htake : 0 ≤ total * s - cur := by omega
          have hleft' : 0 < left - (total * s - cur) := by omega
          rw [if_neg (by omega)]
          have hcur' : cur + (total * s - cur) = total * s := by omega
          have h0 : 0 ≤ (total * s - cur) * m := Int.mul_nonneg htake (by omega)
          have h60 : (total * s - cur) * m ≤ 60 * (total * s - cur) := by
            have := Int.mul_le_mul_of_nonneg_left hmp.2 htake; rw [Int.mul_comm 60 _]; exact this
          have hok : CurOk total (cur + (total * s - cur)) (idx + 1) := by
            rw [hcur']
            refine ⟨Int.mul_nonneg ht (by have := section_pos idx s hs; omega), ?_⟩
            cases hs' : sections[idx+1]? with
            | none => trivial
            | some s' =>
              have := sections_mono idx s s' hs hs'
              exact Int.mul_le_mul_of_nonneg_left this.2 ht
          have := ih (idx + 1) (cur + (total * s - cur)) (left - (total * s - cur)) (w + (total * s - cur) * m)
            hok (by omega) (by omega)
          simp only [] at this
          obtain ⟨a, b, c, d⟩ := this
          exact ⟨a, b, by omega, by omega⟩

theorem weigh_nonneg (total : Int) (ht : 0 ≤ total) (l : List Info) (cur : Int) (idx : Nat)
    (hc : CurOk total cur idx) (hp : ∀ i ∈ l, 0 ≤ i.power) :
    ∀ e ∈ weigh total l cur idx, 0 ≤ e.1 := by
  induction l generalizing cur idx with
  | nil => intro e he; simp [weigh] at he
  | cons x xs ih =>
    intro e he
    simp only [weigh] at he
    have hx := hp x (List.mem_cons_self ..)
    have hsc : 0 ≤ scale * x.power := Int.mul_nonneg (by decide) hx
    have := walk_spec total ht (sections.length + 1) idx cur (scale * x.power) 0 hc hsc (Int.le_refl 0)
    simp only [] at this
    rcases List.mem_cons.mp he with rfl | hm
    · exact this.1
    · exact ih _ _ this.2.1 (fun i hi => hp i (List.mem_cons_of_mem _ hi)) e hm

theorem sum_nonneg_of (l : List Int) (h : ∀ x ∈ l, 0 ≤ x) : 0 ≤ l.sum := by
  induction l with
  | nil => simp
  | cons x xs ih =>
    simp only [List.sum_cons]
    have := h x (List.mem_cons_self ..)
    have := ih (fun y hy => h y (List.mem_cons_of_mem _ hy))
    omega

theorem weightsOf_nonneg (l : List Info) (hp : ∀ i ∈ l, 0 ≤ i.power) : ∀ e ∈ weightsOf l, 0 ≤ e.1 := by
  unfold weightsOf
  have hv : ∀ i ∈ validOf l, 0 ≤ i.power := fun i hi => hp i (List.mem_filter.mp hi).1
  have ht : 0 ≤ ((validOf l).map (·.power)).sum :=
    sum_nonneg_of _ (by intro x hx; obtain ⟨i, hi, rfl⟩ := List.mem_map.mp hx; exact hv i hi)
  apply weigh_nonneg _ ht
  · refine ⟨Int.le_refl 0, ?_⟩
    show (match sections[0]? with | some s => (0:Int) ≤ _ * s | none => True)
    rw [sections_eq]; simp; omega
  · intro i hi; exact hv i ((List.mergeSort_perm _ _).mem_iff.mp hi)

/-! ### totality of the median: it fails exactly on an empty list -/
theorem firstHalf_some (total : Int) (l : List (Int × Nat)) (cum : Int) (hne : l ≠ [])
    (htot : total = cum + (l.map (·.1)).sum) (h0 : 0 ≤ total) :
    ∃ p, firstHalf total l cum = some p := by
  induction l generalizing cum with
  | nil => exact absurd rfl hne
  | cons x xs ih =>
    obtain ⟨w, q⟩ := x
    simp only [firstHalf]
    split
    · exact ⟨q, rfl⟩
    · rename_i hh
      by_cases hx : xs = []
      · subst hx
        simp [halfReached] at hh htot
        omega
      · exact ih _ hx (by simp only [List.map_cons, List.sum_cons] at htot; omega)

theorem medianWeightedPrice_some (l : List (Int × Nat)) (hne : l ≠ []) (hw : ∀ e ∈ l, 0 ≤ e.1) :
    ∃ p, medianWeightedPrice l = some p := by
  unfold medianWeightedPrice
  have hperm := List.mergeSort_perm l priceOrder
  apply firstHalf_some
  · intro h; apply hne
    have := hperm.length_eq; rw [h] at this; exact List.length_eq_zero_iff.mp this.symm
  · omega
  · apply sum_nonneg_of
    intro x hx
    obtain ⟨e, he, rfl⟩ := List.mem_map.mp hx
    exact hw e (hperm.mem_iff.mp he)

theorem weigh_length (total : Int) (l : List Info) (cur : Int) (idx : Nat) :
    (weigh total l cur idx).length = l.length := by
  have := congrArg List.length (weigh_prices total l cur idx); simpa using this

theorem median_some_iff (l : List Info) (hp : ∀ i ∈ l, 0 ≤ i.power) :
    (∃ p, medianValidatorPriceInfos l = some p) ↔ validOf l ≠ [] := by
  constructor
  · rintro ⟨p, h⟩ hv
    obtain ⟨i, hi, ha, _⟩ := median_mem l p h
    have : i ∈ validOf l := List.mem_filter.mpr ⟨hi, ha⟩
    rw [hv] at this; simp at this
  · intro hv
    unfold medianValidatorPriceInfos
    apply medianWeightedPrice_some _ _ (weightsOf_nonneg l hp)
    intro h
    have hl : (weightsOf l).length = (validOf l).length := by
      unfold weightsOf; rw [weigh_length]; exact (List.mergeSort_perm _ _).length_eq
    rw [h] at hl
    exact hv (List.length_eq_zero_iff.mp hl.symm)

/-! ### the result is the (lower) weighted median -/
def wBelow (ws : List (Int × Nat)) (p : Nat) : Int := ((ws.filter (fun e => decide (e.2 < p))).map (·.1)).sum
def wUpTo (ws : List (Int × Nat)) (p : Nat) : Int := ((ws.filter (fun e => decide (e.2 ≤ p))).map (·.1)).sum
def wTotal (ws : List (Int × Nat)) : Int := (ws.map (·.1)).sum

theorem perm_sum {l₁ l₂ : List Int} (h : l₁.Perm l₂) : l₁.sum = l₂.sum := by
  induction h with
  | nil => rfl
  | cons x _ ih => simp [ih]
  | swap x y l => simp only [List.sum_cons]; omega
  | trans _ _ ih1 ih2 => omega

theorem wBelow_cons (w : Int) (q : Nat) (xs : List (Int × Nat)) (p : Nat) :
    wBelow ((w, q) :: xs) p = (if q < p then w else 0) + wBelow xs p := by
  unfold wBelow; by_cases h : q < p <;> simp [List.filter_cons, h]

theorem wUpTo_cons (w : Int) (q : Nat) (xs : List (Int × Nat)) (p : Nat) :
    wUpTo ((w, q) :: xs) p = (if q ≤ p then w else 0) + wUpTo xs p := by
  unfold wUpTo; by_cases h : q ≤ p <;> simp [List.filter_cons, h]

theorem wBelow_nonneg (xs : List (Int × Nat)) (p : Nat) (hw : ∀ e ∈ xs, 0 ≤ e.1) : 0 ≤ wBelow xs p := by
  unfold wBelow; apply sum_nonneg_of; intro x hx
  obtain ⟨e, he, rfl⟩ := List.mem_map.mp hx; exact hw e (List.mem_filter.mp he).1

theorem wUpTo_nonneg (xs : List (Int × Nat)) (p : Nat) (hw : ∀ e ∈ xs, 0 ≤ e.1) : 0 ≤ wUpTo xs p := by
  unfold wUpTo; apply sum_nonneg_of; intro x hx
  obtain ⟨e, he, rfl⟩ := List.mem_map.mp hx; exact hw e (List.mem_filter.mp he).1

theorem wBelow_zero_of_ge (xs : List (Int × Nat)) (p : Nat) (h : ∀ e ∈ xs, p ≤ e.2) : wBelow xs p = 0 := by
  unfold wBelow
  have : xs.filter (fun e => decide (e.2 < p)) = [] := by
    apply List.filter_eq_nil_iff.mpr; intro e he; have := h e he; simp; omega
  simp [this]

theorem priceOrder_le (a b : Int × Nat) (h : priceOrder a b = true) : a.2 ≤ b.2 := by
  unfold priceOrder at h; simp at h; omega

theorem firstHalf_median (total : Int) (l : List (Int × Nat)) (cum : Int) (p : Nat)
    (hs : l.Pairwise (fun a b => priceOrder a b = true)) (hw : ∀ e ∈ l, 0 ≤ e.1)
    (hc : 2 * cum < total) (h : firstHalf total l cum = some p) :
    2 * (cum + wBelow l p) < total ∧ 2 * (cum + wUpTo l p) ≥ total := by
  induction l generalizing cum with
  | nil => simp [firstHalf] at h
  | cons x xs ih =>
    obtain ⟨w, q⟩ := x
    have hp := List.pairwise_cons.mp hs
    have hw0 : 0 ≤ w := hw (w, q) (List.mem_cons_self ..)
    have hwx : ∀ e ∈ xs, 0 ≤ e.1 := fun e he => hw e (List.mem_cons_of_mem _ he)
    simp only [firstHalf] at h
    rw [wBelow_cons, wUpTo_cons]
    split at h
    · rename_i hh
      obtain rfl : q = p := Option.some.inj h
      have hz : wBelow xs q = 0 := wBelow_zero_of_ge xs q (fun e he => priceOrder_le _ _ (hp.1 e he))
      have hu := wUpTo_nonneg xs q hwx
      have hh' : 2 * (cum + w) ≥ total := by simpa [halfReached] using hh
      simp only [Nat.lt_irrefl, if_false, Nat.le_refl, if_true, hz]
      constructor <;> omega
    · rename_i hh
      have hh' : 2 * (cum + w) < total := by
        have : ¬ (2 * (cum + w) ≥ total) := by simpa [halfReached] using hh
        omega
      obtain ⟨a, b⟩ := ih (cum + w) hp.2 hwx hh' h
      have hmem := firstHalf_mem _ _ _ _ h
      obtain ⟨e, he, hep⟩ := List.mem_map.mp hmem
      have hqp : q ≤ p := by have := priceOrder_le _ _ (hp.1 e he); simp at this; omega
      simp only [hqp, if_true]
      constructor
      · split <;> omega
      · omega

theorem priceOrder_trans (a b c : Int × Nat) (h1 : priceOrder a b = true) (h2 : priceOrder b c = true) :
    priceOrder a c = true := by
  unfold priceOrder at *; simp at *; omega

theorem priceOrder_total (a b : Int × Nat) : (priceOrder a b || priceOrder b a) = true := by
  unfold priceOrder; simp; omega

theorem wBelow_perm {l₁ l₂ : List (Int × Nat)} (h : l₁.Perm l₂) (p : Nat) : wBelow l₁ p = wBelow l₂ p :=
  perm_sum ((h.filter _).map _)
theorem wUpTo_perm {l₁ l₂ : List (Int × Nat)} (h : l₁.Perm l₂) (p : Nat) : wUpTo l₁ p = wUpTo l₂ p :=
  perm_sum ((h.filter _).map _)
theorem wTotal_perm {l₁ l₂ : List (Int × Nat)} (h : l₁.Perm l₂) : wTotal l₁ = wTotal l₂ :=
  perm_sum (h.map _)

/-- MedianWeightedPrice returns the lower weighted median: strictly less than half of the weight
    lies strictly below it and at least half lies at or below it. -/
theorem medianWeightedPrice_is_median (l : List (Int × Nat)) (p : Nat) (hw : ∀ e ∈ l, 0 ≤ e.1)
    (hpos : 0 < wTotal l) (h : medianWeightedPrice l = some p) :
    2 * wBelow l p < wTotal l ∧ 2 * wUpTo l p ≥ wTotal l := by
  unfold medianWeightedPrice at h
  have hperm := List.mergeSort_perm l priceOrder
  have hsorted := List.pairwise_mergeSort priceOrder_trans priceOrder_total l
  have hw' : ∀ e ∈ l.mergeSort priceOrder, 0 ≤ e.1 := fun e he => hw e (hperm.mem_iff.mp he)
  have ht : ((l.mergeSort priceOrder).map (·.1)).sum = wTotal l := wTotal_perm hperm
  simp only [] at h
  rw [ht] at h
  have := firstHalf_median (wTotal l) _ 0 p hsorted hw' (by omega) h
  rw [wBelow_perm hperm, wUpTo_perm hperm] at this
  constructor <;> omega

/-! ### only bonded ∧ active validators with a fresh price matter -/
def counts (now interval : Int) (v : Val) : Bool :=
  v.bonded && v.active && match v.entry with
    | some (st, _, ts) => havePrice st ts now interval
    | none => false

theorem infoOf_none (now interval : Int) (v : Val) (hc : counts now interval v = false) :
    infoOf now interval v = none := by
  unfold counts at hc
  unfold infoOf
  by_cases hb : (v.bonded && v.active) = true
  · simp only [hb, if_true]
    cases he : v.entry with
    | none => rfl
    | some e =>
      obtain ⟨st, pr, ts⟩ := e
      simp only [hb, he, Bool.true_and] at hc
      simp [hc]
  · simp [hb]

theorem feedInfos_filter (vals : List Val) (now interval : Int) :
    feedInfos (vals.filter (counts now interval)) now interval = feedInfos vals now interval := by
  unfold feedInfos
  induction vals with
  | nil => rfl
  | cons v vs ih =>
    by_cases hc : counts now interval v = true
    · rw [List.filter_cons_of_pos hc]
      simp only [List.filterMap_cons]
      rw [ih]
    · rw [List.filter_cons_of_neg hc, ih]
      simp only [List.filterMap_cons]
      rw [infoOf_none now interval v (by simpa using hc)]

end BandVerif.Median
