/- C02/C10/C13: the places where HandleSigningEndBlock can panic in Go (MustGetSigning / MustGetSigningAttempt on a
   scheduled entry, MustGetSigning in the bandtss callbacks, the payout out of the escrow) made observable, and the proof
   that none of them is reachable from a state satisfying the history invariants.  Core-only. -/
import BandVerif.Lemmas.SigningEscrow

namespace BandVerif.Signing

/-- OnSigningCompleted would panic: no bandtss record for a mapped id, or the escrow cannot pay the assigned members -/
def payPanics (s : State) (sid : Nat) (assigned : List Nat) : Bool :=
  if s.mapping sid = 0 then false else
  match s.bsigs (s.mapping sid) with
  | none => true
  | some b =>
    if sid ≠ b.currentSid || isZero s b.feePerSigner then false
    else s.denoms.any fun d => decide (s.escrow d < b.feePerSigner d * assigned.length)

/-- aggregation of the pending ids: MustGetSigning on a pending id, or the payout -/
def aggPanics : State → List Nat → Bool
  | _, [] => false
  | s, sid :: rest =>
    match s.signings sid with
    | none => true
    | some sg =>
      let assigned := ((s.attempts sid sg.attempt).map (·.assigned.map (·.1))).getD []
      let s1 := { s with signings := fun i => if i = sid then some { sg with status := stSuccess } else s.signings i }
      payPanics s1 sid assigned || aggPanics (onCompleted s1 sid assigned) rest

/-- the expiry pass reaches an entry whose signing or attempt record is missing (MustGetSigning / MustGetSigningAttempt) -/
def expPanics (height : Int) (nowNs : Int) : List (Nat × Nat) → State → Bool
  | [], _ => false
  | (sid, att) :: rest, s =>
    match s.signings sid, s.attempts sid att with
    | some sg, some atm =>
      if atm.expiredHeight > height then false
      else
        let timedOut := (s.partials sid att).length ≠ atm.assigned.length
        let idle := ((s.attempts sid sg.attempt).map fun c => (c.assigned.map (·.1)).filter fun m => !(s.partials sid sg.attempt).contains m).getD []
        let s1 := if timedOut then onTimeout s sid sg.attempt nowNs idle else s
        let s2 := { s1 with partials := fun i a => if i = sid ∧ a = att then [] else s1.partials i a,
                             attempts := fun i a => if i = sid ∧ a = att then none else s1.attempts i a }
        expPanics height nowNs rest s2
    | _, _ => true

/-- a retry whose signing record is missing (HandleFailedSigning → MustGetSigning) -/
def retryPanics (committee : Nat → List Nat) (height : Int) : List Nat → State → Bool
  | [], _ => false
  | sid :: rest, s => (s.signings sid).isNone || retryPanics committee height rest (retryOne s sid (committee sid) height)

/-- HandleSigningEndBlock panics -/
def endBlockPanics (s : State) (committee : Nat → List Nat) (height nowNs : Int) : Bool :=
  let s1 := aggregateAll s s.pending
  let s2 := { s1 with pending := [] }
  let r := expireGo height nowNs s2.expirations s2 [] 0
  let s4 := { r.1 with expirations := r.1.expirations.drop r.2.2 }
  aggPanics s s.pending || expPanics height nowNs s2.expirations s2 || retryPanics committee height r.2.1 s4

theorem payPanics_false (s : State) (sid : Nat) (assigned : List Nat) (h : EInv s) (hl : assigned.length ≤ s.threshold) :
    payPanics s sid assigned = false := by
  unfold payPanics
  by_cases hm : s.mapping sid = 0
  · simp [hm]
  · simp only [hm, if_false]
    cases hb : s.bsigs (s.mapping sid) with
    | none => have := h.mapped sid hm; rw [hb] at this; cases this
    | some b =>
      simp only []
      split
      · rfl
      · rename_i hpay
        simp only [Bool.or_eq_true, decide_eq_true_eq, not_or, Decidable.not_not, Bool.not_eq_true] at hpay
        rw [List.any_eq_false]
        intro d _
        simp only [decide_eq_true_eq, Nat.not_lt]
        have hsid : sid ≤ s.count := by
          cases Nat.lt_or_ge s.count sid with
          | inl hlt => exact absurd (h.sids sid hlt) hm
          | inr hge => exact hge
        have h1 := owed_le_sum s sid d hsid
        have h2 := h.covers d
        have h3 : owed s sid d = b.feePerSigner d * s.threshold := by
          unfold owed
          have : sid = b.currentSid := by simpa using hpay.1
          simp [hm, hb, ← this]
        have h4 : b.feePerSigner d * assigned.length ≤ b.feePerSigner d * s.threshold := Nat.mul_le_mul_left _ hl
        omega

theorem aggPanics_false (l : List Nat) (s : State) (h : EInv s) (hl : ∀ sid ∈ l, (s.signings sid).isSome) : aggPanics s l = false := by
  induction l generalizing s with
  | nil => rfl
  | cons sid rest ih =>
    simp only [aggPanics]
    cases hs : s.signings sid with
    | none => have := hl sid (List.mem_cons_self ..); rw [hs] at this; cases this
    | some sg =>
      simp only []
      have hlen : (((s.attempts sid sg.attempt).map (·.assigned.map (·.1))).getD []).length ≤ s.threshold := by
        cases ha : s.attempts sid sg.attempt with
        | none => simp
        | some atm => simp only [Option.map_some, Option.getD_some, List.length_map]; exact h.small sid sg.attempt atm ha
      have h1 : EInv { s with signings := fun i => if i = sid then some { sg with status := stSuccess } else s.signings i } :=
        einv_of_frame _ _ h rfl rfl rfl rfl rfl rfl rfl
      rw [payPanics_false _ sid _ h1 hlen, Bool.false_or]
      apply ih _ (onCompleted_einv _ sid _ h1 hlen)
      intro i hi
      rw [(onCompleted_frame _ sid _).2.2.2.1]
      show (if i = sid then some { sg with status := stSuccess } else s.signings i).isSome
      split
      · rfl
      · exact hl i (List.mem_cons_of_mem _ hi)

theorem expPanics_false (height nowNs : Int) (l : List (Nat × Nat)) (s : State) (hn : (l.map (·.1)).Nodup)
    (hl : ∀ i a, (i, a) ∈ l → (s.signings i).isSome ∧ (s.attempts i a).isSome) : expPanics height nowNs l s = false := by
  induction l generalizing s with
  | nil => rfl
  | cons e rest ih =>
    obtain ⟨sid, att⟩ := e
    obtain ⟨q1, q2⟩ := hl sid att (List.mem_cons_self ..)
    simp only [expPanics]
    cases hs : s.signings sid with
    | none => rw [hs] at q1; cases q1
    | some sg =>
      cases ha : s.attempts sid att with
      | none => rw [ha] at q2; cases q2
      | some atm =>
        simp only []
        split
        · rfl
        · have hnd : sid ∉ rest.map (·.1) ∧ (rest.map (·.1)).Nodup := List.nodup_cons.mp (by simp only [List.map_cons] at hn; exact hn)
          apply ih _ hnd.2
          intro i a hia
          have hne : i ≠ sid := by
            intro e; subst e; exact hnd.1 (List.mem_map.mpr ⟨(i, a), hia, rfl⟩)
          obtain ⟨r1, r2⟩ := hl i a (List.mem_cons_of_mem _ hia)
          simp only [hne, false_and, if_false]
          split
          · obtain ⟨_, _, _, t4, t5, _⟩ := onTimeout_frame sid sg.attempt nowNs
              (((s.attempts sid sg.attempt).map fun c => (c.assigned.map (·.1)).filter fun m => !(s.partials sid sg.attempt).contains m).getD []) s
            rw [t4, t5]; exact ⟨r1, r2⟩
          · exact ⟨r1, r2⟩

theorem retryPanics_false (committee : Nat → List Nat) (height : Int) (l : List Nat) (s : State) (hn : l.Nodup)
    (hl : ∀ i ∈ l, (s.signings i).isSome) : retryPanics committee height l s = false := by
  induction l generalizing s with
  | nil => rfl
  | cons sid rest ih =>
    simp only [retryPanics]
    have h1 := hl sid (List.mem_cons_self ..)
    have hnd := List.nodup_cons.mp hn
    cases hs : s.signings sid with
    | none => rw [hs] at h1; cases h1
    | some sg =>
      simp only [Option.isNone_some, Bool.false_or]
      apply ih _ hnd.2
      intro i hi
      have hne : i ≠ sid := by intro e; subst e; exact hnd.1 hi
      rw [(retryOne_frame s sid (committee sid) height).2.2.2 i hne]
      exact hl i (List.mem_cons_of_mem _ hi)

/-- **HandleSigningEndBlock never panics** from a state satisfying the history invariants -/
theorem endBlock_never_panics (s : State) (committee : Nat → List Nat) (height nowNs : Int) (h : HInv s) (he : EInv s) :
    endBlockPanics s committee height nowNs = false := by
  unfold endBlockPanics
  simp only []
  have H2 := aggregated_hinv s h
  obtain ⟨_, e2, _, _, e5, _, e7⟩ := expired_hinv { aggregateAll s s.pending with pending := [] } H2 rfl height nowNs
  rw [aggPanics_false s.pending s he (fun sid hs => by obtain ⟨sg, _, q, _⟩ := h.h3 sid hs; rw [q]; rfl), Bool.false_or]
  rw [expPanics_false height nowNs _ _ H2.h2 (fun i a hia => by
    obtain ⟨sg, atm, q1, _, q3, _⟩ := H2.h1 i a hia
    exact ⟨by rw [q1]; rfl, by rw [q3]; rfl⟩), Bool.false_or]
  apply retryPanics_false committee height _ _ e2
  intro i hi
  obtain ⟨sg, q, _⟩ := e7 i hi
  show ((expireGo height nowNs (aggregateAll s s.pending).expirations { aggregateAll s s.pending with pending := [] } [] 0).1.signings i).isSome
  rw [e5]
  have q' : (aggregateAll s s.pending).signings i = some sg := q
  rw [q']; rfl

end BandVerif.Signing
