/- C03/C04: the order of the secp256k1 group is prime — a Pratt certificate (Lucas primality at every node of the
   factor tree of n − 1), checked by the kernel.  The witnesses and factorizations were found with sympy by
   /verif/lib/gen_pratt.py; nothing here trusts them: every modular power is re-evaluated (`reduce_mod_char`) and every
   factorization is re-multiplied (`norm_num`). -/
import Mathlib.NumberTheory.LucasPrimality
import Mathlib.Tactic.NormNum.Prime
import Mathlib.Tactic.ReduceModChar

namespace BandVerif.Pratt

theorem prime_dvd_prod_pow {q : ℕ} (hq : q.Prime) : ∀ (l : List (ℕ × ℕ)), (∀ x ∈ l, x.1.Prime) →
    q ∣ (l.map (fun x => x.1 ^ x.2)).prod → ∃ x ∈ l, q = x.1
  | [], _, h => by simp at h; exact absurd h hq.one_lt.ne'
  | x :: xs, hl, h => by
    simp only [List.map_cons, List.prod_cons] at h
    rcases (Nat.Prime.dvd_mul hq).mp h with h1 | h2
    · have := hq.dvd_of_dvd_pow h1
      exact ⟨x, List.mem_cons_self .., (Nat.prime_dvd_prime_iff_eq hq (hl x (List.mem_cons_self ..))).mp this⟩
    · obtain ⟨y, hy, e⟩ := prime_dvd_prod_pow hq xs (fun z hz => hl z (List.mem_cons_of_mem _ hz)) h2
      exact ⟨y, List.mem_cons_of_mem _ hy, e⟩

theorem prime_4681609 : Nat.Prime 4681609 := by
  have hfac : 4681609 - 1 = ([(2, 3), (3, 1), (97, 1), (2011, 1)].map (fun x : ℕ × ℕ => x.1 ^ x.2)).prod := by norm_num
  have hl : ∀ x ∈ [(2, 3), (3, 1), (97, 1), (2011, 1)], (x : ℕ × ℕ).1.Prime := by
    intro x hx
    simp only [List.mem_cons, List.mem_nil_iff, or_false] at hx
    rcases hx with rfl | rfl | rfl | rfl
    · norm_num
    · norm_num
    · norm_num
    · norm_num
  refine lucas_primality 4681609 (23 : ZMod 4681609) (by reduce_mod_char) ?_
  intro q hq hd
  rw [hfac] at hd
  obtain ⟨x, hx, rfl⟩ := prime_dvd_prod_pow hq _ hl hd
  simp only [List.mem_cons, List.mem_nil_iff, or_false] at hx
  rcases hx with rfl | rfl | rfl | rfl <;> (reduce_mod_char; try decide)

theorem prime_107361793816595537 : Nat.Prime 107361793816595537 := by
  have hfac : 107361793816595537 - 1 = ([(2, 4), (16699, 1), (85831, 1), (4681609, 1)].map (fun x : ℕ × ℕ => x.1 ^ x.2)).prod := by norm_num
  have hl : ∀ x ∈ [(2, 4), (16699, 1), (85831, 1), (4681609, 1)], (x : ℕ × ℕ).1.Prime := by
    intro x hx
    simp only [List.mem_cons, List.mem_nil_iff, or_false] at hx
    rcases hx with rfl | rfl | rfl | rfl
    · norm_num
    · norm_num
    · norm_num
    · exact prime_4681609
  refine lucas_primality 107361793816595537 (3 : ZMod 107361793816595537) (by reduce_mod_char) ?_
  intro q hq hd
  rw [hfac] at hd
  obtain ⟨x, hx, rfl⟩ := prime_dvd_prod_pow hq _ hl hd
  simp only [List.mem_cons, List.mem_nil_iff, or_false] at hx
  rcases hx with rfl | rfl | rfl | rfl <;> (reduce_mod_char; try decide)

theorem prime_120233 : Nat.Prime 120233 := by
  have hfac : 120233 - 1 = ([(2, 3), (7, 1), (19, 1), (113, 1)].map (fun x : ℕ × ℕ => x.1 ^ x.2)).prod := by norm_num
  have hl : ∀ x ∈ [(2, 3), (7, 1), (19, 1), (113, 1)], (x : ℕ × ℕ).1.Prime := by
    intro x hx
    simp only [List.mem_cons, List.mem_nil_iff, or_false] at hx
    rcases hx with rfl | rfl | rfl | rfl
    · norm_num
    · norm_num
    · norm_num
    · norm_num
  refine lucas_primality 120233 (3 : ZMod 120233) (by reduce_mod_char) ?_
  intro q hq hd
  rw [hfac] at hd
  obtain ⟨x, hx, rfl⟩ := prime_dvd_prod_pow hq _ hl hd
  simp only [List.mem_cons, List.mem_nil_iff, or_false] at hx
  rcases hx with rfl | rfl | rfl | rfl <;> (reduce_mod_char; try decide)

theorem prime_44706919 : Nat.Prime 44706919 := by
  have hfac : 44706919 - 1 = ([(2, 1), (3, 1), (797, 1), (9349, 1)].map (fun x : ℕ × ℕ => x.1 ^ x.2)).prod := by norm_num
  have hl : ∀ x ∈ [(2, 1), (3, 1), (797, 1), (9349, 1)], (x : ℕ × ℕ).1.Prime := by
    intro x hx
    simp only [List.mem_cons, List.mem_nil_iff, or_false] at hx
    rcases hx with rfl | rfl | rfl | rfl
    · norm_num
    · norm_num
    · norm_num
    · norm_num
  refine lucas_primality 44706919 (6 : ZMod 44706919) (by reduce_mod_char) ?_
  intro q hq hd
  rw [hfac] at hd
  obtain ⟨x, hx, rfl⟩ := prime_dvd_prod_pow hq _ hl hd
  simp only [List.mem_cons, List.mem_nil_iff, or_false] at hx
  rcases hx with rfl | rfl | rfl | rfl <;> (reduce_mod_char; try decide)

theorem prime_174723607534414371449 : Nat.Prime 174723607534414371449 := by
  have hfac : 174723607534414371449 - 1 = ([(2, 3), (17, 1), (59, 1), (4051, 1), (120233, 1), (44706919, 1)].map (fun x : ℕ × ℕ => x.1 ^ x.2)).prod := by norm_num
  have hl : ∀ x ∈ [(2, 3), (17, 1), (59, 1), (4051, 1), (120233, 1), (44706919, 1)], (x : ℕ × ℕ).1.Prime := by
    intro x hx
    simp only [List.mem_cons, List.mem_nil_iff, or_false] at hx
    rcases hx with rfl | rfl | rfl | rfl | rfl | rfl
    · norm_num
    · norm_num
    · norm_num
    · norm_num
    · exact prime_120233
    · exact prime_44706919
  refine lucas_primality 174723607534414371449 (3 : ZMod 174723607534414371449) (by reduce_mod_char) ?_
  intro q hq hd
  rw [hfac] at hd
  obtain ⟨x, hx, rfl⟩ := prime_dvd_prod_pow hq _ hl hd
  simp only [List.mem_cons, List.mem_nil_iff, or_false] at hx
  rcases hx with rfl | rfl | rfl | rfl | rfl | rfl <;> (reduce_mod_char; try decide)

theorem prime_305873 : Nat.Prime 305873 := by
  have hfac : 305873 - 1 = ([(2, 4), (7, 1), (2731, 1)].map (fun x : ℕ × ℕ => x.1 ^ x.2)).prod := by norm_num
  have hl : ∀ x ∈ [(2, 4), (7, 1), (2731, 1)], (x : ℕ × ℕ).1.Prime := by
    intro x hx
    simp only [List.mem_cons, List.mem_nil_iff, or_false] at hx
    rcases hx with rfl | rfl | rfl
    · norm_num
    · norm_num
    · norm_num
  refine lucas_primality 305873 (3 : ZMod 305873) (by reduce_mod_char) ?_
  intro q hq hd
  rw [hfac] at hd
  obtain ⟨x, hx, rfl⟩ := prime_dvd_prod_pow hq _ hl hd
  simp only [List.mem_cons, List.mem_nil_iff, or_false] at hx
  rcases hx with rfl | rfl | rfl <;> (reduce_mod_char; try decide)

theorem prime_545358713 : Nat.Prime 545358713 := by
  have hfac : 545358713 - 1 = ([(2, 3), (41, 1), (59, 1), (28181, 1)].map (fun x : ℕ × ℕ => x.1 ^ x.2)).prod := by norm_num
  have hl : ∀ x ∈ [(2, 3), (41, 1), (59, 1), (28181, 1)], (x : ℕ × ℕ).1.Prime := by
    intro x hx
    simp only [List.mem_cons, List.mem_nil_iff, or_false] at hx
    rcases hx with rfl | rfl | rfl | rfl
    · norm_num
    · norm_num
    · norm_num
    · norm_num
  refine lucas_primality 545358713 (5 : ZMod 545358713) (by reduce_mod_char) ?_
  intro q hq hd
  rw [hfac] at hd
  obtain ⟨x, hx, rfl⟩ := prime_dvd_prod_pow hq _ hl hd
  simp only [List.mem_cons, List.mem_nil_iff, or_false] at hx
  rcases hx with rfl | rfl | rfl | rfl <;> (reduce_mod_char; try decide)

theorem prime_1627771 : Nat.Prime 1627771 := by
  have hfac : 1627771 - 1 = ([(2, 1), (3, 1), (5, 1), (29, 1), (1871, 1)].map (fun x : ℕ × ℕ => x.1 ^ x.2)).prod := by norm_num
  have hl : ∀ x ∈ [(2, 1), (3, 1), (5, 1), (29, 1), (1871, 1)], (x : ℕ × ℕ).1.Prime := by
    intro x hx
    simp only [List.mem_cons, List.mem_nil_iff, or_false] at hx
    rcases hx with rfl | rfl | rfl | rfl | rfl
    · norm_num
    · norm_num
    · norm_num
    · norm_num
    · norm_num
  refine lucas_primality 1627771 (3 : ZMod 1627771) (by reduce_mod_char) ?_
  intro q hq hd
  rw [hfac] at hd
  obtain ⟨x, hx, rfl⟩ := prime_dvd_prod_pow hq _ hl hd
  simp only [List.mem_cons, List.mem_nil_iff, or_false] at hx
  rcases hx with rfl | rfl | rfl | rfl | rfl <;> (reduce_mod_char; try decide)

theorem prime_297159362677 : Nat.Prime 297159362677 := by
  have hfac : 297159362677 - 1 = ([(2, 2), (3, 2), (11, 1), (461, 1), (1627771, 1)].map (fun x : ℕ × ℕ => x.1 ^ x.2)).prod := by norm_num
  have hl : ∀ x ∈ [(2, 2), (3, 2), (11, 1), (461, 1), (1627771, 1)], (x : ℕ × ℕ).1.Prime := by
    intro x hx
    simp only [List.mem_cons, List.mem_nil_iff, or_false] at hx
    rcases hx with rfl | rfl | rfl | rfl | rfl
    · norm_num
    · norm_num
    · norm_num
    · norm_num
    · exact prime_1627771
  refine lucas_primality 297159362677 (2 : ZMod 297159362677) (by reduce_mod_char) ?_
  intro q hq hd
  rw [hfac] at hd
  obtain ⟨x, hx, rfl⟩ := prime_dvd_prod_pow hq _ hl hd
  simp only [List.mem_cons, List.mem_nil_iff, or_false] at hx
  rcases hx with rfl | rfl | rfl | rfl | rfl <;> (reduce_mod_char; try decide)

theorem prime_29047611873442575647497758179 : Nat.Prime 29047611873442575647497758179 := by
  have hfac : 29047611873442575647497758179 - 1 = ([(2, 1), (293, 1), (305873, 1), (545358713, 1), (297159362677, 1)].map (fun x : ℕ × ℕ => x.1 ^ x.2)).prod := by norm_num
  have hl : ∀ x ∈ [(2, 1), (293, 1), (305873, 1), (545358713, 1), (297159362677, 1)], (x : ℕ × ℕ).1.Prime := by
    intro x hx
    simp only [List.mem_cons, List.mem_nil_iff, or_false] at hx
    rcases hx with rfl | rfl | rfl | rfl | rfl
    · norm_num
    · norm_num
    · exact prime_305873
    · exact prime_545358713
    · exact prime_297159362677
  refine lucas_primality 29047611873442575647497758179 (2 : ZMod 29047611873442575647497758179) (by reduce_mod_char) ?_
  intro q hq hd
  rw [hfac] at hd
  obtain ⟨x, hx, rfl⟩ := prime_dvd_prod_pow hq _ hl hd
  simp only [List.mem_cons, List.mem_nil_iff, or_false] at hx
  rcases hx with rfl | rfl | rfl | rfl | rfl <;> (reduce_mod_char; try decide)

theorem prime_341948486974166000522343609283189 : Nat.Prime 341948486974166000522343609283189 := by
  have hfac : 341948486974166000522343609283189 - 1 = ([(2, 2), (3, 3), (109, 1), (29047611873442575647497758179, 1)].map (fun x : ℕ × ℕ => x.1 ^ x.2)).prod := by norm_num
  have hl : ∀ x ∈ [(2, 2), (3, 3), (109, 1), (29047611873442575647497758179, 1)], (x : ℕ × ℕ).1.Prime := by
    intro x hx
    simp only [List.mem_cons, List.mem_nil_iff, or_false] at hx
    rcases hx with rfl | rfl | rfl | rfl
    · norm_num
    · norm_num
    · norm_num
    · exact prime_29047611873442575647497758179
  refine lucas_primality 341948486974166000522343609283189 (2 : ZMod 341948486974166000522343609283189) (by reduce_mod_char) ?_
  intro q hq hd
  rw [hfac] at hd
  obtain ⟨x, hx, rfl⟩ := prime_dvd_prod_pow hq _ hl hd
  simp only [List.mem_cons, List.mem_nil_iff, or_false] at hx
  rcases hx with rfl | rfl | rfl | rfl <;> (reduce_mod_char; try decide)

theorem prime_115792089237316195423570985008687907852837564279074904382605163141518161494337 : Nat.Prime 115792089237316195423570985008687907852837564279074904382605163141518161494337 := by
  have hfac : 115792089237316195423570985008687907852837564279074904382605163141518161494337 - 1 = ([(2, 6), (3, 1), (149, 1), (631, 1), (107361793816595537, 1), (174723607534414371449, 1), (341948486974166000522343609283189, 1)].map (fun x : ℕ × ℕ => x.1 ^ x.2)).prod := by norm_num
  have hl : ∀ x ∈ [(2, 6), (3, 1), (149, 1), (631, 1), (107361793816595537, 1), (174723607534414371449, 1), (341948486974166000522343609283189, 1)], (x : ℕ × ℕ).1.Prime := by
    intro x hx
    simp only [List.mem_cons, List.mem_nil_iff, or_false] at hx
    rcases hx with rfl | rfl | rfl | rfl | rfl | rfl | rfl
    · norm_num
    · norm_num
    · norm_num
    · norm_num
    · exact prime_107361793816595537
    · exact prime_174723607534414371449
    · exact prime_341948486974166000522343609283189
  refine lucas_primality 115792089237316195423570985008687907852837564279074904382605163141518161494337 (7 : ZMod 115792089237316195423570985008687907852837564279074904382605163141518161494337) (by reduce_mod_char) ?_
  intro q hq hd
  rw [hfac] at hd
  obtain ⟨x, hx, rfl⟩ := prime_dvd_prod_pow hq _ hl hd
  simp only [List.mem_cons, List.mem_nil_iff, or_false] at hx
  rcases hx with rfl | rfl | rfl | rfl | rfl | rfl | rfl <;> (reduce_mod_char; try decide)

/-- the order of the secp256k1 group -/
def groupOrder : ℕ := 115792089237316195423570985008687907852837564279074904382605163141518161494337

/-- **the group order is prime**, hence `ZMod groupOrder` is a field: the scalar structure assumed by the C03/C04
    theorems exists -/
theorem groupOrder_prime : Nat.Prime groupOrder := prime_115792089237316195423570985008687907852837564279074904382605163141518161494337

instance : Fact (Nat.Prime groupOrder) := ⟨groupOrder_prime⟩

end BandVerif.Pratt
