/- C09: "best of N tries by total weight" — ChooseSomeMaxWeight returns the FIRST try with the LARGEST weight sum, and under
   the chain's preconditions (positive weights whose sum fits uint64, 1 ≤ cnt ≤ n, at least one try) that is a full sample. -/
import BandVerif.Lemmas.Sampling

namespace BandVerif.Sampling

theorem map_eraseIdx' (f : Nat → Nat) (l : List Nat) (c : Nat) : (l.map f).eraseIdx c = (l.eraseIdx c).map f := by
  induction l generalizing c with
  | nil => rfl
  | cons x xs ih => cases c with
    | zero => rfl
    | succ c => simp only [List.map_cons, List.eraseIdx_cons_succ, ih]

theorem sum_eraseIdx' (l : List Nat) (c : Nat) (h : c < l.length) : l.sum = l[c] + (l.eraseIdx c).sum := by
  induction l generalizing c with
  | nil => simp at h
  | cons x xs ih => cases c with
    | zero => simp
    | succ c =>
      have := ih c (by simpa using h)
      simp only [List.sum_cons, List.eraseIdx_cons_succ, List.getElem_cons_succ]; omega

theorem foldl_add' (f : Nat → Nat) (l : List Nat) (a : Nat) : l.foldl (fun acc i => acc + f i) a = a + (l.map f).sum := by
  induction l generalizing a with
  | nil => simp
  | cons x xs ih => simp only [List.foldl_cons, List.map_cons, List.sum_cons, ih]; omega

/-- the weights of a sample never add up to more than the weights it was drawn from -/
theorem chooseSome_weight_le (f : Nat → Nat) (cnt : Nat) (availI : List Nat) (rand : Nat → Nat) (pos : Nat) (l : List Nat)
    (h : chooseSome cnt (availI.map f) availI rand pos = some l) :
    (l.map f).sum ≤ (availI.map f).sum := by
  induction cnt generalizing availI pos l with
  | zero => simp [chooseSome] at h; subst h; simp
  | succ cnt ih =>
    simp only [chooseSome] at h
    cases hc : chooseOne (availI.map f) (rand pos) with
    | none => rw [hc] at h; cases h
    | some c =>
      rw [hc] at h
      simp only [] at h
      cases hi : availI[c]? with
      | none => rw [hi] at h; cases h
      | some i =>
        rw [hi] at h
        simp only [] at h
        rw [map_eraseIdx'] at h
        cases hr : chooseSome cnt ((availI.eraseIdx c).map f) (availI.eraseIdx c) rand (pos + 1) with
        | none => rw [hr] at h; cases h
        | some l' =>
          rw [hr] at h
          simp only [Option.some.injEq] at h
          subst h
          have hlt : c < availI.length := by
            rcases Nat.lt_or_ge c availI.length with g | g
            · exact g
            · rw [List.getElem?_eq_none g] at hi; cases hi
          have hi' : availI[c] = i := by rw [List.getElem?_eq_getElem hlt] at hi; exact Option.some.inj hi
          have := ih (availI.eraseIdx c) (pos + 1) l' hr
          have e := sum_eraseIdx' (availI.map f) c (by simpa using hlt)
          rw [map_eraseIdx'] at e
          simp only [List.getElem_map, hi'] at e
          simp only [List.map_cons, List.sum_cons]; omega

theorem range_map_getD (ws : List Nat) : (List.range ws.length).map (ws.getD · 0) = ws := by
  apply List.ext_getElem
  · simp
  · intro i h1 h2
    simp only [List.getElem_map, List.getElem_range]
    simp at h1
    simp [List.getD_eq_getElem?_getD, List.getElem?_eq_getElem h1]

/-- a sample of at least one positively weighted entry, drawn from weights that fit uint64, has a positive weight sum
    (no wrap-around in the uint64 accumulation) -/
theorem weightSum_pos (ws : List Nat) (cnt : Nat) (rand : Nat → Nat) (pos : Nat) (l : List Nat)
    (hp : ∀ w ∈ ws, 0 < w) (hs : ws.sum < two64) (hc : 0 < cnt)
    (h : chooseSome cnt ws (List.range ws.length) rand pos = some l) : 0 < weightSum ws l := by
  have le := chooseSome_weight_le (ws.getD · 0) cnt (List.range ws.length) rand pos l (by
    rw [range_map_getD]; exact h)
  rw [range_map_getD] at le
  obtain ⟨hlen, hmem, _⟩ := chooseSome_spec cnt ws _ rand pos l h
  unfold weightSum
  rw [foldl_add', Nat.zero_add, Nat.mod_eq_of_lt (by omega)]
  cases l with
  | nil => simp at hlen; omega
  | cons i rest =>
    have hi : i < ws.length := List.mem_range.mp (hmem i (List.mem_cons_self ..))
    have : 0 < ws.getD i 0 := by
      rw [List.getD_eq_getElem?_getD, List.getElem?_eq_getElem hi]
      exact hp _ (List.getElem_mem hi)
    simp only [List.map_cons, List.sum_cons]; omega

/-- the loop keeps the first strictly largest weight sum seen -/
theorem maxWeightGo_best (ws : List Nat) (cnt : Nat) (rand : Nat → Nat) (tries each bestSum : Nat) (best l : List Nat)
    (hb : weightSum ws best = bestSum)
    (h : maxWeightGo ws cnt rand tries each bestSum best = some l) :
    (∀ t l', each ≤ t → t < each + tries → chooseSome cnt ws (List.range ws.length) rand (t * cnt) = some l' →
        weightSum ws l' ≤ weightSum ws l) ∧
    bestSum ≤ weightSum ws l ∧
    (l = best ∨ ∃ t, each ≤ t ∧ t < each + tries ∧ chooseSome cnt ws (List.range ws.length) rand (t * cnt) = some l ∧
        bestSum < weightSum ws l ∧
        ∀ t' l', each ≤ t' → t' < t → chooseSome cnt ws (List.range ws.length) rand (t' * cnt) = some l' →
          weightSum ws l' < weightSum ws l) := by
  induction tries generalizing each bestSum best with
  | zero =>
    simp [maxWeightGo] at h; subst h
    exact ⟨fun t l' a b => by omega, by omega, Or.inl rfl⟩
  | succ tries ih =>
    simp only [maxWeightGo] at h
    cases hc : chooseSome cnt ws (List.range ws.length) rand (each * cnt) with
    | none => simp [hc] at h
    | some cand =>
      simp only [hc] at h
      split at h
      · rename_i hgt
        obtain ⟨a1, a2, a3⟩ := ih (each + 1) (weightSum ws cand) cand rfl h
        refine ⟨?_, by omega, ?_⟩
        · intro t l' h1 h2 h3
          rcases Nat.eq_or_lt_of_le h1 with e | g
          · subst e; rw [hc] at h3; cases h3; exact a2
          · exact a1 t l' (by omega) (by omega) h3
        · right
          rcases a3 with e | ⟨t, b1, b2, b3, b4, b5⟩
          · subst e
            exact ⟨each, Nat.le_refl _, by omega, hc, hgt, fun t' l' x y => by omega⟩
          · refine ⟨t, by omega, by omega, b3, by omega, ?_⟩
            intro t' l' x y z
            rcases Nat.eq_or_lt_of_le x with e | g
            · subst e; rw [hc] at z; cases z; exact b4
            · exact b5 t' l' (by omega) y z
      · rename_i hle
        obtain ⟨a1, a2, a3⟩ := ih (each + 1) bestSum best hb h
        refine ⟨?_, a2, ?_⟩
        · intro t l' h1 h2 h3
          rcases Nat.eq_or_lt_of_le h1 with e | g
          · subst e; rw [hc] at h3; cases h3; omega
          · exact a1 t l' (by omega) (by omega) h3
        · rcases a3 with e | ⟨t, b1, b2, b3, b4, b5⟩
          · exact Or.inl e
          · right
            refine ⟨t, by omega, by omega, b3, b4, ?_⟩
            intro t' l' x y z
            rcases Nat.eq_or_lt_of_le x with e | g
            · subst e; rw [hc] at z; cases z; omega
            · exact b5 t' l' (by omega) y z

theorem maxWeightGo_total (ws : List Nat) (cnt : Nat) (rand : Nat → Nat) (tries each bestSum : Nat) (best : List Nat)
    (ht : ∀ pos, ∃ l, chooseSome cnt ws (List.range ws.length) rand pos = some l) :
    ∃ l, maxWeightGo ws cnt rand tries each bestSum best = some l := by
  induction tries generalizing each bestSum best with
  | zero => exact ⟨best, rfl⟩
  | succ tries ih =>
    obtain ⟨cand, hc⟩ := ht (each * cnt)
    simp only [maxWeightGo, hc]
    split
    · exact ih _ _ _
    · exact ih _ _ _

end BandVerif.Sampling
