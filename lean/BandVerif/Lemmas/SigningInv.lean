import BandVerif.Lemmas.Signing

namespace BandVerif.Signing

/-! ### counting: a duplicate-free sublist of a duplicate-free list of the same length covers it -/
theorem nodup_subset_length_le (l m : List Nat) (hl : l.Nodup) (hs : ∀ x ∈ l, x ∈ m) : l.length ≤ m.length := by
  induction l generalizing m with
  | nil => simp
  | cons a as ih =>
    have ha : a ∈ m := hs a (List.mem_cons_self ..)
    have hnd := List.nodup_cons.mp hl
    have : as.length ≤ (m.erase a).length := by
      apply ih (m.erase a) hnd.2
      intro x hx
      have hxm := hs x (List.mem_cons_of_mem _ hx)
      have hne : x ≠ a := fun e => hnd.1 (e ▸ hx)
      exact (List.mem_erase_of_ne hne).mpr hxm
    rw [List.length_erase_of_mem ha] at this
    have : 0 < m.length := List.length_pos_of_mem ha
    simp only [List.length_cons]; omega

theorem nodup_subset_length_eq_covers (l m : List Nat) (hl : l.Nodup) (hm : m.Nodup) (hs : ∀ x ∈ l, x ∈ m)
    (hlen : l.length = m.length) : ∀ x ∈ m, x ∈ l := by
  induction l generalizing m with
  | nil =>
    intro x hx
    have : m = [] := List.length_eq_zero_iff.mp (by simpa using hlen.symm)
    rw [this] at hx; cases hx
  | cons a as ih =>
    intro x hx
    have ha : a ∈ m := hs a (List.mem_cons_self ..)
    have hnd := List.nodup_cons.mp hl
    by_cases e : x = a
    · subst e; exact List.mem_cons_self ..
    · have hx' : x ∈ m.erase a := (List.mem_erase_of_ne e).mpr hx
      have := ih (m.erase a) hnd.2 (hm.erase a)
        (fun y hy => (List.mem_erase_of_ne (fun (e' : y = a) => hnd.1 (by rw [← e']; exact hy))).mpr (hs y (List.mem_cons_of_mem _ hy)))
        (by rw [List.length_erase_of_mem ha]; simp only [List.length_cons] at hlen; omega) x hx'
      exact List.mem_cons_of_mem _ this

/-! ### the signing-state invariant (C10) -/
def ids (atm : Attempt) : List Nat := atm.assigned.map (·.1)

structure SInv (s : State) : Prop where
  /-- every scheduled expiry belongs to the CURRENT attempt of an existing signing that is WAITING, or
      SUCCESS with a complete partial-signature set -/
  e1 : ∀ sid att, (sid, att) ∈ s.expirations → ∃ sg atm, s.signings sid = some sg ∧ att = sg.attempt ∧
        s.attempts sid att = some atm ∧
        (sg.status = stWaiting ∨ (sg.status = stSuccess ∧ (s.partials sid att).length = atm.assigned.length))
  /-- at most one scheduled expiry per signing -/
  e2 : (s.expirations.map (·.1)).Nodup
  /-- pending ids are WAITING with a complete set -/
  e4 : ∀ sid ∈ s.pending, ∃ sg atm, s.signings sid = some sg ∧ sg.status = stWaiting ∧
        s.attempts sid sg.attempt = some atm ∧ (s.partials sid sg.attempt).length = atm.assigned.length
  /-- ids above the counter are unused -/
  e6 : ∀ sid, s.count < sid → s.signings sid = none ∧ (∀ att, s.attempts sid att = none ∧ s.partials sid att = []) ∧
        sid ∉ s.expirations.map (·.1)
  /-- a WAITING signing with a complete non-empty set is pending -/
  e8 : ∀ sid sg atm, s.signings sid = some sg → sg.status = stWaiting → s.attempts sid sg.attempt = some atm →
        atm.assigned ≠ [] → (s.partials sid sg.attempt).length = atm.assigned.length → sid ∈ s.pending
  /-- stored partial signatures come from distinct assigned members; committees have distinct members -/
  p1 : ∀ sid att atm, s.attempts sid att = some atm → (∀ m ∈ s.partials sid att, m ∈ ids atm) ∧
        (s.partials sid att).Nodup ∧ (ids atm).Nodup
  /-- a WAITING signing has its current attempt stored -/
  e5 : ∀ sid sg, s.signings sid = some sg → sg.status = stWaiting → 1 ≤ sg.attempt →
        (s.attempts sid sg.attempt).isSome ∧ (sid, sg.attempt) ∈ s.expirations

/-- fields the invariant reads -/
theorem sinv_of_frame (s s' : State) (h : SInv s) (a : s'.signings = s.signings) (b : s'.attempts = s.attempts)
    (c : s'.partials = s.partials) (d : s'.expirations = s.expirations) (e : s'.pending = s.pending)
    (f : s'.count = s.count) : SInv s' := by
  refine ⟨?_, ?_, ?_, ?_, ?_, ?_, ?_⟩
  · rw [a, b, c, d]; exact h.e1
  · rw [d]; exact h.e2
  · rw [a, b, c, e]; exact h.e4
  · rw [a, b, c, d, f]; exact h.e6
  · rw [a, b, c, e]; exact h.e8
  · rw [b, c]; exact h.p1
  · rw [a, b, d]; exact h.e5

end BandVerif.Signing

namespace BandVerif.Signing

theorem submit_ok (s : State) (sid member : Nat) (signerOk valid : Bool) (h : (submit s sid member signerOk valid).2 = Err.ok) :
    ∃ sg atm, s.signings sid = some sg ∧ sg.status = stWaiting ∧ s.attempts sid sg.attempt = some atm ∧
      member ∈ ids atm ∧ member ∉ s.partials sid sg.attempt ∧ signerOk = true ∧ valid = true ∧
      (submit s sid member signerOk valid).1 = addPartial s sid sg.attempt member atm.assigned.length := by
  unfold submit at h ⊢
  cases he : submitErr s sid member signerOk valid <;> simp only [he] at h ⊢ <;> try (cases h)
  unfold submitErr at he
  cases hs : s.signings sid with
  | none => simp [hs] at he
  | some sg =>
    simp only [hs] at he ⊢
    split at he
    · cases he
    · rename_i hw
      cases ha : s.attempts sid sg.attempt with
      | none => simp [ha] at he
      | some atm =>
        simp only [ha] at he ⊢
        split at he
        · cases he
        · rename_i h1
          split at he
          · cases he
          · rename_i h2
            split at he
            · cases he
            · rename_i h3
              simp only [Bool.or_eq_true, Bool.not_eq_true', not_or, Bool.not_eq_false] at h1
              refine ⟨sg, atm, rfl, by simpa using hw, ha, ?_, by simpa using h2, h1.2, by simpa using h3, rfl⟩
              obtain ⟨x, hx, hxe⟩ := List.any_eq_true.mp h1.1
              exact List.mem_map.mpr ⟨x, hx, by simpa using hxe⟩

theorem submit_err_state (s : State) (sid member : Nat) (signerOk valid : Bool)
    (h : (submit s sid member signerOk valid).2 ≠ Err.ok) : (submit s sid member signerOk valid).1 = s := by
  unfold submit at h ⊢
  cases he : submitErr s sid member signerOk valid <;> simp only [he] at h ⊢
  cases hs : s.signings sid with
  | none => rfl
  | some sg =>
    simp only [hs] at h ⊢
    cases ha : s.attempts sid sg.attempt with
    | none => rfl
    | some atm => simp only [ha] at h; exact absurd rfl h

theorem submit_sinv (s : State) (sid member : Nat) (signerOk valid : Bool) (h : SInv s) :
    SInv (submit s sid member signerOk valid).1 := by
  by_cases hok : (submit s sid member signerOk valid).2 = Err.ok
  · obtain ⟨sg, atm, hs, hw, ha, hmem, hnot, _, _, hst⟩ := submit_ok s sid member signerOk valid hok
    rw [hst]
    have hp1 := h.p1 sid sg.attempt atm ha
    -- the new partial list
    have hps : ∀ i a, (addPartial s sid sg.attempt member atm.assigned.length).partials i a =
        if i = sid ∧ a = sg.attempt then s.partials sid sg.attempt ++ [member] else s.partials i a := by
      intro i a; unfold addPartial; simp only []; split <;> rfl
    have hsig : (addPartial s sid sg.attempt member atm.assigned.length).signings = s.signings := by
      unfold addPartial; simp only []; split <;> rfl
    have hatt : (addPartial s sid sg.attempt member atm.assigned.length).attempts = s.attempts := by
      unfold addPartial; simp only []; split <;> rfl
    have hexp : (addPartial s sid sg.attempt member atm.assigned.length).expirations = s.expirations := by
      unfold addPartial; simp only []; split <;> rfl
    have hcnt : (addPartial s sid sg.attempt member atm.assigned.length).count = s.count := by
      unfold addPartial; simp only []; split <;> rfl
    have hpend : (addPartial s sid sg.attempt member atm.assigned.length).pending =
        if (s.partials sid sg.attempt ++ [member]).length == atm.assigned.length then s.pending ++ [sid] else s.pending := by
      unfold addPartial; simp only []; split <;> rfl
    -- the old set was not complete: the new member is assigned and new
    have hlt : (s.partials sid sg.attempt).length < atm.assigned.length := by
      have hle := nodup_subset_length_le (s.partials sid sg.attempt ++ [member]) (ids atm)
        (List.nodup_append.mpr ⟨hp1.2.1, by simp, by intro a ha' b hb; simp at hb; subst hb; intro e; subst e; exact hnot ha'⟩)
        (by intro x hx; rcases List.mem_append.mp hx with h' | h'
            · exact hp1.1 x h'
            · simp at h'; subst h'; exact hmem)
      simp [ids] at hle; omega
    refine ⟨?_, ?_, ?_, ?_, ?_, ?_, ?_⟩
    · intro i a hia
      rw [hexp] at hia
      obtain ⟨sg', atm', q1, q2, q3, q4⟩ := h.e1 i a hia
      refine ⟨sg', atm', by rw [hsig]; exact q1, q2, by rw [hatt]; exact q3, ?_⟩
      rcases q4 with w | ⟨su, c⟩
      · exact Or.inl w
      · right; refine ⟨su, ?_⟩
        rw [hps]
        have : ¬ (i = sid ∧ a = sg.attempt) := by
          rintro ⟨rfl, rfl⟩
          rw [hs] at q1; cases q1
          rw [hw] at su; cases su
        simp only [this, if_false]; exact c
    · rw [hexp]; exact h.e2
    · intro i hi
      rw [hpend] at hi
      have old : ∀ i, i ∈ s.pending → ∃ sg' atm', (addPartial s sid sg.attempt member atm.assigned.length).signings i = some sg' ∧ sg'.status = stWaiting ∧
          (addPartial s sid sg.attempt member atm.assigned.length).attempts i sg'.attempt = some atm' ∧
          ((addPartial s sid sg.attempt member atm.assigned.length).partials i sg'.attempt).length = atm'.assigned.length := by
        intro i hi
        obtain ⟨sg', atm', q1, q2, q3, q4⟩ := h.e4 i hi
        refine ⟨sg', atm', by rw [hsig]; exact q1, q2, by rw [hatt]; exact q3, ?_⟩
        rw [hps]
        have : ¬ (i = sid ∧ sg'.attempt = sg.attempt) := by
          rintro ⟨rfl, e⟩
          rw [hs] at q1; cases q1
          rw [ha] at q3; cases q3
          omega
        simp only [this, if_false]; exact q4
      split at hi
      · rename_i hfull
        rcases List.mem_append.mp hi with h' | h'
        · exact old i h'
        · simp at h'; subst h'
          refine ⟨sg, atm, by rw [hsig]; exact hs, hw, by rw [hatt]; exact ha, ?_⟩
          rw [hps]; simp only [and_self, if_true]; simpa using hfull
      · exact old i hi
    · intro i hi
      rw [hcnt] at hi
      obtain ⟨q1, q2, q3⟩ := h.e6 i hi
      have hne : i ≠ sid := by intro e; subst e; rw [hs] at q1; cases q1
      refine ⟨by rw [hsig]; exact q1, fun a => ⟨by rw [hatt]; exact (q2 a).1, ?_⟩, by rw [hexp]; exact q3⟩
      rw [hps]; simp only [hne, false_and, if_false]; exact (q2 a).2
    · intro i sg' atm' q1 q2 q3 q4 q5
      rw [hsig] at q1; rw [hatt] at q3; rw [hps] at q5
      rw [hpend]
      by_cases e : i = sid
      · subst e
        rw [hs] at q1; cases q1
        rw [ha] at q3; cases q3
        simp only [and_self, if_true] at q5
        have : ((s.partials i sg.attempt ++ [member]).length == atm.assigned.length) = true := by simpa using q5
        rw [if_pos this]; simp
      · simp only [e, false_and, if_false] at q5
        have := h.e8 i sg' atm' q1 q2 q3 q4 q5
        split
        · exact List.mem_append_left _ this
        · exact this
    · intro i a atm' q
      rw [hatt] at q
      obtain ⟨r1, r2, r3⟩ := h.p1 i a atm' q
      rw [hps]
      by_cases e : i = sid ∧ a = sg.attempt
      · obtain ⟨rfl, rfl⟩ := e
        rw [ha] at q; cases q
        simp only [and_self, if_true]
        refine ⟨?_, ?_, r3⟩
        · intro x hx
          rcases List.mem_append.mp hx with h' | h'
          · exact r1 x h'
          · simp at h'; subst h'; exact hmem
        · exact List.nodup_append.mpr ⟨r2, by simp, by intro a' ha' b hb; simp at hb; subst hb; intro e; subst e; exact hnot ha'⟩
      · simp only [e, if_false]; exact ⟨r1, r2, r3⟩
    · intro i sg' q1 q2 q3
      rw [hsig] at q1
      obtain ⟨r1, r2⟩ := h.e5 i sg' q1 q2 q3
      exact ⟨by rw [hatt]; exact r1, by rw [hexp]; exact r2⟩
  · rw [submit_err_state s sid member signerOk valid hok]; exact h

end BandVerif.Signing
