/- C10 liveness: every signing reaches SUCCESS or FALLEN within a computable number of blocks.
   Part 1: the liveness invariant, what each operation does to the expiry FIFO, and the structure of one end-block. -/
import BandVerif.Lemmas.SigningHist

namespace BandVerif.Signing

/-- expiry height of a scheduled entry (0 when the attempt record is missing: unreachable under `HInv`) -/
def expOf (s : State) (x : Nat × Nat) : Int := ((s.attempts x.1 x.2).map (·.expiredHeight)).getD 0

/-- the FIFO entries that the expiry pass has to get through before (and including) the entry of signing `sid` -/
def upto (sid : Nat) : List (Nat × Nat) → List (Nat × Nat)
  | [] => []
  | x :: r => if x.1 = sid then [x] else x :: upto sid r

/-- liveness invariant: a WAITING signing always has its current attempt scheduled for expiry, and every stored attempt has
    a non-empty committee (so "all assigned members submitted" is never vacuously true) -/
structure Live (s : State) : Prop where
  l1 : ∀ sid sg, s.signings sid = some sg → sg.status = stWaiting → (sid, sg.attempt) ∈ s.expirations
  l2 : ∀ sid att atm, s.attempts sid att = some atm → atm.assigned ≠ []

/-! ### list facts about `upto` -/

theorem upto_subset (sid : Nat) (l : List (Nat × Nat)) : ∀ x ∈ upto sid l, x ∈ l := by
  induction l with
  | nil => intro x hx; cases hx
  | cons y r ih =>
    intro x hx
    simp only [upto] at hx
    split at hx
    · simp only [List.mem_singleton] at hx; subst hx; exact List.mem_cons_self ..
    · rcases List.mem_cons.mp hx with rfl | h
      · exact List.mem_cons_self ..
      · exact List.mem_cons_of_mem _ (ih x h)

theorem upto_append_of_mem (sid : Nat) (l extra : List (Nat × Nat)) (h : sid ∈ l.map (·.1)) :
    upto sid (l ++ extra) = upto sid l := by
  induction l with
  | nil => cases h
  | cons y r ih =>
    simp only [List.cons_append, upto]
    split
    · rfl
    · rename_i hne
      simp only [List.map_cons, List.mem_cons] at h
      rcases h with h | h
      · exact absurd h.symm hne
      · rw [ih h]

/-- the entry at the position where the expiry pass stops lies on the way to any later entry -/
theorem stop_entry_in_upto (sid : Nat) (l : List (Nat × Nat)) (k : Nat) (hn : (l.map (·.1)).Nodup)
    (x e0 : Nat × Nat) (hx : x ∈ l.drop k) (hxs : x.1 = sid) (hk : l[k]? = some e0) : e0 ∈ upto sid l := by
  induction l generalizing k with
  | nil => simp at hk
  | cons y r ih =>
    simp only [List.map_cons, List.nodup_cons] at hn
    cases k with
    | zero =>
      simp only [List.getElem?_cons_zero, Option.some.injEq] at hk
      subst hk
      simp only [upto]
      split
      · exact List.mem_singleton.mpr rfl
      · exact List.mem_cons_self ..
    | succ k =>
      simp only [List.drop_succ_cons] at hx
      simp only [List.getElem?_cons_succ] at hk
      simp only [upto]
      split
      · rename_i hy
        exfalso
        apply hn.1
        rw [hy, ← hxs]
        exact List.mem_map.mpr ⟨x, List.mem_of_mem_drop hx, rfl⟩
      · exact List.mem_cons_of_mem _ (ih k hn.2 hx hk)

/-- dropping a consumed prefix that does not contain the entry of `sid` only shortens the way to it -/
theorem upto_drop_subset (sid : Nat) (l : List (Nat × Nat)) (k : Nat) (hn : (l.map (·.1)).Nodup)
    (x : Nat × Nat) (hx : x ∈ l.drop k) (hxs : x.1 = sid) : ∀ y ∈ upto sid (l.drop k), y ∈ upto sid l := by
  induction l generalizing k with
  | nil => intro y hy; simp [upto] at hy
  | cons z r ih =>
    simp only [List.map_cons, List.nodup_cons] at hn
    cases k with
    | zero => intro y hy; simpa using hy
    | succ k =>
      simp only [List.drop_succ_cons] at hx ⊢
      intro y hy
      simp only [upto]
      split
      · rename_i hz
        exfalso
        apply hn.1
        rw [hz, ← hxs]
        exact List.mem_map.mpr ⟨x, List.mem_of_mem_drop hx, rfl⟩
      · exact List.mem_cons_of_mem _ (ih k hn.2 hx y hy)

/-! ### a successful round start -/

theorem initiate_ok_facts (s : State) (sid : Nat) (c : List Nat) (height : Int) (hok : (initiate s sid c height).2 = Err.ok) :
    ∃ sg, s.signings sid = some sg ∧ sg.attempt + 1 ≤ s.maxAttempt ∧ headBad s c = false := by
  unfold initiate at hok
  cases hs : s.signings sid with
  | none => simp [hs] at hok
  | some sg =>
    simp only [hs] at hok
    by_cases h1 : sg.attempt + 1 > s.maxAttempt
    · simp [h1] at hok
    · by_cases h2 : s.threshold > (available s).length
      · simp [h1, h2] at hok
      · by_cases h3 : headBad s c = true
        · simp [h1, h2, h3] at hok
        · exact ⟨sg, rfl, by omega, by simpa using h3⟩

/-- with a non-empty committee none of whose members lacks a queued pair, the assignment is non-empty -/
theorem dequeueAll_ne_nil (s : State) (c : List Nat) (hc : c ≠ []) (hb : headBad s c = false) : (dequeueAll s.queues c).1 ≠ [] := by
  cases c with
  | nil => exact absurd rfl hc
  | cons m rest =>
    simp only [headBad, List.any_cons, Bool.or_eq_false_iff] at hb
    cases hq : s.queues m with
    | nil => rw [hq] at hb; simp at hb
    | cons t ts =>
      simp only [dequeueAll, hq]
      exact List.cons_ne_nil _ _

/-! ### what an operation does to the FIFO: it may append entries (with fresh attempt records); nothing else changes -/

/-- `s'` extends the FIFO of `s` by `extra`, whose attempt records expire at `E`; all other attempt records are as in `s` -/
structure QExt (s s' : State) (extra : List (Nat × Nat)) (E : Int) : Prop where
  exp : s'.expirations = s.expirations ++ extra
  att : ∀ i a, (i, a) ∉ extra → s'.attempts i a = s.attempts i a
  new : ∀ x ∈ extra, ∃ atm, s'.attempts x.1 x.2 = some atm ∧ atm.expiredHeight = E ∧ atm.assigned ≠ []
  per : s'.signingPeriod = s.signingPeriod
  max : s'.maxAttempt = s.maxAttempt

theorem QExt.refl (s : State) (E : Int) : QExt s s [] E :=
  ⟨by simp, fun _ _ _ => rfl, (fun _ h => by cases h), rfl, rfl⟩

theorem QExt.of_frame (s s' : State) (E : Int) (a : s'.expirations = s.expirations) (b : s'.attempts = s.attempts)
    (c : s'.signingPeriod = s.signingPeriod) (d : s'.maxAttempt = s.maxAttempt) : QExt s s' [] E :=
  ⟨by rw [a]; simp, (fun _ _ _ => by rw [b]), (fun _ h => by cases h), c, d⟩

theorem QExt.trans {s s' s'' : State} {e1 e2 : List (Nat × Nat)} {E : Int} (h1 : QExt s s' e1 E) (h2 : QExt s' s'' e2 E)
    (hd : ∀ x ∈ e1, x ∉ e2) : QExt s s'' (e1 ++ e2) E := by
  refine ⟨by rw [h2.exp, h1.exp, List.append_assoc], ?_, ?_, by rw [h2.per, h1.per], by rw [h2.max, h1.max]⟩
  · intro i a hn
    simp only [List.mem_append, not_or] at hn
    rw [h2.att i a hn.2, h1.att i a hn.1]
  · intro x hx
    rcases List.mem_append.mp hx with h | h
    · obtain ⟨atm, q1, q2, q3⟩ := h1.new x h
      exact ⟨atm, by rw [h2.att x.1 x.2 (hd x h)]; exact q1, q2, q3⟩
    · exact h2.new x h

/-- a successful round start appends exactly the new attempt -/
theorem initiated_qext (s : State) (sid : Nat) (sg : Sig) (c : List Nat) (height : Int) (hc : c ≠ []) (hb : headBad s c = false) :
    QExt s (initiated s sid sg c height) [(sid, sg.attempt + 1)] (height + s.signingPeriod) := by
  refine ⟨rfl, ?_, ?_, rfl, rfl⟩
  · intro i a hn
    simp only [List.mem_singleton, Prod.mk.injEq, not_and] at hn
    simp only [initiated]
    split
    · rename_i h; exact absurd h.2 (hn h.1)
    · rfl
  · intro x hx
    simp only [List.mem_singleton] at hx
    subst hx
    exact ⟨{ expiredHeight := height + s.signingPeriod, assigned := (dequeueAll s.queues c).1 }, by simp [initiated], rfl,
      dequeueAll_ne_nil s c hc hb⟩

/-- one retry: a new attempt is appended, or the signing falls and the FIFO is untouched -/
theorem retryOne_qext (s : State) (sid : Nat) (c : List Nat) (height : Int) (hc : c ≠ []) (sg : Sig) (hs : s.signings sid = some sg) :
    (QExt s (retryOne s sid c height) [(sid, sg.attempt + 1)] (height + s.signingPeriod) ∧ sg.attempt + 1 ≤ s.maxAttempt ∧
      (retryOne s sid c height).signings sid = some { status := stWaiting, attempt := sg.attempt + 1 }) ∨
    (QExt s (retryOne s sid c height) [] (height + s.signingPeriod) ∧
      (retryOne s sid c height).signings sid = some { sg with status := stFallen }) := by
  rcases retryOne_cases s sid c height with ⟨sg0, hs0, hok, e⟩ | ⟨sg0, hs0, _, e⟩ | ⟨hn, _⟩
  · rw [hs] at hs0; cases hs0
    obtain ⟨sg1, hs1, hmax, hb⟩ := initiate_ok_facts s sid c height hok
    rw [hs] at hs1; cases hs1
    left
    rw [e]
    exact ⟨initiated_qext s sid sg c height hc hb, hmax, by simp [initiated]⟩
  · rw [hs] at hs0; cases hs0
    right
    rw [e]
    exact ⟨QExt.of_frame _ _ _ rfl rfl rfl rfl, by simp [fallen, onFailed]⟩
  · rw [hs] at hn; cases hn

/-- what the retries of one end-block do: every timed-out signing gets a new scheduled attempt or falls -/
theorem retryAll_struct (committee : Nat → List Nat) (height : Int) (hcne : ∀ i, committee i ≠ []) (l : List Nat) (s : State)
    (hl : l.Nodup) (hex : ∀ t ∈ l, ∃ sg, s.signings t = some sg) :
    ∃ extra, QExt s (retryAll committee height l s) extra (height + s.signingPeriod) ∧ (∀ x ∈ extra, x.1 ∈ l) ∧
      (∀ t ∈ l, ∀ sg, s.signings t = some sg →
        ((retryAll committee height l s).signings t = some { status := stWaiting, attempt := sg.attempt + 1 } ∧
          (t, sg.attempt + 1) ∈ extra ∧ sg.attempt + 1 ≤ s.maxAttempt) ∨
        (retryAll committee height l s).signings t = some { sg with status := stFallen }) := by
  induction l generalizing s with
  | nil => exact ⟨[], QExt.refl s _, (fun _ h => by cases h), (fun _ h => by cases h)⟩
  | cons sid rest ih =>
    have hn := List.nodup_cons.mp hl
    obtain ⟨sg0, hs0⟩ := hex sid (List.mem_cons_self ..)
    obtain ⟨_, _, _, f4⟩ := retryOne_frame s sid (committee sid) height
    have hex' : ∀ t ∈ rest, ∃ sg, (retryOne s sid (committee sid) height).signings t = some sg := by
      intro t ht
      have hne : t ≠ sid := by intro e; subst e; exact hn.1 ht
      rw [f4 t hne]; exact hex t (List.mem_cons_of_mem _ ht)
    obtain ⟨e2, q2, m2, r2⟩ := ih (retryOne s sid (committee sid) height) hn.2 hex'
    simp only [retryAll]
    have hsid_after : (retryAll committee height rest (retryOne s sid (committee sid) height)).signings sid =
        (retryOne s sid (committee sid) height).signings sid := retryAll_signing_other committee height rest _ sid hn.1
    rcases retryOne_qext s sid (committee sid) height (hcne sid) sg0 hs0 with ⟨q1, hmax, hsig⟩ | ⟨q1, hsig⟩
    · have hper := q1.per
      have hmx := q1.max
      rw [hper] at q2
      refine ⟨[(sid, sg0.attempt + 1)] ++ e2, QExt.trans q1 q2 ?_, ?_, ?_⟩
      · intro x hx hx2
        simp only [List.mem_singleton] at hx
        subst hx
        exact hn.1 (m2 _ hx2)
      · intro x hx
        rcases List.mem_append.mp hx with h | h
        · simp only [List.mem_singleton] at h; subst h; exact List.mem_cons_self ..
        · exact List.mem_cons_of_mem _ (m2 x h)
      · intro t ht sg hs
        rcases List.mem_cons.mp ht with rfl | hr
        · rw [hs0] at hs; cases hs
          left
          exact ⟨by rw [hsid_after]; exact hsig, by simp, hmax⟩
        · have hne : t ≠ sid := by intro e; subst e; exact hn.1 hr
          rcases r2 t hr sg (by rw [f4 t hne]; exact hs) with ⟨a1, a2, a3⟩ | a1
          · left; exact ⟨a1, List.mem_append_right _ a2, by rw [hmx] at a3; exact a3⟩
          · right; exact a1
    · have hper := q1.per
      have hmx := q1.max
      rw [hper] at q2
      refine ⟨e2, by simpa using QExt.trans q1 q2 (fun _ h => by cases h), (fun x hx => List.mem_cons_of_mem _ (m2 x hx)), ?_⟩
      intro t ht sg hs
      rcases List.mem_cons.mp ht with rfl | hr
      · rw [hs0] at hs; cases hs
        right
        rw [hsid_after]; exact hsig
      · have hne : t ≠ sid := by intro e; subst e; exact hn.1 hr
        rcases r2 t hr sg (by rw [f4 t hne]; exact hs) with ⟨a1, a2, a3⟩ | a1
        · left; exact ⟨a1, a2, by rw [hmx] at a3; exact a3⟩
        · right; exact a1

/-! ### the parameters are not touched by the end-block phases -/

theorem payAll_params (fee : Coins) (l : List Nat) (s : State) :
    (payAll s fee l).signingPeriod = s.signingPeriod ∧ (payAll s fee l).maxAttempt = s.maxAttempt := by
  induction l generalizing s with
  | nil => exact ⟨rfl, rfl⟩
  | cons m rest ih => simp only [payAll]; exact ih _

theorem onCompleted_params (s : State) (sid : Nat) (assigned : List Nat) :
    (onCompleted s sid assigned).signingPeriod = s.signingPeriod ∧ (onCompleted s sid assigned).maxAttempt = s.maxAttempt := by
  unfold onCompleted
  simp only []
  split
  · exact ⟨rfl, rfl⟩
  · split
    · exact ⟨rfl, rfl⟩
    · split
      · exact ⟨rfl, rfl⟩
      · exact payAll_params _ _ _

theorem aggregateAll_params (l : List Nat) (s : State) :
    (aggregateAll s l).signingPeriod = s.signingPeriod ∧ (aggregateAll s l).maxAttempt = s.maxAttempt := by
  induction l generalizing s with
  | nil => exact ⟨rfl, rfl⟩
  | cons sid rest ih =>
    simp only [aggregateAll]
    split
    · exact ih _
    · obtain ⟨a, b⟩ := ih (onCompleted { s with signings := fun i => if i = sid then some { (‹Sig›) with status := stSuccess } else s.signings i } sid
        (((s.attempts sid (‹Sig›).attempt).map (·.assigned.map (·.1))).getD []))
      obtain ⟨c, d⟩ := onCompleted_params { s with signings := fun i => if i = sid then some { (‹Sig›) with status := stSuccess } else s.signings i } sid
        (((s.attempts sid (‹Sig›).attempt).map (·.assigned.map (·.1))).getD [])
      exact ⟨a.trans c, b.trans d⟩

theorem consumeHead_more (s : State) (sid att : Nat) (sg : Sig) (atm : Attempt) (nowNs : Int) :
    (consumeHead s sid att sg atm nowNs).signingPeriod = s.signingPeriod ∧ (consumeHead s sid att sg atm nowNs).maxAttempt = s.maxAttempt ∧
    (∀ i a, i ≠ sid → (consumeHead s sid att sg atm nowNs).partials i a = s.partials i a) := by
  simp only [consumeHead]
  split
  · obtain ⟨_, _, _, _, _, t6, _, _, _, t10, t11, _⟩ := onTimeout_frame sid sg.attempt nowNs
      (((s.attempts sid sg.attempt).map fun c => (c.assigned.map (·.1)).filter fun m => !(s.partials sid sg.attempt).contains m).getD []) s
    refine ⟨t11, t10, ?_⟩
    intro i a hne
    simp only [hne, false_and, if_false]
    rw [t6]
  · refine ⟨rfl, rfl, ?_⟩
    intro i a hne
    simp only [hne, false_and, if_false]

theorem expireGo_params (height nowNs : Int) (l : List (Nat × Nat)) (s : State) (acc : List Nat) (n : Nat) :
    (expireGo height nowNs l s acc n).1.signingPeriod = s.signingPeriod ∧ (expireGo height nowNs l s acc n).1.maxAttempt = s.maxAttempt := by
  induction l generalizing s acc n with
  | nil => exact ⟨rfl, rfl⟩
  | cons e rest ih =>
    obtain ⟨sid, att⟩ := e
    cases hs : s.signings sid with
    | none => simp [expireGo, hs]
    | some sg =>
      cases ha : s.attempts sid att with
      | none => simp [expireGo, hs, ha]
      | some atm =>
        by_cases hexp : atm.expiredHeight > height
        · simp [expireGo, hs, ha, hexp]
        · rw [expireGo_consume height nowNs sid att rest s acc n sg atm hs ha hexp]
          obtain ⟨a, b⟩ := ih (consumeHead s sid att sg atm nowNs)
            (if (s.partials sid att).length ≠ atm.assigned.length then acc ++ [sid] else acc) (n + 1)
          obtain ⟨c, d, _⟩ := consumeHead_more s sid att sg atm nowNs
          exact ⟨a.trans c, b.trans d⟩

/-- every consumed entry whose partial-signature set is incomplete is reported as timed out -/
theorem expireGo_timedout_all (height nowNs : Int) (l : List (Nat × Nat)) (s : State) (acc : List Nat) (n : Nat)
    (hnd : (l.map (·.1)).Nodup) (i a : Nat) (atm : Attempt)
    (hm : (i, a) ∈ l.take ((expireGo height nowNs l s acc n).2.2 - n)) (ha : s.attempts i a = some atm)
    (hinc : (s.partials i a).length ≠ atm.assigned.length) : i ∈ (expireGo height nowNs l s acc n).2.1 := by
  induction l generalizing s acc n with
  | nil => simp at hm
  | cons e rest ih =>
    obtain ⟨sid, att⟩ := e
    simp only [List.map_cons, List.nodup_cons] at hnd
    cases hs : s.signings sid with
    | none => simp [expireGo, hs] at hm
    | some sg =>
      cases ha0 : s.attempts sid att with
      | none => simp [expireGo, hs, ha0] at hm
      | some atm0 =>
        by_cases hexp : atm0.expiredHeight > height
        · simp [expireGo, hs, ha0, hexp] at hm
        · rw [expireGo_consume height nowNs sid att rest s acc n sg atm0 hs ha0 hexp] at hm ⊢
          obtain ⟨k, sub, _, hk, _, _, _, _, _, _, hacc, _, _⟩ := expireGo_core height nowNs rest (consumeHead s sid att sg atm0 nowNs)
            (if (s.partials sid att).length ≠ atm0.assigned.length then acc ++ [sid] else acc) (n + 1)
          rw [hk] at hm
          have e1 : n + 1 + k - n = k + 1 := by omega
          rw [e1, List.take_succ_cons] at hm
          rcases List.mem_cons.mp hm with heq | hr
          · simp only [Prod.mk.injEq] at heq
            obtain ⟨rfl, rfl⟩ := heq
            rw [ha0] at ha; cases ha
            rw [hacc, if_pos hinc]
            simp
          · have hmem : (i, a) ∈ rest := List.mem_of_mem_take hr
            have hne : i ≠ sid := by intro e; subst e; exact hnd.1 (List.mem_map.mpr ⟨(i, a), hmem, rfl⟩)
            apply ih (consumeHead s sid att sg atm0 nowNs) _ (n + 1) hnd.2
            · rw [hk]
              have e2 : n + 1 + k - (n + 1) = k := by omega
              rw [e2]; exact hr
            · rw [(consumeHead_keep s sid att sg atm0 nowNs i a hne).1]; exact ha
            · rw [(consumeHead_more s sid att sg atm0 nowNs).2.2 i a hne]; exact hinc

/-! ### the structure of one end-block -/

/-- the state after phase A (pending signings aggregated) -/
def aggd (s : State) : State := { aggregateAll s s.pending with pending := [] }

theorem endBlock_eq (s : State) (committee : Nat → List Nat) (height nowNs : Int) :
    endBlock s committee height nowNs =
      retryAll committee height (expireGo height nowNs (aggd s).expirations (aggd s) [] 0).2.1
        { (expireGo height nowNs (aggd s).expirations (aggd s) [] 0).1 with
          expirations := (expireGo height nowNs (aggd s).expirations (aggd s) [] 0).1.expirations.drop
            (expireGo height nowNs (aggd s).expirations (aggd s) [] 0).2.2 } := by
  unfold endBlock aggd
  rfl

theorem nodup_of_map_fst {l : List (Nat × Nat)} (h : (l.map (·.1)).Nodup) : l.Nodup := by
  induction l with
  | nil => exact List.nodup_nil
  | cons x r ih =>
    simp only [List.map_cons, List.nodup_cons] at h ⊢
    exact ⟨fun hx => h.1 (List.mem_map.mpr ⟨x, hx, rfl⟩), ih h.2⟩

theorem endBlock_struct (s : State) (committee : Nat → List Nat) (height nowNs : Int)
    (hcne : ∀ i, committee i ≠ []) (h : HInv s) (lv : Live s) :
    ∃ n extra,
      (endBlock s committee height nowNs).expirations = s.expirations.drop n ++ extra ∧
      (∀ i a, (i, a) ∈ s.expirations.drop n → (endBlock s committee height nowNs).attempts i a = s.attempts i a) ∧
      (∀ x ∈ extra, ∃ atm, (endBlock s committee height nowNs).attempts x.1 x.2 = some atm ∧
        atm.expiredHeight = height + s.signingPeriod ∧ atm.assigned ≠ []) ∧
      (∀ i a sg, (i, a) ∈ s.expirations.take n → s.signings i = some sg → sg.status = stWaiting → i ∉ s.pending →
        ((endBlock s committee height nowNs).signings i = some { status := stWaiting, attempt := sg.attempt + 1 } ∧
          (i, sg.attempt + 1) ∈ extra ∧ sg.attempt + 1 ≤ s.maxAttempt) ∨
        (endBlock s committee height nowNs).signings i = some { sg with status := stFallen }) ∧
      (∀ i a, (i, a) ∈ s.expirations → (∀ x ∈ upto i s.expirations, expOf s x ≤ height) → (i, a) ∈ s.expirations.take n) ∧
      ((endBlock s committee height nowNs).signingPeriod = s.signingPeriod ∧ (endBlock s committee height nowNs).maxAttempt = s.maxAttempt) ∧
      (∀ i a atm, (endBlock s committee height nowNs).attempts i a = some atm → s.attempts i a = some atm ∨ (i, a) ∈ extra) := by
  have H2 : HInv (aggd s) := aggregated_hinv s h
  obtain ⟨a1, a2, a3, _, _, a6⟩ := aggregateAll_core s.pending s
  have b1 : (aggd s).attempts = s.attempts := a1
  have b2 : (aggd s).partials = s.partials := a2
  have b3 : (aggd s).expirations = s.expirations := a3
  have b6 : ∀ i, (aggd s).signings i = (s.signings i).map (fun sg => if i ∈ s.pending then { sg with status := stSuccess } else sg) := a6
  obtain ⟨bp, bm⟩ := aggregateAll_params s.pending s
  have bp' : (aggd s).signingPeriod = s.signingPeriod := bp
  have bm' : (aggd s).maxAttempt = s.maxAttempt := bm
  obtain ⟨k, sub, _, hk, c3, c4, _, _, c7, _, _, _, _⟩ := expireGo_core height nowNs (aggd s).expirations (aggd s) [] 0
  obtain ⟨_, e2, _, _, e5, e6, e7⟩ := expired_hinv (aggd s) H2 rfl height nowNs
  obtain ⟨cp, cm⟩ := expireGo_params height nowNs (aggd s).expirations (aggd s) [] 0
  rw [endBlock_eq]
  generalize hr : expireGo height nowNs (aggd s).expirations (aggd s) [] 0 = r at *
  have hn : r.2.2 = k := by omega
  obtain ⟨extra, q, m, rr⟩ := retryAll_struct committee height hcne r.2.1
    { r.1 with expirations := r.1.expirations.drop r.2.2 } e2
    (fun t ht => by obtain ⟨sg, w1, _⟩ := e7 t ht; exact ⟨sg, by show r.1.signings t = some sg; rw [e5]; exact w1⟩)
  have hnd : s.expirations.Nodup := nodup_of_map_fst h.h2
  have notextra : ∀ i a, (i, a) ∈ s.expirations.drop r.2.2 → (i, a) ∉ extra := by
    intro i a hd hx
    have := e6 i (m _ hx)
    apply this
    show i ∈ (r.1.expirations.drop r.2.2).map (·.1)
    rw [c4, b3]
    exact List.mem_map.mpr ⟨(i, a), hd, rfl⟩
  refine ⟨r.2.2, extra, ?_, ?_, ?_, ?_, ?_, ?_, ?_⟩
  · rw [q.exp]; show r.1.expirations.drop r.2.2 ++ extra = _; rw [c4, b3]
  · intro i a hd
    rw [q.att i a (notextra i a hd)]
    show r.1.attempts i a = s.attempts i a
    rw [c7 i a, b3, if_neg (by rw [← hn]; exact mem_drop_not_take _ _ hnd _ hd), b1]
  · intro x hx
    obtain ⟨atm, w1, w2, w3⟩ := q.new x hx
    refine ⟨atm, w1, ?_, w3⟩
    rw [w2]
    show height + ((r.1.signingPeriod : Nat) : Int) = _
    rw [cp, bp']
  · intro i a sg hta hs hw hp
    obtain ⟨sg0, atm, w1, w2, w3, _⟩ := h.h1 i a (List.mem_of_mem_take hta)
    rw [hs] at w1; cases w1
    have hs2 : (aggd s).signings i = some sg := by rw [b6 i, hs]; simp [hp]
    have hinc : ((aggd s).partials i a).length ≠ atm.assigned.length := by
      intro hcomp
      have := H2.h6 i sg atm hs2 hw (by rw [b1, ← w2]; exact w3) (lv.l2 i a atm w3) (by rw [← w2]; exact hcomp)
      simp [aggd] at this
    have hto : i ∈ r.2.1 := by
      have := expireGo_timedout_all height nowNs (aggd s).expirations (aggd s) [] 0 H2.h2 i a atm
        (by rw [hr, b3]; simpa using hta) (by rw [b1]; exact w3) hinc
      rw [hr] at this; exact this
    have hs4 : ({ r.1 with expirations := r.1.expirations.drop r.2.2 } : State).signings i = some sg := by
      show r.1.signings i = some sg; rw [e5]; exact hs2
    rcases rr i hto sg hs4 with ⟨x1, x2, x3⟩ | x1
    · left
      refine ⟨x1, x2, ?_⟩
      have : ({ r.1 with expirations := r.1.expirations.drop r.2.2 } : State).maxAttempt = s.maxAttempt := by
        show r.1.maxAttempt = _; rw [cm, bm']
      rw [this] at x3; exact x3
    · right; exact x1
  · intro i a hm hall
    rw [← List.take_append_drop r.2.2 s.expirations] at hm
    rcases List.mem_append.mp hm with hh | hh
    · exact hh
    · exfalso
      obtain ⟨_, _, c3'⟩ := expire_consumes_exactly_expired_prefix (aggd s) H2 height nowNs
      have hcons : consumed height nowNs (aggd s).expirations (aggd s) = r.2.2 := by unfold consumed; rw [hr]
      rw [hcons, b3] at c3'
      cases hd : s.expirations.drop r.2.2 with
      | nil => rw [hd] at hh; cases hh
      | cons e0 rest0 =>
        obtain ⟨i0, a0⟩ := e0
        have hk0 : s.expirations[r.2.2]? = some (i0, a0) := by
          have := List.getElem?_drop (xs := s.expirations) (i := r.2.2) (j := 0)
          rw [hd] at this
          simpa using this.symm
        obtain ⟨atm0, w1, w2⟩ := c3' i0 a0 hk0
        have hin := stop_entry_in_upto i s.expirations r.2.2 h.h2 (i, a) (i0, a0) hh rfl hk0
        have := hall (i0, a0) hin
        unfold expOf at this
        rw [b1] at w1
        simp only [w1, Option.map_some, Option.getD_some] at this
        omega
  · constructor
    · rw [q.per]; show r.1.signingPeriod = _; rw [cp, bp']
    · rw [q.max]; show r.1.maxAttempt = _; rw [cm, bm']
  · intro i a atm hat
    by_cases hx : (i, a) ∈ extra
    · right; exact hx
    · left
      rw [q.att i a hx] at hat
      have hat' : r.1.attempts i a = some atm := hat
      rw [c7 i a] at hat'
      split at hat'
      · cases hat'
      · rw [b1] at hat'; exact hat'

/-! ### the operations other than the end-block -/

theorem submit_qframe (s : State) (sid member : Nat) (signerOk valid : Bool) :
    (submit s sid member signerOk valid).1.expirations = s.expirations ∧ (submit s sid member signerOk valid).1.attempts = s.attempts ∧
    (submit s sid member signerOk valid).1.signingPeriod = s.signingPeriod ∧ (submit s sid member signerOk valid).1.maxAttempt = s.maxAttempt ∧
    (submit s sid member signerOk valid).1.signings = s.signings := by
  unfold submit
  cases submitErr s sid member signerOk valid <;> simp only [] <;> try exact ⟨trivial, trivial, trivial, trivial, trivial⟩
  cases s.signings sid with
  | none => exact ⟨rfl, rfl, rfl, rfl, rfl⟩
  | some sg =>
    simp only []
    cases s.attempts sid sg.attempt with
    | none => exact ⟨rfl, rfl, rfl, rfl, rfl⟩
    | some atm =>
      simp only [addPartial]
      split <;> exact ⟨rfl, rfl, rfl, rfl, rfl⟩

theorem activate_qframe (s : State) (m : Nat) (nowNs : Int) :
    (activate s m nowNs).1.expirations = s.expirations ∧ (activate s m nowNs).1.attempts = s.attempts ∧
    (activate s m nowNs).1.signingPeriod = s.signingPeriod ∧ (activate s m nowNs).1.maxAttempt = s.maxAttempt ∧
    (activate s m nowNs).1.signings = s.signings := by
  unfold activate
  (repeat' split) <;> exact ⟨rfl, rfl, rfl, rfl, rfl⟩

theorem enqueue_qframe (s : State) (m k : Nat) :
    (enqueue s m k).1.expirations = s.expirations ∧ (enqueue s m k).1.attempts = s.attempts ∧
    (enqueue s m k).1.signingPeriod = s.signingPeriod ∧ (enqueue s m k).1.maxAttempt = s.maxAttempt ∧
    (enqueue s m k).1.signings = s.signings := by
  unfold enqueue
  split <;> exact ⟨rfl, rfl, rfl, rfl, rfl⟩

/-- tss RequestSigning: nothing happens, or attempt 1 of the next signing id is appended to the FIFO -/
theorem tssRequest_qext (s : State) (c : List Nat) (height : Int) (hc : c ≠ []) :
    ((tssRequest s c height).1 = s) ∨
    (QExt s (tssRequest s c height).1 [(s.count + 1, 1)] (height + s.signingPeriod) ∧
      (tssRequest s c height).1.signings (s.count + 1) = some { status := stWaiting, attempt := 1 } ∧ 1 ≤ s.maxAttempt ∧
      (tssRequest s c height).2 = Err.ok) := by
  rw [tssRequest_eq]
  by_cases hok : (initiate (fresh s) (s.count + 1) c height).2 = Err.ok
  · rw [if_pos hok]
    right
    obtain ⟨sg, hs, hmx, hb⟩ := initiate_ok_facts _ _ c height hok
    have hsg : sg = { status := stWaiting, attempt := 0 } := by
      simp only [fresh, if_true, Option.some.injEq] at hs
      exact hs.symm
    subst hsg
    rcases initiate_cases (fresh s) (s.count + 1) c height with ⟨hne, _⟩ | ⟨sg', hs', _, he⟩
    · exact absurd hok hne
    · rw [hs] at hs'; cases hs'
      show QExt s (initiate (fresh s) (s.count + 1) c height).1 _ _ ∧ (initiate (fresh s) (s.count + 1) c height).1.signings _ = _ ∧ _
      rw [he]
      have q := initiated_qext (fresh s) (s.count + 1) { status := stWaiting, attempt := 0 } c height hc hb
      refine ⟨⟨q.exp, q.att, q.new, q.per, q.max⟩, by simp [initiated], by simpa [fresh] using hmx, rfl⟩
  · rw [if_neg hok]
    left; rfl

/-- a signing request: nothing happens to the FIFO, or the attempt 1 of the next signing id is appended -/
theorem request_qext (s : State) (sender : Nat) (auth : Bool) (limit : Coins) (c : List Nat) (height : Int) (hc : c ≠ []) :
    ((request s sender auth limit c height).1 = s) ∨
    (QExt s (request s sender auth limit c height).1 [(s.count + 1, 1)] (height + s.signingPeriod) ∧
      (request s sender auth limit c height).1.signings (s.count + 1) = some { status := stWaiting, attempt := 1 } ∧
      1 ≤ s.maxAttempt) := by
  have hcount : (escrowed s sender auth).count = s.count := by unfold escrowed; split <;> rfl
  have hexp : (escrowed s sender auth).expirations = s.expirations := by unfold escrowed; split <;> rfl
  have hatt : (escrowed s sender auth).attempts = s.attempts := by unfold escrowed; split <;> rfl
  have hper : (escrowed s sender auth).signingPeriod = s.signingPeriod := by unfold escrowed; split <;> rfl
  have hmax : (escrowed s sender auth).maxAttempt = s.maxAttempt := by unfold escrowed; split <;> rfl
  have ht := tssRequest_qext (escrowed s sender auth) c height hc
  unfold request
  cases requestErr s sender auth limit <;> simp only [] <;> try exact Or.inl trivial
  cases hr : tssRequest (escrowed s sender auth) c height with
  | mk s2 e =>
    rw [hr] at ht
    simp only [] at ht
    rcases ht with ht | ⟨q, hsig, hmx, hokk⟩
    · cases e <;> simp only [] <;> first | exact Or.inl trivial | skip
      -- tssRequest returned its input state together with `.ok`: impossible, a successful request creates the record
      left
      exfalso
      have := tssRequest_eq (escrowed s sender auth) c height
      rw [hr] at this
      by_cases hok : (initiate (fresh (escrowed s sender auth)) ((escrowed s sender auth).count + 1) c height).2 = Err.ok
      · rw [if_pos hok] at this
        rcases initiate_cases (fresh (escrowed s sender auth)) ((escrowed s sender auth).count + 1) c height with ⟨hne, _⟩ | ⟨sg', _, _, he⟩
        · exact hne hok
        · have h1 : s2 = (initiate (fresh (escrowed s sender auth)) ((escrowed s sender auth).count + 1) c height).1 := by
            have := congrArg Prod.fst this; simpa using this
          rw [he, ht] at h1
          have := congrArg State.count h1
          simp [initiated, fresh] at this
      · rw [if_neg hok] at this
        have := congrArg Prod.snd this
        simp only [] at this
        exact hok this.symm
    · subst hokk
      simp only []
      right
      rw [hcount] at q hsig
      rw [hper] at q
      rw [hmax] at hmx
      refine ⟨⟨?_, ?_, ?_, ?_, ?_⟩, ?_, hmx⟩
      · show s2.expirations = _; rw [q.exp, hexp]
      · intro i a hn; show s2.attempts i a = _; rw [q.att i a hn, hatt]
      · intro x hx; exact q.new x hx
      · show s2.signingPeriod = _; rw [q.per, hper]
      · show s2.maxAttempt = _; rw [q.max, hmax]
      · show s2.signings (s.count + 1) = _; exact hsig

/-! ### the invariants under a FIFO extension -/

theorem live_of_qext {s s' : State} {extra : List (Nat × Nat)} {E : Int} (q : QExt s s' extra E) (lv : Live s)
    (hsig : ∀ i sg', s'.signings i = some sg' → sg'.status = stWaiting → s.signings i = some sg' ∨ (i, sg'.attempt) ∈ extra) : Live s' := by
  constructor
  · intro i sg' hs hw
    rw [q.exp]
    rcases hsig i sg' hs hw with h | h
    · exact List.mem_append_left _ (lv.l1 i sg' h hw)
    · exact List.mem_append_right _ h
  · intro i a atm hat
    by_cases hx : (i, a) ∈ extra
    · obtain ⟨atm', w1, _, w3⟩ := q.new (i, a) hx
      rw [hat] at w1; cases w1; exact w3
    · rw [q.att i a hx] at hat; exact lv.l2 i a atm hat

theorem expOf_qext {s s' : State} {extra : List (Nat × Nat)} {E : Int} (q : QExt s s' extra E) (x : Nat × Nat) :
    (x ∉ extra → expOf s' x = expOf s x) ∧ (x ∈ extra → expOf s' x = E) := by
  constructor
  · intro hx; unfold expOf; rw [q.att x.1 x.2 hx]
  · intro hx
    obtain ⟨atm, w1, w2, _⟩ := q.new x hx
    unfold expOf; rw [w1]; simpa using w2

theorem bnd_of_qext {s s' : State} {extra : List (Nat × Nat)} {E B : Int} (q : QExt s s' extra E)
    (hb : ∀ x ∈ s.expirations, expOf s x ≤ B) (hE : E ≤ B) : ∀ x ∈ s'.expirations, expOf s' x ≤ B := by
  intro x hx
  by_cases he : x ∈ extra
  · rw [(expOf_qext q x).2 he]; exact hE
  · rw [(expOf_qext q x).1 he]
    rw [q.exp] at hx
    rcases List.mem_append.mp hx with h | h
    · exact hb x h
    · exact absurd h he

/-! ### the global invariant of a run and the progress measure of one signing -/

/-- what holds of every state of a well-formed run at (last finished) block height `H`: the history invariant, the liveness
    invariant, every scheduled expiry is at most `H + 1 + P`, the parameters stay within `P` / `M`, statuses are the three -/
structure G (P M : Nat) (s : State) (H : Int) : Prop where
  hinv : HInv s
  live : Live s
  bnd : ∀ x ∈ s.expirations, expOf s x ≤ H + 1 + P
  per : s.signingPeriod ≤ P
  mx : s.maxAttempt ≤ M
  rng : ∀ sid sg, s.signings sid = some sg → sg.status = stWaiting ∨ sg.status = stSuccess ∨ sg.status = stFallen

/-- progress measure of signing `sid` towards the deadline `D`: while it is WAITING at attempt `a`, every FIFO entry the
    expiry pass must get through to reach it expires by some `D0`, and `max D0 (H+1) + (M − a)·P ≤ D` -/
def Prog (P M : Nat) (D : Int) (sid : Nat) (s : State) (H : Int) : Prop :=
  ∃ sg, s.signings sid = some sg ∧
    (sg.status = stWaiting → ∃ D0 : Int, (∀ x ∈ upto sid s.expirations, expOf s x ≤ D0) ∧
      max D0 (H + 1) + (((M - sg.attempt : Nat) : Int)) * (P : Int) ≤ D)

theorem scheduled_le_count {s : State} (h : HInv s) {x : Nat × Nat} (hx : x ∈ s.expirations) : x.1 ≤ s.count := by
  obtain ⟨sg, _, q1, _⟩ := h.h1 x.1 x.2 hx
  cases Nat.lt_or_ge s.count x.1 with
  | inl hlt => rw [h.h4 x.1 hlt] at q1; cases q1
  | inr hge => exact hge

theorem prog_of_qext {P M : Nat} {D : Int} {sid : Nat} {s s' : State} {extra : List (Nat × Nat)} {E H : Int}
    (lv : Live s) (q : QExt s s' extra E) (hd : ∀ x ∈ extra, x ∉ s.expirations) (hsig : s'.signings sid = s.signings sid)
    (hp : Prog P M D sid s H) : Prog P M D sid s' H := by
  obtain ⟨sg, hs, hw⟩ := hp
  refine ⟨sg, by rw [hsig]; exact hs, ?_⟩
  intro hwait
  obtain ⟨D0, hall, hle⟩ := hw hwait
  refine ⟨D0, ?_, hle⟩
  have hmem : sid ∈ s.expirations.map (·.1) := List.mem_map.mpr ⟨(sid, sg.attempt), lv.l1 sid sg hs hwait, rfl⟩
  rw [q.exp, upto_append_of_mem sid _ _ hmem]
  intro x hx
  have hxs := upto_subset sid _ x hx
  rw [(expOf_qext q x).1 (fun he => hd x he hxs)]
  exact hall x hx

theorem g_of_qext {P M : Nat} {s s' : State} {extra : List (Nat × Nat)} {E H : Int} (g : G P M s H) (q : QExt s s' extra E)
    (h' : HInv s') (hE : E ≤ H + 1 + P)
    (hsig : ∀ i sg', s'.signings i = some sg' → s.signings i = some sg' ∨ (sg'.status = stWaiting ∧ (i, sg'.attempt) ∈ extra)) : G P M s' H := by
  refine ⟨h', ?_, bnd_of_qext q g.bnd hE, by rw [q.per]; exact g.per, by rw [q.max]; exact g.mx, ?_⟩
  · apply live_of_qext q g.live
    intro i sg' hs _
    rcases hsig i sg' hs with h | h
    · exact Or.inl h
    · exact Or.inr h.2
  · intro i sg' hs
    rcases hsig i sg' hs with h | h
    · exact g.rng i sg' h
    · exact Or.inl h.1

/-- a signing request keeps the invariant (its height is at most that of the block being built) -/
theorem request_G {P M : Nat} {s : State} {H : Int} (g : G P M s H) (sender : Nat) (auth : Bool) (limit : Coins) (c : List Nat) (height : Int)
    (hc : c.Nodup) (hcne : c ≠ []) (hh : height ≤ H + 1) : G P M (request s sender auth limit c height).1 H := by
  have h' := request_hinv s sender auth limit c height hc g.hinv
  rcases request_qext s sender auth limit c height hcne with e | ⟨q, hsig, _⟩
  · rw [e]; exact g
  · apply g_of_qext g q h'
    · have := g.per; omega
    · intro i sg' hs
      by_cases hi : i = s.count + 1
      · subst hi
        rw [hsig] at hs; cases hs
        exact Or.inr ⟨rfl, by simp⟩
      · rw [request_signings_other s sender auth limit c height i hi] at hs
        exact Or.inl hs

theorem request_prog {P M : Nat} {D : Int} {sid : Nat} {s : State} {H : Int} (g : G P M s H) (sender : Nat) (auth : Bool) (limit : Coins)
    (c : List Nat) (height : Int) (hcne : c ≠ []) (hp : Prog P M D sid s H) :
    Prog P M D sid (request s sender auth limit c height).1 H := by
  rcases request_qext s sender auth limit c height hcne with e | ⟨q, _, _⟩
  · rw [e]; exact hp
  · obtain ⟨sg, hs, _⟩ := hp
    have hne : sid ≠ s.count + 1 := by
      intro e
      have := g.hinv.h4 sid (by omega)
      rw [this] at hs; cases hs
    apply prog_of_qext g.live q _ (request_signings_other s sender auth limit c height sid hne) ⟨sg, hs, ‹_›⟩
    intro x hx hx2
    simp only [List.mem_singleton] at hx
    subst hx
    have := scheduled_le_count g.hinv hx2
    simp only [] at this
    omega

/-! ### the end-block -/

theorem endBlock_signing_none (s : State) (committee : Nat → List Nat) (height nowNs : Int) (h : HInv s) (i : Nat)
    (hs : s.signings i = none) : (endBlock s committee height nowNs).signings i = none := by
  have H2 : HInv (aggd s) := aggregated_hinv s h
  obtain ⟨_, _, _, _, _, a6⟩ := aggregateAll_core s.pending s
  obtain ⟨_, _, _, _, e5, _, e7⟩ := expired_hinv (aggd s) H2 rfl height nowNs
  rw [endBlock_eq]
  have hs2 : (aggd s).signings i = none := by show (aggregateAll s s.pending).signings i = none; rw [a6 i, hs]; rfl
  have hnot : i ∉ (expireGo height nowNs (aggd s).expirations (aggd s) [] 0).2.1 := by
    intro hin
    obtain ⟨sg, w1, _⟩ := e7 i hin
    rw [hs2] at w1; cases w1
  rw [retryAll_signing_other committee height _ _ i hnot]
  show (expireGo height nowNs (aggd s).expirations (aggd s) [] 0).1.signings i = none
  rw [e5]; exact hs2

theorem endBlock_G {P M : Nat} {s : State} {H : Int} (g : G P M s H) (committee : Nat → List Nat) (nowNs : Int)
    (hc : ∀ i, (committee i).Nodup) (hcne : ∀ i, committee i ≠ []) : G P M (endBlock s committee (H + 1) nowNs) (H + 1) := by
  have h' := endBlock_hinv s committee (H + 1) nowNs hc g.hinv
  obtain ⟨n, extra, sa, sb, sc, sd, _, ⟨sp, sm⟩, sh⟩ := endBlock_struct s committee (H + 1) nowNs hcne g.hinv g.live
  have hnd : s.expirations.Nodup := nodup_of_map_fst g.hinv.h2
  refine ⟨h', ⟨?_, ?_⟩, ?_, by rw [sp]; exact g.per, by rw [sm]; exact g.mx, ?_⟩
  · intro i sg' hs' hw'
    cases hs : s.signings i with
    | none => rw [endBlock_signing_none s committee (H + 1) nowNs g.hinv i hs] at hs'; cases hs'
    | some sg =>
      obtain ⟨sg'', q1, q2⟩ := endBlock_signing s committee (H + 1) nowNs g.hinv i sg hs
      rw [hs'] at q1; cases q1
      rcases q2 with ⟨_, _, e⟩ | ⟨hp, e⟩ | ⟨hp, hw, hr⟩
      · subst e; simp [stSuccess, stWaiting] at hw'
      · subst e
        have hmem := g.live.l1 i sg' hs hw'
        rw [← List.take_append_drop n s.expirations] at hmem
        rcases List.mem_append.mp hmem with ht | hd
        · exfalso
          rcases sd i sg'.attempt sg' ht hs hw' hp with ⟨x1, _, _⟩ | x1
          · rw [hs'] at x1; simp only [Option.some.injEq] at x1
            have := congrArg Sig.attempt x1; simp at this
          · rw [hs'] at x1; simp only [Option.some.injEq] at x1
            have := congrArg Sig.status x1; rw [hw'] at this; simp [stWaiting, stFallen] at this
        · rw [sa]; exact List.mem_append_left _ hd
      · have hmem := g.live.l1 i sg hs hw
        rcases hr with ⟨ra, _⟩ | ⟨_, rs⟩
        · rw [← List.take_append_drop n s.expirations] at hmem
          rcases List.mem_append.mp hmem with ht | hd
          · rcases sd i sg.attempt sg ht hs hw hp with ⟨x1, x2, _⟩ | x1
            · rw [sa, ra]; exact List.mem_append_right _ x2
            · rw [hs'] at x1; simp only [Option.some.injEq] at x1
              have := congrArg Sig.status x1; rw [hw'] at this; simp [stWaiting, stFallen] at this
          · exfalso
            have hin : (i, sg.attempt) ∈ (endBlock s committee (H + 1) nowNs).expirations := by rw [sa]; exact List.mem_append_left _ hd
            obtain ⟨sg0, _, w1, w2, _⟩ := h'.h1 i sg.attempt hin
            rw [hs'] at w1; cases w1
            omega
        · rw [hw'] at rs; simp [stWaiting, stFallen] at rs
  · intro i a atm hat
    rcases sh i a atm hat with ho | hx
    · exact g.live.l2 i a atm ho
    · obtain ⟨atm', w1, _, w3⟩ := sc (i, a) hx
      rw [hat] at w1; cases w1; exact w3
  · intro x hx
    rw [sa] at hx
    rcases List.mem_append.mp hx with hd | he
    · have := g.bnd x (List.mem_of_mem_drop hd)
      unfold expOf at this ⊢
      rw [sb x.1 x.2 hd]
      omega
    · obtain ⟨atm, w1, w2, _⟩ := sc x he
      unfold expOf
      rw [w1]
      simp only [Option.map_some, Option.getD_some, w2]
      have := g.per
      omega
  · intro i sg' hs'
    cases hs : s.signings i with
    | none => rw [endBlock_signing_none s committee (H + 1) nowNs g.hinv i hs] at hs'; cases hs'
    | some sg =>
      obtain ⟨sg'', q1, q2⟩ := endBlock_signing s committee (H + 1) nowNs g.hinv i sg hs
      rw [hs'] at q1; cases q1
      rcases q2 with ⟨_, _, e⟩ | ⟨_, e⟩ | ⟨_, _, hr⟩
      · subst e; exact Or.inr (Or.inl rfl)
      · subst e; exact g.rng i sg' hs
      · rcases hr with ⟨_, r⟩ | ⟨_, r⟩
        · exact Or.inl r
        · exact Or.inr (Or.inr r)

theorem endBlock_prog {P M : Nat} {D : Int} {sid : Nat} {s : State} {H : Int} (g : G P M s H) (hP : 1 ≤ P)
    (committee : Nat → List Nat) (nowNs : Int) (hc : ∀ i, (committee i).Nodup) (hcne : ∀ i, committee i ≠ [])
    (hp : Prog P M D sid s H) : Prog P M D sid (endBlock s committee (H + 1) nowNs) (H + 1) := by
  have h' := endBlock_hinv s committee (H + 1) nowNs hc g.hinv
  obtain ⟨n, extra, sa, sb, sc, sd, se, ⟨_, _⟩, _⟩ := endBlock_struct s committee (H + 1) nowNs hcne g.hinv g.live
  have hnd : s.expirations.Nodup := nodup_of_map_fst g.hinv.h2
  obtain ⟨sg, hs, hw⟩ := hp
  obtain ⟨sg', q1, q2⟩ := endBlock_signing s committee (H + 1) nowNs g.hinv sid sg hs
  refine ⟨sg', q1, ?_⟩
  intro hw'
  rcases q2 with ⟨_, _, e⟩ | ⟨hpd, e⟩ | ⟨hpd, hwt, hr⟩
  · subst e; simp [stSuccess, stWaiting] at hw'
  · subst e
    obtain ⟨D0, hall, hle⟩ := hw hw'
    have hmem := g.live.l1 sid sg' hs hw'
    -- the entry was not consumed (a consumed WAITING entry is retried, which changes the record)
    have hdrop : (sid, sg'.attempt) ∈ s.expirations.drop n := by
      rw [← List.take_append_drop n s.expirations] at hmem
      rcases List.mem_append.mp hmem with ht | hd
      · exfalso
        rcases sd sid sg'.attempt sg' ht hs hw' hpd with ⟨x1, _, _⟩ | x1
        · rw [q1] at x1; simp only [Option.some.injEq] at x1
          have := congrArg Sig.attempt x1; simp at this
        · rw [q1] at x1; simp only [Option.some.injEq] at x1
          have := congrArg Sig.status x1; rw [hw'] at this; simp [stWaiting, stFallen] at this
      · exact hd
    -- hence some entry on the way had not expired: D0 > H + 1
    have hD0 : H + 1 < D0 := by
      by_cases hlt : H + 1 < D0
      · exact hlt
      · exfalso
        have := se sid sg'.attempt hmem (fun x hx => by have := hall x hx; omega)
        exact mem_drop_not_take _ _ hnd _ hdrop this
    refine ⟨D0, ?_, by omega⟩
    have hmem' : sid ∈ (s.expirations.drop n).map (·.1) := List.mem_map.mpr ⟨_, hdrop, rfl⟩
    rw [sa, upto_append_of_mem sid _ _ hmem']
    intro x hx
    have hxd := upto_subset sid _ x hx
    have hxu := upto_drop_subset sid s.expirations n g.hinv.h2 _ hdrop rfl x hx
    have := hall x hxu
    unfold expOf at this ⊢
    rw [sb x.1 x.2 hxd]; exact this
  · obtain ⟨D0, _, hle⟩ := hw hwt
    have hmem := g.live.l1 sid sg hs hwt
    rcases hr with ⟨ra, _⟩ | ⟨_, rs⟩
    · -- retried: the new entry is at the back; everything in the FIFO expires by H + 1 + P
      have htake : (sid, sg.attempt) ∈ s.expirations.take n := by
        rw [← List.take_append_drop n s.expirations] at hmem
        rcases List.mem_append.mp hmem with ht | hd
        · exact ht
        · exfalso
          have hin : (sid, sg.attempt) ∈ (endBlock s committee (H + 1) nowNs).expirations := by rw [sa]; exact List.mem_append_left _ hd
          obtain ⟨sg0, _, w1, w2, _⟩ := h'.h1 sid sg.attempt hin
          rw [q1] at w1; cases w1
          omega
      rcases sd sid sg.attempt sg htake hs hwt hpd with ⟨_, _, x3⟩ | x1
      · refine ⟨H + 1 + P, ?_, ?_⟩
        · intro x hx
          have hxs := upto_subset sid _ x hx
          rw [sa] at hxs
          rcases List.mem_append.mp hxs with hd | he
          · have := g.bnd x (List.mem_of_mem_drop hd)
            unfold expOf at this ⊢
            rw [sb x.1 x.2 hd]; exact this
          · obtain ⟨atm, w1, w2, _⟩ := sc x he
            unfold expOf
            rw [w1]
            simp only [Option.map_some, Option.getD_some, w2]
            have := g.per
            omega
        · have hmx := g.mx
          have hk : M - sg.attempt = (M - sg'.attempt) + 1 := by omega
          rw [hk] at hle
          have hk2 : (((M - sg'.attempt + 1 : Nat) : Int)) * (P : Int) = ((M - sg'.attempt : Nat) : Int) * (P : Int) + (P : Int) := by
            rw [Int.natCast_add, Int.add_mul]; simp
          rw [hk2] at hle
          have hP' : (1 : Int) ≤ (P : Int) := by omega
          omega
      · rw [q1] at x1; simp only [Option.some.injEq] at x1
        have := congrArg Sig.status x1; rw [hw'] at this; simp [stWaiting, stFallen] at this
    · rw [hw'] at rs; simp [stWaiting, stFallen] at rs

/-- at or after the deadline the signing is no longer WAITING -/
theorem prog_final {P M : Nat} {D : Int} {sid : Nat} {s : State} {H : Int} (g : G P M s H) (hp : Prog P M D sid s H) (hD : D ≤ H) :
    ∃ sg, s.signings sid = some sg ∧ (sg.status = stSuccess ∨ sg.status = stFallen) := by
  obtain ⟨sg, hs, hw⟩ := hp
  refine ⟨sg, hs, ?_⟩
  rcases g.rng sid sg hs with h | h | h
  · exfalso
    obtain ⟨D0, _, hle⟩ := hw h
    have : (0 : Int) ≤ ((M - sg.attempt : Nat) : Int) * (P : Int) := Int.mul_nonneg (Int.natCast_nonneg _) (Int.natCast_nonneg _)
    omega
  · exact Or.inl h
  · exact Or.inr h

/-- the measure can be started at any state of a run: the deadline of a WAITING signing at attempt `a` is
    `H + 1 + (M − a + 1)·P` -/
theorem prog_init {P M : Nat} {sid : Nat} {s : State} {H : Int} (g : G P M s H) (sg : Sig) (hs : s.signings sid = some sg) :
    Prog P M (H + 1 + (((M - sg.attempt : Nat) : Int) + 1) * (P : Int)) sid s H := by
  refine ⟨sg, hs, fun _ => ⟨H + 1 + P, fun x hx => g.bnd x (upto_subset sid _ x hx), ?_⟩⟩
  have e : (((M - sg.attempt : Nat) : Int) + 1) * (P : Int) = ((M - sg.attempt : Nat) : Int) * (P : Int) + (P : Int) := by
    rw [Int.add_mul]; simp
  rw [e]
  have : (0 : Int) ≤ (P : Int) := Int.natCast_nonneg _
  omega

end BandVerif.Signing
