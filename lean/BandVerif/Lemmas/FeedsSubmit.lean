/- SubmitSignalPrices: accepted prices are stamped with the block's time and height; kept prices stay with their signal. -/
import BandVerif.Model.FeedsSubmit

namespace BandVerif.FeedsSubmit

theorem idxOf_some {feeds : List String} {sid : String} {i : Nat} (h : idxOf feeds sid = some i) : i < feeds.length ∧ feeds[i]? = some sid := by
  unfold idxOf at h
  split at h
  · rename_i hlt
    cases h
    refine ⟨hlt, ?_⟩
    have := List.findIdx_getElem (w := hlt)
    rw [List.getElem?_eq_getElem hlt]
    simp only [beq_iff_eq] at this
    rw [this]
  · cases h

theorem fill_length (feeds : List String) (prev : List VP) : (fill feeds prev).length = feeds.length := by
  unfold fill
  suffices ∀ acc : List VP, (prev.foldl (fillStep feeds) acc).length = acc.length by
    rw [this]; simp
  induction prev with
  | nil => intro acc; rfl
  | cons p rest ih =>
    intro acc
    simp only [List.foldl_cons]
    rw [ih]
    unfold fillStep
    split <;> simp

/-- every entry of the re-indexed list is empty or a previous price OF THE SIGNAL AT THAT POSITION -/
theorem fill_entries (feeds : List String) (prev : List VP) (i : Nat) (v : VP) (h : (fill feeds prev)[i]? = some v) :
    v = VP.zero ∨ (v ∈ prev ∧ feeds[i]? = some v.sid) := by
  unfold fill at h
  suffices ∀ acc : List VP, (∀ j w, acc[j]? = some w → w = VP.zero ∨ (w ∈ prev ∧ feeds[j]? = some w.sid)) →
      ∀ (l : List VP), (∀ p ∈ l, p ∈ prev) →
      ∀ j w, (l.foldl (fillStep feeds) acc)[j]? = some w →
        w = VP.zero ∨ (w ∈ prev ∧ feeds[j]? = some w.sid) by
    exact this (List.replicate feeds.length VP.zero)
      (fun j w hw => by
        rw [List.getElem?_replicate] at hw
        split at hw
        · cases hw; exact Or.inl rfl
        · cases hw)
      prev (fun _ hp => hp) i v h
  intro acc hacc l
  induction l generalizing acc with
  | nil => intro _ j w hw; exact hacc j w hw
  | cons p rest ih =>
    intro hl j w hw
    simp only [List.foldl_cons] at hw
    apply ih _ _ (fun q hq => hl q (List.mem_cons_of_mem _ hq)) j w hw
    intro j' w' hw'
    unfold fillStep at hw'
    cases hi : idxOf feeds p.sid with
    | none => simp only [hi] at hw'; exact hacc j' w' hw'
    | some k =>
      simp only [hi] at hw'
      rw [List.getElem?_set] at hw'
      split at hw'
      · rename_i hk
        split at hw'
        · cases hw'
          subst hk
          exact Or.inr ⟨hl _ (List.mem_cons_self ..), (idxOf_some hi).2⟩
        · cases hw'
      · exact hacc j' w' hw'

/-- an entry of an accepted list: stamped by this submission, or untouched -/
def Stamped (blockTime height : Int) (msg : List (String × Nat × Nat)) (v : VP) : Prop :=
  v.ts = blockTime ∧ v.bh = height ∧ ∃ m ∈ msg, m.1 = v.sid ∧ m.2.1 = v.status ∧ m.2.2 = v.price

theorem applyMsg_spec (feeds : List String) (blockTime height cooldown : Int) (msg : List (String × Nat × Nat)) (acc out : List VP)
    (h : applyMsg feeds blockTime height cooldown acc msg = .ok out) :
    out.length = acc.length ∧
    (∀ (i : Nat) (v : VP), out[i]? = some v → acc[i]? = some v ∨ (Stamped blockTime height msg v ∧ feeds[i]? = some v.sid)) ∧
    (∀ m ∈ msg, ∃ (i : Nat) (v : VP), idxOf feeds m.1 = some i ∧ (i < acc.length → out[i]? = some v ∧ v.sid = m.1 ∧ v.ts = blockTime ∧ v.bh = height)) := by
  induction msg generalizing acc with
  | nil =>
    simp only [applyMsg, Except.ok.injEq] at h
    subst h
    exact ⟨rfl, fun i v hv => Or.inl hv, fun m hm => by cases hm⟩
  | cons m rest ih =>
    obtain ⟨sid, st, price⟩ := m
    simp only [applyMsg] at h
    cases hi : idxOf feeds sid with
    | none => simp [hi] at h
    | some k =>
      simp only [hi] at h
      split at h
      · cases h
      · obtain ⟨r1, r2, r3⟩ := ih _ h
        refine ⟨by rw [r1]; simp, ?_, ?_⟩
        · intro i v hv
          rcases r2 i v hv with h0 | ⟨hs, hf⟩
          · rw [List.getElem?_set] at h0
            split at h0
            · rename_i hk
              split at h0
              · cases h0
                subst hk
                right
                exact ⟨⟨rfl, rfl, (sid, st, price), List.mem_cons_self .., rfl, rfl, rfl⟩, (idxOf_some hi).2⟩
              · cases h0
            · exact Or.inl h0
          · right
            obtain ⟨a, b, m', hm', c⟩ := hs
            exact ⟨⟨a, b, m', List.mem_cons_of_mem _ hm', c⟩, hf⟩
        · intro m' hm'
          rcases List.mem_cons.mp hm' with rfl | hr
          · -- the entry written now stays stamped: later writes at the same index are stamped writes of the same signal
            refine ⟨k, ?_⟩
            by_cases hk : k < acc.length
            · have hset : (acc.set k ⟨st, sid, price, blockTime, height⟩)[k]? = some ⟨st, sid, price, blockTime, height⟩ := by
                rw [List.getElem?_set]; simp [hk]
              have hlen : k < out.length := by rw [r1]; simpa using hk
              obtain ⟨v, hv⟩ : ∃ v, out[k]? = some v := ⟨out[k], List.getElem?_eq_getElem hlen⟩
              refine ⟨v, hi, fun _ => ⟨hv, ?_⟩⟩
              rcases r2 k v hv with h0 | ⟨⟨a, b, _⟩, hf⟩
              · rw [hset] at h0; cases h0; exact ⟨rfl, rfl, rfl⟩
              · have := (idxOf_some hi).2
                rw [this] at hf
                simp only [Option.some.injEq] at hf
                exact ⟨hf.symm, a, b⟩
            · exact ⟨VP.zero, hi, fun hlt => absurd hlt hk⟩
          · obtain ⟨i, v, q1, q2⟩ := r3 m' hr
            exact ⟨i, v, q1, fun hlt => q2 (by simpa using hlt)⟩

/-- PROPERTY (accepted prices carry the block's time and height): after an accepted submission every submitted signal's
    entry is stamped with the time and the height of the block that carried it — never with anything the sender chose -/
theorem accepted_prices_are_stamped (feeds : List String) (prev : List VP) (msg : List (String × Nat × Nat)) (msgTs blockTime height cooldown disc : Int)
    (required : Bool) (out : List VP) (h : submit feeds prev msg msgTs blockTime height cooldown disc required = .ok out) :
    out.length = feeds.length ∧
    ∀ m ∈ msg, ∃ (i : Nat) (v : VP), idxOf feeds m.1 = some i ∧ out[i]? = some v ∧ v.sid = m.1 ∧ v.ts = blockTime ∧ v.bh = height := by
  unfold submit at h
  split at h
  · cases h
  · split at h
    · cases h
    · split at h
      · cases h
      · obtain ⟨r1, _, r3⟩ := applyMsg_spec feeds blockTime height cooldown msg _ out h
        refine ⟨by rw [r1, fill_length], ?_⟩
        intro m hm
        obtain ⟨i, v, q1, q2⟩ := r3 m hm
        obtain ⟨a, b, c, d⟩ := q2 (by rw [fill_length]; exact (idxOf_some q1).1)
        exact ⟨i, v, q1, a, b, c, d⟩

/-- PROPERTY (a kept price stays with its signal): every entry of the stored list is empty, or a previous price of the
    signal at that position of the CURRENT feed list, or a price submitted now for that signal -/
theorem stored_entries_follow_their_signal (feeds : List String) (prev : List VP) (msg : List (String × Nat × Nat)) (msgTs blockTime height cooldown disc : Int)
    (required : Bool) (out : List VP) (h : submit feeds prev msg msgTs blockTime height cooldown disc required = .ok out)
    (i : Nat) (v : VP) (hv : out[i]? = some v) :
    v = VP.zero ∨ (v ∈ prev ∧ feeds[i]? = some v.sid) ∨ (Stamped blockTime height msg v ∧ feeds[i]? = some v.sid) := by
  unfold submit at h
  split at h
  · cases h
  · split at h
    · cases h
    · split at h
      · cases h
      · obtain ⟨_, r2, _⟩ := applyMsg_spec feeds blockTime height cooldown msg _ out h
        rcases r2 i v hv with h0 | h1
        · rcases fill_entries feeds prev i v h0 with a | b
          · exact Or.inl a
          · exact Or.inr (Or.inl b)
        · exact Or.inr (Or.inr h1)

/-- PROPERTY (the sender's timestamp only gates admission): two submissions that differ only in the sender's timestamp,
    both within the allowed discrepancy, store the same list -/
theorem sender_timestamp_is_not_stored (feeds : List String) (prev : List VP) (msg : List (String × Nat × Nat)) (t1 t2 blockTime height cooldown disc : Int)
    (required : Bool) (h1 : absI (t1 - blockTime) ≤ disc) (h2 : absI (t2 - blockTime) ≤ disc) :
    submit feeds prev msg t1 blockTime height cooldown disc required = submit feeds prev msg t2 blockTime height cooldown disc required := by
  unfold submit
  have a : ¬ absI (t1 - blockTime) > disc := by omega
  have b : ¬ absI (t2 - blockTime) > disc := by omega
  simp only [a, b, if_false]

instance : DecidableEq (Except Err (List VP)) := fun a b =>
  match a, b with
  | .ok x, .ok y => if h : x = y then isTrue (by rw [h]) else isFalse (fun e => h (by cases e; rfl))
  | .error x, .error y => if h : x = y then isTrue (by rw [h]) else isFalse (fun e => h (by cases e; rfl))
  | .ok _, .error _ => isFalse (fun e => by cases e)
  | .error _, .ok _ => isFalse (fun e => by cases e)

/-! non-vacuity: a re-ranked feed list, a kept price, a new price, a sender clock 45 s behind -/
example : submit ["B", "A"] [⟨3, "A", 7, 100, 5⟩, ⟨3, "B", 9, 160, 8⟩] [("A", 3, 8)] 135 180 10 30 60 true =
    .ok [⟨3, "B", 9, 160, 8⟩, ⟨3, "A", 8, 180, 10⟩] := by decide
example : submit ["B", "A"] [⟨3, "A", 7, 100, 5⟩, ⟨3, "B", 9, 160, 8⟩] [("B", 3, 8)] 180 180 10 30 60 true = .error .tooEarly := by decide

/-! ### admission: what a sender has to check for the handler to accept -/

theorem idxOf_inj {feeds : List String} {a b : String} {i : Nat} (ha : idxOf feeds a = some i) (hb : idxOf feeds b = some i) : a = b := by
  have h1 := (idxOf_some ha).2
  have h2 := (idxOf_some hb).2
  rw [h1] at h2
  exact Option.some.inj h2

/-- the per-price rule of the handler, read on the re-indexed previous list -/
def Admissible (feeds : List String) (acc : List VP) (blockTime cooldown : Int) (m : String × Nat × Nat) : Prop :=
  ∃ i, idxOf feeds m.1 = some i ∧ ((acc.getD i VP.zero).status = 0 ∨ blockTime ≥ (acc.getD i VP.zero).ts + cooldown)

theorem applyMsg_ok (feeds : List String) (blockTime height cooldown : Int) (msg : List (String × Nat × Nat)) (acc : List VP)
    (hnd : (msg.map (·.1)).Nodup) (hall : ∀ m ∈ msg, Admissible feeds acc blockTime cooldown m) :
    ∃ out, applyMsg feeds blockTime height cooldown acc msg = .ok out := by
  induction msg generalizing acc with
  | nil => exact ⟨acc, rfl⟩
  | cons m rest ih =>
    obtain ⟨sid, st, price⟩ := m
    simp only [List.map_cons, List.nodup_cons] at hnd
    obtain ⟨i, hi, hadm⟩ := hall (sid, st, price) (List.mem_cons_self ..)
    simp only [applyMsg, hi]
    have hno : ¬ ((acc.getD i VP.zero).status ≠ 0 ∧ blockTime < (acc.getD i VP.zero).ts + cooldown) := by
      intro ⟨a, b⟩
      rcases hadm with h | h
      · exact a h
      · omega
    rw [if_neg hno]
    apply ih _ hnd.2
    intro m' hm'
    obtain ⟨j, hj, hadm'⟩ := hall m' (List.mem_cons_of_mem _ hm')
    refine ⟨j, hj, ?_⟩
    -- the entry of another signal is not the one just written
    have hne : i ≠ j := by
      intro e
      subst e
      have he : sid = m'.1 := idxOf_inj hi hj
      apply hnd.1
      rw [he]
      exact List.mem_map.mpr ⟨m', hm', rfl⟩
    have hget : (acc.set i ⟨st, sid, price, blockTime, height⟩).getD j VP.zero = acc.getD j VP.zero := by
      simp only [List.getD_eq_getElem?_getD, List.getElem?_set_ne hne]
    rw [hget]; exact hadm'

/-- PROPERTY (what a sender must check): a message of distinct current signals, none of them inside its cool-down on the
    stored list, from a validator that is required to send, with a timestamp within the allowed discrepancy, is accepted -/
theorem admissible_message_accepted (feeds : List String) (prev : List VP) (msg : List (String × Nat × Nat)) (msgTs blockTime height cooldown disc : Int)
    (hsz : msg.length ≤ feeds.length) (hts : absI (msgTs - blockTime) ≤ disc) (hnd : (msg.map (·.1)).Nodup)
    (hall : ∀ m ∈ msg, Admissible feeds (fill feeds prev) blockTime cooldown m) :
    ∃ out, submit feeds prev msg msgTs blockTime height cooldown disc true = .ok out := by
  unfold submit
  rw [if_neg (by omega)]
  simp only [Bool.not_true, Bool.false_eq_true, if_false]
  rw [if_neg (by omega)]
  exact applyMsg_ok feeds blockTime height cooldown msg _ hnd hall

end BandVerif.FeedsSubmit
