/-
C03 lemmas (Mathlib): the signing model of Model/Frost.lean instantiated on a module over a field, and Lagrange
interpolation at 0.
-/
import BandVerif.Model.Frost
import Mathlib.LinearAlgebra.Lagrange
import Mathlib.Algebra.Module.Basic
import Mathlib.Tactic.LinearCombination
import Mathlib.Tactic.Abel

namespace BandVerif.Frost

open Polynomial Finset

variable {F V : Type} [Field F] [DecidableEq F] [AddCommGroup V] [Module F V] [DecidableEq V]

/-- the operations record of a vector space with base point g -/
def modOps (g : V) : Ops F V :=
  { sadd := (· + ·), smul := (· * ·), gadd := (· + ·), gneg := Neg.neg, act := (· • ·), base := g, zeroG := 0, szero := 0 }

theorem foldl_add_eq_sum {M : Type} [AddCommMonoid M] (l : List M) (a : M) : l.foldl (· + ·) a = a + l.sum := by
  induction l generalizing a with
  | nil => simp
  | cons x xs ih => simp [List.foldl_cons, ih, add_assoc]

theorem sumG_eq (g : V) (l : List V) : sumG (modOps (F := F) g) l = l.sum := by
  unfold sumG modOps; simp only []; rw [foldl_add_eq_sum]; simp

theorem sumS_eq (g : V) (l : List F) : sumS (modOps (V := V) g) l = l.sum := by
  unfold sumS modOps; simp only []; rw [foldl_add_eq_sum]; simp

/-- `schnorr.Verify`: accepts iff s·g − c·Q is the expected R and not the identity -/
theorem schnorrVerify_iff (g : V) (R : V) (s c : F) (Q : V) :
    schnorrVerify (modOps g) R s c Q = true ↔ s • g - c • Q = R ∧ R ≠ 0 := by
  unfold schnorrVerify modOps
  simp only [Bool.and_eq_true, decide_eq_true_eq, ← sub_eq_add_neg]
  constructor
  · rintro ⟨h1, h2⟩; exact ⟨h2, h2 ▸ h1⟩
  · rintro ⟨h1, h2⟩; exact ⟨h1 ▸ h2, h1⟩

/-- the chain accepts a partial signature exactly when it is the member's correct share -/
theorem acceptPartial_iff (g : V) (hg : ∀ a : F, a • g = 0 → a = 0) (k x z c lam : F) (R : V) :
    acceptPartial (modOps g) (k • g) R z c lam (x • g) = true ↔ R = k • g ∧ z = k + c * lam * x ∧ k ≠ 0 := by
  unfold acceptPartial
  rw [Bool.and_eq_true, decide_eq_true_eq, schnorrVerify_iff]
  show R = k • g ∧ (z • g - (c * lam) • x • g = R ∧ R ≠ 0) ↔ _
  constructor
  · rintro ⟨hR, h1, h2⟩
    subst hR
    refine ⟨rfl, ?_, fun hk => h2 (by rw [hk, zero_smul])⟩
    have : (z - c * lam * x - k) • g = 0 := by
      rw [sub_smul, sub_smul, mul_smul (c * lam) x g, h1, sub_self]
    have := hg _ this
    linear_combination this
  · rintro ⟨hR, hz, hk⟩
    subst hR; subst hz
    refine ⟨rfl, ?_, fun h => hk (hg k h)⟩
    rw [add_smul, mul_smul (c * lam) x g]; abel

/-- the Lagrange coefficient at 0 of node i within the node set s -/
noncomputable def lagrangeAtZero (s : Finset F) (i : F) : F := ∏ j ∈ s.erase i, j / (j - i)

theorem eval_basis_zero (s : Finset F) (i : F) : (Lagrange.basis s id i).eval 0 = lagrangeAtZero s i := by
  unfold Lagrange.basis lagrangeAtZero Lagrange.basisDivisor
  rw [eval_prod]
  apply Finset.prod_congr rfl
  intro j _
  simp only [id, eval_mul, eval_C, eval_sub, eval_X]
  rw [div_eq_mul_inv, zero_sub, ← neg_sub j i, inv_neg, neg_mul_neg, mul_comm]

/-- Lagrange interpolation at 0: any node set larger than the degree reconstructs f(0) -/
theorem lagrange_interpolates (f : F[X]) (s : Finset F) (hdeg : f.degree < s.card) :
    ∑ i ∈ s, lagrangeAtZero s i * f.eval i = f.eval 0 := by
  have h := Lagrange.eq_interpolate (s := s) (v := id) (f := f) (Set.injOn_id _) hdeg
  conv_rhs => rw [h]
  simp only [Lagrange.interpolate_apply, eval_finsetSum, eval_mul, eval_C, id]
  apply Finset.sum_congr rfl; intro i _; rw [eval_basis_zero, mul_comm]

end BandVerif.Frost
