import BandVerif.Model.Reward
import Mathlib.Tactic.Ring
import Mathlib.Tactic.Linarith
import Mathlib.Tactic.Positivity

namespace BandVerif.Reward

theorem E18_pos : (0 : Int) < E18 := by decide

theorem ediv_nonneg' {a b : Int} (ha : 0 ≤ a) (hb : 0 < b) : 0 ≤ a / b := Int.ediv_nonneg ha (le_of_lt hb)
theorem ediv_mul_le' (a : Int) {b : Int} (hb : 0 < b) : a / b * b ≤ a := Int.ediv_mul_le a (ne_of_gt hb)

theorem ediv_le_of_le_mul' {a b c : Int} (hc : 0 < c) (h : a ≤ b * c) : a / c ≤ b := Int.ediv_le_of_le_mul hc h

/-- Σ ⌊aᵢ/c⌋ · c ≤ Σ aᵢ -/
theorem sum_div_mul_le (l : List Int) (c : Int) (hc : 0 < c) : (l.map (· / c)).sum * c ≤ l.sum := by
  induction l with
  | nil => simp
  | cons x xs ih =>
    simp only [List.map_cons, List.sum_cons]
    have := ediv_mul_le' x hc
    nlinarith

theorem sum_map_mul_left (l : List Int) (x : Int) : (l.map (x * ·)).sum = x * l.sum := by
  induction l with
  | nil => simp
  | cons y ys ih => simp only [List.map_cons, List.sum_cons, ih]; ring

theorem sum_nonneg' (l : List Int) (h : ∀ x ∈ l, 0 ≤ x) : 0 ≤ l.sum := by
  induction l with
  | nil => simp
  | cons x xs ih =>
    simp only [List.sum_cons]
    have := h x (List.mem_cons_self ..)
    have := ih (fun y hy => h y (List.mem_cons_of_mem _ hy))
    linarith

/-- the oracle/tss share: ⌊pool · pct / 100⌋ -/
theorem share_eq (pool pct : Int) :
    truncInt (mulTrunc (pool * E18) (pct * 10000000000000000)) = pool * pct / 100 := by
  unfold truncInt mulTrunc
  have h1 : pool * E18 * (pct * 10000000000000000) / E18 = pool * pct * 10000000000000000 := by
    rw [show pool * E18 * (pct * 10000000000000000) = (pool * pct * 10000000000000000) * E18 by ring]
    exact Int.mul_ediv_cancel _ (ne_of_gt E18_pos)
  rw [h1]
  have : E18 = 10000000000000000 * 100 := by decide
  rw [this, show pool * pct * 10000000000000000 = 10000000000000000 * (pool * pct) by ring]
  exact Int.mul_ediv_mul_of_pos _ _ (by decide)

theorem share_bounds (pool pct : Int) (hp : 0 ≤ pool) (h0 : 0 ≤ pct) (h1 : pct ≤ 100) :
    0 ≤ pool * pct / 100 ∧ pool * pct / 100 ≤ pool := by
  constructor
  · exact ediv_nonneg' (by positivity) (by decide)
  · apply ediv_le_of_le_mul' (by decide); nlinarith

/-- power fractions: Σ ⌊pᵢ·10¹⁸/P⌋ ≤ 10¹⁸ -/
theorem fractions_le (powers : List Int) (hp : ∀ p ∈ powers, 0 ≤ p) (ht : 0 < powers.sum) :
    (powers.map fun p => quoTrunc (p * E18) (powers.sum * E18)).sum ≤ E18 ∧
    ∀ p ∈ powers, 0 ≤ quoTrunc (p * E18) (powers.sum * E18) := by
  have hc : 0 < powers.sum * E18 := by have := E18_pos; positivity
  constructor
  · have h := sum_div_mul_le (powers.map fun p => p * E18 * E18) (powers.sum * E18) hc
    rw [List.map_map] at h
    have e : ((powers.map fun p => p * E18 * E18)).sum = E18 * (powers.sum * E18) := by
      have := sum_map_mul_left powers (E18 * E18)
      rw [show (powers.map fun p => p * E18 * E18) = powers.map ((E18 * E18) * ·) from by
        apply List.map_congr_left; intro p _; ring]
      rw [this]; ring
    rw [e] at h
    have h' : (powers.map fun p => quoTrunc (p * E18) (powers.sum * E18)).sum * (powers.sum * E18) ≤ E18 * (powers.sum * E18) := by
      exact h
    exact le_of_mul_le_mul_right h' hc
  · intro p hpm
    unfold quoTrunc
    exact ediv_nonneg' (by have := hp p hpm; have := E18_pos; positivity) hc

/-- Σ ⌊X·qᵢ/10¹⁸⌋ ≤ X when Σ qᵢ ≤ 10¹⁸ -/
theorem rewards_le (X : Int) (qs : List Int) (hX : 0 ≤ X) (hq : ∀ q ∈ qs, 0 ≤ q) (hs : qs.sum ≤ E18) :
    (qs.map fun q => mulTrunc X q).sum ≤ X ∧ ∀ q ∈ qs, 0 ≤ mulTrunc X q := by
  constructor
  · have h := sum_div_mul_le (qs.map fun q => X * q) E18 E18_pos
    rw [List.map_map, sum_map_mul_left] at h
    have h' : (qs.map fun q => mulTrunc X q).sum * E18 ≤ X * E18 := by
      have : X * qs.sum ≤ X * E18 := by nlinarith
      have h2 : (qs.map fun q => mulTrunc X q).sum * E18 ≤ X * qs.sum := h
      linarith
    exact le_of_mul_le_mul_right h' E18_pos
  · intro q hqm
    unfold mulTrunc
    exact ediv_nonneg' (by have := hq q hqm; positivity) E18_pos

end BandVerif.Reward
