/- C13: the bandtss escrow always covers what is still owed to the signers of open paid signings, so the payout of
   OnSigningCompleted can never exceed the module account's balance — over every history.  Core-only. -/
import BandVerif.Lemmas.SigningHist

namespace BandVerif.Signing

/-- what the escrow still owes for signing `sid` in denom `d`: the stored fee per signer × threshold while the bandtss
    record of a paid request still maps to it as its current signing -/
def owed (s : State) (sid : Nat) (d : String) : Nat :=
  if s.mapping sid = 0 then 0 else
  match s.bsigs (s.mapping sid) with
  | some b => if sid = b.currentSid then b.feePerSigner d * s.threshold else 0
  | none => 0

def owedSum (s : State) (d : String) : Nat := ((List.range (s.count + 1)).map (fun i => owed s i d)).sum

structure EInv (s : State) : Prop where
  /-- the escrow covers everything still owed -/
  covers : ∀ d, owedSum s d ≤ s.escrow d
  /-- no committee is larger than the threshold (the sampler draws exactly `threshold` members) -/
  small : ∀ sid att atm, s.attempts sid att = some atm → atm.assigned.length ≤ s.threshold
  /-- bandtss ids in use are at most the counter; tss ids with a mapping are at most the tss counter -/
  bids : ∀ sid, s.mapping sid ≤ s.bcount
  sids : ∀ sid, s.count < sid → s.mapping sid = 0
  /-- a mapped tss id has its bandtss record (MustGetSigning in the callbacks cannot panic) -/
  mapped : ∀ sid, s.mapping sid ≠ 0 → (s.bsigs (s.mapping sid)).isSome

theorem sum_le_of_pointwise (l : List Nat) (f g : Nat → Nat) (h : ∀ i ∈ l, f i ≤ g i) : (l.map f).sum ≤ (l.map g).sum := by
  induction l with
  | nil => simp
  | cons x xs ih =>
    simp only [List.map_cons, List.sum_cons]
    have := h x (List.mem_cons_self ..)
    have := ih (fun i hi => h i (List.mem_cons_of_mem _ hi))
    omega

/-- a point decrease: everything else unchanged -/
theorem sum_point_decrease (l : List Nat) (f g : Nat → Nat) (a x : Nat) (hn : l.Nodup) (ha : a ∈ l)
    (hs : ∀ b, b ≠ a → g b = f b) (hx : g a + x ≤ f a) : (l.map g).sum + x ≤ (l.map f).sum := by
  induction l with
  | nil => cases ha
  | cons y ys ih =>
    simp only [List.map_cons, List.sum_cons]
    have hy := List.nodup_cons.mp hn
    rcases List.mem_cons.mp ha with rfl | ha'
    · have : (ys.map g).sum = (ys.map f).sum := by
        congr 1; apply List.map_congr_left; intro b hb; exact hs b (fun e => hy.1 (e ▸ hb))
      omega
    · have hne : y ≠ a := fun e => hy.1 (e ▸ ha')
      have := ih hy.2 ha'
      rw [hs y hne]; omega

theorem owed_le_sum (s : State) (sid : Nat) (d : String) (h : sid ≤ s.count) : owed s sid d ≤ owedSum s d := by
  unfold owedSum
  have : ∀ (l : List Nat), sid ∈ l → owed s sid d ≤ (l.map (fun i => owed s i d)).sum := by
    intro l; induction l with
    | nil => intro hm; cases hm
    | cons y ys ih =>
      intro hm
      simp only [List.map_cons, List.sum_cons]
      rcases List.mem_cons.mp hm with rfl | hm'
      · omega
      · have := ih hm'; omega
  exact this _ (List.mem_range.mpr (by omega))

theorem payAll_escrow (fee : Coins) (l : List Nat) (s : State) (d : String) :
    (payAll s fee l).escrow d = s.escrow d - fee d * l.length ∧ (payAll s fee l).mapping = s.mapping ∧ (payAll s fee l).bsigs = s.bsigs ∧
    (payAll s fee l).bcount = s.bcount := by
  induction l generalizing s with
  | nil => simp [payAll]
  | cons x xs ih =>
    simp only [payAll]
    obtain ⟨i1, i2, i3, i4⟩ := ih { s with escrow := subC s.escrow fee, bal := fun a => if a = x then addC (s.bal x) fee else s.bal a }
    refine ⟨?_, i2, i3, i4⟩
    rw [i1]; simp only [subC, List.length_cons, Nat.mul_add, Nat.mul_one]; omega

/-- frame of an invariant-irrelevant change -/
theorem einv_of_frame (s s' : State) (h : EInv s) (a : s'.escrow = s.escrow) (b : s'.mapping = s.mapping) (c : s'.bsigs = s.bsigs)
    (d : s'.bcount = s.bcount) (e : s'.count = s.count) (f : s'.threshold = s.threshold) (g : s'.attempts = s.attempts) : EInv s' := by
  have ho : ∀ i d, owed s' i d = owed s i d := by intro i d; unfold owed; rw [b, c, f]
  refine ⟨?_, ?_, ?_, ?_, by rw [b, c]; exact h.mapped⟩
  · intro dd
    unfold owedSum; rw [a, e]
    have := h.covers dd
    unfold owedSum at this
    rw [show (fun i => owed s' i dd) = fun i => owed s i dd from funext fun i => ho i dd]; exact this
  · intro sid att atm q; rw [g] at q; rw [f]; exact h.small sid att atm q
  · intro sid; rw [b, d]; exact h.bids sid
  · intro sid hs; rw [e] at hs; rw [b]; exact h.sids sid hs

/-! ### OnSigningCompleted / OnSigningFailed -/
/-- dropping the mapping of `sid` zeroes what is owed for it and changes nothing else -/
theorem owed_drop (s s1 : State) (sid : Nat) (hm : ∀ i, s1.mapping i = if i = sid then 0 else s.mapping i) (hb : s1.bsigs = s.bsigs)
    (ht : s1.threshold = s.threshold) (i : Nat) (d : String) : owed s1 i d = if i = sid then 0 else owed s i d := by
  unfold owed
  rw [hm i, hb, ht]
  by_cases e : i = sid
  · simp [e]
  · simp [e]

theorem onCompleted_einv (s : State) (sid : Nat) (assigned : List Nat) (h : EInv s) (hl : assigned.length ≤ s.threshold) :
    EInv (onCompleted s sid assigned) := by
  unfold onCompleted
  simp only []
  by_cases hm0 : s.mapping sid = 0
  · simp only [hm0, if_true]
    exact einv_of_frame _ _ h rfl rfl rfl rfl rfl rfl rfl
  · simp only [hm0, if_false]
    cases hb : s.bsigs (s.mapping sid) with
    | none => exact einv_of_frame _ _ h rfl rfl rfl rfl rfl rfl rfl
    | some b =>
      simp only []
      have hsid : sid ≤ s.count := by
        cases Nat.lt_or_ge s.count sid with
        | inl hlt => exact absurd (h.sids sid hlt) hm0
        | inr hge => exact hge
      -- the state with the mapping dropped
      have hdrop : ∀ (s1 : State), (∀ i, s1.mapping i = if i = sid then 0 else s.mapping i) → s1.bsigs = s.bsigs → s1.threshold = s.threshold →
          s1.count = s.count → ∀ d, owedSum s1 d + owed s sid d ≤ owedSum s d := by
        intro s1 q1 q2 q3 q4 d
        unfold owedSum; rw [q4]
        exact sum_point_decrease (List.range (s.count + 1)) (fun i => owed s i d) (fun i => owed s1 i d) sid (owed s sid d) List.nodup_range
          (List.mem_range.mpr (by omega)) (fun b hb' => by rw [owed_drop s s1 sid q1 q2 q3 b d]; simp [hb'])
          (by rw [owed_drop s s1 sid q1 q2 q3 sid d]; simp)
      split
      · -- not the current signing of its request, or a free request: nothing is paid
        refine ⟨?_, h.small, ?_, ?_, (by
          intro i hi
          show ((s.bsigs (if i = sid then 0 else s.mapping i))).isSome
          by_cases e : i = sid
          · simp only [e, if_true] at hi; exact absurd rfl hi
          · simp only [e, if_false] at hi ⊢; exact h.mapped i hi)⟩
        · intro d
          have := hdrop { s with completedLog := s.completedLog ++ [sid], mapping := fun i => if i = sid then 0 else s.mapping i }
            (fun _ => rfl) rfl rfl rfl d
          have := h.covers d
          show owedSum _ d ≤ s.escrow d
          omega
        · intro i; show (if i = sid then 0 else s.mapping i) ≤ s.bcount
          split
          · omega
          · exact h.bids i
        · intro i hi; show (if i = sid then 0 else s.mapping i) = 0
          split
          · rfl
          · exact h.sids i hi
      · rename_i hpay
        simp only [Bool.or_eq_true, decide_eq_true_eq, not_or, Decidable.not_not, Bool.not_eq_true] at hpay
        have hpa : ∀ (l : List Nat) (st : State), (payAll st b.feePerSigner l).count = st.count ∧ (payAll st b.feePerSigner l).threshold = st.threshold ∧
            (payAll st b.feePerSigner l).attempts = st.attempts := by
          intro l; induction l with
          | nil => intro st; exact ⟨rfl, rfl, rfl⟩
          | cons m r ihp => intro st; simp only [payAll]; exact ihp _
        obtain ⟨c1, c2, c3⟩ := hpa assigned { s with completedLog := s.completedLog ++ [sid], mapping := fun i => if i = sid then 0 else s.mapping i }
        refine ⟨?_, ?_, ?_, ?_, ?_⟩
        rotate_right
        · intro i hi
          rw [(payAll_escrow b.feePerSigner assigned _ "").2.1] at hi ⊢
          rw [(payAll_escrow b.feePerSigner assigned _ "").2.2.1]
          show ((s.bsigs (if i = sid then 0 else s.mapping i))).isSome
          have hi' : (if i = sid then 0 else s.mapping i) ≠ 0 := hi
          by_cases e : i = sid
          · simp only [e, if_true] at hi'; exact absurd rfl hi'
          · simp only [e, if_false] at hi' ⊢; exact h.mapped i hi'
        · intro d
          obtain ⟨e1, _, _, _⟩ := payAll_escrow b.feePerSigner assigned
            { s with completedLog := s.completedLog ++ [sid], mapping := fun i => if i = sid then 0 else s.mapping i } d
          rw [e1]
          have hd := hdrop (payAll { s with completedLog := s.completedLog ++ [sid], mapping := fun i => if i = sid then 0 else s.mapping i } b.feePerSigner assigned)
            (fun i => by rw [(payAll_escrow b.feePerSigner assigned _ d).2.1]) (by rw [(payAll_escrow b.feePerSigner assigned _ d).2.2.1]) c2 c1 d
          have howed : owed s sid d = b.feePerSigner d * s.threshold := by
            unfold owed; simp only [hm0, if_false, hb]
            have : sid = b.currentSid := by
              have := hpay.1
              simpa using this
            simp [this]
          have hmul : b.feePerSigner d * assigned.length ≤ b.feePerSigner d * s.threshold := Nat.mul_le_mul_left _ hl
          have := h.covers d
          show owedSum _ d ≤ s.escrow d - b.feePerSigner d * assigned.length
          omega
        · intro i att atm q; rw [c3] at q; rw [c2]; exact h.small i att atm q
        · intro i
          rw [(payAll_escrow b.feePerSigner assigned _ "").2.1, (payAll_escrow b.feePerSigner assigned _ "").2.2.2]
          show (if i = sid then 0 else s.mapping i) ≤ s.bcount
          split
          · omega
          · exact h.bids i
        · intro i hi
          rw [c1] at hi
          rw [(payAll_escrow b.feePerSigner assigned _ "").2.1]
          show (if i = sid then 0 else s.mapping i) = 0
          split
          · rfl
          · exact h.sids i hi

theorem onFailed_einv (s : State) (sid : Nat) (h : EInv s) : EInv (onFailed s sid) := by
  unfold onFailed
  refine ⟨?_, h.small, ?_, ?_, (by
    intro i hi
    show ((s.bsigs (if i = sid then 0 else s.mapping i))).isSome
    by_cases e : i = sid
    · simp only [e, if_true] at hi; exact absurd rfl hi
    · simp only [e, if_false] at hi ⊢; exact h.mapped i hi)⟩
  · intro d
    have : ∀ i, owed { s with mapping := fun i => if i = sid then 0 else s.mapping i, failedLog := s.failedLog ++ [sid] } i d ≤ owed s i d := by
      intro i
      rw [owed_drop s { s with mapping := fun i => if i = sid then 0 else s.mapping i, failedLog := s.failedLog ++ [sid] } sid (fun _ => rfl) rfl rfl i d]
      split <;> omega
    have hs := sum_le_of_pointwise (List.range (s.count + 1)) _ _ (fun i _ => this i)
    have := h.covers d
    unfold owedSum at this ⊢
    exact Nat.le_trans hs this
  · intro i; show (if i = sid then 0 else s.mapping i) ≤ s.bcount
    split
    · omega
    · exact h.bids i
  · intro i hi; show (if i = sid then 0 else s.mapping i) = 0
    split
    · rfl
    · exact h.sids i hi

/-! ### the end-blocker -/
theorem aggregateAll_einv (l : List Nat) (s : State) (h : EInv s) : EInv (aggregateAll s l) := by
  induction l generalizing s with
  | nil => exact h
  | cons sid rest ih =>
    simp only [aggregateAll]
    cases hs : s.signings sid with
    | none => exact ih s h
    | some sg =>
      simp only []
      apply ih
      apply onCompleted_einv
      · exact einv_of_frame _ _ h rfl rfl rfl rfl rfl rfl rfl
      · show (((s.attempts sid sg.attempt).map (·.assigned.map (·.1))).getD []).length ≤ s.threshold
        cases ha : s.attempts sid sg.attempt with
        | none => simp
        | some atm => simp only [Option.map_some, Option.getD_some, List.length_map]; exact h.small sid sg.attempt atm ha

theorem onTimeout_money (sid att : Nat) (nowNs : Int) (l : List Nat) (s : State) :
    (onTimeout s sid att nowNs l).escrow = s.escrow ∧ (onTimeout s sid att nowNs l).mapping = s.mapping ∧
    (onTimeout s sid att nowNs l).bsigs = s.bsigs ∧ (onTimeout s sid att nowNs l).bcount = s.bcount := by
  induction l generalizing s with
  | nil => exact ⟨rfl, rfl, rfl, rfl⟩
  | cons m rest ih =>
    simp only [onTimeout]
    split
    · exact ih _
    · exact ih s

theorem expireGo_einv (height nowNs : Int) (l : List (Nat × Nat)) (s : State) (acc : List Nat) (n : Nat) (h : EInv s) :
    EInv (expireGo height nowNs l s acc n).1 := by
  induction l generalizing s acc n with
  | nil => exact h
  | cons e rest ih =>
    obtain ⟨sid, att⟩ := e
    simp only [expireGo]
    cases hs : s.signings sid with
    | none => exact h
    | some sg =>
      cases ha : s.attempts sid att with
      | none => exact h
      | some atm =>
        simp only []
        split
        · exact h
        · apply ih
          -- clearing one attempt (after the optional timeout callback) keeps the invariant
          have clear : ∀ (s1 : State), EInv s1 →
              EInv { s1 with
                      partials := fun i a => if i = sid ∧ a = att then [] else s1.partials i a,
                      attempts := fun i a => if i = sid ∧ a = att then none else s1.attempts i a } := by
            intro s1 h1
            refine ⟨h1.covers, ?_, h1.bids, h1.sids, h1.mapped⟩
            intro i a atm' q
            by_cases e : i = sid ∧ a = att
            · simp only [e, and_self, if_true] at q; cases q
            · simp only [e, if_false] at q; exact h1.small i a atm' q
          apply clear
          split
          · obtain ⟨m1, m2, m3, m4⟩ := onTimeout_money sid sg.attempt nowNs
              (((s.attempts sid sg.attempt).map fun c => (c.assigned.map (·.1)).filter fun m => !(s.partials sid sg.attempt).contains m).getD []) s
            obtain ⟨_, _, _, _, t5, _, _, _, t9, _, _, _, t14, _⟩ := onTimeout_frame sid sg.attempt nowNs
              (((s.attempts sid sg.attempt).map fun c => (c.assigned.map (·.1)).filter fun m => !(s.partials sid sg.attempt).contains m).getD []) s
            exact einv_of_frame _ _ h m1 m2 m3 m4 t14 t9 t5
          · exact h

theorem dequeueAll_length (c : List Nat) (q : Nat → List Nat) : (dequeueAll q c).1.length ≤ c.length := by
  have := (dequeueAll_ids_sublist c q).length_le
  simpa using this

theorem initiated_einv (s : State) (sid : Nat) (sg : Sig) (c : List Nat) (height : Int) (h : EInv s) (hc : c.length ≤ s.threshold) :
    EInv (initiated s sid sg c height) := by
  have ho : ∀ i d, owed (initiated s sid sg c height) i d = owed s i d := fun _ _ => rfl
  refine ⟨h.covers, ?_, h.bids, h.sids, h.mapped⟩
  intro i a atm q
  simp only [initiated] at q ⊢
  by_cases e : i = sid ∧ a = sg.attempt + 1
  · simp only [e, and_self, if_true] at q; cases q
    exact Nat.le_trans (dequeueAll_length c s.queues) hc
  · simp only [e, if_false] at q; exact h.small i a atm q

theorem retryOne_einv (s : State) (sid : Nat) (c : List Nat) (height : Int) (h : EInv s) (hc : c.length ≤ s.threshold) :
    EInv (retryOne s sid c height) ∧ (retryOne s sid c height).threshold = s.threshold := by
  rcases retryOne_cases s sid c height with ⟨sg, _, _, e⟩ | ⟨sg, _, _, e⟩ | ⟨_, e⟩
  · rw [e]; exact ⟨initiated_einv s sid sg c height h hc, rfl⟩
  · rw [e]; unfold fallen
    exact ⟨onFailed_einv _ sid (einv_of_frame _ _ h rfl rfl rfl rfl rfl rfl rfl), rfl⟩
  · rw [e]; exact ⟨h, rfl⟩

theorem retryAll_einv (committee : Nat → List Nat) (height : Int) (l : List Nat) (s : State) (h : EInv s)
    (hc : ∀ i, (committee i).length ≤ s.threshold) : EInv (retryAll committee height l s) := by
  induction l generalizing s with
  | nil => exact h
  | cons sid rest ih =>
    simp only [retryAll]
    obtain ⟨q1, q2⟩ := retryOne_einv s sid (committee sid) height h (hc sid)
    exact ih _ q1 (fun i => by rw [q2]; exact hc i)

theorem endBlock_einv (s : State) (committee : Nat → List Nat) (height nowNs : Int) (h : EInv s)
    (hc : ∀ i, (committee i).length ≤ s.threshold) : EInv (endBlock s committee height nowNs) := by
  unfold endBlock
  simp only []
  have h1 := aggregateAll_einv s.pending s h
  have h2 : EInv { aggregateAll s s.pending with pending := [] } := einv_of_frame _ _ h1 rfl rfl rfl rfl rfl rfl rfl
  have h3 := expireGo_einv height nowNs (aggregateAll s s.pending).expirations { aggregateAll s s.pending with pending := [] } [] 0 h2
  have hthr : (expireGo height nowNs (aggregateAll s s.pending).expirations { aggregateAll s s.pending with pending := [] } [] 0).1.threshold = s.threshold := by
    have a : ∀ (l : List Nat) (st : State), (aggregateAll st l).threshold = st.threshold := by
      intro l; induction l with
      | nil => intro st; rfl
      | cons x xs ihx =>
        intro st; simp only [aggregateAll]
        cases st.signings x with
        | none => exact ihx st
        | some sg =>
          simp only []; rw [ihx]
          exact (onCompleted_frame _ x _).2.2.2.2.2.2.2.2.2.1
    have b : ∀ (l : List (Nat × Nat)) (st : State) (acc : List Nat) (n : Nat), (expireGo height nowNs l st acc n).1.threshold = st.threshold := by
      intro l; induction l with
      | nil => intro st acc n; rfl
      | cons e rest ihe =>
        intro st acc n
        obtain ⟨i, a'⟩ := e
        simp only [expireGo]
        cases st.signings i with
        | none => rfl
        | some sg =>
          cases st.attempts i a' with
          | none => rfl
          | some atm =>
            simp only []
            split
            · rfl
            · rw [ihe]
              split
              · exact (onTimeout_frame i sg.attempt nowNs _ st).2.2.2.2.2.2.2.2.1
              · rfl
    rw [b]; exact a s.pending s
  apply retryAll_einv
  · exact einv_of_frame _ _ h3 rfl rfl rfl rfl rfl rfl rfl
  · intro i; show (committee i).length ≤ (expireGo height nowNs (aggregateAll s s.pending).expirations { aggregateAll s s.pending with pending := [] } [] 0).1.threshold
    rw [hthr]; exact hc i

/-! ### a signing request -/
theorem request_cases (s : State) (sender : Nat) (auth : Bool) (limit : Coins) (c : List Nat) (height : Int) :
    (request s sender auth limit c height).1 = s ∨
    (∃ sg, (request s sender auth limit c height).1 =
        recordB (initiated (fresh (escrowed s sender auth)) ((escrowed s sender auth).count + 1) sg c height) (feeFor s auth) sender) := by
  unfold request
  cases requestErr s sender auth limit <;> simp only [] <;> try (exact Or.inl trivial)
  rw [tssRequest_eq]
  by_cases hok : (initiate (fresh (escrowed s sender auth)) ((escrowed s sender auth).count + 1) c height).2 = Err.ok
  · rw [if_pos hok]
    rcases initiate_cases (fresh (escrowed s sender auth)) ((escrowed s sender auth).count + 1) c height with ⟨hne, _⟩ | ⟨sg, _, _, he⟩
    · exact absurd hok hne
    · right; exact ⟨sg, by simp only [he]⟩
  · rw [if_neg hok]
    left
    cases he : (initiate (fresh (escrowed s sender auth)) ((escrowed s sender auth).count + 1) c height).2 <;> first
      | exact absurd he hok
      | rfl

theorem request_einv (s : State) (sender : Nat) (auth : Bool) (limit : Coins) (c : List Nat) (height : Int) (h : EInv s)
    (hc : c.length ≤ s.threshold) : EInv (request s sender auth limit c height).1 ∧ (request s sender auth limit c height).1.threshold = s.threshold := by
  have hcount : (escrowed s sender auth).count = s.count := by unfold escrowed; split <;> rfl
  rcases request_cases s sender auth limit c height with e | ⟨sg, e⟩
  · rw [e]; exact ⟨h, rfl⟩
  · rw [hcount] at e
    rw [e]
    have hthr : (escrowed s sender auth).threshold = s.threshold := by unfold escrowed; split <;> rfl
    have hmap : (escrowed s sender auth).mapping = s.mapping := by unfold escrowed; split <;> rfl
    have hbs : (escrowed s sender auth).bsigs = s.bsigs := by unfold escrowed; split <;> rfl
    have hbc : (escrowed s sender auth).bcount = s.bcount := by unfold escrowed; split <;> rfl
    have hatt : (escrowed s sender auth).attempts = s.attempts := by unfold escrowed; split <;> rfl
    have hq : (escrowed s sender auth).queues = s.queues := by unfold escrowed; split <;> rfl
    have hesc : ∀ d, (escrowed s sender auth).escrow d = s.escrow d + feeFor s auth d * s.threshold := by
      intro d; unfold escrowed
      cases auth with
      | true => simp [feeFor]
      | false => simp [addC, reqCost, mulC, feeFor]
    refine ⟨⟨?_, ?_, ?_, ?_, ?_⟩, ?_⟩
    rotate_left 4
    · intro i hi
      simp only [recordB, initiated, fresh, hcount, hmap, hbs, hbc] at hi ⊢
      by_cases e' : i = s.count + 1
      · simp [e']
      · simp only [e', if_false] at hi ⊢
        have : s.mapping i ≠ s.bcount + 1 := by have := h.bids i; omega
        simp only [this, if_false]; exact h.mapped i hi
    · simp only [recordB, initiated, fresh, hthr]
    · -- the escrow grew by exactly what is owed for the new signing
      intro d
      have hnew : ∀ i, i ≠ s.count + 1 → owed (recordB (initiated (fresh (escrowed s sender auth)) (s.count + 1) sg c height) (feeFor s auth) sender) i d = owed s i d := by
        intro i hi
        unfold owed
        simp only [recordB, initiated, fresh, hcount, hthr, hmap, hbs, hbc, hi, if_false]
        by_cases hm0 : s.mapping i = 0
        · simp [hm0]
        · have : s.mapping i ≠ s.bcount + 1 := by have := h.bids i; omega
          simp [hm0, this]
      have hself : owed (recordB (initiated (fresh (escrowed s sender auth)) (s.count + 1) sg c height) (feeFor s auth) sender) (s.count + 1) d
          = feeFor s auth d * s.threshold := by
        unfold owed
        simp [recordB, initiated, fresh, hcount, hthr, hbc]
      show owedSum _ d ≤ (escrowed s sender auth).escrow d
      rw [hesc d]
      unfold owedSum
      show ((List.range ((escrowed s sender auth).count + 1 + 1)).map _).sum ≤ _
      rw [hcount, List.range_succ, List.map_append, List.sum_append]
      simp only [List.map_cons, List.map_nil, List.sum_cons, List.sum_nil, hself]
      have hold : ((List.range (s.count + 1)).map fun i => owed (recordB (initiated (fresh (escrowed s sender auth)) (s.count + 1) sg c height) (feeFor s auth) sender) i d).sum
          = ((List.range (s.count + 1)).map fun i => owed s i d).sum := by
        congr 1; apply List.map_congr_left; intro i hi; exact hnew i (by have := List.mem_range.mp hi; omega)
      rw [hold]
      have := h.covers d
      unfold owedSum at this
      omega
    · intro i a atm q
      simp only [recordB, initiated, fresh, hcount, hatt, hq] at q
      show atm.assigned.length ≤ (escrowed s sender auth).threshold
      rw [hthr]
      by_cases e' : i = s.count + 1 ∧ a = sg.attempt + 1
      · simp only [e', and_self, if_true] at q; cases q
        exact Nat.le_trans (dequeueAll_length c s.queues) hc
      · simp only [e', if_false] at q; exact h.small i a atm q
    · intro i
      simp only [recordB, initiated, fresh, hcount, hmap, hbc]
      split
      · omega
      · have := h.bids i; omega
    · intro i hi
      simp only [recordB, initiated, fresh, hcount, hmap] at hi ⊢
      have : i ≠ s.count + 1 := by omega
      simp only [this, if_false]
      exact h.sids i (by omega)

end BandVerif.Signing
