/- C03: the table routine never indexes outside its tables (no Go panic) for distinct member ids in 1..20: the exponent of
   every table prime stays within the precomputed powers.  Mathlib. -/
import BandVerif.Lemmas.LagrangeTable

namespace BandVerif.Lagrange
open BandVerif.Generated

/-- exponent of k in a factor list -/
def expOf (k : Nat) (l : List (Nat × Nat)) : Nat := ((l.filter (fun v => v.1 == k)).map (·.2)).sum

theorem addF_apply (l : List (Nat × Nat)) (acc : Nat → Int) (k : Nat) : (addF acc l) k = acc k + (expOf k l : Int) := by
  induction l generalizing acc with
  | nil => simp [addF, expOf]
  | cons v vs ih =>
    show (addF (fun p => if p = v.1 then acc p + v.2 else acc p) vs) k = _
    rw [ih]
    unfold expOf
    by_cases e : v.1 = k
    · subst e; simp [List.filter_cons]; ring
    · have e' : ¬ k = v.1 := fun h => e h.symm
      simp [List.filter_cons, e, e']

theorem subF_apply (l : List (Nat × Nat)) (acc : Nat → Int) (k : Nat) : (subF acc l) k = acc k - (expOf k l : Int) := by
  induction l generalizing acc with
  | nil => simp [subF, expOf]
  | cons v vs ih =>
    show (subF (fun p => if p = v.1 then acc p - v.2 else acc p) vs) k = _
    rw [ih]
    unfold expOf
    by_cases e : v.1 = k
    · subst e; simp [List.filter_cons]; ring
    · have e' : ¬ k = v.1 := fun h => e h.symm
      simp [List.filter_cons, e, e']

/-- exponent of k in n according to the table -/
def ex (k n : Nat) : Nat := expOf k (factorsOf n)

theorem countsFrom_apply (i : Nat) (js : List Nat) (acc : (Nat → Int) × Int) (k : Nat) :
    (countsFrom i js acc).1 k = acc.1 k + ((js.map (fun j => ex k j)).sum : Int) - ((js.map (fun j => ex k (dist i j))).sum : Int) := by
  induction js generalizing acc with
  | nil => simp [countsFrom]
  | cons j rest ih =>
    have step : countsFrom i (j :: rest) acc =
        countsFrom i rest (subF (addF acc.1 (factorsOf j)) (factorsOf (dist i j)), if j < i then -acc.2 else acc.2) := rfl
    rw [step, ih]
    simp only [subF_apply, addF_apply, List.map_cons, List.sum_cons, ex]
    push_cast; ring

/-- the largest exponent the power table of k can serve (0 without a table) -/
def tblMax (k : Nat) : Nat := ((Frost.PRECOMPUTED_POWERS.find? (·.1 == k)).map fun e => e.2.length - 1).getD 0

theorem ex_total_le (k : Nat) (hk : k < 20) : ((List.range' 1 20).map (fun n => ex k n)).sum ≤ tblMax k := by
  have : ∀ k ∈ List.range 20, ((List.range' 1 20).map (fun n => ex k n)).sum ≤ tblMax k := by decide
  exact this k (List.mem_range.mpr hk)

theorem ex_dist_le (i k : Nat) (hi1 : 1 ≤ i) (hi2 : i ≤ 20) (hk : k < 20) :
    ((List.range' 1 (i - 1)).map (fun n => ex k n)).sum + ((List.range' 1 (20 - i)).map (fun n => ex k n)).sum ≤ tblMax k := by
  have : ∀ i ∈ List.range' 1 20, ∀ k ∈ List.range 20,
      ((List.range' 1 (i - 1)).map (fun n => ex k n)).sum + ((List.range' 1 (20 - i)).map (fun n => ex k n)).sum ≤ tblMax k := by decide
  exact this i (by simp [List.mem_range'_1]; omega) k (List.mem_range.mpr hk)

theorem powerOf_isSome (k v : Nat) (hk : k < 20) (h1 : 1 ≤ v) (h2 : v ≤ tblMax k) : (powerOf k v).isSome = true := by
  have : ∀ k ∈ List.range 20, ∀ v ∈ List.range 20, 1 ≤ v → v ≤ tblMax k → (powerOf k v).isSome = true := by decide
  have hv : v < 20 := by
    have : ∀ k ∈ List.range 20, tblMax k < 20 := by decide
    have := this k (List.mem_range.mpr hk); omega
  exact this k (List.mem_range.mpr hk) v (List.mem_range.mpr hv) h1 h2

/-- a sum over distinct elements of a list is at most the sum over the list -/
theorem sum_le_of_nodup_subset (l m : List Nat) (f : Nat → Nat) (hl : l.Nodup) (hs : ∀ x ∈ l, x ∈ m) :
    (l.map f).sum ≤ (m.map f).sum := by
  have hsp : l.Subperm m := List.subperm_of_subset hl hs
  obtain ⟨l', hp, hsub⟩ := hsp
  calc (l.map f).sum = (l'.map f).sum := ((hp.map f).sum_eq).symm
    _ ≤ (m.map f).sum := (hsub.map f).sum_le_sum (fun _ _ => Nat.zero_le _)

theorem sum_filter_split (l : List Nat) (p : Nat → Bool) (f : Nat → Nat) :
    (l.map f).sum = ((l.filter p).map f).sum + ((l.filter (fun x => !p x)).map f).sum := by
  induction l with
  | nil => rfl
  | cons x xs ih =>
    simp only [List.map_cons, List.sum_cons, List.filter_cons]
    cases hp : p x <;> simp [hp, ih] <;> omega

theorem loop_isSome (counts : Nat → Int)
    (hb : ∀ k, k < 20 → (counts k > 0 → (counts k).toNat ≤ tblMax k) ∧ (counts k < 0 → (-(counts k)).toNat ≤ tblMax k))
    (m : Nat) (hm : m ≤ 20) : ((List.range m).foldl (loopStep counts) (some (1, 1))).isSome = true := by
  induction m with
  | zero => rfl
  | succ m ih =>
    rw [List.range_succ, List.foldl_append]
    simp only [List.foldl_cons, List.foldl_nil]
    have := ih (by omega)
    cases hin : (List.range m).foldl (loopStep counts) (some (1, 1)) with
    | none => rw [hin] at this; cases this
    | some nd =>
      obtain ⟨n0, d0⟩ := nd
      simp only [loopStep]
      obtain ⟨b1, b2⟩ := hb m (by omega)
      by_cases hpos : counts m > 0
      · simp only [hpos, if_true]
        have := powerOf_isSome m (counts m).toNat (by omega) (by omega) (b1 hpos)
        cases hp : powerOf m (counts m).toNat with
        | none => rw [hp] at this; cases this
        | some pw => rfl
      · by_cases hneg : counts m < 0
        · simp only [hpos, if_false, hneg, if_true]
          have := powerOf_isSome m (-(counts m)).toNat (by omega) (by omega) (b2 hneg)
          cases hp : powerOf m (-(counts m)).toNat with
          | none => rw [hp] at this; cases this
          | some pw => rfl
        · simp only [hpos, hneg, if_false]; rfl

/-- PROPERTY (the table routine never panics): for distinct member ids in 1..20 every exponent stays within the precomputed
    power tables, so the routine returns -/
theorem pre_isSome (i : Nat) (s : List Nat) (hn : s.Nodup) (hi1 : 1 ≤ i) (hi2 : i ≤ 20) (hs : ∀ j ∈ s, 1 ≤ j ∧ j ≤ 20) :
    (pre i s).isSome = true := by
  rw [pre_eq]
  have hjs : ∀ j ∈ s.filter (· ≠ i), 1 ≤ j ∧ j ≤ 20 ∧ j ≠ i := by
    intro j hj
    obtain ⟨m1, m2⟩ := List.mem_filter.mp hj
    exact ⟨(hs j m1).1, (hs j m1).2, by simpa using m2⟩
  have hnd : (s.filter (· ≠ i)).Nodup := hn.filter _
  have hcounts : ∀ k, (countsOf i s).1 k = (((s.filter (· ≠ i)).map (fun j => ex k j)).sum : Int) - (((s.filter (· ≠ i)).map (fun j => ex k (dist i j))).sum : Int) := by
    intro k
    rw [countsOf_eq, countsFrom_apply]; simp
  have hA : ∀ k, k < 20 → ((s.filter (· ≠ i)).map (fun j => ex k j)).sum ≤ tblMax k := by
    intro k hk
    refine Nat.le_trans (sum_le_of_nodup_subset _ (List.range' 1 20) (fun n => ex k n) hnd ?_) (ex_total_le k hk)
    intro j hj
    obtain ⟨a, b, _⟩ := hjs j hj
    simp [List.mem_range'_1]; omega
  have hB : ∀ k, k < 20 → ((s.filter (· ≠ i)).map (fun j => ex k (dist i j))).sum ≤ tblMax k := by
    intro k hk
    rw [sum_filter_split (s.filter (· ≠ i)) (fun j => decide (j < i)) (fun j => ex k (dist i j))]
    -- below i
    have hlt : (((s.filter (· ≠ i)).filter (fun j => decide (j < i))).map (fun j => ex k (dist i j))).sum ≤
        ((List.range' 1 (i - 1)).map (fun n => ex k n)).sum := by
      have e : ((s.filter (· ≠ i)).filter (fun j => decide (j < i))).map (fun j => ex k (dist i j)) =
          (((s.filter (· ≠ i)).filter (fun j => decide (j < i))).map (fun j => i - j)).map (fun n => ex k n) := by
        rw [List.map_map]; apply List.map_congr_left
        intro j hj
        have : j < i := by simpa using (List.mem_filter.mp hj).2
        simp [dist, this]
      rw [e]
      apply sum_le_of_nodup_subset
      · apply List.Nodup.map_on _ (hnd.filter _)
        intro a ha b hb hab
        have ha' : a < i := by simpa using (List.mem_filter.mp ha).2
        have hb' : b < i := by simpa using (List.mem_filter.mp hb).2
        omega
      · intro x hx
        obtain ⟨j, hj, rfl⟩ := List.mem_map.mp hx
        have h1 : j < i := by simpa using (List.mem_filter.mp hj).2
        have h2 := hjs j (List.mem_filter.mp hj).1
        simp [List.mem_range'_1]; omega
    -- above i
    have hgt : (((s.filter (· ≠ i)).filter (fun j => !decide (j < i))).map (fun j => ex k (dist i j))).sum ≤
        ((List.range' 1 (20 - i)).map (fun n => ex k n)).sum := by
      have e : ((s.filter (· ≠ i)).filter (fun j => !decide (j < i))).map (fun j => ex k (dist i j)) =
          (((s.filter (· ≠ i)).filter (fun j => !decide (j < i))).map (fun j => j - i)).map (fun n => ex k n) := by
        rw [List.map_map]; apply List.map_congr_left
        intro j hj
        have : ¬ j < i := by simpa using (List.mem_filter.mp hj).2
        simp [dist, this]
      rw [e]
      apply sum_le_of_nodup_subset
      · apply List.Nodup.map_on _ (hnd.filter _)
        intro a ha b hb hab
        have ha' : ¬ a < i := by simpa using (List.mem_filter.mp ha).2
        have hb' : ¬ b < i := by simpa using (List.mem_filter.mp hb).2
        omega
      · intro x hx
        obtain ⟨j, hj, rfl⟩ := List.mem_map.mp hx
        have h1 : ¬ j < i := by simpa using (List.mem_filter.mp hj).2
        have h2 := hjs j (List.mem_filter.mp hj).1
        simp [List.mem_range'_1]; omega
    have := ex_dist_le i k hi1 hi2 hk
    omega
  have hsome := loop_isSome (countsOf i s).1 (by
    intro k hk
    rw [hcounts k]
    have a := hA k hk
    have b := hB k hk
    constructor <;> intro _ <;> omega) 20 (Nat.le_refl _)
  cases hl : (List.range 20).foldl (loopStep (countsOf i s).1) (some (1, 1)) with
  | none => rw [hl] at hsome; cases hsome
  | some nd => rfl

theorem checkInput_go_complete (mid : Nat) (l seen : List Nat) (inList opt : Bool) (hnd : l.Nodup) (hdis : ∀ x ∈ l, x ∉ seen)
    (hin : inList = true ∨ mid ∈ l) : checkInput.go mid l seen inList opt = (opt && l.all (fun x => decide (x ≤ 20)), LErr.ok) := by
  induction l generalizing seen inList opt with
  | nil =>
    have : inList = true := by rcases hin with h | h; exact h; cases h
    simp [checkInput.go, this]
  | cons id rest ih =>
    have hn := List.nodup_cons.mp hnd
    simp only [checkInput.go]
    have hns : id ∉ seen := hdis id (List.mem_cons_self ..)
    simp only [hns, if_false]
    rw [ih (id :: seen) (inList || id == mid) (opt && decide (id ≤ 20)) hn.2]
    · simp [Bool.and_assoc]
    · intro x hx hs
      rcases List.mem_cons.mp hs with rfl | hs'
      · exact hn.1 hx
      · exact hdis x (List.mem_cons_of_mem _ hx) hs'
    · rcases hin with h | h
      · left; simp [h]
      · rcases List.mem_cons.mp h with rfl | h'
        · left; simp
        · right; exact h'

/-- PROPERTY (the dispatcher is total and correct): for every list of distinct member ids that are positive and below the
    group order and every member of it, `ComputeLagrangeCoefficient` returns (no error, no panic) and the value is the
    Lagrange coefficient at 0 of that member within the member set -/
theorem coefficient_total_and_correct (mid : Nat) (l : List Nat) (hnd : l.Nodup) (hmem : mid ∈ l) (hpos : ∀ j ∈ l, 1 ≤ j ∧ j < N) :
    ∃ r, coefficient mid l = (some r, LErr.ok) ∧
      ((r : ℕ) : ZMod N) = Frost.lagrangeAtZero (l.toFinset.image (Nat.cast : ℕ → ZMod N)) (mid : ZMod N) := by
  have hc : checkInput mid l = (l.all (fun x => decide (x ≤ 20)), LErr.ok) := by
    unfold checkInput
    rw [checkInput_go_complete mid l [] false true hnd (fun _ _ => by simp) (Or.inr hmem)]
    simp
  have key : ∃ r, coefficient mid l = (some r, LErr.ok) := by
    unfold coefficient
    rw [hc]
    cases hall : l.all (fun x => decide (x ≤ 20)) with
    | false => exact ⟨_, rfl⟩
    | true =>
      have hle : ∀ j ∈ l, j ≤ 20 := by
        intro j hj; simpa using (List.all_eq_true.mp hall) j hj
      have := pre_isSome mid l hnd (hpos mid hmem).1 (hle mid hmem) (fun j hj => ⟨(hpos j hj).1, hle j hj⟩)
      cases hp : pre mid l with
      | none => rw [hp] at this; cases this
      | some r => exact ⟨r, by simp [hp]⟩
  obtain ⟨r, hr⟩ := key
  exact ⟨r, hr, (coefficient_is_lagrangeAtZero mid l hpos r hr).2.2⟩

end BandVerif.Lagrange
