/- C11: the logarithm approximation of PriceToTick is within one tick of the truth for EVERY uint64 price.
   Part 1 (this file): the approximation is monotone in the price, and a per-tick boundary check `achk`
   whose truth over the whole tick range (kernel-evaluated chunk-wise, `TickApprox/P*.lean`) gives the claim. -/
import BandVerif.Lemmas.Tick

namespace BandVerif.Tick

/-! ### most significant bit -/

theorem msbOf_spec (p : Nat) (h1 : 1 ≤ p) (h2 : p < 2 ^ 64) : msbOf p < 64 ∧ 2 ^ msbOf p ≤ p ∧ p < 2 ^ (msbOf p + 1) := by
  have key : msbOf p < 64 ∧ p >>> msbOf p = 1 := by
    unfold msbOf msbGo
    simp only [msbGo, Nat.shiftRight_eq_div_pow]
    repeat' split
    all_goals (try simp only [Nat.div_div_eq_div_mul])
    all_goals omega
  refine ⟨key.1, ?_, ?_⟩
  · have := key.2
    rw [Nat.shiftRight_eq_div_pow] at this
    have hp : 0 < 2 ^ msbOf p := Nat.pow_pos (by decide)
    have := (Nat.le_div_iff_mul_le hp).mp (Nat.le_of_eq this.symm)
    omega
  · have := key.2
    rw [Nat.shiftRight_eq_div_pow] at this
    have hp : 0 < 2 ^ msbOf p := Nat.pow_pos (by decide)
    have h : p / 2 ^ msbOf p < 2 := by omega
    have := (Nat.div_lt_iff_lt_mul hp).mp h
    rw [Nat.pow_succ]; omega

theorem msbOf_mono (p q : Nat) (hp : 1 ≤ p) (hpq : p ≤ q) (hq : q < 2 ^ 64) : msbOf p ≤ msbOf q := by
  obtain ⟨_, a1, _⟩ := msbOf_spec p hp (by omega)
  obtain ⟨_, _, b2⟩ := msbOf_spec q (by omega) hq
  by_cases c : msbOf p ≤ msbOf q
  · exact c
  · exfalso
    have : 2 ^ (msbOf q + 1) ≤ 2 ^ msbOf p := Nat.pow_le_pow_right (by decide) (by omega)
    omega

/-! ### the normalised mantissa -/

def InR (r : Nat) : Prop := 2 ^ 31 ≤ r ∧ r < 2 ^ 32

def mant (price : Nat) : Nat :=
  let msb := msbOf price
  if msb ≥ 32 then price >>> (msb - 31) else (price <<< (31 - msb)) % two64

theorem mant_eq_hi (p : Nat) (h : msbOf p ≥ 32) : mant p = p / 2 ^ (msbOf p - 31) := by
  unfold mant; simp only [h, if_true, Nat.shiftRight_eq_div_pow]

theorem mant_eq_lo (p : Nat) (h1 : 1 ≤ p) (h2 : p < 2 ^ 64) (h : ¬ msbOf p ≥ 32) : mant p = p * 2 ^ (31 - msbOf p) := by
  obtain ⟨_, _, b⟩ := msbOf_spec p h1 h2
  unfold mant; simp only [h, if_false, Nat.shiftLeft_eq]
  apply Nat.mod_eq_of_lt
  have e : 2 ^ (msbOf p + 1) * 2 ^ (31 - msbOf p) = 2 ^ 32 := by rw [← Nat.pow_add]; congr 1; omega
  have hpos : 0 < 2 ^ (31 - msbOf p) := Nat.pow_pos (by decide)
  have : p * 2 ^ (31 - msbOf p) < 2 ^ (msbOf p + 1) * 2 ^ (31 - msbOf p) := Nat.mul_lt_mul_of_pos_right b hpos
  unfold two64; omega

theorem mant_inR (p : Nat) (h1 : 1 ≤ p) (h2 : p < 2 ^ 64) : InR (mant p) := by
  obtain ⟨m64, a, b⟩ := msbOf_spec p h1 h2
  by_cases h : msbOf p ≥ 32
  · rw [mant_eq_hi p h]
    have hpos : 0 < 2 ^ (msbOf p - 31) := Nat.pow_pos (by decide)
    have e1 : 2 ^ 31 * 2 ^ (msbOf p - 31) = 2 ^ msbOf p := by rw [← Nat.pow_add]; congr 1; omega
    have e2 : 2 ^ 32 * 2 ^ (msbOf p - 31) = 2 ^ (msbOf p + 1) := by rw [← Nat.pow_add]; congr 1; omega
    constructor
    · exact (Nat.le_div_iff_mul_le hpos).mpr (by rw [e1]; exact a)
    · exact (Nat.div_lt_iff_lt_mul hpos).mpr (by rw [e2]; exact b)
  · rw [mant_eq_lo p h1 h2 h]
    have hpos : 0 < 2 ^ (31 - msbOf p) := Nat.pow_pos (by decide)
    have e1 : 2 ^ msbOf p * 2 ^ (31 - msbOf p) = 2 ^ 31 := by rw [← Nat.pow_add]; congr 1; omega
    have e2 : 2 ^ (msbOf p + 1) * 2 ^ (31 - msbOf p) = 2 ^ 32 := by rw [← Nat.pow_add]; congr 1; omega
    constructor
    · rw [← e1]; exact Nat.mul_le_mul_right _ a
    · rw [← e2]; exact Nat.mul_lt_mul_of_pos_right b hpos

theorem mant_mono (p q : Nat) (hp : 1 ≤ p) (hpq : p ≤ q) (hq : q < 2 ^ 64) (hm : msbOf p = msbOf q) : mant p ≤ mant q := by
  by_cases h : msbOf p ≥ 32
  · rw [mant_eq_hi p h, mant_eq_hi q (hm ▸ h), hm]
    exact Nat.div_le_div_right hpq
  · rw [mant_eq_lo p hp (by omega) h, mant_eq_lo q (by omega) hq (hm ▸ h), hm]
    exact Nat.mul_le_mul_right _ hpq

/-! ### the sixteen squaring steps -/

/-- one iteration: the bit produced and the next mantissa -/
def logStep (r : Nat) : Nat × Nat :=
  let r1 := ((r * r) % two64) >>> 31
  let f := r1 >>> 32
  (f, r1 >>> f)

/-- the bits of `logGo` as a sum, most significant first (`k` bits left) -/
def logAdd : Nat → Nat → Nat
  | 0, _ => 0
  | k + 1, r => (logStep r).1 * 2 ^ k + logAdd k (logStep r).2

theorem logStep_facts (r : Nat) (h : InR r) : ((logStep r).1 = 0 ∨ (logStep r).1 = 1) ∧ InR (logStep r).2 := by
  obtain ⟨a, b⟩ := h
  have l : 2 ^ 31 * 2 ^ 31 ≤ r * r := Nat.mul_le_mul a a
  have u : r * r < 2 ^ 32 * 2 ^ 32 := Nat.mul_lt_mul'' b b
  unfold logStep InR
  simp only []
  generalize r * r = x at l u
  have hx : x % two64 = x := Nat.mod_eq_of_lt (by unfold two64; omega)
  rw [hx]
  simp only [Nat.shiftRight_eq_div_pow]
  have hf : x / 2 ^ 31 / 2 ^ 32 = 0 ∨ x / 2 ^ 31 / 2 ^ 32 = 1 := by omega
  rcases hf with hf | hf
  · rw [hf]; refine ⟨Or.inl rfl, ?_⟩; simp only [Nat.pow_zero, Nat.div_one]; omega
  · rw [hf]; refine ⟨Or.inr rfl, ?_⟩; simp only [Nat.pow_one]; omega

theorem logStep_mono (r s : Nat) (hr : InR r) (hs : InR s) (h : r ≤ s) :
    (logStep r).1 < (logStep s).1 ∨ ((logStep r).1 = (logStep s).1 ∧ (logStep r).2 ≤ (logStep s).2) := by
  obtain ⟨a, b⟩ := hr
  obtain ⟨a', b'⟩ := hs
  have l : 2 ^ 31 * 2 ^ 31 ≤ r * r := Nat.mul_le_mul a a
  have u : s * s < 2 ^ 32 * 2 ^ 32 := Nat.mul_lt_mul'' b' b'
  have m : r * r ≤ s * s := Nat.mul_le_mul h h
  unfold logStep
  simp only []
  generalize r * r = x at l m
  generalize s * s = y at u m
  have hx : x % two64 = x := Nat.mod_eq_of_lt (by unfold two64; omega)
  have hy : y % two64 = y := Nat.mod_eq_of_lt (by unfold two64; omega)
  rw [hx, hy]
  simp only [Nat.shiftRight_eq_div_pow]
  have hf : x / 2 ^ 31 / 2 ^ 32 = 0 ∨ x / 2 ^ 31 / 2 ^ 32 = 1 := by omega
  have hg : y / 2 ^ 31 / 2 ^ 32 = 0 ∨ y / 2 ^ 31 / 2 ^ 32 = 1 := by omega
  clear hx hy
  rcases hf with hf | hf <;> rcases hg with hg | hg <;> rw [hf, hg]
  · simp only [Nat.pow_zero, Nat.div_one]; exact Or.inr ⟨trivial, Nat.div_le_div_right m⟩
  · exact Or.inl (by decide)
  · omega
  · simp only [Nat.pow_one]; exact Or.inr ⟨trivial, Nat.div_le_div_right (Nat.div_le_div_right m)⟩

theorem logAdd_lt (k r : Nat) (h : InR r) : logAdd k r < 2 ^ k := by
  induction k generalizing r with
  | zero => simp [logAdd]
  | succ k ih =>
    obtain ⟨f, hn⟩ := logStep_facts r h
    have := ih _ hn
    simp only [logAdd, Nat.pow_succ]
    rcases f with f | f <;> rw [f] <;> omega

theorem logAdd_mono (k r s : Nat) (hr : InR r) (hs : InR s) (h : r ≤ s) : logAdd k r ≤ logAdd k s := by
  induction k generalizing r s with
  | zero => simp [logAdd]
  | succ k ih =>
    obtain ⟨f, hn⟩ := logStep_facts r hr
    obtain ⟨g, hn'⟩ := logStep_facts s hs
    simp only [logAdd]
    rcases logStep_mono r s hr hs h with c | ⟨c1, c2⟩
    · have l := logAdd_lt k _ hn
      rcases f with f | f <;> rcases g with g | g <;> rw [f, g] at c ⊢ <;> omega
    · have := ih _ _ hn hn' c2
      rw [c1]; omega

theorem logGo_eq (k : Nat) : ∀ (i r c : Nat), i + k = 16 → InR r → logGo k i r (2 ^ k * c) = 2 ^ k * c + logAdd k r := by
  induction k with
  | zero => intro i r c _ _; simp [logGo, logAdd]
  | succ k ih =>
    intro i r c hik hr
    obtain ⟨f, hn⟩ := logStep_facts r hr
    have hsh : 15 - i = k := by omega
    have e : logGo (k + 1) i r (2 ^ (k + 1) * c) = logGo k (i + 1) (logStep r).2 (2 ^ (k + 1) * c ||| ((logStep r).1 <<< (15 - i))) := rfl
    rw [e, hsh, Nat.shiftLeft_eq]
    have hlt : (logStep r).1 * 2 ^ k < 2 ^ (k + 1) := by
      have : 0 < 2 ^ k := Nat.pow_pos (by decide)
      rw [Nat.pow_succ]; rcases f with f | f <;> rw [f] <;> omega
    rw [← Nat.two_pow_add_eq_or_of_lt hlt]
    have e2 : 2 ^ (k + 1) * c + (logStep r).1 * 2 ^ k = 2 ^ k * (2 * c + (logStep r).1) := by
      rw [Nat.pow_succ, Nat.mul_add, Nat.mul_comm (logStep r).1, Nat.mul_assoc]
    rw [e2, ih (i + 1) _ _ (by omega) hn, ← e2]
    simp only [logAdd]; omega

/-- the 16.16 fixed-point logarithm computed by PriceToTick -/
def log2Of (price : Nat) : Nat := logGo 16 0 (mant price) (msbOf price <<< 16)

theorem log2Of_eq (p : Nat) (h1 : 1 ≤ p) (h2 : p < 2 ^ 64) : log2Of p = 2 ^ 16 * msbOf p + logAdd 16 (mant p) := by
  unfold log2Of
  rw [Nat.shiftLeft_eq, Nat.mul_comm]
  exact logGo_eq 16 0 _ _ rfl (mant_inR p h1 h2)

theorem log2Of_mono (p q : Nat) (hp : 1 ≤ p) (hpq : p ≤ q) (hq : q < 2 ^ 64) : log2Of p ≤ log2Of q := by
  rw [log2Of_eq p hp (by omega), log2Of_eq q (by omega) hq]
  have hm := msbOf_mono p q hp hpq hq
  by_cases e : msbOf p = msbOf q
  · have := logAdd_mono 16 _ _ (mant_inR p hp (by omega)) (mant_inR q (by omega) hq) (mant_mono p q hp hpq hq e)
    rw [e]; omega
  · have := logAdd_lt 16 _ (mant_inR p hp (by omega))
    omega

theorem approxTick_eq (p : Nat) : approxTick p = (((log2Of p : Nat) : Int) - 1959352) * 454283648 / 4294967296 := by
  unfold approxTick log2Of mant
  simp only [Int.shiftRight_eq_div_pow]
  rfl

/-- the approximate tick is monotone in the price over the whole uint64 range -/
theorem approxTick_mono (p q : Nat) (hp : 1 ≤ p) (hpq : p ≤ q) (hq : q < 2 ^ 64) : approxTick p ≤ approxTick q := by
  rw [approxTick_eq, approxTick_eq]
  have := log2Of_mono p q hp hpq hq
  omega

/-! ### the per-tick boundary check -/

def tlo : Int := -207244
def thi : Int := 236393
def nTicks : Nat := 443638

/-- the least price whose target `price·2^96` reaches the price of tick `t` -/
def loP (t : Int) : Nat := (x96 t + q96 - 1) / q96

/-- for `n` consecutive ticks starting at `t` (`lo = loP t`): the approximation at the first price of the tick is at
    least `t − 1`, and at the last price before the next tick (capped at 2^64 − 1) at most `t + 1` -/
def achk : Nat → Int → Nat → Bool
  | 0, _, _ => true
  | n + 1, t, lo =>
    let lo' := loP (t + 1)
    (decide (t - 1 ≤ approxTick lo) && decide (approxTick (min (lo' - 1) maxUint64) ≤ t + 1)) && achk n (t + 1) lo'

def AStep (t : Int) : Prop := t - 1 ≤ approxTick (loP t) ∧ approxTick (min (loP (t + 1) - 1) maxUint64) ≤ t + 1

theorem achk_sound (n : Nat) (t : Int) (lo : Nat) (hl : lo = loP t) (h : achk n t lo = true) : ∀ i : Nat, i < n → AStep (t + i) := by
  induction n generalizing t lo with
  | zero => intro i hi; omega
  | succ n ih =>
    simp only [achk, Bool.and_eq_true, decide_eq_true_eq] at h
    obtain ⟨⟨h1, h2⟩, h3⟩ := h
    intro i hi
    cases i with
    | zero => subst hl; simpa using ⟨h1, h2⟩
    | succ i =>
      have := ih (t + 1) (loP (t + 1)) rfl h3 i (by omega)
      rw [show t + ((i + 1 : Nat) : Int) = t + 1 + (i : Int) from by omega]; exact this

end BandVerif.Tick
