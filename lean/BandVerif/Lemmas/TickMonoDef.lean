/- C11: strict monotonicity of the binary-tick price products, checked chunk-wise by kernel evaluation. -/
import BandVerif.Model.Tick

namespace BandVerif.Tick

/-- one step: the product for |tick| = a+1 is strictly smaller (and positive), and its inverse strictly larger -/
def Step (a : Nat) : Prop := ratio (a + 1) < ratio a ∧ maxUint192 / ratio a < maxUint192 / ratio (a + 1) ∧ 0 < ratio (a + 1)

def chk : Nat → Nat → Nat → Bool
  | 0, _, _ => true
  | n + 1, a, prev =>
    let v := ratio (a + 1)
    (decide (v < prev) && decide (maxUint192 / prev < maxUint192 / v) && decide (0 < v)) && chk n (a + 1) v

theorem chk_sound (n a prev : Nat) (hp : prev = ratio a) (h : chk n a prev = true) : ∀ i, i < n → Step (a + i) := by
  induction n generalizing a prev with
  | zero => intro i hi; omega
  | succ n ih =>
    simp only [chk, Bool.and_eq_true, decide_eq_true_eq] at h
    obtain ⟨⟨⟨h1, h2⟩, h3⟩, h4⟩ := h
    intro i hi
    cases i with
    | zero => subst hp; exact ⟨h1, h2, h3⟩
    | succ i =>
      have := ih (a + 1) (ratio (a + 1)) rfl h4 i (by omega)
      rw [show a + (i + 1) = a + 1 + i from by omega]; exact this

end BandVerif.Tick
