/- C04 lemmas (Mathlib): the DKG algebra of Model/Dkg.lean on a module over a field. -/
import BandVerif.Model.Dkg
import BandVerif.Lemmas.Frost

namespace BandVerif.Dkg
open BandVerif.Frost

variable {F V : Type} [Field F] [DecidableEq F] [AddCommGroup V] [Module F V] [DecidableEq V]

/-- Σ coeffs[k]·x^k by Horner (the dealer-side `ComputeSecretShare`) -/
def evalScalar (coeffs : List F) (x : F) : F := coeffs.foldr (fun c acc => c + x * acc) 0

theorem evalCommits_image (g : V) (coeffs : List F) (x : F) :
    evalCommits (modOps g) (coeffs.map (· • g)) x = evalScalar coeffs x • g := by
  induction coeffs with
  | nil => simp [evalCommits, evalScalar, modOps]
  | cons c cs ih =>
    simp only [List.map_cons, evalCommits, List.foldr_cons, evalScalar] at ih ⊢
    show c • g + x • _ = _
    rw [ih, add_smul, mul_smul]

theorem evalCommits_nil (g : V) (x : F) : evalCommits (modOps g) ([] : List V) x = 0 := rfl

/-- accumulation is additive under evaluation -/
theorem evalCommits_addCommits (g : V) (acc cs : List V) (x : F) :
    evalCommits (modOps g) (addCommits (modOps (F := F) g) acc cs) x = evalCommits (modOps g) acc x + evalCommits (modOps g) cs x := by
  induction cs generalizing acc with
  | nil => cases acc <;> simp [addCommits, evalCommits, modOps]
  | cons c cs ih =>
    cases acc with
    | nil =>
      simp only [addCommits]
      have := ih []
      simp only [evalCommits, List.foldr_cons, List.foldr_nil] at this ⊢
      show c + x • _ = (0 : V) + (c + x • _)
      rw [this]; simp [modOps]
    | cons a as =>
      simp only [addCommits]
      have := ih as
      simp only [evalCommits, List.foldr_cons] at this ⊢
      show (c + a) + x • _ = (a + x • _) + (c + x • _)
      rw [this, smul_add]; abel

/-- the constant term of the accumulation is the sum of the constant terms -/
theorem head_addCommits (g : V) (a c : V) (as cs : List V) :
    (addCommits (modOps (F := F) g) (a :: as) (c :: cs)).head? = some (c + a) := rfl

/-- `VerifySecretShare` against commitments a_k·g accepts exactly the polynomial value -/
theorem verifySecretShare_iff (g : V) (hg : ∀ a : F, a • g = 0 → a = 0) (coeffs : List F) (mid s : F) :
    verifySecretShare (modOps g) mid s (coeffs.map (· • g)) = true ↔ s = evalScalar coeffs mid := by
  unfold verifySecretShare
  rw [decide_eq_true_eq, evalCommits_image]
  show s • g = _ ↔ _
  constructor
  · intro h
    have : (s - evalScalar coeffs mid) • g = 0 := by rw [sub_smul, h, sub_self]
    exact sub_eq_zero.mp (hg _ this)
  · intro h; rw [h]

theorem schnorrVerifyGen_iff (g gen R : V) (s c : F) (Q : V) :
    schnorrVerifyGen (modOps g) gen R s c Q = true ↔ s • gen - c • Q = R ∧ R ≠ 0 := by
  unfold schnorrVerifyGen modOps
  simp only [Bool.and_eq_true, decide_eq_true_eq, ← sub_eq_add_neg]
  constructor
  · rintro ⟨h1, h2⟩; exact ⟨h2, h2 ▸ h1⟩
  · rintro ⟨h1, h2⟩; exact ⟨h1 ▸ h2, h1⟩

end BandVerif.Dkg
