import BandVerif.Model.Signal

namespace BandVerif.Signal
open BandVerif.Generated

theorem foldl_add_eq (l : List Int) (a : Int) : l.foldl (fun acc x => acc + x) a = a + l.sum := by
  induction l generalizing a with
  | nil => simp
  | cons x xs ih => simp [List.foldl, ih]; omega

theorem lockSum_eq_sum (l : List Int) : Feeds.lockSum l = l.sum := by
  unfold Feeds.lockSum
  rw [foldl_add_eq]; omega

theorem inv_empty : Inv State.empty := by
  refine ⟨List.nodup_nil, fun _ _ => rfl, fun id => ?_, fun v s hs => ?_⟩
  · simp [State.empty, sumVotes]
  · simp [State.empty] at hs

/-! ### validateBasic -/
theorem validateBasic_pos : ∀ (l : List Sig) (seen : List String), validateBasic l seen = Err.ok → ∀ s ∈ l, 0 < s.power
  | [], _, _, s, hs => by simp at hs
  | x :: rest, seen, h, s, hs => by
    unfold validateBasic at h
    split at h; · cases h
    split at h; · cases h
    split at h; · cases h
    split at h; · cases h
    rcases List.mem_cons.mp hs with rfl | hm
    · omega
    · exact validateBasic_pos rest _ h s hm

/-! ### vote: facts on acceptance / rejection -/
theorem vote_err_state (p : Params) (st : State) (voter : Nat) (signals : List Sig) (tp : Int)
    (h : (vote p st voter signals tp).2 ≠ Err.ok) : (vote p st voter signals tp).1 = st := by
  unfold vote at *
  cases hp : preErr p signals tp <;> simp only [hp] at h ⊢
  cases ha : applyDiffs (st.votes voter) signals (touched (st.votes voter) signals) st.totals <;>
    simp only [ha] at h ⊢
  exact absurd rfl h

theorem preErr_ok (p : Params) (signals : List Sig) (tp : Int) (h : preErr p signals tp = Err.ok) :
    validateBasic signals [] = Err.ok ∧ signals.length ≤ p.maxCurrentFeeds ∧
    0 ≤ lockOf signals ∧ lockOf signals < 18446744073709551616 ∧ lockOf signals ≤ tp := by
  unfold preErr at h
  cases hv : validateBasic signals [] <;> simp only [hv] at h <;> try (cases h)
  split at h; · cases h
  split at h; · cases h
  split at h; · cases h
  refine ⟨rfl, by omega, by omega, by omega, by omega⟩

theorem vote_ok (p : Params) (st : State) (voter : Nat) (signals : List Sig) (tp : Int)
    (h : (vote p st voter signals tp).2 = Err.ok) :
    preErr p signals tp = Err.ok ∧ ∃ t, applyDiffs (st.votes voter) signals (touched (st.votes voter) signals) st.totals = some t ∧
      (vote p st voter signals tp).1 = commit st voter signals t := by
  unfold vote at *
  cases hp : preErr p signals tp <;> simp only [hp] at h ⊢ <;> try (cases h)
  cases ha : applyDiffs (st.votes voter) signals (touched (st.votes voter) signals) st.totals <;>
    simp only [ha] at h ⊢
  · cases h
  · exact ⟨trivial, _, rfl, rfl⟩

theorem vote_ok_facts (p : Params) (st : State) (voter : Nat) (signals : List Sig) (tp : Int)
    (h : (vote p st voter signals tp).2 = Err.ok) :
    (signals.map (·.power)).sum ≤ tp ∧
    (vote p st voter signals tp).1.locks voter = (signals.map (·.power)).sum ∧
    signals.length ≤ p.maxCurrentFeeds ∧ (∀ s ∈ signals, 0 < s.power) := by
  obtain ⟨hp, t, _, hst⟩ := vote_ok p st voter signals tp h
  obtain ⟨hv, hl, _, _, hle⟩ := preErr_ok p signals tp hp
  have e : lockOf signals = (signals.map (·.power)).sum := by unfold lockOf; exact lockSum_eq_sum _
  rw [hst]
  refine ⟨by omega, by simp [commit, e], hl, validateBasic_pos _ _ hv⟩

/-! ### int64 wrap algebra -/
theorem wrap_add_wrap (a b : Int) : i64.wrap (i64.wrap a + b) = i64.wrap (a + b) := by
  unfold i64.wrap; omega
theorem wrap_sub_wrap (a b : Int) : i64.wrap (i64.wrap a - b) = i64.wrap (a - b) := by
  unfold i64.wrap; omega
theorem wrap_add_wrap' (a b : Int) : i64.wrap (a + i64.wrap b) = i64.wrap (a + b) := by
  unfold i64.wrap; omega
theorem wrap_id {x : Int} (h0 : 0 ≤ x) (h1 : x < 9223372036854775808) : i64.wrap x = x := by
  unfold i64.wrap; omega

theorem foldl_sub_wrap (l : List Sig) (d : Int) :
    l.foldl (fun a s => i64.sub a s.power) (i64.wrap d) = i64.wrap (d - (l.map (·.power)).sum) := by
  induction l generalizing d with
  | nil => simp
  | cons x xs ih =>
    simp only [List.foldl, List.map, List.sum_cons]
    have : i64.sub (i64.wrap d) x.power = i64.wrap (d - x.power) := by unfold i64.sub; exact wrap_sub_wrap _ _
    rw [this, ih]; congr 1; omega

theorem foldl_add_wrap (l : List Sig) (d : Int) :
    l.foldl (fun a s => i64.add a s.power) (i64.wrap d) = i64.wrap (d + (l.map (·.power)).sum) := by
  induction l generalizing d with
  | nil => simp
  | cons x xs ih =>
    simp only [List.foldl, List.map, List.sum_cons]
    have : i64.add (i64.wrap d) x.power = i64.wrap (d + x.power) := by unfold i64.add; exact wrap_add_wrap _ _
    rw [this, ih]; congr 1; omega

theorem diff64_eq (old new : List Sig) (id : String) :
    diff64 old new id = i64.wrap (powerIn new id - powerIn old id) := by
  unfold diff64 powerIn
  have h0 : (0 : Int) = i64.wrap 0 := by unfold i64.wrap; omega
  simp only []
  rw [h0, foldl_sub_wrap, foldl_add_wrap]; congr 1; omega

/-! ### touched ids -/
theorem insertNew_nodup (l : List String) (x : String) (h : l.Nodup) : (insertNew l x).Nodup := by
  unfold insertNew; split
  · exact h
  · rename_i hx
    exact List.nodup_append.mpr ⟨h, by simp, by intro a ha b hb; simp at hb; subst hb; intro e; subst e; exact hx ha⟩

theorem mem_insertNew (l : List String) (x y : String) : y ∈ insertNew l x ↔ y ∈ l ∨ y = x := by
  unfold insertNew; split
  · rename_i hx; constructor
    · exact Or.inl
    · rintro (h | rfl); exact h; exact hx
  · simp

theorem foldl_insertNew_nodup (l : List Sig) (acc : List String) (h : acc.Nodup) :
    (l.foldl (fun acc s => insertNew acc s.id) acc).Nodup := by
  induction l generalizing acc with
  | nil => exact h
  | cons x xs ih => exact ih _ (insertNew_nodup _ _ h)

theorem mem_foldl_insertNew (l : List Sig) (acc : List String) (y : String) :
    y ∈ l.foldl (fun acc s => insertNew acc s.id) acc ↔ y ∈ acc ∨ ∃ s ∈ l, s.id = y := by
  induction l generalizing acc with
  | nil => simp
  | cons x xs ih =>
    simp only [List.foldl, ih, mem_insertNew, List.mem_cons, exists_eq_or_imp]
    constructor
    · rintro ((h | h) | h)
      · exact Or.inl h
      · exact Or.inr (Or.inl h.symm)
      · exact Or.inr (Or.inr h)
    · rintro (h | h | h)
      · exact Or.inl (Or.inl h)
      · exact Or.inl (Or.inr h.symm)
      · exact Or.inr h

theorem touched_nodup (old new : List Sig) : (touched old new).Nodup := by
  unfold touched
  exact (List.mergeSort_perm _ _).nodup_iff.mpr (foldl_insertNew_nodup _ _ List.nodup_nil)

theorem mem_touched (old new : List Sig) (y : String) :
    y ∈ touched old new ↔ ∃ s ∈ old ++ new, s.id = y := by
  unfold touched
  rw [(List.mergeSort_perm _ _).mem_iff, mem_foldl_insertNew]; simp

theorem powerIn_of_not_mem (l : List Sig) (id : String) (h : ¬ ∃ s ∈ l, s.id = id) : powerIn l id = 0 := by
  unfold powerIn
  have : l.filter (fun s => decide (s.id = id)) = [] := by
    apply List.filter_eq_nil_iff.mpr
    intro s hs; simp; intro e; exact h ⟨s, hs, e⟩
  simp [this]

/-! ### applyDiffs -/
theorem applyDiffs_spec (old new : List Sig) (ids : List String) (t : String → Int) (hn : ids.Nodup)
    (hb : ∀ id ∈ ids, 0 ≤ t id + (powerIn new id - powerIn old id) ∧
                       t id + (powerIn new id - powerIn old id) < 9223372036854775808) :
    ∃ t', applyDiffs old new ids t = some t' ∧
      ∀ id, t' id = if id ∈ ids then t id + (powerIn new id - powerIn old id) else t id := by
  induction ids generalizing t with
  | nil => exact ⟨t, rfl, by simp⟩
  | cons x xs ih =>
    have hx := hb x (List.mem_cons_self ..)
    have hv : i64.add (t x) (diff64 old new x) = t x + (powerIn new x - powerIn old x) := by
      rw [diff64_eq]; unfold i64.add; rw [wrap_add_wrap']; exact wrap_id hx.1 hx.2
    have hnx : x ∉ xs := (List.nodup_cons.mp hn).1
    unfold applyDiffs
    simp only [hv]
    rw [if_neg (by omega)]
    obtain ⟨t', h1, h2⟩ := ih (fun y => if y = x then t x + (powerIn new x - powerIn old x) else t y)
      (List.nodup_cons.mp hn).2 (by
        intro id hid
        have : id ≠ x := fun e => hnx (e ▸ hid)
        simp only [this, if_false]
        exact hb id (List.mem_cons_of_mem _ hid))
    refine ⟨t', h1, fun id => ?_⟩
    rw [h2 id]
    by_cases hix : id = x
    · subst hix; simp [hnx]
    · by_cases hm : id ∈ xs <;> simp [hix, hm]

/-! ### sums under a one-point update -/
theorem sum_map_update (l : List Nat) (f : Nat → Int) (a : Nat) (b : Int) (hn : l.Nodup) (ha : a ∈ l) :
    (l.map (fun v => if v = a then b else f v)).sum = (l.map f).sum - f a + b := by
  induction l with
  | nil => simp at ha
  | cons x xs ih =>
    simp only [List.map, List.sum_cons]
    have hx := List.nodup_cons.mp hn
    by_cases hxa : x = a
    · subst hxa
      have : xs.map (fun v => if v = x then b else f v) = xs.map f := by
        apply List.map_congr_left; intro v hv
        have : v ≠ x := fun e => hx.1 (e ▸ hv)
        simp [this]
      rw [this]; simp; omega
    · have : a ∈ xs := by
        rcases List.mem_cons.mp ha with h | h
        · exact absurd h.symm hxa
        · exact h
      rw [ih hx.2 this]; simp [hxa]; omega

theorem sum_map_update_not_mem (l : List Nat) (f : Nat → Int) (a : Nat) (b : Int) (ha : a ∉ l) :
    (l.map (fun v => if v = a then b else f v)).sum = (l.map f).sum := by
  congr 1; apply List.map_congr_left; intro v hv
  have : v ≠ a := fun e => ha (e ▸ hv)
  simp [this]

theorem powerIn_nonneg (l : List Sig) (id : String) (h : ∀ s ∈ l, 0 < s.power) : 0 ≤ powerIn l id := by
  unfold powerIn
  induction l with
  | nil => simp
  | cons x xs ih =>
    have := ih (fun s hs => h s (List.mem_cons_of_mem _ hs))
    have hx := h x (List.mem_cons_self ..)
    simp only [List.filter]
    split <;> simp [List.sum_cons] <;> omega

theorem sumVotes_nonneg (voters : List Nat) (votes : Nat → List Sig) (id : String)
    (h : ∀ v, ∀ s ∈ votes v, 0 < s.power) : 0 ≤ sumVotes voters votes id := by
  unfold sumVotes
  induction voters with
  | nil => simp
  | cons x xs ih => simp only [List.map, List.sum_cons]; have := powerIn_nonneg (votes x) id (h x); omega

/-- the sum of standing votes after replacing `voter`'s vote -/
theorem sumVotes_replace (st : State) (voter : Nat) (signals : List Sig) (id : String) (hinv : Inv st) :
    sumVotes (if voter ∈ st.voters then st.voters else st.voters ++ [voter])
      (fun v => if v = voter then signals else st.votes v) id
    = st.totals id + (powerIn signals id - powerIn (st.votes voter) id) := by
  obtain ⟨hn, habs, htot, _⟩ := hinv
  rw [htot id]
  unfold sumVotes
  have hfun : (fun v => powerIn ((fun v => if v = voter then signals else st.votes v) v) id)
      = (fun v => if v = voter then powerIn signals id else powerIn (st.votes v) id) := by
    funext v; by_cases h : v = voter <;> simp [h]
  rw [hfun]
  by_cases hm : voter ∈ st.voters
  · simp only [hm, if_true]
    rw [sum_map_update _ (fun v => powerIn (st.votes v) id) voter _ hn hm]; omega
  · simp only [hm, if_false, List.map_append, List.sum_append, List.map, List.sum_cons, List.sum_nil]
    rw [sum_map_update_not_mem _ (fun v => powerIn (st.votes v) id) voter _ hm]
    have : powerIn (st.votes voter) id = 0 := by rw [habs voter hm]; simp [powerIn]
    simp; omega

theorem vote_applyDiffs (st : State) (voter : Nat) (signals : List Sig) (hinv : Inv st)
    (hpos : ∀ s ∈ signals, 0 < s.power)
    (hb : ∀ id, sumVotes (if voter ∈ st.voters then st.voters else st.voters ++ [voter])
                  (fun v => if v = voter then signals else st.votes v) id < 9223372036854775808) :
    ∃ t', applyDiffs (st.votes voter) signals (touched (st.votes voter) signals) st.totals = some t' ∧
      ∀ id, t' id = sumVotes (if voter ∈ st.voters then st.voters else st.voters ++ [voter])
                  (fun v => if v = voter then signals else st.votes v) id := by
  have hpos' : ∀ v, ∀ s ∈ (fun v => if v = voter then signals else st.votes v) v, 0 < s.power := by
    intro v s hs
    by_cases h : v = voter
    · simp [h] at hs; exact hpos s hs
    · simp [h] at hs; exact hinv.2.2.2 v s hs
  obtain ⟨t', h1, h2⟩ := applyDiffs_spec (st.votes voter) signals _ st.totals (touched_nodup _ _) (by
    intro id _
    rw [← sumVotes_replace st voter signals id hinv]
    exact ⟨sumVotes_nonneg _ _ id hpos', hb id⟩)
  refine ⟨t', h1, fun id => ?_⟩
  rw [h2 id, sumVotes_replace st voter signals id hinv]
  split
  · rfl
  · rename_i hm
    have hno : ¬ ∃ s ∈ st.votes voter ++ signals, s.id = id := fun h => hm ((mem_touched _ _ _).mpr h)
    have h1 : powerIn signals id = 0 := powerIn_of_not_mem _ _ (fun ⟨s, hs, e⟩ => hno ⟨s, List.mem_append_right _ hs, e⟩)
    have h2 : powerIn (st.votes voter) id = 0 := powerIn_of_not_mem _ _ (fun ⟨s, hs, e⟩ => hno ⟨s, List.mem_append_left _ hs, e⟩)
    omega

theorem commit_inv (st : State) (voter : Nat) (signals : List Sig) (t : String → Int) (hinv : Inv st)
    (hpos : ∀ s ∈ signals, 0 < s.power)
    (ht : ∀ id, t id = sumVotes (if voter ∈ st.voters then st.voters else st.voters ++ [voter])
                  (fun v => if v = voter then signals else st.votes v) id) :
    Inv (commit st voter signals t) := by
  obtain ⟨hn, habs, _, hp⟩ := hinv
  refine ⟨?_, ?_, ?_, ?_⟩
  · simp only [commit]
    split
    · exact hn
    · rename_i hm
      exact List.nodup_append.mpr ⟨hn, by simp, by intro a ha b hb; simp at hb; subst hb; intro e; subst e; exact hm ha⟩
  · intro v hv
    simp only [commit] at hv ⊢
    have hne : v ≠ voter := by
      intro e; subst e
      split at hv
      · rename_i hm; exact hv hm
      · simp at hv
    have hv' : v ∉ st.voters := by
      split at hv
      · exact hv
      · intro h; exact hv (List.mem_append_left _ h)
    simp [hne, habs v hv']
  · intro id; simp only [commit]; exact ht id
  · intro v s hs
    simp only [commit] at hs
    by_cases h : v = voter
    · simp [h] at hs; exact hpos s hs
    · simp [h] at hs; exact hp v s hs

theorem vote_preserves_inv (p : Params) (st : State) (voter : Nat) (signals : List Sig) (tp : Int)
    (hinv : Inv st)
    (hb : ∀ id, sumVotes (if voter ∈ st.voters then st.voters else st.voters ++ [voter])
                  (fun v => if v = voter then signals else st.votes v) id < 9223372036854775808) :
    Inv (vote p st voter signals tp).1 := by
  by_cases h : (vote p st voter signals tp).2 = Err.ok
  · obtain ⟨hp, t, ha, hst⟩ := vote_ok p st voter signals tp h
    have hpos := validateBasic_pos _ _ (preErr_ok p signals tp hp).1
    obtain ⟨t', h1, h2⟩ := vote_applyDiffs st voter signals hinv hpos hb
    rw [hst]
    have : t = t' := by rw [ha] at h1; exact Option.some.inj h1
    subst this
    exact commit_inv st voter signals t hinv hpos h2
  · rw [vote_err_state p st voter signals tp h]; exact hinv

theorem validateBasic_ne_neg : ∀ (l : List Sig) (seen : List String), validateBasic l seen ≠ Err.powerNegative
  | [], _ => by simp [validateBasic]
  | x :: rest, seen => by
    unfold validateBasic
    split; · simp
    split; · simp
    split; · simp
    split; · simp
    exact validateBasic_ne_neg rest _

theorem preErr_ne_neg (p : Params) (signals : List Sig) (tp : Int) : preErr p signals tp ≠ Err.powerNegative := by
  unfold preErr
  have := validateBasic_ne_neg signals []
  cases hv : validateBasic signals [] <;> simp only [] <;> try (intro h; cases h)
  · split; · simp
    split; · simp
    split <;> simp
  · exact absurd hv this

theorem vote_not_negative (p : Params) (st : State) (voter : Nat) (signals : List Sig) (tp : Int)
    (hinv : Inv st)
    (hb : ∀ id, sumVotes (if voter ∈ st.voters then st.voters else st.voters ++ [voter])
                  (fun v => if v = voter then signals else st.votes v) id < 9223372036854775808) :
    (vote p st voter signals tp).2 ≠ Err.powerNegative := by
  have hne := preErr_ne_neg p signals tp
  unfold vote
  cases hp : preErr p signals tp <;> simp only [] <;> try (intro h; cases h)
  · have hpos := validateBasic_pos _ _ (preErr_ok p signals tp hp).1
    obtain ⟨t', h1, _⟩ := vote_applyDiffs st voter signals hinv hpos hb
    rw [h1]; intro h; cases h
  · exact absurd hp hne

theorem runVotes_snoc (p : Params) (st : State) (ops : List (Nat × List Sig × Int)) (o : Nat × List Sig × Int) :
    runVotes p st (ops ++ [o]) = (vote p (runVotes p st ops) o.1 o.2.1 o.2.2).1 := by
  simp [runVotes, List.foldl_append]

theorem runVotes_cons (p : Params) (st : State) (ops : List (Nat × List Sig × Int)) (o : Nat × List Sig × Int) :
    runVotes p st (o :: ops) = runVotes p (vote p st o.1 o.2.1 o.2.2).1 ops := by
  simp [runVotes]

theorem runVotes_inv_gen (p : Params) (ops : List (Nat × List Sig × Int)) (st : State) (hinv : Inv st)
    (hb : ∀ pre o, pre ++ [o] <+: ops → ∀ id,
       sumVotes (if o.1 ∈ (runVotes p st pre).voters then (runVotes p st pre).voters
                 else (runVotes p st pre).voters ++ [o.1])
                (fun v => if v = o.1 then o.2.1 else (runVotes p st pre).votes v) id
         < 9223372036854775808) :
    Inv (runVotes p st ops) := by
  induction ops generalizing st with
  | nil => exact hinv
  | cons o rest ih =>
    rw [runVotes_cons]
    apply ih
    · apply vote_preserves_inv _ _ _ _ _ hinv
      exact hb [] o (by simp)
    · intro pre o' hpre
      have := hb (o :: pre) o' (by simpa using hpre)
      rw [runVotes_cons] at this
      exact this

theorem runVotes_inv (p : Params) (ops : List (Nat × List Sig × Int))
    (hb : ∀ pre o, pre ++ [o] <+: ops → ∀ id,
       sumVotes (if o.1 ∈ (runVotes p State.empty pre).voters then (runVotes p State.empty pre).voters
                 else (runVotes p State.empty pre).voters ++ [o.1])
                (fun v => if v = o.1 then o.2.1 else (runVotes p State.empty pre).votes v) id
         < 9223372036854775808) :
    Inv (runVotes p State.empty ops) :=
  runVotes_inv_gen p ops State.empty inv_empty hb

/-! ### interval -/
theorem i64_div_nonneg (a b : Int) (ha : 0 ≤ a) (har : a < 9223372036854775808) (hb : 0 < b) :
    i64.div a b = a / b := by
  unfold i64.div
  rw [Int.tdiv_eq_ediv_of_nonneg ha]
  have h1 : 0 ≤ a / b := Int.ediv_nonneg ha (by omega)
  have h2 : a / b ≤ a := Int.ediv_le_self b ha
  exact wrap_id h1 (by omega)

theorem calculateInterval_eq (power step minI maxI : Int) (hs : 0 < step) (hp : step ≤ power)
    (hr : power < 9223372036854775808) (hmax : 0 < maxI) (hmaxr : maxI < 9223372036854775808) :
    Feeds.calculateInterval power step minI maxI = max (maxI / (power / step)) minI ∧ 1 ≤ power / step := by
  have hq : 1 ≤ power / step := Int.le_ediv_of_mul_le hs (by omega)
  unfold Feeds.calculateInterval
  simp only []
  rw [if_neg (by omega), i64_div_nonneg power step (by omega) hr hs, i64_div_nonneg maxI _ (by omega) hmaxr (by omega)]
  exact ⟨rfl, hq⟩

theorem interval_facts (power step minI maxI : Int) (hs : 0 < step) (hp : step ≤ power)
    (hr : power < 9223372036854775808) (hmin : 0 < minI) (hmax : 0 < maxI)
    (hmaxr : maxI < 9223372036854775808) :
    Feeds.calculateInterval power step minI maxI = max (maxI / (power / step)) minI ∧
    minI ≤ Feeds.calculateInterval power step minI maxI ∧
    Feeds.calculateInterval power step minI maxI ≤ max minI maxI ∧
    0 < Feeds.calculateInterval power step minI maxI := by
  obtain ⟨he, hq⟩ := calculateInterval_eq power step minI maxI hs hp hr hmax hmaxr
  have h2 : maxI / (power / step) ≤ maxI := Int.ediv_le_self _ (by omega)
  rw [he]
  refine ⟨rfl, by omega, by omega, by omega⟩

theorem ediv_antitone (a q1 q2 : Int) (ha : 0 ≤ a) (h1 : 1 ≤ q1) (h12 : q1 ≤ q2) : a / q2 ≤ a / q1 := by
  have hx : 0 ≤ a / q2 := Int.ediv_nonneg ha (by omega)
  apply (Int.le_ediv_iff_mul_le (by omega)).mpr
  calc a / q2 * q1 ≤ a / q2 * q2 := Int.mul_le_mul_of_nonneg_left h12 hx
    _ ≤ a := Int.ediv_mul_le a (by omega)

theorem interval_antitone (p1 p2 step minI maxI : Int) (hs : 0 < step) (h1 : step ≤ p1) (h12 : p1 ≤ p2)
    (hr : p2 < 9223372036854775808) (hmin : 0 < minI) (hmax : 0 < maxI) (hmaxr : maxI < 9223372036854775808) :
    Feeds.calculateInterval p2 step minI maxI ≤ Feeds.calculateInterval p1 step minI maxI := by
  obtain ⟨e1, q1⟩ := calculateInterval_eq p1 step minI maxI hs h1 (by omega) hmax hmaxr
  obtain ⟨e2, _⟩ := calculateInterval_eq p2 step minI maxI hs (by omega) hr hmax hmaxr
  have hq : p1 / step ≤ p2 / step := Int.ediv_le_ediv hs h12
  have := ediv_antitone maxI _ _ (by omega) q1 hq
  rw [e1, e2]; omega

/-! ### current feeds -/
theorem mem_entries (st : State) (e : Int × String) (h : e ∈ entries st) : st.totals e.2 = e.1 := by
  unfold entries at h
  obtain ⟨id, _, rfl⟩ := List.mem_map.mp h
  rfl

theorem filterMap_feeds (p : Params) (l : List (Int × String))
    (hs : 0 < p.powerStep) (hmin : 0 < p.minInterval) (hmax : 0 < p.maxInterval)
    (hmaxr : p.maxInterval < 9223372036854775808) (hr : ∀ e ∈ l, e.1 < 9223372036854775808) :
    (l.filterMap (fun e =>
      let iv := Feeds.calculateInterval e.1 p.powerStep p.minInterval p.maxInterval
      if iv > 0 then some ({ id := e.2, power := e.1, interval := iv } : FeedOut) else none)).map (fun f => (f.power, f.id))
    = l.filter (fun e => decide (p.powerStep ≤ e.1)) := by
  induction l with
  | nil => rfl
  | cons x xs ih =>
    have ih' := ih (fun e he => hr e (List.mem_cons_of_mem _ he))
    by_cases hx : p.powerStep ≤ x.1
    · have := (interval_facts x.1 p.powerStep p.minInterval p.maxInterval hs hx (hr x (List.mem_cons_self ..)) hmin hmax hmaxr).2.2.2
      simp only [List.filterMap_cons, List.filter_cons, hx, decide_true, if_true]
      rw [if_pos (by omega)]
      simp only [List.map_cons]
      rw [ih']
    · have h0 : Feeds.calculateInterval x.1 p.powerStep p.minInterval p.maxInterval = 0 := by
        simp [Feeds.calculateInterval, Int.not_le.mp hx]
      simp only [List.filterMap_cons, List.filter_cons, hx, decide_false, h0]
      simpa using ih'

theorem newCurrentFeeds_facts (p : Params) (st : State) (hs : 0 < p.powerStep) (hmin : 0 < p.minInterval)
    (hmax : 0 < p.maxInterval) (hmaxr : p.maxInterval < 9223372036854775808)
    (hr : ∀ id, st.totals id < 9223372036854775808) :
    (newCurrentFeeds p st).length ≤ p.maxCurrentFeeds ∧
    (∀ f ∈ newCurrentFeeds p st, st.totals f.id = f.power ∧ p.powerStep ≤ f.power ∧
        f.interval = max (p.maxInterval / (f.power / p.powerStep)) p.minInterval) ∧
    (newCurrentFeeds p st).map (fun f => (f.power, f.id)) =
        ((byPowerDesc st).take p.maxCurrentFeeds).filter (fun e => decide (p.powerStep ≤ e.1)) := by
  have hmemE : ∀ e ∈ (byPowerDesc st).take p.maxCurrentFeeds, e ∈ entries st := by
    intro e he
    have := List.mem_of_mem_take he
    unfold byPowerDesc at this
    exact (List.mergeSort_perm _ _).mem_iff.mp this
  have hrl : ∀ e ∈ (byPowerDesc st).take p.maxCurrentFeeds, e.1 < 9223372036854775808 := by
    intro e he; rw [← mem_entries st e (hmemE e he)]; exact hr _
  refine ⟨?_, ?_, ?_⟩
  · unfold newCurrentFeeds
    calc _ ≤ ((byPowerDesc st).take p.maxCurrentFeeds).length := List.length_filterMap_le _ _
      _ ≤ p.maxCurrentFeeds := by simp [List.length_take]; omega
  · intro f hf
    unfold newCurrentFeeds at hf
    obtain ⟨e, he, hfe⟩ := List.mem_filterMap.mp hf
    simp only [] at hfe
    split at hfe
    · rename_i hpos
      cases hfe
      have hge : p.powerStep ≤ e.1 := by
        apply Int.not_lt.mp; intro hlt
        have : Feeds.calculateInterval e.1 p.powerStep p.minInterval p.maxInterval = 0 := by
          simp [Feeds.calculateInterval, hlt]
        omega
      exact ⟨mem_entries st e (hmemE e he), hge,
        (interval_facts e.1 p.powerStep p.minInterval p.maxInterval hs hge (hrl e he) hmin hmax hmaxr).1⟩
    · cases hfe
  · unfold newCurrentFeeds
    exact filterMap_feeds p _ hs hmin hmax hmaxr hrl

end BandVerif.Signal
