/- Lemmas for C08: LatestPrices.UpdatePrices touches exactly the signals it is given. -/
import BandVerif.Model.Tunnel

namespace BandVerif.Tunnel

theorem mem_replace_iff (l : List Price) (r q : Price) (h : q.sid ≠ r.sid) :
    q ∈ l.map (fun x => if x.sid == r.sid then r else x) ↔ q ∈ l := by
  constructor
  · intro hq
    obtain ⟨x, hx, e⟩ := List.mem_map.mp hq
    by_cases c : (x.sid == r.sid) = true
    · rw [if_pos c] at e; exact absurd (e ▸ rfl) h
    · rw [if_neg c] at e; exact e ▸ hx
  · intro hq
    refine List.mem_map.mpr ⟨q, hq, ?_⟩
    have : (q.sid == r.sid) = false := by simpa using h
    simp [this]

theorem updatePrices_untouched (l rest : List Price) (q : Price) (h : q.sid ∉ rest.map (·.sid)) :
    q ∈ updatePrices l rest ↔ q ∈ l := by
  induction rest generalizing l with
  | nil => simp [updatePrices]
  | cons r rs ih =>
    have hr : q.sid ≠ r.sid := fun e => h (by simp [e])
    have hrs : q.sid ∉ rs.map (·.sid) := fun e => h (by simp only [List.map_cons, List.mem_cons]; exact Or.inr e)
    simp only [updatePrices]
    split
    · rw [ih _ hrs]; exact mem_replace_iff l r q hr
    · rw [ih _ hrs]
      simp only [List.mem_append, List.mem_singleton]
      constructor
      · rintro (a | a)
        · exact a
        · exact absurd (a ▸ rfl) hr
      · exact Or.inl

end BandVerif.Tunnel
