import BandVerif.Model.Fees
import BandVerif.Lemmas.Signing

namespace BandVerif.Fees

theorem geAll_iff (s : State) (a b : Coins) : geAll s a b = true ↔ ∀ d ∈ s.denoms, b d ≤ a d := by
  unfold geAll; simp [List.all_eq_true]

/-- total fee of a source list for `ask` validators, per denom -/
def totalOf (srcs : List Source) (ask : Nat) (d : String) : Nat := (srcs.map fun x => x.fee d * ask).sum
/-- the part of it that goes to treasury `a` -/
def shareOf (srcs : List Source) (ask a : Nat) (d : String) : Nat :=
  ((srcs.filter (·.treasury == a)).map fun x => x.fee d * ask).sum

theorem isZero_fee (s : State) (f : Coins) (h : isZero s f = true) : ∀ d ∈ s.denoms, f d = 0 := by
  unfold isZero at h; simpa [List.all_eq_true] using h

/-- one transfer payer → treasury of `fee`, seen from account `a` -/
theorem transfer_step (bal : Nat → Coins) (payer tre a : Nat) (fee : Coins) (d : String) (hb : fee d ≤ bal payer d) :
    (fun x => if x = tre then addC ((fun y => if y = payer then subC (bal payer) fee else bal y) tre) fee
              else (fun y => if y = payer then subC (bal payer) fee else bal y) x) a d
      + (if a = payer then fee d else 0) = bal a d + (if tre = a then fee d else 0) := by
  have e : (tre = a) = (a = tre) := propext eq_comm
  simp only [e]
  by_cases h2 : a = tre
  · subst h2
    by_cases h1 : a = payer
    · subst h1; simp [addC, subC]; omega
    · simp [h1, addC]
  · by_cases h1 : a = payer
    · subst h1; simp [h2, subC]; omega
    · simp [h1, h2]

/-- the collection loop, when it succeeds: the collected total grows by exactly Σ fee·ask, stays within
    the limit, and every account's balance changes by (its treasury share) − (the total, for the payer) -/
theorem collect_spec (s : State) (payer ask : Nat) (limit : Coins) (srcs : List Source) (bal : Nat → Coins) (coll : Coins)
    (bal' : Nat → Coins) (coll' : Coins) (hlim : geAll s limit coll = true)
    (h : collect s payer ask limit srcs bal coll = (some (bal', coll'), Err.ok)) :
    (∀ d ∈ s.denoms, coll' d = coll d + totalOf srcs ask d) ∧ geAll s limit coll' = true ∧
    (∀ a, ∀ d ∈ s.denoms, bal' a d + (if a = payer then totalOf srcs ask d else 0) = bal a d + shareOf srcs ask a d) := by
  induction srcs generalizing bal coll with
  | nil =>
    simp only [collect] at h
    obtain ⟨rfl, rfl⟩ : bal = bal' ∧ coll = coll' := by
      have := (Prod.mk.inj h).1; have := Option.some.inj this; exact ⟨(Prod.mk.inj this).1, (Prod.mk.inj this).2⟩
    refine ⟨fun d _ => by simp [totalOf], hlim, fun a d _ => by simp [totalOf, shareOf]⟩
  | cons src rest ih =>
    simp only [collect] at h
    by_cases hz : isZero s src.fee = true
    · simp only [hz, if_true] at h
      obtain ⟨i1, i2, i3⟩ := ih bal coll hlim h
      have z := isZero_fee s src.fee hz
      refine ⟨fun d hd => ?_, i2, fun a d hd => ?_⟩
      · rw [i1 d hd]; simp [totalOf, z d hd]
      · have := i3 a d hd
        have e1 : totalOf (src :: rest) ask d = totalOf rest ask d := by simp [totalOf, z d hd]
        have e2 : shareOf (src :: rest) ask a d = shareOf rest ask a d := by
          unfold shareOf; by_cases ht : src.treasury == a <;> simp [List.filter_cons, ht, z d hd]
        rw [e1, e2]; exact this
    · simp only [hz, if_false] at h
      by_cases h1 : geAll s limit (addC coll (mulC src.fee ask)) = true
      · by_cases h2 : geAll s (bal payer) (mulC src.fee ask) = true
        · simp only [h1, h2, Bool.not_true, Bool.false_eq_true, if_false] at h
          obtain ⟨i1, i2, i3⟩ := ih _ _ h1 h
          have hb := (geAll_iff s _ _).mp h2
          refine ⟨fun d hd => ?_, i2, fun a d hd => ?_⟩
          · rw [i1 d hd]; simp [totalOf, addC, mulC]; omega
          · have := i3 a d hd
            have hbd := hb d hd
            have e1 : totalOf (src :: rest) ask d = src.fee d * ask + totalOf rest ask d := by simp [totalOf]
            have e2 : shareOf (src :: rest) ask a d = (if src.treasury = a then src.fee d * ask else 0) + shareOf rest ask a d := by
              unfold shareOf; by_cases ht : src.treasury = a <;> simp [List.filter_cons, ht]
            have st := transfer_step bal payer src.treasury a (mulC src.fee ask) d hbd
            simp only [mulC] at st
            rw [e1, e2]
            by_cases hap : a = payer
            · simp only [hap, if_true] at this st ⊢; omega
            · simp only [hap, if_false] at this st ⊢; omega
        · simp [h1, h2] at h
      · simp [h1] at h

/-- `collect` returns balances exactly when it returns `ok` -/
theorem collect_shape (s : State) (payer ask : Nat) (limit : Coins) (l : List Source) (b : Nat → Coins) (c : Coins) :
    (∃ x, collect s payer ask limit l b c = (some x, Err.ok)) ∨
    (∃ e, e ≠ Err.ok ∧ collect s payer ask limit l b c = (none, e)) := by
  induction l generalizing b c with
  | nil => exact Or.inl ⟨_, rfl⟩
  | cons y ys ih =>
    simp only [collect]
    split
    · exact ih _ _
    · split
      · exact Or.inr ⟨_, by decide, rfl⟩
      · split
        · exact Or.inr ⟨_, by decide, rfl⟩
        · exact ih _ _

end BandVerif.Fees

namespace BandVerif.Signing

theorem geAll_iff' (s : State) (a b : Coins) : geAll s a b = true ↔ ∀ d ∈ s.denoms, b d ≤ a d := by
  unfold geAll; simp [List.all_eq_true]

/-- initiate / tssRequest never touch coins -/
theorem initiate_money (s : State) (sid : Nat) (c : List Nat) (h : Int) :
    (initiate s sid c h).1.bal = s.bal ∧ (initiate s sid c h).1.escrow = s.escrow ∧ (initiate s sid c h).1.denoms = s.denoms ∧
    (initiate s sid c h).1.bcount = s.bcount ∧ (initiate s sid c h).1.threshold = s.threshold ∧
    (initiate s sid c h).1.feePerSigner = s.feePerSigner := by
  unfold initiate
  cases s.signings sid with
  | none => exact ⟨rfl, rfl, rfl, rfl, rfl, rfl⟩
  | some sg => simp only []; (repeat' split) <;> exact ⟨rfl, rfl, rfl, rfl, rfl, rfl⟩

theorem tssRequest_money (s : State) (c : List Nat) (h : Int) :
    (tssRequest s c h).1.bal = s.bal ∧ (tssRequest s c h).1.escrow = s.escrow ∧ (tssRequest s c h).1.denoms = s.denoms := by
  unfold tssRequest
  simp only []
  have := initiate_money { s with count := s.count + 1, signings := fun i => if i = s.count + 1 then some { status := stWaiting, attempt := 0 } else s.signings i } (s.count + 1) c h
  cases hi : initiate { s with count := s.count + 1, signings := fun i => if i = s.count + 1 then some { status := stWaiting, attempt := 0 } else s.signings i } (s.count + 1) c h with
  | mk s' e =>
    rw [hi] at this
    cases e <;> simp only [] <;> first | exact ⟨this.1, this.2.1, this.2.2.1⟩ | exact ⟨rfl, rfl, rfl⟩ | exact ⟨trivial, trivial, trivial⟩

/-- payAll pays `fee` to each listed member out of the escrow -/
theorem payAll_spec (fee : Coins) (l : List Nat) (s : State) (hn : l.Nodup) (d : String)
    (he : fee d * l.length ≤ s.escrow d) :
    (payAll s fee l).escrow d = s.escrow d - fee d * l.length ∧
    (∀ m ∈ l, (payAll s fee l).bal m d = s.bal m d + fee d) ∧ (∀ m, m ∉ l → (payAll s fee l).bal m d = s.bal m d) := by
  induction l generalizing s with
  | nil => simp [payAll]
  | cons x xs ih =>
    simp only [payAll]
    have hx := List.nodup_cons.mp hn
    have hlen : fee d * xs.length ≤ s.escrow d - fee d := by
      simp only [List.length_cons, Nat.mul_add, Nat.mul_one] at he; omega
    obtain ⟨i1, i2, i3⟩ := ih { s with escrow := subC s.escrow fee, bal := fun a => if a = x then addC (s.bal x) fee else s.bal a } hx.2
      (by simpa [subC] using hlen)
    refine ⟨?_, ?_, ?_⟩
    · rw [i1]; simp only [subC, List.length_cons, Nat.mul_add, Nat.mul_one]; omega
    · intro m hm
      rcases List.mem_cons.mp hm with rfl | hm'
      · rw [i3 m hx.1]; simp [addC]
      · rw [i2 m hm']
        have : m ≠ x := fun e => hx.1 (e ▸ hm')
        simp [this]
    · intro m hm
      have h1 : m ≠ x := fun e => hm (e ▸ List.mem_cons_self ..)
      have h2 : m ∉ xs := fun e => hm (List.mem_cons_of_mem _ e)
      rw [i3 m h2]; simp [h1]

end BandVerif.Signing
