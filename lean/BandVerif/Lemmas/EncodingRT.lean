/- Round trips of the ABI payloads of C11. -/
import BandVerif.Lemmas.Encoding

namespace BandVerif.Enc

def I256 (i : Int) : Prop := -(2 ^ 255 : Int) ≤ i ∧ i < 2 ^ 255

theorem decFeeds_encFeeds (ps : List RelayPrice) (ts : Int) (hw : ∀ p ∈ ps, WFPrice p) (hn : ps.length < 2 ^ 256) (ht : I256 ts) :
    decFeeds (encFeeds ps ts) = some (ps, ts) := by
  unfold decFeeds
  have h0 : rdWord (encFeeds ps ts) 0 = some 64 := by
    have e : encFeeds ps ts = [] ++ word 64 ++ (wordInt ts ++ encPriceArray ps) := by simp [encFeeds]
    rw [e]; exact rdWord_at [] _ 64 0 rfl (by decide)
  have h1 : rdWord (encFeeds ps ts) 32 = some (fromBE (wordInt ts)) := by
    have e : encFeeds ps ts = word 64 ++ wordInt ts ++ encPriceArray ps := by simp [encFeeds]
    rw [e]; exact rdWord_at_raw (word 64) (wordInt ts) _ 32 (by simp) (by simp)
  have h2 : rdPriceArray (encFeeds ps ts) 64 = some ps := by
    have e : encFeeds ps ts = (word 64 ++ wordInt ts) ++ encPriceArray ps ++ [] := by simp [encFeeds]
    rw [e]; exact rdPriceArray_at ps _ [] 64 (by simp) hw hn
  rw [h0, h1]
  simp only [h2, toInt256_wordInt ts ht.1 ht.2]

theorem decPacket_encPacket (seq : Nat) (ps : List RelayPrice) (ts : Int) (hs : seq < 2 ^ 256) (hw : ∀ p ∈ ps, WFPrice p)
    (hn : ps.length < 2 ^ 256) (ht : I256 ts) :
    decPacket (encPacket seq ps ts) = some (seq, ps, ts) := by
  unfold decPacket
  have h0 : rdWord (encPacket seq ps ts) 0 = some 32 := by
    have e : encPacket seq ps ts = [] ++ word 32 ++ (word seq ++ word 96 ++ wordInt ts ++ encPriceArray ps) := by simp [encPacket]
    rw [e]; exact rdWord_at [] _ 32 0 rfl (by decide)
  have h1 : rdWord (encPacket seq ps ts) 32 = some seq := by
    have e : encPacket seq ps ts = word 32 ++ word seq ++ (word 96 ++ wordInt ts ++ encPriceArray ps) := by simp [encPacket]
    rw [e]; exact rdWord_at _ _ seq 32 (by simp) hs
  have h2 : rdWord (encPacket seq ps ts) (32 + 32) = some 96 := by
    have e : encPacket seq ps ts = (word 32 ++ word seq) ++ word 96 ++ (wordInt ts ++ encPriceArray ps) := by simp [encPacket]
    rw [e]; exact rdWord_at _ _ 96 64 (by simp) (by decide)
  have h3 : rdWord (encPacket seq ps ts) (32 + 64) = some (fromBE (wordInt ts)) := by
    have e : encPacket seq ps ts = (word 32 ++ word seq ++ word 96) ++ wordInt ts ++ encPriceArray ps := by simp [encPacket]
    rw [e]; exact rdWord_at_raw _ (wordInt ts) _ 96 (by simp) (by simp)
  have h4 : rdPriceArray (encPacket seq ps ts) (32 + 96) = some ps := by
    have e : encPacket seq ps ts = (word 32 ++ word seq ++ word 96 ++ wordInt ts) ++ encPriceArray ps ++ [] := by simp [encPacket]
    rw [e]; exact rdPriceArray_at ps _ [] 128 (by simp) hw hn
  rw [h0]
  simp only [h1, h2, h3, h4, toInt256_wordInt ts ht.1 ht.2]

end BandVerif.Enc

namespace BandVerif.Enc

theorem rdWord_shift (w X : Bytes) (h : w.length = 32) (off : Nat) : rdWord (w ++ X) (off + 32) = rdWord X off := by
  unfold rdWord
  have e : List.drop (off + 32) (w ++ X) = List.drop off X := by
    rw [List.drop_append, List.drop_eq_nil_of_le (by omega), h, Nat.add_sub_cancel]; rfl
  simp only [List.length_append, h, e]
  by_cases c : off + 32 ≤ X.length
  · rw [if_pos (by omega), if_pos c]
  · rw [if_neg (by omega), if_neg c]

/-- the i-th 32-byte word of a head made of words -/
theorem rdWord_flatten (ws : List Bytes) (tail : Bytes) (i : Nat) (w : Bytes) (hall : ∀ x ∈ ws, x.length = 32) (hi : ws[i]? = some w) :
    rdWord (ws.flatten ++ tail) (32 * i) = some (fromBE w) := by
  induction ws generalizing i with
  | nil => simp at hi
  | cons x rest ih =>
    have hx := hall x (List.mem_cons_self ..)
    cases i with
    | zero =>
      simp only [List.getElem?_cons_zero, Option.some.injEq] at hi
      subst hi
      have e : (x :: rest).flatten ++ tail = [] ++ x ++ (rest.flatten ++ tail) := by simp
      rw [e]; exact rdWord_at_raw [] x _ 0 rfl hx
    | succ i =>
      simp only [List.getElem?_cons_succ] at hi
      have e : (x :: rest).flatten ++ tail = x ++ (rest.flatten ++ tail) := by simp
      rw [e, show 32 * (i + 1) = 32 * i + 32 from by omega, rdWord_shift x _ hx]
      exact ih i (fun y hy => hall y (List.mem_cons_of_mem _ hy)) hi

theorem rdBytes_shift (w X : Bytes) (h : w.length = 32) (off : Nat) : rdBytes (w ++ X) (off + 32) = rdBytes X off := by
  unfold rdBytes
  rw [rdWord_shift w X h]
  cases rdWord X off with
  | none => rfl
  | some n =>
    simp only []
    have e : List.drop (off + 32 + 32) (w ++ X) = List.drop (off + 32) X := by
      rw [List.drop_append, List.drop_eq_nil_of_le (by omega), h, Nat.add_sub_cancel]; rfl
    simp only [List.length_append, h, e]
    by_cases c : off + 32 + n ≤ X.length
    · rw [if_pos (by omega), if_pos c]
    · rw [if_neg (by omega), if_neg c]

theorem rdBytes_flatten (ws : List Bytes) (X : Bytes) (off : Nat) (hall : ∀ x ∈ ws, x.length = 32) :
    rdBytes (ws.flatten ++ X) (32 * ws.length + off) = rdBytes X off := by
  induction ws with
  | nil => simp
  | cons x rest ih =>
    have e : (x :: rest).flatten ++ X = x ++ (rest.flatten ++ X) := by simp
    rw [e, show 32 * (x :: rest).length + off = (32 * rest.length + off) + 32 from by simp; omega,
      rdBytes_shift x _ (hall x (List.mem_cons_self ..))]
    exact ih (fun y hy => hall y (List.mem_cons_of_mem _ hy))

structure WFResult (r : OResult) : Prop where
  osid : r.oracleScriptID < 2 ^ 256
  ask : r.askCount < 2 ^ 256
  mn : r.minCount < 2 ^ 256
  rid : r.requestID < 2 ^ 256
  ans : r.ansCount < 2 ^ 256
  rq : I256 r.requestTime
  rs : I256 r.resolveTime
  st : I256 r.resolveStatus
  lcid : r.clientID.length < 2 ^ 64
  lcd : r.calldata.length < 2 ^ 64
  lres : r.result.length < 2 ^ 64

theorem encBytesLen_lt (n : Nat) (h : n < 2 ^ 64) : encBytesLen n < 2 ^ 65 := by
  unfold encBytesLen padLen; omega

/-- the 12 head words of the full-ABI result -/
def fullHead (r : OResult) : List Bytes :=
  [word 32, word 352, word r.oracleScriptID, word (352 + encBytesLen r.clientID.length), word r.askCount, word r.minCount,
   word r.requestID, word r.ansCount, wordInt r.requestTime, wordInt r.resolveTime, wordInt r.resolveStatus,
   word (352 + encBytesLen r.clientID.length + encBytesLen r.calldata.length)]

theorem encFull_eq (r : OResult) : encFull r = (fullHead r).flatten ++ (encBytes r.clientID ++ encBytes r.calldata ++ encBytes r.result) := by
  simp [encFull, fullHead, List.append_assoc]

theorem fullHead_len (r : OResult) : ∀ x ∈ fullHead r, x.length = 32 := by
  unfold fullHead
  simp only [List.forall_mem_cons, word_length, wordInt_length, true_and]
  intro x hx; cases hx

theorem decFull_encFull (r : OResult) (h : WFResult r) : decFull (encFull r) = some r := by
  have l1 := encBytesLen_lt _ h.lcid
  have l2 := encBytesLen_lt _ h.lcd
  have p65 : (2:Nat) ^ 65 + 2 ^ 65 + 352 < 2 ^ 256 := by decide
  have hl := fullHead_len r
  have W : ∀ (i : Nat) (w : Bytes), (fullHead r)[i]? = some w → rdWord (encFull r) (32 * i) = some (fromBE w) := by
    intro i w hi; rw [encFull_eq]; exact rdWord_flatten _ _ i w hl hi
  have fw : ∀ n, n < 2 ^ 256 → fromBE (word n) = n := fromBE_word
  unfold decFull
  have h0 := W 0 _ rfl
  rw [show 32 * 0 = 0 from rfl, fw 32 (by decide)] at h0
  rw [h0]
  simp only []
  have w1 := W 1 _ rfl; have w2 := W 2 _ rfl; have w3 := W 3 _ rfl; have w4 := W 4 _ rfl; have w5 := W 5 _ rfl
  have w6 := W 6 _ rfl; have w7 := W 7 _ rfl; have w8 := W 8 _ rfl; have w9 := W 9 _ rfl; have w10 := W 10 _ rfl; have w11 := W 11 _ rfl
  rw [fw _ (by decide)] at w1
  rw [fw _ h.osid] at w2
  rw [fw _ (by omega)] at w3
  rw [fw _ h.ask] at w4
  rw [fw _ h.mn] at w5
  rw [fw _ h.rid] at w6
  rw [fw _ h.ans] at w7
  rw [fw _ (by omega)] at w11
  rw [show 32 = 32 * 1 from rfl, w1, show 32 * 1 + 32 = 32 * 2 from rfl, w2, show 32 * 1 + 64 = 32 * 3 from rfl, w3,
    show 32 * 1 + 96 = 32 * 4 from rfl, w4, show 32 * 1 + 128 = 32 * 5 from rfl, w5, show 32 * 1 + 160 = 32 * 6 from rfl, w6,
    show 32 * 1 + 192 = 32 * 7 from rfl, w7, show 32 * 1 + 224 = 32 * 8 from rfl, w8, show 32 * 1 + 256 = 32 * 9 from rfl, w9,
    show 32 * 1 + 288 = 32 * 10 from rfl, w10, show 32 * 1 + 320 = 32 * 11 from rfl, w11]
  simp only []
  have hlen : (fullHead r).length = 12 := rfl
  have b1 : rdBytes (encFull r) (32 * 1 + 352) = some r.clientID := by
    rw [encFull_eq, show 32 * 1 + 352 = 32 * (fullHead r).length + 0 from by rw [hlen], rdBytes_flatten _ _ _ hl]
    have e : encBytes r.clientID ++ encBytes r.calldata ++ encBytes r.result = [] ++ encBytes r.clientID ++ (encBytes r.calldata ++ encBytes r.result) := by simp
    rw [e]; exact rdBytes_at _ _ _ 0 rfl (by have := h.lcid; omega)
  have b2 : rdBytes (encFull r) (32 * 1 + (352 + encBytesLen r.clientID.length)) = some r.calldata := by
    rw [encFull_eq, show 32 * 1 + (352 + encBytesLen r.clientID.length) = 32 * (fullHead r).length + encBytesLen r.clientID.length from by rw [hlen]; omega,
      rdBytes_flatten _ _ _ hl]
    exact rdBytes_at _ _ _ _ (encBytes_length _) (by have := h.lcd; omega)
  have b3 : rdBytes (encFull r) (32 * 1 + (352 + encBytesLen r.clientID.length + encBytesLen r.calldata.length)) = some r.result := by
    rw [encFull_eq, show 32 * 1 + (352 + encBytesLen r.clientID.length + encBytesLen r.calldata.length) =
        32 * (fullHead r).length + (encBytesLen r.clientID.length + encBytesLen r.calldata.length) from by rw [hlen]; omega,
      rdBytes_flatten _ _ _ hl]
    have e : encBytes r.clientID ++ encBytes r.calldata ++ encBytes r.result = (encBytes r.clientID ++ encBytes r.calldata) ++ encBytes r.result ++ [] := by simp
    rw [e]; exact rdBytes_at _ _ _ _ (by simp [encBytes_length]) (by have := h.lres; omega)
  rw [b1, b2, b3]
  simp only [toInt256_wordInt _ h.rq.1 h.rq.2, toInt256_wordInt _ h.rs.1 h.rs.2, toInt256_wordInt _ h.st.1 h.st.2]

structure WFPartial (r : PResult) : Prop where
  osid : r.oracleScriptID < 2 ^ 256
  rid : r.requestID < 2 ^ 256
  mn : r.minCount < 2 ^ 256
  rs : I256 r.resolveTime
  st : I256 r.resolveStatus
  lcd : r.calldata.length < 2 ^ 64
  lres : r.result.length < 2 ^ 64

def partialHead (r : PResult) : List Bytes :=
  [word 32, word 224, word r.oracleScriptID, word r.requestID, word r.minCount, wordInt r.resolveTime, wordInt r.resolveStatus,
   word (224 + encBytesLen r.calldata.length)]

theorem encPartial_eq (r : PResult) : encPartial r = (partialHead r).flatten ++ (encBytes r.calldata ++ encBytes r.result) := by
  simp [encPartial, partialHead, List.append_assoc]

theorem partialHead_len (r : PResult) : ∀ x ∈ partialHead r, x.length = 32 := by
  unfold partialHead
  simp only [List.forall_mem_cons, word_length, wordInt_length, true_and]
  intro x hx; cases hx

theorem decPartial_encPartial (r : PResult) (h : WFPartial r) : decPartial (encPartial r) = some r := by
  have l1 := encBytesLen_lt _ h.lcd
  have p65 : (2:Nat) ^ 65 + 224 < 2 ^ 256 := by decide
  have hl := partialHead_len r
  have W : ∀ (i : Nat) (w : Bytes), (partialHead r)[i]? = some w → rdWord (encPartial r) (32 * i) = some (fromBE w) := by
    intro i w hi; rw [encPartial_eq]; exact rdWord_flatten _ _ i w hl hi
  have fw : ∀ n, n < 2 ^ 256 → fromBE (word n) = n := fromBE_word
  unfold decPartial
  have h0 := W 0 _ rfl
  rw [show 32 * 0 = 0 from rfl, fw 32 (by decide)] at h0
  rw [h0]
  simp only []
  have w1 := W 1 _ rfl; have w2 := W 2 _ rfl; have w3 := W 3 _ rfl; have w4 := W 4 _ rfl; have w5 := W 5 _ rfl
  have w6 := W 6 _ rfl; have w7 := W 7 _ rfl
  rw [fw _ (by decide)] at w1
  rw [fw _ h.osid] at w2
  rw [fw _ h.rid] at w3
  rw [fw _ h.mn] at w4
  rw [fw _ (by omega)] at w7
  rw [show 32 = 32 * 1 from rfl, w1, show 32 * 1 + 32 = 32 * 2 from rfl, w2, show 32 * 1 + 64 = 32 * 3 from rfl, w3,
    show 32 * 1 + 96 = 32 * 4 from rfl, w4, show 32 * 1 + 128 = 32 * 5 from rfl, w5, show 32 * 1 + 160 = 32 * 6 from rfl, w6,
    show 32 * 1 + 192 = 32 * 7 from rfl, w7]
  simp only []
  have hlen : (partialHead r).length = 8 := rfl
  have b1 : rdBytes (encPartial r) (32 * 1 + 224) = some r.calldata := by
    rw [encPartial_eq, show 32 * 1 + 224 = 32 * (partialHead r).length + 0 from by rw [hlen], rdBytes_flatten _ _ _ hl]
    have e : encBytes r.calldata ++ encBytes r.result = [] ++ encBytes r.calldata ++ encBytes r.result := by simp
    rw [e]; exact rdBytes_at _ _ _ 0 rfl (by have := h.lcd; omega)
  have b2 : rdBytes (encPartial r) (32 * 1 + (224 + encBytesLen r.calldata.length)) = some r.result := by
    rw [encPartial_eq, show 32 * 1 + (224 + encBytesLen r.calldata.length) = 32 * (partialHead r).length + encBytesLen r.calldata.length from by rw [hlen]; omega,
      rdBytes_flatten _ _ _ hl]
    have e : encBytes r.calldata ++ encBytes r.result = encBytes r.calldata ++ encBytes r.result ++ [] := by simp
    rw [e]; exact rdBytes_at _ _ _ _ (encBytes_length _) (by have := h.lres; omega)
  rw [b1, b2]
  simp only [toInt256_wordInt _ h.rs.1 h.rs.2, toInt256_wordInt _ h.st.1 h.st.2]

end BandVerif.Enc
