/- C10: the history invariant of the signing state machine and its preservation by EVERY operation, including the
   end-blocker (aggregation of pending signings, expiry pass over the FIFO, retries).  Core-only. -/
import BandVerif.Lemmas.SigningInv

namespace BandVerif.Signing

/-- the history invariant -/
structure HInv (s : State) : Prop where
  /-- every scheduled expiry belongs to the CURRENT attempt of an existing signing that is WAITING, or SUCCESS with
      a complete partial-signature set -/
  h1 : ∀ sid att, (sid, att) ∈ s.expirations → ∃ sg atm, s.signings sid = some sg ∧ att = sg.attempt ∧
        s.attempts sid att = some atm ∧
        (sg.status = stWaiting ∨ (sg.status = stSuccess ∧ (s.partials sid att).length = atm.assigned.length))
  /-- at most one scheduled expiry per signing -/
  h2 : (s.expirations.map (·.1)).Nodup
  /-- pending ids are WAITING with a complete set -/
  h3 : ∀ sid ∈ s.pending, ∃ sg atm, s.signings sid = some sg ∧ sg.status = stWaiting ∧
        s.attempts sid sg.attempt = some atm ∧ (s.partials sid sg.attempt).length = atm.assigned.length
  /-- ids above the counter are unused -/
  h4 : ∀ sid, s.count < sid → s.signings sid = none
  /-- no partial signatures without a stored attempt -/
  h5 : ∀ sid att, s.attempts sid att = none → s.partials sid att = []
  /-- a WAITING signing with a complete non-empty set is pending -/
  h6 : ∀ sid sg atm, s.signings sid = some sg → sg.status = stWaiting → s.attempts sid sg.attempt = some atm →
        atm.assigned ≠ [] → (s.partials sid sg.attempt).length = atm.assigned.length → sid ∈ s.pending
  /-- a stored attempt is scheduled for expiry -/
  h7 : ∀ sid att atm, s.attempts sid att = some atm → (sid, att) ∈ s.expirations
  /-- stored partial signatures come from distinct assigned members; committees have distinct members -/
  p1 : ∀ sid att atm, s.attempts sid att = some atm → (∀ m ∈ s.partials sid att, m ∈ ids atm) ∧
        (s.partials sid att).Nodup ∧ (ids atm).Nodup

theorem hinv_of_frame (s s' : State) (h : HInv s) (a : s'.signings = s.signings) (b : s'.attempts = s.attempts)
    (c : s'.partials = s.partials) (d : s'.expirations = s.expirations) (e : s'.pending = s.pending)
    (f : s'.count = s.count) : HInv s' := by
  refine ⟨?_, ?_, ?_, ?_, ?_, ?_, ?_, ?_⟩
  · rw [a, b, c, d]; exact h.h1
  · rw [d]; exact h.h2
  · rw [a, b, c, e]; exact h.h3
  · rw [a, f]; exact h.h4
  · rw [b, c]; exact h.h5
  · rw [a, b, c, e]; exact h.h6
  · rw [b, d]; exact h.h7
  · rw [b, c]; exact h.p1

/-- a signing with a scheduled expiry or a stored attempt exists and is below the counter -/
theorem HInv.sid_scheduled_exists {s : State} (h : HInv s) {sid : Nat} (hm : sid ∈ s.expirations.map (·.1)) :
    ∃ sg, s.signings sid = some sg := by
  obtain ⟨⟨i, a⟩, hia, rfl⟩ := List.mem_map.mp hm
  obtain ⟨sg, _, q, _⟩ := h.h1 i a hia
  exact ⟨sg, q⟩

theorem HInv.attempt_none_of_unscheduled {s : State} (h : HInv s) {sid : Nat} (hn : sid ∉ s.expirations.map (·.1)) (att : Nat) :
    s.attempts sid att = none := by
  cases ha : s.attempts sid att with
  | none => rfl
  | some atm => exact absurd (List.mem_map.mpr ⟨(sid, att), h.h7 sid att atm ha, rfl⟩) hn

/-! ### dequeue: the assigned members are a sublist of the committee -/
theorem dequeueAll_ids_sublist (c : List Nat) (q : Nat → List Nat) : ((dequeueAll q c).1.map (·.1)).Sublist c := by
  induction c generalizing q with
  | nil => simp [dequeueAll]
  | cons m rest ih =>
    simp only [dequeueAll]
    cases hq : q m with
    | nil => exact (ih q).cons _
    | cons t ts =>
      simp only [List.map_cons]
      exact (ih _).cons_cons _

/-! ### InitiateNewSigningRound -/
/-- the state after a successful round start -/
def initiated (s : State) (sid : Nat) (sg : Sig) (c : List Nat) (height : Int) : State :=
  { s with queues := (dequeueAll s.queues c).2,
           signings := fun i => if i = sid then some { status := stWaiting, attempt := sg.attempt + 1 } else s.signings i,
           attempts := fun i a => if i = sid ∧ a = sg.attempt + 1 then some { expiredHeight := height + s.signingPeriod, assigned := (dequeueAll s.queues c).1 } else s.attempts i a,
           expirations := s.expirations ++ [(sid, sg.attempt + 1)],
           assignedLog := s.assignedLog ++ (dequeueAll s.queues c).1.map fun (m, t) => (sid, sg.attempt + 1, m, t) }

theorem initiate_cases (s : State) (sid : Nat) (c : List Nat) (height : Int) :
    ((initiate s sid c height).2 ≠ Err.ok ∧ (initiate s sid c height).1 = s) ∨
    (∃ sg, s.signings sid = some sg ∧ (initiate s sid c height).2 = Err.ok ∧ (initiate s sid c height).1 = initiated s sid sg c height) := by
  unfold initiate
  cases hs : s.signings sid with
  | none => left; simp
  | some sg =>
    simp only []
    by_cases h1 : sg.attempt + 1 > s.maxAttempt
    · left; simp [h1]
    · by_cases h2 : s.threshold > (available s).length
      · left; simp [h1, h2]
      · by_cases h3 : headBad s c = true
        · left; simp [h1, h2, h3]
        · right
          simp only [h1, h2, h3, if_false]
          exact ⟨sg, rfl, rfl, rfl⟩

theorem initiated_hinv (s : State) (sid : Nat) (sg : Sig) (c : List Nat) (height : Int) (h : HInv s) (hs : s.signings sid = some sg)
    (hc : c.Nodup) (hne : sid ∉ s.expirations.map (·.1)) (hp : sid ∉ s.pending) : HInv (initiated s sid sg c height) := by
  have hcnt : sid ≤ s.count := by
    cases Nat.lt_or_ge s.count sid with
    | inl hlt => rw [h.h4 sid hlt] at hs; cases hs
    | inr hge => exact hge
  have hnone : ∀ a, s.attempts sid a = none := fun a => h.attempt_none_of_unscheduled hne a
  refine ⟨?_, ?_, ?_, ?_, ?_, ?_, ?_, ?_⟩
  · intro i a hia
    simp only [initiated] at hia ⊢
    rcases List.mem_append.mp hia with hold | hnew
    · have hi : i ≠ sid := by
        intro e; subst e; exact hne (List.mem_map.mpr ⟨(i, a), hold, rfl⟩)
      obtain ⟨sg', atm', q1, q2, q3, q4⟩ := h.h1 i a hold
      exact ⟨sg', atm', by simp only [hi, if_false]; exact q1, q2, by simp only [hi, false_and, if_false]; exact q3, q4⟩
    · simp only [List.mem_singleton, Prod.mk.injEq] at hnew
      obtain ⟨rfl, rfl⟩ := hnew
      exact ⟨{ status := stWaiting, attempt := sg.attempt + 1 }, { expiredHeight := height + s.signingPeriod, assigned := (dequeueAll s.queues c).1 },
        by simp, rfl, by simp, Or.inl rfl⟩
  · simp only [initiated, List.map_append, List.map_cons, List.map_nil]
    exact List.nodup_append.mpr ⟨h.h2, by simp, by
      intro a ha b hb; simp only [List.mem_singleton] at hb; subst hb; intro e; subst e; exact hne ha⟩
  · intro i hi
    simp only [initiated] at hi ⊢
    have hne' : i ≠ sid := by intro e; subst e; exact hp hi
    obtain ⟨sg', atm', q1, q2, q3, q4⟩ := h.h3 i hi
    exact ⟨sg', atm', by simp only [hne', if_false]; exact q1, q2, by simp only [hne', false_and, if_false]; exact q3, q4⟩
  · intro i hi
    simp only [initiated] at hi ⊢
    have : i ≠ sid := by omega
    simp only [this, if_false]; exact h.h4 i hi
  · intro i a hia
    simp only [initiated] at hia ⊢
    by_cases e : i = sid ∧ a = sg.attempt + 1
    · simp only [e, and_self, if_true] at hia; cases hia
    · simp only [e, if_false] at hia; exact h.h5 i a hia
  · intro i sg' atm' q1 q2 q3 q4 q5
    simp only [initiated] at q1 q3 q5 ⊢
    by_cases e : i = sid
    · subst e
      simp only [if_true] at q1; cases q1
      simp only [and_self, if_true] at q3; cases q3
      rw [h.h5 i (sg.attempt + 1) (hnone _)] at q5
      simp only [List.length_nil] at q5
      exact absurd (List.eq_nil_of_length_eq_zero q5.symm) q4
    · simp only [e, if_false] at q1
      simp only [e, false_and, if_false] at q3
      exact h.h6 i sg' atm' q1 q2 q3 q4 q5
  · intro i a atm' q
    simp only [initiated] at q ⊢
    by_cases e : i = sid ∧ a = sg.attempt + 1
    · obtain ⟨rfl, rfl⟩ := e
      exact List.mem_append_right _ (List.mem_singleton.mpr rfl)
    · simp only [e, if_false] at q
      exact List.mem_append_left _ (h.h7 i a atm' q)
  · intro i a atm' q
    simp only [initiated] at q ⊢
    by_cases e : i = sid ∧ a = sg.attempt + 1
    · obtain ⟨rfl, rfl⟩ := e
      simp only [and_self, if_true] at q; cases q
      rw [h.h5 i (sg.attempt + 1) (hnone _)]
      refine ⟨by simp, List.nodup_nil, ?_⟩
      exact (dequeueAll_ids_sublist c s.queues).nodup hc
    · simp only [e, if_false] at q
      exact h.p1 i a atm' q

theorem initiate_hinv (s : State) (sid : Nat) (c : List Nat) (height : Int) (h : HInv s)
    (hc : c.Nodup) (hne : sid ∉ s.expirations.map (·.1)) (hp : sid ∉ s.pending) : HInv (initiate s sid c height).1 := by
  rcases initiate_cases s sid c height with ⟨_, e⟩ | ⟨sg, hs, _, e⟩
  · rw [e]; exact h
  · rw [e]; exact initiated_hinv s sid sg c height h hs hc hne hp

/-! ### one retry: a new round, or FALLEN -/
def fallen (s : State) (sid : Nat) (sg : Sig) : State :=
  onFailed { s with signings := fun i => if i = sid then some { sg with status := stFallen } else s.signings i } sid

theorem retryOne_cases (s : State) (sid : Nat) (c : List Nat) (height : Int) :
    (∃ sg, s.signings sid = some sg ∧ (initiate s sid c height).2 = Err.ok ∧ retryOne s sid c height = initiated s sid sg c height) ∨
    (∃ sg, s.signings sid = some sg ∧ (initiate s sid c height).2 ≠ Err.ok ∧ retryOne s sid c height = fallen s sid sg) ∨
    (s.signings sid = none ∧ retryOne s sid c height = s) := by
  unfold retryOne
  rcases initiate_cases s sid c height with ⟨hne, e⟩ | ⟨sg, hs, hok, e⟩
  · cases hi : initiate s sid c height with
    | mk s' er =>
      rw [hi] at hne
      cases hs : s.signings sid with
      | none => right; right; cases er <;> first | exact absurd rfl hne | exact ⟨rfl, rfl⟩
      | some sg =>
        right; left
        refine ⟨sg, rfl, ?_, ?_⟩
        · exact hne
        · cases er <;> first | exact absurd rfl hne | rfl
  · left
    refine ⟨sg, hs, hok, ?_⟩
    cases hi : initiate s sid c height with
    | mk s' er =>
      rw [hi] at hok e
      simp only at hok e
      subst hok; subst e; rfl

theorem fallen_hinv (s : State) (sid : Nat) (sg : Sig) (h : HInv s) (hs : s.signings sid = some sg)
    (hne : sid ∉ s.expirations.map (·.1)) (hp : sid ∉ s.pending) : HInv (fallen s sid sg) := by
  have hnone : ∀ a, s.attempts sid a = none := fun a => h.attempt_none_of_unscheduled hne a
  unfold fallen onFailed
  refine ⟨?_, ?_, ?_, ?_, ?_, ?_, ?_, ?_⟩
  · intro i a hia
    have hi : i ≠ sid := by intro e; subst e; exact hne (List.mem_map.mpr ⟨(i, a), hia, rfl⟩)
    obtain ⟨sg', atm', q1, q2, q3, q4⟩ := h.h1 i a hia
    exact ⟨sg', atm', by simp only [hi, if_false]; exact q1, q2, q3, q4⟩
  · exact h.h2
  · intro i hi
    have hne' : i ≠ sid := by intro e; subst e; exact hp hi
    obtain ⟨sg', atm', q1, q2, q3, q4⟩ := h.h3 i hi
    exact ⟨sg', atm', by simp only [hne', if_false]; exact q1, q2, q3, q4⟩
  · intro i hi
    have : i ≠ sid := by intro e; subst e; rw [h.h4 i hi] at hs; cases hs
    simp only [this, if_false]; exact h.h4 i hi
  · exact h.h5
  · intro i sg' atm' q1 q2 q3 q4 q5
    by_cases e : i = sid
    · subst e
      simp only [if_true] at q1; cases q1
      simp [stFallen, stWaiting] at q2
    · simp only [e, if_false] at q1
      exact h.h6 i sg' atm' q1 q2 q3 q4 q5
  · exact h.h7
  · exact h.p1

theorem retryOne_hinv (s : State) (sid : Nat) (c : List Nat) (height : Int) (h : HInv s)
    (hc : c.Nodup) (hne : sid ∉ s.expirations.map (·.1)) (hp : sid ∉ s.pending) : HInv (retryOne s sid c height) := by
  rcases retryOne_cases s sid c height with ⟨sg, hs, _, e⟩ | ⟨sg, hs, _, e⟩ | ⟨_, e⟩
  · rw [e]; exact initiated_hinv s sid sg c height h hs hc hne hp
  · rw [e]; exact fallen_hinv s sid sg h hs hne hp
  · rw [e]; exact h

/-- what one retry leaves alone -/
theorem retryOne_frame (s : State) (sid : Nat) (c : List Nat) (height : Int) :
    (retryOne s sid c height).pending = s.pending ∧ (retryOne s sid c height).count = s.count ∧
    (∀ t, t ≠ sid → t ∉ s.expirations.map (·.1) → t ∉ (retryOne s sid c height).expirations.map (·.1)) ∧
    (∀ i, i ≠ sid → (retryOne s sid c height).signings i = s.signings i) := by
  rcases retryOne_cases s sid c height with ⟨sg, hs, _, e⟩ | ⟨sg, hs, _, e⟩ | ⟨_, e⟩
  · rw [e]
    refine ⟨rfl, rfl, ?_, ?_⟩
    · intro t ht hn
      simp only [initiated, List.map_append, List.map_cons, List.map_nil, List.mem_append, List.mem_singleton, not_or]
      exact ⟨hn, ht⟩
    · intro i hi; simp only [initiated, hi, if_false]
  · rw [e]
    refine ⟨rfl, rfl, ?_, ?_⟩
    · intro t _ hn; exact hn
    · intro i hi; simp only [fallen, onFailed, hi, if_false]
  · rw [e]; exact ⟨rfl, rfl, fun _ _ hn => hn, fun _ _ => rfl⟩

theorem retryAll_hinv (committee : Nat → List Nat) (height : Int) (hc : ∀ i, (committee i).Nodup) (l : List Nat) (s : State) (h : HInv s)
    (hl : l.Nodup) (hne : ∀ t ∈ l, t ∉ s.expirations.map (·.1)) (hp : s.pending = []) :
    HInv (retryAll committee height l s) ∧ (retryAll committee height l s).pending = [] ∧ (retryAll committee height l s).count = s.count ∧
    (∀ i, i ∉ l → (retryAll committee height l s).signings i = s.signings i) := by
  induction l generalizing s with
  | nil => exact ⟨h, hp, rfl, fun _ _ => rfl⟩
  | cons sid rest ih =>
    simp only [retryAll]
    obtain ⟨f1, f2, f3, f4⟩ := retryOne_frame s sid (committee sid) height
    have hn := List.nodup_cons.mp hl
    have h' := retryOne_hinv s sid (committee sid) height h (hc sid) (hne sid (List.mem_cons_self ..)) (by rw [hp]; simp)
    obtain ⟨r1, r2, r3, r4⟩ := ih (retryOne s sid (committee sid) height) h' hn.2
      (fun t ht => f3 t (by intro e; subst e; exact hn.1 ht) (hne t (List.mem_cons_of_mem _ ht))) (by rw [f1]; exact hp)
    refine ⟨r1, r2, by rw [r3, f2], ?_⟩
    intro i hi
    simp only [List.mem_cons, not_or] at hi
    rw [r4 i hi.2, f4 i hi.1]

/-! ### phase A of the end-blocker: aggregate the pending signings -/
theorem aggregateAll_core (l : List Nat) (s : State) :
    (aggregateAll s l).attempts = s.attempts ∧ (aggregateAll s l).partials = s.partials ∧
    (aggregateAll s l).expirations = s.expirations ∧ (aggregateAll s l).pending = s.pending ∧
    (aggregateAll s l).count = s.count ∧
    (∀ i, (aggregateAll s l).signings i = (s.signings i).map (fun sg => if i ∈ l then { sg with status := stSuccess } else sg)) := by
  induction l generalizing s with
  | nil => simp [aggregateAll]
  | cons sid rest ih =>
    simp only [aggregateAll]
    cases hs : s.signings sid with
    | none =>
      obtain ⟨a1, a2, a3, a4, a5, a6⟩ := ih s
      refine ⟨a1, a2, a3, a4, a5, ?_⟩
      intro i
      rw [a6 i]
      by_cases e : i = sid
      · subst e; rw [hs]; rfl
      · simp only [List.mem_cons, e, false_or]
    | some sg =>
      simp only []
      obtain ⟨_, _, _, f4, f5, f6, f7, _, _, _, _, _, _, f14, _, _⟩ := onCompleted_frame
        { s with signings := fun i => if i = sid then some { sg with status := stSuccess } else s.signings i } sid
        (((s.attempts sid sg.attempt).map (·.assigned.map (·.1))).getD [])
      have fp : (onCompleted { s with signings := fun i => if i = sid then some { sg with status := stSuccess } else s.signings i } sid
        (((s.attempts sid sg.attempt).map (·.assigned.map (·.1))).getD [])).pending = s.pending := by
        unfold onCompleted; simp only []
        split
        · rfl
        · split
          · rfl
          · split
            · rfl
            · rename_i b _ _
              have : ∀ (l : List Nat) (st : State), (payAll st b.feePerSigner l).pending = st.pending := by
                intro l; induction l with
                | nil => intro st; rfl
                | cons m r ihp => intro st; simp only [payAll]; rw [ihp]
              rw [this]
      obtain ⟨a1, a2, a3, a4, a5, a6⟩ := ih (onCompleted { s with signings := fun i => if i = sid then some { sg with status := stSuccess } else s.signings i } sid
        (((s.attempts sid sg.attempt).map (·.assigned.map (·.1))).getD []))
      refine ⟨a1.trans f5, a2.trans f6, a3.trans f7, a4.trans fp, a5.trans f14, ?_⟩
      intro i
      rw [a6 i, f4]
      by_cases e : i = sid
      · subst e
        simp only [if_true, hs, Option.map_some, List.mem_cons, true_or]
        split <;> rfl
      · simp only [e, if_false, List.mem_cons, false_or]

/-- after aggregation, with the pending list cleared, the invariant holds again -/
theorem aggregated_hinv (s : State) (h : HInv s) : HInv { aggregateAll s s.pending with pending := [] } := by
  obtain ⟨a1, a2, a3, _, a5, a6⟩ := aggregateAll_core s.pending s
  refine ⟨?_, ?_, ?_, ?_, ?_, ?_, ?_, ?_⟩
  · intro i a hia
    simp only [a1, a2, a3] at hia ⊢
    obtain ⟨sg, atm, q1, q2, q3, q4⟩ := h.h1 i a hia
    by_cases hp : i ∈ s.pending
    · obtain ⟨sg', atm', r1, r2, r3, r4⟩ := h.h3 i hp
      rw [q1] at r1; cases r1
      subst q2
      rw [q3] at r3; cases r3
      exact ⟨{ sg with status := stSuccess }, atm, by rw [a6 i, q1]; simp [hp], rfl, q3, Or.inr ⟨rfl, r4⟩⟩
    · exact ⟨sg, atm, by rw [a6 i, q1]; simp [hp], q2, q3, q4⟩
  · simp only [a3]; exact h.h2
  · intro i hi; simp at hi
  · intro i hi
    simp only [a5] at hi
    show (aggregateAll s s.pending).signings i = none
    rw [a6 i, h.h4 i hi]; rfl
  · intro i a hia
    simp only [a1] at hia
    simp only [a2]; exact h.h5 i a hia
  · intro i sg atm q1 q2 q3 q4 q5
    simp only [a1, a2] at q3 q5
    have q1' : (aggregateAll s s.pending).signings i = some sg := q1
    rw [a6 i] at q1'
    cases hs : s.signings i with
    | none => rw [hs] at q1'; cases q1'
    | some sg0 =>
      rw [hs] at q1'
      simp only [Option.map_some, Option.some.injEq] at q1'
      by_cases hp : i ∈ s.pending
      · simp only [hp, if_true] at q1'
        subst q1'
        simp [stSuccess, stWaiting] at q2
      · simp only [hp, if_false] at q1'
        subst q1'
        exact absurd (h.h6 i sg0 atm hs q2 q3 q4 q5) hp
  · intro i a atm q
    simp only [a1] at q
    simp only [a3]; exact h.h7 i a atm q
  · intro i a atm q
    simp only [a1] at q
    simp only [a2]; exact h.p1 i a atm q

/-! ### phase B of the end-blocker: the expiry pass over the FIFO -/
theorem onTimeout_pending (sid att : Nat) (nowNs : Int) (l : List Nat) (s : State) : (onTimeout s sid att nowNs l).pending = s.pending := by
  induction l generalizing s with
  | nil => rfl
  | cons m rest ih =>
    simp only [onTimeout]
    split
    · rw [ih]
    · rw [ih]

/-- the expiry pass consumes a prefix of the FIFO: it clears exactly the attempts and partial signatures of the consumed
    entries, touches nothing else of the signing state, and reports as timed out (in FIFO order) consumed entries whose
    partial set was incomplete -/
theorem expireGo_core (height nowNs : Int) (l : List (Nat × Nat)) (s : State) (acc : List Nat) (n : Nat) :
    ∃ k sub, k ≤ l.length ∧ (expireGo height nowNs l s acc n).2.2 = n + k ∧
      (expireGo height nowNs l s acc n).1.signings = s.signings ∧ (expireGo height nowNs l s acc n).1.expirations = s.expirations ∧
      (expireGo height nowNs l s acc n).1.pending = s.pending ∧ (expireGo height nowNs l s acc n).1.count = s.count ∧
      (∀ i a, (expireGo height nowNs l s acc n).1.attempts i a = if (i, a) ∈ l.take k then none else s.attempts i a) ∧
      (∀ i a, (expireGo height nowNs l s acc n).1.partials i a = if (i, a) ∈ l.take k then [] else s.partials i a) ∧
      (expireGo height nowNs l s acc n).2.1 = acc ++ sub ∧ sub.Sublist ((l.take k).map (·.1)) ∧
      (∀ t ∈ sub, ∃ att atm, (t, att) ∈ l.take k ∧ s.attempts t att = some atm ∧ (s.partials t att).length ≠ atm.assigned.length) := by
  induction l generalizing s acc n with
  | nil => exact ⟨0, [], Nat.le_refl _, rfl, rfl, rfl, rfl, rfl, by simp [expireGo], by simp [expireGo], by simp [expireGo], by simp, by simp⟩
  | cons e rest ih =>
    obtain ⟨sid, att⟩ := e
    have stop : ∀ (hstop : expireGo height nowNs ((sid, att) :: rest) s acc n = (s, acc, n)),
        ∃ k sub, k ≤ ((sid, att) :: rest).length ∧ (expireGo height nowNs ((sid, att) :: rest) s acc n).2.2 = n + k ∧
      (expireGo height nowNs ((sid, att) :: rest) s acc n).1.signings = s.signings ∧ (expireGo height nowNs ((sid, att) :: rest) s acc n).1.expirations = s.expirations ∧
      (expireGo height nowNs ((sid, att) :: rest) s acc n).1.pending = s.pending ∧ (expireGo height nowNs ((sid, att) :: rest) s acc n).1.count = s.count ∧
      (∀ i a, (expireGo height nowNs ((sid, att) :: rest) s acc n).1.attempts i a = if (i, a) ∈ ((sid, att) :: rest).take k then none else s.attempts i a) ∧
      (∀ i a, (expireGo height nowNs ((sid, att) :: rest) s acc n).1.partials i a = if (i, a) ∈ ((sid, att) :: rest).take k then [] else s.partials i a) ∧
      (expireGo height nowNs ((sid, att) :: rest) s acc n).2.1 = acc ++ sub ∧ sub.Sublist ((((sid, att) :: rest).take k).map (·.1)) ∧
      (∀ t ∈ sub, ∃ att' atm, (t, att') ∈ ((sid, att) :: rest).take k ∧ s.attempts t att' = some atm ∧ (s.partials t att').length ≠ atm.assigned.length) := by
      intro hstop
      rw [hstop]
      exact ⟨0, [], Nat.zero_le _, rfl, rfl, rfl, rfl, rfl, by simp, by simp, by simp, by simp, by simp⟩
    cases hs : s.signings sid with
    | none => exact stop (by simp [expireGo, hs])
    | some sg =>
      cases ha : s.attempts sid att with
      | none => exact stop (by simp [expireGo, hs, ha])
      | some atm =>
        by_cases hexp : atm.expiredHeight > height
        · exact stop (by simp [expireGo, hs, ha, hexp])
        · -- the head entry is consumed
          let idle := ((s.attempts sid sg.attempt).map fun c => (c.assigned.map (·.1)).filter fun m => !(s.partials sid sg.attempt).contains m).getD []
          by_cases hto : (s.partials sid att).length ≠ atm.assigned.length
          · -- timed out
            obtain ⟨_, _, _, t4, t5, t6, t7, _, _, _, _, _, t14, _⟩ := onTimeout_frame sid sg.attempt nowNs idle s
            have tp := onTimeout_pending sid sg.attempt nowNs idle s
            have hrec : expireGo height nowNs ((sid, att) :: rest) s acc n =
                expireGo height nowNs rest
                  { onTimeout s sid sg.attempt nowNs idle with
                      partials := fun i a => if i = sid ∧ a = att then [] else (onTimeout s sid sg.attempt nowNs idle).partials i a,
                      attempts := fun i a => if i = sid ∧ a = att then none else (onTimeout s sid sg.attempt nowNs idle).attempts i a }
                  (acc ++ [sid]) (n + 1) := by
              simp only [expireGo, hs, ha, hexp, if_false, if_pos hto, idle]
            rw [hrec]
            obtain ⟨k, sub, b1, b2, b3, b4, b5, b6, b7, b8, b9, b10, b11⟩ := ih
              { onTimeout s sid sg.attempt nowNs idle with
                  partials := fun i a => if i = sid ∧ a = att then [] else (onTimeout s sid sg.attempt nowNs idle).partials i a,
                  attempts := fun i a => if i = sid ∧ a = att then none else (onTimeout s sid sg.attempt nowNs idle).attempts i a }
              (acc ++ [sid]) (n + 1)
            refine ⟨k + 1, sid :: sub, by simp; omega, by rw [b2]; omega, by rw [b3]; exact t4, by rw [b4]; exact t7, by rw [b5]; exact tp,
              by rw [b6]; exact t14, ?_, ?_, by rw [b9]; simp, ?_, ?_⟩
            · intro i a
              rw [b7 i a]
              simp only [List.take_succ_cons, List.mem_cons, Prod.mk.injEq, t5]
              by_cases e1 : (i, a) ∈ rest.take k
              · simp [e1]
              · by_cases e2 : i = sid ∧ a = att
                · simp [e2]
                · simp [e1, e2]
            · intro i a
              rw [b8 i a]
              simp only [List.take_succ_cons, List.mem_cons, Prod.mk.injEq, t6]
              by_cases e1 : (i, a) ∈ rest.take k
              · simp [e1]
              · by_cases e2 : i = sid ∧ a = att
                · simp [e2]
                · simp [e1, e2]
            · simp only [List.take_succ_cons, List.map_cons]
              exact b10.cons_cons _
            · intro t ht
              rcases List.mem_cons.mp ht with rfl | ht'
              · exact ⟨att, atm, by simp, ha, hto⟩
              · obtain ⟨att', atm', c1, c2, c3⟩ := b11 t ht'
                simp only [t5, t6] at c2 c3
                have hne : ¬ (t = sid ∧ att' = att) := by
                  intro e; simp only [e, and_self, if_true] at c2; cases c2
                simp only [hne, if_false] at c2 c3
                exact ⟨att', atm', by simp only [List.take_succ_cons]; exact List.mem_cons_of_mem _ c1, c2, c3⟩
          · -- complete set: consumed without a timeout
            have hrec : expireGo height nowNs ((sid, att) :: rest) s acc n =
                expireGo height nowNs rest
                  { s with partials := fun i a => if i = sid ∧ a = att then [] else s.partials i a,
                           attempts := fun i a => if i = sid ∧ a = att then none else s.attempts i a }
                  acc (n + 1) := by
              simp only [expireGo, hs, ha, hexp, if_false, if_neg hto]
            rw [hrec]
            obtain ⟨k, sub, b1, b2, b3, b4, b5, b6, b7, b8, b9, b10, b11⟩ := ih
              { s with partials := fun i a => if i = sid ∧ a = att then [] else s.partials i a,
                       attempts := fun i a => if i = sid ∧ a = att then none else s.attempts i a }
              acc (n + 1)
            refine ⟨k + 1, sub, by simp; omega, by rw [b2]; omega, b3, b4, b5, b6, ?_, ?_, b9, ?_, ?_⟩
            · intro i a
              rw [b7 i a]
              simp only [List.take_succ_cons, List.mem_cons, Prod.mk.injEq]
              by_cases e1 : (i, a) ∈ rest.take k
              · simp [e1]
              · by_cases e2 : i = sid ∧ a = att
                · simp [e2]
                · simp [e1, e2]
            · intro i a
              rw [b8 i a]
              simp only [List.take_succ_cons, List.mem_cons, Prod.mk.injEq]
              by_cases e1 : (i, a) ∈ rest.take k
              · simp [e1]
              · by_cases e2 : i = sid ∧ a = att
                · simp [e2]
                · simp [e1, e2]
            · simp only [List.take_succ_cons, List.map_cons]
              exact b10.cons _
            · intro t ht
              obtain ⟨att', atm', c1, c2, c3⟩ := b11 t ht
              have hne : ¬ (t = sid ∧ att' = att) := by
                intro e; simp only [e, and_self, if_true] at c2; cases c2
              simp only [hne, if_false] at c2 c3
              exact ⟨att', atm', by simp only [List.take_succ_cons]; exact List.mem_cons_of_mem _ c1, c2, c3⟩

/-! ### the end-blocker -/
theorem take_drop_disjoint {α β : Type} (f : α → β) (l : List α) (k : Nat) (h : (l.map f).Nodup) (x : β)
    (hx : x ∈ (l.take k).map f) : x ∉ (l.drop k).map f := by
  have : ((l.take k).map f ++ (l.drop k).map f).Nodup := by rw [← List.map_append, List.take_append_drop]; exact h
  intro hy
  exact (List.nodup_append.mp this).2.2 x hx x hy rfl

theorem mem_drop_not_take {α : Type} (l : List α) (k : Nat) (h : l.Nodup) (x : α) (hx : x ∈ l.drop k) : x ∉ l.take k := by
  have : (l.take k ++ l.drop k).Nodup := by rw [List.take_append_drop]; exact h
  intro hy
  exact (List.nodup_append.mp this).2.2 x hy x hx rfl

/-- the state between the expiry pass and the retries -/
theorem expired_hinv (s2 : State) (H2 : HInv s2) (hp2 : s2.pending = []) (height nowNs : Int) :
    let r := expireGo height nowNs s2.expirations s2 [] 0
    HInv { r.1 with expirations := r.1.expirations.drop r.2.2 } ∧ r.2.1.Nodup ∧ r.1.pending = [] ∧ r.1.count = s2.count ∧ r.1.signings = s2.signings ∧
    (∀ t ∈ r.2.1, t ∉ (r.1.expirations.drop r.2.2).map (·.1)) ∧
    (∀ t ∈ r.2.1, ∃ sg, s2.signings t = some sg ∧ sg.status = stWaiting) := by
  intro r
  obtain ⟨k, sub, b1, b2, b3, b4, b5, b6, b7, b8, b9, b10, b11⟩ := expireGo_core height nowNs s2.expirations s2 [] 0
  have hr2 : r.2.2 = k := by show (expireGo height nowNs s2.expirations s2 [] 0).2.2 = k; rw [b2]; omega
  have hr1 : r.2.1 = sub := by show (expireGo height nowNs s2.expirations s2 [] 0).2.1 = sub; rw [b9]; simp
  have hnd : s2.expirations.Nodup := List.Pairwise.of_map (·.1) (fun a b hab e => hab (by rw [e])) H2.h2
  have keep : ∀ i a, (i, a) ∈ s2.expirations.drop k → r.1.attempts i a = s2.attempts i a ∧ r.1.partials i a = s2.partials i a := by
    intro i a hia
    have := mem_drop_not_take _ k hnd _ hia
    exact ⟨by rw [show r.1.attempts i a = _ from b7 i a]; simp [this], by rw [show r.1.partials i a = _ from b8 i a]; simp [this]⟩
  have hsig : r.1.signings = s2.signings := b3
  have hexp : r.1.expirations = s2.expirations := b4
  refine ⟨?_, ?_, by rw [show r.1.pending = _ from b5]; exact hp2, b6, hsig, ?_, ?_⟩
  · refine ⟨?_, ?_, ?_, ?_, ?_, ?_, ?_, ?_⟩
    · intro i a hia
      simp only [hr2, hexp] at hia
      obtain ⟨sg, atm, q1, q2, q3, q4⟩ := H2.h1 i a (List.mem_of_mem_drop hia)
      obtain ⟨k1, k2⟩ := keep i a hia
      exact ⟨sg, atm, by show r.1.signings i = some sg; rw [hsig]; exact q1, q2, by show r.1.attempts i a = some atm; rw [k1]; exact q3,
        by show sg.status = stWaiting ∨ (sg.status = stSuccess ∧ (r.1.partials i a).length = atm.assigned.length); rw [k2]; exact q4⟩
    · simp only [hr2, hexp]
      exact (List.Sublist.map _ (List.drop_sublist k _)).nodup H2.h2
    · intro i hi
      have : r.1.pending = [] := by rw [show r.1.pending = _ from b5]; exact hp2
      simp only [this] at hi; cases hi
    · intro i hi
      show r.1.signings i = none
      rw [hsig]; exact H2.h4 i (by rw [show r.1.count = _ from b6] at hi; exact hi)
    · intro i a hia
      show r.1.partials i a = []
      have hia' : r.1.attempts i a = none := hia
      rw [show r.1.partials i a = _ from b8 i a]
      rw [show r.1.attempts i a = _ from b7 i a] at hia'
      by_cases e : (i, a) ∈ s2.expirations.take k
      · simp [e]
      · simp only [e, if_false] at hia' ⊢; exact H2.h5 i a hia'
    · intro i sg atm q1 q2 q3 q4 q5
      have q1' : r.1.signings i = some sg := q1
      have q3' : r.1.attempts i sg.attempt = some atm := q3
      have q5' : (r.1.partials i sg.attempt).length = atm.assigned.length := q5
      rw [hsig] at q1'
      rw [show r.1.attempts i sg.attempt = _ from b7 i sg.attempt] at q3'
      rw [show r.1.partials i sg.attempt = _ from b8 i sg.attempt] at q5'
      by_cases e : (i, sg.attempt) ∈ s2.expirations.take k
      · simp only [e, if_true] at q3'; cases q3'
      · simp only [e, if_false] at q3' q5'
        have := H2.h6 i sg atm q1' q2 q3' q4 q5'
        rw [hp2] at this; cases this
    · intro i a atm q
      have q' : r.1.attempts i a = some atm := q
      rw [show r.1.attempts i a = _ from b7 i a] at q'
      simp only [hr2, hexp]
      by_cases e : (i, a) ∈ s2.expirations.take k
      · simp only [e, if_true] at q'; cases q'
      · simp only [e, if_false] at q'
        have := H2.h7 i a atm q'
        rw [← List.take_append_drop k s2.expirations] at this
        rcases List.mem_append.mp this with h' | h'
        · exact absurd h' e
        · exact h'
    · intro i a atm q
      have q' : r.1.attempts i a = some atm := q
      rw [show r.1.attempts i a = _ from b7 i a] at q'
      show (∀ m ∈ r.1.partials i a, m ∈ ids atm) ∧ (r.1.partials i a).Nodup ∧ (ids atm).Nodup
      rw [show r.1.partials i a = _ from b8 i a]
      by_cases e : (i, a) ∈ s2.expirations.take k
      · simp only [e, if_true] at q'; cases q'
      · simp only [e, if_false] at q' ⊢
        exact H2.p1 i a atm q'
  · rw [hr1]
    exact (b10.trans (List.Sublist.map _ (List.take_sublist k _))).nodup H2.h2
  · intro t ht
    rw [hr1] at ht
    rw [hr2, hexp]
    exact take_drop_disjoint (·.1) s2.expirations k H2.h2 t (b10.subset ht)
  · intro t ht
    rw [hr1] at ht
    obtain ⟨att, atm, c1, c2, c3⟩ := b11 t ht
    obtain ⟨sg, atm', q1, q2, q3, q4⟩ := H2.h1 t att (List.mem_of_mem_take c1)
    rw [c2] at q3; cases q3
    rcases q4 with w | ⟨_, c⟩
    · exact ⟨sg, q1, w⟩
    · exact absurd c c3

theorem endBlock_hinv (s : State) (committee : Nat → List Nat) (height nowNs : Int) (hc : ∀ i, (committee i).Nodup) (h : HInv s) :
    HInv (endBlock s committee height nowNs) := by
  unfold endBlock
  simp only []
  have H2 := aggregated_hinv s h
  obtain ⟨e1, e2, e3, _, _, e6, _⟩ := expired_hinv { aggregateAll s s.pending with pending := [] } H2 rfl height nowNs
  exact (retryAll_hinv committee height hc _ _ e1 e2 e6 e3).1

/-! ### SubmitSignature -/
theorem submit_hinv (s : State) (sid member : Nat) (signerOk valid : Bool) (h : HInv s) :
    HInv (submit s sid member signerOk valid).1 := by
  by_cases hok : (submit s sid member signerOk valid).2 = Err.ok
  · obtain ⟨sg, atm, hs, hw, ha, hmem, hnot, _, _, hst⟩ := submit_ok s sid member signerOk valid hok
    rw [hst]
    have hp1 := h.p1 sid sg.attempt atm ha
    have hps : ∀ i a, (addPartial s sid sg.attempt member atm.assigned.length).partials i a =
        if i = sid ∧ a = sg.attempt then s.partials sid sg.attempt ++ [member] else s.partials i a := by
      intro i a; unfold addPartial; simp only []; split <;> rfl
    have hsig : (addPartial s sid sg.attempt member atm.assigned.length).signings = s.signings := by
      unfold addPartial; simp only []; split <;> rfl
    have hatt : (addPartial s sid sg.attempt member atm.assigned.length).attempts = s.attempts := by
      unfold addPartial; simp only []; split <;> rfl
    have hexp : (addPartial s sid sg.attempt member atm.assigned.length).expirations = s.expirations := by
      unfold addPartial; simp only []; split <;> rfl
    have hcnt : (addPartial s sid sg.attempt member atm.assigned.length).count = s.count := by
      unfold addPartial; simp only []; split <;> rfl
    have hpend : (addPartial s sid sg.attempt member atm.assigned.length).pending =
        if (s.partials sid sg.attempt ++ [member]).length == atm.assigned.length then s.pending ++ [sid] else s.pending := by
      unfold addPartial; simp only []; split <;> rfl
    have hlt : (s.partials sid sg.attempt).length < atm.assigned.length := by
      have hle := nodup_subset_length_le (s.partials sid sg.attempt ++ [member]) (ids atm)
        (List.nodup_append.mpr ⟨hp1.2.1, by simp, by intro a ha' b hb; simp at hb; subst hb; intro e; subst e; exact hnot ha'⟩)
        (by intro x hx; rcases List.mem_append.mp hx with h' | h'
            · exact hp1.1 x h'
            · simp at h'; subst h'; exact hmem)
      simp [ids] at hle; omega
    refine ⟨?_, ?_, ?_, ?_, ?_, ?_, ?_, ?_⟩
    · intro i a hia
      rw [hexp] at hia
      obtain ⟨sg', atm', q1, q2, q3, q4⟩ := h.h1 i a hia
      refine ⟨sg', atm', by rw [hsig]; exact q1, q2, by rw [hatt]; exact q3, ?_⟩
      rcases q4 with w | ⟨su, c⟩
      · exact Or.inl w
      · right; refine ⟨su, ?_⟩
        rw [hps]
        have : ¬ (i = sid ∧ a = sg.attempt) := by
          rintro ⟨rfl, rfl⟩
          rw [hs] at q1; cases q1
          rw [hw] at su; cases su
        simp only [this, if_false]; exact c
    · rw [hexp]; exact h.h2
    · intro i hi
      rw [hpend] at hi
      have old : ∀ i, i ∈ s.pending → ∃ sg' atm', (addPartial s sid sg.attempt member atm.assigned.length).signings i = some sg' ∧ sg'.status = stWaiting ∧
          (addPartial s sid sg.attempt member atm.assigned.length).attempts i sg'.attempt = some atm' ∧
          ((addPartial s sid sg.attempt member atm.assigned.length).partials i sg'.attempt).length = atm'.assigned.length := by
        intro i hi
        obtain ⟨sg', atm', q1, q2, q3, q4⟩ := h.h3 i hi
        refine ⟨sg', atm', by rw [hsig]; exact q1, q2, by rw [hatt]; exact q3, ?_⟩
        rw [hps]
        have : ¬ (i = sid ∧ sg'.attempt = sg.attempt) := by
          rintro ⟨rfl, e⟩
          rw [hs] at q1; cases q1
          rw [ha] at q3; cases q3
          omega
        simp only [this, if_false]; exact q4
      split at hi
      · rename_i hfull
        rcases List.mem_append.mp hi with h' | h'
        · exact old i h'
        · simp at h'; subst h'
          refine ⟨sg, atm, by rw [hsig]; exact hs, hw, by rw [hatt]; exact ha, ?_⟩
          rw [hps]; simp only [and_self, if_true]; simpa using hfull
      · exact old i hi
    · intro i hi
      rw [hcnt] at hi
      rw [hsig]; exact h.h4 i hi
    · intro i a hia
      rw [hatt] at hia
      rw [hps]
      have : ¬ (i = sid ∧ a = sg.attempt) := by
        rintro ⟨rfl, rfl⟩; rw [ha] at hia; cases hia
      simp only [this, if_false]; exact h.h5 i a hia
    · intro i sg' atm' q1 q2 q3 q4 q5
      rw [hsig] at q1; rw [hatt] at q3; rw [hps] at q5
      rw [hpend]
      by_cases e : i = sid
      · subst e
        rw [hs] at q1; cases q1
        rw [ha] at q3; cases q3
        simp only [and_self, if_true] at q5
        have : ((s.partials i sg.attempt ++ [member]).length == atm.assigned.length) = true := by simpa using q5
        rw [if_pos this]; simp
      · simp only [e, false_and, if_false] at q5
        have := h.h6 i sg' atm' q1 q2 q3 q4 q5
        split
        · exact List.mem_append_left _ this
        · exact this
    · intro i a atm' q
      rw [hatt] at q; rw [hexp]; exact h.h7 i a atm' q
    · intro i a atm' q
      rw [hatt] at q
      obtain ⟨r1, r2, r3⟩ := h.p1 i a atm' q
      rw [hps]
      by_cases e : i = sid ∧ a = sg.attempt
      · obtain ⟨rfl, rfl⟩ := e
        rw [ha] at q; cases q
        simp only [and_self, if_true]
        refine ⟨?_, ?_, r3⟩
        · intro x hx
          rcases List.mem_append.mp hx with h' | h'
          · exact r1 x h'
          · simp at h'; subst h'; exact hmem
        · exact List.nodup_append.mpr ⟨r2, by simp, by intro a' ha' b hb; simp at hb; subst hb; intro e; subst e; exact hnot ha'⟩
      · simp only [e, if_false]; exact ⟨r1, r2, r3⟩
  · rw [submit_err_state s sid member signerOk valid hok]; exact h

/-! ### a signing request -/
theorem tssRequest_hinv (s : State) (c : List Nat) (height : Int) (hc : c.Nodup) (h : HInv s) : HInv (tssRequest s c height).1 := by
  unfold tssRequest
  simp only []
  -- the state with the fresh signing record (attempt 0)
  have hnew_exp : s.count + 1 ∉ s.expirations.map (·.1) := by
    intro hm
    obtain ⟨sg, q⟩ := h.sid_scheduled_exists hm
    rw [h.h4 (s.count + 1) (Nat.lt_succ_self _)] at q; cases q
  have hnew_pend : s.count + 1 ∉ s.pending := by
    intro hm
    obtain ⟨sg, _, q, _⟩ := h.h3 _ hm
    rw [h.h4 (s.count + 1) (Nat.lt_succ_self _)] at q; cases q
  have h1 : HInv { s with count := s.count + 1, signings := fun i => if i = s.count + 1 then some { status := stWaiting, attempt := 0 } else s.signings i } := by
    refine ⟨?_, h.h2, ?_, ?_, h.h5, ?_, h.h7, h.p1⟩
    · intro i a hia
      have hi : i ≠ s.count + 1 := by intro e; subst e; exact hnew_exp (List.mem_map.mpr ⟨(_, a), hia, rfl⟩)
      obtain ⟨sg', atm', q1, q2, q3, q4⟩ := h.h1 i a hia
      exact ⟨sg', atm', by simp only [hi, if_false]; exact q1, q2, q3, q4⟩
    · intro i hi
      have hne : i ≠ s.count + 1 := by intro e; subst e; exact hnew_pend hi
      obtain ⟨sg', atm', q1, q2, q3, q4⟩ := h.h3 i hi
      exact ⟨sg', atm', by simp only [hne, if_false]; exact q1, q2, q3, q4⟩
    · intro i hi
      have : i ≠ s.count + 1 := by simp only at hi; omega
      simp only [this, if_false]; exact h.h4 i (by simp only at hi; omega)
    · intro i sg' atm' q1 q2 q3 q4 q5
      by_cases e : i = s.count + 1
      · subst e
        have := h.attempt_none_of_unscheduled hnew_exp sg'.attempt
        simp only at q3; rw [this] at q3; cases q3
      · simp only [e, if_false] at q1
        exact h.h6 i sg' atm' q1 q2 q3 q4 q5
  have h2 := initiate_hinv _ (s.count + 1) c height h1 hc hnew_exp hnew_pend
  cases hi : initiate { s with count := s.count + 1, signings := fun i => if i = s.count + 1 then some { status := stWaiting, attempt := 0 } else s.signings i } (s.count + 1) c height with
  | mk s2 e =>
    rw [hi] at h2
    cases e <;> first | exact h2 | exact h

theorem request_hinv (s : State) (sender : Nat) (auth : Bool) (limit : Coins) (c : List Nat) (height : Int) (hc : c.Nodup) (h : HInv s) :
    HInv (request s sender auth limit c height).1 := by
  unfold request
  cases requestErr s sender auth limit <;> simp only [] <;> try exact h
  have he : HInv (escrowed s sender auth) := by
    unfold escrowed; split
    · exact h
    · exact hinv_of_frame _ _ h rfl rfl rfl rfl rfl rfl
  have ht := tssRequest_hinv (escrowed s sender auth) c height hc he
  cases hr : tssRequest (escrowed s sender auth) c height with
  | mk s2 e =>
    rw [hr] at ht
    cases e <;> simp only [] <;> first
      | exact hinv_of_frame _ _ ht rfl rfl rfl rfl rfl rfl
      | exact h

/-! ### what the operations do to one signing record -/
/-- a retry either starts attempt+1 (WAITING) or marks the signing FALLEN at the same attempt -/
def Retried (sg sg' : Sig) : Prop :=
  (sg'.attempt = sg.attempt + 1 ∧ sg'.status = stWaiting) ∨ (sg'.attempt = sg.attempt ∧ sg'.status = stFallen)

theorem retryOne_signing (s : State) (sid : Nat) (c : List Nat) (height : Int) (sg : Sig) (hs : s.signings sid = some sg) :
    ∃ sg', (retryOne s sid c height).signings sid = some sg' ∧ Retried sg sg' := by
  rcases retryOne_cases s sid c height with ⟨sg0, hs0, _, e⟩ | ⟨sg0, hs0, _, e⟩ | ⟨hn, _⟩
  · rw [hs] at hs0; cases hs0
    rw [e]; exact ⟨{ status := stWaiting, attempt := sg.attempt + 1 }, by simp [initiated], Or.inl ⟨rfl, rfl⟩⟩
  · rw [hs] at hs0; cases hs0
    rw [e]; exact ⟨{ sg with status := stFallen }, by simp [fallen, onFailed], Or.inr ⟨rfl, rfl⟩⟩
  · rw [hs] at hn; cases hn

theorem retryAll_signing (committee : Nat → List Nat) (height : Int) (l : List Nat) (s : State) (hl : l.Nodup)
    (i : Nat) (sg : Sig) (hs : s.signings i = some sg) (hi : i ∈ l) :
    ∃ sg', (retryAll committee height l s).signings i = some sg' ∧ Retried sg sg' := by
  induction l generalizing s with
  | nil => cases hi
  | cons sid rest ih =>
    simp only [retryAll]
    have hn := List.nodup_cons.mp hl
    obtain ⟨_, _, _, f4⟩ := retryOne_frame s sid (committee sid) height
    rcases List.mem_cons.mp hi with rfl | hr
    · obtain ⟨sg', q1, q2⟩ := retryOne_signing s i (committee i) height sg hs
      refine ⟨sg', ?_, q2⟩
      -- the remaining retries are for other ids
      have : ∀ (l' : List Nat) (st : State), i ∉ l' → (retryAll committee height l' st).signings i = st.signings i := by
        intro l'
        induction l' with
        | nil => intro st _; rfl
        | cons x xs ihx =>
          intro st hx
          simp only [retryAll, List.mem_cons, not_or] at hx ⊢
          rw [ihx _ hx.2]
          exact (retryOne_frame st x (committee x) height).2.2.2 i hx.1
      rw [this rest _ hn.1]; exact q1
    · have hne : i ≠ sid := by intro e; subst e; exact hn.1 hr
      exact ih (retryOne s sid (committee sid) height) hn.2 (by rw [f4 i hne]; exact hs) hr

theorem retryAll_signing_other (committee : Nat → List Nat) (height : Int) (l : List Nat) (s : State) (i : Nat) (hi : i ∉ l) :
    (retryAll committee height l s).signings i = s.signings i := by
  induction l generalizing s with
  | nil => rfl
  | cons x xs ih =>
    simp only [retryAll, List.mem_cons, not_or] at hi ⊢
    rw [ih _ hi.2]
    exact (retryOne_frame s x (committee x) height).2.2.2 i hi.1

/-- the four things an end-block can do to a signing record -/
theorem endBlock_signing (s : State) (committee : Nat → List Nat) (height nowNs : Int) (h : HInv s) (i : Nat) (sg : Sig)
    (hs : s.signings i = some sg) :
    ∃ sg', (endBlock s committee height nowNs).signings i = some sg' ∧
      ((i ∈ s.pending ∧ sg.status = stWaiting ∧ sg' = { sg with status := stSuccess }) ∨
       (i ∉ s.pending ∧ sg' = sg) ∨
       (i ∉ s.pending ∧ sg.status = stWaiting ∧ Retried sg sg')) := by
  unfold endBlock
  simp only []
  have H2 := aggregated_hinv s h
  obtain ⟨_, _, _, _, _, a6⟩ := aggregateAll_core s.pending s
  obtain ⟨_, e2, _, _, e5, _, e7⟩ := expired_hinv { aggregateAll s s.pending with pending := [] } H2 rfl height nowNs
  have hs2 : (aggregateAll s s.pending).signings i = some (if i ∈ s.pending then { sg with status := stSuccess } else sg) := by
    rw [a6 i, hs]; rfl
  by_cases hto : i ∈ (expireGo height nowNs (aggregateAll s s.pending).expirations { aggregateAll s s.pending with pending := [] } [] 0).2.1
  · obtain ⟨sg2, q1, q2⟩ := e7 i hto
    have q1' : (aggregateAll s s.pending).signings i = some sg2 := q1
    rw [hs2] at q1'
    by_cases hp : i ∈ s.pending
    · simp only [hp, if_true, Option.some.injEq] at q1'
      subst q1'; simp [stSuccess, stWaiting] at q2
    · simp only [hp, if_false, Option.some.injEq] at q1'
      subst q1'
      obtain ⟨sg', r1, r2⟩ := retryAll_signing committee height _
        { (expireGo height nowNs (aggregateAll s s.pending).expirations { aggregateAll s s.pending with pending := [] } [] 0).1 with
          expirations := (expireGo height nowNs (aggregateAll s s.pending).expirations { aggregateAll s s.pending with pending := [] } [] 0).1.expirations.drop
            (expireGo height nowNs (aggregateAll s s.pending).expirations { aggregateAll s s.pending with pending := [] } [] 0).2.2 }
        e2 i sg (by show (expireGo height nowNs (aggregateAll s s.pending).expirations { aggregateAll s s.pending with pending := [] } [] 0).1.signings i = some sg
                    rw [e5]; exact q1) hto
      exact ⟨sg', r1, Or.inr (Or.inr ⟨hp, q2, r2⟩)⟩
  · rw [retryAll_signing_other committee height _ _ i hto]
    show ∃ sg', (expireGo height nowNs (aggregateAll s s.pending).expirations { aggregateAll s s.pending with pending := [] } [] 0).1.signings i = some sg' ∧ _
    rw [e5]
    show ∃ sg', (aggregateAll s s.pending).signings i = some sg' ∧ _
    rw [hs2]
    by_cases hp : i ∈ s.pending
    · obtain ⟨sg0, _, q1, q2, _, _⟩ := h.h3 i hp
      rw [hs] at q1; cases q1
      exact ⟨_, rfl, Or.inl ⟨hp, q2, by simp [hp]⟩⟩
    · exact ⟨_, rfl, Or.inr (Or.inl ⟨hp, by simp [hp]⟩)⟩

/-- the state with the fresh signing record (attempt 0) that CreateSigning writes -/
def fresh (s : State) : State :=
  { s with count := s.count + 1, signings := fun i => if i = s.count + 1 then some { status := stWaiting, attempt := 0 } else s.signings i }

theorem tssRequest_eq (s : State) (c : List Nat) (height : Int) :
    tssRequest s c height = if (initiate (fresh s) (s.count + 1) c height).2 = Err.ok then ((initiate (fresh s) (s.count + 1) c height).1, Err.ok)
      else (s, (initiate (fresh s) (s.count + 1) c height).2) := by
  unfold tssRequest fresh
  simp only []
  cases initiate { s with count := s.count + 1, signings := fun i => if i = s.count + 1 then some { status := stWaiting, attempt := 0 } else s.signings i } (s.count + 1) c height with
  | mk s2 e => cases e <;> simp

theorem tssRequest_signings_other (s : State) (c : List Nat) (height : Int) (i : Nat) (hi : i ≠ s.count + 1) :
    (tssRequest s c height).1.signings i = s.signings i := by
  rw [tssRequest_eq]
  by_cases hok : (initiate (fresh s) (s.count + 1) c height).2 = Err.ok
  · rw [if_pos hok]
    rcases initiate_cases (fresh s) (s.count + 1) c height with ⟨hne, _⟩ | ⟨sg, _, _, he⟩
    · exact absurd hok hne
    · show (initiate (fresh s) (s.count + 1) c height).1.signings i = s.signings i
      rw [he]; simp only [initiated, fresh, hi, if_false]
  · rw [if_neg hok]

/-- a request only creates the record of the next id -/
theorem request_signings_other (s : State) (sender : Nat) (auth : Bool) (limit : Coins) (c : List Nat) (height : Int) (i : Nat)
    (hi : i ≠ s.count + 1) : (request s sender auth limit c height).1.signings i = s.signings i := by
  unfold request
  have hcount : (escrowed s sender auth).count = s.count := by unfold escrowed; split <;> rfl
  have hsig : (escrowed s sender auth).signings = s.signings := by unfold escrowed; split <;> rfl
  have ht := tssRequest_signings_other (escrowed s sender auth) c height i (by rw [hcount]; exact hi)
  cases requestErr s sender auth limit <;> simp only []
  cases hr : tssRequest (escrowed s sender auth) c height with
  | mk s2 e =>
    rw [hr] at ht
    simp only [] at ht
    cases e <;> simp only [] <;> first
      | (show (recordB s2 (feeFor s auth) sender).signings i = s.signings i; rw [← hsig, ← ht]; rfl)
      | rfl

/-! ### the expiry pass consumes exactly the expired prefix -/
/-- the state after the expiry pass has consumed the head entry `(sid, att)` -/
def consumeHead (s : State) (sid att : Nat) (sg : Sig) (atm : Attempt) (nowNs : Int) : State :=
  let timedOut := (s.partials sid att).length ≠ atm.assigned.length
  let idle := ((s.attempts sid sg.attempt).map fun c => (c.assigned.map (·.1)).filter fun m => !(s.partials sid sg.attempt).contains m).getD []
  let s1 := if timedOut then onTimeout s sid sg.attempt nowNs idle else s
  { s1 with partials := fun i a => if i = sid ∧ a = att then [] else s1.partials i a,
            attempts := fun i a => if i = sid ∧ a = att then none else s1.attempts i a }

theorem expireGo_consume (height nowNs : Int) (sid att : Nat) (rest : List (Nat × Nat)) (s : State) (acc : List Nat) (n : Nat)
    (sg : Sig) (atm : Attempt) (hs : s.signings sid = some sg) (ha : s.attempts sid att = some atm) (hexp : ¬ atm.expiredHeight > height) :
    expireGo height nowNs ((sid, att) :: rest) s acc n =
      expireGo height nowNs rest (consumeHead s sid att sg atm nowNs)
        (if (s.partials sid att).length ≠ atm.assigned.length then acc ++ [sid] else acc) (n + 1) := by
  simp only [expireGo, hs, ha, hexp, if_false, consumeHead]

theorem consumeHead_keep (s : State) (sid att : Nat) (sg : Sig) (atm : Attempt) (nowNs : Int) (i a : Nat) (hne : i ≠ sid) :
    (consumeHead s sid att sg atm nowNs).attempts i a = s.attempts i a ∧ (consumeHead s sid att sg atm nowNs).signings i = s.signings i := by
  simp only [consumeHead, hne, false_and, if_false]
  split
  · obtain ⟨_, _, _, t4, t5, _⟩ := onTimeout_frame sid sg.attempt nowNs
      (((s.attempts sid sg.attempt).map fun c => (c.assigned.map (·.1)).filter fun m => !(s.partials sid sg.attempt).contains m).getD []) s
    rw [t4, t5]; exact ⟨rfl, rfl⟩
  · exact ⟨rfl, rfl⟩

/-- number of entries the pass consumes, counted from `n` -/
theorem expireGo_count_shift (height nowNs : Int) (l : List (Nat × Nat)) (s : State) (acc acc' : List Nat) (n n' : Nat) :
    (expireGo height nowNs l s acc n).2.2 + n' = (expireGo height nowNs l s acc' n').2.2 + n := by
  induction l generalizing s acc acc' n n' with
  | nil => simp [expireGo]; omega
  | cons e rest ih =>
    obtain ⟨sid, att⟩ := e
    cases hs : s.signings sid with
    | none => simp [expireGo, hs]; omega
    | some sg =>
      cases ha : s.attempts sid att with
      | none => simp [expireGo, hs, ha]; omega
      | some atm =>
        by_cases hexp : atm.expiredHeight > height
        · simp [expireGo, hs, ha, hexp]; omega
        · rw [expireGo_consume height nowNs sid att rest s acc n sg atm hs ha hexp,
              expireGo_consume height nowNs sid att rest s acc' n' sg atm hs ha hexp]
          have := ih (consumeHead s sid att sg atm nowNs)
            (if (s.partials sid att).length ≠ atm.assigned.length then acc ++ [sid] else acc)
            (if (s.partials sid att).length ≠ atm.assigned.length then acc' ++ [sid] else acc') (n + 1) (n' + 1)
          omega

def consumed (height nowNs : Int) (l : List (Nat × Nat)) (s : State) : Nat := (expireGo height nowNs l s [] 0).2.2

/-- PROPERTY (an attempt is timed out exactly when its period has passed, FIFO): under the invariant, the pass consumes a prefix
    of the FIFO in which EVERY entry has expired (`expiredHeight ≤ height`), and stops either at the end or at the first entry
    that has NOT expired; so with a FIFO ordered by expiry height (constant SigningPeriod, non-decreasing block heights)
    every expired attempt is processed in this very block and no unexpired one is. -/
theorem expire_consumes_exactly_expired_prefix (s2 : State) (H2 : HInv s2) (height nowNs : Int) :
    consumed height nowNs s2.expirations s2 ≤ s2.expirations.length ∧
    (∀ i a, (i, a) ∈ s2.expirations.take (consumed height nowNs s2.expirations s2) → ∃ atm, s2.attempts i a = some atm ∧ atm.expiredHeight ≤ height) ∧
    (∀ i a, s2.expirations[consumed height nowNs s2.expirations s2]? = some (i, a) → ∃ atm, s2.attempts i a = some atm ∧ atm.expiredHeight > height) := by
  have gen : ∀ (l : List (Nat × Nat)) (s : State), (l.map (·.1)).Nodup →
      (∀ i a, (i, a) ∈ l → (s.signings i).isSome ∧ (s.attempts i a).isSome) →
      consumed height nowNs l s ≤ l.length ∧
      (∀ i a, (i, a) ∈ l.take (consumed height nowNs l s) → ∃ atm, s.attempts i a = some atm ∧ atm.expiredHeight ≤ height) ∧
      (∀ i a, l[consumed height nowNs l s]? = some (i, a) → ∃ atm, s.attempts i a = some atm ∧ atm.expiredHeight > height) := by
    intro l
    induction l with
    | nil => intro s _ _; simp [consumed, expireGo]
    | cons e rest ih =>
      intro s hn hl
      obtain ⟨sid, att⟩ := e
      obtain ⟨q1, q2⟩ := hl sid att (List.mem_cons_self ..)
      cases hs : s.signings sid with
      | none => rw [hs] at q1; cases q1
      | some sg =>
        cases ha : s.attempts sid att with
        | none => rw [ha] at q2; cases q2
        | some atm =>
          by_cases hexp : atm.expiredHeight > height
          · have hc : consumed height nowNs ((sid, att) :: rest) s = 0 := by simp [consumed, expireGo, hs, ha, hexp]
            rw [hc]
            refine ⟨Nat.zero_le _, by simp, ?_⟩
            intro i a h0
            simp only [List.getElem?_cons_zero, Option.some.injEq, Prod.mk.injEq] at h0
            obtain ⟨rfl, rfl⟩ := h0
            exact ⟨atm, ha, hexp⟩
          · have hnd : sid ∉ rest.map (·.1) ∧ (rest.map (·.1)).Nodup := List.nodup_cons.mp (by simp only [List.map_cons] at hn; exact hn)
            have hc : consumed height nowNs ((sid, att) :: rest) s = consumed height nowNs rest (consumeHead s sid att sg atm nowNs) + 1 := by
              unfold consumed
              rw [expireGo_consume height nowNs sid att rest s [] 0 sg atm hs ha hexp]
              have := expireGo_count_shift height nowNs rest (consumeHead s sid att sg atm nowNs)
                (if (s.partials sid att).length ≠ atm.assigned.length then [] ++ [sid] else []) [] (0 + 1) 0
              omega
            obtain ⟨r1, r2, r3⟩ := ih (consumeHead s sid att sg atm nowNs) hnd.2 (by
              intro i a hia
              have hne : i ≠ sid := by intro e; subst e; exact hnd.1 (List.mem_map.mpr ⟨(i, a), hia, rfl⟩)
              obtain ⟨k1, k2⟩ := consumeHead_keep s sid att sg atm nowNs i a hne
              rw [k1, k2]
              exact hl i a (List.mem_cons_of_mem _ hia))
            rw [hc]
            refine ⟨by simp only [List.length_cons]; omega, ?_, ?_⟩
            · intro i a hia
              simp only [List.take_succ_cons, List.mem_cons, Prod.mk.injEq] at hia
              rcases hia with ⟨rfl, rfl⟩ | hia
              · exact ⟨atm, ha, by omega⟩
              · obtain ⟨atm', w1, w2⟩ := r2 i a hia
                have hne : i ≠ sid := by
                  intro e; subst e; exact hnd.1 (List.mem_map.mpr ⟨(i, a), List.mem_of_mem_take hia, rfl⟩)
                rw [(consumeHead_keep s sid att sg atm nowNs i a hne).1] at w1
                exact ⟨atm', w1, w2⟩
            · intro i a hk
              simp only [List.getElem?_cons_succ] at hk
              obtain ⟨atm', w1, w2⟩ := r3 i a hk
              have hmem : (i, a) ∈ rest := List.mem_of_getElem? hk
              have hne : i ≠ sid := by intro e; subst e; exact hnd.1 (List.mem_map.mpr ⟨(i, a), hmem, rfl⟩)
              rw [(consumeHead_keep s sid att sg atm nowNs i a hne).1] at w1
              exact ⟨atm', w1, w2⟩
  exact gen s2.expirations s2 H2.h2 (fun i a hia => by
    obtain ⟨sg, atm, q1, _, q3, _⟩ := H2.h1 i a hia
    exact ⟨by rw [q1]; rfl, by rw [q3]; rfl⟩)

/-- … and when the FIFO is ordered by expiry height, every expired entry is in the consumed prefix -/
theorem all_expired_consumed (s2 : State) (H2 : HInv s2) (height nowNs : Int)
    (hsorted : s2.expirations.Pairwise (fun x y => ∀ ax ay, s2.attempts x.1 x.2 = some ax → s2.attempts y.1 y.2 = some ay → ax.expiredHeight ≤ ay.expiredHeight))
    (i a : Nat) (atm : Attempt) (hm : (i, a) ∈ s2.expirations) (ha : s2.attempts i a = some atm) (hexp : atm.expiredHeight ≤ height) :
    (i, a) ∈ s2.expirations.take (consumed height nowNs s2.expirations s2) := by
  obtain ⟨c1, _, c3⟩ := expire_consumes_exactly_expired_prefix s2 H2 height nowNs
  rw [← List.take_append_drop (consumed height nowNs s2.expirations s2) s2.expirations] at hm
  rcases List.mem_append.mp hm with h | h
  · exact h
  · exfalso
    -- the first unconsumed entry has not expired, and it precedes (or is) the entry in question
    cases hd : s2.expirations.drop (consumed height nowNs s2.expirations s2) with
    | nil => rw [hd] at h; cases h
    | cons e0 rest0 =>
      obtain ⟨i0, a0⟩ := e0
      have hk : s2.expirations[consumed height nowNs s2.expirations s2]? = some (i0, a0) := by
        have := List.getElem?_drop (xs := s2.expirations) (i := consumed height nowNs s2.expirations s2) (j := 0)
        rw [hd] at this
        simpa using this.symm
      obtain ⟨atm0, w1, w2⟩ := c3 i0 a0 hk
      rw [hd] at h
      rcases List.mem_cons.mp h with e | h'
      · simp only [Prod.mk.injEq] at e
        obtain ⟨rfl, rfl⟩ := e
        rw [ha] at w1; cases w1; omega
      · have hp : (s2.expirations.drop (consumed height nowNs s2.expirations s2)).Pairwise
            (fun x y => ∀ ax ay, s2.attempts x.1 x.2 = some ax → s2.attempts y.1 y.2 = some ay → ax.expiredHeight ≤ ay.expiredHeight) :=
          hsorted.sublist (List.drop_sublist _ _)
        rw [hd] at hp
        have := (List.pairwise_cons.mp hp).1 (i, a) h' atm0 atm w1 ha
        omega

end BandVerif.Signing
