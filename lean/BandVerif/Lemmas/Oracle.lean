import BandVerif.Model.Oracle

namespace BandVerif.Oracle
open BandVerif.VStatus

/-! ### frame lemmas -/
theorem saveResult_spec (s : State) (id st : Nat) (res : String) (now : Int) (s' : State)
    (h : saveResult s id st res now = some s') :
    ∃ req, s.requests id = some req ∧
      s'.results id = some (mkRes req (s.reports id).length now st res) ∧
      (∀ j, j ≠ id → s'.results j = s.results j) ∧
      s'.requests = s.requests ∧ s'.reports = s.reports ∧ s'.pending = s.pending ∧ s'.count = s.count ∧
      s'.lastExpired = s.lastExpired ∧ s'.vstat = s.vstat := by
  unfold saveResult at h
  cases hr : s.requests id with
  | none => simp [hr] at h
  | some req =>
    simp only [hr] at h
    cases h
    refine ⟨req, rfl, by simp, fun j hj => by simp [hj], rfl, rfl, rfl, rfl, rfl, rfl⟩

theorem saveResult_some (s : State) (id st : Nat) (res : String) (now : Int) (h : (s.requests id).isSome) :
    ∃ s', saveResult s id st res now = some s' := by
  unfold saveResult
  cases hr : s.requests id with
  | none => simp [hr] at h
  | some req => exact ⟨_, rfl⟩

theorem resolvePending_spec (outcome : Nat → Nat × String) (now : Int) (l : List Nat) (s s' : State)
    (h : resolvePending s outcome now l = some s') :
    (∀ j, j ∉ l → s'.results j = s.results j) ∧
    (∀ j, j ∈ l → ∃ r, s'.results j = some r ∧ r.status = (outcome j).1 ∧ r.result = (outcome j).2 ∧ r.resolveTime = now ∧
        ∃ req, s.requests j = some req ∧ r.clientId = req.clientId ∧ r.calldata = req.calldata ∧
          r.askCount = req.vals.length ∧ r.minCount = req.minCount ∧ r.ansCount = (s.reports j).length ∧
          r.requestTime = req.time) ∧
    s'.requests = s.requests ∧ s'.reports = s.reports ∧ s'.pending = s.pending ∧ s'.count = s.count ∧
    s'.lastExpired = s.lastExpired ∧ s'.vstat = s.vstat := by
  induction l generalizing s with
  | nil => simp [resolvePending] at h; subst h; simp
  | cons id rest ih =>
    simp only [resolvePending] at h
    cases hs : saveResult s id (outcome id).1 (outcome id).2 now with
    | none => simp [hs] at h
    | some s1 =>
      simp only [hs] at h
      obtain ⟨req, hreq, hres, hfr, e1, e2, e3, e4, e5, e6⟩ := saveResult_spec _ _ _ _ _ _ hs
      obtain ⟨a, b, c1, c2, c3, c4, c5, c6⟩ := ih s1 h
      refine ⟨?_, ?_, c1.trans e1, c2.trans e2, c3.trans e3, c4.trans e4, c5.trans e5, c6.trans e6⟩
      · intro j hj
        have hj1 : j ≠ id := fun e => hj (e ▸ List.mem_cons_self ..)
        have hj2 : j ∉ rest := fun e => hj (List.mem_cons_of_mem _ e)
        rw [a j hj2, hfr j hj1]
      · intro j hj
        by_cases hjr : j ∈ rest
        · obtain ⟨r, h1, h2, h3, h4, rq, h5, h6⟩ := b j hjr
          exact ⟨r, h1, h2, h3, h4, rq, by rw [← e1]; exact h5, by rw [← e2]; exact h6⟩
        · have : j = id := by
            rcases List.mem_cons.mp hj with e | e
            · exact e
            · exact absurd e hjr
          subst this
          refine ⟨_, (a j hjr).trans hres, rfl, rfl, rfl, req, hreq, rfl, rfl, rfl, rfl, rfl, rfl⟩

theorem resolvePending_some (outcome : Nat → Nat × String) (now : Int) (l : List Nat) (s : State)
    (h : ∀ j ∈ l, (s.requests j).isSome) : ∃ s', resolvePending s outcome now l = some s' := by
  induction l generalizing s with
  | nil => exact ⟨s, rfl⟩
  | cons id rest ih =>
    simp only [resolvePending]
    obtain ⟨s1, hs1⟩ := saveResult_some s id (outcome id).1 (outcome id).2 now (h id (List.mem_cons_self ..))
    rw [hs1]
    obtain ⟨_, _, _, _, e1, _⟩ := saveResult_spec _ _ _ _ _ _ hs1
    exact ih s1 (fun j hj => by rw [e1]; exact h j (List.mem_cons_of_mem _ hj))

theorem missAll_frame (id : Nat) (reqTime nowNs : Int) (l : List Nat) (s : State) :
    (missAll s id reqTime nowNs l).requests = s.requests ∧ (missAll s id reqTime nowNs l).reports = s.reports ∧
    (missAll s id reqTime nowNs l).results = s.results ∧ (missAll s id reqTime nowNs l).pending = s.pending ∧
    (missAll s id reqTime nowNs l).count = s.count ∧ (missAll s id reqTime nowNs l).lastExpired = s.lastExpired := by
  induction l generalizing s with
  | nil => simp [missAll]
  | cons v rest ih =>
    simp only [missAll]
    split
    · exact ih s
    · obtain ⟨a, b, c, d, e, f⟩ := ih { s with vstat := fun i => if i = v then missReport (s.vstat v) (reqTime * 1000000000) nowNs else s.vstat i }
      exact ⟨a, b, c, d, e, f⟩

/-- a validator's status changes in `missAll` only if it is a requested validator without a report -/
theorem missAll_vstat (id : Nat) (reqTime nowNs : Int) (l : List Nat) (s : State) (v : Nat)
    (h : (missAll s id reqTime nowNs l).vstat v ≠ s.vstat v) : v ∈ l ∧ v ∉ s.reports id := by
  induction l generalizing s with
  | nil => simp [missAll] at h
  | cons w rest ih =>
    simp only [missAll] at h
    by_cases hw : w ∈ s.reports id
    · simp only [hw, if_true] at h
      obtain ⟨a, b⟩ := ih s h
      exact ⟨List.mem_cons_of_mem _ a, b⟩
    · simp only [hw, if_false] at h
      by_cases hvw : v = w
      · subst hvw; exact ⟨List.mem_cons_self .., hw⟩
      · by_cases hch : (missAll { s with vstat := fun i => if i = w then missReport (s.vstat w) (reqTime * 1000000000) nowNs else s.vstat i } id reqTime nowNs rest).vstat v
            = ({ s with vstat := fun i => if i = w then missReport (s.vstat w) (reqTime * 1000000000) nowNs else s.vstat i } : State).vstat v
        · rw [hch] at h; simp [hvw] at h
        · obtain ⟨a, b⟩ := ih _ hch
          exact ⟨List.mem_cons_of_mem _ a, b⟩

/-! ### the state invariant -/
structure Inv (s : State) : Prop where
  pend_open : ∀ id ∈ s.pending, s.results id = none
  pend_req : ∀ id ∈ s.pending, (s.requests id).isSome
  pend_full : ∀ id ∈ s.pending, ∀ req, s.requests id = some req → req.minCount ≤ (s.reports id).length
  pend_nodup : s.pending.Nodup
  live_req : ∀ id, s.lastExpired < id → id ≤ s.count → (s.requests id).isSome
  beyond : ∀ id, s.count < id → s.requests id = none
  le : s.lastExpired ≤ s.count
  expired_has_result : ∀ id, 1 ≤ id → id ≤ s.lastExpired → (s.results id).isSome

theorem inv_init : Inv State.init := by
  refine ⟨?_, ?_, ?_, List.nodup_nil, ?_, ?_, Nat.le_refl _, ?_⟩ <;> intro id <;> simp [State.init] <;> omega

theorem inv_addRequest (s : State) (r : Req) (h : Inv s) : Inv (addRequest s r) := by
  have hp : ∀ id ∈ s.pending, id ≠ s.count + 1 := by
    intro id hid e
    have h1 := h.pend_req id hid
    rw [h.beyond id (by omega)] at h1; cases h1
  refine ⟨h.pend_open, ?_, ?_, h.pend_nodup, ?_, ?_, ?_, h.expired_has_result⟩
  · intro id hid; simp only [addRequest, hp id hid, if_false]; exact h.pend_req id hid
  · intro id hid req; simp only [addRequest, hp id hid, if_false]; exact h.pend_full id hid req
  · intro id h1 h2
    simp only [addRequest] at h2 ⊢
    by_cases e : id = s.count + 1
    · simp [e]
    · simp only [e, if_false]; exact h.live_req id h1 (by omega)
  · intro id hid
    simp only [addRequest] at hid ⊢
    have : id ≠ s.count + 1 := by omega
    simp only [this, if_false]; exact h.beyond id (by omega)
  · simp only [addRequest]; have := h.le; omega

/-! ### ReportData -/
theorem report_ok (s : State) (val rid : Nat) (eids : List Nat) (ov : Bool) (h : (report s val rid eids ov).2 = RErr.ok) :
    reportBasic eids = RErr.ok ∧ ov = false ∧ s.lastExpired < rid ∧ checkValidReport s rid val eids = RErr.ok ∧
    (report s val rid eids ov).1 = reportApply s val rid := by
  unfold report at h ⊢
  cases he : reportErr s val rid eids ov <;> simp only [he] at h ⊢ <;> try (cases h)
  unfold reportErr at he
  cases hb : reportBasic eids <;> simp only [hb] at he <;> try (cases he)
  by_cases ho : ov = true
  · simp [ho] at he
  · simp only [ho, if_false] at he
    by_cases hl : rid ≤ s.lastExpired
    · simp [hl] at he
    · simp only [hl, if_false] at he
      exact ⟨rfl, by simpa using ho, by omega, he, trivial⟩

theorem report_err_state (s : State) (val rid : Nat) (eids : List Nat) (ov : Bool)
    (h : (report s val rid eids ov).2 ≠ RErr.ok) : (report s val rid eids ov).1 = s := by
  unfold report at h ⊢
  cases he : reportErr s val rid eids ov <;> simp only [he] at h ⊢
  exact absurd rfl h

theorem checkValid_ok (s : State) (rid val : Nat) (eids : List Nat) (h : checkValidReport s rid val eids = RErr.ok) :
    ∃ req, s.requests rid = some req ∧ val ∈ req.vals ∧ val ∉ s.reports rid ∧ eids.length = req.eids.length ∧
      ∀ e ∈ eids, e ∈ req.eids := by
  unfold checkValidReport at h
  cases hr : s.requests rid with
  | none => simp [hr] at h
  | some req =>
    simp only [hr] at h
    split at h; · cases h
    split at h; · cases h
    split at h; · cases h
    split at h
    · rename_i h1 h2 h3 h4
      refine ⟨req, rfl, by simpa using h1, h2, by simpa using h3, ?_⟩
      intro e he
      have := List.all_eq_true.mp h4 e he
      simpa using this
    · cases h

theorem inv_report (s : State) (val rid : Nat) (eids : List Nat) (ov : Bool) (h : Inv s) :
    Inv (report s val rid eids ov).1 := by
  by_cases hok : (report s val rid eids ov).2 = RErr.ok
  · obtain ⟨_, _, hlt, hc, hst⟩ := report_ok s val rid eids ov hok
    obtain ⟨req, hreq, _, _, _, _⟩ := checkValid_ok s rid val eids hc
    rw [hst]
    unfold reportApply
    simp only [hreq]
    have hgrow : ∀ i, (s.reports i).length ≤ ((fun i => if i = rid then s.reports rid ++ [val] else s.reports i) i).length := by
      intro i; by_cases e : i = rid
      · subst e; simp
      · simp [e]
    split
    · rename_i hcond
      simp only [Bool.and_eq_true, Option.isNone_iff_eq_none, beq_iff_eq] at hcond
      have hnot : rid ∉ s.pending := by
        intro hm
        have := h.pend_full rid hm req hreq
        have h2 := hcond.2; simp at h2; omega
      refine ⟨?_, ?_, ?_, ?_, h.live_req, h.beyond, h.le, h.expired_has_result⟩
      · intro id hid
        rcases List.mem_append.mp hid with hm | hm
        · exact h.pend_open id hm
        · simp at hm; subst hm; exact hcond.1
      · intro id hid
        rcases List.mem_append.mp hid with hm | hm
        · exact h.pend_req id hm
        · simp at hm; subst hm; simp [hreq]
      · intro id hid rq hrq
        rcases List.mem_append.mp hid with hm | hm
        · exact Nat.le_trans (h.pend_full id hm rq hrq) (hgrow id)
        · simp at hm; subst hm
          have : rq = req := by
            have hrq' : s.requests id = some rq := hrq
            rw [hreq] at hrq'; exact (Option.some.inj hrq').symm
          subst this
          have h2 := hcond.2; simp at h2
          show rq.minCount ≤ (if id = id then s.reports id ++ [val] else s.reports id).length
          simp; omega
      · exact List.nodup_append.mpr ⟨h.pend_nodup, by simp, by intro a ha b hb; simp at hb; subst hb; intro e; subst e; exact hnot ha⟩
    · refine ⟨h.pend_open, h.pend_req, ?_, h.pend_nodup, h.live_req, h.beyond, h.le, h.expired_has_result⟩
      intro id hid rq hrq
      exact Nat.le_trans (h.pend_full id hid rq hrq) (hgrow id)
  · rw [report_err_state s val rid eids ov hok]; exact h

/-! ### ProcessExpiredRequests -/
structure PInv (s : State) : Prop where
  live_req : ∀ id, s.lastExpired < id → id ≤ s.count → (s.requests id).isSome
  beyond : ∀ id, s.count < id → s.requests id = none
  le : s.lastExpired ≤ s.count
  expired_has_result : ∀ id, 1 ≤ id → id ≤ s.lastExpired → (s.results id).isSome

/-- what one run of ProcessExpiredRequests guarantees between its pre-state `s` and post-state `s'` -/
def ExpSpec (exp height now : Int) (s s' : State) : Prop :=
  PInv s' ∧
  (∀ j r, s.results j = some r → s'.results j = some r) ∧
  (∀ j r, s.results j = none → s'.results j = some r →
      ∃ req, s.requests j = some req ∧ req.height + exp ≤ height ∧
        r = mkRes req (s.reports j).length now statusExpired "") ∧
  s'.count = s.count ∧ s'.pending = s.pending ∧ s.lastExpired ≤ s'.lastExpired ∧
  (∀ v, s'.vstat v ≠ s.vstat v → ∃ id req, s.requests id = some req ∧ s.lastExpired < id ∧ id ≤ s'.lastExpired ∧
      v ∈ req.vals ∧ v ∉ s.reports id ∧ req.height + exp ≤ height)

theorem expSpec_refl (exp height now : Int) (s : State) (hP : PInv s) : ExpSpec exp height now s s := by
  refine ⟨hP, fun _ _ h => h, ?_, rfl, rfl, Nat.le_refl _, fun v h => absurd rfl h⟩
  intro j r h1 h2; rw [h1] at h2; cases h2

theorem processExpired_spec (exp height now nowNs : Int) (fuel : Nat) (s : State) (hP : PInv s) :
    ∃ s', processExpired exp height now nowNs fuel (s.lastExpired + 1) s = some s' ∧ ExpSpec exp height now s s' := by
  induction fuel generalizing s with
  | zero =>
    exact ⟨s, rfl, expSpec_refl exp height now s hP⟩
  | succ fuel ih =>
    simp only [processExpired]
    by_cases hc : s.lastExpired + 1 > s.count
    · simp only [hc, if_true]
      exact ⟨s, rfl, expSpec_refl exp height now s hP⟩
    · simp only [hc, if_false]
      have hsome := hP.live_req (s.lastExpired + 1) (by omega) (by omega)
      cases hr : s.requests (s.lastExpired + 1) with
      | none => rw [hr] at hsome; cases hsome
      | some req =>
        simp only []
        by_cases hne : req.height + exp > height
        · simp only [hne, if_true]
          exact ⟨s, rfl, expSpec_refl exp height now s hP⟩
        · simp only [hne, if_false]
          -- s1: result saved if absent
          have hs1 : ∃ s1, (if (s.results (s.lastExpired + 1)).isNone then saveResult s (s.lastExpired + 1) statusExpired "" now else some s) = some s1 ∧
              s1.requests = s.requests ∧ s1.reports = s.reports ∧ s1.pending = s.pending ∧ s1.count = s.count ∧
              s1.lastExpired = s.lastExpired ∧ s1.vstat = s.vstat ∧
              (∀ j, j ≠ s.lastExpired + 1 → s1.results j = s.results j) ∧
              (∀ r, s.results (s.lastExpired + 1) = some r → s1.results (s.lastExpired + 1) = some r) ∧
              (s.results (s.lastExpired + 1) = none →
                 s1.results (s.lastExpired + 1) = some (mkRes req (s.reports (s.lastExpired + 1)).length now statusExpired "")) := by
            cases hres : s.results (s.lastExpired + 1) with
            | none =>
              obtain ⟨s1, h1⟩ := saveResult_some s (s.lastExpired + 1) statusExpired "" now (by rw [hr]; rfl)
              obtain ⟨rq, hrq, a, b, c1, c2, c3, c4, c5, c6⟩ := saveResult_spec _ _ _ _ _ _ h1
              have : rq = req := by rw [hr] at hrq; exact (Option.some.inj hrq).symm
              subst this
              exact ⟨s1, by simp [h1], c1, c2, c3, c4, c5, c6, b, (fun r h => by cases h), fun _ => a⟩
            | some r0 =>
              exact ⟨s, by simp, rfl, rfl, rfl, rfl, rfl, rfl, fun _ _ => rfl, (fun r h => by rw [hres]; exact h), (fun h => by cases h)⟩
          obtain ⟨s1, e1, q1, q2, q3, q4, q5, q6, q7, q8, q9⟩ := hs1
          rw [e1]
          simp only []
          obtain ⟨m1, m2, m3, m4, m5, m6⟩ := missAll_frame (s.lastExpired + 1) req.time nowNs req.vals s1
          -- s3
          let s2 := missAll s1 (s.lastExpired + 1) req.time nowNs req.vals
          let s3 : State := { s2 with requests := fun i => if i = s.lastExpired + 1 then none else s2.requests i,
                                       reports := fun i => if i = s.lastExpired + 1 then [] else s2.reports i,
                                       lastExpired := s.lastExpired + 1 }
          have hres3 : ∀ j, s3.results j = s1.results j := fun j => by show s2.results j = _; rw [m3]
          have hP3 : PInv s3 := by
            refine ⟨?_, ?_, ?_, ?_⟩
            · intro id h1 h2
              show (if id = s.lastExpired + 1 then none else s2.requests id).isSome
              have hne' : id ≠ s.lastExpired + 1 := by show id ≠ _; have : s.lastExpired + 1 < id := h1; omega
              simp only [hne', if_false]
              rw [m1, q1]; exact hP.live_req id (by have : s.lastExpired + 1 < id := h1; omega) (by have : id ≤ s2.count := h2; rw [m5, q4] at this; exact this)
            · intro id hid
              show (if id = s.lastExpired + 1 then none else s2.requests id) = none
              split
              · rfl
              · rw [m1, q1]; exact hP.beyond id (by have : s2.count < id := hid; rw [m5, q4] at this; exact this)
            · show s.lastExpired + 1 ≤ s2.count; rw [m5, q4]; omega
            · intro id h1 h2
              rw [hres3]
              have h2' : id ≤ s.lastExpired + 1 := h2
              by_cases e : id = s.lastExpired + 1
              · subst e
                cases hres : s.results (s.lastExpired + 1) with
                | none => rw [q9 hres]; rfl
                | some r0 => rw [q8 r0 hres]; rfl
              · rw [q7 id e]; exact hP.expired_has_result id h1 (by omega)
          obtain ⟨s', hs', hP', w1, w2, w3, w4, w5, w6⟩ := ih s3 hP3
          refine ⟨s', hs', hP', ?_, ?_, ?_, ?_, ?_, ?_⟩
          · intro j r hj
            apply w1; rw [hres3]
            by_cases e : j = s.lastExpired + 1
            · subst e; exact q8 r hj
            · rw [q7 j e]; exact hj
          · intro j r hj hj'
            by_cases e : j = s.lastExpired + 1
            · subst e
              have h3 : s3.results (s.lastExpired + 1) = some (mkRes req (s.reports (s.lastExpired + 1)).length now statusExpired "") := by
                rw [hres3]; exact q9 hj
              have := w1 _ _ h3
              rw [this] at hj'
              exact ⟨req, hr, by omega, (Option.some.inj hj').symm⟩
            · have h3 : s3.results j = none := by rw [hres3, q7 j e]; exact hj
              obtain ⟨rq, a, b, c⟩ := w2 j r h3 hj'
              have ha : s.requests j = some rq := by
                have : (if j = s.lastExpired + 1 then none else s2.requests j) = some rq := a
                simp only [e, if_false] at this; rw [m1, q1] at this; exact this
              have hb : s3.reports j = s.reports j := by
                show (if j = s.lastExpired + 1 then [] else s2.reports j) = _
                simp only [e, if_false]; rw [m2, q2]
              exact ⟨rq, ha, b, by rw [← hb]; exact c⟩
          · rw [w3]; show s2.count = _; rw [m5, q4]
          · rw [w4]; show s2.pending = _; rw [m4, q3]
          · have : s3.lastExpired ≤ s'.lastExpired := w5
            have e3 : s3.lastExpired = s.lastExpired + 1 := rfl
            omega
          · intro v hv
            by_cases hv3 : s'.vstat v = s3.vstat v
            · -- changed by this step's missAll
              have hch : s2.vstat v ≠ s1.vstat v := by
                intro e; apply hv; rw [hv3]; show s2.vstat v = _; rw [e, q6]
              obtain ⟨a, b⟩ := missAll_vstat (s.lastExpired + 1) req.time nowNs req.vals s1 v hch
              have e3 : s3.lastExpired = s.lastExpired + 1 := rfl
              exact ⟨s.lastExpired + 1, req, hr, by omega, by have : s3.lastExpired ≤ s'.lastExpired := w5; omega, a, by rw [← q2]; exact b, by omega⟩
            · obtain ⟨id, rq, a, b, c, d, e, f⟩ := w6 v hv3
              have e3 : s3.lastExpired = s.lastExpired + 1 := rfl
              have hid : id ≠ s.lastExpired + 1 := by omega
              have ha : s.requests id = some rq := by
                have : (if id = s.lastExpired + 1 then none else s2.requests id) = some rq := a
                simp only [hid, if_false] at this; rw [m1, q1] at this; exact this
              have hb : s3.reports id = s.reports id := by
                show (if id = s.lastExpired + 1 then [] else s2.reports id) = _
                simp only [hid, if_false]; rw [m2, q2]
              exact ⟨id, rq, ha, by omega, c, d, by rw [← hb]; exact e, f⟩

/-! ### EndBlocker -/
/-- what one oracle EndBlocker guarantees between pre-state `s` (satisfying `Inv`) and post-state `s'` -/
def EndSpec (outcome : Nat → Nat × String) (exp height nowNs : Int) (s s' : State) : Prop :=
  Inv s' ∧
  (∀ j r, s.results j = some r → s'.results j = some r) ∧
  (∀ j r, s.results j = none → s'.results j = some r →
      ∃ req, s.requests j = some req ∧
        ((j ∈ s.pending ∧ r = mkRes req (s.reports j).length (unixOf nowNs) (outcome j).1 (outcome j).2) ∨
         (j ∉ s.pending ∧ req.height + exp ≤ height ∧
            r = mkRes req (s.reports j).length (unixOf nowNs) statusExpired ""))) ∧
  (∀ j ∈ s.pending, (s'.results j).isSome) ∧
  s'.count = s.count ∧ s'.pending = [] ∧ s.lastExpired ≤ s'.lastExpired ∧
  (∀ v, s'.vstat v ≠ s.vstat v → ∃ id req, s.requests id = some req ∧ s.lastExpired < id ∧ id ≤ s'.lastExpired ∧
      v ∈ req.vals ∧ v ∉ s.reports id ∧ req.height + exp ≤ height)

theorem endBlock_spec (s : State) (outcome : Nat → Nat × String) (exp height nowNs : Int) (h : Inv s) :
    ∃ s', endBlock s outcome exp height nowNs = some s' ∧ EndSpec outcome exp height nowNs s s' := by
  unfold endBlock
  obtain ⟨s1, hs1⟩ := resolvePending_some outcome (unixOf nowNs) s.pending s h.pend_req
  obtain ⟨a, b, c1, c2, c3, c4, c5, c6⟩ := resolvePending_spec outcome (unixOf nowNs) s.pending s s1 hs1
  simp only [hs1]
  let s2 : State := { s1 with pending := [] }
  have hP2 : PInv s2 := by
    refine ⟨?_, ?_, ?_, ?_⟩
    · intro id h1 h2
      show (s1.requests id).isSome
      rw [c1]; exact h.live_req id (by have : s1.lastExpired < id := h1; rw [c5] at this; exact this)
        (by have : id ≤ s1.count := h2; rw [c4] at this; exact this)
    · intro id hid
      show s1.requests id = none
      rw [c1]; exact h.beyond id (by have : s1.count < id := hid; rw [c4] at this; exact this)
    · show s1.lastExpired ≤ s1.count; rw [c4, c5]; exact h.le
    · intro id h1 h2
      show (s1.results id).isSome
      by_cases hm : id ∈ s.pending
      · obtain ⟨r, hr, _⟩ := b id hm; rw [hr]; rfl
      · rw [a id hm]; exact h.expired_has_result id h1 (by have : id ≤ s1.lastExpired := h2; rw [c5] at this; exact this)
  obtain ⟨s', hs', hP', w1, w2, w3, w4, w5, w6⟩ := processExpired_spec exp height (unixOf nowNs) nowNs (s2.count - s2.lastExpired + 1) s2 hP2
  refine ⟨s', hs', ?_, ?_, ?_, ?_, ?_, ?_, ?_, ?_⟩
  · have hpend : s'.pending = [] := by rw [w4]
    refine ⟨?_, ?_, ?_, ?_, hP'.live_req, hP'.beyond, hP'.le, hP'.expired_has_result⟩
    · intro id hid; rw [hpend] at hid; cases hid
    · intro id hid; rw [hpend] at hid; cases hid
    · intro id hid; rw [hpend] at hid; cases hid
    · rw [hpend]; exact List.nodup_nil
  · intro j r hj
    apply w1
    show s1.results j = some r
    have hm : j ∉ s.pending := fun hm => by have := h.pend_open j hm; rw [this] at hj; cases hj
    rw [a j hm]; exact hj
  · intro j r hj hj'
    by_cases hm : j ∈ s.pending
    · obtain ⟨r1, hr1, e1, e2, e3, req, hq, f1, f2, f3, f4, f5, f6⟩ := b j hm
      have : s'.results j = some r1 := w1 j r1 hr1
      rw [this] at hj'
      have hrr : r1 = r := Option.some.inj hj'
      subst hrr
      refine ⟨req, hq, Or.inl ⟨hm, ?_⟩⟩
      cases r1
      simp only [mkRes] at *
      simp_all
    · have h2 : s2.results j = none := by show s1.results j = none; rw [a j hm]; exact hj
      obtain ⟨req, q1, q2, q3⟩ := w2 j r h2 hj'
      have q1' : s.requests j = some req := by rw [← c1]; exact q1
      have q3' : s2.reports j = s.reports j := by show s1.reports j = _; rw [c2]
      exact ⟨req, q1', Or.inr ⟨hm, q2, by rw [← q3']; exact q3⟩⟩
  · intro j hj
    obtain ⟨r1, hr1, _⟩ := b j hj
    rw [w1 j r1 hr1]; rfl
  · rw [w3]; exact c4
  · rw [w4]
  · have : s2.lastExpired = s.lastExpired := c5
    omega
  · intro v hv
    have hv' : s'.vstat v ≠ s2.vstat v := by
      intro e; apply hv; rw [e]; show s1.vstat v = _; rw [c6]
    obtain ⟨id, req, p1, p2, p3, p4, p5, p6⟩ := w6 v hv'
    have e5 : s2.lastExpired = s.lastExpired := c5
    exact ⟨id, req, by rw [← c1]; exact p1, by omega, p3, p4, by rw [← c2]; exact p5, p6⟩

end BandVerif.Oracle
