import BandVerif.Model.TunnelDeposit

namespace BandVerif.TunnelDeposit

/-- recorded deposit of `a` in tunnel `tid` (0 when absent) -/
def dep (s : State) (tid a : Nat) (d : String) : Nat := ((s.deposits tid a).getD (fun _ => 0)) d
/-- total deposit of tunnel `tid` (0 when the tunnel does not exist) -/
def tot (s : State) (tid : Nat) (d : String) : Nat := (((s.tunnels tid).map (·.totalDeposit)).getD (fun _ => 0)) d

theorem sum_map_add_at (l : List Nat) (f f' : Nat → Nat) (a x : Nat) (hn : l.Nodup) (ha : a ∈ l)
    (hs : ∀ b, b ≠ a → f' b = f b) (hx : f' a = f a + x) : (l.map f').sum = (l.map f).sum + x := by
  induction l with
  | nil => simp at ha
  | cons y ys ih =>
    simp only [List.map_cons, List.sum_cons]
    have hy := List.nodup_cons.mp hn
    by_cases e : y = a
    · subst e
      have : ys.map f' = ys.map f := List.map_congr_left (fun b hb => hs b (fun e => hy.1 (e ▸ hb)))
      rw [this, hx]; omega
    · have : a ∈ ys := by
        rcases List.mem_cons.mp ha with h | h
        · exact absurd h.symm e
        · exact h
      rw [ih hy.2 this, hs y e]; omega

theorem sum_map_sub_at (l : List Nat) (f f' : Nat → Nat) (a x : Nat) (hn : l.Nodup) (ha : a ∈ l)
    (hs : ∀ b, b ≠ a → f' b = f b) (hx : f' a + x = f a) : (l.map f').sum + x = (l.map f).sum := by
  have := sum_map_add_at l f' f a x hn ha (fun b hb => (hs b hb).symm) hx.symm
  omega

theorem sum_map_congr (l : List Nat) (f f' : Nat → Nat) (h : ∀ b ∈ l, f' b = f b) : (l.map f').sum = (l.map f).sum := by
  rw [List.map_congr_left h]

theorem geAll_iff (s : State) (a b : Coins) : geAll s a b = true ↔ ∀ d ∈ s.denoms, b d ≤ a d := by
  unfold geAll; simp [List.all_eq_true]

theorem isZero_iff (s : State) (a : Coins) : isZero s a = true ↔ ∀ d ∈ s.denoms, a d = 0 := by
  unfold isZero; simp [List.all_eq_true]

end BandVerif.TunnelDeposit

namespace BandVerif.TunnelDeposit

/-- frame + effect of an accepted deposit, in terms of `tot` / `dep` -/
theorem deposit_effect (s : State) (tid a : Nat) (amt : Coins) (h : (depositOp s tid a amt).2 = Err.ok) :
    let s' := (depositOp s tid a amt).1
    (s.tunnels tid).isSome ∧ (∀ d ∈ s.denoms, amt d ≤ s.bal a d) ∧
    (∀ d, tot s' tid d = tot s tid d + amt d) ∧ (∀ i d, i ≠ tid → tot s' i d = tot s i d) ∧
    (∀ d, dep s' tid a d = dep s tid a d + amt d) ∧ (∀ i b d, (i ≠ tid ∨ b ≠ a) → dep s' i b d = dep s i b d) ∧
    (∀ d, s'.moduleBal d = s.moduleBal d + amt d) ∧ (∀ d, s'.bal a d = s.bal a d - amt d) ∧
    (∀ b, b ≠ a → s'.bal b = s.bal b) ∧
    s'.activeIdx = s.activeIdx ∧ s'.count = s.count ∧ s'.minDeposit = s.minDeposit ∧ s'.denoms = s.denoms ∧
    s'.accts = s.accts ∧ (∀ i, (s'.tunnels i).map (fun t => (t.creator, t.isActive)) = (s.tunnels i).map (fun t => (t.creator, t.isActive))) := by
  unfold depositOp at h ⊢
  cases ht : s.tunnels tid with
  | none => simp [ht] at h
  | some t =>
    simp only [ht] at h ⊢
    by_cases h1 : acceptedDenoms s amt = true
    · by_cases h2 : geAll s (s.bal a) amt = true
      · simp only [h1, h2, Bool.not_true, Bool.false_eq_true, if_false]
        refine ⟨rfl, (geAll_iff s _ _).mp h2, ?_, ?_, ?_, ?_, ?_, ?_, ?_, rfl, rfl, rfl, rfl, rfl, ?_⟩
        · intro d; simp [tot, setTunnel, ht, addC]
        · intro i d hi; simp [tot, setTunnel, hi]
        · intro d
          cases hd : s.deposits tid a with
          | none => simp [dep, hd]
          | some dd => simp [dep, hd, addC]
        · intro i b d hib
          have : ¬ (i = tid ∧ b = a) := by rintro ⟨rfl, rfl⟩; rcases hib with h | h <;> exact h rfl
          simp [dep, this]
        · intro d; simp [addC]
        · intro d; simp [subC]
        · intro b hb; simp [hb]
        · intro i
          by_cases e : i = tid
          · subst e; simp [setTunnel, ht]
          · simp [setTunnel, e]
      · simp [h1, h2] at h
    · simp [h1] at h

theorem deposit_err_state (s : State) (tid a : Nat) (amt : Coins) (h : (depositOp s tid a amt).2 ≠ Err.ok) :
    (depositOp s tid a amt).1 = s := by
  unfold depositOp at h ⊢
  cases ht : s.tunnels tid with
  | none => rfl
  | some t =>
    simp only [ht] at h ⊢
    by_cases h1 : acceptedDenoms s amt = true
    · by_cases h2 : geAll s (s.bal a) amt = true
      · simp [h1, h2] at h
      · simp [h1, h2]
    · simp [h1]

end BandVerif.TunnelDeposit

namespace BandVerif.TunnelDeposit

theorem deactivateTunnel_frame (s : State) (tid : Nat) :
    (∀ i d, tot (deactivateTunnel s tid) i d = tot s i d) ∧ (deactivateTunnel s tid).deposits = s.deposits ∧
    (deactivateTunnel s tid).moduleBal = s.moduleBal ∧ (deactivateTunnel s tid).bal = s.bal ∧
    (deactivateTunnel s tid).count = s.count ∧ (deactivateTunnel s tid).minDeposit = s.minDeposit ∧
    (deactivateTunnel s tid).denoms = s.denoms ∧ (deactivateTunnel s tid).accts = s.accts ∧
    (deactivateTunnel s tid).activeIdx = (if (s.tunnels tid).isSome then s.activeIdx.filter (· ≠ tid) else s.activeIdx) ∧
    (∀ i, (deactivateTunnel s tid).tunnels i =
        if i = tid then (s.tunnels tid).map (fun t => { t with isActive := false }) else s.tunnels i) := by
  unfold deactivateTunnel
  cases ht : s.tunnels tid with
  | none =>
    refine ⟨fun _ _ => rfl, rfl, rfl, rfl, rfl, rfl, rfl, rfl, by simp, fun i => ?_⟩
    by_cases e : i = tid
    · subst e; simp [ht]
    · simp [e]
  | some t =>
    refine ⟨fun i d => ?_, rfl, rfl, rfl, rfl, rfl, rfl, rfl, by simp, fun i => ?_⟩
    · by_cases e : i = tid
      · subst e; simp [tot, setTunnel, ht]
      · simp [tot, setTunnel, e]
    · by_cases e : i = tid
      · subst e; simp [setTunnel]
      · simp [setTunnel, e]

theorem withdrawn_effect (s : State) (tid a : Nat) (amt : Coins) (t : Tunnel) (dd : Coins)
    (ht : s.tunnels tid = some t) (hd : s.deposits tid a = some dd) :
    let s' := withdrawn s tid a amt t dd
    (∀ d, tot s' tid d = tot s tid d - amt d) ∧ (∀ i d, i ≠ tid → tot s' i d = tot s i d) ∧
    (∀ d ∈ s.denoms, dep s' tid a d = dep s tid a d - amt d) ∧ (∀ i b d, (i ≠ tid ∨ b ≠ a) → dep s' i b d = dep s i b d) ∧
    (∀ d, s'.moduleBal d = s.moduleBal d - amt d) ∧ (∀ d, s'.bal a d = s.bal a d + amt d) ∧
    (∀ b, b ≠ a → s'.bal b = s.bal b) ∧
    s'.count = s.count ∧ s'.minDeposit = s.minDeposit ∧ s'.denoms = s.denoms ∧ s'.accts = s.accts ∧
    s'.activeIdx = s.activeIdx ∧ (∀ i, i ≠ tid → s'.tunnels i = s.tunnels i) ∧
    s'.tunnels tid = some { t with totalDeposit := subC t.totalDeposit amt } := by
  have hdep : ∀ d ∈ s.denoms, (if isZero s (subC dd amt) = true then (none : Option Coins) else some (subC dd amt)).getD (fun _ => 0) d = dd d - amt d := by
    intro d hdm
    by_cases hz : isZero s (subC dd amt) = true
    · have := (isZero_iff s _).mp hz d hdm
      simp [hz]; simpa [subC] using this.symm
    · simp [hz, subC]
  unfold withdrawn
  refine ⟨?_, ?_, ?_, ?_, ?_, ?_, ?_, rfl, rfl, rfl, rfl, rfl, ?_, ?_⟩
  · intro d; simp [tot, setTunnel, ht, subC]
  · intro i d hi; simp [tot, setTunnel, hi]
  · intro d hdm; unfold dep; simp only [and_self, if_true, hd]; exact hdep d hdm
  · intro i b d hib
    have : ¬ (i = tid ∧ b = a) := by rintro ⟨rfl, rfl⟩; rcases hib with h | h <;> exact h rfl
    simp [dep, this]
  · intro d; simp [subC]
  · intro d; simp [addC]
  · intro b hb; simp [hb]
  · intro i hi; simp [setTunnel, hi]
  · simp [setTunnel]

/-- what an accepted withdrawal guarantees -/
theorem withdraw_ok (s : State) (tid a : Nat) (amt : Coins) (h : (withdrawOp s tid a amt).2 = Err.ok) :
    ∃ t dd, s.tunnels tid = some t ∧ s.deposits tid a = some dd ∧ (∀ d ∈ s.denoms, amt d ≤ dd d) ∧
      (withdrawOp s tid a amt).1 =
        if t.isActive && !geAll s (subC t.totalDeposit amt) s.minDeposit
        then deactivateTunnel (withdrawn s tid a amt t dd) tid else withdrawn s tid a amt t dd := by
  unfold withdrawOp at h ⊢
  cases ht : s.tunnels tid with
  | none => simp [ht] at h
  | some t =>
    simp only [ht] at h ⊢
    cases hd : s.deposits tid a with
    | none => simp [hd] at h
    | some dd =>
      simp only [hd] at h ⊢
      by_cases h1 : geAll s dd amt = true
      · simp only [h1, Bool.not_true, Bool.false_eq_true, if_false]
        refine ⟨t, dd, rfl, rfl, (geAll_iff s _ _).mp h1, ?_⟩
        split <;> rfl
      · simp [h1] at h

theorem withdraw_err_state (s : State) (tid a : Nat) (amt : Coins) (h : (withdrawOp s tid a amt).2 ≠ Err.ok) :
    (withdrawOp s tid a amt).1 = s := by
  unfold withdrawOp at h ⊢
  cases ht : s.tunnels tid with
  | none => rfl
  | some t =>
    simp only [ht] at h ⊢
    cases hd : s.deposits tid a with
    | none => rfl
    | some dd =>
      simp only [hd] at h ⊢
      by_cases h1 : geAll s dd amt = true
      · simp only [h1, Bool.not_true, Bool.false_eq_true, if_false] at h
        split at h <;> exact absurd rfl h
      · simp [h1]

end BandVerif.TunnelDeposit
