/- C04 lemmas: the invariant of the DKG group state machine over every history. -/
import BandVerif.Model.Dkg
import Mathlib.Data.List.Perm.Subperm
import Mathlib.Data.List.Range
import Mathlib.Data.List.Nodup

namespace BandVerif.Dkg

inductive Op
  | r1 (mid : Nat) (senderOk : Bool) (commitsLen : Nat) (oneTimeOk a0Ok : Bool)
  | r2 (mid : Nat) (senderOk : Bool) (sharesLen : Nat)
  | complain (senderOk : Bool) (cs : List (Nat × Nat × Bool))
  | confirm (mid : Nat) (senderOk sigOk : Bool)
  | endBlock (height period : Int) (reachable : Bool)

def step (g : Group) : Op → Group
  | .r1 mid s l a b => (submitR1 g mid s l a b).1
  | .r2 mid s l => (submitR2 g mid s l).1
  | .complain s cs => (complain g s cs).1
  | .confirm mid s k => (confirm g mid s k).1
  | .endBlock h p r => endBlock g h p r

def InR (g : Group) (i : Nat) : Prop := 1 ≤ i ∧ i ≤ g.n

structure Inv (g : Group) : Prop where
  nodup : g.subs3.Nodup
  inr : ∀ i ∈ g.subs3, InR g i
  cnt : g.ccount = g.subs3.length
  mem : ∀ i, i ∈ g.subs3 ↔ ((g.members i).confirmed = true ∨ (g.members i).complained = true)
  excl : ∀ i, ¬ ((g.members i).confirmed = true ∧ (g.members i).complained = true)
  compl : ∀ i, (g.members i).complained = true → ∃ j, InR g j ∧ (g.members j).malicious = true
  early : g.status = .round1 ∨ g.status = .round2 → g.subs3 = []
  q1 : g.status = .round1 → g.queued ≤ 1 ∧ (g.queued = 1 → g.n ≤ g.r1count) ∧ (g.queued = 0 → g.r1count < g.n) ∧ g.r2count = 0
  q2 : g.status = .round2 → g.queued ≤ 1 ∧ (g.queued = 1 → g.n ≤ g.r2count) ∧ (g.queued = 0 → g.r2count < g.n)
  q3 : g.status = .round3 → g.queued ≤ 1 ∧ (g.queued = 1 → g.n ≤ g.ccount) ∧ (g.queued = 0 → g.ccount < g.n)
  qf : g.status = .active ∨ g.status = .fallen ∨ g.status = .expired → g.queued = 0
  act : g.status = .active → ∀ i, InR g i → (g.members i).confirmed = true ∧ (g.members i).malicious = false
  npos : 0 < g.n

theorem init_inv (n t : Nat) (h : 0 < n) (ch : Int) : Inv { n := n, t := t, createdHeight := ch } where
  nodup := List.nodup_nil
  inr := by simp
  cnt := rfl
  mem := by simp
  excl := by simp
  compl := by simp
  early := fun _ => rfl
  q1 := fun _ => ⟨by simp, by simp, fun _ => h, rfl⟩
  q2 := fun h => by cases h
  q3 := fun h => by cases h
  qf := fun h => by rcases h with h | h | h <;> cases h
  act := fun h => by cases h
  npos := h

/-- a duplicate-free list of n ids within 1..n contains every id of 1..n -/
theorem full_of_nodup (l : List Nat) (n : Nat) (hn : l.Nodup) (hr : ∀ i ∈ l, 1 ≤ i ∧ i ≤ n) (hl : n ≤ l.length) :
    ∀ i, 1 ≤ i ∧ i ≤ n → i ∈ l := by
  have hsub : l ⊆ List.range' 1 n := by
    intro i hi; have := hr i hi; rw [List.mem_range'_1]; omega
  have hsp : l.Subperm (List.range' 1 n) := List.subperm_of_subset hn hsub
  have hperm : l.Perm (List.range' 1 n) := hsp.perm_of_length_le (by simpa using hl)
  intro i hi
  exact hperm.mem_iff.mpr (by rw [List.mem_range'_1]; omega)

theorem length_le_of_nodup (l : List Nat) (n : Nat) (hn : l.Nodup) (hr : ∀ i ∈ l, 1 ≤ i ∧ i ≤ n) : l.length ≤ n := by
  have hsub : l ⊆ List.range' 1 n := by
    intro i hi; have := hr i hi; rw [List.mem_range'_1]; omega
  simpa using (List.subperm_of_subset hn hsub).length_le

end BandVerif.Dkg

namespace BandVerif.Dkg

/-- the state after an accepted round-1 message, field by field -/
theorem r1_fields (g : Group) (mid : Nat) (b : Bool) :
    let g' := enqueueIf { setMember g mid { g.members mid with r1 := true } with r1count := g.r1count + 1 } b
    g'.status = g.status ∧ g'.n = g.n ∧ g'.subs3 = g.subs3 ∧ g'.ccount = g.ccount ∧ g'.r1count = g.r1count + 1 ∧ g'.r2count = g.r2count ∧
    g'.queued = g.queued + (if b = true then 1 else 0) ∧
    (∀ i, (g'.members i).confirmed = (g.members i).confirmed ∧ (g'.members i).complained = (g.members i).complained ∧
      (g'.members i).malicious = (g.members i).malicious) := by
  intro g'
  cases b
  · refine ⟨rfl, rfl, rfl, rfl, rfl, rfl, rfl, fun i => ?_⟩
    simp only [g', enqueueIf, setMember, Bool.false_eq_true, if_false]
    by_cases e : i = mid <;> simp [e]
  · refine ⟨rfl, rfl, rfl, rfl, rfl, rfl, rfl, fun i => ?_⟩
    simp only [g', enqueueIf, setMember, if_true]
    by_cases e : i = mid <;> simp [e]

theorem inv_r1_step (g g' : Group) (h : Inv g) (hst : g.status = .round1)
    (e1 : g'.status = g.status) (e3 : g'.n = g.n) (e4 : g'.subs3 = g.subs3) (e5 : g'.ccount = g.ccount)
    (e6 : g'.r1count = g.r1count + 1) (e7 : g'.r2count = g.r2count)
    (e8 : g'.queued = g.queued + (if g.r1count + 1 = g.n then 1 else 0))
    (hm : ∀ i, (g'.members i).confirmed = (g.members i).confirmed ∧ (g'.members i).complained = (g.members i).complained ∧
      (g'.members i).malicious = (g.members i).malicious) : Inv g' := by
  obtain ⟨hq, hq1, hq0, hr2⟩ := h.q1 hst
  constructor
  · rw [e4]; exact h.nodup
  · intro i hi; rw [e4] at hi; have := h.inr i hi; unfold InR at this ⊢; rw [e3]; exact this
  · rw [e5, e4]; exact h.cnt
  · intro i; rw [e4, (hm i).1, (hm i).2.1]; exact h.mem i
  · intro i; rw [(hm i).1, (hm i).2.1]; exact h.excl i
  · intro i hi; rw [(hm i).2.1] at hi
    obtain ⟨j, hj, hjm⟩ := h.compl i hi
    exact ⟨j, by unfold InR at hj ⊢; rw [e3]; exact hj, by rw [(hm j).2.2]; exact hjm⟩
  · intro _; rw [e4]; exact h.early (Or.inl hst)
  · intro _
    rw [e8, e6, e7, e3]
    by_cases c : g.r1count + 1 = g.n
    · have hq' : g.queued = 0 := by
        rcases Nat.lt_or_ge g.queued 1 with hlt | hge
        · omega
        · have := hq1 (by omega); omega
      rw [if_pos c, hq']
      exact ⟨by omega, fun _ => by omega, fun hh => by omega, hr2⟩
    · rw [if_neg c, Nat.add_zero]
      exact ⟨hq, fun hh => by have := hq1 hh; omega, fun hh => by have := hq0 hh; omega, hr2⟩
  · intro hh; rw [e1, hst] at hh; cases hh
  · intro hh; rw [e1, hst] at hh; cases hh
  · intro hh; rw [e1, hst] at hh; rcases hh with hh | hh | hh <;> cases hh
  · intro hh; rw [e1, hst] at hh; cases hh
  · rw [e3]; exact h.npos

theorem submitR1_inv (g : Group) (mid : Nat) (s : Bool) (l : Nat) (a b : Bool) (h : Inv g) : Inv (submitR1 g mid s l a b).1 := by
  unfold submitR1
  by_cases c1 : g.status ≠ .round1
  · rw [if_pos c1]; exact h
  rw [if_neg c1]
  have hst : g.status = .round1 := by simpa using c1
  by_cases c2 : (!(s && inRange g mid)) = true
  · rw [if_pos c2]; exact h
  rw [if_neg c2]
  by_cases c3 : (g.members mid).r1 = true
  · rw [if_pos c3]; exact h
  rw [if_neg c3]
  by_cases c4 : l ≠ g.t
  · rw [if_pos c4]; exact h
  rw [if_neg c4]
  by_cases c5 : (!a) = true
  · rw [if_pos c5]; exact h
  rw [if_neg c5]
  by_cases c6 : (!b) = true
  · rw [if_pos c6]; exact h
  rw [if_neg c6]
  obtain ⟨e1, e3, e4, e5, e6, e7, e8, hm⟩ := r1_fields g mid (g.r1count + 1 == g.n)
  exact inv_r1_step g _ h hst e1 e3 e4 e5 e6 e7 (by rw [e8]; simp only [beq_iff_eq]) hm

end BandVerif.Dkg

namespace BandVerif.Dkg

theorem r2_fields (g : Group) (mid : Nat) (b : Bool) :
    let g' := enqueueIf { setMember g mid { g.members mid with r2 := true } with r2count := g.r2count + 1 } b
    g'.status = g.status ∧ g'.n = g.n ∧ g'.subs3 = g.subs3 ∧ g'.ccount = g.ccount ∧ g'.r2count = g.r2count + 1 ∧
    g'.queued = g.queued + (if b = true then 1 else 0) ∧
    (∀ i, (g'.members i).confirmed = (g.members i).confirmed ∧ (g'.members i).complained = (g.members i).complained ∧
      (g'.members i).malicious = (g.members i).malicious) := by
  intro g'
  cases b
  · refine ⟨rfl, rfl, rfl, rfl, rfl, rfl, fun i => ?_⟩
    simp only [g', enqueueIf, setMember, Bool.false_eq_true, if_false]
    by_cases e : i = mid <;> simp [e]
  · refine ⟨rfl, rfl, rfl, rfl, rfl, rfl, fun i => ?_⟩
    simp only [g', enqueueIf, setMember, if_true]
    by_cases e : i = mid <;> simp [e]

theorem inv_r2_step (g g' : Group) (h : Inv g) (hst : g.status = .round2)
    (e1 : g'.status = g.status) (e3 : g'.n = g.n) (e4 : g'.subs3 = g.subs3) (e5 : g'.ccount = g.ccount)
    (e7 : g'.r2count = g.r2count + 1) (e8 : g'.queued = g.queued + (if g.r2count + 1 = g.n then 1 else 0))
    (hm : ∀ i, (g'.members i).confirmed = (g.members i).confirmed ∧ (g'.members i).complained = (g.members i).complained ∧
      (g'.members i).malicious = (g.members i).malicious) : Inv g' := by
  obtain ⟨hq, hq1, hq0⟩ := h.q2 hst
  constructor
  · rw [e4]; exact h.nodup
  · intro i hi; rw [e4] at hi; have := h.inr i hi; unfold InR at this ⊢; rw [e3]; exact this
  · rw [e5, e4]; exact h.cnt
  · intro i; rw [e4, (hm i).1, (hm i).2.1]; exact h.mem i
  · intro i; rw [(hm i).1, (hm i).2.1]; exact h.excl i
  · intro i hi; rw [(hm i).2.1] at hi
    obtain ⟨j, hj, hjm⟩ := h.compl i hi
    exact ⟨j, by unfold InR at hj ⊢; rw [e3]; exact hj, by rw [(hm j).2.2]; exact hjm⟩
  · intro _; rw [e4]; exact h.early (Or.inr hst)
  · intro hh; rw [e1, hst] at hh; cases hh
  · intro _
    rw [e8, e7, e3]
    by_cases c : g.r2count + 1 = g.n
    · have hq' : g.queued = 0 := by
        rcases Nat.lt_or_ge g.queued 1 with hlt | hge
        · omega
        · have := hq1 (by omega); omega
      rw [if_pos c, hq']
      exact ⟨by omega, fun _ => by omega, fun hh => by omega⟩
    · rw [if_neg c, Nat.add_zero]
      exact ⟨hq, fun hh => by have := hq1 hh; omega, fun hh => by have := hq0 hh; omega⟩
  · intro hh; rw [e1, hst] at hh; cases hh
  · intro hh; rw [e1, hst] at hh; rcases hh with hh | hh | hh <;> cases hh
  · intro hh; rw [e1, hst] at hh; cases hh
  · rw [e3]; exact h.npos

theorem submitR2_inv (g : Group) (mid : Nat) (s : Bool) (l : Nat) (h : Inv g) : Inv (submitR2 g mid s l).1 := by
  unfold submitR2
  by_cases c1 : g.status ≠ .round2
  · rw [if_pos c1]; exact h
  rw [if_neg c1]
  have hst : g.status = .round2 := by simpa using c1
  by_cases c2 : (!(s && inRange g mid)) = true
  · rw [if_pos c2]; exact h
  rw [if_neg c2]
  by_cases c3 : (g.members mid).r2 = true
  · rw [if_pos c3]; exact h
  rw [if_neg c3]
  by_cases c4 : l ≠ g.n - 1
  · rw [if_pos c4]; exact h
  rw [if_neg c4]
  obtain ⟨e1, e3, e4, e5, e7, e8, hm⟩ := r2_fields g mid (g.r2count + 1 == g.n)
  exact inv_r2_step g _ h hst e1 e3 e4 e5 e7 (by rw [e8]; simp only [beq_iff_eq]) hm

/-- common part of an accepted round-3 message of member `mid` (confirm, or complain after the complaints were
    processed into `g1`): flags of `mid` updated, list and counter extended -/
theorem inv_r3_step (g g' : Group) (h : Inv g) (hst : g.status = .round3) (mid : Nat) (hmid : InR g mid)
    (hnc : (g.members mid).confirmed = false) (hnp : (g.members mid).complained = false)
    (e1 : g'.status = g.status) (e3 : g'.n = g.n) (e4 : g'.subs3 = g.subs3 ++ [mid]) (e5 : g'.ccount = g.ccount + 1)
    (e8 : g'.queued = g.queued + (if g.ccount + 1 = g.n then 1 else 0))
    (hoth : ∀ i, i ≠ mid → (g'.members i).confirmed = (g.members i).confirmed ∧ (g'.members i).complained = (g.members i).complained)
    (hself : ((g'.members mid).confirmed = true ∧ (g'.members mid).complained = false) ∨
             ((g'.members mid).confirmed = false ∧ (g'.members mid).complained = true))
    (hmono : ∀ i, (g.members i).malicious = true → (g'.members i).malicious = true)
    (hcompl : (g'.members mid).complained = true → ∃ j, InR g j ∧ (g'.members j).malicious = true) : Inv g' := by
  obtain ⟨hq, hq1, hq0⟩ := h.q3 hst
  have hnotin : mid ∉ g.subs3 := by
    intro hin; rcases (h.mem mid).mp hin with c | c
    · rw [hnc] at c; cases c
    · rw [hnp] at c; cases c
  constructor
  · rw [e4]; exact List.nodup_append.mpr ⟨h.nodup, List.nodup_singleton _, by
      intro a ha b hb; rw [List.mem_singleton] at hb; subst hb; intro e; subst e; exact hnotin ha⟩
  · intro i hi; rw [e4, List.mem_append, List.mem_singleton] at hi
    unfold InR; rw [e3]
    rcases hi with hi | hi
    · exact h.inr i hi
    · subst hi; exact hmid
  · rw [e5, e4, List.length_append, List.length_singleton, h.cnt]
  · intro i
    rw [e4, List.mem_append, List.mem_singleton]
    by_cases e : i = mid
    · subst e
      constructor
      · intro _; rcases hself with ⟨a, _⟩ | ⟨_, b⟩
        · exact Or.inl a
        · exact Or.inr b
      · intro _; exact Or.inr rfl
    · rw [(hoth i e).1, (hoth i e).2]
      constructor
      · rintro (hi | hi)
        · exact (h.mem i).mp hi
        · exact absurd hi e
      · intro hh; exact Or.inl ((h.mem i).mpr hh)
  · intro i
    by_cases e : i = mid
    · subst e; rcases hself with ⟨_, b⟩ | ⟨a, _⟩
      · rw [b]; simp
      · rw [a]; simp
    · rw [(hoth i e).1, (hoth i e).2]; exact h.excl i
  · intro i hi
    by_cases e : i = mid
    · subst e
      obtain ⟨j, hj, hjm⟩ := hcompl hi
      exact ⟨j, by unfold InR at hj ⊢; rw [e3]; exact hj, hjm⟩
    · rw [(hoth i e).2] at hi
      obtain ⟨j, hj, hjm⟩ := h.compl i hi
      exact ⟨j, by unfold InR at hj ⊢; rw [e3]; exact hj, hmono j hjm⟩
  · intro hh; rw [e1, hst] at hh; rcases hh with hh | hh <;> cases hh
  · intro hh; rw [e1, hst] at hh; cases hh
  · intro hh; rw [e1, hst] at hh; cases hh
  · intro _
    rw [e8, e5, e3]
    by_cases c : g.ccount + 1 = g.n
    · have hq' : g.queued = 0 := by
        rcases Nat.lt_or_ge g.queued 1 with hlt | hge
        · omega
        · have := hq1 (by omega); omega
      rw [if_pos c, hq']
      exact ⟨by omega, fun _ => by omega, fun hh => by omega⟩
    · rw [if_neg c, Nat.add_zero]
      exact ⟨hq, fun hh => by have := hq1 hh; omega, fun hh => by have := hq0 hh; omega⟩
  · intro hh; rw [e1, hst] at hh; rcases hh with hh | hh | hh <;> cases hh
  · intro hh; rw [e1, hst] at hh; cases hh
  · rw [e3]; exact h.npos

end BandVerif.Dkg

namespace BandVerif.Dkg

theorem enqueueIf_proj (x : Group) (b : Bool) :
    (enqueueIf x b).status = x.status ∧ (enqueueIf x b).n = x.n ∧ (enqueueIf x b).subs3 = x.subs3 ∧ (enqueueIf x b).ccount = x.ccount ∧
    (enqueueIf x b).members = x.members ∧ (enqueueIf x b).queued = x.queued + (if b = true then 1 else 0) := by
  cases b <;> exact ⟨rfl, rfl, rfl, rfl, rfl, rfl⟩

theorem inRange_iff (g : Group) (i : Nat) : inRange g i = true ↔ InR g i := by unfold inRange InR; simp

theorem confirm_inv (g : Group) (mid : Nat) (s k : Bool) (h : Inv g) : Inv (confirm g mid s k).1 := by
  unfold confirm
  by_cases c1 : g.status ≠ .round3
  · rw [if_pos c1]; exact h
  rw [if_neg c1]
  have hst : g.status = .round3 := by simpa using c1
  by_cases c2 : (!(s && inRange g mid)) = true
  · rw [if_pos c2]; exact h
  rw [if_neg c2]
  have hmid : InR g mid := by
    rw [← inRange_iff]; cases hs : s <;> cases hi : inRange g mid <;> simp [hs, hi] at c2 ⊢
  by_cases c3 : (g.members mid).confirmed = true
  · rw [if_pos c3]; exact h
  rw [if_neg c3]
  by_cases c4 : (g.members mid).complained = true
  · rw [if_pos c4]; exact h
  rw [if_neg c4]
  by_cases c5 : (!k) = true
  · rw [if_pos c5]; exact h
  rw [if_neg c5]
  have hnc : (g.members mid).confirmed = false := by simpa using c3
  have hnp : (g.members mid).complained = false := by simpa using c4
  simp only []
  obtain ⟨q1, q2, q3, q4, q5, q6⟩ := enqueueIf_proj
    { setMember g mid { g.members mid with confirmed := true } with ccount := g.ccount + 1, subs3 := g.subs3 ++ [mid] } (g.ccount + 1 == g.n)
  apply inv_r3_step g _ h hst mid hmid hnc hnp
  · rw [q1]; rfl
  · rw [q2]; rfl
  · rw [q3]
  · rw [q4]
  · rw [q6]; simp only [beq_iff_eq]; rfl
  · intro i hi; rw [q5]; simp [setMember, hi]
  · left; rw [q5]; simp [setMember, hnp]
  · intro i hi; rw [q5]; simp only [setMember]; by_cases e : i = mid
    · subst e; simp [hi]
    · simp [e, hi]
  · intro hc; exfalso; rw [q5] at hc; simp [setMember, hnp] at hc

theorem setMember_mal (g : Group) (who : Nat) :
    (∀ i, ((setMember g who { g.members who with malicious := true }).members i).confirmed = (g.members i).confirmed ∧
          ((setMember g who { g.members who with malicious := true }).members i).complained = (g.members i).complained) ∧
    (∀ i, (g.members i).malicious = true → ((setMember g who { g.members who with malicious := true }).members i).malicious = true) ∧
    ((setMember g who { g.members who with malicious := true }).members who).malicious = true := by
  refine ⟨fun i => ?_, fun i hi => ?_, ?_⟩
  · unfold setMember; by_cases e : i = who
    · subst e; simp
    · simp [e]
  · unfold setMember; by_cases e : i = who
    · subst e; simp
    · simp [e, hi]
  · simp [setMember]

theorem processComplaints_fields (g : Group) (cs : List (Nat × Nat × Bool)) :
    (processComplaints g cs).status = g.status ∧ (processComplaints g cs).n = g.n ∧ (processComplaints g cs).subs3 = g.subs3 ∧
    (processComplaints g cs).ccount = g.ccount ∧ (processComplaints g cs).queued = g.queued ∧
    (∀ i, ((processComplaints g cs).members i).confirmed = (g.members i).confirmed ∧
          ((processComplaints g cs).members i).complained = (g.members i).complained) ∧
    (∀ i, (g.members i).malicious = true → ((processComplaints g cs).members i).malicious = true) := by
  induction cs generalizing g with
  | nil => exact ⟨rfl, rfl, rfl, rfl, rfl, fun _ => ⟨rfl, rfl⟩, fun _ hh => hh⟩
  | cons c cs ih =>
    obtain ⟨a, b, u⟩ := c
    simp only [processComplaints]
    generalize (if (u && inRange g b) = true then b else a) = who
    obtain ⟨i1, i2, i3, i4, i5, i6, i7⟩ := ih (setMember g who { g.members who with malicious := true })
    obtain ⟨m1, m2, _⟩ := setMember_mal g who
    refine ⟨i1, i2, i3, i4, i5, fun i => ?_, fun i hi => ?_⟩
    · rw [(i6 i).1, (i6 i).2]; exact m1 i
    · exact i7 i (m2 i hi)

theorem processComplaints_marks (g : Group) (mid : Nat) (hmid : InR g mid) (r : Nat) (u : Bool) (cs : List (Nat × Nat × Bool)) :
    ∃ j, InR g j ∧ ((processComplaints g ((mid, r, u) :: cs)).members j).malicious = true := by
  simp only [processComplaints]
  have hwho : InR g (if (u && inRange g r) = true then r else mid) := by
    by_cases c : (u && inRange g r) = true
    · rw [if_pos c, ← inRange_iff]; simp only [Bool.and_eq_true] at c; exact c.2
    · rw [if_neg c]; exact hmid
  generalize (if (u && inRange g r) = true then r else mid) = who at hwho
  obtain ⟨_, _, _, _, _, _, mono⟩ := processComplaints_fields (setMember g who { g.members who with malicious := true }) cs
  exact ⟨who, hwho, mono who (setMember_mal g who).2.2⟩

theorem complain_inv (g : Group) (s : Bool) (cs : List (Nat × Nat × Bool)) (h : Inv g) : Inv (complain g s cs).1 := by
  unfold complain
  match cs with
  | [] => exact h
  | (mid, r, u) :: rest =>
    simp only []
    by_cases c1 : g.status ≠ .round3
    · rw [if_pos c1]; exact h
    rw [if_neg c1]
    have hst : g.status = .round3 := by simpa using c1
    by_cases c2 : (!(s && inRange g mid)) = true
    · rw [if_pos c2]; exact h
    rw [if_neg c2]
    have hmid : InR g mid := by
      rw [← inRange_iff]; cases hs : s <;> cases hi : inRange g mid <;> simp [hs, hi] at c2 ⊢
    by_cases c3 : (g.members mid).confirmed = true
    · rw [if_pos c3]; exact h
    rw [if_neg c3]
    by_cases c4 : (g.members mid).complained = true
    · rw [if_pos c4]; exact h
    rw [if_neg c4]
    have hnc : (g.members mid).confirmed = false := by simpa using c3
    have hnp : (g.members mid).complained = false := by simpa using c4
    obtain ⟨p1, p2, p3, p4, p5, p6, p7⟩ := processComplaints_fields g ((mid, r, u) :: rest)
    obtain ⟨j, hj, hjm⟩ := processComplaints_marks g mid hmid r u rest
    generalize hg1 : processComplaints g ((mid, r, u) :: rest) = g1 at p1 p2 p3 p4 p5 p6 p7 hjm
    simp only []
    obtain ⟨q1, q2, q3, q4, q5, q6⟩ := enqueueIf_proj
      { setMember g1 mid { g1.members mid with complained := true } with ccount := g1.ccount + 1, subs3 := g1.subs3 ++ [mid] } (g1.ccount + 1 == g.n)
    apply inv_r3_step g _ h hst mid hmid hnc hnp
    · rw [q1]; exact p1
    · rw [q2]; exact p2
    · rw [q3]; show g1.subs3 ++ [mid] = _; rw [p3]
    · rw [q4]; show g1.ccount + 1 = _; rw [p4]
    · rw [q6]; show g1.queued + _ = _; rw [p5, p4]; simp only [beq_iff_eq]
    · intro i hi; rw [q5]; simp only [setMember, hi, if_false]; exact p6 i
    · right; rw [q5]; simp only [setMember, if_true]; exact ⟨by rw [(p6 mid).1]; exact hnc, trivial⟩
    · intro i hi
      have := p7 i hi
      rw [q5]; simp only [setMember]; by_cases e : i = mid
      · subst e; simp [this]
      · simp [e, this]
    · intro _
      refine ⟨j, hj, ?_⟩
      rw [q5]; simp only [setMember]; by_cases e : j = mid
      · subst e; simp [hjm]
      · simp [e, hjm]

end BandVerif.Dkg

namespace BandVerif.Dkg

theorem anyMalicious_false_iff (g : Group) : anyMalicious g = false ↔ ∀ i, InR g i → (g.members i).malicious = false := by
  unfold anyMalicious InR
  rw [List.any_eq_false]
  constructor
  · intro h i hi
    have := h (i - 1) (by rw [List.mem_range]; omega)
    rw [show i - 1 + 1 = i from by omega] at this
    simpa using this
  · intro h k hk
    rw [List.mem_range] at hk
    have := h (k + 1) ⟨by omega, by omega⟩
    simp [this]

/-- one processing step of a queued group keeps the invariant, given the queue entry was justified -/
theorem processOnce_inv (g : Group) (h : Inv g) (hq : g.queued = 1) : Inv { processOnce g with queued := 0 } := by
  unfold processOnce
  cases hst : g.status with
  | round1 =>
    obtain ⟨_, _, _, hr2⟩ := h.q1 hst
    have hs := h.early (Or.inl hst)
    simp only []
    exact { nodup := h.nodup, inr := h.inr, cnt := h.cnt, mem := h.mem, excl := h.excl, compl := h.compl,
            early := fun _ => hs, q1 := (fun hh => by cases hh),
            q2 := fun _ => ⟨by simp, by simp, fun _ => by show g.r2count < g.n; rw [hr2]; exact h.npos⟩,
            q3 := (fun hh => by cases hh), qf := (fun hh => by rcases hh with hh | hh | hh <;> cases hh),
            act := (fun hh => by cases hh), npos := h.npos }
  | round2 =>
    have hs := h.early (Or.inr hst)
    simp only []
    exact { nodup := h.nodup, inr := h.inr, cnt := h.cnt, mem := h.mem, excl := h.excl, compl := h.compl,
            early := (fun hh => by rcases hh with hh | hh <;> cases hh), q1 := (fun hh => by cases hh), q2 := (fun hh => by cases hh),
            q3 := fun _ => ⟨by simp, by simp, fun _ => by show g.ccount < g.n; rw [h.cnt, hs]; exact h.npos⟩,
            qf := (fun hh => by rcases hh with hh | hh | hh <;> cases hh),
            act := (fun hh => by cases hh), npos := h.npos }
  | round3 =>
    obtain ⟨_, hq1, _⟩ := h.q3 hst
    have hfull := full_of_nodup g.subs3 g.n h.nodup h.inr (by rw [← h.cnt]; exact hq1 hq)
    simp only []
    cases hm : anyMalicious g with
    | true =>
      simp only [if_true]
      exact { nodup := h.nodup, inr := h.inr, cnt := h.cnt, mem := h.mem, excl := h.excl, compl := h.compl,
              early := (fun hh => by rcases hh with hh | hh <;> cases hh), q1 := (fun hh => by cases hh), q2 := (fun hh => by cases hh),
              q3 := (fun hh => by cases hh), qf := fun _ => rfl, act := (fun hh => by cases hh), npos := h.npos }
    | false =>
      simp only [Bool.false_eq_true, if_false]
      have hnm := (anyMalicious_false_iff g).mp hm
      exact { nodup := h.nodup, inr := h.inr, cnt := h.cnt, mem := h.mem, excl := h.excl, compl := h.compl,
              early := (fun hh => by rcases hh with hh | hh <;> cases hh), q1 := (fun hh => by cases hh), q2 := (fun hh => by cases hh),
              q3 := (fun hh => by cases hh), qf := fun _ => rfl,
              act := (fun _ i hi => by
                refine ⟨?_, hnm i hi⟩
                rcases (h.mem i).mp (hfull i hi) with c | c
                · exact c
                · obtain ⟨j, hj, hjm⟩ := h.compl i c
                  rw [hnm j hj] at hjm; cases hjm),
              npos := h.npos }
  | active => simp only []; have := h.qf (Or.inl hst); omega
  | fallen => simp only []; have := h.qf (Or.inr (Or.inl hst)); omega
  | expired => simp only []; have := h.qf (Or.inr (Or.inr hst)); omega

theorem queued_le_one (g : Group) (h : Inv g) : g.queued ≤ 1 := by
  cases hst : g.status with
  | round1 => exact (h.q1 hst).1
  | round2 => exact (h.q2 hst).1
  | round3 => exact (h.q3 hst).1
  | active => rw [h.qf (Or.inl hst)]; omega
  | fallen => rw [h.qf (Or.inr (Or.inl hst))]; omega
  | expired => rw [h.qf (Or.inr (Or.inr hst))]; omega

/-- resetting the queue of a group whose queue is empty changes nothing relevant -/
theorem inv_queue0 (g : Group) (h : Inv g) (hq : g.queued = 0) : Inv { g with queued := 0 } := by
  have : ({ g with queued := 0 } : Group) = g := by cases g; simp_all
  rw [this]; exact h

/-- marking a group expired / dropping interim data keeps the invariant -/
theorem expire_inv (g : Group) (h : Inv g) (hq : g.queued = 0) :
    Inv { (if g.status ≠ .active ∧ g.status ≠ .fallen then { g with status := .expired } else g) with interim := false } := by
  by_cases c : g.status ≠ .active ∧ g.status ≠ .fallen
  · rw [if_pos c]
    exact { nodup := h.nodup, inr := h.inr, cnt := h.cnt, mem := h.mem, excl := h.excl, compl := h.compl,
            early := (fun hh => by rcases hh with hh | hh <;> cases hh), q1 := (fun hh => by cases hh), q2 := (fun hh => by cases hh),
            q3 := (fun hh => by cases hh), qf := fun _ => hq, act := (fun hh => by cases hh), npos := h.npos }
  · rw [if_neg c]
    exact { nodup := h.nodup, inr := h.inr, cnt := h.cnt, mem := h.mem, excl := h.excl, compl := h.compl,
            early := h.early, q1 := h.q1, q2 := h.q2, q3 := h.q3, qf := h.qf, act := h.act, npos := h.npos }

theorem endBlock_inv (g : Group) (height period : Int) (r : Bool) (h : Inv g) : Inv (endBlock g height period r) := by
  unfold endBlock
  have hle := queued_le_one g h
  have h1 : Inv { processQueued g.queued g with queued := 0 } := by
    rcases Nat.lt_or_ge g.queued 1 with c | c
    · have : g.queued = 0 := by omega
      rw [this]; exact inv_queue0 g h this
    · have : g.queued = 1 := by omega
      rw [this]; exact processOnce_inv g h this
  simp only []
  split
  · exact expire_inv _ h1 rfl
  · exact h1

theorem step_inv (g : Group) (op : Op) (h : Inv g) : Inv (step g op) := by
  cases op with
  | r1 mid s l a b => exact submitR1_inv g mid s l a b h
  | r2 mid s l => exact submitR2_inv g mid s l h
  | complain s cs => exact complain_inv g s cs h
  | confirm mid s k => exact confirm_inv g mid s k h
  | endBlock hh p r => exact endBlock_inv g hh p r h

theorem run_inv (ops : List Op) (g : Group) (h : Inv g) : Inv (ops.foldl step g) := by
  induction ops generalizing g with
  | nil => exact h
  | cons o os ih => exact ih _ (step_inv g o h)

end BandVerif.Dkg
