/- C03: the TABLE routine of pkg/tss (lagrange.ComputeCoefficientPreCompute, used when every id is at most 20):
   whenever it returns (no out-of-range table index), it returns the true Lagrange coefficient at 0 — the int64 products
   cannot overflow because the precomputed power tables bound every factor.  Mathlib. -/
import BandVerif.Lemmas.LagrangeGeneric

namespace BandVerif.Lagrange
open BandVerif.Generated

/-- the value in the field of scalars of an exponent vector over 0..19 -/
noncomputable def val (c : Nat → Int) : ZMod N := ∏ k ∈ Finset.range 20, ((k : ZMod N)) ^ (c k)

theorem cast_ne_zero_of_small (k : Nat) (h1 : 1 ≤ k) (h2 : k < 20) : (k : ZMod N) ≠ 0 := by
  intro h
  have hk : k < N := Nat.lt_trans h2 (by unfold N Generated.Frost.groupOrder; norm_num)
  have hN : (0 : Nat) < N := (Fact.out : Nat.Prime N).pos
  have := cast_inj_lt k 0 hk hN (by simpa using h)
  omega

theorem val_add (c d : Nat → Int) (hc : c 0 = 0) (hd : d 0 = 0) : val (fun k => c k + d k) = val c * val d := by
  unfold val
  rw [← Finset.prod_mul_distrib]
  apply Finset.prod_congr rfl
  intro k hk
  by_cases h0 : k = 0
  · subst h0; simp [hc, hd]
  · exact zpow_add₀ (cast_ne_zero_of_small k (by omega) (Finset.mem_range.mp hk)) _ _

theorem val_zero : val (fun _ => 0) = 1 := by unfold val; simp

theorem val_single (p : Nat) (e : Int) (h1 : 1 ≤ p) (h2 : p < 20) : val (fun k => if k = p then e else 0) = (p : ZMod N) ^ e := by
  unfold val
  rw [Finset.prod_eq_single p]
  · simp
  · intro k _ hk; simp [hk]
  · intro hp; exact absurd (Finset.mem_range.mpr h2) hp

/-- adding the exponents of a factor list -/
def addF (acc : Nat → Int) (l : List (Nat × Nat)) : Nat → Int :=
  l.foldl (fun (c : Nat → Int) v => fun p => if p = v.1 then c p + v.2 else c p) acc
def subF (acc : Nat → Int) (l : List (Nat × Nat)) : Nat → Int :=
  l.foldl (fun (c : Nat → Int) v => fun p => if p = v.1 then c p - v.2 else c p) acc

theorem addF_spec (l : List (Nat × Nat)) (acc : Nat → Int) (h0 : acc 0 = 0) (hk : ∀ v ∈ l, 1 ≤ v.1 ∧ v.1 < 20) :
    (addF acc l) 0 = 0 ∧ val (addF acc l) = val acc * ((l.map (fun v => v.1 ^ v.2)).prod : ℕ) := by
  induction l generalizing acc with
  | nil => exact ⟨h0, by simp [addF]⟩
  | cons v vs ih =>
    obtain ⟨k1, k2⟩ := hk v (List.mem_cons_self ..)
    have hacc0 : (fun p => if p = v.1 then acc p + (v.2 : Int) else acc p) 0 = 0 := by
      have : (0 : Nat) ≠ v.1 := by omega
      simp [this, h0]
    obtain ⟨i1, i2⟩ := ih (fun p => if p = v.1 then acc p + v.2 else acc p) hacc0 (fun w hw => hk w (List.mem_cons_of_mem _ hw))
    refine ⟨i1, ?_⟩
    show val (addF (fun p => if p = v.1 then acc p + v.2 else acc p) vs) = _
    rw [i2]
    have hsplit : (fun p => if p = v.1 then acc p + (v.2 : Int) else acc p) = fun k => acc k + (if k = v.1 then (v.2 : Int) else 0) := by
      funext p; split <;> simp
    have hz : (if (0 : Nat) = v.1 then (v.2 : Int) else 0) = 0 := by
      have : (0 : Nat) ≠ v.1 := by omega
      simp [this]
    rw [hsplit, val_add acc _ h0 hz, val_single v.1 v.2 k1 k2]
    simp only [List.map_cons, List.prod_cons, Nat.cast_mul, Nat.cast_pow, zpow_natCast]
    ring

theorem subF_spec (l : List (Nat × Nat)) (acc : Nat → Int) (h0 : acc 0 = 0) (hk : ∀ v ∈ l, 1 ≤ v.1 ∧ v.1 < 20) :
    (subF acc l) 0 = 0 ∧ val (subF acc l) = val acc * (((l.map (fun v => v.1 ^ v.2)).prod : ℕ) : ZMod N)⁻¹ := by
  induction l generalizing acc with
  | nil => exact ⟨h0, by simp [subF]⟩
  | cons v vs ih =>
    obtain ⟨k1, k2⟩ := hk v (List.mem_cons_self ..)
    have hacc0 : (fun p => if p = v.1 then acc p - (v.2 : Int) else acc p) 0 = 0 := by
      have : (0 : Nat) ≠ v.1 := by omega
      simp [this, h0]
    obtain ⟨i1, i2⟩ := ih (fun p => if p = v.1 then acc p - v.2 else acc p) hacc0 (fun w hw => hk w (List.mem_cons_of_mem _ hw))
    refine ⟨i1, ?_⟩
    show val (subF (fun p => if p = v.1 then acc p - v.2 else acc p) vs) = _
    rw [i2]
    have hsplit : (fun p => if p = v.1 then acc p - (v.2 : Int) else acc p) = fun k => acc k + (if k = v.1 then (-(v.2 : Int)) else 0) := by
      funext p; split <;> simp [sub_eq_add_neg]
    have hz : (if (0 : Nat) = v.1 then (-(v.2 : Int)) else 0) = 0 := by
      have : (0 : Nat) ≠ v.1 := by omega
      simp [this]
    rw [hsplit, val_add acc _ h0 hz, val_single v.1 (-(v.2 : Int)) k1 k2]
    simp only [List.map_cons, List.prod_cons, Nat.cast_mul, Nat.cast_pow, zpow_neg, zpow_natCast, mul_inv]
    ring

/-- the factor table: every n in 1..20 is the product of its listed prime powers, with keys in 1..19 -/
theorem factorsOf_spec (n : Nat) (h1 : 1 ≤ n) (h2 : n ≤ 20) :
    (∀ v ∈ factorsOf n, 1 ≤ v.1 ∧ v.1 < 20) ∧ ((factorsOf n).map (fun v => v.1 ^ v.2)).prod = n := by
  have : ∀ m ∈ List.range 21, 1 ≤ m → ((factorsOf m).all (fun v => decide (1 ≤ v.1 ∧ v.1 < 20)) = true ∧
      ((factorsOf m).map (fun v => v.1 ^ v.2)).prod = m) := by decide
  obtain ⟨a, b⟩ := this n (List.mem_range.mpr (by omega)) h1
  exact ⟨fun v hv => by simpa using (List.all_eq_true.mp a) v hv, b⟩

/-- |j − i| as the Go code computes it -/
def dist (i j : Nat) : Nat := if j < i then i - j else j - i
def sgn (i j : Nat) : Int := if j < i then -1 else 1

/-- the accumulation loop of the table routine from an arbitrary accumulator -/
def countsFrom (i : Nat) (js : List Nat) (acc : (Nat → Int) × Int) : (Nat → Int) × Int :=
  js.foldl (fun (acc : (Nat → Int) × Int) j =>
    let c1 := (factorsOf j).foldl (fun (c : Nat → Int) v => fun p => if p = v.1 then c p + v.2 else c p) acc.1
    let d : Nat := if j < i then i - j else j - i
    let sg := if j < i then -acc.2 else acc.2
    let c2 := (factorsOf d).foldl (fun (c : Nat → Int) v => fun p => if p = v.1 then c p - v.2 else c p) c1
    (c2, sg)) acc

theorem countsOf_eq (i : Nat) (s : List Nat) : countsOf i s = countsFrom i (s.filter (· ≠ i)) (fun _ => 0, 1) := rfl

theorem countsFrom_spec (i : Nat) (hi1 : 1 ≤ i) (hi2 : i ≤ 20) (js : List Nat) (hjs : ∀ j ∈ js, 1 ≤ j ∧ j ≤ 20 ∧ j ≠ i)
    (acc : (Nat → Int) × Int) (h0 : acc.1 0 = 0) :
    (countsFrom i js acc).1 0 = 0 ∧
    val (countsFrom i js acc).1 = val acc.1 * (js.map (fun (j : Nat) => (j : ZMod N) * ((dist i j : ℕ) : ZMod N)⁻¹)).prod ∧
    (countsFrom i js acc).2 = acc.2 * (js.map (fun (j : Nat) => sgn i j)).prod := by
  induction js generalizing acc with
  | nil => simp [countsFrom, h0]
  | cons j rest ih =>
    obtain ⟨j1, j2, j3⟩ := hjs j (List.mem_cons_self ..)
    have hd1 : 1 ≤ dist i j := by unfold dist; split <;> omega
    have hd2 : dist i j ≤ 20 := by unfold dist; split <;> omega
    obtain ⟨fk, fp⟩ := factorsOf_spec j j1 j2
    obtain ⟨dk, dp⟩ := factorsOf_spec (dist i j) hd1 hd2
    obtain ⟨a0, av⟩ := addF_spec (factorsOf j) acc.1 h0 fk
    obtain ⟨s0, sv⟩ := subF_spec (factorsOf (dist i j)) (addF acc.1 (factorsOf j)) a0 dk
    have step : countsFrom i (j :: rest) acc =
        countsFrom i rest (subF (addF acc.1 (factorsOf j)) (factorsOf (dist i j)), if j < i then -acc.2 else acc.2) := rfl
    rw [step]
    obtain ⟨r0, rv, rs⟩ := ih (fun k hk => hjs k (List.mem_cons_of_mem _ hk))
      (subF (addF acc.1 (factorsOf j)) (factorsOf (dist i j)), if j < i then -acc.2 else acc.2) s0
    refine ⟨r0, ?_, ?_⟩
    · rw [rv, sv, av, fp, dp]
      simp only [List.map_cons, List.prod_cons]
      ring
    · rw [rs]
      simp only [List.map_cons, List.prod_cons, sgn]
      split <;> ring

/-- j − i in the field is sgn · |j − i| -/
theorem sub_eq_sgn_dist (i j : Nat) : ((j : ZMod N) - (i : ZMod N)) = ((sgn i j : Int) : ZMod N) * ((dist i j : ℕ) : ZMod N) := by
  unfold sgn dist
  split
  · rename_i h
    have : i = j + (i - j) := by omega
    conv_lhs => rw [this]
    push_cast; ring
  · rename_i h
    have : j = i + (j - i) := by omega
    conv_lhs => rw [this]
    push_cast; ring

/-! ### the product loop over the exponent vector -/
def loopStep (counts : Nat → Int) (acc : Option (Int × Int)) (k : Nat) : Option (Int × Int) :=
  match acc with
  | none => none
  | some (num, den) =>
    let v := counts k
    if v > 0 then (powerOf k v.toNat).map fun pw => (i64.mul num pw, den)
    else if v < 0 then (powerOf k (-v).toNat).map fun pw => (num, i64.mul den pw)
    else some (num, den)

theorem pre_eq (i : Nat) (s : List Nat) :
    pre i s = match (List.range 20).foldl (loopStep (countsOf i s).1) (some (1, 1)) with
      | none => none
      | some (num, den) => some ((i64.mul num (countsOf i s).2 * (invN den : Int)) % (N : Int)).toNat := by
  unfold pre
  generalize countsOf i s = cs
  obtain ⟨counts, sign⟩ := cs
  rfl

/-- the largest entry of the power table of k (1 when k has no table) -/
def maxPow (k : Nat) : Nat := ((Frost.PRECOMPUTED_POWERS.find? (·.1 == k)).map fun e => k ^ (e.2.length - 1)).getD 1
def boundUpTo (m : Nat) : Nat := ((List.range m).map maxPow).prod

theorem bound20 : boundUpTo 20 = 2432902008176640000 := by decide
theorem maxPow_pos (k : Nat) (hk : k < 20) : 1 ≤ maxPow k := by
  have : ∀ k ∈ List.range 20, 1 ≤ maxPow k := by decide
  exact this k (List.mem_range.mpr hk)
theorem boundUpTo_succ (m : Nat) : boundUpTo (m + 1) = boundUpTo m * maxPow m := by
  unfold boundUpTo; rw [List.range_succ, List.map_append, List.prod_append]; simp
theorem boundUpTo_mono (m : Nat) (hm : m ≤ 20) : boundUpTo m ≤ boundUpTo 20 := by
  have : ∀ m ∈ List.range 21, boundUpTo m ≤ boundUpTo 20 := by decide
  exact this m (List.mem_range.mpr (by omega))

/-- a successful table lookup: the key is a table prime below 20 and the value is the power, within the bound -/
theorem powerOf_spec (k v : Nat) (pw : Int) (h : powerOf k v = some pw) :
    1 ≤ k ∧ k < 20 ∧ pw = ((k ^ v : ℕ) : Int) ∧ k ^ v ≤ maxPow k := by
  have tbl : ∀ k ∈ List.range 20, ∀ v ∈ List.range 20,
      (match powerOf k v with
       | some pw => decide (1 ≤ k ∧ pw = ((k ^ v : ℕ) : Int) ∧ k ^ v ≤ maxPow k)
       | none => true) = true := by decide
  -- the lookup can only succeed for k, v < 20
  have hk : k < 20 ∧ v < 20 := by
    unfold powerOf at h
    cases hf : Frost.PRECOMPUTED_POWERS.find? (·.1 == k) with
    | none => simp [hf] at h
    | some e =>
      have hmem := List.mem_of_find?_eq_some hf
      have hkey : e.1 = k := by simpa using List.find?_some hf
      have hall : ∀ e ∈ Frost.PRECOMPUTED_POWERS, e.1 < 20 ∧ e.2.length ≤ 19 := by decide
      obtain ⟨b1, b2⟩ := hall e hmem
      simp only [hf, Option.bind_some, Option.map_eq_some_iff] at h
      obtain ⟨n, hn, _⟩ := h
      have : v < e.2.length := by
        by_contra hc
        rw [List.getElem?_eq_none (by omega)] at hn; cases hn
      exact ⟨by omega, by omega⟩
  have := tbl k (List.mem_range.mpr hk.1) v (List.mem_range.mpr hk.2)
  rw [h] at this
  simp only [decide_eq_true_eq] at this
  exact ⟨this.1, hk.1, this.2.1, this.2.2⟩

theorem i64_mul_exact (a b : Int) (h1 : 0 ≤ a * b) (h2 : a * b ≤ 2432902008176640000) : i64.mul a b = a * b := by
  unfold i64.mul
  exact i64.wrap_of_inRange ⟨by omega, by omega⟩

theorem loop_inv (counts : Nat → Int) (m : Nat) (hm : m ≤ 20) (num den : Int)
    (h : (List.range m).foldl (loopStep counts) (some (1, 1)) = some (num, den)) :
    1 ≤ num ∧ num ≤ (boundUpTo m : Int) ∧ 1 ≤ den ∧ den ≤ (boundUpTo m : Int) ∧
    (num : ZMod N) * (den : ZMod N)⁻¹ = ∏ k ∈ Finset.range m, ((k : ZMod N)) ^ (counts k) := by
  induction m generalizing num den with
  | zero =>
    simp only [List.range_zero, List.foldl_nil, Option.some.injEq, Prod.mk.injEq] at h
    obtain ⟨rfl, rfl⟩ := h
    simp [boundUpTo]
  | succ m ih =>
    rw [List.range_succ, List.foldl_append] at h
    simp only [List.foldl_cons, List.foldl_nil] at h
    cases hin : (List.range m).foldl (loopStep counts) (some (1, 1)) with
    | none => rw [hin] at h; simp [loopStep] at h
    | some nd =>
      obtain ⟨n0, d0⟩ := nd
      rw [hin] at h
      obtain ⟨a1, a2, a3, a4, a5⟩ := ih (by omega) n0 d0 hin
      have hb1 : (boundUpTo (m + 1) : Int) = (boundUpTo m : Int) * (maxPow m : Int) := by rw [boundUpTo_succ]; push_cast; rfl
      have hb20 : (boundUpTo (m + 1) : Int) ≤ 2432902008176640000 := by
        have := boundUpTo_mono (m + 1) hm
        rw [bound20] at this
        exact_mod_cast this
      have hmp : (1 : Int) ≤ (maxPow m : Int) := by exact_mod_cast maxPow_pos m (by omega)
      have hbm : (boundUpTo m : Int) ≤ (boundUpTo (m + 1) : Int) := by
        rw [hb1]; nlinarith
      rw [Finset.prod_range_succ]
      simp only [loopStep] at h
      by_cases hpos : counts m > 0
      · simp only [hpos, if_true, Option.map_eq_some_iff] at h
        obtain ⟨pw, hpw, he⟩ := h
        simp only [Prod.mk.injEq] at he
        obtain ⟨rfl, rfl⟩ := he
        obtain ⟨k1, k2, k3, k4⟩ := powerOf_spec m (counts m).toNat pw hpw
        have hpw1 : (1 : Int) ≤ pw := by rw [k3]; exact_mod_cast Nat.one_le_pow _ _ (by omega)
        have hpw2 : pw ≤ (maxPow m : Int) := by rw [k3]; exact_mod_cast k4
        have hprod : n0 * pw ≤ (boundUpTo (m + 1) : Int) := by rw [hb1]; nlinarith
        have hex : i64.mul n0 pw = n0 * pw := i64_mul_exact n0 pw (by nlinarith) (by omega)
        rw [hex]
        refine ⟨by nlinarith, hprod, a3, by omega, ?_⟩
        have hz : (counts m) = (((counts m).toNat : ℕ) : Int) := (Int.toNat_of_nonneg (by omega)).symm
        rw [← a5]
        conv_rhs => rw [hz, zpow_natCast]
        rw [k3]; push_cast; ring
      · by_cases hneg : counts m < 0
        · simp only [hpos, if_false, hneg, if_true, Option.map_eq_some_iff] at h
          obtain ⟨pw, hpw, he⟩ := h
          simp only [Prod.mk.injEq] at he
          obtain ⟨rfl, rfl⟩ := he
          obtain ⟨k1, k2, k3, k4⟩ := powerOf_spec m (-(counts m)).toNat pw hpw
          have hpw1 : (1 : Int) ≤ pw := by rw [k3]; exact_mod_cast Nat.one_le_pow _ _ (by omega)
          have hpw2 : pw ≤ (maxPow m : Int) := by rw [k3]; exact_mod_cast k4
          have hprod : d0 * pw ≤ (boundUpTo (m + 1) : Int) := by rw [hb1]; nlinarith
          have hex : i64.mul d0 pw = d0 * pw := i64_mul_exact d0 pw (by nlinarith) (by omega)
          rw [hex]
          refine ⟨a1, by omega, by nlinarith, hprod, ?_⟩
          have hz : (counts m) = -((((-(counts m)).toNat : ℕ)) : Int) := by
            rw [Int.toNat_of_nonneg (by omega)]; ring
          rw [← a5]
          conv_rhs => rw [hz, zpow_neg, zpow_natCast]
          rw [k3]; push_cast; rw [mul_inv]; ring
        · have hzero : counts m = 0 := by omega
          simp only [hpos, hneg, if_false, Option.some.injEq, Prod.mk.injEq] at h
          obtain ⟨rfl, rfl⟩ := h
          refine ⟨a1, by omega, a3, by omega, ?_⟩
          rw [← a5, hzero]; simp

theorem sgn_prod_unit (i : Nat) (js : List Nat) : (js.map (fun (j : Nat) => sgn i j)).prod = 1 ∨ (js.map (fun (j : Nat) => sgn i j)).prod = -1 := by
  induction js with
  | nil => left; rfl
  | cons j rest ih =>
    simp only [List.map_cons, List.prod_cons]
    have hj : sgn i j = 1 ∨ sgn i j = -1 := by unfold sgn; split <;> simp
    rcases hj with e | e <;> rcases ih with h | h <;> rw [e, h] <;> simp

theorem toNat_emod_cast (z : Int) : ((((z % (N : Int)).toNat : ℕ)) : ZMod N) = ((z : Int) : ZMod N) := by
  have hNne : (N : Int) ≠ 0 := by have := (Fact.out : Nat.Prime N).pos; omega
  rw [← Int.cast_natCast, Int.toNat_of_nonneg (Int.emod_nonneg _ hNne)]
  exact ZMod.intCast_mod z N

/-- PROPERTY (table routine, partial correctness): for ids in 1..20, WHENEVER the precomputed-table routine returns (i.e. no
    table index is out of range — in Go, no panic), the value is ∏_{j ≠ i} j / (j − i) in the field of scalars; in
    particular no int64 product wraps around, because every factor is a table entry and the table's maxima multiply to 20! -/
theorem pre_spec (i : Nat) (s : List Nat) (hi1 : 1 ≤ i) (hi2 : i ≤ 20) (hs : ∀ j ∈ s, 1 ≤ j ∧ j ≤ 20) (r : Nat) (h : pre i s = some r) :
    ((r : ℕ) : ZMod N) = ((s.filter (· ≠ i)).map (fun (j : Nat) => (j : ZMod N) / ((j : ZMod N) - (i : ZMod N)))).prod := by
  rw [pre_eq] at h
  cases hl : (List.range 20).foldl (loopStep (countsOf i s).1) (some (1, 1)) with
  | none => rw [hl] at h; cases h
  | some nd =>
    obtain ⟨num, den⟩ := nd
    rw [hl] at h
    simp only [Option.some.injEq] at h
    subst h
    obtain ⟨a1, a2, a3, a4, a5⟩ := loop_inv (countsOf i s).1 20 (Nat.le_refl _) num den hl
    rw [bound20] at a2 a4
    have hjs : ∀ j ∈ s.filter (· ≠ i), 1 ≤ j ∧ j ≤ 20 ∧ j ≠ i := by
      intro j hj
      obtain ⟨m1, m2⟩ := List.mem_filter.mp hj
      exact ⟨(hs j m1).1, (hs j m1).2, by simpa using m2⟩
    obtain ⟨_, cv, cs⟩ := countsFrom_spec i hi1 hi2 (s.filter (· ≠ i)) hjs (fun _ => 0, 1) rfl
    rw [← countsOf_eq] at cv cs
    simp only [val_zero, one_mul] at cv
    simp only [one_mul] at cs
    -- the sign multiplication is exact
    have hsign := sgn_prod_unit i (s.filter (· ≠ i))
    rw [← cs] at hsign
    have hex : i64.mul num (countsOf i s).2 = num * (countsOf i s).2 := by
      unfold i64.mul
      apply i64.wrap_of_inRange
      rcases hsign with e | e <;> rw [e] <;> constructor <;> omega
    rw [hex, toNat_emod_cast]
    -- den is invertible
    have hden : ((den : Int) : ZMod N) ≠ 0 := by
      intro h0
      have hlt : den.toNat < N := by
        have : (2432902008176640000 : Nat) < N := by unfold N Generated.Frost.groupOrder; norm_num
        omega
      have hc : ((den.toNat : ℕ) : ZMod N) = 0 := by
        rw [← Int.cast_natCast, Int.toNat_of_nonneg (by omega)]; exact h0
      have := cast_inj_lt den.toNat 0 hlt (Fact.out : Nat.Prime N).pos (by simpa using hc)
      omega
    rw [Int.cast_mul, Int.cast_mul, Int.cast_natCast, invN_spec den hden]
    -- num · sign · den⁻¹ = sign · val counts
    have hval : ((num : Int) : ZMod N) * ((den : Int) : ZMod N)⁻¹ = val (countsOf i s).1 := by unfold val; exact a5
    have : ((num : Int) : ZMod N) * (((countsOf i s).2 : Int) : ZMod N) * ((den : Int) : ZMod N)⁻¹ =
        (((countsOf i s).2 : Int) : ZMod N) * val (countsOf i s).1 := by rw [← hval]; ring
    rw [this, cv, cs]
    -- termwise: sgn · j · d⁻¹ = j / (j − i)
    clear this hval hex hsign cv cs hl a5 hden
    induction (s.filter (· ≠ i)) with
    | nil => simp
    | cons j rest ih =>
      simp only [List.map_cons, List.prod_cons]
      rw [sub_eq_sgn_dist i j, div_eq_mul_inv, mul_inv]
      have hsq : ((sgn i j : Int) : ZMod N)⁻¹ = ((sgn i j : Int) : ZMod N) := by
        unfold sgn; split <;> simp
      rw [hsq, Int.cast_mul]
      have := ih
      calc ((sgn i j : Int) : ZMod N) * (((rest.map (fun (j : Nat) => sgn i j)).prod : Int) : ZMod N) *
            ((j : ZMod N) * ((dist i j : ℕ) : ZMod N)⁻¹ * (rest.map (fun (j : Nat) => (j : ZMod N) * ((dist i j : ℕ) : ZMod N)⁻¹)).prod)
          = ((j : ZMod N) * (((sgn i j : Int) : ZMod N) * ((dist i j : ℕ) : ZMod N)⁻¹)) *
            ((((rest.map (fun (j : Nat) => sgn i j)).prod : Int) : ZMod N) * (rest.map (fun (j : Nat) => (j : ZMod N) * ((dist i j : ℕ) : ZMod N)⁻¹)).prod) := by ring
        _ = _ := by rw [this]

/-- … hence, for distinct ids in 1..20, a returned table value is the interpolation coefficient `lagrangeAtZero` -/
theorem pre_is_lagrangeAtZero (i : Nat) (s : List Nat) (hn : s.Nodup) (hi1 : 1 ≤ i) (hi2 : i ≤ 20) (hs : ∀ j ∈ s, 1 ≤ j ∧ j ≤ 20)
    (r : Nat) (h : pre i s = some r) :
    ((r : ℕ) : ZMod N) = Frost.lagrangeAtZero (s.toFinset.image (Nat.cast : ℕ → ZMod N)) (i : ZMod N) := by
  have h20 : (20 : Nat) < N := by unfold N Generated.Frost.groupOrder; norm_num
  rw [pre_spec i s hi1 hi2 hs r h, ← generic_is_lagrangeAtZero i s hn (fun j hj => by have := (hs j hj).2; omega) (by omega)]
  rw [generic_spec i s (fun j hj hne h0 => hne (cast_inj_lt j i (by have := (hs j hj).2; omega) (by omega) (sub_eq_zero.mp h0)))]

/-! ### `checkLagrangeInput` and the dispatcher -/
theorem checkInput_go_spec (mid : Nat) (l seen : List Nat) (inList opt : Bool) (o : Bool) (h : checkInput.go mid l seen inList opt = (o, LErr.ok)) :
    l.Nodup ∧ (∀ x ∈ l, x ∉ seen) ∧ (inList = true ∨ mid ∈ l) ∧ (o = true → opt = true ∧ ∀ x ∈ l, x ≤ 20) := by
  induction l generalizing seen inList opt with
  | nil =>
    simp only [checkInput.go] at h
    split at h
    · rename_i hin
      simp only [Prod.mk.injEq, and_true] at h
      exact ⟨List.nodup_nil, by simp, Or.inl hin, fun ho => ⟨by rw [h]; exact ho, by simp⟩⟩
    · simp at h
  | cons id rest ih =>
    simp only [checkInput.go] at h
    split at h
    · simp at h
    · rename_i hns
      obtain ⟨i1, i2, i3, i4⟩ := ih (id :: seen) (inList || id == mid) (opt && decide (id ≤ 20)) h
      refine ⟨List.nodup_cons.mpr ⟨fun hm => (i2 id hm) (List.mem_cons_self ..), i1⟩, ?_, ?_, ?_⟩
      · intro x hx
        rcases List.mem_cons.mp hx with rfl | hx'
        · exact hns
        · exact fun hs => (i2 x hx') (List.mem_cons_of_mem _ hs)
      · rcases i3 with h' | h'
        · simp only [Bool.or_eq_true, beq_iff_eq] at h'
          rcases h' with h' | h'
          · exact Or.inl h'
          · exact Or.inr (by rw [← h']; exact List.mem_cons_self ..)
        · exact Or.inr (List.mem_cons_of_mem _ h')
      · intro ho
        obtain ⟨q1, q2⟩ := i4 ho
        simp only [Bool.and_eq_true, decide_eq_true_eq] at q1
        exact ⟨q1.1, fun x hx => by
          rcases List.mem_cons.mp hx with rfl | hx'
          · exact q1.2
          · exact q2 x hx'⟩

/-- PROPERTY (the dispatcher `ComputeLagrangeCoefficient`): whenever it returns a value without error — for member ids that
    are positive and below the group order — that value is the Lagrange coefficient at 0 of `mid` within the member set:
    proved outright for the generic routine, and for the table routine whenever it returns -/
theorem coefficient_is_lagrangeAtZero (mid : Nat) (l : List Nat) (hpos : ∀ j ∈ l, 1 ≤ j ∧ j < N) (r : Nat)
    (h : coefficient mid l = (some r, LErr.ok)) :
    l.Nodup ∧ mid ∈ l ∧ ((r : ℕ) : ZMod N) = Frost.lagrangeAtZero (l.toFinset.image (Nat.cast : ℕ → ZMod N)) (mid : ZMod N) := by
  unfold coefficient at h
  cases hc : checkInput mid l with
  | mk o e =>
    rw [hc] at h
    cases e with
    | duplicate => simp at h
    | notInList => simp at h
    | ok =>
      unfold checkInput at hc
      obtain ⟨c1, _, c3, c4⟩ := checkInput_go_spec mid l [] false true o hc
      have hmem : mid ∈ l := by rcases c3 with h' | h'; exact absurd h' (by simp); exact h'
      refine ⟨c1, hmem, ?_⟩
      cases o with
      | true =>
        simp only [Prod.mk.injEq, and_true] at h
        obtain ⟨_, hle⟩ := c4 rfl
        exact pre_is_lagrangeAtZero mid l c1 (hpos mid hmem).1 (hle mid hmem) (fun j hj => ⟨(hpos j hj).1, hle j hj⟩) r h
      | false =>
        simp only [Prod.mk.injEq, Option.some.injEq, and_true] at h
        rw [← h]
        exact generic_is_lagrangeAtZero mid l c1 (fun j hj => (hpos j hj).2) (hpos mid hmem).2

end BandVerif.Lagrange
