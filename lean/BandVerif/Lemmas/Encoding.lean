/- Lemmas for C11: big-endian words, reading words/bytes at offsets. -/
import BandVerif.Model.SigningMsg

namespace BandVerif.Enc

@[simp] theorem beN_length (k n : Nat) : (beN k n).length = k := by
  induction k generalizing n with
  | zero => rfl
  | succ k ih => simp [beN, ih]

theorem fromBE_append_single (l : Bytes) (b : Nat) : fromBE (l ++ [b]) = fromBE l * 256 + b := by
  simp [fromBE, List.foldl_append]

theorem fromBE_beN (k n : Nat) : fromBE (beN k n) = n % 256 ^ k := by
  induction k generalizing n with
  | zero => simp [beN, fromBE, Nat.mod_one]
  | succ k ih =>
    simp only [beN, fromBE_append_single, ih]
    rw [Nat.pow_succ, Nat.mul_comm (256 ^ k) 256, Nat.mod_mul, Nat.add_comm, Nat.mul_comm]

theorem beN_inj (k n m : Nat) (hn : n < 256 ^ k) (hm : m < 256 ^ k) (h : beN k n = beN k m) : n = m := by
  have := congrArg fromBE h
  rw [fromBE_beN, fromBE_beN, Nat.mod_eq_of_lt hn, Nat.mod_eq_of_lt hm] at this
  exact this

theorem be64_inj (n m : Nat) (hn : n < 2 ^ 64) (hm : m < 2 ^ 64) (h : be64 n = be64 m) : n = m :=
  beN_inj 8 n m (by simpa using hn) (by simpa using hm) h

@[simp] theorem be64_length (n : Nat) : (be64 n).length = 8 := beN_length 8 n
@[simp] theorem word_length (n : Nat) : (word n).length = 32 := beN_length 32 n
@[simp] theorem wordInt_length (i : Int) : (wordInt i).length = 32 := word_length _

theorem fromBE_word (n : Nat) (h : n < 2 ^ 256) : fromBE (word n) = n := by
  unfold word; rw [fromBE_beN]; exact Nat.mod_eq_of_lt (by simpa using h)

/-- a signed 256-bit word reads back -/
theorem toInt256_wordInt (i : Int) (hlo : -(2 ^ 255 : Int) ≤ i) (hhi : i < 2 ^ 255) :
    toInt256 (fromBE (wordInt i)) = i := by
  unfold wordInt toInt256 two256
  have hpos : (0 : Int) < ((2 ^ 256 : Nat) : Int) := by decide
  have hm : (0 : Int) ≤ i % ((2 ^ 256 : Nat) : Int) := Int.emod_nonneg _ (by decide)
  have hlt : i % ((2 ^ 256 : Nat) : Int) < ((2 ^ 256 : Nat) : Int) := Int.emod_lt_of_pos _ hpos
  have hnat : (i % ((2 ^ 256 : Nat) : Int)).toNat < 2 ^ 256 := by omega
  rw [fromBE_word _ hnat]
  by_cases hi : 0 ≤ i
  · have : i % ((2 ^ 256 : Nat) : Int) = i := Int.emod_eq_of_lt hi (by omega)
    rw [this]
    have : i.toNat < 2 ^ 255 := by omega
    rw [if_pos this]; omega
  · have : i % ((2 ^ 256 : Nat) : Int) = i + ((2 ^ 256 : Nat) : Int) := by
      rw [← Int.add_emod_right]; exact Int.emod_eq_of_lt (by omega) (by omega)
    rw [this]
    have : ¬ (i + ((2 ^ 256 : Nat) : Int)).toNat < 2 ^ 255 := by omega
    rw [if_neg this]; omega

/-! reading at an offset -/
theorem rdWord_at (pre post : Bytes) (n off : Nat) (h : pre.length = off) (hn : n < 2 ^ 256) :
    rdWord (pre ++ word n ++ post) off = some n := by
  unfold rdWord
  have hl : off + 32 ≤ (pre ++ word n ++ post).length := by simp [h]
  rw [if_pos hl]
  congr 1
  rw [List.append_assoc, List.drop_left' h, List.take_left' (word_length n)]
  exact fromBE_word n hn

theorem rdWord_at_raw (pre w post : Bytes) (off : Nat) (h : pre.length = off) (hw : w.length = 32) :
    rdWord (pre ++ w ++ post) off = some (fromBE w) := by
  unfold rdWord
  have hl : off + 32 ≤ (pre ++ w ++ post).length := by simp [h, hw]
  rw [if_pos hl]
  congr 1
  rw [List.append_assoc, List.drop_left' h, List.take_left' hw]

theorem encBytes_length (bs : Bytes) : (encBytes bs).length = encBytesLen bs.length := by
  simp [encBytes, encBytesLen]; omega

theorem rdBytes_at (pre post bs : Bytes) (off : Nat) (h : pre.length = off) (hn : bs.length < 2 ^ 256) :
    rdBytes (pre ++ encBytes bs ++ post) off = some bs := by
  unfold rdBytes encBytes
  have e : pre ++ (word bs.length ++ bs ++ List.replicate (padLen bs.length) 0) ++ post =
      pre ++ word bs.length ++ (bs ++ List.replicate (padLen bs.length) 0 ++ post) := by simp [List.append_assoc]
  rw [e, rdWord_at pre _ bs.length off h hn]
  simp only []
  have hl : off + 32 + bs.length ≤ (pre ++ word bs.length ++ (bs ++ List.replicate (padLen bs.length) 0 ++ post)).length := by
    simp [h]; omega
  rw [if_pos hl]
  congr 1
  have hp : (pre ++ word bs.length).length = off + 32 := by simp [h]
  rw [List.drop_left' hp, List.append_assoc, List.take_left' rfl]

end BandVerif.Enc

namespace BandVerif.Enc

def WFPrice (p : RelayPrice) : Prop := p.sid.length = 32 ∧ p.price < 2 ^ 256

theorem encPriceElems_length (ps : List RelayPrice) (h : ∀ p ∈ ps, WFPrice p) : (encPriceElems ps).length = 64 * ps.length := by
  induction ps with
  | nil => rfl
  | cons p rest ih =>
    have hp := h p (List.mem_cons_self ..)
    simp only [encPriceElems, List.length_append, hp.1, word_length, List.length_cons, ih (fun q hq => h q (List.mem_cons_of_mem _ hq))]
    omega

theorem rdPriceElems_at (ps : List RelayPrice) (pre post : Bytes) (off : Nat) (h : pre.length = off) (hw : ∀ p ∈ ps, WFPrice p) :
    rdPriceElems (pre ++ encPriceElems ps ++ post) off ps.length = some ps := by
  induction ps generalizing pre off with
  | nil => rfl
  | cons p rest ih =>
    have hp := hw p (List.mem_cons_self ..)
    have hrest : ∀ q ∈ rest, WFPrice q := fun q hq => hw q (List.mem_cons_of_mem _ hq)
    simp only [List.length_cons, rdPriceElems, encPriceElems]
    have hl : off + 64 ≤ (pre ++ (p.sid ++ word p.price ++ encPriceElems rest) ++ post).length := by
      simp [h, hp.1]; omega
    rw [if_pos hl]
    have e : pre ++ (p.sid ++ word p.price ++ encPriceElems rest) ++ post = (pre ++ p.sid ++ word p.price) ++ encPriceElems rest ++ post := by
      simp [List.append_assoc]
    have hpre' : (pre ++ p.sid ++ word p.price).length = off + 64 := by simp [h, hp.1]
    rw [e, ih (pre ++ p.sid ++ word p.price) (off + 64) hpre' hrest]
    simp only []
    congr 2
    have e1 : (pre ++ p.sid ++ word p.price ++ encPriceElems rest ++ post) = pre ++ (p.sid ++ (word p.price ++ encPriceElems rest ++ post)) := by
      simp [List.append_assoc]
    have e2 : (pre ++ p.sid ++ word p.price ++ encPriceElems rest ++ post) = (pre ++ p.sid) ++ (word p.price ++ (encPriceElems rest ++ post)) := by
      simp [List.append_assoc]
    have s1 : List.take 32 (List.drop off (pre ++ p.sid ++ word p.price ++ encPriceElems rest ++ post)) = p.sid := by
      rw [e1, List.drop_left' h, List.take_left' hp.1]
    have s2 : fromBE (List.take 32 (List.drop (off + 32) (pre ++ p.sid ++ word p.price ++ encPriceElems rest ++ post))) = p.price := by
      rw [e2, List.drop_left' (by simp [h, hp.1]), List.take_left' (word_length _)]
      exact fromBE_word _ hp.2
    rw [s1, s2]

theorem rdPriceArray_at (ps : List RelayPrice) (pre post : Bytes) (off : Nat) (h : pre.length = off) (hw : ∀ p ∈ ps, WFPrice p)
    (hn : ps.length < 2 ^ 256) :
    rdPriceArray (pre ++ encPriceArray ps ++ post) off = some ps := by
  unfold rdPriceArray encPriceArray
  have e : pre ++ (word ps.length ++ encPriceElems ps) ++ post = pre ++ word ps.length ++ (encPriceElems ps ++ post) := by simp [List.append_assoc]
  rw [e, rdWord_at pre _ ps.length off h hn]
  simp only []
  have e2 : pre ++ word ps.length ++ (encPriceElems ps ++ post) = (pre ++ word ps.length) ++ encPriceElems ps ++ post := by simp [List.append_assoc]
  rw [e2]
  exact rdPriceElems_at ps (pre ++ word ps.length) post (off + 32) (by simp [h]) hw

end BandVerif.Enc
