/-
C04 model — distributed key generation of x/tss.
 * algebra (against the operations record of Model/Frost.lean): commitment accumulation, polynomial evaluation of
   commitments (`solvePointPolynomial`, Horner), the derived group / member public keys, `VerifySecretShare`,
   the complaint check (`VerifyComplaintSignature` = two Schnorr equations, then the decrypted share must FAIL
   the commitment check);
 * state machine of one group: round 1 / 2 / 3 messages (`SubmitDKGRound1/2`, `Complain`, `Confirm`), the group
   end-blocker, expiry.  Outcomes of signature checks enter as booleans (the driver computes them).
Core-only.
-/
import BandVerif.Model.Frost

namespace BandVerif.Dkg
open BandVerif.Frost

variable {S G : Type}

/-! ### algebra -/
/-- `solvePointPolynomial`: Σ commits[k]·x^k by Horner from the top coefficient -/
def evalCommits (o : Ops S G) (commits : List G) (x : S) : G :=
  commits.foldr (fun c acc => o.gadd c (o.act x acc)) o.zeroG

/-- `AddCoefficientCommits`: pointwise accumulation (an absent accumulated entry is taken as the new commit) -/
def addCommits (o : Ops S G) : List G → List G → List G
  | acc, [] => acc
  | [], c :: cs => c :: addCommits o [] cs
  | a :: as, c :: cs => o.gadd c a :: addCommits o as cs

/-- `VerifySecretShare`: share·G = Σ commits[k]·mid^k -/
def verifySecretShare [DecidableEq G] (o : Ops S G) (mid : S) (share : S) (commits : List G) : Bool :=
  decide (o.act share o.base = evalCommits o commits mid)

/-- `schnorr.Verify` with an explicit generator -/
def schnorrVerifyGen [DecidableEq G] (o : Ops S G) (gen expectR : G) (s c : S) (Q : G) : Bool :=
  let R' := o.gadd (o.act s gen) (o.gneg (o.act c Q))
  decide (R' ≠ o.zeroG) && decide (R' = expectR)

/-- `VerifyComplaintSignature`: a1 = z·G − c·PubI and a2 = z·PubJ − c·keySym -/
def complaintSigOk [DecidableEq G] (o : Ops S G) (a1 a2 : G) (z c : S) (pubI pubJ keySym : G) : Bool :=
  schnorrVerifyGen o o.base a1 z c pubI && schnorrVerifyGen o pubJ a2 z c keySym

/-- `tss.VerifyComplaint`: the complaint is upheld iff its signature is valid and the share, decrypted under the
    disclosed symmetric key, does NOT match the dealer's commitments -/
def complaintUpheld [DecidableEq G] (o : Ops S G) (a1 a2 : G) (z c : S) (pubI pubJ keySym : G) (midI decrypted : S) (commitsJ : List G) : Bool :=
  complaintSigOk o a1 a2 z c pubI pubJ keySym && !verifySecretShare o midI decrypted commitsJ

/-- `FindMemberSlot(from, to)`: position of `to` among the n−1 shares `from` deals (ids 1..n without `from`) -/
def findMemberSlot (from_ to : Nat) : Nat := if from_ < to then to - 1 - 1 else to - 1

/-! ### state machine -/
inductive Status | round1 | round2 | round3 | active | fallen | expired
  deriving DecidableEq, Repr

structure Member where
  r1 : Bool := false
  r2 : Bool := false
  confirmed : Bool := false
  complained : Bool := false
  malicious : Bool := false
  deriving DecidableEq, Repr

structure Group where
  n : Nat
  t : Nat
  status : Status := .round1
  members : Nat → Member := fun _ => {}
  r1count : Nat := 0
  r2count : Nat := 0
  ccount : Nat := 0
  queued : Nat := 0            -- how many times the group sits in the pending-process list
  createdHeight : Int := 0
  interim : Bool := true       -- DKG interim data still stored
  subs3 : List Nat := []       -- ghost: members whose round-3 message (confirm or complain) was accepted, in order

inductive Err
  | ok | invalidStatus | memberNotAuthorized | alreadySubmit | invalidLengthCoeffCommits | oneTimeSigFailed | a0SigFailed
  | invalidLengthShares | confirmFailed | memberNotFound
  deriving DecidableEq, Repr

def inRange (g : Group) (i : Nat) : Bool := decide (1 ≤ i ∧ i ≤ g.n)

def setMember (g : Group) (i : Nat) (m : Member) : Group := { g with members := fun j => if j = i then m else g.members j }
def enqueueIf (g : Group) (c : Bool) : Group := if c then { g with queued := g.queued + 1 } else g

def submitR1 (g : Group) (mid : Nat) (senderOk : Bool) (commitsLen : Nat) (oneTimeOk a0Ok : Bool) : Group × Err :=
  if g.status ≠ .round1 then (g, .invalidStatus)
  else if !(senderOk && inRange g mid) then (g, .memberNotAuthorized)
  else if (g.members mid).r1 then (g, .alreadySubmit)
  else if commitsLen ≠ g.t then (g, .invalidLengthCoeffCommits)
  else if !oneTimeOk then (g, .oneTimeSigFailed)
  else if !a0Ok then (g, .a0SigFailed)
  else
    let g1 := { setMember g mid { g.members mid with r1 := true } with r1count := g.r1count + 1 }
    (enqueueIf g1 (g1.r1count == g.n), .ok)

def submitR2 (g : Group) (mid : Nat) (senderOk : Bool) (sharesLen : Nat) : Group × Err :=
  if g.status ≠ .round2 then (g, .invalidStatus)
  else if !(senderOk && inRange g mid) then (g, .memberNotAuthorized)
  else if (g.members mid).r2 then (g, .alreadySubmit)
  else if sharesLen ≠ g.n - 1 then (g, .invalidLengthShares)
  else
    let g1 := { setMember g mid { g.members mid with r2 := true } with r2count := g.r2count + 1 }
    (enqueueIf g1 (g1.r2count == g.n), .ok)

/-- `ProcessComplaint`: each complaint marks the respondent when upheld, otherwise the complainant -/
def processComplaints (g : Group) : List (Nat × Nat × Bool) → Group
  | [] => g
  | (complainant, respondent, upheld) :: rest =>
    let who := if upheld && inRange g respondent then respondent else complainant
    processComplaints (setMember g who { g.members who with malicious := true }) rest

def complain (g : Group) (senderOk : Bool) (cs : List (Nat × Nat × Bool)) : Group × Err :=
  match cs with
  | [] => (g, .memberNotAuthorized)
  | (mid, _, _) :: _ =>
    if g.status ≠ .round3 then (g, .invalidStatus)
    else if !(senderOk && inRange g mid) then (g, .memberNotAuthorized)
    else if (g.members mid).confirmed then (g, .alreadySubmit)
    else if (g.members mid).complained then (g, .alreadySubmit)
    else
      let g1 := processComplaints g cs
      let g2 := { setMember g1 mid { g1.members mid with complained := true } with ccount := g1.ccount + 1, subs3 := g1.subs3 ++ [mid] }
      (enqueueIf g2 (g2.ccount == g.n), .ok)

def confirm (g : Group) (mid : Nat) (senderOk sigOk : Bool) : Group × Err :=
  if g.status ≠ .round3 then (g, .invalidStatus)
  else if !(senderOk && inRange g mid) then (g, .memberNotAuthorized)
  else if (g.members mid).confirmed then (g, .alreadySubmit)
  else if (g.members mid).complained then (g, .alreadySubmit)
  else if !sigOk then (g, .confirmFailed)
  else
    let g1 := { setMember g mid { g.members mid with confirmed := true } with ccount := g.ccount + 1, subs3 := g.subs3 ++ [mid] }
    (enqueueIf g1 (g1.ccount == g.n), .ok)

def anyMalicious (g : Group) : Bool := (List.range g.n).any fun i => (g.members (i + 1)).malicious

/-- `HandleProcessGroup`, once per queued entry -/
def processOnce (g : Group) : Group :=
  match g.status with
  | .round1 => { g with status := .round2 }
  | .round2 => { g with status := .round3 }
  | .round3 => if anyMalicious g then { g with status := .fallen } else { g with status := .active }
  | _ => g

def processQueued : Nat → Group → Group
  | 0, g => g
  | k + 1, g => processQueued k (processOnce g)

/-- the tss group end-blocker for this group: process the queue, then expiry (`HandleExpiredGroups` reaches the
    group when all earlier groups are past their creation period too: `reachable`) -/
def endBlock (g : Group) (height creationPeriod : Int) (reachable : Bool) : Group :=
  let g1 := { processQueued g.queued g with queued := 0 }
  if reachable && g1.interim && decide (g1.createdHeight + creationPeriod ≤ height) then
    let g2 := if g1.status ≠ .active ∧ g1.status ≠ .fallen then { g1 with status := .expired } else g1
    { g2 with interim := false }
  else g1

/-! ### the expiry walk over ALL groups (`HandleExpiredGroups`) -/

/-- what the walk does to one group it reaches: interim data deleted; EXPIRED unless the creation already ended -/
def expireOne (g : Group) : Group :=
  { (if g.status ≠ .active ∧ g.status ≠ .fallen then { g with status := .expired } else g) with interim := false }

def due (period height : Int) (g : Group) : Bool := decide (g.createdHeight + period ≤ height)

/-- the groups `lastExpired+1 …` in id order: every due group is processed until the first one that is not due; returns the
    groups afterwards and how many were processed (the new `lastExpired` is the old one plus that number) -/
def expireWalk (period height : Int) : List Group → List Group × Nat
  | [] => ([], 0)
  | g :: rest =>
    if due period height g then
      let r := expireWalk period height rest
      (expireOne g :: r.1, r.2 + 1)
    else (g :: rest, 0)

end BandVerif.Dkg
