/-
C08 model — x/tunnel packet production: calculateDeviationBPS, GenerateNewPrices, ProducePacket,
ProduceActiveTunnelPacket (fund check → deactivate, else the whole production in a cache context that
is written only on success), MsgTriggerTunnel.  The route (`SendPacket`: bandtss signing request or an
IBC send) is an input: `routeOk = false` means it returned an error / panicked.  Core-only.
-/
namespace BandVerif.Tunnel

structure Price where
  sid : String
  status : Nat
  price : Nat
  ts : Int
  deriving DecidableEq, Repr, Inhabited

structure SD where
  sid : String
  soft : Nat
  hard : Nat
  deriving DecidableEq, Repr

def maxInt64 : Nat := 9223372036854775807
def statusNotInCurrentFeeds : Nat := 4

/-- calculateDeviationBPS -/
def deviationBPS (old new : Nat) : Nat :=
  if new = old then 0 else if old = 0 then maxInt64 else (if new ≥ old then new - old else old - new) * 10000 / old

def lookup (l : List Price) (sid : String) : Option Price := l.find? (·.sid == sid)

/-- CreatePricesMap keeps the LAST entry of a signal id -/
def lookupLast (l : List Price) (sid : String) : Option Price := lookup l.reverse sid

def genGo (latest feeds : List Price) (now : Int) (sendAll : Bool) : List SD → List Price × Bool
  | [] => ([], false)
  | sd :: rest =>
    let old := ((lookupLast latest sd.sid).map (·.price)).getD 0
    let fp := (lookupLast feeds sd.sid).getD { sid := sd.sid, status := statusNotInCurrentFeeds, price := 0, ts := now }
    let dev := deviationBPS old fp.price
    let (ps, send) := genGo latest feeds now sendAll rest
    if sendAll || decide (dev ≥ sd.hard) then (fp :: ps, true)
    else if dev ≥ sd.soft then (fp :: ps, send)
    else (ps, send)

/-- GenerateNewPrices -/
def generateNewPrices (sds : List SD) (latest feeds : List Price) (now : Int) (sendAll : Bool) : List Price :=
  let (ps, send) := genGo latest feeds now sendAll sds
  if send then ps else []

/-- LatestPrices.UpdatePrices -/
def updatePrices : List Price → List Price → List Price
  | l, [] => l
  | l, p :: rest =>
    if l.any (·.sid == p.sid) then updatePrices (l.map fun q => if q.sid == p.sid then p else q) rest
    else updatePrices (l ++ [p]) rest

structure T where
  creator : Nat
  isActive : Bool
  sequence : Nat
  interval : Nat
  sds : List SD
  latest : List Price
  lastInterval : Int
  isTSS : Bool
  packets : List (Nat × List Price)      -- (sequence, prices) of every stored packet, oldest first
  deriving Repr

structure State where
  tunnels : Nat → Option T
  payerBal : Nat → Nat          -- fee payer balance of tunnel id (single denom)
  baseFee : Nat
  routeFee : Nat                -- bandtss signing fee (TSS route); IBC route fee is 0
  totalBaseFees : Nat
  activeIdx : List Nat

def feeOf (s : State) (t : T) : Nat := s.baseFee + (if t.isTSS then s.routeFee else 0)

/-- CreatePacket + SendPacket + bookkeeping with the given prices; `none` when the route fails -/
def sendWith (s : State) (id : Nat) (t : T) (prices : List Price) (routeOk : Bool) (now : Int) (interval : Bool) : Option State :=
  if !routeOk then none
  else
    let t' : T := { t with sequence := t.sequence + 1, packets := t.packets ++ [(t.sequence + 1, prices)],
                           latest := updatePrices t.latest prices,
                           lastInterval := if interval then now else t.lastInterval }
    some { s with tunnels := fun i => if i = id then some t' else s.tunnels i,
                  payerBal := fun i => if i = id then s.payerBal id - feeOf s t else s.payerBal i,
                  totalBaseFees := s.totalBaseFees + s.baseFee }

def dueAll (t : T) (now : Int) : Bool := decide (now ≥ (t.interval : Int) + t.lastInterval)

def newPrices (t : T) (feeds : List Price) (now : Int) : List Price :=
  generateNewPrices t.sds t.latest feeds now (dueAll t now)

/-- MustDeactivateTunnel -/
def deactivate (s : State) (id : Nat) (t : T) : State :=
  { s with tunnels := fun i => if i = id then some { t with isActive := false } else s.tunnels i,
           activeIdx := s.activeIdx.filter (· ≠ id) }

/-- the cache-context part of ProduceActiveTunnelPacket: written only on success -/
def produceFunded (s : State) (id : Nat) (t : T) (feeds : List Price) (now : Int) (routeOk : Bool) : State × Bool :=
  if (newPrices t feeds now).isEmpty then (s, false)
  else match sendWith s id t (newPrices t feeds now) routeOk now (dueAll t now) with
    | some s' => (s', true)
    | none => (s, false)

/-- ProduceActiveTunnelPacket for one active tunnel; returns (state, produced?) -/
def produceActive (s : State) (id : Nat) (feeds : List Price) (now : Int) (routeOk : Bool) : State × Bool :=
  match s.tunnels id with
  | none => (s, false)
  | some t =>
    if s.payerBal id < feeOf s t then (deactivate s id t, false)
    else produceFunded s id t feeds now routeOk

/-- the tunnel end-blocker over the active ids (in index order) -/
def endBlock (feeds : List Price) (now : Int) (routeOk : Nat → Bool) : List Nat → State → State
  | [], s => s
  | id :: rest, s => endBlock feeds now routeOk rest (produceActive s id feeds now (routeOk id)).1

inductive TErr | ok | notFound | invalidCreator | inactive | insufficientFund | routeFailed
  deriving DecidableEq, Repr

/-- MsgTriggerTunnel: all signals of the tunnel, prices as GetPrices returns them -/
def trigger (s : State) (id sender : Nat) (prices : List Price) (routeOk : Bool) (now : Int) : State × TErr :=
  match s.tunnels id with
  | none => (s, .notFound)
  | some t =>
    if t.creator ≠ sender then (s, .invalidCreator)
    else if !t.isActive then (s, .inactive)
    else if s.payerBal id < feeOf s t then (s, .insufficientFund)
    else match sendWith s id t prices routeOk now true with
      | some s' => (s', .ok)
      | none => (s, .routeFailed)

end BandVerif.Tunnel
