/-
C11 model — from on-chain data to the signed bytes: relay-price conversion (fixed point / tick), the content
of each kind with its REGENERATED 4-byte tag, originators, and the final message.  Core-only.
-/
import BandVerif.Model.Encoding
import BandVerif.Model.Tick
import BandVerif.Generated.SigningEnc

namespace BandVerif.Enc
open BandVerif.Generated

/-- `ToRelayPrices` / `ToRelayTickPrices`: `none` when a signal id is longer than 32 bytes or the tick
    conversion fails -/
def toRelay (tick : Bool) : List (Bytes × Nat) → Option (List RelayPrice)
  | [] => some []
  | (sid, p) :: rest =>
    match stringToBytes32 sid with
    | none => none
    | some s32 =>
      let p' : Option Nat := if tick && p ≠ 0 then (Tick.priceToTick p).map Int.toNat else some p
      match p', toRelay tick rest with
      | some q, some r => some ({ sid := s32, price := q } :: r)
      | _, _ => none

/-- feeds / tunnel encoder enum: 1 = fixed point ABI, 2 = tick ABI -/
def encoderTag (encoder : Nat) : Option (Bytes × Bool) :=
  if encoder = 1 then some (SigningEnc.tagFixedPointABI, false)
  else if encoder = 2 then some (SigningEnc.tagTickABI, true)
  else none

/-- the content router's selector: first 4 bytes of Hash(route) (`wrapHandler`) -/
def selector (H : Bytes → Bytes) (route : Bytes) : Bytes := (H route).take 4

/-- feeds `EncodeTSS` -/
def feedsContent (encoder : Nat) (ps : List (Bytes × Nat)) (ts : Int) : Option Bytes :=
  match encoderTag encoder with
  | none => none
  | some (tag, tick) => (toRelay tick ps).map fun r => tag ++ encFeeds r ts

/-- tunnel `EncodeTSS` -/
def tunnelContent (encoder : Nat) (seq : Nat) (ps : List (Bytes × Nat)) (createdAt : Int) : Option Bytes :=
  match encoderTag encoder with
  | none => none
  | some (tag, tick) => (toRelay tick ps).map fun r => tag ++ encPacket seq r createdAt

/-- oracle handler: 1 = proto (bytes given), 2 = full ABI, 3 = partial ABI -/
def oracleContent (encoder : Nat) (r : OResult) (proto : Bytes) : Option Bytes :=
  if encoder = 1 then some (SigningEnc.tagProto ++ proto)
  else if encoder = 2 then some (SigningEnc.tagFullABI ++ encFull r)
  else if encoder = 3 then some (SigningEnc.tagPartialABI ++ encPartial r.partial)
  else none

def textOf (msg : Bytes) : Bytes := textContent SigningEnc.tagText msg
def transitionOf (pubKey : Bytes) (time : Nat) : Bytes := transitionContent SigningEnc.tagTransition pubKey time

inductive Originator
  | direct (o : Direct)
  | tunnel (o : TunnelO)

def Originator.encode (H : Bytes → Bytes) : Originator → Bytes
  | .direct o => directEncode H SigningEnc.tagDirectOriginator o
  | .tunnel o => tunnelEncode H SigningEnc.tagTunnelOriginator o

/-- the bytes the group signs; `content` is the handler output, prefixed by the route selector -/
def message (H : Bytes → Bytes) (o : Originator) (time sid : Nat) (route content : Bytes) : Bytes :=
  encodeSigning (H (o.encode H)) time sid (selector H route ++ content)

/-- content kinds and whether a user may request a signature over them (MsgRequestSignature) -/
inductive Kind | text | feeds | oracle | tunnel | transition
  deriving DecidableEq, Repr

def Kind.route : Kind → Bytes
  | .text => SigningEnc.routeText
  | .feeds => SigningEnc.routeFeeds
  | .oracle => SigningEnc.routeOracle
  | .tunnel => SigningEnc.routeTunnel
  | .transition => SigningEnc.routeTransition

def Kind.isInternal : Kind → Bool
  | .text => SigningEnc.internalText
  | .feeds => SigningEnc.internalFeeds
  | .oracle => SigningEnc.internalOracle
  | .tunnel => SigningEnc.internalTunnel
  | .transition => SigningEnc.internalTransition

/-- MsgRequestSignature's gate -/
def userMayRequest (k : Kind) : Bool := !(SigningEnc.userGuardBeforeCreate && k.isInternal)

end BandVerif.Enc
