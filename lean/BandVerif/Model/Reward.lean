/-
C14 model — block reward allocation, per denom, with cosmossdk.io/math LegacyDec semantics
(18 decimals, truncation) exactly as the Go code composes them:
  oracle  keeper.AllocateTokens (x/oracle/keeper/validator_status.go)
  bandtss keeper.AllocateTokens (x/bandtss/keeper/keeper_reward.go)
Amounts are `Int` so that a negative `Sub` (a Go panic) would be visible. Core-only.
-/
namespace BandVerif.Reward

def E18 : Int := 1000000000000000000

/-- `LegacyDec.MulTruncate` on raw 18-decimal integers (non-negative operands) -/
def mulTrunc (a b : Int) : Int := a * b / E18
/-- `LegacyDec.QuoTruncate` on raw 18-decimal integers -/
def quoTrunc (a b : Int) : Int := a * E18 / b
/-- `TruncateDecimal`: integer part of a raw 18-decimal value -/
def truncInt (a : Int) : Int := a / E18

structure OracleOut where
  transferred : Int          -- coins moved fee collector → distribution (integer coins)
  communityFund : Int        -- integer coins credited to the community pool
  rewards : List Int         -- per rewarded validator, raw 18-decimal DecCoin amounts
  remaining : Int            -- raw 18-decimal amount handed to the proposer
  deriving Repr, DecidableEq

/-- oracle AllocateTokens for one denom: `pool` = fee collector balance, `pct` = OracleRewardPercentage,
    `tax` = community tax (raw 18-decimal), `powers` = voting powers of the oracle-ACTIVE voters.
    `none` when nothing is done (no active voting power). -/
def oracleAlloc (pool pct tax : Int) (powers : List Int) : Option OracleOut :=
  let total := powers.sum
  if total = 0 then none else
  let ratio := pct * 10000000000000000                      -- LegacyNewDecWithPrec(pct, 2)
  let rewardInt := truncInt (mulTrunc (pool * E18) ratio)    -- MulDecTruncate(...).TruncateDecimal()
  let reward := rewardInt * E18                              -- NewDecCoinsFromCoins
  let cf := truncInt (mulTrunc reward tax)
  let reward' := reward - cf * E18
  let rs := powers.map fun p => mulTrunc reward' (quoTrunc (p * E18) (total * E18))
  some { transferred := rewardInt, communityFund := cf, rewards := rs, remaining := reward' - rs.sum }

structure TssOut where
  transferred : Int          -- integer coins moved fee collector → distribution
  perMember : Int            -- integer coins sent to each eligible member
  communityFund : Int        -- integer coins funded to the community pool
  deriving Repr, DecidableEq

/-- bandtss AllocateTokens for one denom; `n` = number of eligible (active, DE-non-empty) members -/
def tssAlloc (pool pct tax n : Int) : Option TssOut :=
  if n = 0 then none else
  let ratio := pct * 10000000000000000
  let rewardInt := truncInt (mulTrunc (pool * E18) ratio)
  let reward := rewardInt * E18
  let mult := E18 - tax
  let frac := quoTrunc E18 (n * E18)
  let per := truncInt (mulTrunc (mulTrunc reward mult) frac)
  some { transferred := rewardInt, perMember := per, communityFund := rewardInt - per * n }

end BandVerif.Reward
