/-
C19 model — yoda's handling of one oracle request (`handleRequest` / `handleRawRequests` / `handleRawRequest`) and the
chain's report validation (`MsgReportData.ValidateBasic`, `CheckValidReport`).  The node, the data-source files and the
executor are the environment.  Raw reports are collected in goroutine-completion order: any permutation.  Core-only.
-/
namespace BandVerif.Yoda

structure RawReq where
  eid : Nat
  dsid : Nat
  calldata : String
  deriving DecidableEq, Repr

structure RawRep where
  eid : Nat
  code : Nat
  data : String
  deriving DecidableEq, Repr

inductive Exec | ok (code : Nat) (output : String) | error
  deriving DecidableEq, Repr

structure Env where
  /-- `GetDataSourceHash`: file name of a data source, `none` when the node query fails -/
  hashOf : Nat → Option String
  /-- `GetExecutable` succeeds for this file (cache hit, or fetched from the node) -/
  loadable : String → Bool
  /-- outcome of the executor for a raw request -/
  exec : RawReq → Exec

def failToLoad : String := "FAIL_TO_LOAD_DATA_SOURCE"

/-- `handleRawRequest` -/
def rawReportOf (env : Env) (r : RawReq) (hash : String) : RawRep :=
  if !env.loadable hash then { eid := r.eid, code := 255, data := failToLoad }
  else match env.exec r with
    | .ok c o => { eid := r.eid, code := c, data := o }
    | .error => { eid := r.eid, code := 255, data := "" }

def hashesOf (env : Env) : List RawReq → Option (List String)
  | [] => some []
  | r :: rest =>
    match env.hashOf r.dsid, hashesOf env rest with
    | some h, some hs => some (h :: hs)
    | _, _ => none

def reportsOf (env : Env) : List RawReq → List String → List RawRep
  | r :: rs, h :: hs => rawReportOf env r h :: reportsOf env rs hs
  | _, _ => []

/-- `handleRequest`: `none` = nothing queued (not my request, or the request's metadata could not be read) -/
def handleRequest (env : Env) (me : Nat) (validators : List Nat) (raws : List RawReq) : Option (List RawRep) :=
  if me ∉ validators then none
  else match hashesOf env raws with
    | none => none
    | some hs => some (reportsOf env raws hs)

/-- `MsgReportData.ValidateBasic` (report part) -/
def validateBasic (reps : List RawRep) : Bool := !reps.isEmpty && decide (reps.map (·.eid)).Nodup

/-- `CheckValidReport` -/
def checkValid (me : Nat) (validators : List Nat) (alreadyReported : Bool) (raws : List RawReq) (reps : List RawRep) : Bool :=
  decide (me ∈ validators) && !alreadyReported && decide (reps.length = raws.length) &&
  reps.all fun rep => raws.any fun r => r.eid == rep.eid

end BandVerif.Yoda
