/-
C17 model — x/tunnel deposits and activation: CreateTunnel (initial deposit), DepositToTunnel,
WithdrawFromTunnel, Activate, Deactivate.  Coins are functions denom ↦ amount (sdk.Coins without
zero entries); `IsAllGTE` is pointwise ≥.  Core-only.
-/
namespace BandVerif.TunnelDeposit

abbrev Coins := String → Nat

structure Tunnel where
  creator : Nat
  isActive : Bool
  totalDeposit : Coins

structure State where
  tunnels : Nat → Option Tunnel
  deposits : Nat → Nat → Option Coins     -- (tunnel id, depositor) ↦ recorded deposit (absent when zero)
  activeIdx : List Nat                    -- the active-tunnel-id index (iterated by the end-blocker)
  count : Nat
  bal : Nat → Coins
  moduleBal : Coins
  minDeposit : Coins
  denoms : List String                    -- all denoms in play
  accts : List Nat                        -- all accounts in play (no duplicates)

inductive Err
  | ok | tunnelNotFound | invalidDenom | insufficientFunds | depositNotFound | insufficientDeposit
  | invalidCreator | alreadyActive | alreadyInactive
  deriving DecidableEq, Repr

def geAll (s : State) (a b : Coins) : Bool := s.denoms.all fun d => decide (b d ≤ a d)
def isZero (s : State) (a : Coins) : Bool := s.denoms.all fun d => a d == 0
def addC (a b : Coins) : Coins := fun d => a d + b d
def subC (a b : Coins) : Coins := fun d => a d - b d
/-- accepted denoms = the denoms of MinDeposit -/
def acceptedDenoms (s : State) (amt : Coins) : Bool := s.denoms.all fun d => amt d == 0 || s.minDeposit d != 0

def setTunnel (s : State) (id : Nat) (t : Tunnel) : State :=
  { s with tunnels := fun i => if i = id then some t else s.tunnels i }

/-- Keeper.DepositToTunnel -/
def depositOp (s : State) (tid acct : Nat) (amt : Coins) : State × Err :=
  match s.tunnels tid with
  | none => (s, .tunnelNotFound)
  | some t =>
    if !acceptedDenoms s amt then (s, .invalidDenom)
    else if !geAll s (s.bal acct) amt then (s, .insufficientFunds)
    else
      let dep := match s.deposits tid acct with
        | none => amt
        | some d => addC d amt
      ({ (setTunnel s tid { t with totalDeposit := addC t.totalDeposit amt }) with
          bal := fun a => if a = acct then subC (s.bal acct) amt else s.bal a,
          moduleBal := addC s.moduleBal amt,
          deposits := fun i a => if i = tid ∧ a = acct then some dep else s.deposits i a }, .ok)

def insertSorted (l : List Nat) (x : Nat) : List Nat := if x ∈ l then l else (l ++ [x]).mergeSort (fun a b => decide (a ≤ b))

/-- Keeper.ActivateTunnel -/
def activateTunnel (s : State) (tid : Nat) : State × Err :=
  match s.tunnels tid with
  | none => (s, .tunnelNotFound)
  | some t =>
    if !geAll s t.totalDeposit s.minDeposit then (s, .insufficientDeposit)
    else ({ (setTunnel s tid { t with isActive := true }) with activeIdx := insertSorted s.activeIdx tid }, .ok)

/-- Keeper.DeactivateTunnel -/
def deactivateTunnel (s : State) (tid : Nat) : State :=
  match s.tunnels tid with
  | none => s
  | some t => { (setTunnel s tid { t with isActive := false }) with activeIdx := s.activeIdx.filter (· ≠ tid) }

/-- the state after the transfer and the two record updates of WithdrawFromTunnel (before the
    possible deactivation) -/
def withdrawn (s : State) (tid acct : Nat) (amt : Coins) (t : Tunnel) (d : Coins) : State :=
  { (setTunnel s tid { t with totalDeposit := subC t.totalDeposit amt }) with
    bal := fun a => if a = acct then addC (s.bal acct) amt else s.bal a,
    moduleBal := subC s.moduleBal amt,
    deposits := fun i a => if i = tid ∧ a = acct then (if isZero s (subC d amt) then none else some (subC d amt)) else s.deposits i a }

/-- Keeper.WithdrawFromTunnel -/
def withdrawOp (s : State) (tid acct : Nat) (amt : Coins) : State × Err :=
  match s.tunnels tid with
  | none => (s, .tunnelNotFound)
  | some t =>
    match s.deposits tid acct with
    | none => (s, .depositNotFound)
    | some d =>
      if !geAll s d amt then (s, .insufficientDeposit)
      else if t.isActive && !geAll s (subC t.totalDeposit amt) s.minDeposit
      then (deactivateTunnel (withdrawn s tid acct amt t d) tid, .ok)
      else (withdrawn s tid acct amt t d, .ok)

/-- MsgCreateTunnel: new id, inactive, zero deposit; then the optional initial deposit
    (the whole message is atomic: a failing deposit reverts the creation) -/
def createOp (s : State) (creator : Nat) (initial : Coins) : State × Err :=
  let id := s.count + 1
  let s1 := { (setTunnel s id { creator := creator, isActive := false, totalDeposit := fun _ => 0 }) with count := id }
  if isZero s initial then (s1, .ok)
  else match depositOp s1 id creator initial with
    | (s2, .ok) => (s2, .ok)
    | (_, e) => (s, e)

/-- MsgActivate -/
def activateOp (s : State) (tid sender : Nat) : State × Err :=
  match s.tunnels tid with
  | none => (s, .tunnelNotFound)
  | some t =>
    if t.creator ≠ sender then (s, .invalidCreator)
    else if t.isActive then (s, .alreadyActive)
    else activateTunnel s tid

/-- MsgDeactivate -/
def deactivateOp (s : State) (tid sender : Nat) : State × Err :=
  match s.tunnels tid with
  | none => (s, .tunnelNotFound)
  | some t =>
    if t.creator ≠ sender then (s, .invalidCreator)
    else if !t.isActive then (s, .alreadyInactive)
    else (deactivateTunnel s tid, .ok)

/-! ### genesis: the deposit clauses of `types.ValidateGenesis` -/

/-- every deposit record names an existing tunnel, no (tunnel, depositor) pair occurs twice, and every tunnel's total deposit
    equals the sum of its deposit records in every denom (amounts are vectors over the `nd` denoms in play) -/
def genesisDepositsOk (nd : Nat) (tunnels : List (Nat × List Nat)) (deps : List (Nat × Nat × List Nat)) : Bool :=
  deps.all (fun d => tunnels.any (·.1 == d.1)) &&
  decide ((deps.map fun d => (d.1, d.2.1)).Nodup) &&
  tunnels.all fun t => (List.range nd).all fun k =>
    t.2.getD k 0 == (deps.filter (·.1 == t.1)).foldl (fun acc d => acc + d.2.2.getD k 0) 0

/-- the tunnel clauses of `ValidateGenesis`: as many tunnels as the counter says, every id within the counter (the next
    created tunnel takes id counter + 1), no id twice -/
def genesisTunnelsOk (count : Nat) (ids : List Nat) : Bool :=
  ids.length == count && ids.all (fun i => decide (i ≤ count)) && decide ids.Nodup

/-- the escrow clause of `InitGenesis`: the tunnel module account holds EXACTLY the imported deposits plus the fees
    (per denom); otherwise the import panics -/
def importBacked (escrowed balance : List Nat) : Bool := escrowed == balance

end BandVerif.TunnelDeposit
