/-
C09 model — pkg/bandrng sampling (ChooseOne / ChooseSome / ChooseSomeMaxWeight) and the partial
Fisher–Yates of tss GetRandomMembers, over an abstract stream of 64-bit draws `rand : Nat → Nat`
(the i-th NextUint64).  `none` models a Go panic.  Core-only.
-/
namespace BandVerif.Sampling

def two64 : Nat := 18446744073709551616

/-- `safeAdd`-accumulated sum: `none` = overflow panic -/
def safeSum : List Nat → Nat → Option Nat
  | [], acc => some acc
  | w :: rest, acc => if two64 - 1 - acc < w then none else safeSum rest (acc + w)

/-- the index scan of ChooseOne: first index whose running sum exceeds the lucky number -/
def pick : List Nat → Nat → Nat → Nat → Option Nat
  | [], _, _, _ => none          -- "reaching the unreachable" panic
  | w :: rest, lucky, idx, cum => if cum + w > lucky then some idx else pick rest lucky (idx + 1) (cum + w)

/-- ChooseOne with the draw `x`; `none` = panic (overflowing sum, zero sum ⇒ `% 0`, or unreachable) -/
def chooseOne (ws : List Nat) (x : Nat) : Option Nat :=
  match safeSum ws 0 with
  | none => none
  | some 0 => none
  | some s => pick ws (x % s) 0 0

/-- ChooseSome: `cnt` rounds, the chosen slot is removed from both parallel slices -/
def chooseSome : Nat → List Nat → List Nat → (Nat → Nat) → Nat → Option (List Nat)
  | 0, _, _, _, _ => some []
  | cnt + 1, availW, availI, rand, pos =>
    match chooseOne availW (rand pos) with
    | none => none
    | some c =>
      match availI[c]? with
      | none => none
      | some i =>
        match chooseSome cnt (availW.eraseIdx c) (availI.eraseIdx c) rand (pos + 1) with
        | none => none
        | some l => some (i :: l)

def weightSum (ws : List Nat) (idxs : List Nat) : Nat :=
  (idxs.foldl (fun acc i => acc + ws.getD i 0) 0) % two64

/-- ChooseSomeMaxWeight: `tries` samplings, keep the first one with the strictly largest weight sum -/
def maxWeightGo (ws : List Nat) (cnt : Nat) (rand : Nat → Nat) :
    Nat → Nat → Nat → List Nat → Option (List Nat)
  | 0, _, _, best => some best
  | tries + 1, each, bestSum, best =>
    match chooseSome cnt ws (List.range ws.length) rand (each * cnt) with
    | none => none
    | some cand =>
      let s := weightSum ws cand
      if s > bestSum then maxWeightGo ws cnt rand tries (each + 1) s cand
      else maxWeightGo ws cnt rand tries (each + 1) bestSum best

def chooseSomeMaxWeight (ws : List Nat) (cnt tries : Nat) (rand : Nat → Nat) : Option (List Nat) :=
  maxWeightGo ws cnt rand tries 0 0 []

/-- one round of the selection loop of GetRandomMembers on the live slots (`memberIdx[0 .. size-i)`):
    `r < live`; the chosen slot is read, the last live slot is moved into it and the live range
    shrinks by one.  Returns (chosen, new live slots). -/
def swapRemove (slots : List Nat) (r : Nat) : Nat × List Nat :=
  let init := slots.dropLast
  let last := slots.getLastD 0
  if r = init.length then (last, init) else (init.getD r 0, init.set r last)

/-- the selection loop: draw modulo the shrinking live size -/
def fisherYates : Nat → List Nat → (Nat → Nat) → Nat → List Nat
  | 0, _, _, _ => []
  | k + 1, slots, rand, pos =>
    if slots.length = 0 then [] else
    let (chosen, slots') := swapRemove slots (rand pos % slots.length)
    chosen :: fisherYates k slots' rand (pos + 1)

/-- GetRandomMembers on `n` available members: error when `threshold > n`, else `threshold`
    positions (into the available list); the caller sorts the selected members by id. -/
def randomPositions (n threshold : Nat) (rand : Nat → Nat) : Option (List Nat) :=
  if threshold > n then none else some (fisherYates threshold (List.range n) rand 0)

end BandVerif.Sampling
