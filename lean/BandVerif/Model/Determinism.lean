/- C02 model: block execution as a function of (previous state, block), with the one source of in-process
   nondeterminism that Go offers to consensus code — the visiting order of `range` over a map — made explicit.

   A Go map observed through `range` is a `Visit`: its entries in the order this particular execution happens to
   visit them.  A `Sched` is what an execution does to the canonical entry list of a map; it is `Valid` when it only
   permutes.  Every handler that ranges over a map receives the schedule; determinism is the statement that its
   result does not depend on which valid schedule it got.  Core Lean only (shared with the driver). -/
namespace BandVerif.Det

abbrev Visit (K V : Type) := List (K × V)

/-- what an execution does to the entries of a map it ranges over -/
structure Sched where
  perm : ∀ {K V : Type}, Visit K V → Visit K V

def Sched.Valid (o : Sched) : Prop := ∀ {K V : Type} (v : Visit K V), (o.perm v).Perm v

/-- the identity schedule -/
def Sched.id : Sched := ⟨fun v => v⟩
/-- another valid schedule (used for non-vacuity) -/
def Sched.rev : Sched := ⟨fun v => v.reverse⟩

/-! ### the four ways the code base uses a map range (classes of `DeterminismSrc.Cls`) -/

/-- `for k := range m { keys = append(keys, k) }; sort.Strings(keys)` -/
def sortedKeys {K V : Type} (le : K → K → Bool) (v : Visit K V) : List K := (v.map (·.1)).mergeSort le

/-- … followed by `for _, k := range keys { body }` where the body may return an error (feeds `Vote`) -/
def runSorted {K V σ ε : Type} (le : K → K → Bool) (body : σ → K → Except ε σ) (init : σ) (v : Visit K V) : Except ε σ :=
  (sortedKeys le v).foldlM body init

/-- `for k, x := range m { if bad(k, x) { return err } }` observed as error / no error -/
def existsCheck {K V : Type} (bad : K × V → Bool) (v : Visit K V) : Bool := v.any bad

/-- `for k := range m { out[f(k)] = true }` observed as the membership function of `out` -/
def buildsSet {K V K' : Type} [BEq K'] (f : K → K') (v : Visit K V) : K' → Bool := fun x => v.any (fun e => f e.1 == x)

/-! ### feeds `msgServer.Vote`, the only map range inside block execution

    `diff` is the map `signalIDToPowerDiff`, `store` the signal-total-power store. -/
structure Signal where
  id : String
  power : Int
  deriving DecidableEq, Repr

inductive VoteErr | powerNegative deriving DecidableEq, Repr

def leS (a b : String) : Bool := decide (a ≤ b)

def getPower (store : List Signal) (id : String) : Int := ((store.find? (·.id == id)).map (·.power)).getD 0
def setPower (store : List Signal) (id : String) (p : Int) : List Signal :=
  if store.any (·.id == id) then store.map (fun s => if s.id == id then { s with power := p } else s) else store ++ [{ id := id, power := p }]

def voteBody (diff : String → Int) (store : List Signal) (id : String) : Except VoteErr (List Signal) :=
  let p := getPower store id + diff id
  if p < 0 then .error .powerNegative else .ok (setPower store id p)

/-- the tail of `Vote`: range the map as the schedule dictates, sort the keys, apply the differences -/
def voteApply (o : Sched) (diffMap : Visit String Int) (store : List Signal) : Except VoteErr (List Signal) :=
  let look := fun id => ((diffMap.find? (·.1 == id)).map (·.2)).getD 0
  runSorted leS (voteBody look) store (o.perm diffMap)

/-- the UNSORTED variant (what the code would be without `sort.Strings`): used to show the sort is what the theorem needs -/
def voteApplyUnsorted (o : Sched) (diffMap : Visit String Int) (store : List Signal) : Except VoteErr (List Signal) :=
  let look := fun id => ((diffMap.find? (·.1 == id)).map (·.2)).getD 0
  ((o.perm diffMap).map (·.1)).foldlM (voteBody look) store

/-! ### a block -/

/-- result of one transaction as ABCI reports it -/
structure TxResult (ρ : Type) where
  code : Nat
  gas : Nat
  data : ρ
  deriving DecidableEq

/-- an application: begin-blockers and end-blockers in module order, and a transaction runner.
    `β` is what a block brings besides its transactions (header: height, time, proposer, last-commit votes) together
    with the outcomes of components that are inputs to the model (wasm script results, route results).
    A begin/end-blocker may fail (`.error`: FinalizeBlock returns an error or the node panics); a transaction
    cannot fail the block: `runTx` returns the state to continue from (the SDK discards a failed transaction's writes
    and recovers its panics) and the result.  Everything receives the schedule. -/
structure App (σ β τ ρ ε : Type) where
  begins : List (Sched → β → σ → Except ε σ)
  ends : List (Sched → β → σ → Except ε σ)
  runTx : Sched → β → σ → τ → σ × TxResult ρ

def runPhase {σ β ε : Type} (o : Sched) (b : β) (fs : List (Sched → β → σ → Except ε σ)) (s : σ) : Except ε σ :=
  fs.foldlM (fun s f => f o b s) s

def runTxs {σ β τ ρ ε : Type} (app : App σ β τ ρ ε) (o : Sched) (b : β) (s : σ) (txs : List τ) : σ × List (TxResult ρ) :=
  txs.foldl (fun (acc : σ × List (TxResult ρ)) tx => let (s', r) := app.runTx o b acc.1 tx; (s', acc.2 ++ [r])) (s, [])

/-- FinalizeBlock: begin-blockers, transactions in order, end-blockers -/
def finalize {σ β τ ρ ε : Type} (app : App σ β τ ρ ε) (o : Sched) (s : σ) (blk : β × List τ) : Except ε (σ × List (TxResult ρ)) := do
  let s1 ← runPhase o blk.1 app.begins s
  let (s2, rs) := runTxs app o blk.1 s1 blk.2
  let s3 ← runPhase o blk.1 app.ends s2
  pure (s3, rs)

/-- a node: executes blocks from genesis, each block under its own schedule (`os h` for the h-th block);
    observes per block the committed state (whose Merkle root is the app hash) and the transaction results -/
def runChain {σ β τ ρ ε : Type} (app : App σ β τ ρ ε) (os : Nat → Sched) : Nat → σ → List (β × List τ) → Except ε (List (σ × List (TxResult ρ)))
  | _, _, [] => .ok []
  | h, s, b :: bs =>
    match finalize app (os h) s b with
    | .error e => .error e
    | .ok (s', rs) =>
      match runChain app os (h + 1) s' bs with
      | .error e => .error e
      | .ok rest => .ok ((s', rs) :: rest)

/-- a cross-module call made from an end-blocker under a cache context with panic recovery
    (`safeCreateSigning`, `ProduceActiveTunnelPacket`/`SendPacket`, `HandleSigningEndBlock`): the callee's failure is
    turned into a value and its writes are dropped -/
def guarded {σ ε : Type} (f : σ → Except ε σ) (s : σ) : σ × Option ε :=
  match f s with
  | .ok s' => (s', none)
  | .error e => (s, some e)

/-- the app ignores the schedule (no map range reaches state, gas or results) -/
def App.OrderFree {σ β τ ρ ε : Type} (app : App σ β τ ρ ε) : Prop :=
  (∀ f ∈ app.begins, ∀ o₁ o₂ : Sched, o₁.Valid → o₂.Valid → ∀ b s, f o₁ b s = f o₂ b s) ∧
  (∀ f ∈ app.ends, ∀ o₁ o₂ : Sched, o₁.Valid → o₂.Valid → ∀ b s, f o₁ b s = f o₂ b s) ∧
  (∀ o₁ o₂ : Sched, o₁.Valid → o₂.Valid → ∀ b s tx, app.runTx o₁ b s tx = app.runTx o₂ b s tx)

/-- begin/end-blockers are total on states satisfying `Inv` (for block environments satisfying `EnvOk`) and keep it;
    transactions keep it -/
def App.TotalOn {σ β τ ρ ε : Type} (app : App σ β τ ρ ε) (EnvOk : β → Prop) (Inv : σ → Prop) : Prop :=
  (∀ f ∈ app.begins, ∀ o b s, EnvOk b → Inv s → ∃ s', f o b s = .ok s' ∧ Inv s') ∧
  (∀ f ∈ app.ends, ∀ o b s, EnvOk b → Inv s → ∃ s', f o b s = .ok s' ∧ Inv s') ∧
  (∀ o b s tx, EnvOk b → Inv s → Inv (app.runTx o b s tx).1)

/-! ### module order (names as written in app/modules.go) -/
def beginOrder : List String := ["capabilitytypes", "minttypes", "rollingseedtypes", "oracletypes", "tsstypes", "bandtsstypes", "restaketypes",
  "feedstypes", "tunneltypes", "distrtypes", "slashingtypes", "evidencetypes", "stakingtypes", "authtypes", "banktypes", "govtypes",
  "crisistypes", "ibcexported", "ibctransfertypes", "icatypes", "ibcfeetypes", "genutiltypes", "authz", "feegrant", "paramstypes",
  "vestingtypes", "consensusparamtypes", "globalfeetypes"]
def endOrder : List String := ["crisistypes", "govtypes", "stakingtypes", "rollingseedtypes", "oracletypes", "tsstypes", "bandtsstypes",
  "restaketypes", "feedstypes", "tunneltypes", "ibcexported", "ibctransfertypes", "icatypes", "capabilitytypes", "ibcfeetypes",
  "authtypes", "banktypes", "distrtypes", "slashingtypes", "minttypes", "genutiltypes", "evidencetypes", "authz", "feegrant",
  "paramstypes", "upgradetypes", "vestingtypes", "consensusparamtypes", "globalfeetypes"]

/-- position of a module in an order list -/
def pos (l : List String) (m : String) : Option Nat := l.findIdx? (· == m)
def before (l : List String) (a b : String) : Bool :=
  match pos l a, pos l b with
  | some i, some j => decide (i < j)
  | _, _ => false

end BandVerif.Det
