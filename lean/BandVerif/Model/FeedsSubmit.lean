/- feeds `msgServer.SubmitSignalPrices` (x/feeds/keeper/msg_server.go): what a validator's stored price list becomes.
   The handler matters to three properties: the stored timestamp is what freshness (C06) and miss detection (C15) read, and its
   admission rules are what grogu must anticipate (C20).  Core-only (shared with the driver). -/
namespace BandVerif.FeedsSubmit

/-- `types.ValidatorPrice` -/
structure VP where
  status : Nat          -- SignalPriceStatus: 0 UNSPECIFIED, 1 UNSUPPORTED, 2 UNAVAILABLE, 3 AVAILABLE
  sid : String
  price : Nat
  ts : Int              -- block time (seconds) of the accepted submission
  bh : Int              -- block height of the accepted submission
  deriving DecidableEq, Repr

def VP.zero : VP := ⟨0, "", 0, 0, 0⟩

inductive Err
  | tooLarge | notRequired | badTimestamp | notSupported | tooEarly
  deriving DecidableEq, Repr

/-- `currentFeedsMap[signalID]`: the index of a signal id in the current feed list (ids are distinct) -/
def idxOf (feeds : List String) (sid : String) : Option Nat :=
  if feeds.findIdx (· == sid) < feeds.length then some (feeds.findIdx (· == sid)) else none

/-- the previous list re-indexed BY SIGNAL ID onto the current feed list; signals no longer current are dropped -/
def fillStep (feeds : List String) (acc : List VP) (p : VP) : List VP :=
  match idxOf feeds p.sid with
  | some i => acc.set i p
  | none => acc

def fill (feeds : List String) (prev : List VP) : List VP :=
  prev.foldl (fillStep feeds) (List.replicate feeds.length VP.zero)

/-- the loop over the submitted prices -/
def applyMsg (feeds : List String) (blockTime height cooldown : Int) : List VP → List (String × Nat × Nat) → Except Err (List VP)
  | acc, [] => .ok acc
  | acc, (sid, st, price) :: rest =>
    match idxOf feeds sid with
    | none => .error .notSupported
    | some i =>
      let latest := acc.getD i VP.zero
      if latest.status ≠ 0 ∧ blockTime < latest.ts + cooldown then .error .tooEarly
      else applyMsg feeds blockTime height cooldown (acc.set i ⟨st, sid, price, blockTime, height⟩) rest

def absI (x : Int) : Int := if x < 0 then -x else x

/-- the handler: `required` is `ValidateValidatorRequiredToSend` (bonded and oracle-active), an input here -/
def submit (feeds : List String) (prev : List VP) (msg : List (String × Nat × Nat)) (msgTs blockTime height cooldown disc : Int)
    (required : Bool) : Except Err (List VP) :=
  if msg.length > feeds.length then .error .tooLarge
  else if !required then .error .notRequired
  else if absI (msgTs - blockTime) > disc then .error .badTimestamp
  else applyMsg feeds blockTime height cooldown (fill feeds prev) msg

end BandVerif.FeedsSubmit
