/-
C15 model — oracle validator status: Activate, MissReport (times in nanoseconds as time.Time),
feeds CheckMissReport (seconds / heights) and the miss-report sweep of feeds CalculatePrices.
The model's operators are the specification; Props/C15 proves the regenerated ones equal them. Core-only.
-/
import BandVerif.Generated.Status

namespace BandVerif.VStatus

structure VS where
  active : Bool
  sinceZero : Bool      -- `Since.IsZero()` (never set)
  since : Int           -- nanoseconds since the epoch (meaningful when ¬sinceZero)
  deriving DecidableEq, Repr, Inhabited

def VS.initial : VS := ⟨false, true, 0⟩

inductive ActErr | ok | alreadyActive | tooSoon
  deriving DecidableEq, Repr

/-- spec guards -/
def tooSoon (sinceZero : Bool) (since penalty now : Int) : Bool := !sinceZero && decide (since + penalty > now)
def missApplies (active : Bool) (since requestTime : Int) : Bool := active && decide (since < requestTime)

/-- oracle Keeper.Activate at block time `now` with penalty duration `penalty` (ns) -/
def activate (s : VS) (penalty now : Int) : VS × ActErr :=
  if s.active then (s, .alreadyActive)
  else if tooSoon s.sinceZero s.since penalty now then (s, .tooSoon)
  else (⟨true, false, now⟩, .ok)

/-- oracle Keeper.MissReport(val, requestTime) at block time `now` -/
def missReport (s : VS) (requestTime now : Int) : VS :=
  if missApplies s.active s.since requestTime then ⟨false, false, now⟩ else s

/-- `time.Time.Unix()` of a nanosecond instant -/
def unixOf (ns : Int) : Int := ns / 1000000000

def maxGuaranteeBlockTime : Int := 3

/-- feeds CheckMissReport, specification form: the validator is excused until the latest of
    (feed-list update + grace, its activation + grace, its last price + interval), both on the
    clock and — at the guaranteed block time — on the height; it has missed only when BOTH passed. -/
def checkMiss (interval lastUpd lastUpdBlock : Int) (hasPrice : Bool) (priceTs priceBlock sinceUnix
    blockTime blockHeight grace : Int) : Bool :=
  let lastTime := max (max (lastUpd + grace) (sinceUnix + grace)) (if hasPrice then priceTs + interval else lastUpd + grace)
  let lastBlock := max (lastUpdBlock + grace / maxGuaranteeBlockTime)
      (if hasPrice then priceBlock + interval / maxGuaranteeBlockTime else lastUpdBlock + grace / maxGuaranteeBlockTime)
  decide (lastTime < blockTime ∧ lastBlock < blockHeight)

/-- one validator as the sweep sees it: index, the status CAPTURED before the loop, and per feed
    its stored price (hasPrice, timestamp, block height) -/
structure ValView where
  idx : Nat
  capturedSince : Int                      -- ns
  prices : List (Bool × Int × Int)         -- aligned with the feed list
  deriving Repr

def sweepFeed (interval lastUpd lastUpdBlock nowNs height grace : Int) (fi : Nat) :
    List ValView → (Nat → VS) → (Nat → VS)
  | [], st => st
  | v :: rest, st =>
    let (hp, ts, bh) := v.prices.getD fi (false, 0, 0)
    let miss := checkMiss interval lastUpd lastUpdBlock hp ts bh (unixOf v.capturedSince) (unixOf nowNs) height grace
    let st' := if miss then (fun i => if i = v.idx then missReport (st v.idx) nowNs nowNs else st i) else st
    sweepFeed interval lastUpd lastUpdBlock nowNs height grace fi rest st'

/-- the miss-report part of feeds CalculatePrices: feeds outer, validators inner -/
def sweep (lastUpd lastUpdBlock nowNs height grace : Int) (vals : List ValView) :
    List Int → Nat → (Nat → VS) → (Nat → VS)
  | [], _, st => st
  | interval :: rest, fi, st =>
    sweep lastUpd lastUpdBlock nowNs height grace vals rest (fi + 1)
      (sweepFeed interval lastUpd lastUpdBlock nowNs height grace fi vals st)

end BandVerif.VStatus
