/-
C16 model — x/restake: stakes, locks per vault, the by-power lock index walk (`isValidPower`), the
staking hooks at their call sites (validators bonded, share/token rate 1), vault activation and
allowed denoms.  Setters overwrite exactly as in Go.  Core-only.
-/
namespace BandVerif.Restake

abbrev Acct := Nat
abbrev Val := Nat

structure State where
  deleg : Acct → Val → Nat              -- bonded delegation tokens
  stake : Acct → String → Nat           -- restaked coins per denom
  locks : Acct → String → Option Nat    -- lock store: (account, vault key) ↦ power
  lockKeys : Acct → List String         -- vault keys for which the account has a lock entry (no duplicates)
  vaults : String → Option Bool         -- vault store: key ↦ IsActive
  allowed : List String                 -- params.AllowedDenoms
  bal : Acct → String → Nat             -- bank balance of the account
  moduleBal : String → Nat              -- bank balance of the restake module account
  vals : List Val                       -- validators (for sums)
  denoms : List String                  -- denoms in play (for sums)

inductive Err
  | ok | notAllowedDenom | insufficientFunds | stakeNotEnough | unableToUnstake | unableToUndelegate
  | invalidPower | powerNotEnough | vaultNotActive | vaultNotFound
  deriving DecidableEq, Repr

def delegated (s : State) (a : Acct) : Nat := (s.vals.map (s.deleg a)).sum
/-- GetStakedPower: only allowed denoms count -/
def stakedPower (s : State) (a : Acct) : Nat := (s.allowed.map (s.stake a)).sum
def totalPower (s : State) (a : Acct) : Nat := delegated s a + stakedPower s a

def isActiveVault (s : State) (k : String) : Bool := s.vaults k == some true

/-- index entries of an account: (power, vault key) -/
def indexEntries (s : State) (a : Acct) : List (Nat × String) :=
  (s.lockKeys a).filterMap fun k => (s.locks a k).map fun p => (p, k)

/-- descending order of the keys `be64(power) ‖ vaultKey` (what the reverse iterator walks) -/
def idxGe (x y : Nat × String) : Bool := decide (x.1 > y.1) || (decide (x.1 = y.1) && decide (x.2 ≥ y.2))

/-- `isValidPower`: walk the index from the highest power down; the first lock whose vault is active decides -/
def firstActive (s : State) : List (Nat × String) → Option Nat
  | [] => none
  | (p, k) :: rest => if isActiveVault s k then some p else firstActive s rest

def isValidPower (s : State) (a : Acct) (power : Nat) : Bool :=
  match firstActive s ((indexEntries s a).mergeSort idxGe) with
  | none => true
  | some p => decide (power ≥ p)

def insertKey (l : List String) (k : String) : List String := if k ∈ l then l else l ++ [k]

/-- MsgStake (one coin per call: the harness sends single-denom coins) -/
def stakeOp (s : State) (a : Acct) (denom : String) (amt : Nat) : State × Err :=
  if denom ∉ s.allowed then (s, .notAllowedDenom)
  else if s.bal a denom < amt then (s, .insufficientFunds)
  else ({ s with bal := fun x d => if x = a ∧ d = denom then s.bal a denom - amt else s.bal x d,
                  moduleBal := fun d => if d = denom then s.moduleBal denom + amt else s.moduleBal d,
                  stake := fun x d => if x = a ∧ d = denom then s.stake a denom + amt else s.stake x d }, .ok)

def subStake (s : State) (a : Acct) (denom : String) (amt : Nat) : State :=
  { s with stake := fun x d => if x = a ∧ d = denom then s.stake a denom - amt else s.stake x d }

def payOut (s : State) (a : Acct) (denom : String) (amt : Nat) : State :=
  { s with moduleBal := fun d => if d = denom then s.moduleBal denom - amt else s.moduleBal d,
            bal := fun x d => if x = a ∧ d = denom then s.bal a denom + amt else s.bal x d }

/-- MsgUnstake: subtract, re-check the total power against the locks, then pay out -/
def unstakeOp (s : State) (a : Acct) (denom : String) (amt : Nat) : State × Err :=
  if s.stake a denom < amt then (s, .stakeNotEnough)
  else if isValidPower (subStake s a denom amt) a (totalPower (subStake s a denom amt) a)
  then (payOut (subStake s a denom amt) a denom amt, .ok)
  else (s, .unableToUnstake)

/-- MsgUnstake with several coins (distinct denoms): every coin must be staked, all are subtracted, the locks are checked
    ONCE on the result, then everything is paid out — or nothing happens -/
def unstakeMultiOp (s : State) (a : Acct) (coins : List (String × Nat)) : State × Err :=
  if coins.any (fun c => decide (s.stake a c.1 < c.2)) then (s, .stakeNotEnough)
  else
    let s1 := coins.foldl (fun st c => subStake st a c.1 c.2) s
    if isValidPower s1 a (totalPower s1 a) then (coins.foldl (fun st c => payOut st a c.1 c.2) s1, .ok)
    else (s, .unableToUnstake)

def addDeleg (s : State) (a : Acct) (v : Val) (amt : Nat) : State :=
  { s with deleg := fun x w => if x = a ∧ w = v then s.deleg a v + amt else s.deleg x w }

def subDeleg (s : State) (a : Acct) (v : Val) (amt : Nat) : State :=
  { s with deleg := fun x w => if x = a ∧ w = v then s.deleg a v - amt else s.deleg x w }

def payBond (s : State) (a : Acct) (amt : Nat) : State :=
  { s with bal := fun x d => if x = a ∧ d = "uband" then s.bal a "uband" - amt else s.bal x d }

/-- staking Delegate (bond denom "uband") → hook AfterDelegationModified on the post-state -/
def delegateOp (s : State) (a : Acct) (v : Val) (amt : Nat) : State × Err :=
  if s.bal a "uband" < amt then (s, .insufficientFunds)
  else if isValidPower (addDeleg s a v amt) a (totalPower (addDeleg s a v amt) a)
  then (payBond (addDeleg s a v amt) a amt, .ok)
  else (s, .unableToUndelegate)

/-- the restake hook fired by staking `Unbond` of `amt ≤ deleg`: a full removal fires
    BeforeDelegationRemoved (current bonded minus the stored delegation), a partial one
    AfterDelegationModified on the post-state — both compare `staked + remaining` with the locks. -/
def unbondCheck (s : State) (a : Acct) (v : Val) (amt : Nat) : Bool :=
  isValidPower (subDeleg s a v amt) a (totalPower (subDeleg s a v amt) a)

/-- staking Undelegate of `amt ≤ deleg a v` (tokens go to the unbonding pool, not back to the account) -/
def undelegateOp (s : State) (a : Acct) (v : Val) (amt : Nat) : State × Err :=
  if unbondCheck s a v amt then (subDeleg s a v amt, .ok) else (s, .unableToUndelegate)

/-- staking BeginRedelegate: Unbond from `src` (hook on the intermediate state), then Delegate to `dst` -/
def redelegateOp (s : State) (a : Acct) (src dst : Val) (amt : Nat) : State × Err :=
  if unbondCheck s a src amt then
    if isValidPower (addDeleg (subDeleg s a src amt) a dst amt) a (totalPower (addDeleg (subDeleg s a src amt) a dst amt) a)
    then (addDeleg (subDeleg s a src amt) a dst amt, .ok)
    else (s, .unableToUndelegate)
  else (s, .unableToUndelegate)

/-- Keeper.SetLockedPower -/
def setLockOp (s : State) (a : Acct) (k : String) (power : Int) : State × Err :=
  if power < 0 ∨ power ≥ 18446744073709551616 then (s, .invalidPower)
  else if (totalPower s a : Int) < power then (s, .powerNotEnough)
  else
    -- GetOrCreateVault
    let s1 := match s.vaults k with
      | none => { s with vaults := fun x => if x = k then some true else s.vaults x }
      | some _ => s
    if !isActiveVault s1 k then (s, .vaultNotActive)
    else ({ s1 with locks := fun x y => if x = a ∧ y = k then some power.toNat else s1.locks x y,
                     lockKeys := fun x => if x = a then insertKey (s1.lockKeys a) k else s1.lockKeys x }, .ok)

/-- Keeper.DeactivateVault -/
def deactivateOp (s : State) (k : String) : State × Err :=
  match s.vaults k with
  | none => (s, .vaultNotFound)
  | some false => (s, .vaultNotActive)
  | some true => ({ s with vaults := fun x => if x = k then some false else s.vaults x }, .ok)

def setAllowedOp (s : State) (l : List String) : State := { s with allowed := l }

end BandVerif.Restake
