/-
C06 model — x/feeds price aggregation: CalculatePricesPowers, MedianValidatorPriceInfos (section
walk), MedianWeightedPrice, CalculatePrice (status rule), checkHavePrice and the per-feed part of
CalculatePrices.  Constants and comparison operators come from Generated/Median.lean.
All quantities are `Int` exactly as `sdkmath.Int` (so a negative take would be visible). Core-only.
-/
import BandVerif.Generated.Median

namespace BandVerif.Median

/-! The model's own constants and comparison operators — the specification values fixed by the
property (x/feeds README: multipliers 6/4/2/1.1/1 over 1/32, 1/16, 1/8, 1/4 and the rest of the power,
scaled by 10 and 32). `Props/C06.lean` proves that the values REGENERATED from the Go source
(`Generated.Median`) coincide with them, so an edit of the source breaks that obligation. -/
def scale : Int := 32
def multipliers : List Int := [60, 40, 20, 11, 10]
def sections : List Int := [1, 3, 7, 15, 32]
def signal_price_status_unspecified : Nat := 0
def signal_price_status_unsupported : Nat := 1
def signal_price_status_unavailable : Nat := 2
def signal_price_status_available : Nat := 3
def price_status_unknown_signal_id : Nat := 1
def price_status_not_ready : Nat := 2
def price_status_available : Nat := 3
def halfReached (cum total : Int) : Bool := decide (2 * cum ≥ total)
def fitsSection (cur left limit : Int) : Bool := decide (cur + left ≤ limit)
def unsupportedWins (unsup total : Int) : Bool := decide (2 * unsup > total)
def notReady (total avail quorum : Int) : Bool := decide (total = 0 ∨ total < quorum ∨ 2 * avail < total)
def fresh (ts now interval : Int) : Bool := decide (ts ≥ now - interval)

structure Info where
  status : Nat
  power : Int
  price : Nat
  ts : Int
  deriving DecidableEq, Repr, Inhabited

def isAvail (i : Info) : Bool := i.status == signal_price_status_available

/-- CalculatePricesPowers: (total, available, unavailable, unsupported) -/
def pricesPowers (l : List Info) : Int × Int × Int × Int :=
  l.foldl (fun (acc : Int × Int × Int × Int) i =>
    let (t, a, u, s) := acc
    let t := t + i.power
    if i.status == signal_price_status_available then (t, a + i.power, u, s)
    else if i.status == signal_price_status_unavailable then (t, a, u + i.power, s)
    else if i.status == signal_price_status_unsupported then (t, a, u, s + i.power)
    else (t, a, u, s)) (0, 0, 0, 0)

/-- comparator of step 2 (`cmp ≤ 0`): newer first, then larger power first -/
def timeOrder (a b : Info) : Bool := decide (a.ts > b.ts) || (decide (a.ts = b.ts) && decide (a.power ≥ b.power))

/-- the inner `for ; sectionIndex < len(sections); sectionIndex++` loop for one entry.
    Returns (entry weight, currentPower, sectionIndex). On `break` the index is not advanced. -/
def walk (total : Int) : Nat → Nat → Int → Int → Int → Int × Int × Nat
  | 0, idx, cur, _, w => (w, cur, idx)
  | fuel + 1, idx, cur, left, w =>
    match sections[idx]?, multipliers[idx]? with
    | some s, some m =>
      let limit := total * s
      let take := if fitsSection cur left limit then left else limit - cur
      let w := w + take * m
      let cur := cur + take
      let left := left - take
      if left = 0 then (w, cur, idx) else walk total fuel (idx + 1) cur left w
    | _, _ => (w, cur, idx)

/-- steps 4–5: weights of the (already sorted) available entries -/
def weigh (total : Int) : List Info → Int → Nat → List (Int × Nat)
  | [], _, _ => []
  | i :: rest, cur, idx =>
    let (w, cur', idx') := walk total (sections.length + 1) idx cur (scale * i.power) 0
    (w, i.price) :: weigh total rest cur' idx'

/-- comparator of MedianWeightedPrice (`cmp ≤ 0`): price ascending, then weight ascending -/
def priceOrder (a b : Int × Nat) : Bool := decide (a.2 < b.2) || (decide (a.2 = b.2) && decide (a.1 ≤ b.1))

def firstHalf (total : Int) : List (Int × Nat) → Int → Option Nat
  | [], _ => none
  | (w, p) :: rest, cum => if halfReached (cum + w) total then some p else firstHalf total rest (cum + w)

def medianWeightedPrice (l : List (Int × Nat)) : Option Nat :=
  let sorted := l.mergeSort priceOrder
  let total := (sorted.map (·.1)).sum
  firstHalf total sorted 0

def validOf (l : List Info) : List Info := l.filter isAvail

def weightsOf (l : List Info) : List (Int × Nat) :=
  let valid := validOf l
  let total := (valid.map (·.power)).sum
  weigh total (valid.mergeSort timeOrder) 0 0

def medianValidatorPriceInfos (l : List Info) : Option Nat := medianWeightedPrice (weightsOf l)

inductive Res
  | price (status : Nat) (price : Nat)
  | error
  deriving DecidableEq, Repr

/-- CalculatePrice -/
def calculatePrice (l : List Info) (quorum : Int) : Res :=
  let (total, avail, _, unsup) := pricesPowers l
  if unsupportedWins unsup total then .price price_status_unknown_signal_id 0
  else if notReady total avail quorum then .price price_status_not_ready 0
  else match medianValidatorPriceInfos l with
    | some p => .price price_status_available p
    | none => .error

/-- checkHavePrice -/
def havePrice (status : Nat) (ts now interval : Int) : Bool :=
  status != signal_price_status_unspecified && fresh ts now interval

/-- a validator as CalculatePrices sees it -/
structure Val where
  power : Int
  bonded : Bool
  active : Bool
  /-- the validator's stored price for the feed at hand, if any: (status, price, timestamp) -/
  entry : Option (Nat × Nat × Int)
  deriving Repr

/-- what one validator contributes to a feed: only bonded ∧ oracle-active validators, only fresh prices -/
def infoOf (now interval : Int) (v : Val) : Option Info :=
  if v.bonded && v.active then
    match v.entry with
    | some (st, pr, ts) => if havePrice st ts now interval then some ⟨st, v.power, pr, ts⟩ else none
    | none => none
  else none

/-- the per-feed part of CalculatePrices -/
def feedInfos (vals : List Val) (now interval : Int) : List Info := vals.filterMap (infoOf now interval)

def feedPrice (vals : List Val) (now interval quorum : Int) : Res :=
  calculatePrice (feedInfos vals now interval) quorum

end BandVerif.Median
