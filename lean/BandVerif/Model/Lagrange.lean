/-
C03 model — Lagrange coefficients as pkg/tss computes them: `checkLagrangeInput`, the generic big-integer routine
and the prime-factor table walk (int64 arithmetic), over the REGENERATED tables.  Core-only.
-/
import BandVerif.Common.I64
import BandVerif.Generated.Frost

namespace BandVerif.Lagrange
open BandVerif.Generated

def N : Nat := Frost.groupOrder

/-- square-and-multiply with fuel (one unit per exponent bit) -/
def powModF : Nat → Nat → Nat → Nat → Nat
  | 0, _, _, m => 1 % m
  | f + 1, b, e, m =>
    if e = 0 then 1 % m
    else if e % 2 = 1 then (b % m) * powModF f (b * b % m) (e / 2) m % m
    else powModF f (b * b % m) (e / 2) m

def powMod (b e m : Nat) : Nat := powModF 512 b e m

/-- big.Int.ModInverse modulo the prime N (negative arguments are reduced first) -/
def invN (a : Int) : Nat := powMod (a % (N : Int)).toNat (N - 2) N

inductive LErr | ok | duplicate | notInList
  deriving DecidableEq, Repr

/-- `checkLagrangeInput`: (may use the table, error) -/
def checkInput (mid : Nat) (l : List Nat) : Bool × LErr :=
  let rec go : List Nat → List Nat → Bool → Bool → Bool × LErr
    | [], _, inList, opt => if inList then (opt, .ok) else (false, .notInList)
    | id :: rest, seen, inList, opt =>
      if id ∈ seen then (false, .duplicate)
      else go rest (id :: seen) (inList || id == mid) (opt && decide (id ≤ 20))
  go l [] false true

/-- `lagrange.ComputeCoefficient`: ∏ j · (∏ (j − i))⁻¹ mod N over j ≠ i -/
def generic (i : Nat) (s : List Nat) : Nat :=
  let js := s.filter (· ≠ i)
  let num : Int := js.foldl (fun (a : Int) (j : Nat) => (j : Int) * a) 1
  let den : Int := js.foldl (fun (a : Int) (j : Nat) => ((j : Int) - (i : Int)) * a) 1
  ((num * (invN den : Int)) % (N : Int)).toNat

def factorsOf (j : Nat) : List (Nat × Nat) := ((Frost.PRIME_FACTORS.find? (·.1 == j)).map (·.2)).getD []
def powerOf (p k : Nat) : Option Int := ((Frost.PRECOMPUTED_POWERS.find? (·.1 == p)).bind fun e => e.2[k]?).map fun n => (n : Int)

/-- counts[prime] after the loop over s, and the sign -/
def countsOf (i : Nat) (s : List Nat) : (Nat → Int) × Int :=
  (s.filter (· ≠ i)).foldl (fun (acc : (Nat → Int) × Int) j =>
    let c1 := (factorsOf j).foldl (fun (c : Nat → Int) v => fun p => if p = v.1 then c p + v.2 else c p) acc.1
    let d : Nat := if j < i then i - j else j - i
    let sg := if j < i then -acc.2 else acc.2
    let c2 := (factorsOf d).foldl (fun (c : Nat → Int) v => fun p => if p = v.1 then c p - v.2 else c p) c1
    (c2, sg)) (fun _ => 0, 1)

/-- `lagrange.ComputeCoefficientPreCompute`; `none` where Go would panic (index out of the powers table) -/
def pre (i : Nat) (s : List Nat) : Option Nat :=
  let (counts, sign) := countsOf i s
  let step (acc : Option (Int × Int)) (k : Nat) : Option (Int × Int) :=
    match acc with
    | none => none
    | some (num, den) =>
      let v := counts k
      if v > 0 then (powerOf k v.toNat).map fun pw => (i64.mul num pw, den)
      else if v < 0 then (powerOf k (-v).toNat).map fun pw => (num, i64.mul den pw)
      else some (num, den)
  match (List.range 20).foldl step (some (1, 1)) with
  | none => none
  | some (num, den) => some ((i64.mul num sign * (invN den : Int)) % (N : Int)).toNat

/-- `ComputeLagrangeCoefficient` -/
def coefficient (mid : Nat) (l : List Nat) : Option Nat × LErr :=
  match checkInput mid l with
  | (_, .duplicate) => (none, .duplicate)
  | (_, .notInList) => (none, .notInList)
  | (true, .ok) => (pre mid l, .ok)
  | (false, .ok) => (some (generic mid l), .ok)

end BandVerif.Lagrange
