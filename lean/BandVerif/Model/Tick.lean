/-
C11 model — pkg/tickmath: tickToPriceX96, TickToPrice, PriceToTick, written as the Go code computes them
(uint64 arithmetic reduced mod 2^64 where the Go operands are uint64; big.Int as Nat).  Core-only.
The table of binary-tick prices is the REGENERATED `Generated.Tick.priceX96AtBinaryTicks`.
-/
import BandVerif.Generated.Tick

namespace BandVerif.Tick
open BandVerif.Generated

def maxTick : Int := 262143
def minTick : Int := -262143
def offset : Int := 262144
def q96 : Nat := 79228162514264337593543950336                -- 2^96
def maxUint192 : Nat := 6277101735386680763835789423207666416102355444464034512895
def maxUint64 : Nat := 18446744073709551615
def billion : Nat := 1000000000

def mulIf (a i acc p : Nat) : Nat := if (a >>> i) % 2 = 1 then (acc * p) >>> 96 else acc

/-- product over the set bits of `a` of the binary-tick prices, starting from q96 (the loop of tickToPriceX96) -/
def ratioGo (a : Nat) : List Nat → Nat → Nat → Nat
  | [], _, acc => acc
  | p :: rest, i, acc => ratioGo a rest (i + 1) (mulIf a i acc p)

def ratio (a : Nat) : Nat := ratioGo a Tick.priceX96AtBinaryTicks 0 q96

/-- tickToPriceX96 for an in-range tick -/
def x96 (t : Int) : Nat :=
  (if t > 0 then maxUint192 / ratio t.natAbs else ratio t.natAbs) * billion

def inRange (t : Int) : Bool := decide (minTick ≤ t ∧ t ≤ maxTick)

/-- `TickToPrice`; `none` = error -/
def tickToPrice (t : Int) : Option Nat :=
  if !inRange t then none else
  let px := x96 t
  let price := px / q96
  if price = 0 then none else
  let price := if px % q96 > 0 ∧ (px * 10001 / 10000) / q96 > price then price + 1 else price
  if price > maxUint64 then none else some price

def two64 : Nat := 18446744073709551616

/-- most significant bit by the 6-step binary search of PriceToTick -/
def msbGo : List (Nat × Nat) → Nat → Nat → Nat
  | [], _, msb => msb
  | (bit, n) :: rest, p, msb => if p > bit then msbGo rest (p >>> n) (msb + n) else msbGo rest p msb

def msbOf (price : Nat) : Nat :=
  msbGo [(4294967295, 32), (65535, 16), (255, 8), (15, 4), (3, 2), (1, 1)] price 0

/-- the 16 iterations of the base-2 logarithm; returns log2 -/
def logGo : Nat → Nat → Nat → Nat → Nat
  | 0, _, _, log2 => log2
  | k + 1, i, r, log2 =>
    let r1 := ((r * r) % two64) >>> 31
    let f := r1 >>> 32
    logGo k (i + 1) (r1 >>> f) (log2 ||| (f <<< (15 - i)))

/-- the approximate tick computed before the final correction -/
def approxTick (price : Nat) : Int :=
  let msb := msbOf price
  let r := if msb ≥ 32 then price >>> (msb - 31) else (price <<< (31 - msb)) % two64
  let log2 : Int := (logGo 16 0 r (msb <<< 16) : Nat)
  ((log2 - 1959352) * 454283648) >>> 32

/-- tickToPriceX96 with its range error -/
def x96? (t : Int) : Option Nat := if inRange t then some (x96 t) else none

def leX96 (t : Int) (target : Nat) : Bool :=
  match x96? t with
  | some v => decide (v ≤ target)
  | none => false

/-- `PriceToTick` (result includes the +Offset); `none` = error -/
def priceToTick (price : Nat) : Option Int :=
  if price = 0 then none else
  let tick := approxTick price
  if tick > maxTick ∨ tick < minTick then none else
  let target := price * q96
  if leX96 (tick + 1) target then some (tick + 1 + offset)
  else if leX96 tick target then some (tick + offset)
  else some (tick - 1 + offset)

/-- what the approximation must satisfy for the final correction loop to land on the right tick
    (decidable; evaluated by the driver on every sampled price, exhaustively at all tick boundaries) -/
def approxOK (price : Nat) : Bool :=
  let tick := approxTick price
  let target := price * q96
  inRange tick &&
  (!inRange (tick + 2) || decide (target < x96 (tick + 2))) &&
  (leX96 (tick + 1) target || leX96 tick target || (inRange (tick - 1) && decide (x96 (tick - 1) ≤ target)))

end BandVerif.Tick
