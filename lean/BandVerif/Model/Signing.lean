/-
C05 / C10 / C13(signing) model — the tss signing life cycle with DE queues, and the bandtss wrapper
(fees, escrow, id mapping, member activity).  One current group, owned by bandtss.
  tss:     EnqueueDEs / ResetDE / RequestSigning → CreateSigning → InitiateNewSigningRound /
           SubmitSignature / HandleSigningEndBlock (aggregate pending, HandleExpiredSignings, retries)
  bandtss: createSigningRequest (fee check, escrow, mapping) / OnSigningCompleted / OnSigningFailed /
           OnSigningTimeout / ActivateMember
A DE is a TOKEN (fresh number given at registration).  Failed messages return the pre-state
(transaction atomicity); retries run in their own cache context exactly as HandleSigningEndBlock does.
Committee choice is an input (`committee`), it is C09's subject.  Core-only.
-/
namespace BandVerif.Signing

abbrev Coins := String → Nat

structure Attempt where
  expiredHeight : Int
  assigned : List (Nat × Nat)        -- (member id, DE token), in member-id order
  deriving Repr, DecidableEq

structure Sig where
  status : Nat                       -- 1 WAITING, 2 SUCCESS, 3 FALLEN
  attempt : Nat
  deriving Repr, DecidableEq

def stWaiting : Nat := 1
def stSuccess : Nat := 2
def stFallen : Nat := 3

structure BSig where
  feePerSigner : Coins
  requester : Nat
  currentSid : Nat

structure State where
  -- tss
  members : List Nat
  threshold : Nat
  queues : Nat → List Nat
  nextToken : Nat
  tssActive : Nat → Bool
  signings : Nat → Option Sig
  attempts : Nat → Nat → Option Attempt
  partials : Nat → Nat → List Nat
  expirations : List (Nat × Nat)
  pending : List Nat
  count : Nat
  signingPeriod : Nat
  maxAttempt : Nat
  maxDE : Nat
  badTokens : List Nat := []         -- malformed nonce pairs put in a queue through the keeper (fault injection)
  -- bandtss
  bActive : Nat → Bool
  bSince : Nat → Int
  penalty : Int
  mapping : Nat → Nat
  bsigs : Nat → Option BSig
  bcount : Nat
  feePerSigner : Coins
  escrow : Coins
  bal : Nat → Coins                  -- accounts: members by id, requesters by (100 + index)
  denoms : List String
  -- log of what happened (for monitors / theorems)
  assignedLog : List (Nat × Nat × Nat × Nat)   -- (sid, attempt, member, token) of every PERSISTED attempt
  penalised : List (Nat × Nat × Nat)           -- (sid, attempt, member) deactivated by a timeout
  completedLog : List Nat                      -- sids for which OnSigningCompleted ran
  failedLog : List Nat                         -- sids for which OnSigningFailed ran

inductive Err
  | ok | deLimit | noSigners | maxAttempt | feeExceedsLimit | insufficientFunds
  | signingNotFound | notWaiting | notAssigned | alreadySigned | badSignature
  | alreadyActive | penaltyNotElapsed | memberNotFound | invalidCoins | createFailed
  deriving DecidableEq, Repr

def geAll (s : State) (a b : Coins) : Bool := s.denoms.all fun d => decide (b d ≤ a d)
def isZero (s : State) (a : Coins) : Bool := s.denoms.all fun d => a d == 0
def addC (a b : Coins) : Coins := fun d => a d + b d
def subC (a b : Coins) : Coins := fun d => a d - b d
def mulC (a : Coins) (n : Nat) : Coins := fun d => a d * n

/-! ### DE queues -/
def enqueue (s : State) (m k : Nat) : State × Err :=
  if (s.queues m).length + k > s.maxDE then (s, .deLimit)
  else ({ s with queues := fun x => if x = m then s.queues m ++ (List.range k).map (· + s.nextToken) else s.queues x,
                  nextToken := s.nextToken + k }, .ok)

/-- fault injection: a malformed pair enqueued through the keeper API (MsgSubmitDEs validates points) -/
def enqueueBad (s : State) (m : Nat) : State × Err :=
  match enqueue s m 1 with
  | (s', .ok) => ({ s' with badTokens := s.nextToken :: s.badTokens }, .ok)
  | (_, e) => (s, e)

/-- some selected member's head pair is malformed (the nonce computation after DequeueDEs fails), or a selected member
    has no queued pair at all (DequeueDE itself fails; the sampler never selects such a member, C09) -/
def headBad (s : State) (committee : List Nat) : Bool :=
  committee.any fun m => match s.queues m with
    | t :: _ => decide (t ∈ s.badTokens)
    | [] => true

def resetDE (s : State) (m : Nat) : State := { s with queues := fun x => if x = m then [] else s.queues x }

/-- GetAvailableMembers: active with a queued DE -/
def available (s : State) : List Nat := s.members.filter fun m => s.tssActive m && !(s.queues m).isEmpty

/-- DequeueDEs for the selected members, in order: (assigned pairs, new queues) -/
def dequeueAll (q : Nat → List Nat) : List Nat → List (Nat × Nat) × (Nat → List Nat)
  | [] => ([], q)
  | m :: rest =>
    match q m with
    | [] => dequeueAll q rest          -- unreachable for available members
    | t :: ts =>
      let (as, q') := dequeueAll (fun x => if x = m then ts else q x) rest
      ((m, t) :: as, q')

/-- InitiateNewSigningRound with the committee chosen by the sampler -/
def initiate (s : State) (sid : Nat) (committee : List Nat) (height : Int) : State × Err :=
  match s.signings sid with
  | none => (s, .signingNotFound)
  | some sg =>
    let att := sg.attempt + 1
    if att > s.maxAttempt then (s, .maxAttempt)
    else if s.threshold > (available s).length then (s, .noSigners)
    else if headBad s committee then (s, .createFailed)     -- fails after the dequeue; rolled back with its context
    else
      let (as, q') := dequeueAll s.queues committee
      ({ s with queues := q',
                signings := fun i => if i = sid then some { status := stWaiting, attempt := att } else s.signings i,
                attempts := fun i a => if i = sid ∧ a = att then some { expiredHeight := height + s.signingPeriod, assigned := as } else s.attempts i a,
                expirations := s.expirations ++ [(sid, att)],
                assignedLog := s.assignedLog ++ as.map fun (m, t) => (sid, att, m, t) }, .ok)

/-- tss RequestSigning on the active group: CreateSigning then InitiateNewSigningRound -/
def tssRequest (s : State) (committee : List Nat) (height : Int) : State × Err :=
  let sid := s.count + 1
  let s1 := { s with count := sid, signings := fun i => if i = sid then some { status := stWaiting, attempt := 0 } else s.signings i }
  match initiate s1 sid committee height with
  | (s2, .ok) => (s2, .ok)
  | (_, e) => (s, e)

/-- the fee per signer charged to this sender (governance is free) and the total for the committee -/
def feeFor (s : State) (authority : Bool) : Coins := if authority then (fun _ => 0) else s.feePerSigner
def reqCost (s : State) (authority : Bool) : Coins := mulC (feeFor s authority) s.threshold

/-- move the total fee from the sender to the bandtss module account (escrow) -/
def escrowed (s : State) (sender : Nat) (authority : Bool) : State :=
  if authority then s else
    { s with bal := fun a => if a = sender then subC (s.bal sender) (reqCost s authority) else s.bal a,
             escrow := addC s.escrow (reqCost s authority) }

/-- AddSigning: the bandtss record and the tss-id ↦ bandtss-id mapping -/
def recordB (s2 : State) (fee : Coins) (sender : Nat) : State :=
  { s2 with bcount := s2.bcount + 1,
            bsigs := fun i => if i = s2.bcount + 1 then some { feePerSigner := fee, requester := sender, currentSid := s2.count } else s2.bsigs i,
            mapping := fun i => if i = s2.count then s2.bcount + 1 else s2.mapping i }

/-- what rejects a direct request before the tss signing is created -/
def requestErr (s : State) (sender : Nat) (authority : Bool) (feeLimit : Coins) : Err :=
  -- MsgRequestSignature.ValidateBasic: the fee limit must be a non-empty, all-positive coin set
  if !authority && isZero s feeLimit then .invalidCoins
  else if !authority && !geAll s feeLimit (reqCost s authority) then .feeExceedsLimit
  else if !authority && !geAll s (s.bal sender) (reqCost s authority) then .insufficientFunds
  else .ok

/-- bandtss createSigningRequest (direct request; `authority` requests are free) -/
def request (s : State) (sender : Nat) (authority : Bool) (feeLimit : Coins) (committee : List Nat) (height : Int) : State × Err :=
  match requestErr s sender authority feeLimit with
  | .ok =>
    match tssRequest (escrowed s sender authority) committee height with
    | (s2, .ok) => (recordB s2 (feeFor s authority) sender, .ok)
    | (_, e) => (s, e)
  | e => (s, e)

/-- `CreateDirectSigningRequest` called by another module (an oracle result asking for a signature): the same creation without
    the message-level validation of the fee limit (`MsgRequestSignature.ValidateBasic`) -/
def requestKeeper (s : State) (sender : Nat) (feeLimit : Coins) (committee : List Nat) (height : Int) : State × Err :=
  if !geAll s feeLimit (reqCost s false) then (s, .feeExceedsLimit)
  else if !geAll s (s.bal sender) (reqCost s false) then (s, .insufficientFunds)
  else
    match tssRequest (escrowed s sender false) committee height with
    | (s2, .ok) => (recordB s2 (feeFor s false) sender, .ok)
    | (_, e) => (s, e)

/-! ### SubmitSignature -/
/-- AddPartialSignature, and the pending-process entry when the attempt's set is complete -/
def addPartial (s : State) (sid att member assignedLen : Nat) : State :=
  let ps := s.partials sid att ++ [member]
  let s1 := { s with partials := fun i a => if i = sid ∧ a = att then ps else s.partials i a }
  if ps.length == assignedLen then { s1 with pending := s1.pending ++ [sid] } else s1

def submitErr (s : State) (sid member : Nat) (signerOk valid : Bool) : Err :=
  match s.signings sid with
  | none => .signingNotFound
  | some sg =>
    if sg.status ≠ stWaiting then .notWaiting else
    match s.attempts sid sg.attempt with
    | none => .signingNotFound      -- ErrSigningAttemptNotFound (unreachable for WAITING signings)
    | some atm =>
      if !(atm.assigned.any (·.1 == member)) || !signerOk then .notAssigned
      else if (s.partials sid sg.attempt).contains member then .alreadySigned
      else if !valid then .badSignature
      else .ok

def submit (s : State) (sid member : Nat) (signerOk valid : Bool) : State × Err :=
  match submitErr s sid member signerOk valid with
  | .ok =>
    match s.signings sid with
    | none => (s, .signingNotFound)
    | some sg =>
      match s.attempts sid sg.attempt with
      | none => (s, .signingNotFound)
      | some atm => (addPartial s sid sg.attempt member atm.assigned.length, .ok)
  | e => (s, e)

/-! ### callbacks (bandtss) -/
def payAll (s : State) (fee : Coins) : List Nat → State
  | [] => s
  | m :: rest => payAll { s with escrow := subC s.escrow fee, bal := fun a => if a = m then addC (s.bal m) fee else s.bal a } fee rest

/-- OnSigningCompleted: pay each assigned member of the current-group signing, drop the mapping -/
def onCompleted (s : State) (sid : Nat) (assigned : List Nat) : State :=
  let s0 := { s with completedLog := s.completedLog ++ [sid] }
  let bid := s0.mapping sid
  if bid = 0 then s0 else
  match s0.bsigs bid with
  | none => s0
  | some b =>
    let s1 := { s0 with mapping := fun i => if i = sid then 0 else s0.mapping i }
    if sid ≠ b.currentSid || isZero s b.feePerSigner then s1 else payAll s1 b.feePerSigner assigned

/-- OnSigningFailed: drop the mapping (escrowed fee stays) -/
def onFailed (s : State) (sid : Nat) : State :=
  { s with mapping := fun i => if i = sid then 0 else s.mapping i, failedLog := s.failedLog ++ [sid] }

/-- OnSigningTimeout: deactivate the idle members that are still active -/
def onTimeout (s : State) (sid att : Nat) (nowNs : Int) : List Nat → State
  | [] => s
  | m :: rest =>
    let s' := if s.bActive m then
        { s with bActive := fun x => if x = m then false else s.bActive x, bSince := fun x => if x = m then nowNs else s.bSince x,
                 tssActive := fun x => if x = m then false else s.tssActive x, penalised := s.penalised ++ [(sid, att, m)] }
      else s
    onTimeout s' sid att nowNs rest

/-! ### HandleSigningEndBlock -/
/-- AggregatePartialSignatures for the pending ids (accepted partials always aggregate to a valid
    group signature — C03): status SUCCESS, completion callback -/
def aggregateAll (s : State) : List Nat → State
  | [] => s
  | sid :: rest =>
    match s.signings sid with
    | none => aggregateAll s rest
    | some sg =>
      let assigned := ((s.attempts sid sg.attempt).map (·.assigned.map (·.1))).getD []
      let s1 := { s with signings := fun i => if i = sid then some { sg with status := stSuccess } else s.signings i }
      aggregateAll (onCompleted s1 sid assigned) rest

/-- HandleExpiredSignings over the FIFO; returns (state, timed-out ids, number of consumed entries) -/
def expireGo (height : Int) (nowNs : Int) : List (Nat × Nat) → State → List Nat → Nat → State × List Nat × Nat
  | [], s, acc, n => (s, acc, n)
  | (sid, att) :: rest, s, acc, n =>
    match s.signings sid, s.attempts sid att with
    | some sg, some atm =>
      if atm.expiredHeight > height then (s, acc, n)
      else
        let timedOut := (s.partials sid att).length ≠ atm.assigned.length
        -- idle members are read with the signing's CURRENT attempt, as the Go code does
        let idle := ((s.attempts sid sg.attempt).map fun c => (c.assigned.map (·.1)).filter fun m => !(s.partials sid sg.attempt).contains m).getD []
        let s1 := if timedOut then onTimeout s sid sg.attempt nowNs idle else s
        let s2 := { s1 with partials := fun i a => if i = sid ∧ a = att then [] else s1.partials i a,
                             attempts := fun i a => if i = sid ∧ a = att then none else s1.attempts i a }
        expireGo height nowNs rest s2 (if timedOut then acc ++ [sid] else acc) (n + 1)
    | _, _ => (s, acc, n)        -- Must* panic: unreachable under the invariant

/-- one retry in its cache context; on error HandleFailedSigning -/
def retryOne (s : State) (sid : Nat) (committee : List Nat) (height : Int) : State :=
  match initiate s sid committee height with
  | (s', .ok) => s'
  | (_, _) =>
    match s.signings sid with
    | none => s
    | some sg => onFailed { s with signings := fun i => if i = sid then some { sg with status := stFallen } else s.signings i } sid

def retryAll (committee : Nat → List Nat) (height : Int) : List Nat → State → State
  | [], s => s
  | sid :: rest, s => retryAll committee height rest (retryOne s sid (committee sid) height)

def endBlock (s : State) (committee : Nat → List Nat) (height nowNs : Int) : State :=
  let s1 := aggregateAll s s.pending
  let s2 := { s1 with pending := [] }
  let (s3, timedOut, n) := expireGo height nowNs s2.expirations s2 [] 0
  let s4 := { s3 with expirations := s3.expirations.drop n }
  retryAll committee height timedOut s4

/-! ### bandtss Activate -/
def activate (s : State) (m : Nat) (nowNs : Int) : State × Err :=
  if m ∉ s.members then (s, .memberNotFound)
  else if s.bActive m then (s, .alreadyActive)
  else if s.bSince m + s.penalty > nowNs then (s, .penaltyNotElapsed)
  else ({ s with bActive := fun x => if x = m then true else s.bActive x, bSince := fun x => if x = m then nowNs else s.bSince x,
                  tssActive := fun x => if x = m then true else s.tssActive x }, .ok)

end BandVerif.Signing
