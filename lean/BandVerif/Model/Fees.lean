/-
C13 (oracle part) model — Keeper.CollectFee / feeCollector.Collect inside PrepareRequest:
per raw request (in order), fee × ask_count is added to the running total, every denom of the
running total is compared with the caller's limit, then the coins move payer → treasury.
Any failure aborts the whole transaction (no transfer at all).  Core-only.
-/
namespace BandVerif.Fees

abbrev Coins := String → Nat

structure Source where
  fee : Coins
  treasury : Nat

structure State where
  bal : Nat → Coins
  denoms : List String

inductive Err | ok | notEnoughFee | insufficientFunds
  deriving DecidableEq, Repr

def geAll (s : State) (a b : Coins) : Bool := s.denoms.all fun d => decide (b d ≤ a d)
def isZero (s : State) (a : Coins) : Bool := s.denoms.all fun d => a d == 0
def addC (a b : Coins) : Coins := fun d => a d + b d
def subC (a b : Coins) : Coins := fun d => a d - b d
def mulC (a : Coins) (n : Nat) : Coins := fun d => a d * n

/-- the collection loop: (balances, collected so far) → result -/
def collect (s : State) (payer ask : Nat) (limit : Coins) : List Source → (Nat → Coins) → Coins → Option ((Nat → Coins) × Coins) × Err
  | [], bal, coll => (some (bal, coll), .ok)
  | src :: rest, bal, coll =>
    if isZero s src.fee then collect s payer ask limit rest bal coll
    else
      let fee := mulC src.fee ask
      let coll' := addC coll fee
      if !geAll s limit coll' then (none, .notEnoughFee)
      else if !geAll s (bal payer) fee then (none, .insufficientFunds)
      else
        let bal1 : Nat → Coins := fun a => if a = payer then subC (bal payer) fee else bal a
        let bal2 : Nat → Coins := fun a => if a = src.treasury then addC (bal1 src.treasury) fee else bal1 a
        collect s payer ask limit rest bal2 coll'

/-- the fee part of a data request: new balances, total fees, and the remaining limit stored in the request -/
def requestFees (s : State) (payer ask : Nat) (limit : Coins) (srcs : List Source) : State × Coins × Coins × Err :=
  match collect s payer ask limit srcs s.bal (fun _ => 0) with
  | (some (bal, coll), _) => ({ s with bal := bal }, coll, subC limit coll, .ok)
  | (none, e) => (s, fun _ => 0, limit, e)

end BandVerif.Fees
