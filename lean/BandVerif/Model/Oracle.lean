/-
C01 model — the oracle request life cycle: MsgReportData (ValidateBasic + msg server + CheckValidReport),
the pending-resolve list, EndBlocker (resolve every pending id, clear the list, ProcessExpiredRequests),
SaveResult.  `Must*` lookups that fail are a Go panic: `Out.panic`.  Setters overwrite exactly as in
Go; guards live where the Go code has them.  Validator status uses the C15 model.  Core-only.
-/
import BandVerif.Model.ValidatorStatus

namespace BandVerif.Oracle
open BandVerif.VStatus

structure Req where
  vals : List Nat          -- requested validators (the committee; chosen by C09's sampler)
  minCount : Nat
  eids : List Nat          -- external ids of the raw requests
  height : Int             -- request height
  time : Int               -- request time, Unix seconds
  clientId : String
  calldata : String        -- hex
  deriving DecidableEq, Repr, Inhabited

structure Res where
  clientId : String
  calldata : String
  askCount : Nat
  minCount : Nat
  ansCount : Nat
  requestTime : Int
  resolveTime : Int
  status : Nat             -- 1 SUCCESS, 2 FAILURE, 3 EXPIRED
  result : String          -- hex
  deriving DecidableEq, Repr, Inhabited

def statusSuccess : Nat := 1
def statusFailure : Nat := 2
def statusExpired : Nat := 3

structure State where
  requests : Nat → Option Req
  reports : Nat → List Nat       -- validators with a stored report, per request id
  results : Nat → Option Res
  pending : List Nat
  count : Nat
  lastExpired : Nat
  vstat : Nat → VS

def State.init : State :=
  { requests := fun _ => none, reports := fun _ => [], results := fun _ => none, pending := [],
    count := 0, lastExpired := 0, vstat := fun _ => VS.initial }

inductive RErr
  | ok | emptyReport | dupEid | tooLarge | alreadyExpired | requestNotFound | notRequested
  | alreadyReported | invalidSize | rawRequestNotFound
  deriving DecidableEq, Repr

/-- AddRequest: the next id, the request stored under it -/
def addRequest (s : State) (r : Req) : State :=
  { s with count := s.count + 1, requests := fun i => if i = s.count + 1 then some r else s.requests i }

/-- MsgReportData.ValidateBasic on the external-id list -/
def reportBasic (eids : List Nat) : RErr :=
  if eids.isEmpty then .emptyReport else if eids.Nodup then .ok else .dupEid

/-- CheckValidReport -/
def checkValidReport (s : State) (rid val : Nat) (eids : List Nat) : RErr :=
  match s.requests rid with
  | none => .requestNotFound
  | some req =>
    if val ∉ req.vals then .notRequested
    else if val ∈ s.reports rid then .alreadyReported
    else if eids.length ≠ req.eids.length then .invalidSize
    else if eids.all (fun e => req.eids.contains e) then .ok else .rawRequestNotFound

/-- everything that can reject a MsgReportData: ValidateBasic, the per-raw-report size limit
    (`oversize`), `RequestID <= lastExpired`, CheckValidReport — in the order the Go code checks. -/
def reportErr (s : State) (val rid : Nat) (eids : List Nat) (oversize : Bool) : RErr :=
  match reportBasic eids with
  | .ok =>
    if oversize then .tooLarge
    else if rid ≤ s.lastExpired then .alreadyExpired
    else checkValidReport s rid val eids
  | e => e

/-- the state change of an accepted report: store it (SetReport), and append the request to the
    pending-resolve list exactly when no result exists yet and the stored count now equals MinCount.
    (`MustGetRequest` cannot fail here: CheckValidReport has just read the request.) -/
def reportApply (s : State) (val rid : Nat) : State :=
  let s1 : State := { s with reports := fun i => if i = rid then s.reports rid ++ [val] else s.reports i }
  match s.requests rid with
  | none => s1
  | some req =>
    if (s.results rid).isNone && (s.reports rid ++ [val]).length == req.minCount
    then { s1 with pending := s.pending ++ [rid] } else s1

/-- the msg server's ReportData (a failed message leaves the state unchanged: the SDK drops the tx's cache) -/
def report (s : State) (val rid : Nat) (eids : List Nat) (oversize : Bool) : State × RErr :=
  match reportErr s val rid eids oversize with
  | .ok => (reportApply s val rid, .ok)
  | e => (s, e)

/-- the Result record SaveResult writes -/
def mkRes (r : Req) (ansCount : Nat) (now : Int) (status : Nat) (result : String) : Res :=
  { clientId := r.clientId, calldata := r.calldata, askCount := r.vals.length, minCount := r.minCount,
    ansCount := ansCount, requestTime := r.time, resolveTime := now, status := status, result := result }

/-- SaveResult: `none` = MustGetRequest panic -/
def saveResult (s : State) (id : Nat) (status : Nat) (result : String) (now : Int) : Option State :=
  match s.requests id with
  | none => none
  | some r =>
    some { s with results := fun i => if i = id then some (mkRes r (s.reports id).length now status result) else s.results i }

/-- resolve every pending id with the script outcome given by `outcome id` -/
def resolvePending (s : State) (outcome : Nat → Nat × String) (now : Int) : List Nat → Option State
  | [] => some s
  | id :: rest =>
    match saveResult s id (outcome id).1 (outcome id).2 now with
    | none => none
    | some s' => resolvePending s' outcome now rest

/-- MissReport for every requested validator without a stored report -/
def missAll (s : State) (id : Nat) (reqTime : Int) (nowNs : Int) : List Nat → State
  | [] => s
  | v :: rest =>
    let s' := if v ∈ s.reports id then s
      else { s with vstat := fun i => if i = v then missReport (s.vstat v) (reqTime * 1000000000) nowNs else s.vstat i }
    missAll s' id reqTime nowNs rest

/-- ProcessExpiredRequests from id `cur`, at most `fuel` ids; `none` = panic -/
def processExpired (expBlocks height : Int) (now nowNs : Int) : Nat → Nat → State → Option State
  | 0, _, s => some s
  | fuel + 1, cur, s =>
    if cur > s.count then some s else
    match s.requests cur with
    | none => none
    | some req =>
      if req.height + expBlocks > height then some s
      else
        let s1? := if (s.results cur).isNone then saveResult s cur statusExpired "" now else some s
        match s1? with
        | none => none
        | some s1 =>
          let s2 := missAll s1 cur req.time nowNs req.vals
          let s3 := { s2 with requests := fun i => if i = cur then none else s2.requests i,
                               reports := fun i => if i = cur then [] else s2.reports i,
                               lastExpired := cur }
          processExpired expBlocks height now nowNs fuel (cur + 1) s3

/-- oracle EndBlocker -/
def endBlock (s : State) (outcome : Nat → Nat × String) (expBlocks height : Int) (nowNs : Int) : Option State :=
  let now := unixOf nowNs
  match resolvePending s outcome now s.pending with
  | none => none
  | some s1 =>
    let s2 := { s1 with pending := [] }
    processExpired expBlocks height now nowNs (s2.count - s2.lastExpired + 1) (s2.lastExpired + 1) s2

end BandVerif.Oracle
