/-
C07 model — x/feeds voting: MsgVote (ValidateBasic + msg server), the feeds-vault lock,
per-signal total power, the by-power index order and CalculateNewCurrentFeeds.

Faithful to the Go code: `lockSum`, `calculateInterval` are the REGENERATED definitions in
`Generated/Feeds.lean`; per-signal totals use int64 wrap-around exactly as
`signalTotalPower.Power += powerDiff`.  Core-only (no Mathlib) so the driver links.
-/
import BandVerif.Common.I64
import BandVerif.Generated.Feeds
import BandVerif.Generated.Errors

namespace BandVerif.Signal
open BandVerif.Generated

structure Sig where
  id : String
  power : Int
  deriving DecidableEq, Repr, Inhabited

structure Params where
  maxCurrentFeeds : Nat
  powerStep : Int
  minInterval : Int
  maxInterval : Int
  deriving Repr, Inhabited

structure State where
  voters : List Nat            -- voters with a standing (possibly empty) vote record, no duplicates
  votes : Nat → List Sig       -- standing vote of each voter ([] when none)
  sigs : List String           -- every signal id that ever had power, no duplicates
  totals : String → Int        -- signal-total-power store (0 = no entry)
  locks : Nat → Int            -- feeds-vault lock of each voter

def State.empty : State :=
  { voters := [], votes := fun _ => [], sigs := [], totals := fun _ => 0, locks := fun _ => 0 }

inductive Err
  | ok | invalidSignal | idTooLarge | dup | tooMany | invalidPower | powerNotEnough | powerNegative
  deriving DecidableEq, Repr

def Err.code : Err → String
  | .ok => ""
  | .invalidSignal => Err.feeds_ErrInvalidSignal
  | .idTooLarge => Err.feeds_ErrSignalIDTooLarge
  | .dup => Err.feeds_ErrDuplicateSignalID
  | .tooMany => Err.feeds_ErrSubmittedSignalsTooLarge
  | .invalidPower => Err.restake_ErrInvalidPower
  | .powerNotEnough => Err.restake_ErrPowerNotEnough
  | .powerNegative => Err.feeds_ErrPowerNegative

/-- `MsgVote.ValidateBasic`: first failing signal in order decides the error. -/
def validateBasic : List Sig → List String → Err
  | [], _ => .ok
  | s :: rest, seen =>
    if s.id = "" then .invalidSignal
    else if s.power ≤ 0 then .invalidSignal
    else if s.id.utf8ByteSize > Feeds.maxSignalIDCharacters then .idTooLarge
    else if s.id ∈ seen then .dup
    else validateBasic rest (s.id :: seen)

def powerIn (l : List Sig) (id : String) : Int :=
  ((l.filter (fun s => s.id = id)).map (·.power)).sum

/-- int64 entry of `signalIDToPowerDiff` for one id: `-= prev` for every previous, `+= new` for every new. -/
def diff64 (old new : List Sig) (id : String) : Int :=
  let d := (old.filter (fun s => s.id = id)).foldl (fun a s => i64.sub a s.power) 0
  (new.filter (fun s => s.id = id)).foldl (fun a s => i64.add a s.power) d

def insertNew (l : List String) (x : String) : List String := if x ∈ l then l else l ++ [x]

/-- ids touched by a vote replacement, in `sort.Strings` order, without duplicates. -/
def touched (old new : List Sig) : List String :=
  let ids := (old ++ new).foldl (fun acc s => insertNew acc s.id) []
  ids.mergeSort (fun a b => decide (a ≤ b))

/-- Apply the per-signal diffs in key order; `none` as soon as a total becomes negative. -/
def applyDiffs (old new : List Sig) : List String → (String → Int) → Option (String → Int)
  | [], t => some t
  | id :: rest, t =>
    let v := i64.add (t id) (diff64 old new id)
    if v < 0 then none
    else applyDiffs old new rest (fun x => if x = id then v else t x)

/-- the power `LockVoterPower` hands to restake -/
def lockOf (signals : List Sig) : Int := Feeds.lockSum (signals.map (·.power))

/-- Everything that can reject a vote before the totals are touched:
    ValidateBasic, the signal-count limit, and restake.SetLockedPower
    (`!power.IsUint64()` then `totalPower.LT(power)`). -/
def preErr (p : Params) (signals : List Sig) (totalPower : Int) : Err :=
  match validateBasic signals [] with
  | .ok =>
    if signals.length > p.maxCurrentFeeds then .tooMany
    else if lockOf signals < 0 ∨ lockOf signals ≥ 18446744073709551616 then .invalidPower
    else if totalPower < lockOf signals then .powerNotEnough
    else .ok
  | e => e

def commit (st : State) (voter : Nat) (signals : List Sig) (t : String → Int) : State :=
  { voters := if voter ∈ st.voters then st.voters else st.voters ++ [voter]
    votes := fun v => if v = voter then signals else st.votes v
    sigs := (touched (st.votes voter) signals).foldl insertNew st.sigs
    totals := t
    locks := fun v => if v = voter then lockOf signals else st.locks v }

/-- The msg server's `Vote` (after ValidateBasic), wrapped in the transaction's atomicity:
    on error the pre-state is returned. `totalPower` is the voter's restake total power. -/
def vote (p : Params) (st : State) (voter : Nat) (signals : List Sig) (totalPower : Int) : State × Err :=
  match preErr p signals totalPower with
  | .ok =>
    match applyDiffs (st.votes voter) signals (touched (st.votes voter) signals) st.totals with
    | none => (st, .powerNegative)
    | some t => (commit st voter signals t, .ok)
  | e => (st, e)

/-- Unstake of `amount` (single allowed denom, only the feeds vault holds a lock in this model):
    allowed iff the remaining total power still covers the lock. -/
def unstakeAllowed (st : State) (voter : Nat) (totalPower amount : Int) : Bool :=
  decide (totalPower - amount ≥ st.locks voter)

/-! ### by-power index order and current feeds -/

/-- non-zero totals as (power, id). -/
def entries (st : State) : List (Int × String) :=
  (st.sigs.filter (fun id => st.totals id ≠ 0)).map (fun id => (st.totals id, id))

/-- `a` is visited no later than `b` by the reverse iterator over keys
    `0x80 ‖ be64(power) ‖ len(id) ‖ ^id` (descending key order). -/
def visitsBefore (a b : Int × String) : Bool :=
  if a.1 ≠ b.1 then decide (a.1 > b.1)
  else if a.2.utf8ByteSize ≠ b.2.utf8ByteSize then decide (a.2.utf8ByteSize > b.2.utf8ByteSize)
  else decide (a.2 ≤ b.2)

def byPowerDesc (st : State) : List (Int × String) := (entries st).mergeSort visitsBefore

structure FeedOut where
  id : String
  power : Int
  interval : Int
  deriving DecidableEq, Repr

/-- `CalculateNewCurrentFeeds`: first `MaxCurrentFeeds` index entries, keep those with interval > 0. -/
def newCurrentFeeds (p : Params) (st : State) : List FeedOut :=
  ((byPowerDesc st).take p.maxCurrentFeeds).filterMap (fun e =>
    let iv := Feeds.calculateInterval e.1 p.powerStep p.minInterval p.maxInterval
    if iv > 0 then some { id := e.2, power := e.1, interval := iv } else none)

end BandVerif.Signal

namespace BandVerif.Signal

/-- integer sum of all standing votes for a signal -/
def sumVotes (voters : List Nat) (votes : Nat → List Sig) (id : String) : Int :=
  (voters.map (fun v => powerIn (votes v) id)).sum

/-- the state invariant of C07 -/
def Inv (st : State) : Prop :=
  st.voters.Nodup ∧ (∀ v, v ∉ st.voters → st.votes v = []) ∧
  (∀ id, st.totals id = sumVotes st.voters st.votes id) ∧
  (∀ v, ∀ s ∈ st.votes v, 0 < s.power)

/-- run a history of votes (voter, signals, total power at that moment) -/
def runVotes (p : Params) (st : State) (ops : List (Nat × List Sig × Int)) : State :=
  ops.foldl (fun st o => (vote p st o.1 o.2.1 o.2.2).1) st

end BandVerif.Signal
