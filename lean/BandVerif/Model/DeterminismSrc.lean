/- C02, hand-maintained expectations about the nondeterminism/panic surface of the consensus code.
   NEVER regenerated: `Generated/MapRanges.lean` (written by /verif/tools/mapranges from the current /repo source with full
   type information) must be equal to these tables (Props/C02 `generated_surface_matches_model`, by `rfl`).
   Every map-range site carries the class that the determinism theorems of Props/C02 are stated for. -/
namespace BandVerif.Det

/-- how a `for … := range <map>` site uses the (randomised) iteration order -/
inductive Cls
  | cliOnly      -- builds client (autocli) options; never runs in block execution
  | buildsSet    -- inserts `key ↦ true` into another map: the resulting set is order-independent
  | sortedKeys   -- collects the keys, sorts them (`sort.Strings`), and only then iterates with side effects
  | existsCheck  -- returns an error as soon as some entry fails a test: error/no error is order-independent
  deriving DecidableEq, Repr

structure Site where
  src : String
  cls : Cls
  /-- runs inside block execution (begin/end-block or a message handler) rather than at genesis / snapshot restore / CLI -/
  inBlock : Bool

def s0 : String := "app/app.go:*BandApp.AutoCliOpts:for_,m:=rangeapp.mm.Modules{ifmoduleWithName,ok:=m.(module.HasName);ok{moduleName:=moduleWithName.Name()ifappModule,ok:=moduleWithName.(appmodule.AppModule);ok{modules[moduleName]=appModule}}}"
def s1 : String := "app/app.go:*BandApp.ModuleAccountAddrs:foracc:=rangemaccPerms{modAccAddrs[authtypes.NewModuleAddress(acc).String()]=true}"
def s2 : String := "x/feeds/keeper/genesis.go:CalculateSignalTotalPowersFromVotes:fork:=rangesignalIDToPower{keys=append(keys,k)} ;then sort.Strings(keys)"
def s3 : String := "x/feeds/keeper/msg_server.go:msgServer.Vote:fork:=rangesignalIDToPowerDiff{keys=append(keys,k)} ;then sort.Strings(keys)"
def s4 : String := "x/oracle/keeper/snapshotter.go:finalizeV1:for_,found:=rangefoundCode{if!found{returnfmt.Errorf(\"somecodeismissingfromthesnapshot\")}}"
def s5 : String := "x/tss/keeper/genesis.go:Keeper.InitGenesis:foraddr:=rangedesMapping{addresses=append(addresses,addr)} ;then sort.Strings(addresses)"
def s6 : String := "x/tss/types/genesis.go:GenesisState.Validate:forgroupID,size:=rangegroupSizes{ifsize!=memberCounts[groupID]{returnfmt.Errorf(\"group%dhas%dmembers,expect%d\",groupID,memberCounts[groupID],size)}}"

def mapRangeSites : List Site := [
  { src := s0, cls := .cliOnly, inBlock := false },
  { src := s1, cls := .buildsSet, inBlock := false },
  { src := s2, cls := .sortedKeys, inBlock := false },
  { src := s3, cls := .sortedKeys, inBlock := true },
  { src := s4, cls := .existsCheck, inBlock := false },
  { src := s5, cls := .sortedKeys, inBlock := false },
  { src := s6, cls := .existsCheck, inBlock := false }]

/-- goroutine starts and `select` statements in consensus packages: none -/
def concurrencySites : List String := []

/-- clock / randomness uses in consensus packages: only the member-side (off-chain) nonce and key generation helpers of pkg/tss;
    the chain's own randomness is pkg/bandrng seeded from the rolling seed (block hashes) -/
def clockSites : List String := ["pkg/tss/helpers.go:RandomBytes:crypto/rand.Read",
  "pkg/tss/types.go:DefaultNonce16Generator.RandBytes16:crypto/rand.Read"]

/-- functions that recover from panics (cross-module calls made from end-blockers) -/
def recoverSites : List String := ["x/oracle/keeper/result.go:Keeper.safeCreateSigning",
  "x/tunnel/keeper/keeper_packet.go:Keeper.SendPacket"]

/-- functions that run work in a cache context written only on success -/
def cacheContextSites : List String := ["x/bandtss/keeper/keeper_signing.go:Keeper.createSigningRequest",
  "x/bandtss/keeper/tss_callback.go:TSSCallback.OnGroupCreationCompleted",
  "x/globalfee/feechecker/feechecker.go:FeeChecker.IsBypassMinFeeTx",
  "x/oracle/keeper/result.go:Keeper.safeCreateSigning",
  "x/tss/keeper/keeper_signing_endblock.go:Keeper.HandleSigningEndBlock",
  "x/tunnel/keeper/keeper_packet.go:Keeper.ProduceActiveTunnelPacket"]

/-- explicit `panic(...)` statements in keeper / abci files of the band modules (per function) -/
def panicSites : List String := ["x/bandtss/keeper/keeper.go:NewKeeper:panic*2",
  "x/bandtss/keeper/keeper_signing.go:Keeper.MustGetSigning:panic*1",
  "x/bandtss/keeper/tss_callback.go:TSSCallback.OnGroupCreationCompleted:panic*1",
  "x/bandtss/keeper/tss_callback.go:TSSCallback.OnSigningCompleted:panic*3",
  "x/bandtss/keeper/tss_callback.go:TSSCallback.OnSigningTimeout:panic*1",
  "x/bank/keeper/keeper.go:WrappedBankKeeper.BurnCoins:panic*2",
  "x/feeds/keeper/keeper.go:NewKeeper:panic*1",
  "x/oracle/keeper/data_source.go:Keeper.MustGetDataSource:panic*1",
  "x/oracle/keeper/oracle_script.go:Keeper.MustGetOracleScript:panic*1",
  "x/oracle/keeper/request.go:Keeper.MustGetRequest:panic*1",
  "x/oracle/keeper/result.go:Keeper.MustGetResult:panic*1",
  "x/oracle/keeper/validator_status.go:Keeper.AllocateTokens:panic*1",
  "x/restake/keeper/keeper.go:NewKeeper:panic*2",
  "x/restake/keeper/keeper_vault.go:Keeper.MustGetVault:panic*1",
  "x/tss/keeper/keeper.go:NewKeeper:panic*1",
  "x/tss/keeper/keeper_group.go:Keeper.MustGetGroup:panic*1",
  "x/tss/keeper/keeper_member.go:Keeper.MustGetMember:panic*1",
  "x/tss/keeper/keeper_member.go:Keeper.MustGetMembers:panic*1",
  "x/tss/keeper/keeper_signing.go:Keeper.MustGetSigning:panic*1",
  "x/tss/keeper/keeper_signing.go:Keeper.MustGetSigningAttempt:panic*1",
  "x/tunnel/keeper/keeper.go:NewKeeper:panic*2",
  "x/tunnel/keeper/keeper_tunnel.go:Keeper.MustGetTunnel:panic*1"]

/-- calls of `MustGet*` / `MustAccAddressFromBech32` in keeper / abci files (per function) -/
def mustCallSites : List String := ["x/bandtss/keeper/keeper_member.go:Keeper.AddMembers:MustAccAddressFromBech32*1",
  "x/bandtss/keeper/keeper_member.go:Keeper.AddMembers:MustGetMembers*1",
  "x/bandtss/keeper/keeper_member.go:Keeper.DeleteMembers:MustAccAddressFromBech32*1",
  "x/bandtss/keeper/keeper_member.go:Keeper.DeleteMembers:MustGetMembers*1",
  "x/bandtss/keeper/keeper_member.go:Keeper.SetMember:MustAccAddressFromBech32*1",
  "x/bandtss/keeper/keeper_reward.go:Keeper.AllocateTokens:MustAccAddressFromBech32*1",
  "x/bandtss/keeper/keeper_reward.go:Keeper.AllocateTokens:MustGetMembers*1",
  "x/bandtss/keeper/tss_callback.go:TSSCallback.OnGroupCreationCompleted:MustGetGroup*1",
  "x/bandtss/keeper/tss_callback.go:TSSCallback.OnSigningCompleted:MustGetSigning*1",
  "x/bandtss/keeper/tss_callback.go:TSSCallback.OnSigningTimeout:MustGetSigning*1",
  "x/feeds/keeper/keeper_signal.go:Keeper.SetVote:MustAccAddressFromBech32*1",
  "x/oracle/keeper/data_source.go:Keeper.MustEditDataSource:MustGetDataSource*1",
  "x/oracle/keeper/keeper.go:Keeper.GetFile:MustGetFile*1",
  "x/oracle/keeper/msg_server.go:msgServer.ReportData:MustGetRequest*1",
  "x/oracle/keeper/oracle_script.go:Keeper.MustEditOracleScript:MustGetOracleScript*1",
  "x/oracle/keeper/owasm.go:Keeper.ResolveRequest:MustGetOracleScript*1",
  "x/oracle/keeper/owasm.go:Keeper.ResolveRequest:MustGetRequest*1",
  "x/oracle/keeper/request.go:Keeper.ProcessExpiredRequests:MustGetRequest*1",
  "x/oracle/keeper/result.go:Keeper.SaveResult:MustGetRequest*1",
  "x/oracle/keeper/result.go:Keeper.safeCreateSigning:MustAccAddressFromBech32*1",
  "x/restake/keeper/keeper_lock.go:Keeper.SetLock:MustAccAddressFromBech32*1",
  "x/restake/keeper/keeper_stake.go:Keeper.SetStake:MustAccAddressFromBech32*1",
  "x/tss/keeper/keeper_group_endblock.go:Keeper.HandleExpiredGroups:MustGetGroup*1",
  "x/tss/keeper/keeper_group_endblock.go:Keeper.HandleProcessGroup:MustGetGroup*1",
  "x/tss/keeper/keeper_group_endblock.go:Keeper.HandleProcessGroup:MustGetMembers*1",
  "x/tss/keeper/keeper_member.go:Keeper.GetAvailableMembers:MustAccAddressFromBech32*1",
  "x/tss/keeper/keeper_signing.go:Keeper.MustGetCurrentAssignedMembers:MustAccAddressFromBech32*1",
  "x/tss/keeper/keeper_signing.go:Keeper.MustGetCurrentAssignedMembers:MustGetSigning*1",
  "x/tss/keeper/keeper_signing.go:Keeper.MustGetCurrentAssignedMembers:MustGetSigningAttempt*1",
  "x/tss/keeper/keeper_signing_endblock.go:Keeper.AggregatePartialSignatures:MustGetCurrentAssignedMembers*1",
  "x/tss/keeper/keeper_signing_endblock.go:Keeper.AggregatePartialSignatures:MustGetGroup*1",
  "x/tss/keeper/keeper_signing_endblock.go:Keeper.AggregatePartialSignatures:MustGetSigning*1",
  "x/tss/keeper/keeper_signing_endblock.go:Keeper.HandleExpiredSignings:MustGetGroup*1",
  "x/tss/keeper/keeper_signing_endblock.go:Keeper.HandleExpiredSignings:MustGetSigning*1",
  "x/tss/keeper/keeper_signing_endblock.go:Keeper.HandleExpiredSignings:MustGetSigningAttempt*1",
  "x/tss/keeper/keeper_signing_endblock.go:Keeper.HandleFailedSigning:MustGetGroup*1",
  "x/tss/keeper/keeper_signing_endblock.go:Keeper.HandleFailedSigning:MustGetSigning*1",
  "x/tss/keeper/keeper_signing_partial_signature.go:Keeper.GetMembersNotSubmitSignature:MustAccAddressFromBech32*1",
  "x/tss/keeper/keeper_signing_partial_signature.go:Keeper.GetMembersNotSubmitSignature:MustGetSigningAttempt*1",
  "x/tss/keeper/keeper_signing_query.go:Keeper.getPendingSigningByFilterFunc:MustGetSigning*1",
  "x/tunnel/keeper/keeper_deposit.go:Keeper.SetDeposit:MustAccAddressFromBech32*1",
  "x/tunnel/keeper/keeper_packet.go:Keeper.CreatePacket:MustAccAddressFromBech32*1",
  "x/tunnel/keeper/keeper_packet.go:Keeper.SendPacket:MustAccAddressFromBech32*1"]

end BandVerif.Det
