/-
C03 model — BAND-TSS (FROST-style) signing as pkg/tss and x/tss compute it, written ONCE against a record of
scalar/group operations: the driver instantiates it with secp256k1 (Exec/Secp256k1.lean), the theorems with an
arbitrary module over a field (Lemmas/Frost.lean).  Hashes (binding factor, challenge) are inputs.  Core-only.
-/
namespace BandVerif.Frost

structure Ops (S G : Type) where
  sadd : S → S → S
  smul : S → S → S
  gadd : G → G → G
  gneg : G → G
  act : S → G → G
  base : G
  zeroG : G
  szero : S

variable {S G : Type}

/-- `ComputeOwnPubNonce`: D + ρ·E -/
def ownPubNonce (o : Ops S G) (D E : G) (rho : S) : G := o.gadd D (o.act rho E)

/-- `ComputeOwnPrivNonce`: d + ρ·e -/
def ownPrivNonce (o : Ops S G) (d e rho : S) : S := o.sadd d (o.smul rho e)

/-- `ComputeGroupPublicNonce` / sumPoints -/
def sumG (o : Ops S G) (l : List G) : G := l.foldl o.gadd o.zeroG
def sumS (o : Ops S G) (l : List S) : S := l.foldl o.sadd o.szero

/-- `schnorr.ComputeSignatureS`: c·x + k -/
def sigS (o : Ops S G) (x k c : S) : S := o.sadd (o.smul c x) k

/-- `Sign` with a Lagrange coefficient: (k·G, (c·λ)·x + k) -/
def signPartial (o : Ops S G) (x k c lam : S) : G × S := (o.act k o.base, sigS o x k (o.smul c lam))

/-- `schnorr.Verify` (generator = base): R' = s·G − c·Q must not be infinity and must equal the expected R -/
def schnorrVerify [DecidableEq G] (o : Ops S G) (expectR : G) (s c : S) (Q : G) : Bool :=
  let R' := o.gadd (o.act s o.base) (o.gneg (o.act c Q))
  decide (R' ≠ o.zeroG) && decide (R' = expectR)

/-- x/tss `SubmitSignature`'s two checks: the R of the partial signature is the member's assigned public nonce,
    and the Schnorr relation holds with challenge c·λ under the member's public key -/
def acceptPartial [DecidableEq G] (o : Ops S G) (assignedNonce : G) (R : G) (z c lam : S) (Y : G) : Bool :=
  decide (R = assignedNonce) && schnorrVerify o R z (o.smul c lam) Y

/-- `CombineSignatures` -/
def combine (o : Ops S G) (parts : List (G × S)) : G × S := (sumG o (parts.map (·.1)), sumS o (parts.map (·.2)))

/-- `VerifyGroupSigningSignature` (challenge computed from the signature's own R by the caller) -/
def verifyGroup [DecidableEq G] (o : Ops S G) (sig : G × S) (c : S) (Y : G) : Bool := schnorrVerify o sig.1 sig.2 c Y

end BandVerif.Frost
