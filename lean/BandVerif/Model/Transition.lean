/-
C18 model — the bandtss group-transition state machine: TransitionGroup / ForceTransitionGroup,
the five tss callbacks, the bandtss end-blocker (execute or drop), the member list.
tss-side outcomes (group creation completed/failed/expired, signing completed/failed) are events fed
in the order the tss end-blocker produces them.  Core-only.
-/
namespace BandVerif.Transition

def stCreating : Nat := 1
def stWaitingSign : Nat := 2
def stWaitingExec : Nat := 3

structure Tr where
  status : Nat
  execTime : Int          -- ns
  signingID : Nat
  incoming : Nat
  current : Nat
  isForce : Bool
  deriving DecidableEq, Repr

structure State where
  currentGroup : Nat
  transition : Option Tr
  /-- members of each tss group (addresses as numbers) -/
  groupMembers : Nat → List Nat
  /-- tss group ACTIVE? -/
  groupActive : Nat → Bool
  /-- bandtss member store: (address, group id) -/
  bmembers : List (Nat × Nat)
  minDur : Int
  maxDur : Int

inductive Err
  | ok | invalidSigner | invalidExecTime | inProgress | sameGroup | groupNotFound | incomingNotActive | memberExists | createGroupFailed
  deriving DecidableEq, Repr

def execTimeOk (s : State) (now execTime : Int) : Bool :=
  decide (now + s.minDur ≤ execTime) && decide (execTime ≤ now + s.maxDur)

def addMembers (s : State) (gid : Nat) : Option State :=
  if (s.groupMembers gid).any (fun a => s.bmembers.contains (a, gid)) then none
  else some { s with bmembers := s.bmembers ++ (s.groupMembers gid).map (fun a => (a, gid)) }

def deleteMembers (s : State) (gid : Nat) : State := { s with bmembers := s.bmembers.filter (fun e => e.2 ≠ gid) }

/-- MsgTransitionGroup; `created` = the id tss.CreateGroup returned (none: CreateGroup rejected the members/threshold) -/
def propose (s : State) (authorityOk : Bool) (now execTime : Int) (created : Option (Nat × List Nat)) : State × Err :=
  if !authorityOk then (s, .invalidSigner)
  else if !execTimeOk s now execTime then (s, .invalidExecTime)
  else if s.transition.isSome then (s, .inProgress)
  else match created with
    | none => (s, .createGroupFailed)
    | some (gid, members) =>
      ({ s with groupMembers := fun g => if g = gid then members else s.groupMembers g,
                 transition := some { status := stCreating, execTime := execTime, signingID := 0, incoming := gid,
                                      current := s.currentGroup, isForce := false } }, .ok)

/-- MsgForceTransitionGroup -/
def force (s : State) (authorityOk : Bool) (now execTime : Int) (gid : Nat) (exists_ : Bool) : State × Err :=
  if !authorityOk then (s, .invalidSigner)
  else if !execTimeOk s now execTime then (s, .invalidExecTime)
  else if s.transition.isSome then (s, .inProgress)
  else if s.currentGroup = gid then (s, .sameGroup)
  else if !exists_ then (s, .groupNotFound)
  else if !s.groupActive gid then (s, .incomingNotActive)
  else match addMembers s gid with
    | none => (s, .memberExists)
    | some s1 =>
      ({ s1 with transition := some { status := stWaitingExec, execTime := execTime, signingID := 0, incoming := gid,
                                      current := s.currentGroup, isForce := true } }, .ok)

inductive Event
  | creationCompleted (gid : Nat) (signOk : Bool) (sid : Nat)   -- signOk/sid: outcome of CreateTransitionSigning
  | creationFailed (gid : Nat)
  | creationExpired (gid : Nat)
  | signingCompleted (sid : Nat)
  | signingFailed (sid : Nat)

/-- one tss callback; `none` = a Go panic (AddMembers failing inside a callback) -/
def onEvent (s : State) (now : Int) : Event → Option State
  | .creationCompleted gid signOk sid =>
    let s0 := { s with groupActive := fun g => if g = gid then true else s.groupActive g }
    match s0.transition with
    | none => some s0
    | some t =>
      if t.incoming ≠ gid ∨ t.status ≠ stCreating ∨ t.execTime < now then some s0
      else if t.current = 0 then
        match addMembers s0 gid with
        | none => none
        | some s1 => some { s1 with transition := some { t with status := stWaitingExec } }
      else if signOk then some { s0 with transition := some { t with status := stWaitingSign, signingID := sid } }
      else some { s0 with transition := none }
  | .creationFailed gid | .creationExpired gid =>
    match s.transition with
    | some t => if t.incoming = gid ∧ t.status = stCreating then some { s with transition := none } else some s
    | none => some s
  | .signingCompleted sid =>
    match s.transition with
    | some t =>
      if sid = t.signingID ∧ t.status = stWaitingSign then
        match addMembers s t.incoming with
        | none => none
        | some s1 => some { s1 with transition := some { t with status := stWaitingExec } }
      else some s
    | none => some s
  | .signingFailed sid =>
    match s.transition with
    | some t => if sid = t.signingID ∧ t.status = stWaitingSign then some { s with transition := none } else some s
    | none => some s

def onEvents (now : Int) : List Event → State → Option State
  | [], s => some s
  | e :: rest, s => match onEvent s now e with
    | none => none
    | some s' => onEvents now rest s'

/-- bandtss EndBlocker -/
def endBlock (s : State) (now : Int) : State :=
  match s.transition with
  | none => s
  | some t =>
    if t.execTime > now then s
    else if t.status ≠ stWaitingExec then { s with transition := none }
    else
      let s1 := if t.current ≠ 0 then deleteMembers s t.current else s
      { s1 with currentGroup := t.incoming, transition := none }

/-- the group an incoming-group signing is additionally requested from (GetIncomingGroupID) -/
def incomingGroup (s : State) : Nat :=
  match s.transition with
  | some t => if t.status = stWaitingExec then t.incoming else 0
  | none => 0

end BandVerif.Transition
