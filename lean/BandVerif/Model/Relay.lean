/-
C12 model — relay proofs.  Two sides:
 * what client/grpc/oracle/proof extracts from the node's data (`getMultiStoreProof`, `getMerklePaths`,
   `leafVersion`, `headerParts`, `votePrefix`/`voteSuffix`, `encodeTime`), written as the Go code computes it;
 * the bridge algorithm that consumes it (`iavlRoot`, `appHash`, `blockHash`, `voteMessage`), and the ground
   truth it must reproduce (RFC-6962 `simpleRoot` of the mounted stores / of the 14 header fields).
Bytes are `Nat`s < 256; `H` is SHA-256 in the driver and a parameter in the theorems.  Core-only.
-/
namespace BandVerif.Relay

abbrev Bytes := List Nat

/-! ### varints -/
/-- protobuf / binary.PutUvarint -/
def uvarint (n : Nat) : Bytes :=
  if h : n < 128 then [n] else (n % 128 + 128) :: uvarint (n / 128)
termination_by n
decreasing_by omega

/-- binary.PutVarint (zig-zag) of a non-negative value -/
def varintNonneg (n : Nat) : Bytes := uvarint (2 * n)

/-- binary.Uvarint: (value, bytes read); `none` when the input ends inside a varint -/
def readUvarint : Bytes → Option (Nat × Nat)
  | [] => none
  | b :: rest =>
    if b < 128 then some (b, 1)
    else match readUvarint rest with
      | some (v, k) => some (b - 128 + 128 * v, k + 1)
      | none => none

/-- binary.Varint (zig-zag decode) -/
def readVarint (bs : Bytes) : Option (Int × Nat) :=
  match readUvarint bs with
  | some (u, k) => some (if u % 2 = 0 then (u / 2 : Nat) else -((u / 2 : Nat) : Int) - 1, k)
  | none => none

/-! ### RFC-6962 Merkle trees (cometbft crypto/merkle) -/
def leafHash (H : Bytes → Bytes) (b : Bytes) : Bytes := H (0 :: b)
def innerHash (H : Bytes → Bytes) (l r : Bytes) : Bytes := H (1 :: (l ++ r))

/-- largest power of two strictly less than n (n ≥ 2), by doubling with fuel -/
def splitGo : Nat → Nat → Nat → Nat
  | 0, k, _ => k
  | f + 1, k, n => if 2 * k < n then splitGo f (2 * k) n else k
def splitPoint (n : Nat) : Nat := splitGo n 1 n

def rootGo (H : Bytes → Bytes) : Nat → List Bytes → Bytes
  | 0, _ => H []
  | f + 1, items =>
    match items with
    | [] => H []
    | [x] => leafHash H x
    | _ =>
      let k := splitPoint items.length
      innerHash H (rootGo H f (items.take k)) (rootGo H f (items.drop k))

/-- merkle.HashFromByteSlices -/
def simpleRoot (H : Bytes → Bytes) (items : List Bytes) : Bytes := rootGo H items.length items

/-! ### multistore -/
/-- the leaf of one store in the commit-info tree: len(name) ‖ name ‖ 0x20 ‖ H(store hash) -/
def storeLeaf (H : Bytes → Bytes) (name : Bytes) (storeHash : Bytes) : Bytes :=
  uvarint name.length ++ name ++ [32] ++ H storeHash

structure Step where
  pre : Bytes
  suf : Bytes
  deriving DecidableEq, Repr

structure MSProof where
  oracleIAVLStateHash : Bytes
  mint : Bytes
  paramsToRestake : Bytes
  rollingseedToTransfer : Bytes
  tssToUpgrade : Bytes
  authToIcahost : Bytes
  deriving DecidableEq, Repr

def stepAt (path : List Step) (i : Nat) : Step := path.getD i { pre := [], suf := [] }

/-- `GetMultiStoreProof`: positional reads of the multistore existence proof -/
def getMultiStoreProof (value : Bytes) (path : List Step) : MSProof :=
  { oracleIAVLStateHash := value
    mint := (stepAt path 0).pre.drop 1
    paramsToRestake := (stepAt path 1).suf
    rollingseedToTransfer := (stepAt path 2).suf
    tssToUpgrade := (stepAt path 3).suf
    authToIcahost := (stepAt path 4).pre.drop 1 }

/-- bridge `MultiStore.getAppHash` -/
def appHash (H : Bytes → Bytes) (m : MSProof) : Bytes :=
  let oracleLeaf := leafHash H (storeLeaf H [111, 114, 97, 99, 108, 101] m.oracleIAVLStateHash)
  innerHash H m.authToIcahost
    (innerHash H (innerHash H (innerHash H (innerHash H m.mint oracleLeaf) m.paramsToRestake) m.rollingseedToTransfer) m.tssToUpgrade)

/-! ### IAVL -/
structure IPath where
  isDataOnRight : Bool
  height : Nat
  size : Nat
  version : Nat
  sibling : Bytes
  deriving DecidableEq, Repr

/-- one step of `GetMerklePaths`; `none` where the Go code would panic (slice out of range) -/
def merklePathOf (s : Step) : Option IPath :=
  match readVarint s.pre with
  | none => none
  | some (h, n1) =>
    match readVarint (s.pre.drop n1) with
    | none => none
    | some (sz, n2) =>
      match readVarint (s.pre.drop (n1 + n2)) with
      | none => none
      | some (v, n3) =>
        let plen := n1 + n2 + n3 + 1
        -- uint32(height), uint64(size), uint64(version) conversions of the int64 values
        let u32 (i : Int) : Nat := (i % 4294967296).toNat
        let u64 (i : Int) : Nat := (i % 18446744073709551616).toNat
        if plen ≠ s.pre.length then
          if plen ≤ s.pre.length - 1 then
            some { isDataOnRight := true, height := u32 h, size := u64 sz, version := u64 v, sibling := (s.pre.take (s.pre.length - 1)).drop plen }
          else none
        else
          if s.suf.length ≥ 1 then
            some { isDataOnRight := false, height := u32 h, size := u64 sz, version := u64 v, sibling := s.suf.drop 1 }
          else none

def getMerklePaths : List Step → Option (List IPath)
  | [] => some []
  | s :: rest =>
    match merklePathOf s, getMerklePaths rest with
    | some p, some ps => some (p :: ps)
    | _, _ => none

/-- `decodeIAVLLeafPrefix`: third varint of the leaf prefix, as uint64 -/
def leafVersion (prefix_ : Bytes) : Option Nat :=
  match readVarint prefix_ with
  | none => none
  | some (_, n1) =>
    match readVarint (prefix_.drop n1) with
    | none => none
    | some (_, n2) =>
      match readVarint (prefix_.drop (n1 + n2)) with
      | none => none
      | some (v, _) => some (v % 18446744073709551616).toNat

/-- bridge: fold the leaf hash up the path (`Bridge.verifyOracleData`); the bridge receives uint8 height -/
def iavlRoot (H : Bytes → Bytes) (leaf : Bytes) : List IPath → Bytes
  | [] => leaf
  | p :: rest =>
    let pre := varintNonneg (p.height % 256) ++ varintNonneg p.size ++ varintNonneg p.version
    let cur := if p.isDataOnRight then H (pre ++ [32] ++ p.sibling ++ [32] ++ leaf) else H (pre ++ [32] ++ leaf ++ [32] ++ p.sibling)
    iavlRoot H cur rest

def be64 (n : Nat) : Bytes := (List.range 8).map fun i => (n >>> (8 * (7 - i))) % 256

/-- bridge leaf of a stored result: key 0xff ‖ be64(id), value hash H(result bytes) -/
def resultLeafHash (H : Bytes → Bytes) (version rid : Nat) (value : Bytes) : Bytes :=
  H ([0, 2] ++ varintNonneg version ++ [9, 255] ++ be64 rid ++ [32] ++ H value)

/-- bridge leaf of the request count: key 0x00 ‖ "RequestCount", value be64(count) -/
def countLeafHash (H : Bytes → Bytes) (version count : Nat) : Bytes :=
  H ([0, 2] ++ varintNonneg version ++ [13, 0] ++ [82, 101, 113, 117, 101, 115, 116, 67, 111, 117, 110, 116] ++ [32] ++ H (be64 count))

/-! ### IAVL trees (what the node proves from; used by the end-to-end theorem and the driver's shape check) -/
/-- an IAVL tree as its hashes see it -/
inductive ITree where
  | leaf (key value : Bytes) (version : Nat)
  | inner (height size version : Nat) (l r : ITree)

/-- iavl `node._hash` / `writeHashBytes`: height, size, version as zig-zag varints, then for a leaf the
    length-prefixed key and the length-prefixed hash of the value, for an inner node the two length-prefixed child hashes
    (32-byte hashes: length byte 0x20) -/
def ITree.hash (H : Bytes → Bytes) : ITree → Bytes
  | .leaf k v ver => H ([0, 2] ++ varintNonneg ver ++ uvarint k.length ++ k ++ [32] ++ H v)
  | .inner h s v l r => H (varintNonneg h ++ (varintNonneg s ++ (varintNonneg v ++ ([32] ++ l.hash H ++ [32] ++ r.hash H))))

/-- the fields fit their Go types (int8 height, int64 size and version) -/
def ITree.WF : ITree → Prop
  | .leaf _ _ ver => ver < 2 ^ 63
  | .inner h s v l r => h < 256 ∧ s < 2 ^ 63 ∧ v < 2 ^ 63 ∧ l.WF ∧ r.WF

/-- an IAVL inner node as the ICS-23 proof presents it: the node header (height, size, version as zig-zag varints),
    then 0x20‖left‖0x20‖right with the proven child cut out -/
def iavlStep (h sz v : Nat) (sib : Bytes) (dataOnRight : Bool) : Step :=
  if dataOnRight then { pre := varintNonneg h ++ (varintNonneg sz ++ (varintNonneg v ++ ([32] ++ sib ++ [32]))), suf := [] }
  else { pre := varintNonneg h ++ (varintNonneg sz ++ (varintNonneg v ++ [32])), suf := 32 :: sib }

/-- the existence proof of the leaf reached by `dirs` (true = right child): (the leaf, the inner ops leaf-to-root) -/
def ITree.walk (H : Bytes → Bytes) : ITree → List Bool → Option (ITree × List Step)
  | .leaf k v ver, [] => some (.leaf k v ver, [])
  | .leaf _ _ _, _ :: _ => none
  | .inner _ _ _ _ _, [] => none
  | .inner h s v l r, d :: ds =>
    match (if d then r else l).walk H ds with
    | some (lf, steps) => some (lf, steps ++ [iavlStep h s v ((if d then l else r).hash H) d])
    | none => none

/-! ### header -/
/-- cdcEncode of a byte string (gogotypes.BytesValue / StringValue): empty ↦ empty -/
def cdcBytes (b : Bytes) : Bytes := if b.isEmpty then [] else 10 :: (uvarint b.length ++ b)

/-- protobuf field of a uvarint, omitted when zero -/
def pbVarint (tag n : Nat) : Bytes := if n = 0 then [] else tag :: uvarint n
def pbBytes (tag : Nat) (b : Bytes) : Bytes := if b.isEmpty then [] else tag :: (uvarint b.length ++ b)

/-- `encodeTime` (seconds, nanos as protobuf Timestamp fields, zero omitted) -/
def encodeTime (sec nanos : Nat) : Bytes := pbVarint 8 sec ++ pbVarint 16 nanos

structure Header where
  versionBlock : Nat
  versionApp : Nat
  chainID : Bytes
  height : Nat
  sec : Nat
  nanos : Nat
  lbHash : Bytes
  lbTotal : Nat
  lbPsh : Bytes
  lastCommitHash : Bytes
  dataHash : Bytes
  valsHash : Bytes
  nextValsHash : Bytes
  consHash : Bytes
  appHash : Bytes
  lastResHash : Bytes
  evHash : Bytes
  proposer : Bytes

/-- the 14 leaves of cometbft `Header.Hash` -/
def headerLeaves (h : Header) : List Bytes :=
  [ pbVarint 8 h.versionBlock ++ pbVarint 16 h.versionApp,
    cdcBytes h.chainID,
    pbVarint 8 h.height,
    encodeTime h.sec h.nanos,
    pbBytes 10 h.lbHash ++ (let psh := pbVarint 8 h.lbTotal ++ pbBytes 18 h.lbPsh; 18 :: (uvarint psh.length ++ psh)),
    cdcBytes h.lastCommitHash, cdcBytes h.dataHash, cdcBytes h.valsHash, cdcBytes h.nextValsHash, cdcBytes h.consHash,
    cdcBytes h.appHash, cdcBytes h.lastResHash, cdcBytes h.evHash, cdcBytes h.proposer ]

def headerHash (H : Bytes → Bytes) (h : Header) : Bytes := simpleRoot H (headerLeaves h)

structure Parts where
  versionChain : Bytes
  height : Nat
  sec : Nat
  nanos : Nat
  lastBlockOther : Bytes
  nextValsCons : Bytes
  lastRes : Bytes
  evProposer : Bytes
  deriving DecidableEq, Repr

/-- `GetBlockHeaderMerkleParts` -/
def headerParts (H : Bytes → Bytes) (h : Header) : Parts :=
  let l := headerLeaves h
  let g (i : Nat) : Bytes := l.getD i []
  { versionChain := simpleRoot H [g 0, g 1], height := h.height, sec := h.sec, nanos := h.nanos,
    lastBlockOther := simpleRoot H [g 4, g 5, g 6, g 7], nextValsCons := simpleRoot H [g 8, g 9],
    lastRes := simpleRoot H [g 11], evProposer := simpleRoot H [g 12, g 13] }

/-- bridge `BlockHeaderMerkleParts.getBlockHeader` -/
def blockHash (H : Bytes → Bytes) (p : Parts) (appHash : Bytes) : Bytes :=
  innerHash H
    (innerHash H (innerHash H p.versionChain (innerHash H (leafHash H (8 :: uvarint p.height)) (leafHash H (encodeTime p.sec p.nanos)))) p.lastBlockOther)
    (innerHash H (innerHash H p.nextValsCons (innerHash H (leafHash H ([10, 32] ++ appHash)) p.lastRes)) p.evProposer)

/-! ### canonical vote -/
def sfixed64 (n : Nat) : Bytes := (List.range 8).map fun i => (n >>> (8 * i)) % 256

/-- protobuf CanonicalVote{type, height, round} (no block id, zero timestamp, no chain id), length-delimited -/
def votePrefixDelimited (typ height round : Nat) : Bytes :=
  let body := pbVarint 8 typ ++ (if height = 0 then [] else 17 :: sfixed64 height) ++ (if round = 0 then [] else 25 :: sfixed64 round) ++
    [42, 11, 8, 128, 146, 184, 195, 152, 254, 255, 255, 255, 1]
  uvarint body.length ++ body

/-- `GetPrefix`: drop the length byte and the 13 bytes of the default timestamp -/
def getPrefix (typ height round : Nat) : Bytes :=
  let d := votePrefixDelimited typ height round
  let length := d.getD 0 0
  (d.take (length - 12)).drop 1

/-- common part of every precommit's sign bytes: (prefix, suffix) around the block hash -/
def commonVote (height round total : Nat) (psh : Bytes) : Bytes × Bytes :=
  let pshMsg := pbVarint 8 total ++ pbBytes 18 psh
  (getPrefix 2 height round ++ [34, 72, 10, 32], 18 :: (uvarint pshMsg.length ++ pshMsg))

/-- the bytes the bridge hashes and recovers the signer from (`TMSignature.checkTimeAndRecoverSigner`) -/
def voteMessage (pre suf blockHash ts chainID : Bytes) : Bytes :=
  let body := pre ++ blockHash ++ suf ++ [42, ts.length] ++ ts ++ [50, chainID.length] ++ chainID
  body.length % 256 :: body

/-- cometbft `VoteSignBytes`: length-delimited CanonicalVote with all fields (precommit for a block) -/
def canonicalVoteBytes (height round : Nat) (blockHash : Bytes) (total : Nat) (psh : Bytes) (sec nanos : Nat) (chainID : Bytes) : Bytes :=
  let pshMsg := pbVarint 8 total ++ pbBytes 18 psh
  let bid := pbBytes 10 blockHash ++ (18 :: (uvarint pshMsg.length ++ pshMsg))
  let ts := encodeTime sec nanos
  let body := pbVarint 8 2 ++ (if height = 0 then [] else 17 :: sfixed64 height) ++ (if round = 0 then [] else 25 :: sfixed64 round) ++
    (34 :: (uvarint bid.length ++ bid)) ++ (42 :: (uvarint ts.length ++ ts)) ++ pbBytes 50 chainID
  uvarint body.length ++ body

end BandVerif.Relay
