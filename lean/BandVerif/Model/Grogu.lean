/-
C20 model — grogu: the signaller's decision for one signal (`filterAndPrepareSignalPrices` → `isPriceValid` →
`shouldUpdatePrice`, `isNonUrgentUnavailablePrices`, `isDeviated`, `calculateAssignedTime`), the chain's acceptance
rule for a submitted price (`SubmitSignalPrices`), and the in-flight bookkeeping shared by signaller and submitter
(`pendingSignalIDs`).  Times are Unix seconds.  Core-only.
-/
namespace BandVerif.Grogu

def fixedIntervalOffset : Int := 10
def timeBuffer : Int := 3

def statusUnsupported : Nat := 1
def statusUnavailable : Nat := 2
def statusAvailable : Nat := 3

structure Feed where
  interval : Int
  deviationBP : Int
  deriving DecidableEq, Repr

structure OldPrice where
  status : Nat
  price : Nat
  ts : Int
  deriving DecidableEq, Repr

structure NewPrice where
  status : Nat
  price : Nat
  deriving DecidableEq, Repr

/-- `isDeviated` in exact arithmetic: ⌊|new−old|·10000 / old⌋ ≥ bp  ⇔  |new−old|·10000 ≥ bp·old (old > 0) -/
def isDeviated (bp : Int) (old new : Nat) : Bool :=
  if old = 0 then decide (new ≠ 0)
  else decide (bp * (old : Int) ≤ ((if new ≥ old then new - old else old - new : Nat) : Int) * 10000)

/-- `isDeviated` as the Go code computes it (since fix 85b41e0): the 128-bit product `diff·10000` as (hi, lo) of
    `bits.Mul64`, "above any threshold" when the quotient would not fit 64 bits, else `bits.Div64` -/
def isDeviatedGo (bp : Int) (old new : Nat) : Bool :=
  if old = 0 then decide (new ≠ 0)
  else
    let diff := if new < old then old - new else new - old
    let hi := diff * 10000 / 18446744073709551616
    let lo := diff * 10000 % 18446744073709551616
    if hi ≥ old then true
    else
      let dev := (hi * 18446744073709551616 + lo) / old
      decide (bp ≤ 0) || decide (bp.toNat ≤ dev)

/-- `calculateAssignedTime`: `h` is the validator/timestamp hash reduced to uint64 -/
def assignedTime (h : Nat) (interval ts : Int) (dpOffset dpStart : Nat) : Int :=
  ts + interval * ((h % dpOffset + dpStart : Nat) : Int) / 100

/-- `shouldUpdatePrice` -/
def shouldUpdate (cooldown : Int) (h dpOffset dpStart : Nat) (feed : Feed) (old : OldPrice) (new : NewPrice) (now : Int) : Bool :=
  if now < old.ts + cooldown + timeBuffer then false
  else if now ≥ assignedTime h feed.interval old.ts dpOffset dpStart then true
  else if old.status ≠ new.status then true
  else isDeviated feed.deviationBP old.price new.price

/-- `isNonUrgentUnavailablePrices` (deadline from the stored price; 0 when none) -/
def nonUrgentUnavailable (feed : Feed) (old : Option OldPrice) (new : NewPrice) (now : Int) : Bool :=
  if new.status = statusUnavailable then
    let deadline := ((old.map (·.ts)).getD 0) + feed.interval
    !(decide (now > deadline - fixedIntervalOffset))
  else false

/-- the signaller's decision for one non-pending signal whose price the price service returned -/
def decideSubmit (cooldown : Int) (h dpOffset dpStart : Nat) (feed : Option Feed) (old : Option OldPrice) (new : NewPrice) (now : Int) : Bool :=
  match feed with
  | none => false
  | some f =>
    let valid := match old with
      | none => true
      | some o => shouldUpdate cooldown h dpOffset dpStart f o new now
    valid && !nonUrgentUnavailable f old new now

/-- the chain's rule for one price of `MsgSubmitSignalPrices` at block time `blockTime` -/
def chainAccepts (inCurrentFeeds : Bool) (cooldown : Int) (old : Option OldPrice) (blockTime : Int) : Bool :=
  inCurrentFeeds && match old with
    | none => true
    | some o => o.status = 0 || decide (blockTime ≥ o.ts + cooldown)

/-! ### in-flight bookkeeping -/
structure Flight where
  pending : List String        -- `pendingSignalIDs`
  inFlight : List (List String) -- submissions handed to the submitter and not yet finished

/-- one signaller round: only non-pending signals are considered; the chosen ones become pending and travel as ONE
    submission (nothing is sent when none is chosen) -/
def signalRound (s : Flight) (allSignals : List String) (chosen : String → Bool) : Flight :=
  let cand := (allSignals.filter fun x => !s.pending.contains x).filter chosen
  if cand.isEmpty then s else { pending := s.pending ++ cand, inFlight := s.inFlight ++ [cand] }

/-- the submitter finishes a submission (any outcome): `defer removePending` -/
def finish (s : Flight) (sub : List String) : Flight :=
  { pending := s.pending.filter fun x => !sub.contains x, inFlight := s.inFlight.erase sub }

/-! ### the multi-node query helper (`grogu/querier/utils.go: getMaxBlockHeightResponse`) -/

/-- the answer with the greatest block height among the nodes that answered (a height of 0 is never taken) -/
def bestHeight (answers : List (Option Nat)) : Nat :=
  answers.foldl (fun acc a => match a with | some h => max acc h | none => acc) 0

/-- one query: `maxH` is the greatest height returned so far (shared by all queries of the daemon).  Returns the new
    maximum and the height of the returned answer, `none` when nothing is returned (no usable answer, or the best
    answer is older than one returned before) -/
def queryStep (maxH : Nat) (answers : List (Option Nat)) : Nat × Option Nat :=
  let h := bestHeight answers
  if h = 0 then (maxH, none)
  else if h < maxH then (maxH, none)
  else (h, some h)

/-- the heights of the answers returned over a run of queries -/
def queryRun : Nat → List (List (Option Nat)) → List Nat
  | _, [] => []
  | maxH, a :: rest =>
    match queryStep maxH a with
    | (m, some h) => h :: queryRun m rest
    | (m, none) => queryRun m rest

end BandVerif.Grogu
