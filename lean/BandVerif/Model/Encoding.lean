/-
C11 model — the bytes a group signs.
  message  = Hash(originator) ‖ be64(block time) ‖ be64(signing id) ‖ content      (x/tss/types/helpers.go)
  originator = tag ‖ hashed / fixed-width fields                                     (x/tss/types/originator.go)
  content  = 4-byte tag ‖ payload; payloads are Solidity-ABI encodings (feeds prices, tunnel packet, oracle
             result full / partial), raw text, or pubkey ‖ be64(time) for a group transition.
Bytes are `Nat`s < 256.  Core-only.
-/
namespace BandVerif.Enc

abbrev Bytes := List Nat

/-- k-byte big-endian of n (mod 256^k) -/
def beN : Nat → Nat → Bytes
  | 0, _ => []
  | k + 1, n => beN k (n / 256) ++ [n % 256]

def fromBE (l : Bytes) : Nat := l.foldl (fun a b => a * 256 + b) 0

def be64 (n : Nat) : Bytes := beN 8 n

/-- `EncodeSigning`; `oh` = Hash(originator bytes) -/
def encodeSigning (oh : Bytes) (time sid : Nat) (content : Bytes) : Bytes := oh ++ be64 time ++ be64 sid ++ content

structure Direct where
  chain : Bytes
  requester : Bytes
  memo : Bytes

structure TunnelO where
  chain : Bytes
  tunnelID : Nat
  dstChain : Bytes
  dstAddr : Bytes

/-- `DirectOriginator.Encode` with hash function `H` and tag -/
def directEncode (H : Bytes → Bytes) (tag : Bytes) (o : Direct) : Bytes := tag ++ H o.chain ++ H o.requester ++ H o.memo

/-- `TunnelOriginator.Encode` -/
def tunnelEncode (H : Bytes → Bytes) (tag : Bytes) (o : TunnelO) : Bytes :=
  tag ++ H o.chain ++ be64 o.tunnelID ++ H o.dstChain ++ H o.dstAddr

/-! ### contents without ABI -/
def textContent (tag msg : Bytes) : Bytes := tag ++ msg
def transitionContent (tag pubKey : Bytes) (time : Nat) : Bytes := tag ++ pubKey ++ be64 time

/-! ### Solidity ABI pieces -/
def word (n : Nat) : Bytes := beN 32 n
def two256 : Nat := 2 ^ 256
/-- two's-complement 256-bit word of a signed integer -/
def wordInt (i : Int) : Bytes := word (i % (two256 : Int)).toNat
def toInt256 (n : Nat) : Int := if n < 2 ^ 255 then (n : Int) else (n : Int) - (two256 : Int)

def padLen (n : Nat) : Nat := (32 - n % 32) % 32
def encBytes (bs : Bytes) : Bytes := word bs.length ++ bs ++ List.replicate (padLen bs.length) 0
def encBytesLen (n : Nat) : Nat := 32 + n + padLen n

def rdWord (bs : Bytes) (off : Nat) : Option Nat :=
  if off + 32 ≤ bs.length then some (fromBE ((bs.drop off).take 32)) else none

def rdBytes (bs : Bytes) (off : Nat) : Option Bytes :=
  match rdWord bs off with
  | none => none
  | some n => if off + 32 + n ≤ bs.length then some ((bs.drop (off + 32)).take n) else none

/-- `StringToBytes32`: left-pad with zeros to 32 bytes; `none` when longer than 32 -/
def stringToBytes32 (s : Bytes) : Option Bytes :=
  if s.length > 32 then none else some (List.replicate (32 - s.length) 0 ++ s)

def stripZeros : Bytes → Bytes
  | 0 :: rest => stripZeros rest
  | l => l

structure RelayPrice where
  sid : Bytes        -- 32 bytes
  price : Nat
  deriving DecidableEq, Repr

def encPriceElems : List RelayPrice → Bytes
  | [] => []
  | p :: rest => p.sid ++ word p.price ++ encPriceElems rest

/-- `tuple[]` of (bytes32, uint64): length word then the static elements -/
def encPriceArray (ps : List RelayPrice) : Bytes := word ps.length ++ encPriceElems ps

def rdPriceElems (bs : Bytes) (off : Nat) : Nat → Option (List RelayPrice)
  | 0 => some []
  | n + 1 =>
    if off + 64 ≤ bs.length then
      match rdPriceElems bs (off + 64) n with
      | some rest => some ({ sid := (bs.drop off).take 32, price := fromBE ((bs.drop (off + 32)).take 32) } :: rest)
      | none => none
    else none

def rdPriceArray (bs : Bytes) (off : Nat) : Option (List RelayPrice) :=
  match rdWord bs off with
  | none => none
  | some n => rdPriceElems bs (off + 32) n

/-- feeds price data `(Prices[] prices, int64 timestamp)` -/
def encFeeds (ps : List RelayPrice) (ts : Int) : Bytes := word 64 ++ wordInt ts ++ encPriceArray ps

def decFeeds (bs : Bytes) : Option (List RelayPrice × Int) :=
  match rdWord bs 0, rdWord bs 32 with
  | some off, some t =>
    match rdPriceArray bs off with
    | some ps => some (ps, toInt256 t)
    | none => none
  | _, _ => none

/-- tunnel packet `tuple(uint64 Sequence, Prices[] RelayPrices, int64 CreatedAt)` as single argument -/
def encPacket (seq : Nat) (ps : List RelayPrice) (createdAt : Int) : Bytes :=
  word 32 ++ (word seq ++ word 96 ++ wordInt createdAt ++ encPriceArray ps)

def decPacket (bs : Bytes) : Option (Nat × List RelayPrice × Int) :=
  match rdWord bs 0 with
  | none => none
  | some base =>
    match rdWord bs base, rdWord bs (base + 32), rdWord bs (base + 64) with
    | some seq, some off, some t =>
      match rdPriceArray bs (base + off) with
      | some ps => some (seq, ps, toInt256 t)
      | none => none
    | _, _, _ => none

structure OResult where
  clientID : Bytes
  oracleScriptID : Nat
  calldata : Bytes
  askCount : Nat
  minCount : Nat
  requestID : Nat
  ansCount : Nat
  requestTime : Int
  resolveTime : Int
  resolveStatus : Int
  result : Bytes
  deriving DecidableEq, Repr

/-- `Result.PackFullABI` -/
def encFull (r : OResult) : Bytes :=
  word 32 ++ (word 352 ++ word r.oracleScriptID ++ word (352 + encBytesLen r.clientID.length) ++ word r.askCount ++ word r.minCount ++
    word r.requestID ++ word r.ansCount ++ wordInt r.requestTime ++ wordInt r.resolveTime ++ wordInt r.resolveStatus ++
    word (352 + encBytesLen r.clientID.length + encBytesLen r.calldata.length) ++
    encBytes r.clientID ++ encBytes r.calldata ++ encBytes r.result)

def decFull (bs : Bytes) : Option OResult :=
  match rdWord bs 0 with
  | none => none
  | some b =>
    match rdWord bs b, rdWord bs (b + 32), rdWord bs (b + 64), rdWord bs (b + 96), rdWord bs (b + 128), rdWord bs (b + 160),
          rdWord bs (b + 192), rdWord bs (b + 224), rdWord bs (b + 256), rdWord bs (b + 288), rdWord bs (b + 320) with
    | some o1, some osid, some o2, some ask, some mn, some rid, some ans, some rq, some rs, some st, some o3 =>
      match rdBytes bs (b + o1), rdBytes bs (b + o2), rdBytes bs (b + o3) with
      | some cid, some cd, some res =>
        some { clientID := cid, oracleScriptID := osid, calldata := cd, askCount := ask, minCount := mn, requestID := rid,
               ansCount := ans, requestTime := toInt256 rq, resolveTime := toInt256 rs, resolveStatus := toInt256 st, result := res }
      | _, _, _ => none
    | _, _, _, _, _, _, _, _, _, _, _ => none

structure PResult where
  calldata : Bytes
  oracleScriptID : Nat
  requestID : Nat
  minCount : Nat
  resolveTime : Int
  resolveStatus : Int
  result : Bytes
  deriving DecidableEq, Repr

def OResult.partial (r : OResult) : PResult :=
  { calldata := r.calldata, oracleScriptID := r.oracleScriptID, requestID := r.requestID, minCount := r.minCount,
    resolveTime := r.resolveTime, resolveStatus := r.resolveStatus, result := r.result }

/-- `Result.PackPartialABI` -/
def encPartial (r : PResult) : Bytes :=
  word 32 ++ (word 224 ++ word r.oracleScriptID ++ word r.requestID ++ word r.minCount ++ wordInt r.resolveTime ++
    wordInt r.resolveStatus ++ word (224 + encBytesLen r.calldata.length) ++ encBytes r.calldata ++ encBytes r.result)

def decPartial (bs : Bytes) : Option PResult :=
  match rdWord bs 0 with
  | none => none
  | some b =>
    match rdWord bs b, rdWord bs (b + 32), rdWord bs (b + 64), rdWord bs (b + 96), rdWord bs (b + 128), rdWord bs (b + 160), rdWord bs (b + 192) with
    | some o1, some osid, some rid, some mn, some rs, some st, some o2 =>
      match rdBytes bs (b + o1), rdBytes bs (b + o2) with
      | some cd, some res =>
        some { calldata := cd, oracleScriptID := osid, requestID := rid, minCount := mn, resolveTime := toInt256 rs,
               resolveStatus := toInt256 st, result := res }
      | _, _ => none
    | _, _, _, _, _, _, _ => none

end BandVerif.Enc
