/-
Generic line-protocol driver (core-only: must never import Mathlib so that it links as a lean_exe).

One JSON object per input line.  `{"op":"reset", ...}` starts a new case from `init`.
For every other line the family's `step` gets the whole line, returns the new model state,
the model's own `out` value, and the list of property monitors that fired on the
IMPLEMENTATION's observation (the line's "out").  The driver prints
  DIFF <line> impl=<json> model=<json>
  MONITOR <line> <name> <detail-json>
  ERROR <line> <msg>
and finally `SUMMARY lines=.. diffs=.. monitors=.. errors=..`.
-/
import Lean.Data.Json

open Lean

namespace BandVerif

structure Fired where
  name : String
  detail : Json := Json.null

structure Family (σ : Type) where
  init : Json → σ                       -- state for a fresh case; gets the reset line
  step : σ → Json → Except String (σ × Json × List Fired)
  /-- when false the model's `out` is not compared (monitor-only families) -/
  compare : Bool := true
  /-- after a DIFF: rebuild the model state from the implementation's observation (the line) so that the
      spec monitors keep watching the implementation's own trajectory; without it the case is skipped -/
  resync : Option (σ → σ → Json → Except String σ) := none   -- pre-state, model post-state, line

def jget (j : Json) (k : String) : Except String Json :=
  match j.getObjVal? k with
  | .ok v => .ok v
  | .error _ => .error s!"missing field {k}"

def jnat (j : Json) (k : String) : Except String Nat := do
  let v ← jget j k
  match v with
  | .num n => if n.exponent == 0 && n.mantissa ≥ 0 then pure n.mantissa.toNat else throw s!"field {k}: not a nat"
  | .str s => match s.toNat? with
    | some n => pure n
    | none => throw s!"field {k}: not a nat string"
  | _ => throw s!"field {k}: not a number"

def jint (j : Json) (k : String) : Except String Int := do
  let v ← jget j k
  match v with
  | .num n => if n.exponent == 0 then pure n.mantissa else throw s!"field {k}: not an int"
  | .str s => match s.toInt? with
    | some n => pure n
    | none => throw s!"field {k}: not an int string"
  | _ => throw s!"field {k}: not a number"

def jstr (j : Json) (k : String) : Except String String := do
  let v ← jget j k
  match v with
  | .str s => pure s
  | _ => throw s!"field {k}: not a string"

def jbool (j : Json) (k : String) : Except String Bool := do
  let v ← jget j k
  match v with
  | .bool b => pure b
  | _ => throw s!"field {k}: not a bool"

def jarr (j : Json) (k : String) : Except String (List Json) := do
  let v ← jget j k
  match v with
  | .arr a => pure a.toList
  | .null => pure []
  | _ => throw s!"field {k}: not an array"

def asNat (v : Json) : Except String Nat :=
  match v with
  | .num n => if n.exponent == 0 && n.mantissa ≥ 0 then pure n.mantissa.toNat else throw "not a nat"
  | .str s => match s.toNat? with
    | some n => pure n
    | none => throw "not a nat string"
  | _ => throw "not a number"

def asInt (v : Json) : Except String Int :=
  match v with
  | .num n => if n.exponent == 0 then pure n.mantissa else throw "not an int"
  | .str s => match s.toInt? with
    | some n => pure n
    | none => throw "not an int string"
  | _ => throw "not a number"

def asStr (v : Json) : Except String String :=
  match v with
  | .str s => pure s
  | _ => throw "not a string"

def jnatList (j : Json) (k : String) : Except String (List Nat) := do
  (← jarr j k).mapM asNat

def jintList (j : Json) (k : String) : Except String (List Int) := do
  (← jarr j k).mapM asInt

def jstrList (j : Json) (k : String) : Except String (List String) := do
  (← jarr j k).mapM asStr

def mkObj (l : List (String × Json)) : Json := Json.mkObj l
def jn (n : Nat) : Json := Json.num (JsonNumber.fromNat n)
def ji (n : Int) : Json := Json.num (JsonNumber.fromInt n)
def js (s : String) : Json := Json.str s
def jb (b : Bool) : Json := Json.bool b
def jl (l : List Json) : Json := Json.arr l.toArray

/-- structural equality on canonical renderings (object keys are sorted by `compress`). -/
def jsonEq (a b : Json) : Bool := a.compress == b.compress

structure Counters where
  /-- set after the first DIFF/ERROR of a case: model and implementation states may have
      diverged, so the rest of the case is skipped (counted in `skipped`) until the next reset -/
  poisoned : Bool := false
  skipped : Nat := 0
  lines : Nat := 0
  diffs : Nat := 0
  monitors : Nat := 0
  errors : Nat := 0

partial def driverLoop {σ : Type} (fam : Family σ) (h : IO.FS.Stream) (st : σ) (c : Counters)
    (maxReport : Nat := 50) : IO Counters := do
  let line ← h.getLine
  if line.isEmpty then return c
  let lineNo := c.lines + 1
  let c := { c with lines := lineNo }
  let t := line.trimAscii.toString
  if t.isEmpty then return ← driverLoop fam h st c maxReport
  match Json.parse t with
  | .error e =>
    IO.println s!"ERROR {lineNo} parse: {e}"
    driverLoop fam h st { c with errors := c.errors + 1 } maxReport
  | .ok j =>
    match j.getObjValAs? String "op" with
    | .ok "reset" => driverLoop fam h (fam.init j) { c with poisoned := false } maxReport
    | _ =>
      if c.poisoned then driverLoop fam h st { c with skipped := c.skipped + 1 } maxReport else
      match fam.step st j with
      | .error e =>
        if c.errors < maxReport then IO.println s!"ERROR {lineNo} {e}"
        driverLoop fam h st { c with errors := c.errors + 1, poisoned := true } maxReport
      | .ok (st', mout, fired) =>
        let mut c := c
        let mut st' := st'
        if fam.compare then
          let iout := (j.getObjVal? "out").toOption.getD Json.null
          if !jsonEq iout mout then
            if c.diffs < maxReport then
              IO.println s!"DIFF {lineNo} impl={iout.compress} model={mout.compress}"
            match fam.resync with
            | some f =>
              match f st st' j with
              | .ok st'' => st' := st''; c := { c with diffs := c.diffs + 1 }
              | .error _ => c := { c with diffs := c.diffs + 1, poisoned := true }
            | none => c := { c with diffs := c.diffs + 1, poisoned := true }
        for f in fired do
          if c.monitors < maxReport then
            IO.println s!"MONITOR {lineNo} {f.name} {f.detail.compress}"
          c := { c with monitors := c.monitors + 1 }
        driverLoop fam h st' c maxReport

def runDriver {σ : Type} (fam : Family σ) : IO UInt32 := do
  let stdin ← IO.getStdin
  let c ← driverLoop fam stdin (fam.init Json.null) {}
  IO.println s!"SUMMARY lines={c.lines} diffs={c.diffs} monitors={c.monitors} errors={c.errors} skipped={c.skipped}"
  return 0

end BandVerif
