/-
Go fixed-width integer arithmetic on `Int`: the translator (harness/internal/xt) renders Go
`+ - * / %` on int64/uint64 operands as these wrap-around operations.
Go's `/` and `%` truncate toward zero and panic on a zero divisor; here a zero divisor yields 0
(Lean's `Int.tdiv x 0 = 0`) — theorems that depend on a quotient state the non-zero hypothesis.
-/
namespace i64
def wrap (x : Int) : Int := (x + 9223372036854775808) % 18446744073709551616 - 9223372036854775808
def add (a b : Int) : Int := wrap (a + b)
def sub (a b : Int) : Int := wrap (a - b)
def mul (a b : Int) : Int := wrap (a * b)
def neg (a : Int) : Int := wrap (-a)
def div (a b : Int) : Int := wrap (Int.tdiv a b)
def mod (a b : Int) : Int := Int.tmod a b
def InRange (x : Int) : Prop := -9223372036854775808 ≤ x ∧ x < 9223372036854775808
theorem wrap_of_inRange {x : Int} (h : InRange x) : wrap x = x := by
  unfold wrap; unfold InRange at h; omega
theorem wrap_inRange (x : Int) : InRange (wrap x) := by
  unfold wrap InRange; omega
end i64

namespace u64
def wrap (x : Int) : Int := x % 18446744073709551616
def add (a b : Int) : Int := wrap (a + b)
def sub (a b : Int) : Int := wrap (a - b)
def mul (a b : Int) : Int := wrap (a * b)
def neg (a : Int) : Int := wrap (-a)
def div (a b : Int) : Int := Int.tdiv a b
def mod (a b : Int) : Int := Int.tmod a b
def InRange (x : Int) : Prop := 0 ≤ x ∧ x < 18446744073709551616
theorem wrap_of_inRange {x : Int} (h : InRange x) : wrap x = x := by
  unfold wrap; unfold InRange at h; omega
theorem wrap_inRange (x : Int) : InRange (wrap x) := by
  unfold wrap InRange; omega
end u64
