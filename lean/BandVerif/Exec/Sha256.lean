/-
Executable SHA-256, HMAC-SHA256 and HMAC-DRBG (NIST SP 800-90A, as oasis-core's drbg) — reference
code used by the drivers to recompute what the Go side computes. Core-only. These are compared with
the Go implementations byte for byte by the correspondence runs (a test, labelled a test); no
theorem depends on a property of the hash beyond its being a function.
-/
namespace BandVerif.Exec

def shaK : Array UInt32 := #[
  0x428a2f98, 0x71374491, 0xb5c0fbcf, 0xe9b5dba5, 0x3956c25b, 0x59f111f1, 0x923f82a4, 0xab1c5ed5,
  0xd807aa98, 0x12835b01, 0x243185be, 0x550c7dc3, 0x72be5d74, 0x80deb1fe, 0x9bdc06a7, 0xc19bf174,
  0xe49b69c1, 0xefbe4786, 0x0fc19dc6, 0x240ca1cc, 0x2de92c6f, 0x4a7484aa, 0x5cb0a9dc, 0x76f988da,
  0x983e5152, 0xa831c66d, 0xb00327c8, 0xbf597fc7, 0xc6e00bf3, 0xd5a79147, 0x06ca6351, 0x14292967,
  0x27b70a85, 0x2e1b2138, 0x4d2c6dfc, 0x53380d13, 0x650a7354, 0x766a0abb, 0x81c2c92e, 0x92722c85,
  0xa2bfe8a1, 0xa81a664b, 0xc24b8b70, 0xc76c51a3, 0xd192e819, 0xd6990624, 0xf40e3585, 0x106aa070,
  0x19a4c116, 0x1e376c08, 0x2748774c, 0x34b0bcb5, 0x391c0cb3, 0x4ed8aa4a, 0x5b9cca4f, 0x682e6ff3,
  0x748f82ee, 0x78a5636f, 0x84c87814, 0x8cc70208, 0x90befffa, 0xa4506ceb, 0xbef9a3f7, 0xc67178f2]

@[inline] def rotr (x : UInt32) (n : UInt32) : UInt32 := (x >>> n) ||| (x <<< (32 - n))

def shaPad (msg : ByteArray) : ByteArray := Id.run do
  let len := msg.size
  let mut b := msg.push 0x80
  while b.size % 64 != 56 do
    b := b.push 0
  let bits : UInt64 := (UInt64.ofNat len) * 8
  for i in [0:8] do
    b := b.push (UInt8.ofNat ((bits >>> (UInt64.ofNat (8 * (7 - i)))).toNat % 256))
  return b

def shaBlock (h : Array UInt32) (blk : ByteArray) (off : Nat) : Array UInt32 := Id.run do
  let mut w : Array UInt32 := Array.replicate 64 0
  for i in [0:16] do
    let b0 := (blk.get! (off + 4*i)).toUInt32
    let b1 := (blk.get! (off + 4*i + 1)).toUInt32
    let b2 := (blk.get! (off + 4*i + 2)).toUInt32
    let b3 := (blk.get! (off + 4*i + 3)).toUInt32
    w := w.set! i ((b0 <<< 24) ||| (b1 <<< 16) ||| (b2 <<< 8) ||| b3)
  for i in [16:64] do
    let w15 := w[i-15]!
    let w2 := w[i-2]!
    let s0 := rotr w15 7 ^^^ rotr w15 18 ^^^ (w15 >>> 3)
    let s1 := rotr w2 17 ^^^ rotr w2 19 ^^^ (w2 >>> 10)
    w := w.set! i (w[i-16]! + s0 + w[i-7]! + s1)
  let mut a := h[0]!; let mut b := h[1]!; let mut c := h[2]!; let mut d := h[3]!
  let mut e := h[4]!; let mut f := h[5]!; let mut g := h[6]!; let mut hh := h[7]!
  for i in [0:64] do
    let s1 := rotr e 6 ^^^ rotr e 11 ^^^ rotr e 25
    let ch := (e &&& f) ^^^ ((~~~ e) &&& g)
    let t1 := hh + s1 + ch + shaK[i]! + w[i]!
    let s0 := rotr a 2 ^^^ rotr a 13 ^^^ rotr a 22
    let mj := (a &&& b) ^^^ (a &&& c) ^^^ (b &&& c)
    let t2 := s0 + mj
    hh := g; g := f; f := e; e := d + t1; d := c; c := b; b := a; a := t1 + t2
  return #[h[0]! + a, h[1]! + b, h[2]! + c, h[3]! + d, h[4]! + e, h[5]! + f, h[6]! + g, h[7]! + hh]

def sha256 (msg : ByteArray) : ByteArray := Id.run do
  let p := shaPad msg
  let mut h : Array UInt32 := #[0x6a09e667, 0xbb67ae85, 0x3c6ef372, 0xa54ff53a, 0x510e527f, 0x9b05688c, 0x1f83d9ab, 0x5be0cd19]
  for i in [0:p.size / 64] do
    h := shaBlock h p (64 * i)
  let mut out := ByteArray.empty
  for x in h do
    out := out.push (UInt8.ofNat ((x >>> 24).toNat % 256))
    out := out.push (UInt8.ofNat ((x >>> 16).toNat % 256))
    out := out.push (UInt8.ofNat ((x >>> 8).toNat % 256))
    out := out.push (UInt8.ofNat (x.toNat % 256))
  return out

def hmacSha256 (key msg : ByteArray) : ByteArray :=
  let k0 := if key.size > 64 then sha256 key else key
  let k := Id.run do
    let mut k := k0
    while k.size < 64 do k := k.push 0
    return k
  let ipad := ByteArray.mk (k.data.map (· ^^^ 0x36))
  let opad := ByteArray.mk (k.data.map (· ^^^ 0x5c))
  sha256 (opad ++ sha256 (ipad ++ msg))

structure Drbg where
  k : ByteArray
  v : ByteArray

def Drbg.update (d : Drbg) (provided : ByteArray) : Drbg :=
  let k := hmacSha256 d.k ((d.v.push 0x00) ++ provided)
  let v := hmacSha256 k d.v
  if provided.size == 0 then { k := k, v := v }
  else
    let k := hmacSha256 k ((v.push 0x01) ++ provided)
    let v := hmacSha256 k v
    { k := k, v := v }

def Drbg.new (entropy nonce pers : ByteArray) : Drbg :=
  let d : Drbg := { k := ByteArray.mk (Array.replicate 32 0), v := ByteArray.mk (Array.replicate 32 1) }
  d.update (entropy ++ nonce ++ pers)

/-- one `Read` of 8 bytes, big-endian uint64 (bandrng.Rng.NextUint64) -/
def Drbg.nextUint64 (d : Drbg) : Nat × Drbg :=
  let v := hmacSha256 d.k d.v
  let n := (List.range 8).foldl (fun acc i => acc * 256 + (v.get! i).toNat) 0
  (n, ({ k := d.k, v := v } : Drbg).update ByteArray.empty)

def hexVal (c : Char) : Nat :=
  if '0' ≤ c ∧ c ≤ '9' then c.toNat - '0'.toNat
  else if 'a' ≤ c ∧ c ≤ 'f' then c.toNat - 'a'.toNat + 10
  else if 'A' ≤ c ∧ c ≤ 'F' then c.toNat - 'A'.toNat + 10 else 0

def ofHex (s : String) : ByteArray :=
  let rec go : List Char → ByteArray → ByteArray
    | a :: b :: rest, acc => go rest (acc.push (UInt8.ofNat (hexVal a * 16 + hexVal b)))
    | _, acc => acc
  go s.toList ByteArray.empty

def toHex (b : ByteArray) : String :=
  let hd (n : Nat) : Char := if n < 10 then Char.ofNat (48 + n) else Char.ofNat (87 + n)
  String.ofList (b.data.toList.flatMap fun x => [hd (x.toNat / 16), hd (x.toNat % 16)])

end BandVerif.Exec
