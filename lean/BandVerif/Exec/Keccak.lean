/-
Keccak-256 (the pre-NIST padding 0x01, as used by Ethereum and by pkg/tss `Hash`), over `Nat` lanes
reduced mod 2^64 so that the kernel's GMP-accelerated `Nat` operations evaluate it. Core-only.
-/
namespace BandVerif.Keccak

def mask64 : Nat := 18446744073709551615

def rotl (x n : Nat) : Nat := if n = 0 then x else ((x <<< n) &&& mask64) ||| (x >>> (64 - n))

def roundConstants : List Nat := [
  0x0000000000000001, 0x0000000000008082, 0x800000000000808A, 0x8000000080008000,
  0x000000000000808B, 0x0000000080000001, 0x8000000080008081, 0x8000000000008009,
  0x000000000000008A, 0x0000000000000088, 0x0000000080008009, 0x000000008000000A,
  0x000000008000808B, 0x800000000000008B, 0x8000000000008089, 0x8000000000008003,
  0x8000000000008002, 0x8000000000000080, 0x000000000000800A, 0x800000008000000A,
  0x8000000080008081, 0x8000000000008080, 0x0000000080000001, 0x8000000080008008]

/-- rotation offsets, index x + 5*y -/
def rotc : List Nat := [0, 1, 62, 28, 27, 36, 44, 6, 55, 20, 3, 10, 43, 25, 39, 41, 45, 15, 21, 8, 18, 2, 61, 56, 14]

def get (s : List Nat) (i : Nat) : Nat := s.getD i 0

/-- one round on a 25-lane state (index x + 5*y) -/
def round (s : List Nat) (rc : Nat) : List Nat :=
  let c := (List.range 5).map fun x => get s x ^^^ get s (x + 5) ^^^ get s (x + 10) ^^^ get s (x + 15) ^^^ get s (x + 20)
  let d := (List.range 5).map fun x => get c ((x + 4) % 5) ^^^ rotl (get c ((x + 1) % 5)) 1
  let t := (List.range 25).map fun i => get s i ^^^ get d (i % 5)
  -- rho + pi: B[y, 2x+3y] = rot(A[x,y])
  let b := (List.range 25).map fun j =>
    -- j = X + 5*Y with X = y, Y = (2x+3y)%5  → find source (x,y): y = X, x = solves (2x + 3y) % 5 = Y
    let X := j % 5
    let Y := j / 5
    let y := X
    let x := ((Y + 5 * 3 - 3 * y % 5 + 5) * 3) % 5   -- 2⁻¹ = 3 mod 5
    rotl (get t (x + 5 * y)) (rotc.getD (x + 5 * y) 0)
  let chi := (List.range 25).map fun i =>
    let x := i % 5
    let y := i / 5
    get b i ^^^ ((get b ((x + 1) % 5 + 5 * y) ^^^ mask64) &&& get b ((x + 2) % 5 + 5 * y))
  chi.set 0 (get chi 0 ^^^ rc)

def permute (s : List Nat) : List Nat := roundConstants.foldl round s

def lane (bs : List Nat) : Nat := (bs.zipIdx.map fun (b, i) => b <<< (8 * i)).foldl (· + ·) 0

def lanes (block : List Nat) : List Nat := (List.range 17).map fun i => lane ((block.drop (8 * i)).take 8)

def absorb (s : List Nat) (block : List Nat) : List Nat :=
  let l := lanes block
  (List.range 25).map fun i => get s i ^^^ get l i

def rate : Nat := 136

/-- padded message split in rate-sized blocks (fuel = number of blocks) -/
def blocks : Nat → List Nat → List (List Nat)
  | 0, _ => []
  | n + 1, m => m.take rate :: blocks n (m.drop rate)

def pad (m : List Nat) : List Nat :=
  let q := rate - m.length % rate
  if q = 1 then m ++ [0x81] else m ++ [0x01] ++ List.replicate (q - 2) 0 ++ [0x80]

def laneBytes (x : Nat) : List Nat := (List.range 8).map fun i => (x >>> (8 * i)) &&& 255

/-- Keccak-256 of a byte list (bytes as `Nat` < 256) -/
def keccak256 (m : List Nat) : List Nat :=
  let p := pad m
  let s := (blocks (p.length / rate) p).foldl (fun s b => permute (absorb s b)) (List.replicate 25 0)
  ((List.range 4).map fun i => laneBytes (get s i)).flatten

def ofString (s : String) : List Nat := s.toUTF8.toList.map (·.toNat)

def hexDigit (n : Nat) : Char := "0123456789abcdef".toList.getD n '0'
def toHex (l : List Nat) : String := String.ofList (l.flatMap fun b => [hexDigit (b / 16), hexDigit (b % 16)])

end BandVerif.Keccak
